(* Lint/SensProofs.v — proofs about the sensitivity-list lint model of Lint/Sens.v. *)
From Coq Require Import List NArith Bool Lia Permutation Sorted.
Import ListNotations.
From RH Require Import Lint.Sens.
Open Scope N_scope.
#[local] Arguments N.add : simpl never.
#[local] Arguments N.sub : simpl never.
#[local] Arguments N.mul : simpl never.
#[local] Arguments N.eqb : simpl never.
#[local] Arguments N.ltb : simpl never.
#[local] Arguments N.leb : simpl never.
#[local] Arguments N.min : simpl never.
#[local] Arguments N.max : simpl never.

(* ------------------------------------------------------------------------------------------ *)
(* induction principles for the nested types                                                    *)
(* ------------------------------------------------------------------------------------------ *)
Section ExprInd.
Variable P : expr -> Prop.
Hypothesis HLit : forall sp, P (ELit sp).
Hypothesis HDesig : forall sp d, P (EDesig sp d).
Hypothesis HSel : forall sp p suf, P p -> P (ESelected sp p suf).
Hypothesis HSlice : forall sp p bs, P p -> Forall P bs -> P (ESlice sp p bs).
Hypothesis HAttr : forall sp p k arg, P p -> match arg with Some a => P a | None => True end -> P (EAttr sp p k arg).
Hypothesis HCall : forall sp p args, P p -> Forall P args -> P (ECall sp p args).
Hypothesis HUnary : forall sp e, P e -> P (EUnary sp e).
Hypothesis HBinary : forall sp l r, P l -> P r -> P (EBinary sp l r).
Hypothesis HAgg : forall sp es, Forall P es -> P (EAggregate sp es).
Hypothesis HQual : forall sp e, P e -> P (EQualified sp e).
Hypothesis HParen : forall sp e, P e -> P (EParen sp e).

Lemma expr_ind' : forall e, P e.
Proof.
  fix IH 1.
  assert (go : forall l, Forall P l).
  { fix IHl 1. intros [|x r]; constructor; [apply IH | apply IHl]. }
  intros [sp|sp d|sp p suf|sp p bs|sp p k arg|sp p args|sp x|sp l r|sp es|sp x|sp x].
  - apply HLit.
  - apply HDesig.
  - apply HSel, IH.
  - apply HSlice; [apply IH | apply go].
  - apply HAttr; [apply IH | destruct arg; [apply IH | exact I]].
  - apply HCall; [apply IH | apply go].
  - apply HUnary, IH.
  - apply HBinary; apply IH.
  - apply HAgg, go.
  - apply HQual, IH.
  - apply HParen, IH.
Qed.
End ExprInd.

Section StmtInd.
Variable P : stmt -> Prop.
Hypothesis HSig : forall t r, P (SSigAssign t r).
Hypothesis HVar : forall t r, P (SVarAssign t r).
Hypothesis HForce : forall t r, P (SForce t r).
Hypothesis HRel : forall t, P (SRelease t).
Hypothesis HIf : forall bs els, Forall (fun b : expr * list stmt => Forall P (snd b)) bs -> Forall P els -> P (SIf bs els).
Hypothesis HCase : forall sel alts, Forall (Forall P) alts -> P (SCase sel alts).
Hypothesis HLoop : forall it body, Forall P body -> P (SLoop it body).
Hypothesis HCall : forall sp p args, P (SCall sp p args).
Hypothesis HAssert : forall c r s, P (SAssert c r s).
Hypothesis HReport : forall m s, P (SReport m s).
Hypothesis HNext : forall c, P (SNext c).
Hypothesis HExit : forall c, P (SExit c).
Hypothesis HReturn : forall e, P (SReturn e).
Hypothesis HNull : P SNull.
Hypothesis HWait : forall o u f, P (SWait o u f).

Lemma stmt_ind' : forall s, P s.
Proof.
  fix IH 1.
  assert (go : forall l, Forall P l).
  { fix IHl 1. intros [|x r]; constructor; [apply IH | apply IHl]. }
  assert (gob : forall l : list (expr * list stmt), Forall (fun b => Forall P (snd b)) l).
  { fix IHl 1. intros [|[c b] r]; constructor; [apply go | apply IHl]. }
  assert (goa : forall l : list (list stmt), Forall (Forall P) l).
  { fix IHl 1. intros [|b r]; constructor; [apply go | apply IHl]. }
  intros [t r|t r|t r|t|bs els|sel alts|it body|sp p args|c r s|m s|c|c|e| |o u f].
  - apply HSig.
  - apply HVar.
  - apply HForce.
  - apply HRel.
  - apply HIf; [apply gob | apply go].
  - apply HCase, goa.
  - apply HLoop, go.
  - apply HCall.
  - apply HAssert.
  - apply HReport.
  - apply HNext.
  - apply HExit.
  - apply HReturn.
  - apply HNull.
  - apply HWait.
Qed.
End StmtInd.

(* ------------------------------------------------------------------------------------------ *)
(* small list facts                                                                             *)
(* ------------------------------------------------------------------------------------------ *)
Lemma nil_b_nil : forall A (l : list A), nil_b l = true -> l = [].
Proof. intros A [|x r] H; [reflexivity | discriminate]. Qed.

Lemma flat_map_app' : forall A B (f : A -> list B) l1 l2, flat_map f (l1 ++ l2) = flat_map f l1 ++ flat_map f l2.
Proof. intros; induction l1 as [|x r IH]; simpl; [reflexivity | rewrite IH, app_assoc; reflexivity]. Qed.

Lemma flat_map_flat_map : forall A B C (f : A -> list B) (g : B -> list C) l,
  flat_map g (flat_map f l) = flat_map (fun x => flat_map g (f x)) l.
Proof. intros; induction l as [|x r IH]; simpl; [reflexivity | rewrite flat_map_app', IH; reflexivity]. Qed.

Lemma flat_map_ext_Forall : forall A B (f g : A -> list B) l,
  Forall (fun x => f x = g x) l -> flat_map f l = flat_map g l.
Proof. intros A B f g l H; induction H as [|x r Hx _ IH]; simpl; [reflexivity | rewrite Hx, IH; reflexivity]. Qed.

Lemma perm_flat_map_pointwise : forall A B (f g : A -> list B) l,
  Forall (fun x => Permutation (f x) (g x)) l -> Permutation (flat_map f l) (flat_map g l).
Proof. intros A B f g l H; induction H as [|x r Hx _ IH]; simpl; [constructor | apply Permutation_app; assumption]. Qed.

Lemma perm_flat_map_split : forall A B (f g : A -> list B) l,
  Permutation (flat_map f l ++ flat_map g l) (flat_map (fun x => f x ++ g x) l).
Proof.
  intros A B f g l; induction l as [|x r IH]; simpl; [constructor|].
  repeat rewrite <- app_assoc. apply Permutation_app_head.
  etransitivity; [apply Permutation_app_swap_app|].
  apply Permutation_app_head, IH.
Qed.

Lemma memN_In : forall k l, memN k l = true <-> In k l.
Proof.
  intros k l; induction l as [|x r IH]; simpl; [split; [discriminate | tauto]|].
  rewrite orb_true_iff, IH, N.eqb_eq. split; intros [H|H]; auto.
Qed.
Lemma memN_false : forall k l, memN k l = false <-> ~ In k l.
Proof. intros; rewrite <- memN_In; destruct (memN k l); split; congruence. Qed.

(* ------------------------------------------------------------------------------------------ *)
(* events of the walker vs. textual occurrences                                                 *)
(* ------------------------------------------------------------------------------------------ *)
Section Corr.
Variable root : N -> ent_kind.

Definition moe (evs : list event) : list mention :=
  flat_map (fun e => if is_signal root (ev_id e) then [(ev_id e, ev_sp e, negb (ev_ro e))] else []) evs.
Definition role_of (ro : bool) : role := if ro then RPrefix else RValue.

Lemma moe_app : forall a b, moe (a ++ b) = moe a ++ moe b.
Proof. intros; apply flat_map_app'. Qed.
Lemma moe_flat_map : forall A (f : A -> list event) l, moe (flat_map f l) = flat_map (fun x => moe (f x)) l.
Proof. intros; apply flat_map_flat_map. Qed.

Lemma moe_desig : forall d sp ro, moe (ev_desig d sp ro) = mention_of root (role_of ro) d sp.
Proof.
  intros [i|] sp ro; simpl; [|reflexivity].
  destruct (is_signal root i); [|reflexivity]. destruct ro; reflexivity.
Qed.

Lemma weaken_role_of : forall ro, weaken (role_of ro) = RPrefix.
Proof. intros []; reflexivity. Qed.

Definition expr_ok (e : expr) : Prop :=
  fam_expr root e = true -> forall ro, moe (ev_expr ro e (span_of e)) = occ_expr root (role_of ro) e.

Lemma args_ok : forall args, Forall expr_ok args -> forallb (fam_expr root) args = true ->
  moe (flat_map (fun a => ev_expr false a (span_of a)) args) = flat_map (occ_expr root RValue) args.
Proof.
  intros args H; induction H as [|a r Ha _ IH]; intros Hf; [reflexivity|].
  simpl in Hf. apply andb_true_iff in Hf. destruct Hf as [Hfa Hfr].
  simpl. rewrite moe_app, (Ha Hfa false), (IH Hfr). reflexivity.
Qed.

Lemma ev_expr_occ : forall e, expr_ok e.
Proof.
  induction e using expr_ind'; unfold expr_ok in *; intros Hf ro; simpl in Hf |- *.
  - reflexivity.
  - apply moe_desig.
  - rewrite moe_app, moe_desig, (IHe Hf true), weaken_role_of. reflexivity.
  - apply andb_true_iff in Hf. destruct Hf as [Hp Hb].
    rewrite (IHe Hp ro), (nil_b_nil _ _ Hb), app_nil_r. reflexivity.
  - destruct k.
    + apply andb_true_iff in Hf. destruct Hf as [Hp Ha].
      rewrite moe_app, (IHe Hp false). f_equal.
      destruct arg as [a|]; simpl; [apply (H Ha false) | reflexivity].
    + discriminate.
    + rewrite (nil_b_nil _ _ Hf). reflexivity.
  - apply andb_true_iff in Hf. destruct Hf as [Hp Ha].
    rewrite moe_app, (IHe Hp ro), (args_ok _ H Ha). reflexivity.
  - apply (IHe Hf false).
  - apply andb_true_iff in Hf. destruct Hf as [Hl Hr].
    rewrite moe_app, (IHe1 Hl false), (IHe2 Hr false). reflexivity.
  - apply (args_ok _ H Hf).
  - apply (IHe Hf false).
  - apply (IHe Hf false).
Qed.

Lemma ev_occ : forall e, fam_expr root e = true -> moe (ev e) = occ_val root e.
Proof. intros e H. apply (ev_expr_occ e H false). Qed.
Lemma ev_opt_occ : forall o, fam_opt root o = true -> moe (ev_opt o) = opt_list (occ_val root) o.
Proof. intros [e|] H; simpl; [apply ev_occ, H | reflexivity]. Qed.

Lemma ev_range_occ : forall r, fam_range root r = true -> moe (ev_range r) = occ_range root r.
Proof.
  intros [l h|a] H; simpl in *.
  - apply andb_true_iff in H. destruct H as [Hl Hh]. rewrite moe_app, (ev_occ _ Hl), (ev_occ _ Hh). reflexivity.
  - apply ev_occ, H.
Qed.
Lemma ev_drange_occ : forall d, fam_drange root d = true -> moe (ev_drange d) = occ_drange root d.
Proof.
  intros [tm r|r] H; simpl in *.
  - apply andb_true_iff in H. destruct H as [Ht Hr]. rewrite moe_app, (ev_occ _ Ht). f_equal.
    destruct r as [r|]; simpl; [apply ev_range_occ, Hr | reflexivity].
  - apply ev_range_occ, H.
Qed.
Lemma ev_iter_occ : forall it, fam_iter root it = true -> moe (ev_iter it) = occ_iter root it.
Proof.
  intros [r|c|] H; simpl in *; [apply ev_drange_occ, H | apply ev_occ, H | reflexivity].
Qed.
Lemma ev_wave_occ : forall w, fam_wave root w = true -> moe (ev_wave w) = occ_wave root w.
Proof.
  intros [els|] H; simpl in *; [|reflexivity].
  induction els as [|[v a] r IH]; simpl in *; [reflexivity|].
  apply andb_true_iff in H. destruct H as [Hx Hr]. apply andb_true_iff in Hx. destruct Hx as [Hv Ha].
  rewrite moe_app, (ev_occ _ Hv), (IH Hr), (nil_b_nil _ _ Ha), app_nil_r. reflexivity.
Qed.

Lemma ev_rhs_occ : forall A (f : A -> list event) (g : A -> list mention) (fam : A -> bool) t r,
  (forall a, fam a = true -> moe (f a) = g a) ->
  fam_assign root fam t r = true -> moe (ev_rhs f r) = occ_assign root g t r.
Proof.
  intros A f g fam t r Hfg H. unfold fam_assign in H. apply andb_true_iff in H. destruct H as [Ht H].
  apply nil_b_nil in Ht. destruct r as [a|cs els|sel alts]; simpl; rewrite Ht; simpl.
  - apply Hfg, H.
  - apply andb_true_iff in H. destruct H as [Hcs Hels]. rewrite moe_app. f_equal.
    + induction cs as [|[a c] r IH]; simpl in *; [reflexivity|].
      apply andb_true_iff in Hcs. destruct Hcs as [Hx Hr]. apply andb_true_iff in Hx. destruct Hx as [Ha Hc].
      rewrite !moe_app, (Hfg _ Ha), (ev_occ _ Hc), (IH Hr). reflexivity.
    + destruct els as [a|]; simpl; [apply Hfg, Hels | reflexivity].
  - apply andb_true_iff in H. destruct H as [Hs Ha]. rewrite moe_app, (ev_occ _ Hs). f_equal.
    induction alts as [|a r IH]; simpl in *; [reflexivity|].
    apply andb_true_iff in Ha. destruct Ha as [Hx Hr]. rewrite moe_app, (Hfg _ Hx), (IH Hr). reflexivity.
Qed.

Lemma mention_eqb_eq : forall a b, mention_eqb a b = true -> a = b.
Proof.
  intros [[i [s e]] v] [[i' [s' e']] v'] H. unfold mention_eqb in H.
  repeat (apply andb_true_iff in H; destruct H as [H ?]).
  apply N.eqb_eq in H. apply N.eqb_eq in H2. apply N.eqb_eq in H1. apply eqb_prop in H0. subst. reflexivity.
Qed.
Lemma mentions_eqb_eq : forall a b, mentions_eqb a b = true -> a = b.
Proof.
  induction a as [|x r IH]; intros [|y r'] H; simpl in H; try discriminate; [reflexivity|].
  apply andb_true_iff in H. destruct H as [Hx Hr]. rewrite (mention_eqb_eq _ _ Hx), (IH _ Hr). reflexivity.
Qed.

Lemma mention_of_none : forall d sp, mention_of root RNone d sp = [].
Proof. intros [i|] sp; simpl; [destruct (is_signal root i); reflexivity | reflexivity]. Qed.

(* a name that is written: only its index expressions and slice ranges are read *)
Definition written_ok (e : expr) : Prop :=
  fam_written root e = true -> moe (ev_written e) = occ_expr root RNone e.
Lemma ev_written_occ : forall e, written_ok e.
Proof.
  induction e using expr_ind'; unfold written_ok in *; intros Hf; simpl in Hf.
  - reflexivity.
  - simpl. symmetry. apply mention_of_none.
  - simpl. rewrite (IHe Hf), mention_of_none, app_nil_r. reflexivity.
  - apply andb_true_iff in Hf. destruct Hf as [Hp Hb]. simpl.
    rewrite moe_app, (IHe Hp). f_equal. apply args_ok; [|exact Hb].
    apply Forall_forall. intros a _. apply ev_expr_occ.
  - apply (ev_expr_occ (EAttr sp e k arg) Hf false).
  - apply andb_true_iff in Hf. destruct Hf as [Hp Ha]. simpl.
    rewrite moe_app, (IHe Hp). f_equal. apply args_ok; [|exact Ha].
    apply Forall_forall. intros a _. apply ev_expr_occ.
  - apply (ev_expr_occ (EUnary sp e) Hf false).
  - apply (ev_expr_occ (EBinary sp e1 e2) Hf false).
  - apply (ev_expr_occ (EAggregate sp es) Hf false).
  - apply (ev_expr_occ (EQualified sp e) Hf false).
  - apply (ev_expr_occ (EParen sp e) Hf false).
Qed.

(* what is not a name is analysed as an expression whatever the mode; its occurrences do not depend on the role *)
Lemma not_name_written : forall e, is_name e = false ->
  fam_written root e = fam_expr root e /\ occ_expr root RNone e = occ_expr root RValue e.
Proof. intros e H; destruct e; try discriminate; split; reflexivity. Qed.

Lemma ev_args_occ : forall sp callee args idx,
  forallb (fun a : assoc => match a_mode a with
                            | MOut => fam_written root (a_actual a)
                            | _ => fam_expr root (a_actual a)
                            end) args = true ->
  resolved_args root callee idx args = true ->
  moe (ev_args root VNow sp callee idx args)
  = flat_map (fun a : assoc => occ_expr root (role_of_mode (a_mode a)) (a_actual a)) args.
Proof.
  intros sp callee args; induction args as [|a r IH]; intros idx Hf Hr; [reflexivity|].
  simpl in Hf, Hr. apply andb_true_iff in Hf. apply andb_true_iff in Hr.
  destruct Hf as [Hfa Hfr]. destruct Hr as [Hra Hrr]. apply eqb_prop in Hra.
  simpl. rewrite moe_app, (IH _ Hfr Hrr). f_equal. rewrite Hra.
  destruct (a_mode a); simpl; try (rewrite andb_false_r; apply (ev_expr_occ _ Hfa false)).
  rewrite andb_true_r. destruct (is_name (a_actual a)) eqn:Nm.
  - apply (ev_written_occ _ Hfa).
  - destruct (not_name_written _ Nm) as [E1 E2]. rewrite E2. rewrite E1 in Hfa. apply (ev_expr_occ _ Hfa false).
Qed.

Definition stmt_ok (s : stmt) : Prop :=
  fam_stmt root s = true -> resolved_stmt root s = true ->
  Permutation (moe (ev_stmt root VNow s)) (occ_stmt root s).

Lemma stmts_ok : forall ss, Forall stmt_ok ss ->
  forallb (fam_stmt root) ss = true -> forallb (resolved_stmt root) ss = true ->
  Permutation (moe (flat_map (ev_stmt root VNow) ss)) (flat_map (occ_stmt root) ss).
Proof.
  intros ss H; induction H as [|s r Hs _ IH]; intros Hf Hn; [constructor|].
  simpl in Hf, Hn. apply andb_true_iff in Hf. apply andb_true_iff in Hn.
  destruct Hf as [Hfs Hfr]. destruct Hn as [Hns Hnr].
  simpl. rewrite moe_app. apply Permutation_app; [apply (Hs Hfs Hns) | apply (IH Hfr Hnr)].
Qed.

Lemma ev_stmt_perm : forall s, stmt_ok s.
Proof.
  induction s using stmt_ind'; unfold stmt_ok; intros Hf Hn; simpl in Hf;
    cbn [ev_stmt ev_own occ_stmt]; rewrite ?app_nil_r.
  - rewrite (ev_rhs_occ _ ev_wave (occ_wave root) (fam_wave root) t r ev_wave_occ Hf). reflexivity.
  - rewrite (ev_rhs_occ _ ev (occ_val root) (fam_expr root) t r ev_occ Hf). reflexivity.
  - rewrite (ev_rhs_occ _ ev (occ_val root) (fam_expr root) t r ev_occ Hf). reflexivity.
  - rewrite (nil_b_nil _ _ Hf). constructor.
  - (* if *)
    apply andb_true_iff in Hf. destruct Hf as [Hfb Hfe].
    simpl in Hn. apply andb_true_iff in Hn. destruct Hn as [Hnb Hne].
    rewrite !moe_app, app_assoc. apply Permutation_app; [|apply (stmts_ok _ H0 Hfe Hne)].
    rewrite !moe_flat_map.
    etransitivity; [apply perm_flat_map_split|].
    apply perm_flat_map_pointwise.
    clear H0 Hfe Hne. induction H as [|[c b] r Hb _ IH]; [constructor|].
    simpl in Hfb, Hnb. apply andb_true_iff in Hfb. apply andb_true_iff in Hnb.
    destruct Hfb as [Hx Hfr]. destruct Hnb as [Hnx Hnr]. apply andb_true_iff in Hx. destruct Hx as [Hc Hbf].
    constructor; [|apply (IH Hfr Hnr)].
    simpl. rewrite (ev_occ _ Hc). apply Permutation_app_head. apply (stmts_ok _ Hb Hbf Hnx).
  - (* case *)
    apply andb_true_iff in Hf. destruct Hf as [Hs Ha]. simpl in Hn.
    rewrite moe_app, (ev_occ _ Hs). apply Permutation_app_head.
    rewrite moe_flat_map. apply perm_flat_map_pointwise.
    induction H as [|b r Hb _ IH]; [constructor|].
    simpl in Ha, Hn. apply andb_true_iff in Ha. apply andb_true_iff in Hn.
    destruct Ha as [Hx Hr]. destruct Hn as [Hnx Hnr].
    constructor; [apply (stmts_ok _ Hb Hx Hnx) | apply (IH Hr Hnr)].
  - (* loop *)
    apply andb_true_iff in Hf. destruct Hf as [Hi Hb]. simpl in Hn.
    rewrite moe_app, (ev_iter_occ _ Hi). apply Permutation_app_head. apply (stmts_ok _ H Hb Hn).
  - (* call *)
    simpl in Hn. rewrite (ev_args_occ sp p args 0%nat Hf Hn). reflexivity.
  - (* assert *)
    apply andb_true_iff in Hf. destruct Hf as [Hf Hs]. apply andb_true_iff in Hf. destruct Hf as [Hc Hr].
    rewrite (ev_occ _ Hc), (nil_b_nil _ _ Hr), (nil_b_nil _ _ Hs), !app_nil_r. reflexivity.
  - apply andb_true_iff in Hf. destruct Hf as [Hm Hs].
    rewrite (ev_occ _ Hm), (nil_b_nil _ _ Hs), app_nil_r. reflexivity.
  - rewrite (ev_opt_occ _ Hf). reflexivity.
  - rewrite (ev_opt_occ _ Hf). reflexivity.
  - rewrite (ev_opt_occ _ Hf). reflexivity.
  - constructor.
  - discriminate.
Qed.

Lemma ev_stmts_perm : forall ss,
  forallb (fam_stmt root) ss = true -> forallb (resolved_stmt root) ss = true ->
  Permutation (moe (ev_stmts root VNow ss)) (occ_stmts root ss).
Proof.
  intros ss. apply stmts_ok. apply Forall_forall. intros s _. apply ev_stmt_perm.
Qed.
End Corr.

(* ------------------------------------------------------------------------------------------ *)
(* association lists: first-match lookup, upsert_min, first_occ, sorting                        *)
(* ------------------------------------------------------------------------------------------ *)
Notation pos x := (sp_start (snd x)).
Definition kv := (N * span)%type.

Fixpoint get (m : list kv) (k : N) : option span :=
  match m with [] => None | (k', v) :: r => if k =? k' then Some v else get r k end.

Lemma get_in : forall m k v, get m k = Some v -> In (k, v) m.
Proof.
  induction m as [|[k' v'] r IH]; intros k v H; simpl in H; [discriminate|].
  destruct (N.eqb_spec k k'); [inversion H; subst; left; reflexivity | right; apply IH, H].
Qed.
Lemma get_none : forall m k, get m k = None <-> ~ In k (map fst m).
Proof.
  induction m as [|[k' v'] r IH]; intros k; simpl; [tauto|].
  destruct (N.eqb_spec k k'); [split; [discriminate | intros H; exfalso; apply H; left; symmetry; assumption]|].
  rewrite IH. split; intros H; [intros [E|E]; [congruence | tauto] | tauto].
Qed.
Lemma in_get_nodup : forall m k v, NoDup (map fst m) -> In (k, v) m -> get m k = Some v.
Proof.
  induction m as [|[k' v'] r IH]; intros k v Hnd Hin; [contradiction|].
  simpl in Hnd. inversion Hnd as [|? ? Hni Hnd']; subst. simpl.
  destruct Hin as [E|Hin].
  - inversion E; subst. rewrite N.eqb_refl. reflexivity.
  - destruct (N.eqb_spec k k'); [subst; exfalso; apply Hni; apply (in_map fst _ _ Hin) | apply IH; assumption].
Qed.
Lemma assoc_mem_get : forall (m : list kv) k, assoc_mem k m = true <-> get m k <> None.
Proof.
  induction m as [|[k' v'] r IH]; intros k; simpl; [split; [discriminate | congruence]|].
  destruct (N.eqb_spec k k'); simpl; [split; [discriminate | reflexivity] | apply IH].
Qed.
Lemma assoc_mem_in : forall (m : list kv) k, assoc_mem k m = true <-> In k (map fst m).
Proof.
  intros m k. rewrite assoc_mem_get. destruct (get m k) eqn:E.
  - split; [intros _; apply get_in in E; apply (in_map fst _ _ E) | discriminate].
  - apply get_none in E. split; [congruence | contradiction].
Qed.

(* upsert_min through `get` *)
Definition upd (o : option span) (sp : span) : option span :=
  match o with None => Some sp | Some sp' => if sp_start sp <? sp_start sp' then Some sp else Some sp' end.

Lemma get_upsert : forall m k sp k',
  get (upsert_min k sp m) k' = if k' =? k then upd (get m k) sp else get m k'.
Proof.
  induction m as [|[k0 v0] r IH]; intros k sp k'; simpl.
  - destruct (k' =? k); reflexivity.
  - destruct (N.eqb_spec k k0).
    + subst k0. simpl.
      destruct (sp_start sp <? sp_start v0); simpl; destruct (N.eqb_spec k' k); reflexivity.
    + simpl. rewrite IH. destruct (N.eqb_spec k' k0).
      * subst k'. destruct (N.eqb_spec k0 k); [congruence | reflexivity].
      * destruct (N.eqb_spec k' k); [subst; destruct (N.eqb_spec k k0); [congruence | reflexivity] | reflexivity].
Qed.

Lemma upsert_keys : forall m k sp,
  map fst (upsert_min k sp m) = if assoc_mem k m then map fst m else map fst m ++ [k].
Proof.
  induction m as [|[k0 v0] r IH]; intros k sp; simpl; [reflexivity|].
  destruct (N.eqb_spec k k0); simpl.
  - subst. destruct (sp_start sp <? sp_start v0); reflexivity.
  - rewrite IH. destruct (assoc_mem k r); reflexivity.
Qed.
Lemma NoDup_snoc : forall A (l : list A) x, NoDup l -> ~ In x l -> NoDup (l ++ [x]).
Proof.
  intros A l x H Hx; induction H as [|y r Hy Hr IH]; simpl; [constructor; [tauto | constructor]|].
  constructor.
  - intros Hin. apply in_app_or in Hin. destruct Hin as [Hin|[E|[]]]; [tauto | subst; apply Hx; left; reflexivity].
  - apply IH. intros Hin. apply Hx. right. assumption.
Qed.
Lemma upsert_nodup : forall m k sp, NoDup (map fst m) -> NoDup (map fst (upsert_min k sp m)).
Proof.
  intros m k sp H. rewrite upsert_keys. destruct (assoc_mem k m) eqn:E; [assumption|].
  apply NoDup_snoc; [assumption|]. intros Hin. apply assoc_mem_in in Hin. congruence.
Qed.

Definition upserts (D m : list kv) : list kv := fold_left (fun m x => upsert_min (fst x) (snd x) m) D m.
Fixpoint acc_min (o : option span) (D : list kv) (k : N) : option span :=
  match D with [] => o | x :: r => acc_min (if k =? fst x then upd o (snd x) else o) r k end.

Lemma get_upserts : forall D m k, get (upserts D m) k = acc_min (get m k) D k.
Proof.
  induction D as [|x r IH]; intros m k; simpl; [reflexivity|].
  unfold upserts in *. simpl. rewrite IH, get_upsert.
  destruct (N.eqb_spec k (fst x)); [subst; reflexivity | reflexivity].
Qed.
Lemma upserts_nodup : forall D m, NoDup (map fst m) -> NoDup (map fst (upserts D m)).
Proof.
  induction D as [|x r IH]; intros m H; [assumption|]. unfold upserts in *. simpl. apply IH, upsert_nodup, H.
Qed.

Lemma upd_spec : forall o sp s, upd o sp = Some s ->
  (s = sp \/ o = Some s) /\ sp_start s <= sp_start sp /\ (forall s0, o = Some s0 -> sp_start s <= sp_start s0).
Proof.
  intros [s0|] sp s H; simpl in H.
  - destruct (N.ltb_spec (sp_start sp) (sp_start s0)); inversion H; subst.
    + split; [left; reflexivity|]. split; [lia|]. intros s1 E; inversion E; subst; lia.
    + split; [right; reflexivity|]. split; [lia|]. intros s1 E; inversion E; subst; lia.
  - inversion H; subst. split; [left; reflexivity|]. split; [lia | discriminate].
Qed.

Lemma acc_min_some : forall D o k sp, acc_min o D k = Some sp ->
  (o = Some sp \/ In (k, sp) D) /\ (forall sp', In (k, sp') D -> sp_start sp <= sp_start sp')
  /\ (forall s0, o = Some s0 -> sp_start sp <= sp_start s0).
Proof.
  induction D as [|[k0 v0] r IH]; intros o k sp H; simpl in H.
  - split; [left; assumption|]. split; [intros ? []|]. intros s0 E. rewrite E in H. inversion H; subst. lia.
  - simpl fst in H. simpl snd in H. destruct (N.eqb_spec k k0) as [E|NE].
    + subst k0. destruct (IH _ _ _ H) as [Hm [Hr Ho]].
      destruct (upd o v0) as [s|] eqn:U; [|destruct o; simpl in U; [destruct (_ <? _) in U|]; discriminate].
      destruct (upd_spec _ _ _ U) as [Us [Uv Uo]]. specialize (Ho s eq_refl).
      split; [|split].
      * destruct Hm as [Hm|Hm]; [|right; right; assumption].
        inversion Hm; subst s. destruct Us as [Us|Us]; [subst; right; left; reflexivity | left; assumption].
      * intros sp' [E|Hin]; [inversion E; subst; lia | apply Hr, Hin].
      * intros s0 E. specialize (Uo s0 E). lia.
    + destruct (IH _ _ _ H) as [Hm [Hr Ho]]. split; [|split].
      * destruct Hm as [Hm|Hm]; [left; assumption | right; right; assumption].
      * intros sp' [E|Hin]; [inversion E; congruence | apply Hr, Hin].
      * assumption.
Qed.
Lemma acc_min_none : forall D o k, acc_min o D k = None -> o = None /\ ~ In k (map fst D).
Proof.
  induction D as [|[k0 v0] r IH]; intros o k H; simpl in H; [split; [assumption | intros []]|].
  simpl fst in H. simpl snd in H. destruct (IH _ _ H) as [Ho Hr]. destruct (N.eqb_spec k k0) as [E|NE].
  - destruct o as [s0|]; simpl in Ho; [destruct (_ <? _) in Ho|]; discriminate.
  - split; [assumption|]. simpl. intros [E|Hin]; [congruence | tauto].
Qed.

(* strictly increasing positions *)
Definition sinc (l : list kv) : Prop := StronglySorted (fun x y : kv => pos x < pos y) l.

Lemma increasing_sinc : forall l, increasing (map (fun x : kv => pos x) l) = true <-> sinc l.
Proof.
  induction l as [|a r IH]; [split; [constructor | reflexivity]|].
  destruct r as [|b r']; [split; [intros _; repeat constructor | reflexivity]|].
  change (increasing (map (fun x : kv => pos x) (a :: b :: r')))
    with ((pos a <? pos b) && increasing (map (fun x : kv => pos x) (b :: r'))).
  rewrite andb_true_iff, IH, N.ltb_lt. split.
  - intros [Hab Hs]. constructor; [assumption|]. inversion Hs as [|? ? Hs' Hf]; subst.
    constructor; [assumption|]. eapply Forall_impl; [|exact Hf]. intros y Hy. simpl in *. lia.
  - intros H. inversion H as [|? ? Hs Hf]; subst. inversion Hf; subst. split; assumption.
Qed.

Lemma sinc_inj : forall l x y, sinc l -> In x l -> In y l -> pos x = pos y -> x = y.
Proof.
  induction l as [|a r IH]; intros x y H Hx Hy E; [contradiction|].
  inversion H as [|? ? Hs Hf]; subst. rewrite Forall_forall in Hf.
  destruct Hx as [Hx|Hx]; destruct Hy as [Hy|Hy]; subst.
  - reflexivity.
  - specialize (Hf _ Hy). lia.
  - specialize (Hf _ Hx). lia.
  - apply IH; assumption.
Qed.

Lemma sinc_get_min : forall l k sp, sinc l -> get l k = Some sp ->
  forall sp', In (k, sp') l -> sp_start sp <= sp_start sp'.
Proof.
  induction l as [|[k0 v0] r IH]; intros k sp H G sp' Hin; [contradiction|].
  inversion H as [|? ? Hs Hf]; subst. rewrite Forall_forall in Hf. simpl in G.
  destruct (N.eqb_spec k k0) as [E|NE].
  - inversion G; subst. destruct Hin as [E|Hin]; [inversion E; lia|]. specialize (Hf _ Hin). simpl in Hf. lia.
  - destruct Hin as [E|Hin]; [inversion E; congruence|]. eapply IH; eassumption.
Qed.

Lemma sinc_filter : forall p l, sinc l -> sinc (filter p l).
Proof.
  intros p l H; induction H as [|a r Hs IH Hf]; simpl; [constructor|].
  destruct (p a); [|assumption]. constructor; [assumption|].
  rewrite Forall_forall in *. intros y Hy. apply filter_In in Hy. apply Hf, Hy.
Qed.

Lemma sinc_unique : forall l1 l2, sinc l1 -> sinc l2 -> (forall x, In x l1 <-> In x l2) -> l1 = l2.
Proof.
  induction l1 as [|a r1 IH]; intros l2 H1 H2 Hm.
  - destruct l2 as [|b r2]; [reflexivity|]. exfalso. apply (proj2 (Hm b)). left; reflexivity.
  - destruct l2 as [|b r2]; [exfalso; apply (proj1 (Hm a)); left; reflexivity|].
    inversion H1 as [|? ? Hs1 Hf1]; inversion H2 as [|? ? Hs2 Hf2]; subst.
    rewrite Forall_forall in Hf1, Hf2.
    assert (a = b) as E.
    { destruct (proj1 (Hm a) (or_introl eq_refl)) as [E|Ha]; [symmetry; assumption|].
      destruct (proj2 (Hm b) (or_introl eq_refl)) as [E|Hb]; [assumption|].
      specialize (Hf2 _ Ha). specialize (Hf1 _ Hb). lia. }
    subst b. f_equal. apply IH; try assumption.
    intros x. split; intros Hx.
    + destruct (proj1 (Hm x) (or_intror Hx)) as [E|Hx']; [|assumption]. subst x. specialize (Hf1 _ Hx). lia.
    + destruct (proj2 (Hm x) (or_intror Hx)) as [E|Hx']; [|assumption]. subst x. specialize (Hf2 _ Hx). lia.
Qed.

(* first_occ *)
Lemma first_occ_in : forall l seen k sp,
  In (k, sp) (first_occ seen l) <-> (memN k seen = false /\ get l k = Some sp).
Proof.
  induction l as [|[k0 v0] r IH]; intros seen k sp; simpl.
  - split; [intros [] | intros [_ H]; discriminate].
  - destruct (memN k0 seen) eqn:M.
    + rewrite IH. destruct (N.eqb_spec k k0) as [E|NE]; [|tauto].
      subst. split; intros [H _]; congruence.
    + simpl. rewrite IH. simpl. destruct (N.eqb_spec k k0) as [E|NE]; simpl.
      * subst. split.
        -- intros [E|[H _]]; [inversion E; subst; split; [assumption | reflexivity] | discriminate].
        -- intros [_ E]. inversion E; subst. left; reflexivity.
      * split.
        -- intros [E|H]; [inversion E; congruence | assumption].
        -- intros H. right. assumption.
Qed.
Lemma first_occ_incl : forall l seen x, In x (first_occ seen l) -> In x l.
Proof. intros l seen [k sp] H. apply first_occ_in in H. apply get_in, H. Qed.
Lemma first_occ_sinc : forall l seen, sinc l -> sinc (first_occ seen l).
Proof.
  induction l as [|[k0 v0] r IH]; intros seen H; simpl; [constructor|].
  inversion H as [|? ? Hs Hf]; subst. destruct (memN k0 seen); [apply IH, Hs|].
  constructor; [apply IH, Hs|]. rewrite Forall_forall in *. intros y Hy. apply Hf. eapply first_occ_incl, Hy.
Qed.
Lemma first_occ_nodup : forall l seen, NoDup (map fst (first_occ seen l)).
Proof.
  induction l as [|[k0 v0] r IH]; intros seen; simpl; [constructor|].
  destruct (memN k0 seen) eqn:M; [apply IH|]. simpl. constructor; [|apply IH].
  intros Hin. apply in_map_iff in Hin. destruct Hin as [[k sp] [E Hin]]. simpl in E. subst k.
  apply first_occ_in in Hin. destruct Hin as [Hm _]. simpl in Hm. rewrite N.eqb_refl in Hm. discriminate.
Qed.

Lemma get_filter : forall (p : N -> bool) l k,
  get (filter (fun x : kv => p (fst x)) l) k = if p k then get l k else None.
Proof.
  induction l as [|[k0 v0] r IH]; intros k; simpl; [destruct (p k); reflexivity|].
  destruct (p k0) eqn:P0; simpl; rewrite IH; destruct (N.eqb_spec k k0) as [E|NE]; try reflexivity.
  - subst. rewrite P0. reflexivity.
  - subst. rewrite P0. reflexivity.
Qed.

(* insertion sort *)
Lemma insert_perm : forall x l, Permutation (insert_sorted x l) (x :: l).
Proof.
  intros x l; induction l as [|y r IH]; simpl; [reflexivity|].
  destruct (pos y <? pos x); [|reflexivity].
  etransitivity; [apply perm_skip, IH | apply perm_swap].
Qed.
Lemma sort_perm : forall l, Permutation (sort_by_pos l) l.
Proof.
  induction l as [|x r IH]; simpl; [constructor|].
  etransitivity; [apply insert_perm | apply perm_skip, IH].
Qed.
Lemma insert_sinc : forall x l, sinc l -> (forall y, In y l -> pos y <> pos x) -> sinc (insert_sorted x l).
Proof.
  intros x l H; induction H as [|y r Hs IH Hf]; intros Hne; simpl; [repeat constructor|].
  rewrite Forall_forall in Hf.
  destruct (N.ltb_spec (pos y) (pos x)) as [Hlt|Hge].
  - constructor; [apply IH; intros z Hz; apply Hne; right; assumption|].
    rewrite Forall_forall. intros z Hz. apply (Permutation_in _ (insert_perm x r)) in Hz.
    destruct Hz as [E|Hz]; [subst; assumption | apply Hf, Hz].
  - assert (pos x < pos y) as Hxy by (specialize (Hne y (or_introl eq_refl)); lia).
    constructor; [constructor; [assumption | rewrite Forall_forall; assumption]|].
    rewrite Forall_forall. intros z [E|Hz]; [subst; assumption | specialize (Hf _ Hz); lia].
Qed.
Lemma sort_sinc : forall l, NoDup (map (fun x : kv => pos x) l) -> sinc (sort_by_pos l).
Proof.
  induction l as [|x r IH]; intros H; simpl; [constructor|].
  inversion H as [|? ? Hni Hnd]; subst. apply insert_sinc; [apply IH, Hnd|].
  intros y Hy E. apply Hni. apply (Permutation_in _ (sort_perm r)) in Hy.
  rewrite <- E. apply (in_map (fun x : kv => pos x) _ _ Hy).
Qed.

Lemma NoDup_map_inj : forall A B (f : A -> B) l,
  NoDup l -> (forall x y, In x l -> In y l -> f x = f y -> x = y) -> NoDup (map f l).
Proof.
  intros A B f l H; induction H as [|a r Ha Hr IH]; intros Hinj; simpl; constructor.
  - intros Hin. apply in_map_iff in Hin. destruct Hin as [y [E Hy]].
    assert (y = a) by (apply Hinj; [right; assumption | left; reflexivity | assumption]). subst. contradiction.
  - apply IH. intros x y Hx Hy. apply Hinj; right; assumption.
Qed.

(* the core: min-by-position table, sorted = first occurrences of the textually ordered list *)
Lemma acc_min_get : forall D T k, sinc T -> Permutation D T -> acc_min None D k = get T k.
Proof.
  intros D T k HT HP. destruct (acc_min None D k) as [sp|] eqn:A.
  - destruct (acc_min_some _ _ _ _ A) as [[Hm|Hm] [Hmin _]]; [discriminate|].
    assert (In (k, sp) T) as HinT by (eapply Permutation_in; eassumption).
    destruct (get T k) as [sp2|] eqn:G.
    + assert (In (k, sp2) T) as Hin2 by (apply get_in, G).
      assert (sp_start sp2 <= sp_start sp) by (eapply sinc_get_min; eassumption).
      assert (sp_start sp <= sp_start sp2) by (apply Hmin; eapply Permutation_in; [apply Permutation_sym|]; eassumption).
      assert ((k, sp) = (k, sp2)) as E by (eapply sinc_inj; try eassumption; simpl; lia).
      inversion E; reflexivity.
    + apply get_none in G. exfalso. apply G. apply (in_map fst _ _ HinT).
  - apply acc_min_none in A. destruct A as [_ A]. symmetry. apply get_none.
    intros Hin. apply A. eapply Permutation_in; [apply Permutation_map, Permutation_sym, HP | assumption].
Qed.

Lemma core_table : forall D T, sinc T -> Permutation D T -> sort_by_pos (upserts D []) = first_occ [] T.
Proof.
  intros D T HT HP.
  assert (NoDup (map fst (upserts D []))) as Hnd by (apply upserts_nodup; constructor).
  assert (forall k sp, In (k, sp) (upserts D []) <-> get T k = Some sp) as Hmem.
  { intros k sp. rewrite <- (acc_min_get D T k HT HP). change (acc_min None D k) with (acc_min (get [] k) D k).
    rewrite <- get_upserts. split; [apply in_get_nodup, Hnd | apply get_in]. }
  apply sinc_unique.
  - apply sort_sinc. apply NoDup_map_inj; [eapply NoDup_map_inv, Hnd|].
    intros [k1 s1] [k2 s2] H1 H2 E. apply (sinc_inj T); try assumption; apply get_in, Hmem; assumption.
  - apply first_occ_sinc, HT.
  - intros [k sp]. rewrite first_occ_in. simpl. split.
    + intros H. apply (Permutation_in _ (sort_perm _)) in H. split; [reflexivity | apply Hmem, H].
    + intros [_ H]. apply (Permutation_in _ (Permutation_sym (sort_perm _))). apply Hmem, H.
Qed.

Lemma first_occ_filter : forall (p : N -> bool) T, sinc T ->
  first_occ [] (filter (fun x : kv => p (fst x)) T) = filter (fun x : kv => p (fst x)) (first_occ [] T).
Proof.
  intros p T HT. apply sinc_unique.
  - apply first_occ_sinc, sinc_filter, HT.
  - apply sinc_filter, first_occ_sinc, HT.
  - intros [k sp]. rewrite first_occ_in, filter_In, first_occ_in, get_filter. simpl.
    destruct (p k); split; intros H; try tauto; destruct H as [_ H]; try discriminate.
Qed.

(* ------------------------------------------------------------------------------------------ *)
(* the checker as a fold                                                                        *)
(* ------------------------------------------------------------------------------------------ *)
Section Fold.
Variable root : N -> ent_kind.
Variable sl : list kv.

Definition notlisted (x : kv) : bool := negb (assoc_mem (fst x) sl).
Definition dem (evs : list event) : list kv :=
  flat_map (fun e => if is_signal root (ev_id e) && negb (assoc_mem (ev_id e) sl) && negb (ev_ro e)
                     then [(ev_id e, ev_sp e)] else []) evs.

Lemma fold_found : forall evs st,
  found (fold_left (analyze_designator root sl) evs st) = upserts (dem evs) (found st).
Proof.
  induction evs as [|e r IH]; intros st; [reflexivity|].
  simpl. rewrite IH. unfold analyze_designator, analyze_designator_gen.
  destruct (is_signal root (ev_id e) && negb (assoc_mem (ev_id e) sl) && negb (ev_ro e)); reflexivity.
Qed.

Lemma filter_assoc_remove : forall k (m : list kv) ids,
  filter (fun x : kv => negb (memN (fst x) ids)) (assoc_remove k m)
  = filter (fun x : kv => negb (memN (fst x) (k :: ids))) m.
Proof.
  intros k m ids; induction m as [|[k' v] r IH]; [reflexivity|].
  simpl. rewrite (N.eqb_sym k' k). destruct (k =? k'); simpl; rewrite IH; reflexivity.
Qed.
Lemma fold_sup : forall evs st,
  superfluous (fold_left (analyze_designator root sl) evs st)
  = filter (fun x : kv => negb (memN (fst x) (map ev_id evs))) (superfluous st).
Proof.
  induction evs as [|e r IH]; intros st.
  - simpl. induction (superfluous st) as [|x l IHl]; [reflexivity | simpl; rewrite <- IHl; reflexivity].
  - simpl. rewrite IH. unfold analyze_designator, analyze_designator_gen.
    destruct (is_signal root (ev_id e) && negb (assoc_mem (ev_id e) sl) && negb (ev_ro e));
      simpl; apply filter_assoc_remove.
Qed.

Lemma demanded_app : forall a b, demanded (a ++ b) = demanded a ++ demanded b.
Proof. intros; apply flat_map_app'. Qed.

Lemma dem_moe : forall evs, dem evs = filter notlisted (demanded (moe root evs)).
Proof.
  induction evs as [|e r IH]; [reflexivity|].
  unfold dem, moe in *. simpl. rewrite IH. unfold demanded at 2. rewrite flat_map_app', filter_app. f_equal.
  destruct (is_signal root (ev_id e)); simpl; [|reflexivity].
  destruct (ev_ro e); simpl; [rewrite andb_false_r; reflexivity|].
  unfold notlisted. simpl. rewrite andb_true_r. destruct (assoc_mem (ev_id e) sl); reflexivity.
Qed.
End Fold.

Lemma perm_filter : forall A (p : A -> bool) l l', Permutation l l' -> Permutation (filter p l) (filter p l').
Proof.
  intros A p l l' H; induction H; simpl.
  - constructor.
  - destruct (p x); [apply perm_skip|]; assumption.
  - destruct (p x); destruct (p y); try reflexivity. apply perm_swap.
  - etransitivity; eassumption.
Qed.

Lemma ids_mentioned : forall root k evs, is_signal root k = true ->
  (In k (map ev_id evs) <-> In k (mentioned (moe root evs))).
Proof.
  intros root k evs Hk; induction evs as [|e r IH]; [reflexivity|].
  unfold moe, mentioned in *. simpl. rewrite map_app, in_app_iff, <- IH.
  destruct (is_signal root (ev_id e)) eqn:S; simpl.
  - tauto.
  - split; [intros [E|H]; [congruence | right; assumption] | intros [[]|H]; right; assumption].
Qed.

Lemma in_assoc_insert : forall (m : list kv) k v x, In x (assoc_insert k v m) -> x = (k, v) \/ In x m.
Proof.
  induction m as [|[k' v'] r IH]; intros k v x H; simpl in H.
  - destruct H as [H|[]]; left; symmetry; assumption.
  - destruct (k =? k'); destruct H as [H|H].
    + left; symmetry; assumption.
    + right; right; assumption.
    + right; left; assumption.
    + destruct (IH _ _ _ H); [left | right; right]; assumption.
Qed.

Lemma sens_map_signals : forall root names, listed_signals root names = true ->
  forall x, In x (sens_map names) -> is_signal root (fst x) = true.
Proof.
  intros root names. unfold sens_map, listed_signals.
  assert (G : forall names acc, (forall x, In x acc -> is_signal root (fst x) = true) ->
     forallb (fun n => match suffix_ref_disregard_index n with Some i => is_signal root i | None => false end) names = true ->
     forall x, In x (fold_left (fun m n => match suffix_ref_disregard_index n with
                                            | Some i => assoc_insert i (span_of n) m
                                            | None => m end) names acc) -> is_signal root (fst x) = true).
  { induction names0 as [|n r IH]; intros acc Hacc Hf x Hx; [apply Hacc, Hx|].
    simpl in Hf, Hx. apply andb_true_iff in Hf. destruct Hf as [Hn Hr].
    apply (IH _) in Hx; [assumption| |assumption].
    intros y Hy. destruct (suffix_ref_disregard_index n) as [i|]; [|discriminate].
    apply in_assoc_insert in Hy. destruct Hy as [E|Hy]; [subst; assumption | apply Hacc, Hy]. }
  intros H x Hx. eapply G; [|exact H|exact Hx]. intros y [].
Qed.

(* ------------------------------------------------------------------------------------------ *)
(* the theorems                                                                                 *)
(* ------------------------------------------------------------------------------------------ *)
Section Main.
Variable root : N -> ent_kind.

Lemma wf_pos_sinc : forall p, wf_pos root p = true -> sinc (demanded (occ_stmts root (p_body p))).
Proof. intros p H. apply increasing_sinc. exact H. Qed.

Lemma found_spec : forall p names,
  in_family root p = true -> calls_resolved root p = true -> wf_pos root p = true ->
  sort_by_pos (found (fold_left (analyze_designator root (sens_map names)) (ev_stmts root VNow (p_body p))
                                (mkChecker (sens_map names) [])))
  = spec_missing root p names.
Proof.
  intros p names Hf Hn Hw. rewrite fold_found. simpl found. rewrite dem_moe.
  pose proof (ev_stmts_perm root (p_body p) Hf Hn) as HP.
  pose proof (wf_pos_sinc p Hw) as HS.
  rewrite (core_table _ (filter (notlisted (sens_map names)) (demanded (occ_stmts root (p_body p))))).
  - unfold spec_missing, reads. unfold notlisted.
    apply (first_occ_filter (fun k => negb (assoc_mem k (sens_map names))) _ HS).
  - apply sinc_filter, HS.
  - apply perm_filter. unfold demanded. apply Permutation_flat_map, HP.
Qed.

Lemma sup_spec : forall p names,
  in_family root p = true -> calls_resolved root p = true -> listed_signals root names = true ->
  map (fun x : N * span => DSuperfluous (snd x))
      (superfluous (fold_left (analyze_designator root (sens_map names)) (ev_stmts root VNow (p_body p))
                              (mkChecker (sens_map names) [])))
  = map DSuperfluous (spec_superfluous root p names).
Proof.
  intros p names Hf Hn Hl. rewrite fold_sup. simpl superfluous. unfold spec_superfluous. rewrite map_map.
  f_equal. apply filter_ext_in. intros x Hx. f_equal.
  pose proof (sens_map_signals root names Hl x Hx) as Hs.
  pose proof (ev_stmts_perm root (p_body p) Hf Hn) as HP.
  destruct (memN (fst x) (map ev_id (ev_stmts root VNow (p_body p)))) eqn:A;
    destruct (memN (fst x) (mentioned (occ_stmts root (p_body p)))) eqn:B; try reflexivity; exfalso.
  - apply memN_In in A. apply memN_false in B. apply B.
    apply (ids_mentioned root _ _ Hs) in A. unfold mentioned in *.
    eapply Permutation_in; [apply Permutation_map, HP | exact A].
  - apply memN_false in A. apply memN_In in B. apply A. apply (ids_mentioned root _ _ Hs).
    unfold mentioned in *. eapply Permutation_in; [apply Permutation_map, Permutation_sym, HP | exact B].
Qed.

Lemma lint_unfold : forall p names,
  p_sens p = Some (SensNames names) -> get_likely_process_category root p = Some Combinational ->
  lint_model root p =
    let st := fold_left (analyze_designator root (sens_map names)) (ev_stmts root VNow (p_body p))
                        (mkChecker (sens_map names) []) in
    Some ((match sort_by_pos (found st) with [] => [] | _ => [DMissing (p_kw p) (sort_by_pos (found st))] end)
          ++ map (fun x : N * span => DSuperfluous (snd x)) (superfluous st)).
Proof. intros p names Hs Hc. unfold lint_model, lint_gen. rewrite Hs, Hc. reflexivity. Qed.

Lemma lint_exact :
  forall p names,
    p_sens p = Some (SensNames names) ->
    get_likely_process_category root p = Some Combinational ->
    in_family root p = true -> calls_resolved root p = true ->
    wf_pos root p = true -> listed_signals root names = true ->
    lint_model root p = Some (spec_diags root p names).
Proof.
  intros p names Hs Hc Hf Hn Hw Hl. rewrite (lint_unfold p names Hs Hc). cbv zeta.
  rewrite (found_spec p names Hf Hn Hw), (sup_spec p names Hf Hn Hl).
  unfold spec_diags. destruct (spec_missing root p names); reflexivity.
Qed.

Lemma missing_of_app_sup : forall a l, missing_of (a ++ map (fun x : N * span => DSuperfluous (snd x)) l) = missing_of a.
Proof.
  intros a l. unfold missing_of. rewrite flat_map_app'.
  replace (flat_map _ (map _ l)) with (@nil (span * list (N * span))); [apply app_nil_r|].
  induction l as [|x r IH]; [reflexivity | simpl; assumption].
Qed.

Lemma missing_exact :
  forall p names,
    p_sens p = Some (SensNames names) ->
    get_likely_process_category root p = Some Combinational ->
    in_family root p = true -> calls_resolved root p = true -> wf_pos root p = true ->
    exists ds, lint_model root p = Some ds /\
      missing_of ds = match spec_missing root p names with
                      | [] => []
                      | m => [(p_kw p, m)]
                      end.
Proof.
  intros p names Hs Hc Hf Hn Hw. rewrite (lint_unfold p names Hs Hc). cbv zeta.
  eexists. split; [reflexivity|]. rewrite missing_of_app_sup, (found_spec p names Hf Hn Hw).
  destruct (spec_missing root p names); reflexivity.
Qed.

Lemma superfluous_of_app : forall a l,
  (forall d, In d a -> match d with DMissing _ _ => True | _ => False end) ->
  superfluous_of (a ++ map DSuperfluous l) = l.
Proof.
  intros a l Ha. unfold superfluous_of. rewrite flat_map_app'.
  replace (flat_map _ a) with (@nil span).
  - simpl. induction l as [|x r IH]; [reflexivity | simpl; f_equal; assumption].
  - induction a as [|d r IH]; [reflexivity|]. simpl.
    pose proof (Ha d (or_introl eq_refl)) as Hd. destruct d; [|contradiction]. simpl. apply IH.
    intros d' Hd'. apply Ha. right. assumption.
Qed.

Lemma superfluous_exact :
  forall p names,
    p_sens p = Some (SensNames names) ->
    get_likely_process_category root p = Some Combinational ->
    in_family root p = true -> calls_resolved root p = true ->
    listed_signals root names = true ->
    exists ds, lint_model root p = Some ds /\ superfluous_of ds = spec_superfluous root p names.
Proof.
  intros p names Hs Hc Hf Hn Hl. rewrite (lint_unfold p names Hs Hc). cbv zeta.
  eexists. split; [reflexivity|]. rewrite (sup_spec p names Hf Hn Hl). apply superfluous_of_app.
  intros d Hd. destruct (sort_by_pos _); [contradiction|]. destruct Hd as [E|[]]. subst. exact I.
Qed.
End Main.

(* ------------------------------------------------------------------------------------------ *)
(* facts about the specification alone                                                          *)
(* ------------------------------------------------------------------------------------------ *)
Lemma demanded_in : forall l i sp, In (i, sp) (demanded l) <-> In (i, sp, true) l.
Proof.
  induction l as [|[[j s] b] r IH]; intros i sp; simpl; [tauto|].
  unfold demanded in *. simpl. rewrite in_app_iff, IH. destruct b; simpl.
  - split; [intros [[E|[]]|H]; [inversion E; left; reflexivity | right; assumption]
           | intros [E|H]; [inversion E; left; left; reflexivity | right; assumption]].
  - split; [intros [[]|H]; right; assumption | intros [E|H]; [inversion E | right; assumption]].
Qed.

Lemma NoDup_map_filter : forall A B (f : A -> B) p l, NoDup (map f l) -> NoDup (map f (filter p l)).
Proof.
  intros A B f p l; induction l as [|x r IH]; intros H; simpl; [constructor|].
  inversion H as [|? ? Hni Hnd]; subst. destruct (p x); simpl; [|apply IH, Hnd].
  constructor; [|apply IH, Hnd]. intros Hin. apply Hni. apply in_map_iff in Hin.
  destruct Hin as [y [E Hy]]. apply filter_In in Hy. rewrite <- E. apply in_map, Hy.
Qed.

Lemma missing_ordered :
  forall root p names, wf_pos root p = true ->
    let m := spec_missing root p names in
    increasing (map (fun x : N * span => sp_start (snd x)) m) = true /\ NoDup (map fst m) /\
    (forall i sp, In (i, sp) m ->
        assoc_mem i (sens_map names) = false /\ In (i, sp, true) (occ_stmts root (p_body p))) /\
    (forall i sp, In (i, sp, true) (occ_stmts root (p_body p)) -> assoc_mem i (sens_map names) = false ->
        exists sp', In (i, sp') m /\ (sp_start sp' <= sp_start sp)).
Proof.
  intros root p names Hw. pose proof (wf_pos_sinc root p Hw) as HS. unfold spec_missing, reads. cbv zeta.
  split; [|split; [|split]].
  - apply increasing_sinc, sinc_filter, first_occ_sinc, HS.
  - apply NoDup_map_filter, first_occ_nodup.
  - intros i sp H. apply filter_In in H. destruct H as [H Hn]. simpl in Hn. split.
    + destruct (assoc_mem i (sens_map names)); [discriminate | reflexivity].
    + apply demanded_in. eapply first_occ_incl, H.
  - intros i sp H Hn. apply demanded_in in H.
    destruct (get (demanded (occ_stmts root (p_body p))) i) as [sp'|] eqn:G.
    + exists sp'. split.
      * apply filter_In. split; [apply first_occ_in; split; [reflexivity | exact G] | simpl; rewrite Hn; reflexivity].
      * eapply sinc_get_min; eassumption.
    + exfalso. apply get_none in G. apply G. apply (in_map fst _ _ H).
Qed.

Lemma assoc_insert_new : forall (m : list kv) k v, assoc_mem k m = false -> assoc_insert k v m = m ++ [(k, v)].
Proof.
  induction m as [|[k' v'] r IH]; intros k v H; simpl in *; [reflexivity|].
  apply orb_false_iff in H. destruct H as [H1 H2]. rewrite H1, (IH _ _ H2). reflexivity.
Qed.
Lemma assoc_mem_app : forall (a b : list kv) k, assoc_mem k (a ++ b) = assoc_mem k a || assoc_mem k b.
Proof.
  induction a as [|[k' v'] r IH]; intros b k; simpl; [reflexivity|]. rewrite IH, orb_assoc. reflexivity.
Qed.

Lemma sens_map_distinct : forall names ids acc,
  map suffix_ref_disregard_index names = map Some ids -> NoDup ids ->
  (forall i, In i ids -> assoc_mem i acc = false) ->
  fold_left (fun m n => match suffix_ref_disregard_index n with
                        | Some i => assoc_insert i (span_of n) m
                        | None => m end) names acc
  = acc ++ combine ids (map span_of names).
Proof.
  induction names as [|n r IH]; intros ids acc Hm Hnd Hacc.
  - destruct ids; [simpl; rewrite app_nil_r; reflexivity | discriminate].
  - destruct ids as [|i ids']; [discriminate|]. simpl in Hm. inversion Hm as [[Hn Hr]].
    inversion Hnd as [|? ? Hni Hnd']; subst. simpl. rewrite Hn.
    rewrite (assoc_insert_new _ _ _ (Hacc i (or_introl eq_refl))).
    rewrite (IH ids' _ Hr Hnd').
    + rewrite <- app_assoc. reflexivity.
    + intros j Hj. rewrite assoc_mem_app, (Hacc j (or_intror Hj)). simpl.
      destruct (N.eqb_spec j i); [subst; contradiction | reflexivity].
Qed.

Lemma superfluous_per_entry :
  forall root p names ids,
    map suffix_ref_disregard_index names = map Some ids -> NoDup ids ->
    spec_superfluous root p names =
      map span_of (filter (fun n => match suffix_ref_disregard_index n with
                                    | Some i => negb (memN i (mentioned (occ_stmts root (p_body p))))
                                    | None => false
                                    end) names).
Proof.
  intros root p names ids Hm Hnd. unfold spec_superfluous, sens_map.
  rewrite (sens_map_distinct names ids [] Hm Hnd); [|intros; reflexivity]. simpl.
  set (g := fun i => negb (memN i (mentioned (occ_stmts root (p_body p))))).
  clear Hnd. revert ids Hm. induction names as [|n r IH]; intros ids Hm.
  - destruct ids; reflexivity.
  - destruct ids as [|i ids']; [discriminate|]. simpl in Hm. inversion Hm as [[Hn Hr]].
    simpl. rewrite Hn. fold (g i). destruct (g i); simpl; rewrite (IH _ Hr); reflexivity.
Qed.

(* ------------------------------------------------------------------------------------------ *)
(* no-lint cases, totality, clocked shapes                                                      *)
(* ------------------------------------------------------------------------------------------ *)
Lemma no_lint_cases :
  forall root p,
    (p_sens p = None \/ p_sens p = Some SensAll \/ get_likely_process_category root p = Some Sequential) ->
    lint_model root p = Some [].
Proof.
  intros root p [H|[H|H]]; unfold lint_model, lint_gen.
  - rewrite H. reflexivity.
  - rewrite H. reflexivity.
  - destruct (p_sens p) as [[|names]|]; try reflexivity. rewrite H. reflexivity.
Qed.

Definition if_nonempty (s : stmt) : bool := match s with SIf [] _ => false | _ => true end.

Lemma stmt_clocked_some : forall root s, if_nonempty s = true -> exists b, stmt_clocked root s = Some b.
Proof.
  intros root s H. destruct s; simpl; try (eexists; reflexivity).
  destruct branches as [|[c0 b0] rest]; [discriminate | eexists; reflexivity].
Qed.
Lemma any_clocked_some : forall root ss, forallb if_nonempty ss = true -> any_clocked root ss <> None.
Proof.
  intros root ss; induction ss as [|s r IH]; intros H; simpl; [discriminate|].
  simpl in H. apply andb_true_iff in H. destruct H as [Hs Hr].
  destruct (stmt_clocked_some root s Hs) as [b E]. rewrite E. destruct b; [discriminate | apply IH, Hr].
Qed.

Lemma lint_total :
  forall root p,
    forallb (fun s => match s with SIf [] _ => false | _ => true end) (p_body p) = true ->
    lint_model root p <> None.
Proof.
  intros root p H. unfold lint_model, lint_gen.
  destruct (p_sens p) as [[|names]|]; try discriminate.
  unfold get_likely_process_category. pose proof (any_clocked_some root (p_body p) H) as A.
  destruct (any_clocked root (p_body p)) as [[|]|]; [discriminate | discriminate | contradiction].
Qed.

Lemma any_clocked_prefix : forall root pre s post,
  forallb if_nonempty pre = true -> stmt_clocked root s = Some true ->
  any_clocked root (pre ++ s :: post) = Some true.
Proof.
  intros root pre s post; induction pre as [|a r IH]; intros H Hs; simpl.
  - rewrite Hs. reflexivity.
  - simpl in H. apply andb_true_iff in H. destruct H as [Ha Hr].
    destruct (stmt_clocked_some root a Ha) as [b E]. rewrite E. destruct b; [reflexivity | apply IH; assumption].
Qed.

Lemma clocked_shape_first :
  forall root p pre post c0 b0 rest els,
    p_body p = pre ++ SIf ((c0, b0) :: rest) els :: post ->
    forallb (fun s => match s with SIf [] _ => false | _ => true end) pre = true ->
    is_likely_clocked root c0 = true ->
    get_likely_process_category root p = Some Sequential.
Proof.
  intros root p pre post c0 b0 rest els Hb Hp Hc. unfold get_likely_process_category.
  rewrite Hb, (any_clocked_prefix root pre _ post Hp); [reflexivity|]. simpl. rewrite Hc. reflexivity.
Qed.
Lemma clocked_shape_elsif :
  forall root p pre post c0 b0 c1 b1 els,
    p_body p = pre ++ SIf [(c0, b0); (c1, b1)] els :: post ->
    forallb (fun s => match s with SIf [] _ => false | _ => true end) pre = true ->
    is_likely_clocked root c1 = true ->
    get_likely_process_category root p = Some Sequential.
Proof.
  intros root p pre post c0 b0 c1 b1 els Hb Hp Hc. unfold get_likely_process_category.
  rewrite Hb, (any_clocked_prefix root pre _ post Hp); [reflexivity|]. simpl. rewrite Hc, orb_true_r. reflexivity.
Qed.

(* ------------------------------------------------------------------------------------------ *)
(* witnesses                                                                                    *)
(* ------------------------------------------------------------------------------------------ *)
Lemma hyps_f14 : hyps root6 f14 [sg 2 5].
Proof. unfold hyps. split; [|split; [|split; [|split; [|split]]]]; vm_compute; reflexivity. Qed.
Lemma hyps_f15 : hyps root6 f15 [sg 2 5].
Proof. unfold hyps. split; [|split; [|split; [|split; [|split]]]]; vm_compute; reflexivity. Qed.
Lemma hyps_f20 : hyps root6 f20 [sg 2 1].
Proof. unfold hyps. split; [|split; [|split; [|split; [|split]]]]; vm_compute; reflexivity. Qed.

Lemma f14_now :
  hyps root6 f14 [sg 2 5] /\ calls_resolved root6 f14 = true /\
  lint_model root6 f14 =
    Some [DMissing (tk 0) [(1, tk 6); (2, tk 12); (3, tk 16); (4, tk 25)]; DSuperfluous (tk 2)].
Proof. split; [exact hyps_f14 | split; vm_compute; reflexivity]. Qed.
Lemma f15_now :
  hyps root6 f15 [sg 2 5] /\ calls_resolved root6 f15 = true /\
  lint_model root6 f15 =
    Some [DMissing (tk 0) [(4, tk 7); (2, tk 9); (3, tk 11); (1, tk 13)]; DSuperfluous (tk 2)].
Proof. split; [exact hyps_f15 | split; vm_compute; reflexivity]. Qed.

Lemma order_old_refuted :
  exists root p names,
    hyps root p names /\ calls_resolved root p = true /\
    lint_model_old root p <> Some (spec_diags root p names) /\
    lint_model_old root p =
      Some [DMissing (tk 0) [(1, tk 6); (3, tk 16); (2, tk 19); (4, tk 25)]; DSuperfluous (tk 2)].
Proof.
  exists root6, f14, [sg 2 5]. split; [exact hyps_f14|]. split; [vm_compute; reflexivity|]. split.
  - intros H. vm_compute in H. discriminate.
  - vm_compute. reflexivity.
Qed.
Lemma call_span_old_refuted :
  exists root p names,
    hyps root p names /\ calls_resolved root p = true /\
    lint_model_old root p <> Some (spec_diags root p names) /\
    lint_model_old root p =
      Some [DMissing (tk 0) [(4, (5, 14)); (2, (5, 14)); (3, (5, 14)); (1, (5, 14))]; DSuperfluous (tk 2)].
Proof.
  exists root6, f15, [sg 2 5]. split; [exact hyps_f15|]. split; [vm_compute; reflexivity|]. split.
  - intros H. vm_compute in H. discriminate.
  - vm_compute. reflexivity.
Qed.
Lemma hyps_f20n : hyps root6 f20n [sg 2 1].
Proof. unfold hyps. split; [|split; [|split; [|split; [|split]]]]; vm_compute; reflexivity. Qed.

(* F20 on the repaired code: the out-mode actual is written, its index expression is read *)
Lemma f20_now :
  hyps root6 f20 [sg 2 1] /\ lint_model root6 f20 = Some [] /\
  hyps root6 f20n [sg 2 1] /\ lint_model root6 f20n = Some [DMissing (tk 0) [(3, tk 11)]].
Proof. split; [exact hyps_f20|]. split; [vm_compute; reflexivity|]. split; [exact hyps_f20n | vm_compute; reflexivity]. Qed.

Lemma hyps_f_outport : hyps root6 f_outport [sg 2 1].
Proof. unfold hyps. split; [|split; [|split; [|split; [|split]]]]; vm_compute; reflexivity. Qed.
(* a port of mode out that the process reads is a read signal like any other *)
Lemma out_port_read :
  root6 6 = KPort MOut /\ hyps root6 f_outport [sg 2 1] /\
  lint_model root6 f_outport = Some [DMissing (tk 0) [(6, tk 9)]].
Proof. split; [vm_compute; reflexivity|]. split; [exact hyps_f_outport | vm_compute; reflexivity]. Qed.
Lemma port_is_signal : forall root i m, root i = KPort m -> is_signal root i = true.
Proof. intros root i m H. unfold is_signal. rewrite H. reflexivity. Qed.

Lemma out_actual_old_refuted :
  exists root p names,
    hyps root p names /\
    spec_diags root p names = [] /\
    lint_model_f20 root p <> Some (spec_diags root p names) /\
    lint_model_f20 root p = Some [DMissing (tk 0) [(5, tk 9)]].
Proof.
  exists root6, f20, [sg 2 1]. split; [exact hyps_f20|]. split; [vm_compute; reflexivity|]. split.
  - intros H. vm_compute in H. discriminate.
  - vm_compute. reflexivity.
Qed.

(* ------------------------------------------------------------------------------------------ *)
(* unit level                                                                                   *)
(* ------------------------------------------------------------------------------------------ *)
Lemma lint_covered : forall root p, covered root p -> lint_model root p = Some (expected root p).
Proof.
  intros root p H. unfold covered, expected in *.
  destruct (p_sens p) as [[|names]|] eqn:S.
  - apply no_lint_cases. right. left. exact S.
  - destruct H as [H|[Hc [Hf [Hr [Hw Hl]]]]].
    + rewrite H. apply no_lint_cases. right. right. exact H.
    + rewrite Hc. apply lint_exact; assumption.
  - apply no_lint_cases. left. exact S.
Qed.

Lemma lint_all_covered : forall root ps, Forall (covered root) ps ->
  lint_all root ps = Some (flat_map (expected root) ps).
Proof.
  intros root ps H; induction H as [|p r Hp _ IH]; [reflexivity|].
  simpl. rewrite (lint_covered root p Hp), IH. reflexivity.
Qed.

Lemma unit_exact : forall root u, Forall (covered root) (procs_of u) ->
  analyze_unit root u = Some (flat_map (expected root) (procs_of u)).
Proof. intros root u H. apply lint_all_covered, H. Qed.

Lemma unit_arch_only_refuted :
  Forall (covered root6) (procs_of u_entity) /\
  analyze_unit root6 u_entity = Some [DMissing (tk 0) [(6, tk 9)]] /\
  analyze_unit_arch_only root6 u_entity = Some [] /\
  analyze_unit_arch_only root6 u_entity <> Some (flat_map (expected root6) (procs_of u_entity)).
Proof.
  split.
  - simpl. constructor; [|constructor]. unfold covered. simpl. right.
    repeat split; vm_compute; reflexivity.
  - split; [vm_compute; reflexivity|]. split; [reflexivity|]. intros H. vm_compute in H. discriminate.
Qed.
