(* Symtab/SymtabProofs.v — proofs about the symbol table model of Symtab/Symtab.v. *)
From Coq Require Import List Arith Bool Lia.
Import ListNotations.
From RH Require Import Symtab.Symtab.

Definition lower_ok (lower : name -> name) : Prop :=
  (forall n, lower (lower n) = lower n) /\ (forall n, is_ext (lower n) = is_ext n).

(* ------------------------------------------------------------------ *)
(* names and find *)

Lemma name_eqb_true_iff : forall a b, name_eqb a b = true <-> a = b.
Proof.
  intros a b. unfold name_eqb.
  destruct (list_eq_dec Nat.eq_dec a b) as [e|ne]; split; intro H.
  - assumption.
  - reflexivity.
  - discriminate.
  - contradiction.
Qed.

Lemma name_eqb_refl : forall a, name_eqb a a = true.
Proof. intros a. apply name_eqb_true_iff. reflexivity. Qed.

Lemma name_eqb_false_iff : forall a b, name_eqb a b = false <-> a <> b.
Proof.
  intros a b. split.
  - intros H e. apply name_eqb_true_iff in e. congruence.
  - intros H. destruct (name_eqb a b) eqn:E; [|reflexivity].
    apply name_eqb_true_iff in E. contradiction.
Qed.

Lemma name_dec : forall a b : name, {a = b} + {a <> b}.
Proof. exact (list_eq_dec Nat.eq_dec). Qed.

Lemma find_cons_eq : forall t k s, find ((k, s) :: t) k = Some s.
Proof. intros t k s. cbn [find]. rewrite name_eqb_refl. reflexivity. Qed.

Lemma find_cons_neq : forall t k s n, k <> n -> find ((k, s) :: t) n = find t n.
Proof.
  intros t k s n ne. cbn [find].
  apply name_eqb_false_iff in ne. rewrite ne. reflexivity.
Qed.

Lemma find_cons_ex : forall t k s m sm, find t m = Some sm -> exists s', find ((k, s) :: t) m = Some s'.
Proof.
  intros t k s m sm F. destruct (name_dec k m) as [e|ne].
  - subst. exists s. apply find_cons_eq.
  - exists sm. rewrite find_cons_neq by assumption. assumption.
Qed.

Lemma find_None_notin : forall t n, find t n = None -> ~ In n (map fst t).
Proof.
  induction t as [|[k s] r IH]; intros n F.
  - intros [].
  - cbn [find] in F. destruct (name_eqb k n) eqn:E; [discriminate|].
    apply name_eqb_false_iff in E. cbn [map fst In].
    intros [e|i]; [contradiction|]. exact (IH _ F i).
Qed.

(* ------------------------------------------------------------------ *)
(* lower_latin1 *)

Ltac b2p := repeat match goal with
  | H : (_ =? _) = true |- _ => apply Nat.eqb_eq in H
  | H : (_ =? _) = false |- _ => apply Nat.eqb_neq in H
  | H : (_ <=? _) = true |- _ => apply Nat.leb_le in H
  | H : (_ <=? _) = false |- _ => apply Nat.leb_gt in H
  end.

Lemma lower_byte_cases : forall c,
  (lower_byte c = c /\ ~ (65 <= c <= 90) /\ ~ (192 <= c <= 214) /\ ~ (216 <= c <= 222))
  \/ (lower_byte c = c + 32 /\ (65 <= c <= 90 \/ 192 <= c <= 214 \/ 216 <= c <= 222)).
Proof.
  intros c. unfold lower_byte.
  destruct (c =? 215) eqn:E0.
  - b2p. left. split; [reflexivity|lia].
  - destruct (65 <=? c) eqn:E1; destruct (c <=? 90) eqn:E2;
    destruct (192 <=? c) eqn:E3; destruct (c <=? 214) eqn:E4;
    destruct (216 <=? c) eqn:E5; destruct (c <=? 222) eqn:E6;
    cbn [andb orb]; b2p;
    first [ left; split; [reflexivity|lia] | right; split; [reflexivity|lia] ].
Qed.

Lemma lower_byte_idem : forall c, lower_byte (lower_byte c) = lower_byte c.
Proof.
  intros c.
  destruct (lower_byte_cases (lower_byte c)) as [[H _]|[H R]]; [assumption|].
  exfalso. destruct (lower_byte_cases c) as [[H1 N]|[H1 R1]]; rewrite H1 in R; lia.
Qed.

Lemma lower_byte_92 : forall c, lower_byte c = 92 <-> c = 92.
Proof.
  intros c. split.
  - intros H. destruct (lower_byte_cases c) as [[H1 N]|[H1 R1]]; rewrite H1 in H; lia.
  - intros ->. reflexivity.
Qed.

Lemma is_ext_cons : forall c r, is_ext (c :: r) = Nat.eqb c 92.
Proof.
  intros c r. destruct (Nat.eqb_spec c 92) as [e|ne].
  - subst c. reflexivity.
  - unfold is_ext. do 92 (destruct c as [|c]; [reflexivity|]).
    destruct c as [|c]; [exfalso; apply ne; reflexivity | reflexivity].
Qed.

Lemma lower_latin1_ok : lower_ok lower_latin1.
Proof.
  split.
  - intros n. unfold lower_latin1. rewrite map_map.
    apply map_ext. intros c. apply lower_byte_idem.
  - intros n. destruct n as [|c r]; [reflexivity|].
    unfold lower_latin1. cbn [map]. rewrite !is_ext_cons.
    destruct (Nat.eqb_spec c 92) as [e|ne].
    + apply Nat.eqb_eq. apply lower_byte_92. assumption.
    + apply Nat.eqb_neq. intros H. apply (proj1 (lower_byte_92 c)) in H. contradiction.
Qed.

(* ------------------------------------------------------------------ *)
(* facts that need no hypothesis on lower *)

Section Any.
Variable lower : name -> name.

Lemma wf_empty_s : wf_table lower [].
Proof.
  unfold wf_table. split; [|split; [|split]].
  - cbn [map]. constructor.
  - intros n s F. cbn [find] in F. discriminate.
  - intros n1 s1 n2 s2 F. cbn [find] in F. discriminate.
  - intros n s F. cbn [find] in F. discriminate.
Qed.

Lemma insert_new_total_s : forall t n, exists t' s, insert_new lower t n (is_ext n) = Some (t', s).
Proof.
  intros t n. unfold insert_new.
  destruct (find t n) as [s0|]; [eauto|].
  rewrite eqb_reflx. cbn [negb].
  destruct (is_ext n); [eauto|].
  destruct (find t (lower n)); cbv zeta; eauto.
Qed.

Lemma insert_new_mono : forall t n e t' s m sm,
  insert_new lower t n e = Some (t', s) -> find t m = Some sm -> find t' m = Some sm.
Proof.
  intros t n e t' s m sm H Hm. unfold insert_new in H. cbv zeta in H.
  destruct (find t n) as [s0|] eqn:Fn.
  - inversion H; subst; assumption.
  - destruct (negb _); [discriminate|].
    assert (Nm : n <> m) by (intro; subst; congruence).
    destruct e.
    + inversion H; subst. rewrite find_cons_neq; assumption.
    + destruct (find t (lower n)) as [ns|] eqn:Fl.
      * inversion H; subst. rewrite find_cons_neq; assumption.
      * assert (Nl : lower n <> m) by (intro; subst; congruence).
        destruct (name_eqb (lower n) n); inversion H; subst;
          repeat rewrite find_cons_neq by assumption; assumption.
Qed.

Lemma run_mono : forall ops t t' m sm,
  run lower t ops = Some t' -> find t m = Some sm -> find t' m = Some sm.
Proof.
  induction ops as [|n r IH]; intros t t' m sm R F; cbn [run] in R.
  - inversion R; subst; assumption.
  - destruct (insert_new lower t n (is_ext n)) as [[t1 s1]|] eqn:I; [|discriminate].
    eapply IH; [eassumption|]. eapply insert_new_mono; eassumption.
Qed.

Lemma run_total_s : forall ops t, exists t', run lower t ops = Some t'.
Proof.
  induction ops as [|n r IH]; intros t; cbn [run].
  - eauto.
  - destruct (insert_new_total_s t n) as [t1 [s1 I]]. rewrite I. apply IH.
Qed.

(* an entry whose norm is k forces k to be present *)
Lemma no_norm : forall t k m sm, wf_table lower t -> find t k = None -> find t m = Some sm ->
  norm lower m <> k.
Proof.
  intros t k m sm [_ [_ [_ W4]]] Fk Fm. unfold norm.
  destruct (is_ext m) eqn:E; intro e; subst.
  - congruence.
  - destruct (W4 _ _ Fm E) as [s' F']. congruence.
Qed.

Lemma wf_cons : forall t k id, wf_table lower t -> find t k = None -> id < S (length t) ->
  (forall m sm, find t m = Some sm -> (s_id sm = id <-> norm lower m = norm lower k)) ->
  (is_ext k = false -> lower k = k \/ exists s', find t (lower k) = Some s') ->
  wf_table lower ((k, mkSym id k) :: t).
Proof.
  intros t k id [W1 [W2 [W3 W4]]] Fk Hid Hc H4.
  split; [|split; [|split]].
  - cbn [map fst]. constructor; [apply find_None_notin; assumption | assumption].
  - intros n s F. destruct (name_dec k n) as [e|ne].
    + subst. rewrite find_cons_eq in F. inversion F; subst.
      cbn [s_name s_id length]. split; [reflexivity|lia].
    + rewrite find_cons_neq in F by assumption. destruct (W2 _ _ F) as [A B].
      cbn [length]. split; [assumption|lia].
  - intros n1 s1 n2 s2 F1 F2.
    destruct (name_dec k n1) as [e1|ne1]; destruct (name_dec k n2) as [e2|ne2].
    + subst. rewrite find_cons_eq in F1, F2. inversion F1; inversion F2; subst.
      split; reflexivity.
    + subst. rewrite find_cons_eq in F1. rewrite find_cons_neq in F2 by assumption.
      inversion F1; subst. cbn [s_id].
      destruct (Hc _ _ F2) as [A B]. split; intro H; symmetry; auto.
    + subst. rewrite find_cons_eq in F2. rewrite find_cons_neq in F1 by assumption.
      inversion F2; subst. cbn [s_id]. apply Hc. assumption.
    + rewrite find_cons_neq in F1, F2 by assumption. eapply W3; eassumption.
  - intros n s F E. destruct (name_dec k n) as [e|ne].
    + subst. destruct (H4 E) as [L|[s' L]].
      * rewrite L. eexists. apply find_cons_eq.
      * eapply find_cons_ex. eassumption.
    + rewrite find_cons_neq in F by assumption.
      destruct (W4 _ _ F E) as [s' F']. eapply find_cons_ex. eassumption.
Qed.

Lemma wf_fresh : forall t k, wf_table lower t -> find t k = None -> norm lower k = k ->
  (is_ext k = false -> lower k = k) ->
  wf_table lower ((k, mkSym (length t) k) :: t).
Proof.
  intros t k W Fk Nk L. apply wf_cons; auto.
  - intros m sm Fm. split; intro H.
    + destruct W as [_ [W2 _]]. destruct (W2 _ _ Fm) as [_ B]. lia.
    + exfalso. rewrite Nk in H. exact (no_norm _ _ _ _ W Fk Fm H).
Qed.

Lemma run_cons_inv : forall t n r t', run lower t (n :: r) = Some t' ->
  exists t1 s1, insert_new lower t n (is_ext n) = Some (t1, s1) /\ run lower t1 r = Some t'.
Proof.
  intros t n r t' R. cbn [run] in R.
  destruct (insert_new lower t n (is_ext n)) as [[t1 s1]|] eqn:I; [|discriminate].
  eauto.
Qed.

Lemma kw_step : forall t k, is_ext k = false -> lower k = k -> find t k = None ->
  insert_new lower t k (is_ext k) = Some ((k, mkSym (length t) k) :: t, mkSym (length t) k).
Proof.
  intros t k E L F. unfold insert_new. rewrite F. rewrite eqb_reflx. cbn [negb].
  rewrite E. cbv zeta. rewrite L. rewrite F. rewrite name_eqb_refl. reflexivity.
Qed.

Lemma kw_gen : forall kws t0 t, NoDup kws ->
  (forall k, In k kws -> is_ext k = false /\ lower k = k) ->
  (forall k, In k kws -> find t0 k = None) ->
  run lower t0 kws = Some t ->
  length t = length t0 + length kws /\
  forall i k, nth_error kws i = Some k -> exists s, find t k = Some s /\ s_id s = length t0 + i.
Proof.
  induction kws as [|k r IH]; intros t0 t ND HK HA R.
  - cbn [run] in R. inversion R; subst. cbn [length]. split; [lia|].
    intros i k H. destruct i; discriminate.
  - destruct (HK k (or_introl eq_refl)) as [E L].
    cbn [run] in R. rewrite (kw_step t0 k E L (HA k (or_introl eq_refl))) in R.
    inversion ND as [|x l Nin ND']; subst.
    assert (HA' : forall k', In k' r -> find ((k, mkSym (length t0) k) :: t0) k' = None).
    { intros k' I. rewrite find_cons_neq.
      - apply HA. right. assumption.
      - intro e. subst. contradiction. }
    destruct (IH _ _ ND' (fun k' I => HK k' (or_intror I)) HA' R) as [Len Ids].
    cbn [length] in *. split; [lia|].
    intros i k' H. destruct i as [|i]; cbn [nth_error] in H.
    + inversion H; subst. exists (mkSym (length t0) k'). split.
      * eapply run_mono; [eassumption|]. apply find_cons_eq.
      * cbn [s_id]. lia.
    + destruct (Ids _ _ H) as [s [F I]]. exists s. split; [assumption|lia].
Qed.

End Any.

(* ------------------------------------------------------------------ *)
(* facts that need lower_ok *)

Section Ok.
Variable lower : name -> name.
Hypothesis lok : lower_ok lower.

Lemma norm_ext : forall n, is_ext n = true -> norm lower n = n.
Proof. intros n E. unfold norm. rewrite E. reflexivity. Qed.

Lemma norm_basic : forall n, is_ext n = false -> norm lower n = lower n.
Proof. intros n E. unfold norm. rewrite E. reflexivity. Qed.

Lemma norm_lower_basic : forall n, is_ext n = false -> norm lower (lower n) = lower n.
Proof.
  intros n E. destruct lok as [Hi He]. unfold norm. rewrite He, E. apply Hi.
Qed.

Lemma wf_alias : forall t n ns, wf_table lower t -> find t n = None -> is_ext n = false ->
  find t (lower n) = Some ns -> wf_table lower ((n, mkSym (s_id ns) n) :: t).
Proof.
  intros t n ns W Fn E Fl. apply wf_cons; auto.
  - destruct W as [_ [W2 _]]. destruct (W2 _ _ Fl) as [_ B]. lia.
  - intros m sm Fm. destruct W as [_ [_ [W3 _]]].
    rewrite (W3 _ _ _ _ Fm Fl). rewrite norm_lower_basic by assumption.
    rewrite (norm_basic n) by assumption. reflexivity.
  - intros _. right. eauto.
Qed.

Lemma insert_new_wf_s : forall t n t' s, wf_table lower t ->
  insert_new lower t n (is_ext n) = Some (t', s) -> wf_table lower t' /\ find t' n = Some s.
Proof.
  intros t n t' s W H. unfold insert_new in H. cbv zeta in H.
  destruct (find t n) as [s0|] eqn:Fn.
  - inversion H; subst. split; assumption.
  - rewrite eqb_reflx in H. cbn [negb] in H.
    destruct (is_ext n) eqn:E.
    + inversion H; subst. split; [|apply find_cons_eq].
      apply wf_fresh; auto.
      * apply norm_ext. assumption.
      * intros E'. congruence.
    + destruct (find t (lower n)) as [ns|] eqn:Fl.
      * inversion H; subst. split; [|apply find_cons_eq].
        apply wf_alias; assumption.
      * destruct (name_eqb (lower n) n) eqn:Q.
        -- apply name_eqb_true_iff in Q. inversion H; subst.
           split; [|apply find_cons_eq].
           apply wf_fresh; auto.
           rewrite norm_basic by assumption. assumption.
        -- apply name_eqb_false_iff in Q. inversion H; subst.
           split; [|apply find_cons_eq].
           assert (W1 : wf_table lower ((lower n, mkSym (length t) (lower n)) :: t)).
           { apply wf_fresh; auto.
             - apply norm_lower_basic. assumption.
             - intros _. destruct lok as [Hi _]. apply Hi. }
           pose proof (wf_alias _ n (mkSym (length t) (lower n)) W1) as A.
           cbn [s_id] in A. apply A.
           ++ rewrite find_cons_neq by assumption. assumption.
           ++ assumption.
           ++ apply find_cons_eq.
Qed.

Lemma run_wf_s : forall ops t t', wf_table lower t -> run lower t ops = Some t' ->
  wf_table lower t' /\ (forall m sm, find t m = Some sm -> find t' m = Some sm)
  /\ (forall n, In n ops -> exists s, find t' n = Some s).
Proof.
  induction ops as [|n r IH]; intros t t' W R.
  - cbn [run] in R. inversion R; subst. split; [assumption|]. split; [auto|].
    intros n [].
  - destruct (run_cons_inv _ _ _ _ _ R) as [t1 [s1 [I R1]]].
    destruct (insert_new_wf_s _ _ _ _ W I) as [W1 F1].
    destruct (IH _ _ W1 R1) as [Wt' [M A]].
    split; [assumption|]. split.
    + intros m sm F. apply M. eapply insert_new_mono; eassumption.
    + intros n' [e|i].
      * subst. exists s1. apply M. assumption.
      * apply A. assumption.
Qed.

End Ok.

(* ------------------------------------------------------------------ *)
(* the deliverables *)

Lemma wf_empty : forall lower, wf_table lower [].
Proof. exact wf_empty_s. Qed.

Theorem insert_new_wf : forall lower t n t' s, lower_ok lower -> wf_table lower t ->
  insert_new lower t n (is_ext n) = Some (t', s) -> wf_table lower t' /\ find t' n = Some s.
Proof. intros lower t n t' s lok W H. eapply insert_new_wf_s; eassumption. Qed.

Theorem insert_new_total : forall lower t n, exists t' s, insert_new lower t n (is_ext n) = Some (t', s).
Proof. exact insert_new_total_s. Qed.

Theorem insert_new_monotone : forall lower t n e t' s m sm, lower_ok lower -> wf_table lower t ->
  insert_new lower t n e = Some (t', s) -> find t m = Some sm -> find t' m = Some sm.
Proof. intros lower t n e t' s m sm _ _ H F. eapply insert_new_mono; eassumption. Qed.

Theorem run_wf : forall lower ops t t', lower_ok lower -> wf_table lower t -> run lower t ops = Some t' ->
  wf_table lower t' /\ (forall m sm, find t m = Some sm -> find t' m = Some sm) /\ (forall n, In n ops -> exists s, find t' n = Some s).
Proof. intros lower ops t t' lok W R. eapply run_wf_s; eassumption. Qed.

Theorem run_total : forall lower ops t, exists t', run lower t ops = Some t'.
Proof. exact run_total_s. Qed.

(* the main statement: after ANY schedule of insertions starting from the empty table, two
   spellings have the same id iff they are the same identifier by the VHDL rules *)
Theorem symtab_schedule_independent : forall lower ops t n1 s1 n2 s2, lower_ok lower ->
  run lower [] ops = Some t -> find t n1 = Some s1 -> find t n2 = Some s2 ->
  (s_id s1 = s_id s2 <-> norm lower n1 = norm lower n2).
Proof.
  intros lower ops t n1 s1 n2 s2 lok R F1 F2.
  destruct (run_wf lower ops [] t lok (wf_empty lower) R) as [[_ [_ [W3 _]]] _].
  eapply W3; eassumption.
Qed.

(* keywords: distinct lower-case basic identifiers inserted first get the ids 0, 1, 2, ... and
   keep them *)
Theorem keywords_ids : forall lower kws ops t t', lower_ok lower -> NoDup kws ->
  (forall k, In k kws -> is_ext k = false /\ lower k = k) ->
  run lower [] kws = Some t -> run lower t ops = Some t' ->
  forall i k, nth_error kws i = Some k -> exists s, find t' k = Some s /\ s_id s = i.
Proof.
  intros lower kws ops t t' _ ND HK R R' i k H.
  destruct (kw_gen lower kws [] t ND HK (fun k _ => eq_refl) R) as [_ Ids].
  destruct (Ids _ _ H) as [s [F I]]. exists s. split.
  - eapply run_mono; eassumption.
  - cbn [length] in I. lia.
Qed.

(* the seeded race (no re-check after taking the write lock): two threads that both missed the
   same extended identifier in `lookup` insert it twice and get two different ids *)
Theorem nocheck_refuted : exists t1 s1 t2 s2, insert_new_nocheck lower_latin1 [] [92; 97; 92] true = Some (t1, s1) /\
  insert_new_nocheck lower_latin1 t1 [92; 97; 92] true = Some (t2, s2) /\ s_id s1 <> s_id s2.
Proof.
  exists [([92; 97; 92], mkSym 0 [92; 97; 92])], (mkSym 0 [92; 97; 92]),
         [([92; 97; 92], mkSym 1 [92; 97; 92]); ([92; 97; 92], mkSym 0 [92; 97; 92])],
         (mkSym 1 [92; 97; 92]).
  split; [vm_compute; reflexivity|]. split; [vm_compute; reflexivity|].
  cbn [s_id]. discriminate.
Qed.
