(* Symtab/Symtab.v — model of vhdl_lang/src/data/symbol_table.rs (definitions only).

   `SymbolTable` is a `RwLock<FnvHashMap<Arc<Latin1String>, Symbol>>`.  Its two operations hold the
   lock for their whole body, so they are atomic steps and a parallel parse is an arbitrary
   sequence of them:
     lookup name            (read lock)   the entry stored under exactly this spelling
     insert_new name ext    (write lock)  re-check; extended identifier: fresh id; basic identifier:
                                          the id of the lower-case spelling if that is present, else a
                                          fresh id for both spellings
   `insert` / `insert_extended` = `lookup`, and on a miss `insert_new` — two steps, other threads may
   run in between (that is why `insert_new` looks the name up again).
   A fresh id is `name_to_symbol.len()`, the number of entries.  `debug_assert_eq!` on the
   extended flag is a panic outcome (`None`).  `insert_new_nocheck` is `insert_new` without the
   re-check (a seeded race). *)
From Coq Require Import List Arith Bool.
Import ListNotations.

Definition name := list nat.            (* Latin-1 bytes *)
Record sym := mkSym { s_id : nat; s_name : name }.
Definition table := list (name * sym).  (* newest entry first *)

Definition name_eqb (a b : name) : bool := if list_eq_dec Nat.eq_dec a b then true else false.
Fixpoint find (t : table) (n : name) : option sym :=
  match t with
  | [] => None
  | (k, s) :: r => if name_eqb k n then Some s else find r n
  end.
(* the first byte is a backslash *)
Definition is_ext (n : name) : bool := match n with 92 :: _ => true | _ => false end.

(* Latin1String::lowercase *)
Definition lower_byte (c : nat) : nat :=
  if Nat.eqb c 215 then c
  else if ((65 <=? c) && (c <=? 90)) || ((192 <=? c) && (c <=? 214)) || ((216 <=? c) && (c <=? 222)) then c + 32
  else c.
Definition lower_latin1 (n : name) : name := map lower_byte n.

Section Table.
Variable lower : name -> name.

Definition lookup (t : table) (n : name) : option sym := find t n.

Definition insert_new (t : table) (n : name) (ext : bool) : option (table * sym) :=
  match find t n with
  | Some s => Some (t, s)
  | None =>
    if negb (Bool.eqb (is_ext n) ext) then None
    else if ext then
      let s := mkSym (length t) n in Some ((n, s) :: t, s)
    else
      let nn := lower n in
      match find t nn with
      | Some ns => let s := mkSym (s_id ns) n in Some ((n, s) :: t, s)
      | None =>
        let id := length t in
        let t1 := if name_eqb nn n then t else (nn, mkSym id nn) :: t in
        Some ((n, mkSym id n) :: t1, mkSym id n)
      end
  end.

Definition insert_new_nocheck (t : table) (n : name) (ext : bool) : option (table * sym) :=
  if negb (Bool.eqb (is_ext n) ext) then None
  else if ext then
    let s := mkSym (length t) n in Some ((n, s) :: t, s)
  else
    let nn := lower n in
    match find t nn with
    | Some ns => let s := mkSym (s_id ns) n in Some ((n, s) :: t, s)
    | None =>
      let id := length t in
      let t1 := if name_eqb nn n then t else (nn, mkSym id nn) :: t in
      Some ((n, mkSym id n) :: t1, mkSym id n)
    end.

(* `insert` / `insert_extended` executed without interruption *)
Definition insert (t : table) (n : name) : option (table * sym) :=
  match lookup t n with Some s => Some (t, s) | None => insert_new t n (is_ext n) end.

(* a schedule: the sequence of atomic write steps (lookups do not change the table) *)
Fixpoint run (t : table) (ops : list name) : option table :=
  match ops with
  | [] => Some t
  | n :: r => match insert_new t n (is_ext n) with Some (t', _) => run t' r | None => None end
  end.

(* the key under which two spellings are the same identifier (LRM 15.4.2 / 15.4.3) *)
Definition norm (n : name) : name := if is_ext n then n else lower n.

Definition wf_table (t : table) : Prop :=
  NoDup (map fst t)
  /\ (forall n s, find t n = Some s -> s_name s = n /\ s_id s < length t)
  /\ (forall n1 s1 n2 s2, find t n1 = Some s1 -> find t n2 = Some s2 ->
        (s_id s1 = s_id s2 <-> norm n1 = norm n2))
  /\ (forall n s, find t n = Some s -> is_ext n = false -> exists s', find t (lower n) = Some s').
End Table.

(* result of a sequential run on the real table, as the harness observes it: for the i-th
   inserted name the index of the first name of the list that got an equal Symbol *)
Definition class_of (ids : list nat) (i : nat) : nat :=
  let x := nth i ids 0 in
  (fix go (k : nat) (l : list nat) : nat :=
     match l with [] => i | y :: r => if Nat.eqb y x then k else go (S k) r end) 0 ids.
Fixpoint insert_all (t : table) (ns : list name) : option (list nat) :=
  match ns with
  | [] => Some []
  | n :: r =>
    match insert lower_latin1 t n with
    | Some (t', s) => match insert_all t' r with Some l => Some (s_id s :: l) | None => None end
    | None => None
    end
  end.
Definition classes (ns : list name) : option (list nat) :=
  match insert_all [] ns with
  | Some ids => Some (map (class_of ids) (seq 0 (length ids)))
  | None => None
  end.
