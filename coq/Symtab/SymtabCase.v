(* Symtab/SymtabCase.v — C13's facts about the symbol table model of Symtab/Symtab.v (the model and
   its invariant `wf_table` are shared with C04; the invariant proofs are in Symtab/SymtabProofs.v):
   the Latin-1 lower-case table of `Latin1String::lowercase` (256-case sweep), its agreement with the
   copy used by the lexer model (`Text.Reader.lowercase`, on N), case-insensitivity of the ids for
   all insertion histories, and the keyword lookup `symtab.insert(name).id < keywords.len()` of
   `Symbols::insert_or_keyword`. *)
From Coq Require Import List Arith Bool Lia NArith.
Import ListNotations.
From RH Require Import Symtab.Symtab Symtab.SymtabProofs Text.Reader.
Local Open Scope nat_scope.

(* ------------------------------------------------------------------ *)
(* the table *)

(* the upper-case letters of ISO 8859-1: A-Z, and 192-222 except 215 (the multiplication sign) *)
Definition is_upper_l1 (c : nat) : bool :=
  ((65 <=? c) && (c <=? 90)) || (((192 <=? c) && (c <=? 222)) && negb (c =? 215)).

Definition lower_table : list nat := [
  0; 1; 2; 3; 4; 5; 6; 7; 8; 9; 10; 11; 12; 13; 14; 15;
  16; 17; 18; 19; 20; 21; 22; 23; 24; 25; 26; 27; 28; 29; 30; 31;
  32; 33; 34; 35; 36; 37; 38; 39; 40; 41; 42; 43; 44; 45; 46; 47;
  48; 49; 50; 51; 52; 53; 54; 55; 56; 57; 58; 59; 60; 61; 62; 63;
  64; 97; 98; 99; 100; 101; 102; 103; 104; 105; 106; 107; 108; 109; 110; 111;
  112; 113; 114; 115; 116; 117; 118; 119; 120; 121; 122; 91; 92; 93; 94; 95;
  96; 97; 98; 99; 100; 101; 102; 103; 104; 105; 106; 107; 108; 109; 110; 111;
  112; 113; 114; 115; 116; 117; 118; 119; 120; 121; 122; 123; 124; 125; 126; 127;
  128; 129; 130; 131; 132; 133; 134; 135; 136; 137; 138; 139; 140; 141; 142; 143;
  144; 145; 146; 147; 148; 149; 150; 151; 152; 153; 154; 155; 156; 157; 158; 159;
  160; 161; 162; 163; 164; 165; 166; 167; 168; 169; 170; 171; 172; 173; 174; 175;
  176; 177; 178; 179; 180; 181; 182; 183; 184; 185; 186; 187; 188; 189; 190; 191;
  224; 225; 226; 227; 228; 229; 230; 231; 232; 233; 234; 235; 236; 237; 238; 239;
  240; 241; 242; 243; 244; 245; 246; 215; 248; 249; 250; 251; 252; 253; 254; 223;
  224; 225; 226; 227; 228; 229; 230; 231; 232; 233; 234; 235; 236; 237; 238; 239;
  240; 241; 242; 243; 244; 245; 246; 247; 248; 249; 250; 251; 252; 253; 254; 255
].

Lemma lower_table_ok : map lower_byte (seq 0 256) = lower_table.
Proof. vm_compute. reflexivity. Qed.

Definition lower_spec_b (c : nat) : bool :=
  (lower_byte c =? (if is_upper_l1 c then c + 32 else c))
  && (lower_byte (lower_byte c) =? lower_byte c)
  && (lower_byte c <? 256)
  && negb (is_upper_l1 (lower_byte c))
  && (Nat.eqb (lower_byte c) c || is_upper_l1 c).

Lemma lower_sweep : forallb lower_spec_b (seq 0 256) = true.
Proof. vm_compute. reflexivity. Qed.

Lemma lower_byte_spec : forall c, c < 256 ->
  lower_byte c = (if is_upper_l1 c then c + 32 else c)
  /\ lower_byte (lower_byte c) = lower_byte c
  /\ lower_byte c < 256
  /\ is_upper_l1 (lower_byte c) = false
  /\ (lower_byte c <> c <-> is_upper_l1 c = true).
Proof.
  intros c Hc. pose proof lower_sweep as S. rewrite forallb_forall in S.
  assert (I : In c (seq 0 256)) by (apply in_seq; lia).
  specialize (S c I). unfold lower_spec_b in S.
  apply andb_prop in S. destruct S as [S S5].
  apply andb_prop in S. destruct S as [S S4].
  apply andb_prop in S. destruct S as [S S3].
  apply andb_prop in S. destruct S as [S1 S2].
  apply Nat.eqb_eq in S1. apply Nat.eqb_eq in S2. apply Nat.ltb_lt in S3.
  apply negb_true_iff in S4.
  split; [exact S1|]. split; [exact S2|]. split; [exact S3|]. split; [exact S4|].
  split.
  - intros N. apply orb_prop in S5. destruct S5 as [E|U]; [|exact U].
    apply Nat.eqb_eq in E. contradiction.
  - intros U. rewrite S1, U. lia.
Qed.

(* outside the byte range nothing moves (the Rust function takes a u8) *)
Lemma lower_byte_big : forall c, 256 <= c -> lower_byte c = c.
Proof.
  intros c Hc. destruct (lower_byte_cases c) as [[H _]|[_ R]]; [exact H|lia].
Qed.

Lemma lower_byte_fixed_215_247 : lower_byte 215 = 215 /\ lower_byte 247 = 247.
Proof. split; reflexivity. Qed.

(* the copy of the table inside the lexer model (Text/Reader.v, on N) is the same function *)
Lemma lowercase_N_nat_small :
  forallb (fun c => Nat.eqb (N.to_nat (lowercase (N.of_nat c))) (lower_byte c)) (seq 0 256) = true.
Proof. vm_compute. reflexivity. Qed.
Lemma lowercase_N_nat : forall c : N, N.to_nat (lowercase c) = lower_byte (N.to_nat c).
Proof.
  intros c. destruct (N.ltb_spec c 256) as [Hs|Hb].
  - pose proof lowercase_N_nat_small as S. rewrite forallb_forall in S.
    assert (I : In (N.to_nat c) (seq 0 256)) by (apply in_seq; lia).
    specialize (S _ I). apply Nat.eqb_eq in S. rewrite N2Nat.id in S. exact S.
  - rewrite lower_byte_big by lia. f_equal.
    unfold lowercase, in_range.
    replace (c =? 215)%N with false by (symmetry; apply N.eqb_neq; lia).
    replace (c <=? 90)%N with false by (symmetry; apply N.leb_gt; lia).
    replace (c <=? 214)%N with false by (symmetry; apply N.leb_gt; lia).
    replace (c <=? 222)%N with false by (symmetry; apply N.leb_gt; lia).
    rewrite !andb_false_r. reflexivity.
Qed.

Definition to_name (l : list N) : name := map N.to_nat l.
Lemma to_name_lowercase : forall l, to_name (map lowercase l) = lower_latin1 (to_name l).
Proof.
  intros l. unfold to_name, lower_latin1. rewrite !map_map. apply map_ext. apply lowercase_N_nat.
Qed.
Lemma to_name_inj : forall a b, to_name a = to_name b -> a = b.
Proof.
  induction a as [|x a IH]; intros [|y b] H; cbn [to_name map] in H; try discriminate; [reflexivity|].
  injection H as H1 H2. f_equal; [lia|apply IH; exact H2].
Qed.

(* ------------------------------------------------------------------ *)
(* histories *)

Notation low := lower_latin1.

Lemma insert_is_insert_new : forall t n, insert low t n = insert_new low t n (is_ext n).
Proof.
  intros t n. unfold insert, lookup, insert_new.
  destruct (find t n) as [s|] eqn:F; reflexivity.
Qed.

Lemma run_app : forall a b t, run low t (a ++ b) =
  match run low t a with Some t1 => run low t1 b | None => None end.
Proof.
  induction a as [|n a IH]; intros b t; cbn [app run]; [reflexivity|].
  destruct (insert_new low t n (is_ext n)) as [[t1 s1]|]; [apply IH|reflexivity].
Qed.

Lemma run_single : forall t n t' s, insert low t n = Some (t', s) -> run low t [n] = Some t'.
Proof.
  intros t n t' s H. rewrite insert_is_insert_new in H. cbn [run]. rewrite H. reflexivity.
Qed.

(* a table the implementation can be in: the result of some sequence of the atomic insertion steps
   (in any interleaving of any number of threads), starting from the empty table *)
Definition reachable (t : table) : Prop := exists ops, run low [] ops = Some t.

Lemma reachable_wf : forall t, reachable t -> wf_table low t.
Proof.
  intros t [ops R].
  destruct (run_wf low ops [] t lower_latin1_ok (wf_empty low) R) as [W _]. exact W.
Qed.

Lemma reachable_insert : forall t n t' s, reachable t -> insert low t n = Some (t', s) ->
  reachable t' /\ find t' n = Some s /\ (forall m sm, find t m = Some sm -> find t' m = Some sm).
Proof.
  intros t n t' s [ops R] H. split; [|split].
  - exists (ops ++ [n]). rewrite run_app, R. eapply run_single. exact H.
  - rewrite insert_is_insert_new in H.
    destruct (insert_new_wf low t n t' s lower_latin1_ok (reachable_wf t (ex_intro _ ops R)) H) as [_ F].
    exact F.
  - intros m sm F. rewrite insert_is_insert_new in H. eapply insert_new_mono; eassumption.
Qed.

Lemma insert_total : forall t n, exists t' s, insert low t n = Some (t', s).
Proof. intros t n. rewrite insert_is_insert_new. apply insert_new_total. Qed.

Lemma norm_basic_l : forall n, is_ext n = false -> norm low n = low n.
Proof. intros n E. unfold norm. rewrite E. reflexivity. Qed.
Lemma norm_ext_l : forall n, is_ext n = true -> norm low n = n.
Proof. intros n E. unfold norm. rewrite E. reflexivity. Qed.
Lemma is_ext_low : forall n, is_ext (low n) = is_ext n.
Proof. exact (proj2 lower_latin1_ok). Qed.

(* ids after ANY history: basic identifiers are equal iff their lower-case spellings are equal;
   an extended identifier is equal only to the identical spelling (and so to no basic identifier) *)
Theorem symtab_case_insensitive : forall t a sa b sb,
  reachable t -> find t a = Some sa -> find t b = Some sb ->
  (is_ext a = false -> is_ext b = false -> (s_id sa = s_id sb <-> low a = low b))
  /\ (is_ext a = true -> (s_id sa = s_id sb <-> a = b)).
Proof.
  intros t a sa b sb [ops R] Fa Fb.
  pose proof (symtab_schedule_independent low ops t a sa b sb lower_latin1_ok R Fa Fb) as H.
  split.
  - intros Ea Eb. rewrite (norm_basic_l a Ea), (norm_basic_l b Eb) in H. exact H.
  - intros Ea. rewrite (norm_ext_l a Ea) in H. rewrite H.
    destruct (is_ext b) eqn:Eb.
    + rewrite (norm_ext_l b Eb). reflexivity.
    + rewrite (norm_basic_l b Eb). split; intro E.
      * exfalso. rewrite E in Ea. rewrite is_ext_low in Ea. congruence.
      * exfalso. subst b. congruence.
Qed.

(* the symbol returned by `insert` is the entry stored under the inserted spelling: its name is the
   spelling as written (messages quote it), its id is the shared one *)
Theorem insert_returns_spelling : forall t n t' s, reachable t -> insert low t n = Some (t', s) ->
  s_name s = n.
Proof.
  intros t n t' s Rt H. destruct (reachable_insert t n t' s Rt H) as [Rt' [F _]].
  destruct (reachable_wf t' Rt') as [_ [W2 _]]. exact (proj1 (W2 n s F)).
Qed.

(* two insertions, anywhere in a history, of two spellings *)
Theorem insert_case_insensitive : forall t a t1 sa ops t2 b t3 sb,
  reachable t -> insert low t a = Some (t1, sa) -> run low t1 ops = Some t2 ->
  insert low t2 b = Some (t3, sb) ->
  (is_ext a = false -> is_ext b = false -> (s_id sa = s_id sb <-> low a = low b))
  /\ (is_ext a = true -> (s_id sa = s_id sb <-> a = b)).
Proof.
  intros t a t1 sa ops t2 b t3 sb Rt Ha Hops Hb.
  destruct (reachable_insert t a t1 sa Rt Ha) as [[o1 R1] [Fa _]].
  assert (R2 : reachable t2) by (exists (o1 ++ ops); rewrite run_app, R1; exact Hops).
  destruct (reachable_insert t2 b t3 sb R2 Hb) as [R3 [Fb M3]].
  assert (Fa3 : find t3 a = Some sa).
  { apply M3. eapply run_mono; [exact Hops|exact Fa]. }
  exact (symtab_case_insensitive t3 a sa b sb R3 Fa3 Fb).
Qed.

Theorem insert_case_insensitive_full : forall t a t1 sa ops t2 b t3 sb,
  reachable t -> insert low t a = Some (t1, sa) -> run low t1 ops = Some t2 ->
  insert low t2 b = Some (t3, sb) ->
  s_name sa = a /\ s_name sb = b
  /\ (is_ext a = false -> is_ext b = false -> (s_id sa = s_id sb <-> low a = low b))
  /\ (is_ext a = true -> (s_id sa = s_id sb <-> a = b)).
Proof.
  intros t a t1 sa ops t2 b t3 sb Rt Ha Ho Hb.
  split; [exact (insert_returns_spelling t a t1 sa Rt Ha)|].
  split; [|exact (insert_case_insensitive t a t1 sa ops t2 b t3 sb Rt Ha Ho Hb)].
  destruct (reachable_insert t a t1 sa Rt Ha) as [[o1 R1] _].
  apply (insert_returns_spelling t2 b t3 sb); [|exact Hb].
  exists (o1 ++ ops). rewrite run_app, R1. exact Ho.
Qed.

(* ------------------------------------------------------------------ *)
(* keywords: `Symbols::from_standard` inserts the keyword names first and asserts id = index;
   `insert_or_keyword` decides "keyword" by `symbol.id < keywords.len()` *)

Definition kw_table_ok (kws : list name) : Prop :=
  NoDup kws /\ forall k, In k kws -> is_ext k = false /\ low k = k.

Fixpoint nodupb (l : list name) : bool :=
  match l with [] => true | x :: r => negb (existsb (name_eqb x) r) && nodupb r end.
Lemma nodupb_ok : forall l, nodupb l = true -> NoDup l.
Proof.
  induction l as [|x r IH]; intros H; [constructor|]. cbn [nodupb] in H.
  apply andb_prop in H. destruct H as [H1 H2]. constructor; [|apply IH; exact H2].
  intros I. apply negb_true_iff in H1.
  assert (X : existsb (name_eqb x) r = true) by (apply existsb_exists; exists x; split; [exact I|apply name_eqb_refl]).
  congruence.
Qed.
Definition kw_table_okb (kws : list name) : bool :=
  nodupb kws && forallb (fun k => negb (is_ext k) && name_eqb (low k) k) kws.
Lemma kw_table_okb_ok : forall kws, kw_table_okb kws = true -> kw_table_ok kws.
Proof.
  intros kws H. apply andb_prop in H. destruct H as [H1 H2]. split; [apply nodupb_ok; exact H1|].
  intros k I. rewrite forallb_forall in H2. specialize (H2 k I). apply andb_prop in H2. destruct H2 as [A B].
  apply negb_true_iff in A. apply name_eqb_true_iff in B. split; assumption.
Qed.

Theorem keyword_lookup : forall kws ops t0 t n t' s,
  kw_table_ok kws -> run low [] kws = Some t0 -> run low t0 ops = Some t ->
  insert low t n = Some (t', s) ->
  (s_id s < length kws <-> (is_ext n = false /\ In (low n) kws))
  /\ (s_id s < length kws -> nth_error kws (s_id s) = Some (low n)).
Proof.
  intros kws ops t0 t n t' s [ND HK] R0 R H.
  assert (Rt : reachable t) by (exists (kws ++ ops); rewrite run_app, R0; exact R).
  destruct (reachable_insert t n t' s Rt H) as [Rt' [Fn _]].
  assert (R' : run low t0 (ops ++ [n]) = Some t').
  { rewrite run_app, R. eapply run_single. exact H. }
  pose proof (keywords_ids low kws (ops ++ [n]) t0 t' lower_latin1_ok ND HK R0 R') as KI.
  destruct (reachable_wf t' Rt') as [_ [_ [W3 _]]].
  assert (A : forall i k, nth_error kws i = Some k -> (s_id s = i <-> norm low n = k)).
  { intros i k N. destruct (KI i k N) as [sk [Fk Ik]].
    rewrite <- Ik. rewrite (W3 n s k sk Fn Fk).
    destruct (HK k (nth_error_In _ _ N)) as [Ek Lk].
    rewrite (norm_basic_l k Ek), Lk. reflexivity. }
  assert (B : s_id s < length kws -> is_ext n = false /\ nth_error kws (s_id s) = Some (low n)).
  { intros L. destruct (nth_error kws (s_id s)) as [k|] eqn:N.
    - pose proof (proj1 (A _ _ N) eq_refl) as E.
      destruct (HK k (nth_error_In _ _ N)) as [Ek Lk].
      destruct (is_ext n) eqn:En.
      + rewrite (norm_ext_l n En) in E. subst k. congruence.
      + rewrite (norm_basic_l n En) in E. subst k. split; reflexivity.
    - apply nth_error_None in N. lia. }
  split; [split|].
  - intros L. destruct (B L) as [En N]. split; [exact En|]. eapply nth_error_In. exact N.
  - intros [En I]. destruct (In_nth_error _ _ I) as [i N].
    assert (E : s_id s = i) by (apply (A i _ N); apply norm_basic_l; exact En).
    rewrite E. apply nth_error_Some. congruence.
  - intros L. exact (proj2 (B L)).
Qed.

(* keywords keep the ids 0 .. N-1 whatever is inserted afterwards *)
Theorem keywords_keep_ids : forall kws ops t0 t i k,
  kw_table_ok kws -> run low [] kws = Some t0 -> run low t0 ops = Some t ->
  nth_error kws i = Some k -> exists s, find t k = Some s /\ s_id s = i.
Proof.
  intros kws ops t0 t i k [ND HK] R0 R N.
  exact (keywords_ids low kws ops t0 t lower_latin1_ok ND HK R0 R i k N).
Qed.

(* ------------------------------------------------------------------ *)
(* what the correspondence run of checks/c13.py observes (extracted by ocaml/extract/c13_run.v and
   evaluated inside Coq on a sample): ids of sequentially inserted names, starting from the table
   that holds `init` (the keywords and builtin attributes of `Symbols::from_standard`, or nothing);
   the keyword test of `insert_or_keyword`; the 256 values of the table *)
Fixpoint insert_ids (t : table) (ns : list name) : option (list nat) :=
  match ns with
  | [] => Some []
  | n :: r =>
    match insert low t n with
    | Some (t', s) => match insert_ids t' r with Some l => Some (s_id s :: l) | None => None end
    | None => None
    end
  end.
Definition ids_from (init ns : list name) : option (list nat) :=
  match run low [] init with Some t => insert_ids t ns | None => None end.
(* Some (Some i): the i-th keyword; Some None: an identifier *)
Definition kw_index (nkw : nat) (init : list name) (n : name) : option (option nat) :=
  match run low [] init with
  | Some t => match insert low t n with
              | Some (_, s) => Some (if s_id s <? nkw then Some (s_id s) else None)
              | None => None
              end
  | None => None
  end.
Definition lower_all : list nat := map lower_byte (seq 0 256).

(* ------------------------------------------------------------------ *)
(* seeded variants that the theorems exclude (used by the would-catch experiments of checks/c13.py) *)

(* a table that treated 215 as a letter would identify the two different identifiers x-times and
   x-divide (215 + 32 = 247) *)
Definition lower_byte_bad215 (c : nat) : nat :=
  if ((65 <=? c) && (c <=? 90)) || ((192 <=? c) && (c <=? 222)) then c + 32 else c.
Lemma bad215_refuted : lower_byte_bad215 215 = 247 /\ lower_byte 215 <> lower_byte 247
  /\ map lower_byte_bad215 [97; 215] = map lower_byte_bad215 [97; 247].
Proof. split; [reflexivity|]. split; [vm_compute; discriminate|reflexivity]. Qed.
