#!/bin/sh
# Regenerates _CoqProject (all .v files under coq/) and the Makefile, then builds the given
# targets (default: everything) with full .vo compilation.
set -e
cd "$(dirname "$0")"
# one Coq build at a time (several checks / agents may call this concurrently)
mkdir -p ../.cache
if [ -z "$RH_COQ_LOCKED" ]; then
  RH_COQ_LOCKED=1 exec flock ../.cache/coq.lock "$0" "$@"
fi
{
  echo "-Q . RH"
  echo "-arg -w -arg -notation-overridden,-deprecated-hint-without-locality,-deprecated-instance-without-locality,-deprecated-hint-rewrite-without-locality"
  find . -name '*.v' ! -path './.cache/*' | sed 's|^\./||' | LC_ALL=C sort
} > _CoqProject.new
if ! cmp -s _CoqProject.new _CoqProject 2>/dev/null || [ ! -f Makefile ]; then
  mv _CoqProject.new _CoqProject
  coq_makefile -f _CoqProject -o Makefile >/dev/null
else
  rm -f _CoqProject.new
fi
if [ $# -eq 0 ]; then
  exec make -j16 --no-print-directory
else
  exec make -j16 --no-print-directory "$@"
fi
