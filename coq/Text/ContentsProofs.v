(* Text/ContentsProofs.v — proofs about the model of `Contents::change` (C10).
   Main results (pinned in Props/C10.v):
     split_canonical, change_total_spec, change_refines_splice, change_never_crashes,
     history_refines, history_never_crashes. *)
From Coq Require Import List NArith Arith Bool Lia.
Import ListNotations.
From RH Require Import Text.Contents Text.Splice.
Open Scope N_scope.

#[local] Arguments N.add : simpl never.
#[local] Arguments N.sub : simpl never.
#[local] Arguments N.eqb : simpl never.
#[local] Arguments N.ltb : simpl never.
#[local] Arguments N.leb : simpl never.
#[local] Arguments N.min : simpl never.

(* A line buffer is canonical when it is the line split of its own text. *)
Definition canonical (d : list (list char)) : Prop := split_lines (concat d) = d.

(* ------------------------------------------------------------------------- *)
(* 0. Generic list facts                                                      *)
(* ------------------------------------------------------------------------- *)

Lemma firstn_len_eq : forall (A : Type) (X Y s : list A),
  s = X ++ Y -> firstn (length X) s = X.
Proof.
  intros A X Y s Hs. subst s.
  induction X as [|x X IH]; cbn [length firstn app].
  - destruct Y; reflexivity.
  - rewrite IH. reflexivity.
Qed.

Lemma skipn_len_eq : forall (A : Type) (X Y s : list A),
  s = X ++ Y -> skipn (length X) s = Y.
Proof.
  intros A X Y s Hs. subst s.
  induction X as [|x X IH]; cbn [length skipn app].
  - reflexivity.
  - exact IH.
Qed.

(* ------------------------------------------------------------------------- *)
(* 1. Intrinsic description of canonical line buffers                         *)
(* ------------------------------------------------------------------------- *)

Definition okc (c : char) : Prop := c <> LF /\ c <> CR.
Notation clean := (Forall okc).

(* every line is a clean body followed by LF, except possibly the last one, which may
   be a non-empty clean body without terminator *)
Inductive cdoc : list (list char) -> Prop :=
| cd_nil : cdoc []
| cd_last : forall b, clean b -> b <> [] -> cdoc [b]
| cd_cons : forall b d, clean b -> cdoc d -> cdoc ((b ++ [LF]) :: d).

Definition lfline (l : list char) : Prop := exists b, clean b /\ l = b ++ [LF].
Notation lfdoc := (Forall lfline).

Definition ne_list (l : list char) : list (list char) :=
  match l with [] => [] | _ => [l] end.

Lemma split_aux_line : forall b cur r, clean b ->
  split_aux false cur (b ++ LF :: r) = (rev cur ++ b ++ [LF]) :: split_aux false [] r.
Proof.
  induction b as [|c b IH]; intros cur r Hb.
  - cbn [app split_aux]. rewrite N.eqb_refl. cbn [rev]. reflexivity.
  - inversion Hb as [|c' b' Hc Hb']; subst c' b'. destruct Hc as [Hlf Hcr].
    cbn [app split_aux].
    apply N.eqb_neq in Hlf. apply N.eqb_neq in Hcr. rewrite Hlf, Hcr.
    rewrite IH by assumption. cbn [rev]. rewrite <- app_assoc. reflexivity.
Qed.

Lemma split_aux_clean_end : forall b cur, clean b ->
  split_aux false cur b = ne_list (rev cur ++ b).
Proof.
  induction b as [|c b IH]; intros cur Hb.
  - cbn [split_aux]. rewrite app_nil_r.
    destruct cur as [|x cur]; [reflexivity|].
    cbn [rev]. destruct (rev cur); reflexivity.
  - inversion Hb as [|c' b' Hc Hb']; subst c' b'. destruct Hc as [Hlf Hcr].
    cbn [split_aux].
    apply N.eqb_neq in Hlf. apply N.eqb_neq in Hcr. rewrite Hlf, Hcr.
    rewrite IH by assumption. cbn [rev]. rewrite <- app_assoc. reflexivity.
Qed.

Lemma cdoc_canonical : forall d, cdoc d -> canonical d.
Proof.
  unfold canonical, split_lines.
  induction 1 as [|b Hb Hne|b d Hb Hd IH].
  - reflexivity.
  - cbn [concat]. rewrite app_nil_r. rewrite split_aux_clean_end by assumption.
    cbn [rev app]. destruct b; [congruence|reflexivity].
  - cbn [concat]. rewrite <- app_assoc. cbn [app].
    rewrite split_aux_line by assumption. cbn [rev app]. rewrite IH. reflexivity.
Qed.

Lemma split_aux_cdoc : forall s pc cur, clean cur -> cdoc (split_aux pc cur s).
Proof.
  induction s as [|c s IH]; intros pc cur Hcur.
  - cbn [split_aux]. destruct cur as [|x cur]; [constructor|].
    apply cd_last.
    + apply Forall_rev. assumption.
    + cbn [rev]. intro H. apply app_eq_nil in H. destruct H as [_ H]. discriminate H.
  - cbn [split_aux]. destruct (c =? LF) eqn:Elf.
    + destruct pc.
      * apply IH. assumption.
      * cbn [rev]. apply cd_cons; [apply Forall_rev; assumption|]. apply IH. constructor.
    + destruct (c =? CR) eqn:Ecr.
      * cbn [rev]. apply cd_cons; [apply Forall_rev; assumption|]. apply IH. constructor.
      * apply IH. constructor; [|assumption].
        split; apply N.eqb_neq; assumption.
Qed.

Lemma split_cdoc : forall s, cdoc (split_lines s).
Proof. intro s. apply split_aux_cdoc. constructor. Qed.

Theorem split_canonical : forall s, canonical (split_lines s).
Proof. intro s. apply cdoc_canonical, split_cdoc. Qed.

Lemma canonical_cdoc : forall d, canonical d -> cdoc d.
Proof. intros d H. rewrite <- H. apply split_cdoc. Qed.

Lemma cdoc_skipn : forall d, cdoc d -> forall n, cdoc (skipn n d).
Proof.
  induction 1 as [|b Hb Hne|b d Hb Hd IH]; intro n.
  - destruct n; constructor.
  - destruct n as [|n]; cbn [skipn].
    + constructor; assumption.
    + destruct n; constructor.
  - destruct n as [|n]; cbn [skipn].
    + constructor; assumption.
    + apply IH.
Qed.

Lemma cdoc_nonlast : forall d, cdoc d -> forall n l,
  (S n < length d)%nat -> nth_error d n = Some l -> exists b, l = b ++ [LF].
Proof.
  induction 1 as [|b Hb Hne|b d Hb Hd IH]; intros n l Hn Hl.
  - cbn [length] in Hn. lia.
  - cbn [length] in Hn. lia.
  - destruct n as [|n]; cbn [nth_error] in Hl.
    + inversion Hl. eauto.
    + apply (IH n l); [|assumption]. cbn [length] in Hn. lia.
Qed.

(* split of a text that starts with LF-terminated canonical lines *)
Lemma split_lfdoc_app : forall X r, lfdoc X ->
  split_aux false [] (concat X ++ r) = X ++ split_aux false [] r.
Proof.
  induction X as [|x X IH]; intros r HX.
  - reflexivity.
  - inversion HX as [|x' X' Hx HX']; subst x' X'.
    destruct Hx as [b [Hb Hx]]. subst x.
    cbn [concat]. rewrite <- !app_assoc. cbn [app].
    rewrite split_aux_line by assumption. cbn [rev app].
    rewrite IH by assumption. reflexivity.
Qed.

(* a text ending in LF can be split independently of what follows *)
Lemma split_aux_lf_app : forall M B,
  (forall cur, split_aux false cur (M ++ [LF] ++ B)
               = split_aux false cur (M ++ [LF]) ++ split_aux false [] B)
  /\ split_aux true [] (M ++ [LF] ++ B)
     = split_aux true [] (M ++ [LF]) ++ split_aux false [] B.
Proof.
  induction M as [|c M IH]; intro B.
  - split; [intro cur|]; cbn [app split_aux]; rewrite N.eqb_refl; reflexivity.
  - destruct (IH B) as [IHf IHt].
    split; [intro cur|]; cbn [app split_aux] in *.
    + destruct (c =? LF).
      * rewrite IHf. reflexivity.
      * destruct (c =? CR).
        -- rewrite IHt. reflexivity.
        -- apply IHf.
    + destruct (c =? LF).
      * apply IHf.
      * destruct (c =? CR).
        -- rewrite IHt. reflexivity.
        -- apply IHf.
Qed.

Lemma split_lines_lf_app : forall M B,
  split_lines ((M ++ [LF]) ++ B) = split_lines (M ++ [LF]) ++ split_lines B.
Proof.
  intros M B. unfold split_lines. rewrite <- app_assoc.
  apply (proj1 (split_aux_lf_app M B)).
Qed.

(* ------------------------------------------------------------------------- *)
(* 2. take16 / drop16                                                         *)
(* ------------------------------------------------------------------------- *)

Lemma len16_pos : forall c, 1 <= len16 c.
Proof. intro c. unfold len16. destruct (c <? 65536); lia. Qed.

Lemma drop16_all : forall l i e, e <= i -> drop16 i e l = l.
Proof.
  induction l as [|c l IH]; intros i e Hle; cbn [drop16].
  - reflexivity.
  - destruct (N.leb_spec e i) as [_|Hlt]; [|lia].
    rewrite IH; [reflexivity|]. pose proof (len16_pos c). lia.
Qed.

Lemma take16_none : forall l i e, e <= i -> take16 i e l = [].
Proof.
  intros l i e Hle. destruct l as [|c l]; cbn [take16]; [reflexivity|].
  destruct (N.ltb_spec i e) as [Hlt|_]; [lia|reflexivity].
Qed.

Lemma take_drop16 : forall l i e, take16 i e l ++ drop16 i e l = l.
Proof.
  induction l as [|c l IH]; intros i e; cbn [take16 drop16].
  - reflexivity.
  - destruct (N.ltb_spec i e) as [Hlt|Hge]; destruct (N.leb_spec e i) as [Hle|Hgt]; try lia.
    + cbn [app]. rewrite IH. reflexivity.
    + cbn [app]. rewrite drop16_all; [reflexivity|]. pose proof (len16_pos c). lia.
Qed.

Lemma take16_min : forall b acc col,
  take16 acc (N.min col (acc + len16s b)) b = take16 acc col b.
Proof.
  induction b as [|c b IH]; intros acc col; cbn [take16 len16s].
  - reflexivity.
  - pose proof (len16_pos c) as Hc.
    destruct (N.ltb_spec acc (N.min col (acc + (len16 c + len16s b)))) as [H1|H1];
      destruct (N.ltb_spec acc col) as [H2|H2]; try lia.
    + f_equal. rewrite <- (IH (acc + len16 c) col). f_equal. lia.
    + reflexivity.
Qed.

Lemma take16_all : forall b acc col, acc + len16s b <= col -> take16 acc col b = b.
Proof.
  induction b as [|c b IH]; intros acc col Hle; cbn [take16 len16s] in *.
  - reflexivity.
  - pose proof (len16_pos c) as Hc.
    destruct (N.ltb_spec acc col) as [H2|H2]; [|lia].
    f_equal. apply IH. lia.
Qed.

Lemma take16_app_le : forall b x acc col, col <= acc + len16s b ->
  take16 acc col (b ++ x) = take16 acc col b.
Proof.
  induction b as [|c b IH]; intros x acc col Hle; cbn [take16 len16s app] in *.
  - apply take16_none. lia.
  - destruct (N.ltb_spec acc col) as [H2|H2]; [|reflexivity].
    f_equal. apply IH. lia.
Qed.

Lemma drop16_app_le : forall b x acc col, col <= acc + len16s b ->
  drop16 acc col (b ++ x) = drop16 acc col b ++ x.
Proof.
  induction b as [|c b IH]; intros x acc col Hle; cbn [drop16 len16s app] in *.
  - apply drop16_all. lia.
  - destruct (N.leb_spec col acc) as [H2|H2].
    + cbn [app]. f_equal. apply IH. lia.
    + apply IH. lia.
Qed.

Lemma take16_length_le : forall l i e, (length (take16 i e l) <= length l)%nat.
Proof.
  induction l as [|c l IH]; intros i e; cbn [take16 length].
  - lia.
  - destruct (i <? e); cbn [length]; [|lia]. specialize (IH (i + len16 c) e). lia.
Qed.

Lemma take16_length_mono : forall l i e1 e2, e1 <= e2 ->
  (length (take16 i e1 l) <= length (take16 i e2 l))%nat.
Proof.
  induction l as [|c l IH]; intros i e1 e2 Hle; cbn [take16 length].
  - lia.
  - destruct (N.ltb_spec i e1) as [H1|H1]; destruct (N.ltb_spec i e2) as [H2|H2];
      cbn [length]; try lia.
    specialize (IH (i + len16 c) e1 e2 Hle). lia.
Qed.

(* ------------------------------------------------------------------------- *)
(* 3. Lines: terminators and content length                                   *)
(* ------------------------------------------------------------------------- *)

Lemma lastc_app_lf : forall b, lastc (b ++ [LF]) = LF.
Proof. intro b. unfold lastc. apply last_last. Qed.

Lemma ends_nl_lf : forall b, ends_nl (b ++ [LF]) = true.
Proof. intro b. unfold ends_nl. rewrite lastc_app_lf. apply N.eqb_refl. Qed.

Lemma content_len16_lf : forall b, content_len16 (b ++ [LF]) = len16s b.
Proof.
  intro b. unfold content_len16, strip_nl. rewrite ends_nl_lf, removelast_last. reflexivity.
Qed.

Lemma last_clean : forall b, clean b -> last b 0 <> LF.
Proof.
  induction b as [|c b IH]; intro Hb.
  - cbn [last]. discriminate.
  - inversion Hb as [|c' b' Hc Hb']; subst c' b'.
    destruct b as [|c2 b]; cbn [last].
    + apply Hc.
    + apply IH. assumption.
Qed.

Lemma ends_nl_clean : forall b, clean b -> ends_nl b = false.
Proof. intros b Hb. unfold ends_nl, lastc. apply N.eqb_neq, last_clean, Hb. Qed.

Lemma content_len16_clean : forall b, clean b -> content_len16 b = len16s b.
Proof.
  intros b Hb. unfold content_len16, strip_nl. rewrite ends_nl_clean by assumption. reflexivity.
Qed.

(* ------------------------------------------------------------------------- *)
(* 4. Offsets on strings                                                      *)
(* ------------------------------------------------------------------------- *)

Lemma offset_0 : forall c s, offset 0 c s = offset_col c 0 s.
Proof. intros c s. destruct s; reflexivity. Qed.

Lemma offset_nil : forall l c, offset l c [] = 0%nat.
Proof. intros l c. destruct l; reflexivity. Qed.

Lemma offset_col_line : forall b acc col r, clean b ->
  (r = [] \/ exists r', r = LF :: r') ->
  offset_col col acc (b ++ r) = length (take16 acc col b).
Proof.
  induction b as [|c b IH]; intros acc col r Hb Hr.
  - cbn [app take16 length]. destruct Hr as [Hr|[r' Hr]]; subst r.
    + reflexivity.
    + cbn [offset_col]. rewrite N.eqb_refl. reflexivity.
  - inversion Hb as [|c' b' Hc Hb']; subst c' b'. destruct Hc as [Hlf _].
    apply N.eqb_neq in Hlf.
    cbn [app offset_col take16]. rewrite Hlf.
    destruct (acc <? col); [|reflexivity].
    cbn [length]. f_equal. apply IH; assumption.
Qed.

Lemma offset_S_line : forall b l col r, clean b ->
  offset (S l) col (b ++ LF :: r) = (length b + 1 + offset l col r)%nat.
Proof.
  induction b as [|c b IH]; intros l col r Hb.
  - cbn [app offset length]. rewrite N.eqb_refl. reflexivity.
  - inversion Hb as [|c' b' Hc Hb']; subst c' b'. destruct Hc as [Hlf _].
    apply N.eqb_neq in Hlf.
    cbn [app offset length]. rewrite Hlf. rewrite IH by assumption. reflexivity.
Qed.

Lemma offset_S_end : forall b l col, clean b -> offset (S l) col b = length b.
Proof.
  induction b as [|c b IH]; intros l col Hb.
  - reflexivity.
  - inversion Hb as [|c' b' Hc Hb']; subst c' b'. destruct Hc as [Hlf _].
    apply N.eqb_neq in Hlf.
    cbn [offset length]. rewrite Hlf. rewrite IH by assumption. reflexivity.
Qed.

(* monotonicity of offsets w.r.t. positions, for any string *)
Lemma offset_col_le_S : forall s c acc l c',
  (offset_col c acc s <= offset (S l) c' s)%nat.
Proof.
  induction s as [|x s IH]; intros c acc l c'.
  - cbn. lia.
  - cbn [offset_col offset]. destruct (x =? LF); [lia|].
    destruct (acc <? c); [|lia].
    specialize (IH c (acc + len16 x) l c'). lia.
Qed.

Lemma offset_mono_line : forall s l1 l2 c1 c2, (l1 < l2)%nat ->
  (offset l1 c1 s <= offset l2 c2 s)%nat.
Proof.
  induction s as [|x s IH]; intros l1 l2 c1 c2 Hlt.
  - rewrite !offset_nil. lia.
  - destruct l2 as [|l2]; [lia|].
    destruct l1 as [|l1].
    + rewrite offset_0. apply offset_col_le_S.
    + cbn [offset]. destruct (x =? LF).
      * specialize (IH l1 l2 c1 c2). lia.
      * specialize (IH (S l1) (S l2) c1 c2). lia.
Qed.

Lemma offset_col_mono : forall s acc c1 c2, c1 <= c2 ->
  (offset_col c1 acc s <= offset_col c2 acc s)%nat.
Proof.
  induction s as [|x s IH]; intros acc c1 c2 Hle; cbn [offset_col].
  - lia.
  - destruct (x =? LF); [lia|].
    destruct (N.ltb_spec acc c1) as [H1|H1]; destruct (N.ltb_spec acc c2) as [H2|H2]; try lia.
    specialize (IH (acc + len16 x) c1 c2 Hle). lia.
Qed.

Lemma offset_mono_col : forall s l c1 c2, c1 <= c2 ->
  (offset l c1 s <= offset l c2 s)%nat.
Proof.
  induction s as [|x s IH]; intros l c1 c2 Hle.
  - rewrite !offset_nil. lia.
  - destruct l as [|l].
    + rewrite !offset_0. apply offset_col_mono. assumption.
    + cbn [offset]. destruct (x =? LF).
      * specialize (IH l c1 c2 Hle). lia.
      * specialize (IH (S l) c1 c2 Hle). lia.
Qed.

Lemma offset_of_mono : forall s p q, pos_leb p q = true ->
  (offset_of s p <= offset_of s q)%nat.
Proof.
  intros s p q H. unfold offset_of, pos_leb in *.
  apply orb_true_iff in H. destruct H as [H|H].
  - apply Nat.ltb_lt in H. apply offset_mono_line. assumption.
  - apply andb_true_iff in H. destruct H as [H1 H2].
    apply Nat.eqb_eq in H1. apply N.leb_le in H2. rewrite H1.
    apply offset_mono_col. assumption.
Qed.
