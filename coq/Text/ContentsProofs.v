(* Text/ContentsProofs.v — proofs about the model of `Contents::change` (C10).
   Main results (pinned in Props/C10.v):
     split_canonical, change_total_spec, change_refines_splice, change_never_crashes,
     history_refines, history_never_crashes. *)
From Coq Require Import List NArith Arith Bool Lia.
Import ListNotations.
From RH Require Import Text.Contents Text.Splice.
Open Scope N_scope.

#[local] Arguments N.add : simpl never.
#[local] Arguments N.sub : simpl never.
#[local] Arguments N.eqb : simpl never.
#[local] Arguments N.ltb : simpl never.
#[local] Arguments N.leb : simpl never.
#[local] Arguments N.min : simpl never.

(* A line buffer is canonical when it is the line split of its own text. *)
Definition canonical (d : list (list char)) : Prop := split_lines (concat d) = d.

(* ------------------------------------------------------------------------- *)
(* 0. Generic list facts                                                      *)
(* ------------------------------------------------------------------------- *)

Lemma firstn_len_eq : forall (A : Type) (X Y s : list A),
  s = X ++ Y -> firstn (length X) s = X.
Proof.
  intros A X Y s Hs. subst s.
  induction X as [|x X IH]; cbn [length firstn app].
  - destruct Y; reflexivity.
  - rewrite IH. reflexivity.
Qed.

Lemma skipn_len_eq : forall (A : Type) (X Y s : list A),
  s = X ++ Y -> skipn (length X) s = Y.
Proof.
  intros A X Y s Hs. subst s.
  induction X as [|x X IH]; cbn [length skipn app].
  - reflexivity.
  - exact IH.
Qed.

(* ------------------------------------------------------------------------- *)
(* 1. Intrinsic description of canonical line buffers                         *)
(* ------------------------------------------------------------------------- *)

Definition okc (c : char) : Prop := c <> LF /\ c <> CR.
Notation clean := (Forall okc).

(* every line is a clean body followed by LF, except possibly the last one, which may
   be a non-empty clean body without terminator *)
Inductive cdoc : list (list char) -> Prop :=
| cd_nil : cdoc []
| cd_last : forall b, clean b -> b <> [] -> cdoc [b]
| cd_cons : forall b d, clean b -> cdoc d -> cdoc ((b ++ [LF]) :: d).

Definition lfline (l : list char) : Prop := exists b, clean b /\ l = b ++ [LF].
Notation lfdoc := (Forall lfline).

Definition ne_list (l : list char) : list (list char) :=
  match l with [] => [] | _ => [l] end.

Lemma split_aux_line : forall b cur r, clean b ->
  split_aux false cur (b ++ LF :: r) = (rev cur ++ b ++ [LF]) :: split_aux false [] r.
Proof.
  induction b as [|c b IH]; intros cur r Hb.
  - cbn [app split_aux]. rewrite N.eqb_refl. cbn [rev]. reflexivity.
  - inversion Hb as [|c' b' Hc Hb']; subst c' b'. destruct Hc as [Hlf Hcr].
    cbn [app split_aux].
    apply N.eqb_neq in Hlf. apply N.eqb_neq in Hcr. rewrite Hlf, Hcr.
    rewrite IH by assumption. cbn [rev]. rewrite <- app_assoc. reflexivity.
Qed.

Lemma split_aux_clean_end : forall b cur, clean b ->
  split_aux false cur b = ne_list (rev cur ++ b).
Proof.
  induction b as [|c b IH]; intros cur Hb.
  - cbn [split_aux]. rewrite app_nil_r.
    destruct cur as [|x cur]; [reflexivity|].
    cbn [rev]. destruct (rev cur); reflexivity.
  - inversion Hb as [|c' b' Hc Hb']; subst c' b'. destruct Hc as [Hlf Hcr].
    cbn [split_aux].
    apply N.eqb_neq in Hlf. apply N.eqb_neq in Hcr. rewrite Hlf, Hcr.
    rewrite IH by assumption. cbn [rev]. rewrite <- app_assoc. reflexivity.
Qed.

Lemma cdoc_canonical : forall d, cdoc d -> canonical d.
Proof.
  unfold canonical, split_lines.
  induction 1 as [|b Hb Hne|b d Hb Hd IH].
  - reflexivity.
  - cbn [concat]. rewrite app_nil_r. rewrite split_aux_clean_end by assumption.
    cbn [rev app]. destruct b; [congruence|reflexivity].
  - cbn [concat]. rewrite <- app_assoc. cbn [app].
    rewrite split_aux_line by assumption. cbn [rev app]. rewrite IH. reflexivity.
Qed.

Lemma split_aux_cdoc : forall s pc cur, clean cur -> cdoc (split_aux pc cur s).
Proof.
  induction s as [|c s IH]; intros pc cur Hcur.
  - cbn [split_aux]. destruct cur as [|x cur]; [constructor|].
    apply cd_last.
    + apply Forall_rev. assumption.
    + cbn [rev]. intro H. apply app_eq_nil in H. destruct H as [_ H]. discriminate H.
  - cbn [split_aux]. destruct (c =? LF) eqn:Elf.
    + destruct pc.
      * apply IH. assumption.
      * cbn [rev]. apply cd_cons; [apply Forall_rev; assumption|]. apply IH. constructor.
    + destruct (c =? CR) eqn:Ecr.
      * cbn [rev]. apply cd_cons; [apply Forall_rev; assumption|]. apply IH. constructor.
      * apply IH. constructor; [|assumption].
        split; apply N.eqb_neq; assumption.
Qed.

Lemma split_cdoc : forall s, cdoc (split_lines s).
Proof. intro s. apply split_aux_cdoc. constructor. Qed.

Theorem split_canonical : forall s, canonical (split_lines s).
Proof. intro s. apply cdoc_canonical, split_cdoc. Qed.

Lemma canonical_cdoc : forall d, canonical d -> cdoc d.
Proof. intros d H. rewrite <- H. apply split_cdoc. Qed.

Lemma cdoc_skipn : forall d, cdoc d -> forall n, cdoc (skipn n d).
Proof.
  induction 1 as [|b Hb Hne|b d Hb Hd IH]; intro n.
  - destruct n; constructor.
  - destruct n as [|n]; cbn [skipn].
    + constructor; assumption.
    + destruct n; constructor.
  - destruct n as [|n]; cbn [skipn].
    + constructor; assumption.
    + apply IH.
Qed.

Lemma cdoc_nonlast : forall d, cdoc d -> forall n l,
  (S n < length d)%nat -> nth_error d n = Some l -> exists b, l = b ++ [LF].
Proof.
  induction 1 as [|b Hb Hne|b d Hb Hd IH]; intros n l Hn Hl.
  - cbn [length] in Hn. lia.
  - cbn [length] in Hn. lia.
  - destruct n as [|n]; cbn [nth_error] in Hl.
    + inversion Hl. eauto.
    + apply (IH n l); [|assumption]. cbn [length] in Hn. lia.
Qed.

(* split of a text that starts with LF-terminated canonical lines *)
Lemma split_lfdoc_app : forall X r, lfdoc X ->
  split_aux false [] (concat X ++ r) = X ++ split_aux false [] r.
Proof.
  induction X as [|x X IH]; intros r HX.
  - reflexivity.
  - inversion HX as [|x' X' Hx HX']; subst x' X'.
    destruct Hx as [b [Hb Hx]]. subst x.
    cbn [concat]. rewrite <- !app_assoc. cbn [app].
    rewrite split_aux_line by assumption. cbn [rev app].
    rewrite IH by assumption. reflexivity.
Qed.

(* a text ending in LF can be split independently of what follows *)
Lemma split_aux_lf_app : forall M B,
  (forall cur, split_aux false cur (M ++ [LF] ++ B)
               = split_aux false cur (M ++ [LF]) ++ split_aux false [] B)
  /\ split_aux true [] (M ++ [LF] ++ B)
     = split_aux true [] (M ++ [LF]) ++ split_aux false [] B.
Proof.
  induction M as [|c M IH]; intro B.
  - split; [intro cur|]; cbn [app split_aux]; rewrite N.eqb_refl; reflexivity.
  - destruct (IH B) as [IHf IHt].
    split; [intro cur|]; cbn [app split_aux] in *.
    + destruct (c =? LF).
      * rewrite IHf. reflexivity.
      * destruct (c =? CR).
        -- rewrite IHt. reflexivity.
        -- apply IHf.
    + destruct (c =? LF).
      * apply IHf.
      * destruct (c =? CR).
        -- rewrite IHt. reflexivity.
        -- apply IHf.
Qed.

Lemma split_lines_lf_app : forall M B,
  split_lines ((M ++ [LF]) ++ B) = split_lines (M ++ [LF]) ++ split_lines B.
Proof.
  intros M B. unfold split_lines. rewrite <- app_assoc.
  apply (proj1 (split_aux_lf_app M B)).
Qed.

(* ------------------------------------------------------------------------- *)
(* 2. take16 / drop16                                                         *)
(* ------------------------------------------------------------------------- *)

Lemma len16_pos : forall c, 1 <= len16 c.
Proof. intro c. unfold len16. destruct (c <? 65536); lia. Qed.

Lemma drop16_all : forall l i e, e <= i -> drop16 i e l = l.
Proof.
  induction l as [|c l IH]; intros i e Hle; cbn [drop16].
  - reflexivity.
  - destruct (N.leb_spec e i) as [_|Hlt]; [|lia].
    rewrite IH; [reflexivity|]. pose proof (len16_pos c). lia.
Qed.

Lemma take16_none : forall l i e, e <= i -> take16 i e l = [].
Proof.
  intros l i e Hle. destruct l as [|c l]; cbn [take16]; [reflexivity|].
  destruct (N.ltb_spec i e) as [Hlt|_]; [lia|reflexivity].
Qed.

Lemma take_drop16 : forall l i e, take16 i e l ++ drop16 i e l = l.
Proof.
  induction l as [|c l IH]; intros i e; cbn [take16 drop16].
  - reflexivity.
  - destruct (N.ltb_spec i e) as [Hlt|Hge]; destruct (N.leb_spec e i) as [Hle|Hgt]; try lia.
    + cbn [app]. rewrite IH. reflexivity.
    + cbn [app]. rewrite drop16_all; [reflexivity|]. pose proof (len16_pos c). lia.
Qed.

Lemma take16_min : forall b acc col,
  take16 acc (N.min col (acc + len16s b)) b = take16 acc col b.
Proof.
  induction b as [|c b IH]; intros acc col; cbn [take16 len16s].
  - reflexivity.
  - pose proof (len16_pos c) as Hc.
    destruct (N.ltb_spec acc (N.min col (acc + (len16 c + len16s b)))) as [H1|H1];
      destruct (N.ltb_spec acc col) as [H2|H2]; try lia.
    + f_equal. rewrite <- (IH (acc + len16 c) col). f_equal. lia.
    + reflexivity.
Qed.

Lemma take16_all : forall b acc col, acc + len16s b <= col -> take16 acc col b = b.
Proof.
  induction b as [|c b IH]; intros acc col Hle; cbn [take16 len16s] in *.
  - reflexivity.
  - pose proof (len16_pos c) as Hc.
    destruct (N.ltb_spec acc col) as [H2|H2]; [|lia].
    f_equal. apply IH. lia.
Qed.

Lemma take16_app_le : forall b x acc col, col <= acc + len16s b ->
  take16 acc col (b ++ x) = take16 acc col b.
Proof.
  induction b as [|c b IH]; intros x acc col Hle; cbn [take16 len16s app] in *.
  - apply take16_none. lia.
  - destruct (N.ltb_spec acc col) as [H2|H2]; [|reflexivity].
    f_equal. apply IH. lia.
Qed.

Lemma drop16_app_le : forall b x acc col, col <= acc + len16s b ->
  drop16 acc col (b ++ x) = drop16 acc col b ++ x.
Proof.
  induction b as [|c b IH]; intros x acc col Hle; cbn [drop16 len16s app] in *.
  - apply drop16_all. lia.
  - destruct (N.leb_spec col acc) as [H2|H2].
    + cbn [app]. f_equal. apply IH. lia.
    + apply IH. lia.
Qed.

Lemma take16_length_le : forall l i e, (length (take16 i e l) <= length l)%nat.
Proof.
  induction l as [|c l IH]; intros i e; cbn [take16 length].
  - lia.
  - destruct (i <? e); cbn [length]; [|lia]. specialize (IH (i + len16 c) e). lia.
Qed.

Lemma take16_length_mono : forall l i e1 e2, e1 <= e2 ->
  (length (take16 i e1 l) <= length (take16 i e2 l))%nat.
Proof.
  induction l as [|c l IH]; intros i e1 e2 Hle; cbn [take16 length].
  - lia.
  - destruct (N.ltb_spec i e1) as [H1|H1]; destruct (N.ltb_spec i e2) as [H2|H2];
      cbn [length]; try lia.
    specialize (IH (i + len16 c) e1 e2 Hle). lia.
Qed.

(* ------------------------------------------------------------------------- *)
(* 3. Lines: terminators and content length                                   *)
(* ------------------------------------------------------------------------- *)

Lemma lastc_app_lf : forall b, lastc (b ++ [LF]) = LF.
Proof. intro b. unfold lastc. apply last_last. Qed.

Lemma ends_nl_lf : forall b, ends_nl (b ++ [LF]) = true.
Proof. intro b. unfold ends_nl. rewrite lastc_app_lf. apply N.eqb_refl. Qed.

Lemma content_len16_lf : forall b, content_len16 (b ++ [LF]) = len16s b.
Proof.
  intro b. unfold content_len16, strip_nl. rewrite ends_nl_lf, removelast_last. reflexivity.
Qed.

Lemma last_clean : forall b, clean b -> last b 0 <> LF.
Proof.
  induction b as [|c b IH]; intro Hb.
  - cbn [last]. discriminate.
  - inversion Hb as [|c' b' Hc Hb']; subst c' b'.
    destruct b as [|c2 b]; cbn [last].
    + apply Hc.
    + apply IH. assumption.
Qed.

Lemma ends_nl_clean : forall b, clean b -> ends_nl b = false.
Proof. intros b Hb. unfold ends_nl, lastc. apply N.eqb_neq, last_clean, Hb. Qed.

Lemma content_len16_clean : forall b, clean b -> content_len16 b = len16s b.
Proof.
  intros b Hb. unfold content_len16, strip_nl. rewrite ends_nl_clean by assumption. reflexivity.
Qed.

(* ------------------------------------------------------------------------- *)
(* 4. Offsets on strings                                                      *)
(* ------------------------------------------------------------------------- *)

Lemma offset_0 : forall c s, offset 0 c s = offset_col c 0 s.
Proof. intros c s. destruct s; reflexivity. Qed.

Lemma offset_nil : forall l c, offset l c [] = 0%nat.
Proof. intros l c. destruct l; reflexivity. Qed.

Lemma offset_col_line : forall b acc col r, clean b ->
  (r = [] \/ exists r', r = LF :: r') ->
  offset_col col acc (b ++ r) = length (take16 acc col b).
Proof.
  induction b as [|c b IH]; intros acc col r Hb Hr.
  - cbn [app take16 length]. destruct Hr as [Hr|[r' Hr]]; subst r.
    + reflexivity.
    + cbn [offset_col]. rewrite N.eqb_refl. reflexivity.
  - inversion Hb as [|c' b' Hc Hb']; subst c' b'. destruct Hc as [Hlf _].
    apply N.eqb_neq in Hlf.
    cbn [app offset_col take16]. rewrite Hlf.
    destruct (acc <? col); [|reflexivity].
    cbn [length]. f_equal. apply IH; assumption.
Qed.

Lemma offset_S_line : forall b l col r, clean b ->
  offset (S l) col (b ++ LF :: r) = (length b + 1 + offset l col r)%nat.
Proof.
  induction b as [|c b IH]; intros l col r Hb.
  - cbn [app offset length]. rewrite N.eqb_refl. reflexivity.
  - inversion Hb as [|c' b' Hc Hb']; subst c' b'. destruct Hc as [Hlf _].
    apply N.eqb_neq in Hlf.
    cbn [app offset length]. rewrite Hlf. rewrite IH by assumption. reflexivity.
Qed.

Lemma offset_S_end : forall b l col, clean b -> offset (S l) col b = length b.
Proof.
  induction b as [|c b IH]; intros l col Hb.
  - reflexivity.
  - inversion Hb as [|c' b' Hc Hb']; subst c' b'. destruct Hc as [Hlf _].
    apply N.eqb_neq in Hlf.
    cbn [offset length]. rewrite Hlf. rewrite IH by assumption. reflexivity.
Qed.

(* monotonicity of offsets w.r.t. positions, for any string *)
Lemma offset_col_le_S : forall s c acc l c',
  (offset_col c acc s <= offset (S l) c' s)%nat.
Proof.
  induction s as [|x s IH]; intros c acc l c'.
  - cbn. lia.
  - cbn [offset_col offset]. destruct (x =? LF); [lia|].
    destruct (acc <? c); [|lia].
    specialize (IH c (acc + len16 x) l c'). lia.
Qed.

Lemma offset_mono_line : forall s l1 l2 c1 c2, (l1 < l2)%nat ->
  (offset l1 c1 s <= offset l2 c2 s)%nat.
Proof.
  induction s as [|x s IH]; intros l1 l2 c1 c2 Hlt.
  - rewrite !offset_nil. lia.
  - destruct l2 as [|l2]; [lia|].
    destruct l1 as [|l1].
    + rewrite offset_0. apply offset_col_le_S.
    + cbn [offset]. destruct (x =? LF).
      * specialize (IH l1 l2 c1 c2). lia.
      * specialize (IH (S l1) (S l2) c1 c2). lia.
Qed.

Lemma offset_col_mono : forall s acc c1 c2, c1 <= c2 ->
  (offset_col c1 acc s <= offset_col c2 acc s)%nat.
Proof.
  induction s as [|x s IH]; intros acc c1 c2 Hle; cbn [offset_col].
  - lia.
  - destruct (x =? LF); [lia|].
    destruct (N.ltb_spec acc c1) as [H1|H1]; destruct (N.ltb_spec acc c2) as [H2|H2]; try lia.
    specialize (IH (acc + len16 x) c1 c2 Hle). lia.
Qed.

Lemma offset_mono_col : forall s l c1 c2, c1 <= c2 ->
  (offset l c1 s <= offset l c2 s)%nat.
Proof.
  induction s as [|x s IH]; intros l c1 c2 Hle.
  - rewrite !offset_nil. lia.
  - destruct l as [|l].
    + rewrite !offset_0. apply offset_col_mono. assumption.
    + cbn [offset]. destruct (x =? LF).
      * specialize (IH l c1 c2 Hle). lia.
      * specialize (IH (S l) c1 c2 Hle). lia.
Qed.

Lemma offset_of_mono : forall s p q, pos_leb p q = true ->
  (offset_of s p <= offset_of s q)%nat.
Proof.
  intros s p q H. unfold offset_of, pos_leb in *.
  apply orb_true_iff in H. destruct H as [H|H].
  - apply Nat.ltb_lt in H. apply offset_mono_line. assumption.
  - apply andb_true_iff in H. destruct H as [H1 H2].
    apply Nat.eqb_eq in H1. apply N.leb_le in H2. rewrite H1.
    apply offset_mono_col. assumption.
Qed.

(* ------------------------------------------------------------------------- *)
(* 5. Positions on the line buffer                                            *)
(* ------------------------------------------------------------------------- *)

Definition pre_at (d : list (list char)) (n : nat) (c : N) : list char :=
  match nth_error d n with Some l => take16 0 c l | None => [] end.
Definition suf_at (d : list (list char)) (n : nat) (c : N) : list char :=
  match nth_error d n with Some l => drop16 0 c l | None => [] end.

(* character offset denoted by a (line, column) position of the line buffer *)
Definition loff (d : list (list char)) (p : pos) : nat :=
  length (concat (firstn (line p) d) ++ pre_at d (line p) (chr p)).

Lemma concat_decomp : forall d n c,
  concat d = (concat (firstn n d) ++ pre_at d n c)
             ++ suf_at d n c ++ concat (skipn (S n) d).
Proof.
  induction d as [|x d IH]; intros n c.
  - destruct n; reflexivity.
  - destruct n as [|n]; unfold pre_at, suf_at in *; cbn [nth_error firstn skipn concat app].
    + rewrite app_assoc, take_drop16. reflexivity.
    + rewrite (IH n c) at 1. rewrite <- !app_assoc. reflexivity.
Qed.

Lemma firstn_loff : forall d p,
  firstn (loff d p) (concat d) = concat (firstn (line p) d) ++ pre_at d (line p) (chr p).
Proof.
  intros d p. unfold loff. eapply firstn_len_eq. apply concat_decomp.
Qed.

Lemma skipn_loff : forall d p,
  skipn (loff d p) (concat d) = suf_at d (line p) (chr p) ++ concat (skipn (S (line p)) d).
Proof.
  intros d p. unfold loff. eapply skipn_len_eq. apply concat_decomp.
Qed.

Lemma loff_cons : forall x d n c,
  loff (x :: d) (P (S n) c) = (length x + loff d (P n c))%nat.
Proof.
  intros x d n c. unfold loff, pre_at. cbn [line chr P nth_error firstn concat].
  rewrite <- app_assoc, app_length. reflexivity.
Qed.

Lemma loff_mono_line : forall d l1 l2 c1 c2, (l1 < l2)%nat ->
  (loff d (P l1 c1) <= loff d (P l2 c2))%nat.
Proof.
  induction d as [|x d IH]; intros l1 l2 c1 c2 Hlt.
  - unfold loff, pre_at. cbn [line chr P]. destruct l1; destruct l2; cbn; lia.
  - destruct l2 as [|l2]; [lia|]. destruct l1 as [|l1].
    + rewrite loff_cons. unfold loff at 1, pre_at. cbn [line chr P nth_error firstn concat app].
      pose proof (take16_length_le x 0 c1). lia.
    + rewrite !loff_cons. specialize (IH l1 l2 c1 c2). lia.
Qed.

Lemma loff_mono_col : forall d l c1 c2, c1 <= c2 ->
  (loff d (P l c1) <= loff d (P l c2))%nat.
Proof.
  intros d l c1 c2 Hle. unfold loff, pre_at. cbn [line chr P].
  rewrite !app_length. destruct (nth_error d l) as [x|]; [|lia].
  pose proof (take16_length_mono x 0 c1 c2 Hle). lia.
Qed.

Lemma loff_mono : forall d p q, pos_leb p q = true -> (loff d p <= loff d q)%nat.
Proof.
  intros d [l1 c1] [l2 c2] H. unfold pos_leb in H. cbn [line chr] in H.
  apply orb_true_iff in H. destruct H as [H|H].
  - apply Nat.ltb_lt in H. apply (loff_mono_line d l1 l2 c1 c2). assumption.
  - apply andb_true_iff in H. destruct H as [H1 H2].
    apply Nat.eqb_eq in H1. apply N.leb_le in H2. subst l2.
    apply (loff_mono_col d l1 c1 c2). assumption.
Qed.

Lemma pos_leb_total : forall p q, pos_leb q p = false -> pos_leb p q = true.
Proof.
  intros p q H. unfold pos_leb in *.
  destruct (Nat.ltb_spec (line q) (line p)) as [H1|H1]; [discriminate H|].
  destruct (Nat.ltb_spec (line p) (line q)) as [H2|H2]; [reflexivity|].
  cbn [orb] in *.
  destruct (Nat.eqb_spec (line q) (line p)) as [H3|H3]; [|lia].
  destruct (Nat.eqb_spec (line p) (line q)) as [H4|H4]; [|lia].
  cbn [andb] in *.
  destruct (N.leb_spec (chr q) (chr p)) as [H5|H5]; [discriminate H|].
  apply N.leb_le. lia.
Qed.

Lemma pos_leb_line : forall p q, pos_leb p q = true -> (line p <= line q)%nat.
Proof.
  intros p q H. unfold pos_leb in H. apply orb_true_iff in H. destruct H as [H|H].
  - apply Nat.ltb_lt in H. lia.
  - apply andb_true_iff in H. destruct H as [H _]. apply Nat.eqb_eq in H. lia.
Qed.

(* clamp on a longer document *)
Lemma clamp_cons : forall x d l c, ends_nl x = true ->
  clamp (x :: d) (P (S l) c) = P (S (line (clamp d (P l c)))) (chr (clamp d (P l c))).
Proof.
  intros x d l c Hx. unfold clamp. cbn [line chr P nth_error].
  destruct (nth_error d l) as [y|].
  - reflexivity.
  - destruct d as [|y d].
    + cbn [length Nat.sub nth]. rewrite Hx. reflexivity.
    + cbn [length].
      replace (S (S (length d)) - 1)%nat with (S (length d)) by lia.
      replace (S (length d) - 1)%nat with (length d) by lia.
      change (nth (S (length d)) (x :: y :: d) []) with (nth (length d) (y :: d) []).
      destruct (ends_nl (nth (length d) (y :: d) [])); reflexivity.
Qed.

(* positions produced by clamp *)
Definition valid (d : list (list char)) (p : pos) : Prop :=
  (line p <= length d)%nat /\ lfdoc (firstn (line p) d) /\
  (forall l, nth_error d (line p) = Some l -> chr p <= content_len16 l).

Lemma valid_cons : forall b d q, clean b -> valid d q ->
  valid ((b ++ [LF]) :: d) (P (S (line q)) (chr q)).
Proof.
  intros b d q Hb [H1 [H2 H3]]. unfold valid. cbn [line chr P length firstn nth_error].
  split; [lia|]. split.
  - constructor; [|assumption]. exists b. split; [assumption|reflexivity].
  - assumption.
Qed.

Lemma clamp_valid : forall d, cdoc d -> forall l c, valid d (clamp d (P l c)).
Proof.
  induction 1 as [|b Hb Hne|b d Hb Hd IH]; intros l c.
  - replace (clamp [] (P l c)) with (P 0 0) by (destruct l; reflexivity).
    unfold valid. cbn [line chr P length firstn nth_error].
    split; [lia|]. split; [constructor|]. intros l0 H0. discriminate H0.
  - destruct l as [|l].
    + change (clamp [b] (P 0 c)) with (P 0 (N.min c (content_len16 b))).
      unfold valid. cbn [line chr P length firstn nth_error].
      split; [lia|]. split; [constructor|].
      intros l0 H0. inversion H0. subst l0. apply N.le_min_r.
    + replace (clamp [b] (P (S l) c)) with (P 0 (content_len16 b)).
      * unfold valid. cbn [line chr P length firstn nth_error].
        split; [lia|]. split; [constructor|].
        intros l0 H0. inversion H0. subst l0. apply N.le_refl.
      * unfold clamp. cbn [line chr P nth_error].
        replace (nth_error (@nil (list char)) l) with (@None (list char)) by (destruct l; reflexivity).
        cbn [length Nat.sub nth]. rewrite ends_nl_clean by assumption. reflexivity.
  - destruct l as [|l].
    + change (clamp ((b ++ [LF]) :: d) (P 0 c))
        with (P 0 (N.min c (content_len16 (b ++ [LF])))).
      unfold valid. cbn [line chr P length firstn nth_error].
      split; [lia|]. split; [constructor|].
      intros l0 H0. inversion H0. subst l0. apply N.le_min_r.
    + rewrite clamp_cons by apply ends_nl_lf.
      apply valid_cons; [assumption|apply IH].
Qed.

(* the offset computed on the text is the offset of the clamped position *)
Lemma offset_loff : forall d, cdoc d -> forall l c,
  offset l c (concat d) = loff d (clamp d (P l c)).
Proof.
  induction 1 as [|b Hb Hne|b d Hb Hd IH]; intros l c.
  - replace (clamp [] (P l c)) with (P 0 0) by (destruct l; reflexivity).
    cbn [concat]. rewrite offset_nil. reflexivity.
  - cbn [concat]. destruct l as [|l].
    + change (clamp [b] (P 0 c)) with (P 0 (N.min c (content_len16 b))).
      rewrite offset_0, offset_col_line by (auto).
      unfold loff, pre_at. cbn [line chr P nth_error firstn concat app].
      rewrite content_len16_clean by assumption.
      rewrite <- (take16_min b 0 c). rewrite N.add_0_l. reflexivity.
    + replace (clamp [b] (P (S l) c)) with (P 0 (content_len16 b)).
      * rewrite app_nil_r, offset_S_end by assumption.
        unfold loff, pre_at. cbn [line chr P nth_error firstn concat app].
        rewrite content_len16_clean by assumption.
        rewrite take16_all; [reflexivity|]. lia.
      * unfold clamp. cbn [line chr P nth_error].
        replace (nth_error (@nil (list char)) l) with (@None (list char)) by (destruct l; reflexivity).
        cbn [length Nat.sub nth]. rewrite ends_nl_clean by assumption. reflexivity.
  - cbn [concat]. rewrite <- app_assoc. cbn [app]. destruct l as [|l].
    + change (clamp ((b ++ [LF]) :: d) (P 0 c))
        with (P 0 (N.min c (content_len16 (b ++ [LF])))).
      rewrite offset_0, offset_col_line by (eauto).
      unfold loff, pre_at. cbn [line chr P nth_error firstn concat app].
      rewrite content_len16_lf.
      rewrite take16_app_le by (rewrite N.add_0_l; apply N.le_min_r).
      rewrite <- (take16_min b 0 c). rewrite N.add_0_l. reflexivity.
    + rewrite offset_S_line by assumption. rewrite IH.
      rewrite clamp_cons by apply ends_nl_lf.
      rewrite loff_cons. rewrite app_length. cbn [length].
      destruct (clamp d (P l c)) as [l' c']. cbn [line chr]. unfold P. lia.
Qed.

Lemma offset_of_loff : forall d p, cdoc d -> offset_of (concat d) p = loff d (clamp d p).
Proof.
  intros d [l c] Hd. unfold offset_of. cbn [line chr]. apply (offset_loff d Hd l c).
Qed.

(* ------------------------------------------------------------------------- *)
(* 6. `change` on canonical buffers                                           *)
(* ------------------------------------------------------------------------- *)

Definition fixup (d : list (list char)) (q : pos) (merged : list char) : list char :=
  if (Nat.ltb (line q) (length d - 1)) && negb (lastc merged =? LF)
  then merged ++ [LF] else merged.

Definition change_ne (d : list (list char)) (st0 en0 : pos) (t : list char)
  : option (list (list char)) :=
  let st := clamp d st0 in
  let en := pos_max st (clamp d en0) in
  splice_lines d (line st) (Nat.min (length d - 1) (line en))
    (split_lines (fixup d en (pre_at d (line st) (chr st) ++ t ++ suf_at d (line en) (chr en)))).

Lemma change_ne_eq : forall d st en t, d <> [] -> change d st en t = change_ne d st en t.
Proof. intros d st en t Hd. destruct d; [congruence|reflexivity]. Qed.

Lemma skipn_nil_ge : forall (A : Type) (l : list A) n, (length l <= n)%nat -> skipn n l = [].
Proof.
  intros A l. induction l as [|x l IH]; intros n Hn.
  - destruct n; reflexivity.
  - destruct n as [|n]; cbn [length] in Hn; [lia|]. cbn [skipn]. apply IH. lia.
Qed.

Lemma change_core : forall d p q t, cdoc d -> d <> [] -> valid d p -> valid d q ->
  (line p <= line q)%nat ->
  splice_lines d (line p) (Nat.min (length d - 1) (line q))
    (split_lines (fixup d q (pre_at d (line p) (chr p) ++ t ++ suf_at d (line q) (chr q))))
  = Some (split_lines ((concat (firstn (line p) d) ++ pre_at d (line p) (chr p))
                       ++ t ++ suf_at d (line q) (chr q) ++ concat (skipn (S (line q)) d))).
Proof.
  intros d p q t Hd Hne [Hp1 [Hp2 Hp3]] [Hq1 [Hq2 Hq3]] Hpq.
  assert (Hlen : (0 < length d)%nat) by (destruct d; [congruence|cbn [length]; lia]).
  unfold splice_lines.
  destruct (Nat.ltb_spec (S (Nat.min (length d - 1) (line q))) (line p)) as [H1|H1]; [lia|].
  destruct (Nat.ltb_spec (length d) (S (Nat.min (length d - 1) (line q)))) as [H2|H2]; [lia|].
  cbn [orb]. f_equal.
  unfold split_lines at 2. rewrite <- app_assoc.
  rewrite split_lfdoc_app by assumption. f_equal.
  fold (split_lines (pre_at d (line p) (chr p) ++ t ++ suf_at d (line q) (chr q)
                     ++ concat (skipn (S (line q)) d))).
  unfold fixup.
  destruct (Nat.ltb_spec (line q) (length d - 1)) as [Hlt|Hge].
  - (* the end position is on a non-last line: its suffix keeps the LF *)
    rewrite Nat.min_r by lia.
    assert (Hnth : exists l, nth_error d (line q) = Some l).
    { destruct (nth_error d (line q)) as [l|] eqn:E; [eauto|].
      apply nth_error_None in E. lia. }
    destruct Hnth as [l Hl].
    destruct (cdoc_nonlast d Hd (line q) l) as [b Hb]; [lia|assumption|]. subst l.
    specialize (Hq3 _ Hl). rewrite content_len16_lf in Hq3.
    unfold suf_at. rewrite Hl.
    rewrite drop16_app_le by (rewrite N.add_0_l; assumption).
    replace (pre_at d (line p) (chr p) ++ t ++ drop16 0 (chr q) b ++ [LF])
      with ((pre_at d (line p) (chr p) ++ t ++ drop16 0 (chr q) b) ++ [LF])
      by (rewrite <- !app_assoc; reflexivity).
    rewrite lastc_app_lf, N.eqb_refl. cbn [negb andb].
    replace (pre_at d (line p) (chr p) ++ t ++ (drop16 0 (chr q) b ++ [LF])
             ++ concat (skipn (S (line q)) d))
      with (((pre_at d (line p) (chr p) ++ t ++ drop16 0 (chr q) b) ++ [LF])
            ++ concat (skipn (S (line q)) d))
      by (rewrite <- !app_assoc; reflexivity).
    rewrite split_lines_lf_app. f_equal.
    symmetry. apply cdoc_canonical, cdoc_skipn, Hd.
  - (* the end position is on the last line or past the end *)
    cbn [andb]. rewrite Nat.min_l by lia.
    rewrite (skipn_nil_ge _ d (S (length d - 1))) by lia.
    rewrite (skipn_nil_ge _ d (S (line q))) by lia.
    cbn [concat]. rewrite !app_nil_r. reflexivity.
Qed.

Lemma pos_max_cases : forall d p r,
  let q := pos_max p r in
  (q = p \/ q = r) /\ (line p <= line q)%nat /\ loff d q = Nat.max (loff d p) (loff d r).
Proof.
  intros d p r. unfold pos_max. cbn zeta.
  destruct (pos_leb r p) eqn:E.
  - split; [left; reflexivity|]. split; [lia|].
    pose proof (loff_mono d r p E). lia.
  - apply pos_leb_total in E.
    split; [right; reflexivity|]. split; [apply pos_leb_line; assumption|].
    pose proof (loff_mono d p r E). lia.
Qed.

Theorem change_total_spec :
  forall d st en t, canonical d ->
    let s := concat d in
    let a := offset_of s st in
    let b := offset_of s en in
    change d st en t = Some (split_lines (splice s a (Nat.max a b) t)).
Proof.
  intros d st en t Hc. cbn zeta. apply canonical_cdoc in Hc.
  assert (Hcase : d = [] \/ d <> []) by (destruct d; [left; reflexivity|right; discriminate]).
  destruct Hcase as [Hnil|Hne].
  - subst d. cbn [change concat]. unfold offset_of. rewrite !offset_nil.
    unfold splice. cbn [Nat.max firstn skipn app]. rewrite app_nil_r. reflexivity.
  - rewrite change_ne_eq by assumption. unfold change_ne. cbn zeta.
    rewrite !offset_of_loff by assumption.
    set (p := clamp d st). set (r := clamp d en).
    destruct (pos_max_cases d p r) as [Hq [Hline Hoff]].
    set (q := pos_max p r) in *.
    assert (Hvp : valid d p) by (destruct st as [l c]; apply clamp_valid; assumption).
    assert (Hvr : valid d r) by (destruct en as [l c]; apply clamp_valid; assumption).
    assert (Hvq : valid d q) by (destruct Hq as [Hq|Hq]; rewrite Hq; assumption).
    rewrite change_core by assumption.
    rewrite <- Hoff. unfold splice. rewrite firstn_loff, skipn_loff. reflexivity.
Qed.

Theorem change_refines_splice :
  forall d st en t, canonical d -> pos_leb st en = true ->
    let s := concat d in
    change d st en t = Some (split_lines (splice s (offset_of s st) (offset_of s en) t)).
Proof.
  intros d st en t Hc Hle s.
  pose proof (change_total_spec d st en t Hc) as H. cbn zeta in H. fold s in H.
  rewrite H. rewrite Nat.max_r by (apply offset_of_mono; assumption). reflexivity.
Qed.

Theorem change_never_crashes :
  forall d st en t, canonical d -> exists d', change d st en t = Some d' /\ canonical d'.
Proof.
  intros d st en t Hc.
  pose proof (change_total_spec d st en t Hc) as H. cbn zeta in H.
  eexists. split; [exact H|apply split_canonical].
Qed.

(* ------------------------------------------------------------------------- *)
(* 7. Histories                                                               *)
(* ------------------------------------------------------------------------- *)

Lemma history_refines_gen : forall es d0, canonical d0 -> forallb wf_edit es = true ->
  exists d, apply_edits d0 es = Some d
            /\ concat d = spec_edits (concat d0) es
            /\ canonical d.
Proof.
  induction es as [|e es IH]; intros d0 Hc Hwf.
  - exists d0. split; [reflexivity|]. split; [reflexivity|assumption].
  - cbn [forallb] in Hwf. apply andb_true_iff in Hwf. destruct Hwf as [He Hes].
    unfold spec_edits. cbn [apply_edits fold_left].
    destruct e as [t|st en t].
    + cbn [apply_edit spec_edit].
      destruct (IH (split_lines t) (split_canonical t) Hes) as [d [H1 [H2 H3]]].
      exists d. split; [assumption|]. split; [|assumption].
      rewrite H2. reflexivity.
    + cbn [apply_edit spec_edit wf_edit] in *.
      pose proof (change_refines_splice d0 st en t Hc He) as Hch. cbn zeta in Hch.
      rewrite Hch.
      match type of Hch with _ = Some ?d1 =>
        destruct (IH d1 (split_canonical _) Hes) as [d [H1 [H2 H3]]] end.
      exists d. split; [assumption|]. split; [|assumption].
      rewrite H2. reflexivity.
Qed.

Theorem history_refines :
  forall es s0, forallb wf_edit es = true ->
    exists d, apply_edits (split_lines s0) es = Some d
              /\ concat d = spec_edits (normalize s0) es
              /\ canonical d.
Proof.
  intros es s0 Hwf.
  apply (history_refines_gen es (split_lines s0) (split_canonical s0) Hwf).
Qed.

Lemma history_never_crashes_gen : forall es d0, canonical d0 ->
  exists d, apply_edits d0 es = Some d /\ canonical d.
Proof.
  induction es as [|e es IH]; intros d0 Hc.
  - exists d0. split; [reflexivity|assumption].
  - cbn [apply_edits]. destruct e as [t|st en t]; cbn [apply_edit].
    + apply IH. apply split_canonical.
    + destruct (change_never_crashes d0 st en t Hc) as [d1 [H1 H2]].
      rewrite H1. apply IH. assumption.
Qed.

Theorem history_never_crashes :
  forall es s0, exists d, apply_edits (split_lines s0) es = Some d /\ canonical d.
Proof.
  intros es s0. apply history_never_crashes_gen. apply split_canonical.
Qed.

(* ------------------------------------------------------------------------- *)
(* 8. The pre-fix code, and non-vacuity                                       *)
(* ------------------------------------------------------------------------- *)

Theorem change_old_refuted :
  exists d st en t, canonical d /\ pos_leb st en = true /\
    change_old d st en t <>
      Some (split_lines (splice (concat d) (offset_of (concat d) st) (offset_of (concat d) en) t)).
Proof.
  exists (split_lines [97; 98; LF; 99; 100; LF]), (P 0 1), (P 0 99), [88; LF].
  split; [apply split_canonical|]. split; [reflexivity|].
  vm_compute. intro H. discriminate H.
Qed.

Theorem change_old_crashes :
  exists d st en t, canonical d /\ pos_leb st en = true /\ change_old d st en t = None.
Proof.
  exists (split_lines [97; 98]), (P 5 0), (P 5 0), [88].
  split; [apply split_canonical|]. split; reflexivity.
Qed.

Example hyps_satisfiable :
  let d := split_lines [97; 128512; CR; LF; 98; CR; LF; 99] in
  canonical d /\ length d = 3%nat /\ pos_leb (P 0 1) (P 2 7) = true /\
  change d (P 0 1) (P 2 7) [120; CR; LF; 121] = Some [[97; 120; LF]; [121]].
Proof.
  cbn zeta. split; [apply split_canonical|].
  split; [reflexivity|]. split; [reflexivity|]. vm_compute. reflexivity.
Qed.
