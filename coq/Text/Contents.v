(* Text/Contents.v — executable model of vhdl_lang/src/data/contents.rs:
   `split_lines`, `Contents::change` (as repaired by the `fix:` commit that clamps
   positions) and, for the refutation of the pre-fix behaviour, `change_old`.

   A character is a Unicode scalar value (N); a document is `list (list char)`:
   each line keeps its normalised LF, exactly like `Contents.lines`.
   No proofs in this file. *)
From Coq Require Import List NArith Arith Bool.
Import ListNotations.
Open Scope N_scope.

Definition char := N.
Definition LF : char := 10.
Definition CR : char := 13.
Definition len16 (c : char) : N := if c <? 65536 then 1 else 2.

(* fn split_lines: `cur` is the current line reversed; `prevcr`: the previous
   character was a CR (whose line has already been emitted). *)
Fixpoint split_aux (prevcr : bool) (cur : list char) (s : list char) : list (list char) :=
  match s with
  | [] => match cur with [] => [] | _ => [rev cur] end
  | c :: r =>
      if c =? LF then
        if prevcr then split_aux false cur r
        else rev (LF :: cur) :: split_aux false [] r
      else if c =? CR then rev (LF :: cur) :: split_aux true [] r
      else split_aux false (c :: cur) r
  end.
Definition split_lines (s : list char) : list (list char) := split_aux false [] s.

(* prefix loop of `change`: characters while the accumulated UTF-16 length i < start *)
Fixpoint take16 (i start : N) (l : list char) : list char :=
  match l with
  | [] => []
  | c :: r => if i <? start then c :: take16 (i + len16 c) start r else []
  end.
(* suffix loop of `change`: characters whose accumulated UTF-16 length i >= e *)
Fixpoint drop16 (i e : N) (l : list char) : list char :=
  match l with
  | [] => []
  | c :: r => if e <=? i then c :: drop16 (i + len16 c) e r else drop16 (i + len16 c) e r
  end.

Definition lastc (l : list char) : char := last l 0.

Record pos := { line : nat; chr : N }.
Definition P (l : nat) (c : N) : pos := {| line := l; chr := c |}.

(* Vec::splice(a..=b, repl); None = the panic of an out-of-range slice *)
Definition splice_lines (ls : list (list char)) (a b : nat) (repl : list (list char))
  : option (list (list char)) :=
  if (Nat.ltb (S b) a) || (Nat.ltb (length ls) (S b)) then None
  else Some (firstn a ls ++ repl ++ skipn (S b) ls).

(* ---- pre-fix `Contents::change` (commit e84c598), kept for the refutation ---- *)
Definition change_old (ls : list (list char)) (st en : pos) (content : list char)
  : option (list (list char)) :=
  match ls with
  | [] => Some (split_lines content)
  | _ =>
    let pre := match nth_error ls (line st) with Some l => take16 0 (chr st) l | None => [] end in
    let suf := match nth_error ls (line en) with Some l => drop16 0 (chr en) l | None => [] end in
    let merged := pre ++ content ++ suf in
    let last_idx := (length ls - 1)%nat in
    let merged := if (Nat.ltb (line en) last_idx) && negb (lastc merged =? LF)
                  then merged ++ [LF] else merged in
    splice_lines ls (line st) (Nat.min last_idx (line en)) (split_lines merged)
  end.

(* ---- current `Contents::change` ---- *)
(* content_len_utf16: UTF-16 length of the line without its terminator *)
Fixpoint len16s (l : list char) : N := match l with [] => 0 | c :: r => len16 c + len16s r end.
Definition ends_nl (l : list char) : bool := lastc l =? LF.
Definition strip_nl (l : list char) : list char := if ends_nl l then removelast l else l.
Definition content_len16 (l : list char) : N := len16s (strip_nl l).

Definition clamp (ls : list (list char)) (p : pos) : pos :=
  match nth_error ls (line p) with
  | Some l => P (line p) (N.min (chr p) (content_len16 l))
  | None =>
      let n := length ls in
      let lastl := nth (n - 1) ls [] in
      match ls with
      | [] => P n 0
      | _ => if ends_nl lastl then P n 0 else P (n - 1)%nat (content_len16 lastl)
      end
  end.

Definition pos_leb (p q : pos) : bool :=
  Nat.ltb (line p) (line q) || (Nat.eqb (line p) (line q) && (chr p <=? chr q)).
Definition pos_max (p q : pos) : pos := if pos_leb q p then p else q.   (* std::cmp::max *)

Definition change (ls : list (list char)) (st0 en0 : pos) (content : list char)
  : option (list (list char)) :=
  match ls with
  | [] => Some (split_lines content)
  | _ =>
    let st := clamp ls st0 in
    let en := pos_max st (clamp ls en0) in
    let pre := match nth_error ls (line st) with Some l => take16 0 (chr st) l | None => [] end in
    let suf := match nth_error ls (line en) with Some l => drop16 0 (chr en) l | None => [] end in
    let merged := pre ++ content ++ suf in
    let last_idx := (length ls - 1)%nat in
    let merged := if (Nat.ltb (line en) last_idx) && negb (lastc merged =? LF)
                  then merged ++ [LF] else merged in
    splice_lines ls (line st) (Nat.min last_idx (line en)) (split_lines merged)
  end.

(* Source::change: `None` range = full replacement *)
Inductive edit := Full (t : list char) | Ranged (st en : pos) (t : list char).
Definition apply_edit (d : list (list char)) (e : edit) : option (list (list char)) :=
  match e with
  | Full t => Some (split_lines t)
  | Ranged st en t => change d st en t
  end.
Fixpoint apply_edits (d : list (list char)) (es : list edit) : option (list (list char)) :=
  match es with
  | [] => Some d
  | e :: r => match apply_edit d e with Some d' => apply_edits d' r | None => None end
  end.

(* Contents::end *)
Definition doc_end (d : list (list char)) : pos :=
  P (length d - 1)%nat (len16s (last d [])).
