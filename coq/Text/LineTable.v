(* Text/LineTable.v — the step from the ORIGINAL text to the line table of `Contents`.

   `Contents::from_str` is `split_lines` (Text/Contents.v); `Contents::from_latin1_file` is
   `split_lines (decode_latin1 bytes)` (Lex/LangLexer.v).  This file characterises `split_lines`
   against an independent statement of the property's rule "lines split at LF, CR or CRLF":
     * `norm_eol s`: the text with every CR LF pair and every lone CR replaced by one LF, nothing
       else added, removed or changed (in particular U+FEFF, U+2028, U+2029, NEL, FF, VT, NUL stay);
     * a line table is canonical (`cdoc`): every line is a body free of LF/CR followed by LF, except
       possibly a last, non-empty, unterminated one.
   line_table_unique: the ONLY canonical line table whose text is `norm_eol s` is `split_lines s`.
   So every character of the original text other than a line break occupies its own position, line k
   of the table is the k-th line of the original text, and nothing can be dropped in front of or
   inserted between the lines without contradicting the theorem (the model side of seeded C11-m7/m8;
   on the implementation side the same is checked by the harness oracle, which slices the ORIGINAL
   text / the bytes of the file with its own splitter). *)
From Coq Require Import List NArith Arith Bool Lia.
Import ListNotations.
From RH Require Import Text.Contents Text.ContentsProofs.
Open Scope N_scope.

#[local] Arguments N.eqb : simpl never.

(* independent of split_lines: CR LF -> LF, CR -> LF *)
Fixpoint norm_eol (pc : bool) (s : list char) : list char :=      (* pc: the previous character was a CR *)
  match s with
  | [] => []
  | c :: r => if c =? LF then (if pc then norm_eol false r else LF :: norm_eol false r)
              else if c =? CR then LF :: norm_eol true r
              else c :: norm_eol false r
  end.
Definition normalize_eol (s : list char) : list char := norm_eol false s.

Lemma concat_split_aux : forall s pc cur, concat (split_aux pc cur s) = rev cur ++ norm_eol pc s.
Proof.
  induction s as [|c s IH]; intros pc cur.
  - cbn [split_aux norm_eol]. rewrite app_nil_r. destruct cur as [|x cur]; [reflexivity|]. cbn [concat]. apply app_nil_r.
  - cbn [split_aux norm_eol]. destruct (c =? LF) eqn:E10.
    + destruct pc; [apply IH|]. cbn [concat]. rewrite (IH false []). cbn [rev app]. rewrite <- app_assoc. reflexivity.
    + destruct (c =? CR) eqn:E13.
      * cbn [concat]. rewrite (IH true []). cbn [rev app]. rewrite <- app_assoc. reflexivity.
      * rewrite (IH false (c :: cur)). cbn [rev]. rewrite <- app_assoc. reflexivity.
Qed.

(* the text of the line table is the original text with its line breaks normalised, nothing else *)
Theorem line_table_text : forall s, concat (split_lines s) = normalize_eol s.
Proof. intro s. unfold split_lines, normalize_eol. rewrite concat_split_aux. reflexivity. Qed.

(* ... and the table is the only canonical one with that text *)
Theorem line_table_unique : forall s d, cdoc d -> concat d = normalize_eol s -> d = split_lines s.
Proof.
  intros s d Hd E. pose proof (cdoc_canonical d Hd) as C. unfold canonical in C.
  rewrite <- C, E, <- line_table_text. apply split_canonical.
Qed.

(* characters other than CR and LF are never touched: the normalised text keeps them in order *)
Lemma norm_eol_keeps : forall s pc, filter (fun c => negb ((c =? LF) || (c =? CR))) (norm_eol pc s)
                                   = filter (fun c => negb ((c =? LF) || (c =? CR))) s.
Proof.
  induction s as [|c s IH]; intro pc; [reflexivity|]. cbn [norm_eol filter].
  destruct (c =? LF) eqn:E10.
  - cbn [orb negb]. destruct pc; [apply IH|]. cbn [filter]. rewrite N.eqb_refl. cbn [orb negb]. apply IH.
  - destruct (c =? CR) eqn:E13; cbn [orb negb filter].
    + rewrite N.eqb_refl. cbn [orb negb]. apply IH.
    + rewrite E10, E13. cbn [orb negb]. f_equal. apply IH.
Qed.
Theorem line_table_keeps_characters : forall s,
  filter (fun c => negb ((c =? LF) || (c =? CR))) (concat (split_lines s))
  = filter (fun c => negb ((c =? LF) || (c =? CR))) s.
Proof. intro s. rewrite line_table_text. apply norm_eol_keeps. Qed.

(* the two seeded changes, on the model: a table that lacks the leading U+FEFF, or has an extra
   empty line after a CR LF, is not the line table of the text *)
Example bom_not_dropped : split_lines [65279; 101] <> split_lines [101].
Proof. vm_compute. discriminate. Qed.
Example crlf_no_extra_line : split_lines [97; 13; 10; 98] <> [[97; 10]; [10]; [98]].
Proof. vm_compute. discriminate. Qed.
