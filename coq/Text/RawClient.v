(* Text/RawClient.v — the CLIENT side of C10: the LSP text-document semantics on the
   client's own RAW text, in which lines end at LF, at CRLF, or at a CR that is not
   followed by LF (LSP 3.17, "Text Documents": EOL = ['\n', '\r\n', '\r']).

   Nothing here normalises anything: the raw string keeps its line endings, positions
   (line, UTF-16 column) are resolved on the raw string, the replacement text is spliced
   in as it is.  Clamping follows the same rules as Text/Splice.v: a column beyond the
   line's content denotes the end of the content (before the terminator), a line beyond
   the last line the end of the text, a column inside a surrogate pair rounds up.
   No proofs in this file. *)
From Coq Require Import List NArith Arith Bool.
Import ListNotations.
From RH Require Import Text.Contents Text.Splice.
Open Scope N_scope.

(* number of lines: one more than the number of line terminators (LF, CRLF, lone CR) *)
Fixpoint raw_terms (s : list char) : nat :=
  match s with
  | [] => 0%nat
  | c :: r =>
      if c =? LF then S (raw_terms r)
      else if c =? CR then
        match r with
        | c2 :: r2 => if c2 =? LF then S (raw_terms r2) else S (raw_terms r)
        | [] => 1%nat
        end
      else raw_terms r
  end.
Definition raw_lines (s : list char) : nat := S (raw_terms s).

(* number of characters of the current raw line (terminator excluded) whose accumulated
   UTF-16 length is < col *)
Fixpoint raw_col (col acc : N) (s : list char) : nat :=
  match s with
  | [] => 0%nat
  | c :: r => if (c =? LF) || (c =? CR) then 0%nat
              else if acc <? col then S (raw_col col (acc + len16 c) r) else 0%nat
  end.

(* character offset of position (l, col) in the raw string s *)
Fixpoint raw_off (l : nat) (col : N) (s : list char) {struct s} : nat :=
  match l with
  | O => raw_col col 0 s
  | S l' =>
      match s with
      | [] => 0%nat
      | c :: r =>
          if c =? LF then S (raw_off l' col r)
          else if c =? CR then
            match r with
            | c2 :: r2 => if c2 =? LF then S (S (raw_off l' col r2)) else S (raw_off l' col r)
            | [] => 1%nat
            end
          else S (raw_off l col r)
      end
  end.
Definition raw_offset (p : pos) (r : list char) : nat := raw_off (line p) (chr p) r.

Definition raw_splice (r : list char) (a b : nat) (t : list char) : list char :=
  firstn a r ++ t ++ skipn b r.

(* one content change on the client's text: no normalisation anywhere *)
Definition raw_change (r : list char) (st en : pos) (t : list char) : list char :=
  raw_splice r (raw_offset st r) (raw_offset en r) t.

Definition raw_edit (r : list char) (e : edit) : list char :=
  match e with
  | Full t => t
  | Ranged st en t => raw_change r st en t
  end.
Definition raw_edits (r : list char) (es : list edit) : list char := fold_left raw_edit es r.

(* ---- the corner in which a line-ending-normalising server must diverge ---- *)
Definition ends_cr (s : list char) : bool := lastc s =? CR.
Definition starts_lf (s : list char) : bool :=
  match s with c :: _ => c =? LF | [] => false end.
Definition starts_cr (s : list char) : bool :=
  match s with c :: _ => c =? CR | [] => false end.

(* fusion in the client's text: the kept prefix ends in a (lone) CR and what follows it
   after the splice starts with LF (the first character of t, or of the kept suffix when
   t is empty): two separate terminators / a terminator and a new LF become ONE CRLF. *)
Definition fuse_client (r : list char) (a b : nat) (t : list char) : bool :=
  ends_cr (firstn a r) && starts_lf (t ++ skipn b r).
(* fusion in the server's text only: t ends in CR and the kept suffix starts with a CR
   (lone or of a CRLF), which the server stores as LF: the server sees ONE CRLF where the
   client has two terminators. *)
Definition fuse_server (r : list char) (b : nat) (t : list char) : bool :=
  ends_cr t && starts_cr (skipn b r).

Definition no_cr_lf_fusion (r : list char) (st en : pos) (t : list char) : bool :=
  let a := raw_offset st r in
  let b := raw_offset en r in
  negb (fuse_client r a b t) && negb (fuse_server r b t).

Definition raw_edit_ok (r : list char) (e : edit) : bool :=
  match e with
  | Full _ => true
  | Ranged st en t => no_cr_lf_fusion r st en t
  end.
(* every step satisfies the side condition w.r.t. the client's current raw text *)
Fixpoint raw_history_ok (r : list char) (es : list edit) : bool :=
  match es with
  | [] => true
  | e :: es' => raw_edit_ok r e && raw_history_ok (raw_edit r e) es'
  end.

(* ---- Contents::end on a plain (normalised) string: the last line is the text after the
   last LF that has a successor; a final LF is part of that last line ---- *)
Fixpoint str_end (l : nat) (col : N) (s : list char) : pos :=
  match s with
  | [] => P l col
  | c :: r =>
      if c =? LF then
        match r with
        | [] => P l (col + 1)
        | _ :: _ => str_end (S l) 0 r
        end
      else str_end l (col + len16 c) r
  end.

Definition obind {A B : Type} (o : option A) (f : A -> option B) : option B :=
  match o with Some x => f x | None => None end.
