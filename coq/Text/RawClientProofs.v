(* Text/RawClientProofs.v — C10 against the CLIENT'S OWN RAW TEXT (Text/RawClient.v).
   Main results (pinned in Props/C10.v):
     offset_normalize, raw_offset_never_splits_crlf, raw_step, raw_step_refuted,
     raw_step_side_condition_needed, raw_history, doc_end_spec, batch_is_fold. *)
From Coq Require Import List NArith Arith Bool Lia.
Import ListNotations.
From RH Require Import Text.Contents Text.Splice Text.ContentsProofs Text.RawClient.
Open Scope N_scope.

#[local] Arguments N.add : simpl never.
#[local] Arguments N.sub : simpl never.
#[local] Arguments N.eqb : simpl never.
#[local] Arguments N.ltb : simpl never.
#[local] Arguments N.leb : simpl never.
#[local] Arguments N.min : simpl never.

(* ------------------------------------------------------------------------- *)
(* 1. `normalize` as a one-pass function with the `prevcr` state              *)
(* ------------------------------------------------------------------------- *)

Fixpoint norm (pc : bool) (s : list char) : list char :=
  match s with
  | [] => []
  | c :: r =>
      if c =? LF then (if pc then norm false r else LF :: norm false r)
      else if c =? CR then LF :: norm true r
      else c :: norm false r
  end.

Lemma concat_split_aux : forall s pc cur,
  concat (split_aux pc cur s) = rev cur ++ norm pc s.
Proof.
  induction s as [|c s IH]; intros pc cur.
  - cbn [split_aux norm]. rewrite app_nil_r.
    destruct cur as [|x cur]; [reflexivity|].
    cbn [concat]. rewrite app_nil_r. reflexivity.
  - cbn [split_aux norm]. destruct (c =? LF).
    + destruct pc.
      * apply IH.
      * cbn [concat]. rewrite IH. cbn [rev app]. rewrite <- app_assoc. reflexivity.
    + destruct (c =? CR).
      * cbn [concat]. rewrite IH. cbn [rev app]. rewrite <- app_assoc. reflexivity.
      * rewrite IH. cbn [rev]. rewrite <- app_assoc. reflexivity.
Qed.

Lemma normalize_norm : forall s, normalize s = norm false s.
Proof. intro s. unfold normalize, split_lines. rewrite concat_split_aux. reflexivity. Qed.

Lemma lf_not_cr : (LF =? CR) = false.
Proof. reflexivity. Qed.

Lemma eqb_lf_cr : forall c, (c =? LF) = true -> (c =? CR) = false.
Proof. intros c H. apply N.eqb_eq in H. subst c. reflexivity. Qed.

(* the `prevcr` state after reading s, starting in state pc *)
Fixpoint ecr (pc : bool) (s : list char) : bool :=
  match s with [] => pc | c :: r => ecr (c =? CR) r end.

Lemma norm_app : forall X pc Y, norm pc (X ++ Y) = norm pc X ++ norm (ecr pc X) Y.
Proof.
  induction X as [|c X IH]; intros pc Y.
  - reflexivity.
  - cbn [app norm ecr]. destruct (c =? LF) eqn:Elf.
    + rewrite (eqb_lf_cr c Elf). destruct pc; rewrite IH; reflexivity.
    + destruct (c =? CR); rewrite IH; reflexivity.
Qed.

Lemma ecr_last : forall s pc,
  ecr pc s = match s with [] => pc | _ :: _ => lastc s =? CR end.
Proof.
  induction s as [|c s IH]; intro pc.
  - reflexivity.
  - cbn [ecr]. rewrite IH. unfold lastc. destruct s; reflexivity.
Qed.

Lemma ecr_ends_cr : forall s, ecr false s = ends_cr s.
Proof. intro s. rewrite ecr_last. destruct s; reflexivity. Qed.

Lemma norm_state_irrel : forall pc Y, pc && starts_lf Y = false -> norm pc Y = norm false Y.
Proof.
  intros pc Y H. destruct pc; [|reflexivity]. cbn [andb] in H.
  destruct Y as [|c Y]; [reflexivity|]. cbn [starts_lf] in H. cbn [norm]. rewrite H. reflexivity.
Qed.

Definition nocr (s : list char) : Prop := Forall (fun c => c <> CR) s.

Lemma norm_nocr : forall s pc, nocr (norm pc s).
Proof.
  induction s as [|c s IH]; intro pc; cbn [norm].
  - constructor.
  - destruct (c =? LF) eqn:Elf.
    + destruct pc; [apply IH|]. constructor; [discriminate|apply IH].
    + destruct (c =? CR) eqn:Ecr.
      * constructor; [discriminate|apply IH].
      * constructor; [apply N.eqb_neq; assumption|apply IH].
Qed.

Lemma norm_id : forall s, nocr s -> norm false s = s.
Proof.
  induction s as [|c s IH]; intro H.
  - reflexivity.
  - inversion H as [|c' s' Hc Hs]; subst c' s'. apply N.eqb_neq in Hc.
    cbn [norm]. rewrite Hc. rewrite IH by assumption.
    destruct (c =? LF) eqn:Elf; [|reflexivity].
    apply N.eqb_eq in Elf. subst c. reflexivity.
Qed.

Lemma ecr_nocr : forall s, nocr s -> ecr false s = false.
Proof.
  induction s as [|c s IH]; intro H.
  - reflexivity.
  - inversion H as [|c' s' Hc Hs]; subst c' s'. apply N.eqb_neq in Hc.
    cbn [ecr]. rewrite Hc. apply IH. assumption.
Qed.

Lemma norm_norm : forall s pc, norm false (norm pc s) = norm pc s.
Proof. intros s pc. apply norm_id, norm_nocr. Qed.

(* ------------------------------------------------------------------------- *)
(* 2. Offsets: raw position -> raw offset -> normalised offset                *)
(* ------------------------------------------------------------------------- *)

Lemma raw_off_0 : forall col s, raw_off 0 col s = raw_col col 0 s.
Proof. intros col s. destruct s; reflexivity. Qed.

Lemma raw_off_nil : forall l col, raw_off l col [] = 0%nat.
Proof. intros l col. destruct l; reflexivity. Qed.

(* k is the raw offset corresponding to the normalised offset o, and cutting the raw
   string at k commutes with normalisation (k does not separate a CR from its LF) *)
Definition cut_ok (r : list char) (k o : nat) : Prop :=
  o = length (norm false (firstn k r))
  /\ norm false r = norm false (firstn k r) ++ norm false (skipn k r).

Lemma raw_col_spec : forall s col acc,
  cut_ok s (raw_col col acc s) (offset_col col acc (norm false s)).
Proof.
  unfold cut_ok. induction s as [|c s IH]; intros col acc.
  - split; reflexivity.
  - cbn [raw_col norm]. destruct (c =? LF) eqn:Elf.
    + cbn [orb offset_col firstn skipn norm app length]. rewrite N.eqb_refl.
      rewrite Elf. split; reflexivity.
    + destruct (c =? CR) eqn:Ecr.
      * cbn [orb offset_col firstn skipn norm app length]. rewrite N.eqb_refl.
        rewrite Elf, Ecr. split; reflexivity.
      * cbn [orb offset_col]. rewrite Elf.
        destruct (acc <? col).
        -- destruct (IH col (acc + len16 c)) as [H1 H2].
           cbn [firstn skipn norm]. rewrite Elf, Ecr. cbn [app length].
           split; [f_equal; exact H1|f_equal; exact H2].
        -- cbn [firstn skipn norm app length]. rewrite Elf, Ecr. split; reflexivity.
Qed.

Lemma starts_lf_firstn : forall k c s, (c =? LF) = false -> starts_lf (firstn k (c :: s)) = false.
Proof. intros k c s H. destruct k; cbn [firstn starts_lf]; [reflexivity|assumption]. Qed.

Lemma norm_cons_lf : forall c r, (c =? LF) = true ->
  norm false (c :: r) = LF :: norm false r /\ norm true (c :: r) = norm false r.
Proof. intros c r H. cbn [norm]. rewrite H. split; reflexivity. Qed.

Lemma norm_cons_cr : forall pc c r, (c =? LF) = false -> (c =? CR) = true ->
  norm pc (c :: r) = LF :: norm true r.
Proof. intros pc c r H1 H2. cbn [norm]. rewrite H1, H2. reflexivity. Qed.

Lemma norm_cons_other : forall pc c r, (c =? LF) = false -> (c =? CR) = false ->
  norm pc (c :: r) = c :: norm false r.
Proof. intros pc c r H1 H2. cbn [norm]. rewrite H1, H2. reflexivity. Qed.

Lemma offset_S_lf : forall l col s, offset (S l) col (LF :: s) = S (offset l col s).
Proof. intros l col s. cbn [offset]. rewrite N.eqb_refl. reflexivity. Qed.

Lemma offset_S_other : forall l col c s, (c =? LF) = false ->
  offset (S l) col (c :: s) = S (offset (S l) col s).
Proof. intros l col c s H. cbn [offset]. rewrite H. reflexivity. Qed.

Lemma raw_off_spec_n : forall n r, (length r <= n)%nat -> forall l col,
  cut_ok r (raw_off l col r) (offset l col (norm false r)).
Proof.
  induction n as [|n IH]; intros r Hlen l col.
  - destruct r as [|c r]; [|cbn [length] in Hlen; lia].
    rewrite raw_off_nil. cbn [norm]. rewrite offset_nil. split; reflexivity.
  - destruct l as [|l].
    + rewrite raw_off_0, offset_0. apply raw_col_spec.
    + destruct r as [|c r].
      * cbn [norm raw_off offset]. split; reflexivity.
      * cbn [length] in Hlen. cbn [raw_off]. unfold cut_ok.
        destruct (c =? LF) eqn:Elf.
        -- (* LF *)
           destruct (IH r ltac:(lia) l col) as [H1 H2].
           cbn [firstn skipn]. rewrite !(proj1 (norm_cons_lf c _ Elf)), offset_S_lf.
           cbn [length app]. split; [f_equal; exact H1|f_equal; exact H2].
        -- destruct (c =? CR) eqn:Ecr.
           ++ destruct r as [|c2 r2].
              ** (* lone CR at the end of the text *)
                 cbn [firstn skipn]. rewrite !(norm_cons_cr false c _ Elf Ecr), offset_S_lf.
                 cbn [norm]. rewrite offset_nil. split; reflexivity.
              ** cbn [length] in Hlen. destruct (c2 =? LF) eqn:Elf2.
                 --- (* CRLF *)
                     destruct (IH r2 ltac:(lia) l col) as [H1 H2].
                     cbn [firstn skipn]. rewrite !(norm_cons_cr false c _ Elf Ecr).
                     rewrite !(proj2 (norm_cons_lf c2 _ Elf2)), offset_S_lf.
                     cbn [length app]. split; [f_equal; exact H1|f_equal; exact H2].
                 --- (* lone CR *)
                     destruct (IH (c2 :: r2) ltac:(cbn [length]; lia) l col) as [H1 H2].
                     set (k := raw_off l col (c2 :: r2)) in *.
                     assert (Hs : norm true (c2 :: r2) = norm false (c2 :: r2)).
                     { apply norm_state_irrel. cbn [starts_lf]. rewrite Elf2. reflexivity. }
                     assert (Hf : norm true (firstn k (c2 :: r2))
                                  = norm false (firstn k (c2 :: r2))).
                     { apply norm_state_irrel.
                       rewrite starts_lf_firstn by assumption. reflexivity. }
                     rewrite (firstn_cons k c (c2 :: r2)).
                     change (skipn (S k) (c :: c2 :: r2)) with (skipn k (c2 :: r2)).
                     rewrite !(norm_cons_cr false c _ Elf Ecr), offset_S_lf, Hs, Hf.
                     cbn [length app]. split; [f_equal; exact H1|f_equal; exact H2].
           ++ (* ordinary character *)
              destruct (IH r ltac:(lia) (S l) col) as [H1 H2].
              cbn [firstn skipn]. rewrite !(norm_cons_other false c _ Elf Ecr).
              rewrite offset_S_other by assumption.
              cbn [length app]. split; [f_equal; exact H1|f_equal; exact H2].
Qed.

Lemma raw_off_spec : forall r l col,
  cut_ok r (raw_off l col r) (offset l col (norm false r)).
Proof. intros r l col. apply (raw_off_spec_n (length r) r (le_n _)). Qed.

(* Key lemma: the offset that a position denotes in the normalised text is the image,
   under normalisation, of the offset it denotes in the raw text. *)
Theorem offset_normalize : forall r p,
  offset_of (normalize r) p = length (normalize (firstn (raw_offset p r) r)).
Proof.
  intros r p. unfold offset_of, raw_offset. rewrite !normalize_norm.
  apply (proj1 (raw_off_spec r (line p) (chr p))).
Qed.

(* cutting the raw text at a raw offset commutes with normalisation *)
Theorem raw_offset_cut : forall r p,
  normalize r = normalize (firstn (raw_offset p r) r) ++ normalize (skipn (raw_offset p r) r).
Proof.
  intros r p. unfold raw_offset. rewrite !normalize_norm.
  apply (proj2 (raw_off_spec r (line p) (chr p))).
Qed.

(* a raw offset denoted by a position never lies between the CR and the LF of a CRLF *)
Theorem raw_offset_never_splits_crlf : forall r p,
  ends_cr (firstn (raw_offset p r) r) && starts_lf (skipn (raw_offset p r) r) = false.
Proof.
  intros r p. pose proof (raw_offset_cut r p) as H. rewrite !normalize_norm in H.
  set (k := raw_offset p r) in *.
  rewrite <- (firstn_skipn k r) in H at 1. rewrite norm_app in H.
  apply app_inv_head in H. rewrite ecr_ends_cr in H.
  destruct (ends_cr (firstn k r)); [|reflexivity]. cbn [andb].
  destruct (skipn k r) as [|c s]; [reflexivity|]. cbn [starts_lf].
  destruct (c =? LF) eqn:Elf; [|reflexivity].
  cbn [norm] in H. rewrite Elf in H. apply (f_equal (@length char)) in H.
  cbn [length] in H. lia.
Qed.

Lemma firstn_normalize : forall r p,
  firstn (offset_of (normalize r) p) (normalize r) = normalize (firstn (raw_offset p r) r).
Proof.
  intros r p. rewrite offset_normalize. eapply firstn_len_eq. apply raw_offset_cut.
Qed.

Lemma skipn_normalize : forall r p,
  skipn (offset_of (normalize r) p) (normalize r) = normalize (skipn (raw_offset p r) r).
Proof.
  intros r p. rewrite offset_normalize. eapply skipn_len_eq. apply raw_offset_cut.
Qed.

(* normalisation preserves the number of lines (so `raw_lines` of the server's text is
   its number of LF-terminated-or-final lines) *)
Lemma raw_terms_norm_n : forall n r, (length r <= n)%nat ->
  raw_terms (norm false r) = raw_terms r.
Proof.
  induction n as [|n IH]; intros r Hlen.
  - destruct r as [|c r]; [reflexivity|cbn [length] in Hlen; lia].
  - destruct r as [|c r]; [reflexivity|]. cbn [length] in Hlen.
    cbn [raw_terms]. destruct (c =? LF) eqn:Elf.
    + rewrite (proj1 (norm_cons_lf c _ Elf)). cbn [raw_terms]. rewrite N.eqb_refl.
      f_equal. apply IH. lia.
    + destruct (c =? CR) eqn:Ecr.
      * rewrite (norm_cons_cr false c _ Elf Ecr). cbn [raw_terms]. rewrite N.eqb_refl.
        destruct r as [|c2 r2]; [reflexivity|]. cbn [length] in Hlen.
        destruct (c2 =? LF) eqn:Elf2.
        -- rewrite (proj2 (norm_cons_lf c2 _ Elf2)). f_equal. apply IH. lia.
        -- rewrite norm_state_irrel by (cbn [starts_lf]; rewrite Elf2; reflexivity).
           f_equal. apply IH. cbn [length]. lia.
      * rewrite (norm_cons_other false c _ Elf Ecr). cbn [raw_terms]. rewrite Elf, Ecr.
        apply IH. lia.
Qed.

Theorem raw_lines_normalize : forall r, raw_lines (normalize r) = raw_lines r.
Proof.
  intro r. unfold raw_lines. rewrite normalize_norm. f_equal.
  apply (raw_terms_norm_n (length r) r (le_n _)).
Qed.

(* ------------------------------------------------------------------------- *)
(* 3. One step                                                                *)
(* ------------------------------------------------------------------------- *)

(* normalising the kept suffix first is harmless unless a CR in front of it meets a CR *)
Lemma norm_suffix : forall pc B, pc && starts_cr B = false ->
  norm pc (norm false B) = norm pc B.
Proof.
  intros pc B H. destruct pc; [|apply norm_norm]. cbn [andb] in H.
  destruct B as [|c B]; [reflexivity|]. cbn [starts_cr] in H.
  cbn [norm]. rewrite H. destruct (c =? LF) eqn:Elf.
  - cbn [norm]. rewrite N.eqb_refl. apply norm_norm.
  - cbn [norm]. rewrite Elf, H. f_equal. apply norm_norm.
Qed.

Lemma both_sides : forall A t B,
  norm false (A ++ t ++ B) = norm false A ++ norm (ecr false A) (t ++ B)
  /\ norm false (norm false A ++ t ++ norm false B)
     = norm false A ++ norm false t ++ norm (ecr false t) (norm false B).
Proof.
  intros A t B. split.
  - apply norm_app.
  - rewrite norm_app, norm_norm. rewrite ecr_nocr by apply norm_nocr.
    rewrite norm_app. reflexivity.
Qed.

Theorem raw_step : forall r st en t, no_cr_lf_fusion r st en t = true ->
  normalize (raw_change r st en t) = spec_change (normalize r) st en t.
Proof.
  intros r st en t H. unfold no_cr_lf_fusion in H. cbn zeta in H.
  apply andb_true_iff in H. destruct H as [Hc Hs].
  apply negb_true_iff in Hc. apply negb_true_iff in Hs.
  unfold fuse_client in Hc. unfold fuse_server in Hs.
  unfold spec_change, splice, raw_change, raw_splice.
  rewrite firstn_normalize, skipn_normalize.
  set (A := firstn (raw_offset st r) r) in *. set (B := skipn (raw_offset en r) r) in *.
  rewrite !normalize_norm.
  destruct (both_sides A t B) as [H1 H2]. rewrite H1, H2. f_equal.
  rewrite norm_state_irrel by (rewrite ecr_ends_cr; exact Hc).
  rewrite norm_app. f_equal.
  rewrite norm_suffix by (rewrite ecr_ends_cr; exact Hs). reflexivity.
Qed.

(* the side condition is necessary: the corner, on the smallest document *)
Theorem raw_step_refuted :
  exists r st en t,
    no_cr_lf_fusion r st en t = false /\
    raw_change r st en t = [97; CR; LF; 98] /\
    raw_lines (raw_change r st en t) = 2%nat /\
    spec_change (normalize r) st en t = [97; LF; LF; 98] /\
    raw_lines (spec_change (normalize r) st en t) = 3%nat /\
    normalize (raw_change r st en t) <> spec_change (normalize r) st en t /\
    (* ... and it is what the server computes *)
    change (split_lines r) st en t = Some [[97; LF]; [LF]; [98]].
Proof.
  exists [97; CR; 98], (P 1 0), (P 1 0), [LF].
  split; [reflexivity|]. split; [reflexivity|]. split; [reflexivity|].
  split; [reflexivity|]. split; [reflexivity|].
  split; [vm_compute; intro H; discriminate H|reflexivity].
Qed.

(* the server-only fusion: client "a" CR "b", insert CR at (0,1): client has two
   terminators (3 lines), the server stores a single one (2 lines) *)
Theorem raw_step_refuted_server_fusion :
  exists r st en t,
    no_cr_lf_fusion r st en t = false /\
    raw_lines (raw_change r st en t) = 3%nat /\
    raw_lines (spec_change (normalize r) st en t) = 2%nat /\
    change (split_lines r) st en t = Some [[97; LF]; [98]].
Proof.
  exists [97; CR; 98], (P 0 1), (P 0 1), [CR].
  split; [reflexivity|]. split; [reflexivity|]. split; reflexivity.
Qed.

(* In general: whenever exactly one of the two fusions happens, the server's text is NOT
   the normalisation of the client's text (they differ in length by one). *)
Lemma norm_true_lf : forall Y, norm true (LF :: Y) = norm false Y.
Proof. intro Y. cbn [norm]. rewrite N.eqb_refl. reflexivity. Qed.

Lemma norm_false_lf : forall Y, norm false (LF :: Y) = LF :: norm false Y.
Proof. intro Y. cbn [norm]. rewrite N.eqb_refl. reflexivity. Qed.

Lemma starts_lf_inv : forall Y, starts_lf Y = true -> exists Y', Y = LF :: Y'.
Proof.
  intros Y H. destruct Y as [|c Y]; [discriminate H|]. cbn [starts_lf] in H.
  apply N.eqb_eq in H. subst c. eauto.
Qed.

Lemma starts_cr_inv : forall Y, starts_cr Y = true -> exists Y', Y = CR :: Y'.
Proof.
  intros Y H. destruct Y as [|c Y]; [discriminate H|]. cbn [starts_cr] in H.
  apply N.eqb_eq in H. subst c. eauto.
Qed.

Lemma norm_true_cr_len : forall B',
  S (length (norm true (norm false (CR :: B')))) = length (norm true (CR :: B')).
Proof.
  intro B'. change (norm false (CR :: B')) with (LF :: norm true B').
  rewrite norm_true_lf, norm_norm. reflexivity.
Qed.

Theorem raw_step_side_condition_needed : forall r st en t,
  xorb (fuse_client r (raw_offset st r) (raw_offset en r) t)
       (fuse_server r (raw_offset en r) t) = true ->
  length (normalize (raw_change r st en t))
    <> length (spec_change (normalize r) st en t).
Proof.
  intros r st en t H.
  unfold spec_change, splice, raw_change, raw_splice.
  rewrite firstn_normalize, skipn_normalize.
  unfold fuse_client, fuse_server in H.
  set (A := firstn (raw_offset st r) r) in *. set (B := skipn (raw_offset en r) r) in *.
  rewrite !normalize_norm.
  destruct (both_sides A t B) as [H1 H2]. rewrite H1, H2. clear H1 H2.
  rewrite <- !ecr_ends_cr in H.
  destruct (ecr false A && starts_lf (t ++ B)) eqn:Ec.
  - (* client fusion only *)
    cbn [xorb] in H. apply negb_true_iff in H.
    apply andb_true_iff in Ec. destruct Ec as [EA El]. rewrite EA.
    rewrite (norm_suffix _ _ H).
    destruct (starts_lf_inv _ El) as [Y HY].
    destruct t as [|c t'].
    + cbn [app] in HY. rewrite HY. cbn [ecr app].
      rewrite norm_true_lf, norm_false_lf. cbn [norm app]. rewrite !app_length.
      cbn [length]. lia.
    + cbn [app] in HY. inversion HY as [[Hc HY']]. subst c.
      cbn [app]. rewrite norm_true_lf, norm_false_lf, norm_app. cbn [ecr]. rewrite lf_not_cr.
      cbn [app]. rewrite !app_length. cbn [length]. rewrite !app_length. lia.
  - (* server fusion only *)
    cbn [xorb] in H.
    destruct (ecr false t && starts_cr B) eqn:Es; [clear H|discriminate H].
    apply andb_true_iff in Es. destruct Es as [Et Eb].
    rewrite (norm_state_irrel _ _ Ec). rewrite norm_app, Et.
    destruct (starts_cr_inv _ Eb) as [B' HB]. rewrite HB.
    pose proof (norm_true_cr_len B') as Hl. rewrite !app_length. lia.
Qed.

(* the side condition is satisfiable by a non-trivial state: a CRLF document with a
   supplementary-plane character, a multi-line CRLF replacement over a multi-line range *)
Example raw_step_satisfiable :
  let r := [97; 128512; CR; LF; 98; CR; LF; 99] in
  let t := [120; CR; LF; 121] in
  no_cr_lf_fusion r (P 0 3) (P 2 0) t = true /\
  raw_offset (P 0 3) r = 2%nat /\ raw_offset (P 0 2) r = 2%nat /\ raw_offset (P 2 0) r = 7%nat /\
  raw_change r (P 0 3) (P 2 0) t = [97; 128512; 120; CR; LF; 121; 99] /\
  raw_lines r = 3%nat /\
  change (split_lines r) (P 0 3) (P 2 0) t = Some [[97; 128512; 120; LF]; [121; 99]].
Proof.
  cbn zeta. split; [reflexivity|]. split; [reflexivity|]. split; [reflexivity|].
  split; [reflexivity|]. split; [reflexivity|]. split; reflexivity.
Qed.

(* ------------------------------------------------------------------------- *)
(* 4. Histories                                                               *)
(* ------------------------------------------------------------------------- *)

Lemma spec_raw_edits : forall es r, raw_history_ok r es = true ->
  spec_edits (normalize r) es = normalize (raw_edits r es).
Proof.
  induction es as [|e es IH]; intros r H.
  - reflexivity.
  - cbn [raw_history_ok] in H. apply andb_true_iff in H. destruct H as [He Hes].
    unfold spec_edits, raw_edits in *. cbn [fold_left].
    destruct e as [t|st en t]; cbn [spec_edit raw_edit raw_edit_ok] in *.
    + apply IH. assumption.
    + rewrite <- (raw_step r st en t He). apply IH. assumption.
Qed.

Theorem raw_history : forall es r0,
  forallb wf_edit es = true -> raw_history_ok r0 es = true ->
  exists d, apply_edits (split_lines r0) es = Some d
            /\ concat d = normalize (raw_edits r0 es)
            /\ canonical d.
Proof.
  intros es r0 Hwf Hok.
  destruct (history_refines es r0 Hwf) as [d [H1 [H2 H3]]].
  exists d. split; [assumption|]. split; [|assumption].
  rewrite H2. apply spec_raw_edits. assumption.
Qed.

Example raw_history_satisfiable :
  let r0 := [97; 128512; CR; LF; 98; CR; 99; LF] in
  let es := [Ranged (P 0 3) (P 2 0) [120; CR; LF; 121];
             Ranged (P 1 1) (P 9 9) [CR; 122];
             Full [CR; LF; 97; CR];
             Ranged (P 1 1) (P 1 1) [LF]] in
  forallb wf_edit es = true /\ raw_history_ok r0 es = true /\
  raw_edits r0 es = [CR; LF; 97; LF; CR] /\
  apply_edits (split_lines r0) es = Some [[LF]; [97; LF]; [LF]].
Proof. cbn zeta. split; [reflexivity|]. split; [reflexivity|]. split; reflexivity. Qed.

(* ------------------------------------------------------------------------- *)
(* 5. Contents::end, and batches                                              *)
(* ------------------------------------------------------------------------- *)

Lemma len16s_app : forall a b, len16s (a ++ b) = len16s a + len16s b.
Proof.
  induction a as [|c a IH]; intro b; cbn [app len16s].
  - rewrite N.add_0_l. reflexivity.
  - rewrite IH. rewrite N.add_assoc. reflexivity.
Qed.

Lemma str_end_clean : forall b l col rest, clean b ->
  str_end l col (b ++ rest) = str_end l (col + len16s b) rest.
Proof.
  induction b as [|c b IH]; intros l col rest Hb.
  - cbn [app len16s]. rewrite N.add_0_r. reflexivity.
  - inversion Hb as [|c' b' Hc Hb']; subst c' b'. destruct Hc as [Hlf _].
    apply N.eqb_neq in Hlf.
    cbn [app str_end len16s]. rewrite Hlf. rewrite IH by assumption.
    rewrite N.add_assoc. reflexivity.
Qed.

Lemma cdoc_concat_ne : forall d, cdoc d -> d <> [] -> concat d <> [].
Proof.
  intros d Hd Hne. destruct Hd as [|b Hb Hb'|b d Hb Hd].
  - congruence.
  - cbn [concat]. rewrite app_nil_r. assumption.
  - cbn [concat]. intro H. apply app_eq_nil in H. destruct H as [H _].
    apply app_eq_nil in H. destruct H as [_ H]. discriminate H.
Qed.

Lemma doc_end_cdoc : forall d, cdoc d -> d <> [] -> forall l,
  str_end l 0 (concat d) = P (l + (length d - 1)) (len16s (last d [])).
Proof.
  induction 1 as [|b Hb Hne|b d Hb Hd IH]; intros Hnil l.
  - congruence.
  - cbn [concat length last]. rewrite str_end_clean by assumption.
    cbn [str_end]. rewrite N.add_0_l. f_equal. lia.
  - cbn [concat]. rewrite <- app_assoc. rewrite str_end_clean by assumption.
    rewrite N.add_0_l. cbn [app str_end]. rewrite N.eqb_refl.
    destruct d as [|x d].
    + cbn [concat length last]. rewrite len16s_app. cbn [len16s].
      f_equal. lia.
    + assert (Hne : x :: d <> []) by discriminate.
      pose proof (cdoc_concat_ne _ Hd Hne) as Hc.
      destruct (concat (x :: d)) as [|y s] eqn:E; [congruence|].
      rewrite (IH Hne (S l)).
      change (last ((b ++ [LF]) :: x :: d) []) with (last (x :: d) []).
      cbn [length]. f_equal. lia.
Qed.

Theorem doc_end_spec : forall d, canonical d -> doc_end d = str_end 0 0 (concat d).
Proof.
  intros d Hc. apply canonical_cdoc in Hc.
  destruct d as [|x d]; [reflexivity|].
  rewrite (doc_end_cdoc _ Hc ltac:(discriminate) 0%nat). reflexivity.
Qed.

Example doc_end_examples :
  doc_end (split_lines [97; CR; LF; 128512; 98]) = P 1 3 /\
  doc_end (split_lines [97; CR; LF; 128512; 98; CR]) = P 1 4 /\
  doc_end (split_lines []) = P 0 0 /\
  str_end 0 0 [97; LF; 128512; 98; LF] = P 1 4.
Proof. split; [reflexivity|]. split; [reflexivity|]. split; reflexivity. Qed.

Theorem batch_is_fold : forall es1 es2 d,
  apply_edits d (es1 ++ es2) = obind (apply_edits d es1) (fun d' => apply_edits d' es2).
Proof.
  induction es1 as [|e es1 IH]; intros es2 d.
  - reflexivity.
  - cbn [app apply_edits]. destruct (apply_edit d e) as [d'|]; [apply IH|reflexivity].
Qed.
