(* Text/ReaderInv.v — the reader invariant and "consumed text = slice between positions".

   RInv d st : `idx` is the UTF-8 byte offset and `character` the UTF-16 offset of one and the
               same character boundary of line `line` (or the reader stands behind the last
               line).  It holds initially and is preserved by every pop; under it `get_char`
               never reads inside a character (`GBad`, the UB/crash outcome, is excluded).
   run l st st' : st' is reached from st by popping exactly the characters l.
   consumed_is_slice : for a canonical line buffer, the characters popped between two states
               are `slice16 d (r_pos st) (r_pos st')`, the text between the two UTF-16 positions
               as defined independently in Lex/LexSpec.v.
   value_at_consumed : `ContentReader::value_at` on the columns of two states of one line returns
               the consumed characters when they are Latin-1 (the `unwrap` of parse_bit_string). *)
From Coq Require Import List NArith Arith Bool Lia.
Import ListNotations.
From RH Require Import Text.Contents Text.ContentsProofs Text.Reader Text.ReaderProofs Lex.LangLexer Lex.LexSpec.
Open Scope N_scope.

#[local] Arguments N.add : simpl never.
#[local] Arguments N.sub : simpl never.
#[local] Arguments N.eqb : simpl never.
#[local] Arguments N.ltb : simpl never.
#[local] Arguments N.leb : simpl never.

Fixpoint len8s (l : list char) : N := match l with [] => 0 | c :: r => len8 c + len8s r end.

Lemma len8s_app : forall a b, len8s (a ++ b) = len8s a + len8s b.
Proof. induction a as [|x a IH]; intro b; cbn [app len8s]; [lia|]. rewrite IH. lia. Qed.
Lemma len16s_app : forall a b, len16s (a ++ b) = len16s a + len16s b.
Proof. induction a as [|x a IH]; intro b; cbn [app len16s]; [lia|]. rewrite IH. lia. Qed.

Lemma char_at_app : forall pre suf,
  char_at (pre ++ suf) (len8s pre) = match suf with [] => GEof | c :: _ => GChar c end.
Proof.
  induction pre as [|x pre IH]; intro suf; cbn [app len8s].
  - destruct suf as [|c s]; cbn [char_at]; [reflexivity|]. rewrite N.eqb_refl. reflexivity.
  - cbn [char_at]. pose proof (len8_pos x) as Hp.
    replace (len8 x + len8s pre =? 0) with false by (symmetry; apply N.eqb_neq; lia).
    replace (len8 x + len8s pre <? len8 x) with false by (symmetry; apply N.ltb_ge; lia).
    replace (len8 x + len8s pre - len8 x) with (len8s pre) by lia. apply IH.
Qed.
Lemma after_idx_app : forall pre suf, after_idx (pre ++ suf) (len8s pre) = suf.
Proof.
  induction pre as [|x pre IH]; intro suf; cbn [app len8s].
  - apply after_idx_0.
  - cbn [after_idx]. pose proof (len8_pos x) as Hp.
    replace (len8 x + len8s pre =? 0) with false by (symmetry; apply N.eqb_neq; lia).
    replace (len8 x + len8s pre <? len8 x) with false by (symmetry; apply N.ltb_ge; lia).
    replace (len8 x + len8s pre - len8 x) with (len8s pre) by lia. apply IH.
Qed.

Section Inv.
  Variable d : list (list char).

  Definition lnat (st : rstate) : nat := N.to_nat (fst (r_pos st)).

  Definition RInv (st : rstate) : Prop :=
    (exists pre suf, nth_error d (lnat st) = Some (pre ++ suf) /\ r_idx st = len8s pre
                     /\ snd (r_pos st) = len16s pre /\ ~ In LF pre)
    \/ (lnat st = length d /\ snd (r_pos st) = 0 /\ r_idx st = 0).

  Lemma rinv_start : RInv rstart.
  Proof.
    unfold RInv, lnat, rstart. cbn [r_pos r_idx fst snd N.to_nat].
    destruct d as [|l r] eqn:E.
    - right. auto.
    - left. exists [], l. cbn. auto.
  Qed.

  Lemma rinv_get_char : forall st, RInv st ->
    (exists pre c suf, nth_error d (lnat st) = Some (pre ++ c :: suf) /\ r_idx st = len8s pre
                       /\ snd (r_pos st) = len16s pre /\ ~ In LF pre /\ get_char d st = GChar c)
    \/ get_char d st = GEof.
  Proof.
    intros st [[pre [suf [Hl [Hi [Hc Hn]]]]]|[Hl [Hc Hi]]].
    - unfold get_char, get_line. fold (lnat st). rewrite Hl, Hi, char_at_app.
      destruct suf as [|c suf]; [right; reflexivity|]. left. exists pre, c, suf. auto.
    - right. unfold get_char, get_line. fold (lnat st). rewrite Hl.
      replace (nth_error d (length d)) with (@None (list char)); [reflexivity|].
      symmetry. apply nth_error_None. lia.
  Qed.

  (* the undefined-behaviour outcome of get_char is unreachable under the invariant *)
  Lemma rinv_not_bad : forall st, RInv st -> get_char d st <> GBad.
  Proof.
    intros st H. destruct (rinv_get_char st H) as [[pre [c [suf [_ [_ [_ [_ G]]]]]]]|G]; rewrite G; discriminate.
  Qed.

  Lemma rinv_skip : forall st c, RInv st -> get_char d st = GChar c -> RInv (skip_char st c).
  Proof.
    intros st c H G. destruct (rinv_get_char st H) as [[pre [c' [suf [Hl [Hi [Hc [Hn G']]]]]]]|G']; [|congruence].
    assert (c' = c) by congruence. subst c'.
    destruct st as [[ln col] idx]. unfold lnat in *. cbn [r_pos r_idx fst snd] in *.
    unfold skip_char, move_after_char, RInv, lnat. cbn [r_pos r_idx fst snd].
    destruct (c =? LF) eqn:EL; cbn [fst snd].
    - rewrite N.eqb_refl. replace (N.to_nat (ln + 1)) with (S (N.to_nat ln)) by lia.
      destruct (nth_error d (S (N.to_nat ln))) as [l'|] eqn:E'.
      + left. exists [], l'. cbn. auto.
      + right. split; [|auto]. apply nth_error_None in E'.
        assert (N.to_nat ln < length d)%nat by (apply nth_error_Some; congruence). lia.
    - pose proof (len16_pos' c) as Hp.
      replace (col + len16 c =? 0) with false by (symmetry; apply N.eqb_neq; lia).
      left. exists (pre ++ [c]), suf. rewrite <- app_assoc. cbn [app].
      split; [exact Hl|]. rewrite len8s_app, len16s_app. cbn [len8s len16s].
      split; [lia|]. split; [lia|].
      intro HI. apply in_app_or in HI. destruct HI as [HI|[HI|[]]]; [exact (Hn HI)|].
      apply N.eqb_neq in EL. congruence.
  Qed.

  Lemma rinv_steps : forall n st st', steps d n st st' -> RInv st -> RInv st'.
  Proof.
    induction 1 as [st|n st c st' G H IH]; intro HI; [exact HI|]. apply IH. apply rinv_skip; assumption.
  Qed.
  Lemma rinv_adv : forall st st', adv d st st' -> RInv st -> RInv st'.
  Proof. intros st st' [n H]. eapply rinv_steps; exact H. Qed.

  (* ---------- consumed characters ---------- *)
  Inductive run : list char -> rstate -> rstate -> Prop :=
  | run_nil : forall st, run [] st st
  | run_cons : forall c l st st', get_char d st = GChar c -> run l (skip_char st c) st' -> run (c :: l) st st'.

  Lemma steps_run : forall n st st', steps d n st st' -> exists l, run l st st' /\ length l = n.
  Proof.
    induction 1 as [st|n st c st' G H [l [R L]]].
    - exists []. split; [constructor|reflexivity].
    - exists (c :: l). split; [econstructor; eassumption|cbn [length]; lia].
  Qed.
  Lemma run_steps : forall l st st', run l st st' -> steps d (length l) st st'.
  Proof. induction 1; cbn [length]; econstructor; eassumption. Qed.

  Lemma remaining_skip : forall st c, get_char d st = GChar c ->
    exists extra, remaining d st = c :: extra ++ remaining d (skip_char st c).
  Proof.
    intros [[ln col] idx] c G. unfold get_char in G. cbn [r_pos r_idx fst] in G.
    unfold remaining, skip_char, move_after_char. cbn [r_pos r_idx fst snd].
    destruct (get_line d ln) as [l|] eqn:GL; [|discriminate].
    rewrite (char_at_after _ _ _ G). cbn [app].
    destruct (c =? LF) eqn:EL; cbn [fst snd].
    - rewrite N.eqb_refl. unfold get_line in *.
      replace (N.to_nat (ln + 1)) with (S (N.to_nat ln)) by lia.
      destruct (nth_error d (S (N.to_nat ln))) as [l'|] eqn:GL'.
      + rewrite after_idx_0. rewrite (skipn_nth_error _ _ _ _ GL'). cbn [concat].
        exists (after_idx l (idx + len8 c)). reflexivity.
      + exists (after_idx l (idx + len8 c) ++ concat (skipn (S (N.to_nat ln)) d)). rewrite app_nil_r. reflexivity.
    - pose proof (len16_pos' c) as Hp.
      replace (col + len16 c =? 0) with false by (symmetry; apply N.eqb_neq; lia).
      rewrite GL. exists []. reflexivity.
  Qed.

  (* under the invariant and for lines that hold LF only as their last character, nothing is
     skipped: the remaining text shrinks exactly by the popped character *)
  Definition lf_last (l : list char) : Prop := forall a b, l = a ++ LF :: b -> b = [].
  Lemma remaining_skip_exact : forall st c, Forall lf_last d -> RInv st -> get_char d st = GChar c ->
    remaining d st = c :: remaining d (skip_char st c).
  Proof.
    intros st c HD HI G.
    destruct (rinv_get_char st HI) as [[pre [c' [suf [Hl [Hi [Hc [Hn G']]]]]]]|G']; [|congruence].
    assert (c' = c) by congruence. subst c'.
    destruct st as [[ln col] idx]. unfold lnat in *. cbn [r_pos r_idx fst snd] in *.
    unfold remaining, skip_char, move_after_char, get_line. cbn [r_pos r_idx fst snd].
    rewrite Hl, Hi, after_idx_app. cbn [app].
    destruct (c =? LF) eqn:EL; cbn [fst snd].
    - rewrite N.eqb_refl. apply N.eqb_eq in EL. subst c.
      assert (suf = []).
      { eapply (proj1 (Forall_forall _ _) HD (pre ++ LF :: suf)); [eapply nth_error_In; exact Hl|reflexivity]. }
      subst suf. cbn [app].
      replace (N.to_nat (ln + 1)) with (S (N.to_nat ln)) by lia.
      destruct (nth_error d (S (N.to_nat ln))) as [l'|] eqn:GL'.
      + rewrite after_idx_0. rewrite (skipn_nth_error _ _ _ _ GL'). reflexivity.
      + replace (skipn (S (N.to_nat ln)) d) with (@nil (list char)); [reflexivity|].
        symmetry. apply skipn_all2. apply nth_error_None in GL'. lia.
    - pose proof (len16_pos' c) as Hp.
      replace (col + len16 c =? 0) with false by (symmetry; apply N.eqb_neq; lia).
      rewrite Hl. replace (len8s pre + len8 c) with (len8s (pre ++ [c])) by (rewrite len8s_app; cbn [len8s]; lia).
      replace (pre ++ c :: suf) with ((pre ++ [c]) ++ suf) by (rewrite <- app_assoc; reflexivity).
      rewrite after_idx_app. reflexivity.
  Qed.

  Lemma run_remaining : forall l st st', Forall lf_last d -> run l st st' -> RInv st ->
    remaining d st = l ++ remaining d st'.
  Proof.
    intros l st st' HD H. induction H as [st|c l st st' G H IH]; intro HI; [reflexivity|].
    rewrite (remaining_skip_exact _ _ HD HI G). cbn [app]. f_equal. apply IH. apply rinv_skip; assumption.
  Qed.
End Inv.

(* canonical line buffers (the result of split_lines) hold LF only at line ends *)
Lemma clean_no_lf : forall b, Forall okc b -> ~ In LF b.
Proof.
  intros b H HI. rewrite Forall_forall in H. destruct (H _ HI) as [E _]. apply E. reflexivity.
Qed.
Lemma clean_lf_last : forall b, Forall okc b -> lf_last b.
Proof.
  intros b H a c E. exfalso. apply (clean_no_lf b H). rewrite E. apply in_or_app. right. left. reflexivity.
Qed.
Lemma clean_lf_lf_last : forall b, Forall okc b -> lf_last (b ++ [LF]).
Proof.
  intros b H a c E.
  destruct c as [|x c]; [reflexivity|]. exfalso.
  assert (HI : In LF b).
  { assert (L : length (b ++ [LF]) = length (a ++ LF :: x :: c)) by (rewrite E; reflexivity).
    rewrite !app_length in L. cbn [length] in L.
    assert (Hb : b = firstn (length b) (a ++ LF :: x :: c)).
    { rewrite <- E. rewrite firstn_app, firstn_all, Nat.sub_diag. cbn [firstn]. rewrite app_nil_r. reflexivity. }
    rewrite Hb. rewrite firstn_app.
    apply in_or_app. right. replace (length b - length a)%nat with (S (length b - length a - 1))%nat by lia.
    cbn [firstn]. left. reflexivity. }
  exact (clean_no_lf b H HI).
Qed.
Lemma cdoc_lf_last : forall d, cdoc d -> Forall lf_last d.
Proof.
  induction 1 as [|b Hb Hne|b d Hb Hd IH].
  - constructor.
  - constructor; [apply clean_lf_last; exact Hb|constructor].
  - constructor; [apply clean_lf_lf_last; exact Hb|exact IH].
Qed.

(* ---------- take16 / drop16 on a line split at a character boundary ---------- *)
Lemma drop16_skip_pre : forall pre suf i, drop16 i (i + len16s pre) (pre ++ suf) = suf.
Proof.
  induction pre as [|x pre IH]; intros suf i; cbn [app len16s].
  - apply drop16_all. lia.
  - cbn [drop16]. pose proof (len16_pos' x) as Hp.
    replace (i + (len16 x + len16s pre) <=? i) with false by (symmetry; apply N.leb_gt; lia).
    replace (i + (len16 x + len16s pre)) with (i + len16 x + len16s pre) by lia. apply IH.
Qed.
Lemma take16_exact : forall l x i, take16 i (i + len16s l) (l ++ x) = l.
Proof.
  induction l as [|c l IH]; intros x i; cbn [app len16s].
  - apply take16_none. lia.
  - cbn [take16]. pose proof (len16_pos' c) as Hp.
    replace (i <? i + (len16 c + len16s l)) with true by (symmetry; apply N.ltb_lt; lia).
    f_equal. replace (i + (len16 c + len16s l)) with (i + len16 c + len16s l) by lia. apply IH.
Qed.

Lemma skipn_skipn : forall (A : Type) (l : list A) a b, skipn a (skipn b l) = skipn (b + a) l.
Proof.
  intros A l a b. revert l. induction b as [|b IH]; intro l; [reflexivity|].
  destruct l as [|x l]; cbn [skipn Nat.add]; [destruct a; reflexivity|]. apply IH.
Qed.

Section Slice.
  Variable d : list (list char).
  Hypothesis HD : Forall lf_last d.

  Lemma line_of_lnat : forall st, line_of d (fst (r_pos st)) =
    match nth_error d (lnat st) with Some l => l | None => [] end.
  Proof. reflexivity. Qed.

  (* (b) the characters popped between two states are the text between their positions *)
  Theorem consumed_is_slice : forall l st st', RInv d st -> run d l st st' ->
    l = slice16 d (r_pos st) (r_pos st').
  Proof.
    intros l st st' HI R.
    pose proof (rinv_steps d _ _ _ (run_steps d _ _ _ R) HI) as HI'.
    pose proof (run_remaining d _ _ _ HD R HI) as E.
    pose proof (steps_ple d _ _ _ (run_steps d _ _ _ R)) as PL.
    unfold slice16. rewrite !line_of_lnat.
    assert (Hlines : (fst (r_pos st) =? fst (r_pos st')) = Nat.eqb (lnat st) (lnat st')).
    { unfold lnat. destruct (fst (r_pos st) =? fst (r_pos st')) eqn:EQ.
      - apply N.eqb_eq in EQ. rewrite EQ. symmetry. apply Nat.eqb_refl.
      - apply N.eqb_neq in EQ. symmetry. apply Nat.eqb_neq. lia. }
    assert (Hle : (lnat st <= lnat st')%nat).
    { unfold lnat, ple in *. apply orb_true_iff in PL. destruct PL as [PL|PL].
      - apply N.ltb_lt in PL. lia.
      - apply andb_true_iff in PL. destruct PL as [PL _]. apply N.eqb_eq in PL. lia. }
    rewrite Hlines. clear Hlines PL.
    destruct HI as [[pre [suf [Hl [Hi [Hc Hn]]]]]|[Hl [Hc Hi]]].
    - (* st inside line n *)
      assert (Rst : remaining d st = suf ++ concat (skipn (S (lnat st)) d)).
      { unfold remaining, get_line. fold (lnat st). rewrite Hl, Hi, after_idx_app. reflexivity. }
      rewrite Hl, Hc.
      destruct HI' as [[pre' [suf' [Hl' [Hi' [Hc' Hn']]]]]|[Hl' [Hc' Hi']]].
      + assert (Rst' : remaining d st' = suf' ++ concat (skipn (S (lnat st')) d)).
        { unfold remaining, get_line. fold (lnat st'). rewrite Hl', Hi', after_idx_app. reflexivity. }
        rewrite Hl', Hc'.
        destruct (Nat.eqb (lnat st) (lnat st')) eqn:EQ.
        * apply Nat.eqb_eq in EQ. rewrite <- EQ in *. rewrite Hl in Hl'. injection Hl' as Hl'.
          rewrite Rst, Rst' in E. rewrite app_assoc in E. apply app_inv_tail in E.
          assert (Hp : pre' = pre ++ l).
          { rewrite E in Hl'. rewrite app_assoc in Hl'. apply app_inv_tail in Hl'. symmetry. exact Hl'. }
          rewrite <- (N.add_0_l (len16s pre)) at 2. rewrite drop16_skip_pre.
          rewrite Hp, len16s_app, E. symmetry. apply take16_exact.
        * apply Nat.eqb_neq in EQ. assert (Hlt : (lnat st < lnat st')%nat) by lia.
          rewrite <- (N.add_0_l (len16s pre)). rewrite drop16_skip_pre.
          rewrite <- (N.add_0_l (len16s pre')). rewrite take16_exact.
          unfold lines_between. fold (lnat st').
          replace (N.to_nat (fst (r_pos st) + 1)) with (S (lnat st)) by (unfold lnat; lia).
          assert (Hsplit : skipn (S (lnat st)) d =
                           firstn (lnat st' - S (lnat st)) (skipn (S (lnat st)) d) ++ (pre' ++ suf') :: skipn (S (lnat st')) d).
          { rewrite <- (firstn_skipn (lnat st' - S (lnat st)) (skipn (S (lnat st)) d)) at 1. f_equal.
            rewrite skipn_skipn. replace (S (lnat st) + (lnat st' - S (lnat st)))%nat with (lnat st') by lia.
            apply skipn_nth_error. exact Hl'. }
          rewrite Rst, Rst', Hsplit in E. rewrite concat_app in E. cbn [concat] in E.
          rewrite <- !app_assoc in E.
          replace (l ++ suf' ++ concat (skipn (S (lnat st')) d)) with ((l ++ []) ++ suf' ++ concat (skipn (S (lnat st')) d)) in E
            by (rewrite app_nil_r; reflexivity).
          replace (suf ++ concat (firstn (lnat st' - S (lnat st)) (skipn (S (lnat st)) d)) ++ pre' ++ suf' ++ concat (skipn (S (lnat st')) d))
            with ((suf ++ concat (firstn (lnat st' - S (lnat st)) (skipn (S (lnat st)) d)) ++ pre') ++ suf' ++ concat (skipn (S (lnat st')) d)) in E
            by (rewrite <- !app_assoc; reflexivity).
          apply app_inv_tail in E. rewrite app_nil_r in E. symmetry. exact E.
      + (* st' behind the last line *)
        assert (Rst' : remaining d st' = []).
        { unfold remaining, get_line. fold (lnat st'). rewrite Hl'.
          replace (nth_error d (length d)) with (@None (list char)); [reflexivity|].
          symmetry. apply nth_error_None. lia. }
        assert (Hlt : (lnat st < length d)%nat) by (apply nth_error_Some; congruence).
        replace (Nat.eqb (lnat st) (lnat st')) with false by (symmetry; apply Nat.eqb_neq; lia).
        rewrite <- (N.add_0_l (len16s pre)). rewrite drop16_skip_pre.
        rewrite Hl'. replace (nth_error d (length d)) with (@None (list char))
          by (symmetry; apply nth_error_None; lia).
        cbn [take16]. rewrite app_nil_r.
        unfold lines_between. fold (lnat st').
        replace (N.to_nat (fst (r_pos st) + 1)) with (S (lnat st)) by (unfold lnat; lia).
        rewrite Hl'. rewrite firstn_all2 by (rewrite skipn_length; lia).
        rewrite Rst, Rst', app_nil_r in E. symmetry. exact E.
    - (* st behind the last line: nothing can be popped *)
      assert (Rst : remaining d st = []).
      { unfold remaining, get_line. fold (lnat st). rewrite Hl.
        replace (nth_error d (length d)) with (@None (list char)); [reflexivity|].
        symmetry. apply nth_error_None. lia. }
      rewrite Rst in E. symmetry in E. apply app_eq_nil in E. destruct E as [-> _].
      inversion R; subst. rewrite Nat.eqb_refl.
      symmetry. apply take16_none. lia.
  Qed.

  (* value_at on the columns of two states of the same line = the consumed characters, provided
     they are Latin-1: the `.unwrap()` in parse_bit_string cannot fail *)
  Lemma cut16_skip_pre : forall pre rest off a b, a < b -> off + len16s pre <= a ->
    cut16 (pre ++ rest) off a b = cut16 rest (off + len16s pre) a b.
  Proof.
    induction pre as [|x pre IH]; intros rest off a b Hab Hle; cbn [app len16s] in *.
    - f_equal. lia.
    - cbn [cut16]. cbv zeta. pose proof (len16_pos' x) as Hp.
      replace (off + len16 x <=? a) with true by (symmetry; apply N.leb_le; lia). cbn [orb].
      rewrite IH by lia. f_equal. lia.
  Qed.
  Lemma cut16_after : forall rest off a b, b <= off -> cut16 rest off a b = Some [].
  Proof.
    induction rest as [|x rest IH]; intros off a b H; cbn [cut16]; [reflexivity|]. cbv zeta.
    replace (b <=? off) with true by (symmetry; apply N.leb_le; lia). rewrite orb_true_r.
    apply IH. pose proof (len16_pos' x). lia.
  Qed.
  Lemma cut16_exact : forall l rest off a b, a <= off -> off + len16s l = b ->
    Forall (fun c => c < 256) l -> cut16 (l ++ rest) off a b = Some l.
  Proof.
    induction l as [|c l IH]; intros rest off a b Ha Hb HL; cbn [app len16s] in *.
    - apply cut16_after. lia.
    - inversion HL as [|c' l' Hc Hl]; subst c' l'. cbn [cut16]. cbv zeta.
      pose proof (len16_pos' c) as Hp.
      replace (off + len16 c <=? a) with false by (symmetry; apply N.leb_gt; lia).
      replace (b <=? off) with false by (symmetry; apply N.leb_gt; lia).
      cbn [orb].
      replace (a <=? off) with true by (symmetry; apply N.leb_le; lia).
      replace (off + len16 c <=? b) with true by (symmetry; apply N.leb_le; lia).
      cbn [andb]. unfold char_to_latin1.
      replace (c <? 256) with true by (symmetry; apply N.ltb_lt; exact Hc).
      rewrite (IH rest (off + len16 c) a b) by (try assumption; lia). reflexivity.
  Qed.

  Theorem value_at_consumed : forall l st st', RInv d st -> run d l st st' ->
    fst (r_pos st) = fst (r_pos st') -> l <> [] -> Forall (fun c => c < 256) l ->
    value_at d (fst (r_pos st')) (snd (r_pos st)) (snd (r_pos st')) = Some l.
  Proof.
    intros l st st' HI R Hline Hne HL.
    pose proof (rinv_steps d _ _ _ (run_steps d _ _ _ R) HI) as HI'.
    pose proof (run_remaining d _ _ _ HD R HI) as E.
    assert (Hn : lnat st' = lnat st) by (unfold lnat; rewrite Hline; reflexivity).
    destruct HI as [[pre [suf [Hl [Hi [Hc Hnl]]]]]|[Hl [Hc Hi]]].
    - assert (Rst : remaining d st = suf ++ concat (skipn (S (lnat st)) d)).
      { unfold remaining, get_line. fold (lnat st). rewrite Hl, Hi, after_idx_app. reflexivity. }
      destruct HI' as [[pre' [suf' [Hl' [Hi' [Hc' Hnl']]]]]|[Hl' [Hc' Hi']]].
      + assert (Rst' : remaining d st' = suf' ++ concat (skipn (S (lnat st')) d)).
        { unfold remaining, get_line. fold (lnat st'). rewrite Hl', Hi', after_idx_app. reflexivity. }
        rewrite Hn in *. rewrite Hl in Hl'. injection Hl' as Hl'.
        rewrite Rst, Rst' in E. rewrite app_assoc in E. apply app_inv_tail in E.
        assert (Hp : pre' = pre ++ l).
        { rewrite E in Hl'. rewrite app_assoc in Hl'. apply app_inv_tail in Hl'. symmetry. exact Hl'. }
        unfold value_at, get_line. fold (lnat st'). rewrite Hn, Hl, Hc, Hc', Hp, len16s_app.
        assert (Hpos : 1 <= len16s l).
        { destruct l as [|c l']; [congruence|]. cbn [len16s]. pose proof (len16_pos' c). lia. }
        replace (len16s pre + len16s l <=? len16s pre) with false by (symmetry; apply N.leb_gt; lia).
        rewrite E. rewrite cut16_skip_pre by lia. apply cut16_exact; [lia|lia|exact HL].
      + exfalso. assert (lnat st < length d)%nat by (apply nth_error_Some; congruence). lia.
    - exfalso. assert (Rst : remaining d st = []).
      { unfold remaining, get_line. fold (lnat st). rewrite Hl.
        replace (nth_error d (length d)) with (@None (list char)); [reflexivity|].
        symmetry. apply nth_error_None. lia. }
      rewrite Rst in E. symmetry in E. apply app_eq_nil in E. destruct E as [E _]. exact (Hne E).
  Qed.
End Slice.

(* for the line buffers produced by Contents::from_str *)
Theorem consumed_is_slice_text : forall s l st st',
  RInv (split_lines s) st -> run (split_lines s) l st st' ->
  l = slice_of_text s (r_pos st) (r_pos st').
Proof.
  intros s l st st' HI R. unfold slice_of_text.
  apply consumed_is_slice; [apply cdoc_lf_last, split_cdoc|exact HI|exact R].
Qed.
