(* Text/ReaderProofs.v — facts about the reader of Text/Reader.v that need no invariant:
   the "advance" relation (a state reached by popping characters), the termination
   measure `mu` (characters left), and monotonicity of positions.
   The reader invariant (idx/character consistency) and `consumed_is_slice` are in
   Text/ReaderInv.v. *)
From Coq Require Import List NArith Arith Bool Lia.
Import ListNotations.
From RH Require Import Text.Contents Text.Reader.
Open Scope N_scope.

#[local] Arguments N.add : simpl never.
#[local] Arguments N.sub : simpl never.
#[local] Arguments N.eqb : simpl never.
#[local] Arguments N.ltb : simpl never.
#[local] Arguments N.leb : simpl never.

Lemma len8_pos : forall c, 1 <= len8 c.
Proof.
  intro c. unfold len8.
  destruct (c <? 128); [lia|]. destruct (c <? 2048); [lia|]. destruct (c <? 65536); lia.
Qed.

Lemma len16_pos' : forall c, 1 <= len16 c.
Proof. intro c. unfold len16. destruct (c <? 65536); lia. Qed.

Lemma char_at_after : forall l i c,
  char_at l i = GChar c -> after_idx l i = c :: after_idx l (i + len8 c).
Proof.
  induction l as [|x l IH]; intros i c H; cbn [char_at after_idx] in *.
  - discriminate.
  - destruct (i =? 0) eqn:E0.
    + injection H as <-. apply N.eqb_eq in E0. subst i.
      pose proof (len8_pos x) as Hp.
      replace (0 + len8 x =? 0) with false by (symmetry; apply N.eqb_neq; lia).
      replace (0 + len8 x <? len8 x) with false by (symmetry; apply N.ltb_ge; lia).
      replace (0 + len8 x - len8 x) with 0 by lia.
      destruct l as [|y l']; cbn [after_idx]; [reflexivity|].
      rewrite N.eqb_refl. reflexivity.
    + destruct (i <? len8 x) eqn:E1; [discriminate|].
      apply N.eqb_neq in E0. apply N.ltb_ge in E1.
      pose proof (len8_pos c) as Hc.
      replace (i + len8 c =? 0) with false by (symmetry; apply N.eqb_neq; lia).
      replace (i + len8 c <? len8 x) with false by (symmetry; apply N.ltb_ge; lia).
      replace (i + len8 c - len8 x) with (i - len8 x + len8 c) by lia.
      apply IH. exact H.
Qed.

Lemma char_at_eof : forall l i, char_at l i = GEof -> after_idx l i = [].
Proof.
  induction l as [|x l IH]; intros i H; cbn [char_at after_idx] in *; [reflexivity|].
  destruct (i =? 0); [discriminate|]. destruct (i <? len8 x); [reflexivity|]. apply IH; exact H.
Qed.

Lemma after_idx_length : forall l i, (length (after_idx l i) <= length l)%nat.
Proof.
  induction l as [|x l IH]; intro i; cbn [after_idx length]; [lia|].
  destruct (i =? 0); [cbn [length]; lia|]. destruct (i <? len8 x); [cbn [length]; lia|].
  specialize (IH (i - len8 x)). lia.
Qed.

Lemma after_idx_0 : forall l, after_idx l 0 = l.
Proof. destruct l; cbn [after_idx]; [reflexivity|]. rewrite N.eqb_refl. reflexivity. Qed.

Lemma skipn_nth_error : forall (A : Type) (l : list A) n x,
  nth_error l n = Some x -> skipn n l = x :: skipn (S n) l.
Proof.
  induction l as [|y l IH]; intros n x H; destruct n; cbn in *; try discriminate.
  - injection H as <-. reflexivity.
  - apply IH. exact H.
Qed.

Lemma concat_skipn_length : forall (l : list (list char)) n,
  (length (concat (skipn n l)) <= length (concat l))%nat.
Proof.
  induction l as [|y l IH]; intro n; destruct n; cbn [skipn concat]; try lia.
  rewrite app_length. specialize (IH n). lia.
Qed.

Section RP.
  Variable d : list (list char).

  (* st' is reached from st by popping n characters *)
  Inductive steps : nat -> rstate -> rstate -> Prop :=
  | steps_0 : forall st, steps 0 st st
  | steps_S : forall n st c st', get_char d st = GChar c -> steps n (skip_char st c) st' ->
                                 steps (S n) st st'.
  Definition adv (st st' : rstate) : Prop := exists n, steps n st st'.
  Definition sadv (st st' : rstate) : Prop := exists n, steps (S n) st st'.

  (* characters left *)
  Definition mu (st : rstate) : nat := length (remaining d st).

  Lemma steps_trans : forall n st st', steps n st st' -> forall m st'', steps m st' st'' ->
    steps (n + m) st st''.
  Proof.
    induction 1 as [st|n st c st' G H IH]; intros m st'' H2; cbn [Nat.add]; [exact H2|].
    eapply steps_S; [exact G|]. apply IH. exact H2.
  Qed.

  Lemma adv_refl : forall st, adv st st.
  Proof. intro st. exists 0%nat. constructor. Qed.
  Lemma adv_trans : forall a b c, adv a b -> adv b c -> adv a c.
  Proof. intros a b c [n H1] [m H2]. exists (n + m)%nat. eapply steps_trans; eassumption. Qed.
  Lemma sadv_adv : forall a b, sadv a b -> adv a b.
  Proof. intros a b [n H]. exists (S n). exact H. Qed.
  Lemma sadv_adv_trans : forall a b c, sadv a b -> adv b c -> sadv a c.
  Proof.
    intros a b c [n H1] [m H2]. exists (n + m)%nat.
    change (S (n + m)) with (S n + m)%nat. eapply steps_trans; eassumption.
  Qed.
  Lemma adv_sadv_trans : forall a b c, adv a b -> sadv b c -> sadv a c.
  Proof.
    intros a b c [n H1] [m H2]. exists (n + m)%nat.
    replace (S (n + m)) with (n + S m)%nat by lia. eapply steps_trans; eassumption.
  Qed.
  Lemma adv_skip : forall st c, get_char d st = GChar c -> sadv st (skip_char st c).
  Proof. intros st c G. exists 0%nat. eapply steps_S; [exact G|constructor]. Qed.

  Lemma skip_mu : forall st c, get_char d st = GChar c -> (mu (skip_char st c) < mu st)%nat.
  Proof.
    intros [[ln col] idx] c G. unfold get_char in G. cbn [r_pos r_idx fst] in G.
    unfold mu, remaining, skip_char, move_after_char. cbn [r_pos r_idx fst snd].
    destruct (get_line d ln) as [l|] eqn:GL; [|discriminate].
    rewrite (char_at_after _ _ _ G). cbn [app length].
    destruct (c =? LF) eqn:EL; cbn [fst snd].
    - rewrite N.eqb_refl. unfold get_line in *.
      replace (N.to_nat (ln + 1)) with (S (N.to_nat ln)) by lia.
      destruct (nth_error d (S (N.to_nat ln))) as [l'|] eqn:GL'.
      + rewrite after_idx_0.
        rewrite (skipn_nth_error _ _ _ _ GL'). cbn [concat]. rewrite !app_length. lia.
      + cbn [length]. lia.
    - pose proof (len16_pos' c) as Hp.
      replace (col + len16 c =? 0) with false by (symmetry; apply N.eqb_neq; lia).
      rewrite GL. rewrite !app_length. lia.
  Qed.

  Lemma steps_mu : forall n st st', steps n st st' -> (mu st' + n <= mu st)%nat.
  Proof.
    induction 1 as [st|n st c st' G H IH]; [lia|].
    pose proof (skip_mu _ _ G). lia.
  Qed.
  Lemma adv_mu : forall st st', adv st st' -> (mu st' <= mu st)%nat.
  Proof. intros st st' [n H]. apply steps_mu in H. lia. Qed.
  Lemma sadv_mu : forall st st', sadv st st' -> (mu st' < mu st)%nat.
  Proof. intros st st' [n H]. apply steps_mu in H. lia. Qed.

  Lemma mu_total : forall st, (mu st <= length (concat d))%nat.
  Proof.
    intros [[ln col] idx]. unfold mu, remaining. cbn [r_pos r_idx fst].
    destruct (get_line d ln) as [l|] eqn:GL; [|cbn [length]; lia].
    unfold get_line in GL. rewrite app_length.
    pose proof (after_idx_length l idx) as H1.
    pose proof (concat_skipn_length d (N.to_nat ln)) as H2.
    rewrite (skipn_nth_error _ _ _ _ GL) in H2. cbn [concat] in H2. rewrite app_length in H2. lia.
  Qed.

  (* positions only move forward *)
  Lemma ple_refl : forall p, ple p p = true.
  Proof.
    intros [a b]. unfold ple. cbn [fst snd]. rewrite N.eqb_refl, N.leb_refl.
    rewrite orb_true_r. reflexivity.
  Qed.
  Lemma ple_trans : forall p q r, ple p q = true -> ple q r = true -> ple p r = true.
  Proof.
    intros [a b] [a' b'] [a'' b'']. unfold ple. cbn [fst snd]. intros H1 H2.
    apply orb_true_iff in H1. apply orb_true_iff in H2. apply orb_true_iff.
    rewrite !andb_true_iff, !N.ltb_lt, !N.eqb_eq, !N.leb_le in *. lia.
  Qed.
  Lemma plt_ple : forall p q, plt p q = true -> ple p q = true.
  Proof.
    intros [a b] [a' b']. unfold plt, ple. cbn [fst snd]. intro H.
    apply orb_true_iff in H. apply orb_true_iff.
    rewrite !andb_true_iff, !N.ltb_lt, !N.eqb_eq, !N.leb_le in *. lia.
  Qed.
  Lemma plt_ple_trans : forall p q r, plt p q = true -> ple q r = true -> plt p r = true.
  Proof.
    intros [a b] [a' b'] [a'' b'']. unfold plt, ple. cbn [fst snd]. intros H1 H2.
    apply orb_true_iff in H1. apply orb_true_iff in H2. apply orb_true_iff.
    rewrite !andb_true_iff, !N.ltb_lt, !N.eqb_eq, !N.leb_le in *. lia.
  Qed.
  Lemma ple_plt_trans : forall p q r, ple p q = true -> plt q r = true -> plt p r = true.
  Proof.
    intros [a b] [a' b'] [a'' b'']. unfold plt, ple. cbn [fst snd]. intros H1 H2.
    apply orb_true_iff in H1. apply orb_true_iff in H2. apply orb_true_iff.
    rewrite !andb_true_iff, !N.ltb_lt, !N.eqb_eq, !N.leb_le in *. lia.
  Qed.
  Lemma skip_plt : forall st c, plt (r_pos st) (r_pos (skip_char st c)) = true.
  Proof.
    intros [[ln col] idx] c. unfold skip_char, move_after_char, plt. cbn [r_pos fst snd].
    pose proof (len16_pos' c) as Hp.
    destruct (c =? LF); cbn [fst snd]; apply orb_true_iff;
      rewrite !andb_true_iff, !N.ltb_lt, !N.eqb_eq; lia.
  Qed.
  Lemma steps_ple : forall n st st', steps n st st' -> ple (r_pos st) (r_pos st') = true.
  Proof.
    induction 1 as [st|n st c st' G H IH]; [apply ple_refl|].
    eapply ple_trans; [apply plt_ple; apply skip_plt|exact IH].
  Qed.
  Lemma adv_ple : forall st st', adv st st' -> ple (r_pos st) (r_pos st') = true.
  Proof. intros st st' [n H]. eapply steps_ple; exact H. Qed.
  Lemma sadv_plt : forall st st', sadv st st' -> plt (r_pos st) (r_pos st') = true.
  Proof.
    intros st st' [n H]. inversion H as [|n' st0 c st0' G H' E1 E2 E3]; subst.
    eapply plt_ple_trans; [apply skip_plt|eapply steps_ple; exact H'].
  Qed.
End RP.
