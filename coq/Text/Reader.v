(* Text/Reader.v — executable model of `ContentReader` (vhdl_lang/src/data/contents.rs,
   l.209-395), of `Position::{move_after_char, after_char, next_char, prev_char}`
   (data/source.rs) and of the Latin-1 check `char_to_latin1` (data/latin_1.rs) over the
   line buffer of Text/Contents.v.

   The reader state is exactly the Rust `ReaderState { pos: Position{line, character}, idx }`:
   `character` counts UTF-16 code units, `idx` counts UTF-8 bytes inside line `line`.
   `get_char` looks the character up from (line, idx) only — that `character` and `idx`
   denote the same character boundary is NOT built in; it is the invariant `RInv` proved in
   Text/ReaderProofs.v.  Reading at an `idx` that is not a character boundary (undefined
   behaviour of `from_utf8_unchecked` in Rust) is the distinct outcome `GBad`, which the
   monadic operations turn into `Ab Crash`.

   All fallible operations live in the state-and-error monad
       M A := rstate -> res A * rstate
   where `res` has three arms: `Ok a`, `Er e` (a Rust `Err(TokenError)`; the reader keeps
   whatever it consumed, exactly like the `&mut ContentReader` of the Rust code) and
   `Ab a` (`OutOfFuel` of a fuelled loop, or `Crash` = a panic/UB of the modelled code).
   No proofs in this file. *)
From Coq Require Import List NArith Arith Bool.
Import ListNotations.
From RH Require Import Text.Contents.
Open Scope N_scope.

(* ---------- characters ---------- *)
Definition len8 (c : char) : N :=
  if c <? 128 then 1 else if c <? 2048 then 2 else if c <? 65536 then 3 else 4.

(* char_to_latin1: `Some` exactly for the code points below 256 (first UTF-8 byte < 0x80, or
   0xC2/0xC3 followed by a continuation byte, which covers U+0080..U+00FF) *)
Definition char_to_latin1 (c : char) : option N := if c <? 256 then Some c else None.

(* Latin1String::lowercase *)
Definition in_range (a b c : N) : bool := (a <=? c) && (c <=? b).
Definition lowercase (c : N) : N :=
  if c =? 215 then c
  else if in_range 65 90 c || in_range 192 214 c || in_range 216 222 c then c + 32
  else c.

(* ---------- positions ---------- *)
Definition position := (N * N)%type.            (* (line, character) *)
Definition pline (p : position) : N := fst p.
Definition pcol (p : position) : N := snd p.
Definition move_after_char (p : position) (c : char) : position :=
  if c =? LF then (fst p + 1, 0) else (fst p, snd p + len16 c).
Definition next_char (p : position) : position := (fst p, snd p + 1).
(* saturating_sub(1): subtraction on N truncates at 0 *)
Definition prev_char (p : position) : position := (fst p, snd p - 1).
(* derived Ord of Position: lexicographic *)
Definition ple (p q : position) : bool :=
  (fst p <? fst q) || ((fst p =? fst q) && (snd p <=? snd q)).
Definition plt (p q : position) : bool :=
  (fst p <? fst q) || ((fst p =? fst q) && (snd p <? snd q)).

(* ---------- reader state ---------- *)
Record rstate := { r_pos : position; r_idx : N }.
Definition rstart : rstate := {| r_pos := (0, 0); r_idx := 0 |}.

Inductive gchar := GEof | GChar (c : char) | GBad.

(* `bytes[idx..]` decoded: the character that starts at byte offset idx of the line *)
Fixpoint char_at (l : list char) (idx : N) : gchar :=
  match l with
  | [] => GEof
  | c :: t => if idx =? 0 then GChar c
              else if idx <? len8 c then GBad
              else char_at t (idx - len8 c)
  end.

(* diagnostics of the tokenizer: range + message kind (see Lex/LangLexer.v for the codes) *)
Inductive terr := TErr (s e : position) (code : N).
Inductive abort := OutOfFuel | Crash.
Inductive res (A : Type) := Ok (a : A) | Er (e : terr) | Ab (a : abort).
Arguments Ok {A}. Arguments Er {A}. Arguments Ab {A}.

Definition M (A : Type) : Type := rstate -> res A * rstate.
Definition ret {A} (a : A) : M A := fun st => (Ok a, st).
Definition throw {A} (e : terr) : M A := fun st => (Er e, st).
Definition stop {A} (a : abort) : M A := fun st => (Ab a, st).
Definition bind {A B} (m : M A) (k : A -> M B) : M B :=
  fun st => match m st with
            | (Ok a, st') => k a st'
            | (Er e, st') => (Er e, st')
            | (Ab a, st') => (Ab a, st')
            end.
(* a Rust `Result` kept in a local instead of being `?`-propagated *)
Definition try {A} (m : M A) : M (A + terr) :=
  fun st => match m st with
            | (Ok a, st') => (Ok (inl a), st')
            | (Er e, st') => (Ok (inr e), st')
            | (Ab a, st') => (Ab a, st')
            end.
Definition of_result {A} (r : A + terr) : M A :=
  match r with inl a => ret a | inr e => throw e end.

Declare Scope m_scope.
Delimit Scope m_scope with m.
Notation "x <- m ;; k" := (bind m (fun x => k))
  (at level 61, m at next level, right associativity) : m_scope.
Notation "' pat <- m ;; k" := (bind m (fun x => match x with pat => k end))
  (at level 61, pat pattern, m at next level, right associativity) : m_scope.
Notation "m1 ;;; k" := (bind m1 (fun _ => k))
  (at level 61, right associativity) : m_scope.
Open Scope m_scope.

Section Reader.
  Variable d : list (list char).     (* Contents.lines *)

  Definition get_line (n : N) : option (list char) := nth_error d (N.to_nat n).

  (* ContentReader::get_char *)
  Definition get_char (st : rstate) : gchar :=
    match get_line (fst (r_pos st)) with
    | Some l => char_at l (r_idx st)
    | None => GEof
    end.

  (* ContentReader::skip_char *)
  Definition skip_char (st : rstate) (c : char) : rstate :=
    let p := move_after_char (r_pos st) c in
    {| r_pos := p; r_idx := if snd p =? 0 then 0 else r_idx st + len8 c |}.

  Definition get_state : M rstate := fun st => (Ok st, st).
  Definition set_state (s : rstate) : M unit := fun _ => (Ok tt, s).
  Definition get_pos : M position := fun st => (Ok (r_pos st), st).

  (* peek_char / pop_char / skip *)
  Definition peek_char : M (option char) :=
    fun st => match get_char st with
              | GEof => (Ok None, st)
              | GChar c => (Ok (Some c), st)
              | GBad => (Ab Crash, st)
              end.
  Definition pop_char : M (option char) :=
    fun st => match get_char st with
              | GEof => (Ok None, st)
              | GChar c => (Ok (Some c), skip_char st c)
              | GBad => (Ab Crash, st)
              end.
  Definition skip : M unit := pop_char ;;; ret tt.

  Definition latin1_err (st : rstate) (c : char) : terr :=
    TErr (r_pos st) (move_after_char (r_pos st) c) 1.

  (* get / peek: an error does not consume *)
  Definition peek : M (option N) :=
    fun st => match get_char st with
              | GEof => (Ok None, st)
              | GChar c => match char_to_latin1 c with
                           | Some b => (Ok (Some b), st)
                           | None => (Er (latin1_err st c), st)
                           end
              | GBad => (Ab Crash, st)
              end.
  (* pop: consumes the character also when it is not Latin-1 *)
  Definition pop : M (option N) :=
    fun st => match get_char st with
              | GEof => (Ok None, st)
              | GChar c => match char_to_latin1 c with
                           | Some b => (Ok (Some b), skip_char st c)
                           | None => (Er (latin1_err st c), skip_char st c)
                           end
              | GBad => (Ab Crash, st)
              end.
  Definition pop_lowercase : M (option N) := b <- pop ;; ret (option_map lowercase b).
  Definition peek_lowercase : M (option N) := b <- peek ;; ret (option_map lowercase b).
  Definition skip_if (v : N) : M bool :=
    b <- peek ;;
    match b with
    | Some x => if x =? v then skip ;;; ret true else ret false
    | None => ret false
    end.

  (* value_at(line, start, stop): the UTF-16 units [start, stop) of the line, decoded;
     None when the cut splits a surrogate pair (String::from_utf16 fails) or the text has
     a character outside Latin-1 (Latin1String::from_utf8 fails) or the line is missing.
     `off` = UTF-16 offset of the head of l. *)
  Fixpoint cut16 (l : list char) (off start stop : N) : option (list N) :=
    match l with
    | [] => Some []
    | c :: t =>
        let e := off + len16 c in
        if (e <=? start) || (stop <=? off) then cut16 t e start stop       (* wholly outside *)
        else if (start <=? off) && (e <=? stop) then                        (* wholly inside *)
          match char_to_latin1 c, cut16 t e start stop with
          | Some b, Some r => Some (b :: r)
          | _, _ => None
          end
        else None                                                          (* lone surrogate *)
    end.
  Definition value_at (line start stop : N) : option (list N) :=
    match get_line line with
    | Some l => if stop <=? start then Some [] else cut16 l 0 start stop
    | None => None
    end.

  (* number of characters from the reader's cursor to the end of the text: the termination
     measure of every loop of the tokenizer *)
  Fixpoint after_idx (l : list char) (idx : N) : list char :=
    match l with
    | [] => []
    | c :: t => if idx =? 0 then l else if idx <? len8 c then [] else after_idx t (idx - len8 c)
    end.
  Definition remaining (st : rstate) : list char :=
    match get_line (fst (r_pos st)) with
    | Some l => after_idx l (r_idx st) ++ concat (skipn (S (N.to_nat (fst (r_pos st)))) d)
    | None => []
    end.
End Reader.
