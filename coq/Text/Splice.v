(* Text/Splice.v — the specification side of C10: LSP splice semantics on a plain
   string.  Positions are (line, UTF-16 column); lines of the plain string end at LF
   (the reference string is kept normalised); a column beyond the line's end denotes the
   line's end (before its terminator), a line beyond the last line the end of the text.
   No proofs in this file. *)
From Coq Require Import List NArith Arith Bool.
Import ListNotations.
From RH Require Import Text.Contents.
Open Scope N_scope.

Definition normalize (s : list char) : list char := concat (split_lines s).

(* number of characters of the current line (terminator excluded) whose accumulated
   UTF-16 length is < col *)
Fixpoint offset_col (col acc : N) (s : list char) : nat :=
  match s with
  | [] => 0%nat
  | c :: r => if c =? LF then 0%nat
              else if acc <? col then S (offset_col col (acc + len16 c) r) else 0%nat
  end.
(* character offset of position (l, col) in s *)
Fixpoint offset (l : nat) (col : N) (s : list char) : nat :=
  match l with
  | O => offset_col col 0 s
  | S l' => match s with
            | [] => 0%nat
            | c :: r => S (if c =? LF then offset l' col r else offset l col r)
            end
  end.
Definition offset_of (s : list char) (p : pos) : nat := offset (line p) (chr p) s.

Definition splice (s : list char) (a b : nat) (t : list char) : list char :=
  firstn a s ++ t ++ skipn b s.

(* one step of the reference: splice the RAW replacement text, then normalise *)
Definition spec_change (s : list char) (st en : pos) (t : list char) : list char :=
  normalize (splice s (offset_of s st) (offset_of s en) t).

Definition spec_edit (s : list char) (e : edit) : list char :=
  match e with
  | Full t => normalize t
  | Ranged st en t => spec_change s st en t
  end.
Definition spec_edits (s : list char) (es : list edit) : list char := fold_left spec_edit es s.

(* LSP-well-formed range *)
Definition wf_edit (e : edit) : bool :=
  match e with Full _ => true | Ranged st en _ => pos_leb st en end.
