(* Lex/RenderGaps.v — the text between two token texts (blanks, line breaks, comments) on the flat
   view of the reader: get_leading_comments reads exactly the comments of a well-formed gap (lead_gap),
   get_trailing_comment reads the `--` comment that directly follows a token (trailing_some) or nothing
   (trailing_none). *)
From Coq Require Import List NArith Arith Bool Lia ZifyBool ZifyN.
Import ListNotations.
From RH Require Import Text.Contents Text.ContentsProofs Text.Reader Text.ReaderProofs Text.ReaderInv
  Lex.LangLexer Lex.LangLexerProofs Lex.LexSpec Lex.Render Lex.RenderStream Lex.RenderArms.
Open Scope N_scope.
#[local] Arguments N.add : simpl never.
#[local] Arguments N.sub : simpl never.
#[local] Arguments N.mul : simpl never.
#[local] Arguments N.eqb : simpl never.
#[local] Arguments N.ltb : simpl never.
#[local] Arguments N.leb : simpl never.

(* ---------- gaps: the pieces between two token texts ---------- *)
Definition is_lex (p : piece) : bool := match p with PLex _ => true | _ => false end.
Fixpoint blanks_of (ps : list piece) : list char * list piece :=
  match ps with
  | PBlank c :: r => (c :: fst (blanks_of r), snd (blanks_of r))
  | _ => ([], ps)
  end.
Definition ckey (c : comment) : bool * list char := (c_multi c, c_val c).
(* well-formed gap: blanks are ' ' or LF; a `--` comment has no line break inside and is followed by a
   LF blank (or ends the whole text: `at_end`); a block comment has no `*/` inside *)
Fixpoint gap_wf (at_end : bool) (g : list piece) : bool :=
  match g with
  | [] => true
  | PBlank c :: r => ((c =? 32) || (c =? 10)) && gap_wf at_end r
  | PLine v :: r => forallb notlf v && (match r with [] => at_end | PBlank c :: _ => c =? 10 | _ => false end) && gap_wf at_end r
  | PBlock v :: r => negb (has_star_slash v) && gap_wf at_end r
  | PLex _ :: _ => false
  end.
(* the text behind a gap: empty, or a character at which get_leading_comments stops *)
Definition start_ok (txt : list char) : bool :=
  match txt with
  | [] => true
  | c :: r => (c <? 256) && negb (wsP true c) &&
              (if c =? 47 then hd_lat_b r && negb (hd_is r 42) else true) &&
              (if c =? 45 then hd_lat_b r && negb (hd_is r 45) else true)
  end.

Lemma blanks_of_text : forall ps, pieces_text ps = fst (blanks_of ps) ++ pieces_text (snd (blanks_of ps)).
Proof.
  induction ps as [|p ps IH]; [reflexivity|]. destruct p; try reflexivity. cbn [blanks_of fst snd pieces_text flat_map piece_text app].
  unfold pieces_text in IH. rewrite IH. reflexivity.
Qed.
Lemma blanks_of_length : forall ps, (length (snd (blanks_of ps)) <= length ps)%nat.
Proof. induction ps as [|p ps IH]; [cbn; lia|]. destruct p; cbn [blanks_of snd length]; lia. Qed.
Lemma blanks_of_ws : forall e ps, gap_wf e ps = true -> forallb (wsP true) (fst (blanks_of ps)) = true.
Proof.
  induction ps as [|p ps IH]; intro H; [reflexivity|]. destruct p; try reflexivity. cbn [blanks_of fst forallb].
  cbn [gap_wf] in H. apply andb_true_iff in H. destruct H as [Hc H]. rewrite (IH H). unfold wsP. rewrite andb_true_r.
  destruct (c =? 32), (c =? 10); try discriminate; cbn; rewrite ?orb_true_r; reflexivity.
Qed.
Lemma blanks_of_wf : forall e ps, gap_wf e ps = true -> gap_wf e (snd (blanks_of ps)) = true.
Proof.
  induction ps as [|p ps IH]; intro H; [reflexivity|]. destruct p; try exact H. cbn [blanks_of snd].
  cbn [gap_wf] in H. apply andb_true_iff in H. apply IH. apply H.
Qed.
Lemma blanks_of_keys : forall ps, gap_keys (snd (blanks_of ps)) = gap_keys ps.
Proof. induction ps as [|p ps IH]; [reflexivity|]. destruct p; try reflexivity. cbn [blanks_of snd gap_keys]. exact IH. Qed.
Lemma blanks_of_head : forall ps, match snd (blanks_of ps) with PBlank _ :: _ => False | _ => True end.
Proof. induction ps as [|p ps IH]; [exact I|]. destruct p; try exact I. cbn [blanks_of snd]. exact IH. Qed.

Section Gaps.
  Variable d : list (list char).
  Hypothesis HD : cdoc d.
  Variable F : nat.
  Hypothesis HF : (length (concat d) < F)%nat.
  Local Notation At := (At d).
  Lemma fuel_at : forall st r, At st r -> Nat.lt (length r) F.
  Proof. intros st r H. unfold Nat.lt. eapply Nat.le_lt_trans; [exact (at_len d _ _ H)|exact HF]. Qed.

  Lemma start_ok_nows : forall txt, start_ok txt = true -> match txt with [] => True | x :: _ => wsP true x = false end.
  Proof. intros [|c r] H; [exact I|]. cbn [start_ok] in H. destruct (wsP true c); [|reflexivity]. rewrite andb_false_r in H. discriminate. Qed.

  (* one iteration of get_leading_comments after its skip_whitespace *)
  Definition lc_rest (f : nat) (acc : list comment) : M (list comment) :=
    st <- get_state ;;
    ob <- pop d ;;
    match ob with
    | None => ret acc
    | Some b =>
      if b =? 47 then
        o2 <- pop d ;;
        if opt_is o2 42 then c <- parse_ml_comment d F ;; leading_comments d F f (acc ++ [c])
        else set_state st ;;; ret acc
      else if b =? 45 then
        o2 <- pop d ;;
        if opt_is o2 45 then c <- parse_comment d F ;; leading_comments d F f (acc ++ [c])
        else set_state st ;;; ret acc
      else set_state st ;;; ret acc
    end.
  Lemma lc_unfold : forall f acc, leading_comments d F (S f) acc = (skip_ws d F true ;;; lc_rest f acc).
  Proof. reflexivity. Qed.

  (* get_leading_comments stops at a text that does not start a comment *)
  Lemma lc_rest_stop : forall f acc st txt, At st txt -> start_ok txt = true -> lc_rest f acc st = (Ok acc, st).
  Proof.
    intros f acc st txt HA1 Hs. unfold lc_rest. unfold bind at 1. unfold get_state. unfold bind at 1.
    destruct txt as [|c r].
    - rewrite (pop_nil d HD _ HA1). reflexivity.
    - cbn [start_ok] in Hs. apply andb_true_iff in Hs. destruct Hs as [Hs H45]. apply andb_true_iff in Hs. destruct Hs as [Hs H47].
      apply andb_true_iff in Hs. destruct Hs as [Hc Hw].
      rewrite (pop_cons d HD _ _ _ HA1) by lia. cbv beta iota.
      pose proof (at_skip d HD _ _ _ HA1) as HA2.
      destruct (c =? 47) eqn:E47.
      + apply andb_true_iff in H47. destruct H47 as [L N42]. apply negb_true_iff in N42.
        unfold bind at 1. destruct r as [|y r].
        * rewrite (pop_nil d HD _ HA2). reflexivity.
        * cbn [hd_lat_b hd_is] in *. rewrite (pop_cons d HD _ _ _ HA2) by lia. cbn [opt_is]. rewrite N42. reflexivity.
      + destruct (c =? 45) eqn:E45.
        * apply andb_true_iff in H45. destruct H45 as [L N45]. apply negb_true_iff in N45.
          unfold bind at 1. destruct r as [|y r].
          -- rewrite (pop_nil d HD _ HA2). reflexivity.
          -- cbn [hd_lat_b hd_is] in *. rewrite (pop_cons d HD _ _ _ HA2) by lia. cbn [opt_is]. rewrite N45. reflexivity.
        * reflexivity.
  Qed.

  (* a `--` comment: the text v up to the line break *)
  Lemma parse_comment_line : forall st v rest, forallb notlf v = true ->
    match rest with [] => True | x :: _ => x = 10 end ->
    At st (v ++ rest) ->
    exists c st', parse_comment d F st = (Ok c, st') /\ At st' rest /\ c_val c = v /\ c_multi c = false.
  Proof.
    intros st v rest Hv Hr HA. pose proof (fuel_at _ _ HA) as Hf. unfold parse_comment. unfold bind at 1. unfold get_pos at 1. unfold bind at 1.
    destruct (take_to_nl_flat d HD F [] st _ HA Hf) as [st' [E HA']]. rewrite E.
    assert (SP : span notlf (v ++ rest) = (v, rest)).
    { apply span_all_stop; [exact Hv|]. destruct rest as [|x r]; [exact I|]. subst x. reflexivity. }
    rewrite SP in *. cbn [fst snd app] in *. unfold bind, get_pos, ret. eexists _, _. split; [reflexivity|].
    split; [exact HA'|]. split; reflexivity.
  Qed.
  Lemma parse_ml_block : forall st v rest, has_star_slash v = false ->
    At st (v ++ 42 :: 47 :: rest) ->
    exists c st', parse_ml_comment d F st = (Ok c, st') /\ At st' rest /\ c_val c = v /\ c_multi c = true.
  Proof.
    intros st v rest Hv HA. pose proof (fuel_at _ _ HA) as Hf. unfold parse_ml_comment. unfold bind at 1. unfold get_pos at 1. unfold bind at 1.
    destruct (ml_loop_body d HD v F [] st rest Hv HA Hf) as [st' [E HA']]. rewrite E. cbn [app].
    unfold bind, get_pos, ret. eexists _, _. split; [reflexivity|]. split; [exact HA'|]. split; reflexivity.
  Qed.

  Lemma lead_gap : forall n g tail fuel acc st,
    (length g <= n)%nat -> gap_wf (match tail with [] => true | _ => false end) g = true -> start_ok tail = true ->
    At st (pieces_text g ++ tail) -> (n < fuel)%nat ->
    exists cs st', leading_comments d F fuel acc st = (Ok (acc ++ cs), st') /\ At st' tail /\ map ckey cs = gap_keys g.
  Proof.
    induction n as [|n IH]; intros g tail fuel acc st Hn Hw Hs HA Hfu;
      (destruct fuel as [|fuel]; [lia|]); rewrite lc_unfold; unfold bind at 1;
      destruct (skip_ws_flat d HD F true st _ HA (fuel_at _ _ HA)) as [st1 [E HA1]]; rewrite E; cbv beta iota; clear E.
    - destruct g as [|p g]; [|cbn [length] in Hn; lia]. unfold pieces_text in *. cbn [flat_map app] in *.
      assert (SP : snd (span (wsP true) tail) = tail).
      { destruct tail as [|c r]; [reflexivity|]. cbn [span]. rewrite (start_ok_nows _ Hs). reflexivity. }
      rewrite SP in HA1. rewrite (lc_rest_stop fuel acc st1 tail HA1 Hs).
      exists [], st1. rewrite app_nil_r. split; [reflexivity|]. split; [exact HA1|reflexivity].
    - set (e := match tail with [] => true | _ => false end) in *.
      pose proof (blanks_of_text g) as BT. pose proof (blanks_of_ws e g Hw) as BW. pose proof (blanks_of_wf e g Hw) as BF.
      pose proof (blanks_of_keys g) as BK. pose proof (blanks_of_length g) as BL. pose proof (blanks_of_head g) as BH.
      destruct (blanks_of g) as [bl g1]. cbn [fst snd] in *. rewrite BT, <- app_assoc in HA1. rewrite <- BK.
      assert (Hnw : match pieces_text g1 ++ tail with [] => True | x :: _ => wsP true x = false end).
      { destruct g1 as [|p g2]; [cbn [pieces_text flat_map app]; apply start_ok_nows; exact Hs|].
        destruct p; try (exfalso; exact BH); try reflexivity. cbn [gap_wf] in BF. discriminate. }
      unfold char in *. rewrite (span_all_stop (wsP true) bl _ BW Hnw) in HA1. cbn [snd] in HA1.
      destruct g1 as [|p g2].
      + unfold pieces_text in *. cbn [flat_map app] in *. rewrite (lc_rest_stop fuel acc st1 tail HA1 Hs).
        exists [], st1. rewrite app_nil_r. split; [reflexivity|]. split; [exact HA1|reflexivity].
      + cbn [length] in BL. destruct p as [c|v|v|t]; [exfalso; exact BH| | |cbn [gap_wf] in BF; discriminate].
        * (* `--` comment *)
          cbn [gap_wf] in BF. apply andb_true_iff in BF. destruct BF as [BF Hw2]. apply andb_true_iff in BF. destruct BF as [Hv Hnx].
          unfold pieces_text in HA1. cbn [flat_map piece_text app] in HA1. fold (pieces_text g2) in HA1.
          unfold lc_rest. unfold bind at 1. unfold get_state. unfold bind at 1.
          rewrite (pop_cons d HD _ _ _ HA1) by lia. cbv beta iota. ev_closed. cbv iota.
          pose proof (at_skip d HD _ _ _ HA1) as HA2. unfold bind at 1. rewrite (pop_cons d HD _ _ _ HA2) by lia. cbn [opt_is]. ev_closed. cbv iota.
          pose proof (at_skip d HD _ _ _ HA2) as HA3. rewrite <- app_assoc in HA3.
          assert (Hrest : match pieces_text g2 ++ tail with [] => True | x :: _ => x = 10 end).
          { destruct g2 as [|p g3].
            - unfold e in Hnx. destruct tail; [exact I|discriminate].
            - destruct p; try discriminate. cbn [pieces_text flat_map piece_text app]. apply N.eqb_eq in Hnx. exact Hnx. }
          destruct (parse_comment_line _ v _ Hv Hrest HA3) as [c [st2 [E2 [HA4 [Ev Em]]]]].
          unfold bind at 1. rewrite E2.
          destruct (IH g2 tail fuel (acc ++ [c]) st2) as [cs [st' [E3 [HA' EK]]]]; try assumption; try lia.
          rewrite E3. exists (c :: cs), st'. rewrite <- app_assoc. split; [reflexivity|]. split; [exact HA'|].
          cbn [map gap_keys]. rewrite EK. unfold ckey. rewrite Ev, Em. reflexivity.
        * (* block comment *)
          cbn [gap_wf] in BF. apply andb_true_iff in BF. destruct BF as [Hv Hw2]. apply negb_true_iff in Hv.
          unfold pieces_text in HA1. cbn [flat_map piece_text app] in HA1. fold (pieces_text g2) in HA1.
          unfold lc_rest. unfold bind at 1. unfold get_state. unfold bind at 1.
          rewrite (pop_cons d HD _ _ _ HA1) by lia. cbv beta iota. ev_closed. cbv iota.
          pose proof (at_skip d HD _ _ _ HA1) as HA2. unfold bind at 1. rewrite (pop_cons d HD _ _ _ HA2) by lia. cbn [opt_is]. ev_closed. cbv iota.
          pose proof (at_skip d HD _ _ _ HA2) as HA3. rewrite <- !app_assoc in HA3. cbn [app] in HA3.
          destruct (parse_ml_block _ v _ Hv HA3) as [c [st2 [E2 [HA4 [Ev Em]]]]].
          unfold bind at 1. rewrite E2.
          destruct (IH g2 tail fuel (acc ++ [c]) st2) as [cs [st' [E3 [HA' EK]]]]; try assumption; try lia.
          rewrite E3. exists (c :: cs), st'. rewrite <- app_assoc. split; [reflexivity|]. split; [exact HA'|].
          cbn [map gap_keys]. rewrite EK. unfold ckey. rewrite Ev, Em. reflexivity.
  Qed.


  (* ---------- get_trailing_comment ---------- *)
  Definition trail_none_ok (txt : list char) : bool :=
    match txt with
    | [] => true
    | c :: r => (c <? 256) && negb (wsP false c) && (if c =? 45 then hd_lat_b r && negb (hd_is r 45) else true)
    end.
  Lemma trailing_none : forall st bl txt, forallb (wsP false) bl = true -> trail_none_ok txt = true ->
    At st (bl ++ txt) -> exists st', trailing_comment d F st = (Ok None, st') /\ At st' txt.
  Proof.
    intros st bl txt Hb Ht HA. unfold trailing_comment. unfold bind at 1.
    destruct (skip_ws_flat d HD F false st _ HA (fuel_at _ _ HA)) as [st1 [E HA1]]. rewrite E. cbv beta iota.
    assert (Hnw : match txt with [] => True | x :: _ => wsP false x = false end).
    { destruct txt as [|c r]; [exact I|]. cbn [trail_none_ok] in Ht. destruct (wsP false c); [|reflexivity].
      rewrite andb_false_r in Ht. discriminate. }
    unfold char in *. rewrite (span_all_stop (wsP false) bl txt Hb Hnw) in HA1. cbn [snd] in HA1.
    unfold bind at 1. unfold get_state. unfold bind at 1. destruct txt as [|c r].
    - rewrite (pop_nil d HD _ HA1). cbn [opt_is]. unfold bind, set_state, ret. eexists. split; [reflexivity|exact HA1].
    - cbn [trail_none_ok] in Ht. apply andb_true_iff in Ht. destruct Ht as [Ht H45]. apply andb_true_iff in Ht. destruct Ht as [Hc _].
      rewrite (pop_cons d HD _ _ _ HA1) by lia. cbn [opt_is]. destruct (c =? 45) eqn:E45.
      + apply andb_true_iff in H45. destruct H45 as [L N45]. apply negb_true_iff in N45.
        pose proof (at_skip d HD _ _ _ HA1) as HA2. unfold bind at 1. destruct r as [|y r].
        * rewrite (pop_nil d HD _ HA2). cbn [opt_is]. unfold bind, set_state, ret. eexists. split; [reflexivity|exact HA1].
        * cbn [hd_lat_b hd_is] in *. rewrite (pop_cons d HD _ _ _ HA2) by lia. cbn [opt_is]. rewrite N45.
          unfold bind, set_state, ret. eexists. split; [reflexivity|exact HA1].
      + unfold bind, set_state, ret. eexists. split; [reflexivity|exact HA1].
  Qed.
  Lemma trailing_some : forall st bl v rest, forallb (wsP false) bl = true -> forallb notlf v = true ->
    match rest with [] => True | x :: _ => x = 10 end ->
    At st (bl ++ 45 :: 45 :: v ++ rest) ->
    exists c st', trailing_comment d F st = (Ok (Some c), st') /\ At st' rest /\ c_val c = v /\ c_multi c = false.
  Proof.
    intros st bl v rest Hb Hv Hr HA. unfold trailing_comment. unfold bind at 1.
    destruct (skip_ws_flat d HD F false st _ HA (fuel_at _ _ HA)) as [st1 [E HA1]]. rewrite E. cbv beta iota.
    unfold char in *. rewrite (span_all_stop (wsP false) bl (45 :: 45 :: v ++ rest) Hb eq_refl) in HA1. cbn [snd] in HA1.
    unfold bind at 1. unfold get_state. unfold bind at 1.
    rewrite (pop_cons d HD _ _ _ HA1) by lia. cbn [opt_is]. ev_closed. cbv iota.
    pose proof (at_skip d HD _ _ _ HA1) as HA2. unfold bind at 1. rewrite (pop_cons d HD _ _ _ HA2) by lia. cbn [opt_is]. ev_closed. cbv iota.
    destruct (parse_comment_line _ v rest Hv Hr (at_skip d HD _ _ _ HA2)) as [c [st2 [E2 [HA4 [Ev Em]]]]].
    unfold bind. rewrite E2. unfold ret. exists c, st2. split; [reflexivity|]. split; [exact HA4|]. split; assumption.
  Qed.
End Gaps.
