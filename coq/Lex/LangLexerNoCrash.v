(* Lex/LangLexerNoCrash.v — the tokenizer model never takes a `Crash` branch: no read inside a
   multi-byte character (reader invariant), the `unwrap`s of `peek` in the integer-exponent arm and
   of `value_at` in parse_bit_string cannot fail.  Together with lex_total: `lex_all s` is always
   `Done toks diags`. *)
From Coq Require Import List NArith Arith Bool Lia.
Import ListNotations.
From RH Require Import Text.Contents Text.ContentsProofs Text.Reader Text.ReaderProofs Text.ReaderInv
  Lex.LangLexer Lex.LexSpec Lex.LangLexerProofs.
Open Scope N_scope.

#[local] Arguments N.add : simpl never.
#[local] Arguments N.sub : simpl never.
#[local] Arguments N.mul : simpl never.
#[local] Arguments N.eqb : simpl never.
#[local] Arguments N.ltb : simpl never.
#[local] Arguments N.leb : simpl never.
#[local] Arguments N.pow : simpl never.
#[local] Arguments N.modulo : simpl never.

Section NC.
  Variable d : list (list char).
  Local Notation RInv := (RInv d).

  (* from an invariant state: no crash, and the invariant holds afterwards *)
  Definition nocr {A} (m : M A) : Prop :=
    forall st r st', RInv st -> m st = (r, st') -> r <> Ab Crash /\ RInv st'.

  Lemma nocr_ret : forall A (a : A), nocr (ret a).
  Proof. intros A a st r st' HI H. unfold ret in H. injection H as <- <-. split; [discriminate|exact HI]. Qed.
  Lemma nocr_throw : forall A e, nocr (@throw A e).
  Proof. intros A e st r st' HI H. unfold throw in H. injection H as <- <-. split; [discriminate|exact HI]. Qed.
  Lemma nocr_fuel : forall A, nocr (@stop A OutOfFuel).
  Proof. intros A st r st' HI H. unfold stop in H. injection H as <- <-. split; [discriminate|exact HI]. Qed.
  Lemma nocr_bind : forall A B (m : M A) (k : A -> M B), nocr m -> (forall a, nocr (k a)) -> nocr (bind m k).
  Proof.
    intros A B m k Hm Hk st r st' HI H. unfold bind in H.
    destruct (m st) as [[a|e|a] st1] eqn:Em; destruct (Hm _ _ _ HI Em) as [N1 I1].
    - eapply Hk; eassumption.
    - injection H as <- <-. split; [discriminate|exact I1].
    - injection H as <- <-. split; [|exact I1]. intro E. apply N1. congruence.
  Qed.
  Lemma nocr_try : forall A (m : M A), nocr m -> nocr (try m).
  Proof.
    intros A m Hm st r st' HI H. unfold try in H.
    destruct (m st) as [[a|e|a] st1] eqn:Em; destruct (Hm _ _ _ HI Em) as [N1 I1]; injection H as <- <-;
      (split; [|exact I1]); try discriminate.
    intro E. apply N1. congruence.
  Qed.
  Lemma nocr_of_result : forall A (r : A + terr), nocr (of_result r).
  Proof. intros A [a|e]; [apply nocr_ret|apply nocr_throw]. Qed.
  Lemma nocr_get_pos : nocr get_pos.
  Proof. intros st r st' HI H. unfold get_pos in H. injection H as <- <-. split; [discriminate|exact HI]. Qed.
  Lemma nocr_get_state : nocr get_state.
  Proof. intros st r st' HI H. unfold get_state in H. injection H as <- <-. split; [discriminate|exact HI]. Qed.
  Lemma nocr_get_state_bind : forall B (k : rstate -> M B),
    (forall s, RInv s -> nocr (k s)) -> nocr (bind get_state k).
  Proof. intros B k Hk st r st' HI H. unfold bind, get_state in H. eapply (Hk st HI); eassumption. Qed.
  Lemma nocr_set_state : forall s, RInv s -> nocr (set_state s).
  Proof. intros s Hs st r st' HI H. unfold set_state in H. injection H as <- <-. split; [discriminate|exact Hs]. Qed.

  Lemma nocr_peek_char : nocr (peek_char d).
  Proof.
    intros st r st' HI H. apply peek_char_inv in H. destruct H as [-> H]. split; [|exact HI].
    destruct H as [[-> _]|[[c [-> _]]|[_ G]]]; try discriminate. exfalso. exact (rinv_not_bad d st HI G).
  Qed.
  Lemma nocr_pop_char : nocr (pop_char d).
  Proof.
    intros st r st' HI H. apply pop_char_inv in H.
    destruct H as [[-> [-> _]]|[[c [-> [G ->]]]|[_ [_ G]]]].
    - split; [discriminate|exact HI].
    - split; [discriminate|apply rinv_skip; assumption].
    - exfalso. exact (rinv_not_bad d st HI G).
  Qed.
  Lemma nocr_peek : nocr (peek d).
  Proof.
    intros st r st' HI H. apply peek_inv in H. destruct H as [-> H]. split; [|exact HI].
    destruct H as [[-> _]|[[c [-> _]]|[[c [e [-> _]]]|[_ G]]]]; try discriminate.
    exfalso. exact (rinv_not_bad d st HI G).
  Qed.
  Lemma nocr_pop : nocr (pop d).
  Proof.
    intros st r st' HI H. apply pop_inv in H.
    destruct H as [[-> [-> _]]|[[c [G [-> Hr]]]|[_ [_ G]]]].
    - split; [discriminate|exact HI].
    - split; [destruct Hr as [->|[e ->]]; discriminate|apply rinv_skip; assumption].
    - exfalso. exact (rinv_not_bad d st HI G).
  Qed.
End NC.

#[export] Hint Resolve nocr_ret nocr_throw nocr_fuel nocr_of_result nocr_get_pos nocr_get_state nocr_peek_char
  nocr_pop_char nocr_peek nocr_pop : nocr_db.

Ltac nocr_step :=
  match goal with
  | |- nocr _ (bind get_state _) => apply nocr_get_state_bind; intros ? ?
  | |- nocr _ (bind _ _) => apply nocr_bind; [|intro]
  | |- nocr _ (try _) => apply nocr_try
  | |- nocr _ (set_state _) => apply nocr_set_state; assumption
  | |- nocr _ (match ?x with _ => _ end) => destruct x
  | |- nocr _ (let _ := _ in _) => cbv zeta
  | |- nocr _ _ => solve [eauto with nocr_db]
  end.
Ltac nocr_tac := repeat nocr_step.

Section LexNC.
  Variable d : list (list char).
  Variable kws : list (list N).
  Variable F : nat.
  Variable fixed : bool.
  Local Notation nocr := (nocr d).
  Local Notation RInv := (RInv d).

  Lemma nocr_skip : nocr (skip d).
  Proof. unfold skip. nocr_tac. Qed.
  Hint Resolve nocr_skip : nocr_db.
  Lemma nocr_pop_lowercase : nocr (pop_lowercase d).
  Proof. unfold pop_lowercase. nocr_tac. Qed.
  Lemma nocr_peek_lowercase : nocr (peek_lowercase d).
  Proof. unfold peek_lowercase. nocr_tac. Qed.
  Lemma nocr_skip_if : forall v, nocr (skip_if d v).
  Proof. intro. unfold skip_if. nocr_tac. Qed.
  Hint Resolve nocr_pop_lowercase nocr_peek_lowercase nocr_skip_if : nocr_db.

  Lemma nocr_parse_integer_loop : forall fuel base stp acc txt big inv,
    nocr (parse_integer_loop d fuel base stp acc txt big inv).
  Proof. induction fuel as [|f IH]; intros; cbn [parse_integer_loop]; nocr_tac. Qed.
  Hint Resolve nocr_parse_integer_loop : nocr_db.
  Lemma nocr_parse_integer : forall base stp, nocr (parse_integer d F base stp).
  Proof. intros. unfold parse_integer. nocr_tac. Qed.
  Hint Resolve nocr_parse_integer : nocr_db.
  Lemma nocr_parse_exponent : nocr (parse_exponent d F).
  Proof. unfold parse_exponent. nocr_tac. Qed.
  Hint Resolve nocr_parse_exponent : nocr_db.
  Lemma nocr_quoted_loop : forall fuel q buf multi, nocr (quoted_loop d fuel q buf multi).
  Proof. induction fuel as [|f IH]; intros; cbn [quoted_loop]; nocr_tac. Qed.
  Lemma nocr_quoted_recover : forall fuel q, nocr (quoted_recover d fuel q).
  Proof. induction fuel as [|f IH]; intros; cbn [quoted_recover]; nocr_tac. Qed.
  Hint Resolve nocr_quoted_loop nocr_quoted_recover : nocr_db.
  Lemma nocr_parse_quoted : forall q incl, nocr (parse_quoted d F q incl).
  Proof. intros. unfold parse_quoted. nocr_tac. Qed.
  Hint Resolve nocr_parse_quoted : nocr_db.
  Lemma nocr_take_to_nl : forall fuel acc, nocr (take_to_nl d fuel acc).
  Proof. induction fuel as [|f IH]; intros; cbn [take_to_nl]; nocr_tac. Qed.
  Hint Resolve nocr_take_to_nl : nocr_db.
  Lemma nocr_parse_comment : nocr (parse_comment d F).
  Proof. unfold parse_comment. nocr_tac. Qed.
  Lemma nocr_ml_loop : forall fuel acc, nocr (ml_loop d fuel acc).
  Proof. induction fuel as [|f IH]; intros; cbn [ml_loop]; nocr_tac. Qed.
  Hint Resolve nocr_parse_comment nocr_ml_loop : nocr_db.
  Lemma nocr_parse_ml_comment : nocr (parse_ml_comment d F).
  Proof. unfold parse_ml_comment. nocr_tac. Qed.
  Lemma nocr_skip_ws : forall fuel nl, nocr (skip_ws d fuel nl).
  Proof. induction fuel as [|f IH]; intros; cbn [skip_ws]; nocr_tac. Qed.
  Hint Resolve nocr_parse_ml_comment nocr_skip_ws : nocr_db.
  Lemma nocr_leading_comments : forall fuel acc, nocr (leading_comments d F fuel acc).
  Proof. induction fuel as [|f IH]; intros; cbn [leading_comments]; nocr_tac. Qed.
  Lemma nocr_trailing_comment : nocr (trailing_comment d F).
  Proof. unfold trailing_comment. nocr_tac. Qed.
  Lemma nocr_bs_second : forall off, nocr (bs_second d off).
  Proof. intro. unfold bs_second. nocr_tac. Qed.
  Hint Resolve nocr_bs_second : nocr_db.
  Lemma nocr_parse_base_specifier : nocr (parse_base_specifier d).
  Proof. unfold parse_base_specifier. nocr_tac. Qed.
  Lemma nocr_maybe_base_specifier : nocr (maybe_base_specifier d fixed).
  Proof.
    intros st r st' HI H. unfold maybe_base_specifier in H.
    destruct (parse_base_specifier d st) as [[[v|]|e|a] st1] eqn:E;
      destruct (nocr_parse_base_specifier _ _ _ HI E) as [N1 I1].
    - injection H as <- <-. split; [discriminate|exact I1].
    - injection H as <- <-. split; [discriminate|exact HI].
    - destruct fixed; injection H as <- <-; (split; [discriminate|exact HI]).
    - injection H as <- <-. split; [|exact HI]. intro E2. apply N1. congruence.
  Qed.
  Lemma nocr_ident_loop : forall fuel acc, nocr (ident_loop d fuel acc).
  Proof. induction fuel as [|f IH]; intros; cbn [ident_loop]; nocr_tac. Qed.
  Hint Resolve nocr_ident_loop : nocr_db.
  Lemma nocr_parse_basic_identifier_or_keyword : nocr (parse_basic_identifier_or_keyword d kws F).
  Proof. unfold parse_basic_identifier_or_keyword. nocr_tac. Qed.
  Lemma nocr_real_loop : forall fuel txt dg, nocr (real_loop d fuel txt dg).
  Proof. induction fuel as [|f IH]; intros; cbn [real_loop]; nocr_tac. Qed.
  Hint Resolve nocr_real_loop : nocr_db.
  Lemma nocr_parse_real_literal : nocr (parse_real_literal d F).
  Proof. unfold parse_real_literal. nocr_tac. Qed.
  Hint Resolve nocr_parse_real_literal : nocr_db.
  Lemma nocr_abs_real : forall st0 pai ini, RInv st0 -> nocr (abs_real d F st0 pai ini).
  Proof. intros. unfold abs_real, abs_real_gen. nocr_tac. Qed.
  Lemma nocr_abs_based : forall dl p0 p1 ini, nocr (abs_based d F dl p0 p1 ini).
  Proof. intros. unfold abs_based. nocr_tac. Qed.
  Lemma nocr_colon_lookahead : nocr (colon_lookahead d).
  Proof. unfold colon_lookahead. nocr_tac. Qed.
  Lemma nocr_colon_starts_based_literal : nocr (colon_starts_based_literal d).
  Proof.
    intros st r st' HI H. unfold colon_starts_based_literal in H.
    destruct (colon_lookahead d st) as [[[[n|]|e]|e|a] st1] eqn:E;
      destruct (nocr_colon_lookahead _ _ _ HI E) as [N1 _]; injection H as <- <-;
      (split; [|exact HI]); try discriminate.
    intro E2. apply N1. congruence.
  Qed.
  Lemma nocr_abs_plain : forall ini, nocr (abs_plain ini).
  Proof. intros. unfold abs_plain. nocr_tac. Qed.
  Lemma nocr_char_lookahead : nocr (char_lookahead d).
  Proof. unfold char_lookahead. nocr_tac. Qed.
  Lemma nocr_parse_character_literal : nocr (parse_character_literal d).
  Proof.
    intros st r st' HI H. unfold parse_character_literal in H.
    destruct (char_lookahead d st) as [[[v|]|e|a] st1] eqn:E;
      destruct (nocr_char_lookahead _ _ _ HI E) as [N1 I1]; injection H as <- <-.
    - split; [discriminate|exact I1].
    - split; [discriminate|exact HI].
    - split; [discriminate|exact HI].
    - split; [|exact HI]. intro E2. apply N1. congruence.
  Qed.
  Lemma nocr_until_nl : forall fuel acc, nocr (until_nl d fuel acc).
  Proof. induction fuel as [|f IH]; intros; cbn [until_nl]; nocr_tac. Qed.
End LexNC.

(* ---------------------------------------------------------------------------------------- *)
(* value_at in parse_bit_string: the literal was consumed on one line and is Latin-1          *)
(* ---------------------------------------------------------------------------------------- *)
Section BitString.
  Variable d : list (list char).
  Variable kws : list (list N).
  Variable F : nat.
  Hypothesis HD : Forall lf_last d.
  Local Notation RInv := (RInv d).
  Local Notation run := (run d).

  Definition okch (c : char) : Prop := c < 256 /\ c <> LF.
  (* st' is reached from st by popping the characters l, all Latin-1 and none a line feed *)
  Definition lrun (l : list char) (st st' : rstate) : Prop := run l st st' /\ Forall okch l.

  Lemma run_app : forall l1 a b, run l1 a b -> forall l2 c, run l2 b c -> run (l1 ++ l2) a c.
  Proof. induction 1 as [st|c l st st' G H IH]; intros l2 c2 H2; cbn [app]; [exact H2|]. econstructor; [exact G|apply IH; exact H2]. Qed.
  Lemma lrun_refl : forall st, lrun [] st st.
  Proof. intro st. split; constructor. Qed.
  Lemma lrun_trans : forall l1 l2 a b c, lrun l1 a b -> lrun l2 b c -> lrun (l1 ++ l2) a c.
  Proof. intros l1 l2 a b c [R1 F1] [R2 F2]. split; [eapply run_app; eassumption|apply Forall_app; auto]. Qed.
  Lemma lrun_skip : forall st c, get_char d st = GChar c -> okch c -> lrun [c] st (skip_char st c).
  Proof. intros st c G H. split; [econstructor; [exact G|constructor]|constructor; [exact H|constructor]]. Qed.

  Lemma run_same_line : forall l st st', run l st st' -> ~ In LF l -> fst (r_pos st') = fst (r_pos st).
  Proof.
    induction 1 as [st|c l st st' G H IH]; intro Hn; [reflexivity|].
    rewrite IH by (intro HI; apply Hn; right; exact HI).
    unfold skip_char, move_after_char. cbn [r_pos].
    destruct (c =? LF) eqn:E; [|reflexivity]. exfalso. apply Hn. left. apply N.eqb_eq in E. auto.
  Qed.
  Lemma okch_no_lf : forall l, Forall okch l -> ~ In LF l.
  Proof. intros l H HI. rewrite Forall_forall in H. destruct (H _ HI) as [_ E]. apply E. reflexivity. Qed.
  Lemma okch_latin1 : forall l, Forall okch l -> Forall (fun c => c < 256) l.
  Proof. intros l H. eapply Forall_impl; [|exact H]. intros c [L _]. exact L. Qed.

  Lemma pop_ok_some : forall st x st1, pop d st = (Ok (Some x), st1) ->
    get_char d st = GChar x /\ x < 256 /\ st1 = skip_char st x.
  Proof.
    intros st x st1 H. apply pop_cases in H.
    destruct H as [[_ [E _]]|[[c [G [-> [[L E]|[e E]]]]]|[_ [E _]]]]; try discriminate.
    injection E as <-. split; [exact G|]. split; [apply N.ltb_lt; exact L|reflexivity].
  Qed.
  Lemma pop_ok_none : forall st st1, pop d st = (Ok None, st1) -> st1 = st.
  Proof.
    intros st st1 H. apply pop_cases in H.
    destruct H as [[_ [_ E]]|[[c [G [-> [[L E]|[e E]]]]]|[_ [E _]]]]; try discriminate. exact E.
  Qed.
  Lemma pop_lowercase_ok_some : forall st x st1, pop_lowercase d st = (Ok (Some x), st1) ->
    exists c, get_char d st = GChar c /\ c < 256 /\ x = lowercase c /\ st1 = skip_char st c.
  Proof.
    intros st x st1 H. unfold pop_lowercase in H. apply bind_ok_inv in H. destruct H as [ob [st2 [P R]]].
    unfold ret in R. injection R as R <-. destruct ob as [c|]; cbn [option_map] in R; [|discriminate].
    injection R as <-. destruct (pop_ok_some _ _ _ P) as [G [L E]]. exists c. auto.
  Qed.
  Lemma lowercase_lf : forall c, lowercase c <> 10 -> c <> LF.
  Proof. intros c H E. apply H. subst c. reflexivity. Qed.

  Lemma hex_not_lf : forall b, is_hex b = true -> b <> LF.
  Proof.
    intros b H E. subst b. discriminate.
  Qed.
  Lemma alpha_not_lf : forall b, is_alpha b = true -> b <> LF.
  Proof. intros b H E. subst b. discriminate. Qed.

  (* parse_integer: on success everything consumed is a digit, letter or underscore *)
  Lemma parse_integer_loop_lrun : forall fuel base stp acc txt big inv st y st1,
    parse_integer_loop d fuel base stp acc txt big inv st = (Ok y, st1) -> exists l, lrun l st st1.
  Proof.
    induction fuel as [|f IH]; intros base stp acc txt big inv st y st1 H; cbn [parse_integer_loop] in H; [discriminate|].
    apply bind_ok_inv in H. destruct H as [ob [st2 [P H]]].
    destruct ob as [b|].
    - destruct (peek_some_inv _ _ _ _ P) as [-> [G L]]. apply N.ltb_lt in L.
      destruct (stp && stop_suffix b).
      + unfold ret in H. injection H as _ <-. exists []. apply lrun_refl.
      + assert (Hstep : forall K : M (option N * list N * option position * option position),
                  (forall stx y' st1', K stx = (Ok y', st1') -> exists l, lrun l stx st1') -> b <> LF ->
                  (skip d ;;; K)%m st = (Ok y, st1) -> exists l, lrun l st st1).
        { intros K HK Hb E. unfold bind in E. rewrite (skip_at _ _ _ G) in E.
          destruct (HK _ _ _ E) as [l Hl]. exists ([b] ++ l). eapply lrun_trans; [|exact Hl].
          apply lrun_skip; [exact G|split; assumption]. }
        destruct (is_hex b) eqn:Eh.
        * apply bind_ok_inv in H. destruct H as [p [st3 [GP H]]]. unfold get_pos in GP. injection GP as <- <-.
          cbv zeta in H. eapply Hstep; [|apply hex_not_lf; exact Eh|exact H].
          intros stx y' st1' E. eapply IH; exact E.
        * destruct (b =? 95) eqn:E95.
          -- eapply Hstep; [|apply N.eqb_eq in E95; subst b; discriminate|exact H].
             intros stx y' st1' E. eapply IH; exact E.
          -- destruct (is_alpha b) eqn:Ea.
             ++ apply bind_ok_inv in H. destruct H as [p [st3 [GP H]]]. unfold get_pos in GP. injection GP as <- <-.
                eapply Hstep; [|apply alpha_not_lf; exact Ea|exact H].
                intros stx y' st1' E. eapply IH; exact E.
             ++ unfold ret in H. injection H as _ <-. exists []. apply lrun_refl.
    - assert (st2 = st) by (apply peek_inv in P; tauto). subst st2.
      unfold ret in H. injection H as _ <-. exists []. apply lrun_refl.
  Qed.
  Lemma parse_integer_lrun : forall base stp st x st1,
    parse_integer d F base stp st = (Ok x, st1) -> exists l, lrun l st st1.
  Proof.
    intros base stp st x st1 H. unfold parse_integer in H.
    apply bind_ok_inv in H. destruct H as [p [st2 [GP H]]]. unfold get_pos in GP. injection GP as <- <-.
    apply bind_ok_inv in H. destruct H as [[[[acc txt] big] inv] [st3 [PL H]]].
    destruct (parse_integer_loop_lrun _ _ _ _ _ _ _ _ _ _ PL) as [l Hl].
    assert (st1 = st3).
    { destruct inv as [q|]; [discriminate|]. destruct big as [q|]; [discriminate|].
      destruct acc as [v|].
      - unfold ret in H. injection H as _ <-. reflexivity.
      - apply bind_ok_inv in H. destruct H as [e [st4 [_ H]]]. discriminate. }
    subst st1. exists l. exact Hl.
  Qed.

  (* parse_quoted: on success the string was closed on the same line and is Latin-1 *)
  Lemma quoted_loop_lrun : forall fuel q buf multi st buf' found st1, q <> LF ->
    quoted_loop d fuel q buf multi st = (Ok (buf', false, found), st1) ->
    multi = false /\ exists l, lrun l st st1.
  Proof.
    induction fuel as [|f IH]; intros q buf multi st buf' found st1 Hq H; cbn [quoted_loop] in H; [discriminate|].
    apply bind_ok_inv in H. destruct H as [oc [st2 [P H]]].
    destruct oc as [c|].
    - destruct (pop_ok_some _ _ _ P) as [G [L ->]].
      assert (Hc : forall l' stx, (multi || (c =? 10)) = false -> lrun l' (skip_char st c) stx ->
                   multi = false /\ exists l, lrun l st stx).
      { intros l' stx Hm Hl. apply orb_false_iff in Hm. destruct Hm as [Hm Hc]. split; [exact Hm|].
        exists ([c] ++ l'). eapply lrun_trans; [|exact Hl]. apply lrun_skip; [exact G|].
        split; [exact L|]. apply N.eqb_neq in Hc. exact Hc. }
      destruct (c =? q) eqn:Ecq.
      + apply bind_ok_inv in H. destruct H as [o2 [st3 [P2 H]]].
        assert (st3 = skip_char st c) by (apply peek_inv in P2; tauto). subst st3.
        destruct (opt_is o2 q) eqn:Eo.
        * destruct o2 as [q'|]; [|discriminate]. cbn [opt_is] in Eo. apply N.eqb_eq in Eo. subst q'.
          destruct (peek_some_inv _ _ _ _ P2) as [_ [G2 L2]]. apply N.ltb_lt in L2.
          unfold bind in H. rewrite (skip_at _ _ _ G2) in H.
          destruct (IH _ _ _ _ _ _ _ Hq H) as [Hm [l' Hl']].
          eapply Hc; [exact Hm|]. eapply lrun_trans; [|exact Hl'].
          apply lrun_skip; [exact G2|split; assumption].
        * unfold ret in H. injection H as _ Hm _ <-. eapply Hc; [exact Hm|apply lrun_refl].
      + destruct (IH _ _ _ _ _ _ _ Hq H) as [Hm [l' Hl']]. eapply Hc; [exact Hm|exact Hl'].
    - pose proof (pop_ok_none _ _ P). subst st2. unfold ret in H. injection H as _ Hm _ <-.
      split; [exact Hm|]. exists []. apply lrun_refl.
  Qed.
  Lemma parse_quoted_lrun : forall q st v st1, q <> LF ->
    parse_quoted d F q false st = (Ok v, st1) -> exists l, lrun l st st1.
  Proof.
    intros q st v st1 Hq H. unfold parse_quoted in H.
    apply bind_ok_inv in H. destruct H as [p [st2 [GP H]]]. unfold get_pos in GP. injection GP as <- <-.
    apply bind_ok_inv in H. destruct H as [r [st3 [T H]]].
    unfold try in T. destruct (quoted_loop d F q [] false st) as [[x|e|a] st4] eqn:QL; try discriminate;
      injection T as <- <-.
    - destruct x as [[buf multi] found].
      apply bind_ok_inv in H. destruct H as [e [st5 [GP H]]]. unfold get_pos in GP. injection GP as <- <-.
      destruct (negb found); [discriminate|]. destruct multi; [discriminate|].
      unfold ret in H. injection H as _ <-.
      destruct (quoted_loop_lrun _ _ _ _ _ _ _ _ Hq QL) as [_ Hl]. exact Hl.
    - apply bind_ok_inv in H. destruct H as [u [st5 [_ H]]]. discriminate.
  Qed.

  (* parse_base_specifier: on success 2 or 3 characters (letters and the quote) were consumed *)
  Lemma bs_second_lrun : forall off st code st1, bs_second d off st = (Ok (Some code), st1) ->
    exists l, lrun l st st1.
  Proof.
    intros off st code st1 H. unfold bs_second in H. apply bind_ok_inv in H. destruct H as [oc [st2 [P H]]].
    unfold ret in H. injection H as H <-. destruct oc as [x|]; [|discriminate].
    destruct (pop_lowercase_ok_some _ _ _ P) as [c [G [L [-> ->]]]].
    exists [c]. apply lrun_skip; [exact G|]. split; [exact L|]. apply lowercase_lf.
    destruct (lowercase c =? 98) eqn:E1; [apply N.eqb_eq in E1; rewrite E1; discriminate|].
    destruct (lowercase c =? 111) eqn:E2; [apply N.eqb_eq in E2; rewrite E2; discriminate|].
    destruct (lowercase c =? 120) eqn:E3; [apply N.eqb_eq in E3; rewrite E3; discriminate|].
    discriminate.
  Qed.
  Lemma parse_base_specifier_lrun : forall st bs st1, parse_base_specifier d st = (Ok (Some bs), st1) ->
    exists l, lrun l st st1 /\ l <> [].
  Proof.
    intros st bs st1 H. unfold parse_base_specifier in H.
    apply bind_ok_inv in H. destruct H as [oc [st2 [P H]]]. destruct oc as [x|]; [|discriminate].
    destruct (pop_lowercase_ok_some _ _ _ P) as [c [G [L [-> ->]]]].
    apply bind_ok_inv in H. destruct H as [ocode [st3 [C H]]].
    destruct ocode as [code|]; [|discriminate].
    apply bind_ok_inv in H. destruct H as [oq [st4 [PQ H]]].
    unfold ret in H. injection H as H <-.
    destruct (opt_is oq 34) eqn:Eq; [|discriminate].
    destruct oq as [qc|]; [|discriminate]. cbn [opt_is] in Eq. apply N.eqb_eq in Eq. subst qc.
    destruct (pop_ok_some _ _ _ PQ) as [GQ [LQ ->]].
    assert (Hmid : exists l, lrun l (skip_char st c) st3 /\ lowercase c <> 10).
    { destruct (lowercase c =? 117) eqn:E1.
      - destruct (bs_second_lrun _ _ _ _ C) as [l Hl]. exists l. split; [exact Hl|].
        apply N.eqb_eq in E1. rewrite E1. discriminate.
      - destruct (lowercase c =? 115) eqn:E2.
        + destruct (bs_second_lrun _ _ _ _ C) as [l Hl]. exists l. split; [exact Hl|].
          apply N.eqb_eq in E2. rewrite E2. discriminate.
        + unfold ret in C. injection C as C <-. exists []. split; [apply lrun_refl|].
          destruct (lowercase c =? 98) eqn:E3; [apply N.eqb_eq in E3; rewrite E3; discriminate|].
          destruct (lowercase c =? 111) eqn:E4; [apply N.eqb_eq in E4; rewrite E4; discriminate|].
          destruct (lowercase c =? 120) eqn:E5; [apply N.eqb_eq in E5; rewrite E5; discriminate|].
          destruct (lowercase c =? 100) eqn:E6; [apply N.eqb_eq in E6; rewrite E6; discriminate|].
          discriminate. }
    destruct Hmid as [l [Hl Hc]].
    exists ([c] ++ l ++ [34]). split; [|discriminate].
    eapply lrun_trans; [apply lrun_skip; [exact G|split; [exact L|apply lowercase_lf; exact Hc]]|].
    eapply lrun_trans; [exact Hl|]. apply lrun_skip; [exact GQ|split; [exact LQ|discriminate]].
  Qed.

  (* parse_bit_string entered after the characters l0 of the literal (length, base specifier, opening
     quote) were consumed from s0 on one line: value_at finds the text, no unwrap panic *)
  Lemma parse_bit_string_nocr : forall base len s0 l0 st r st',
    RInv s0 -> lrun l0 s0 st -> l0 <> [] ->
    parse_bit_string d F base len (snd (r_pos s0)) st = (r, st') -> r <> Ab Crash /\ RInv st'.
  Proof.
    intros base len s0 l0 st r st' HI0 [R0 F0] Hne H.
    assert (HI : RInv st) by (eapply rinv_steps; [eapply run_steps; exact R0|exact HI0]).
    unfold parse_bit_string in H. unfold bind at 1 in H.
    destruct (parse_quoted d F 34 false st) as [[v|e|a] st1] eqn:PQ;
      destruct (nocr_parse_quoted d F _ _ _ _ _ HI PQ) as [N1 I1].
    - assert (Hq : 34 <> LF) by discriminate.
      destruct (parse_quoted_lrun _ _ _ _ Hq PQ) as [l1 [R1 F1]].
      unfold bind, get_pos in H.
      assert (Rall : run (l0 ++ l1) s0 st1) by (eapply run_app; eassumption).
      assert (Fall : Forall okch (l0 ++ l1)) by (apply Forall_app; auto).
      assert (Hline : fst (r_pos s0) = fst (r_pos st1)).
      { symmetry. eapply run_same_line; [exact Rall|apply okch_no_lf; exact Fall]. }
      rewrite (value_at_consumed d HD (l0 ++ l1) s0 st1 HI0 Rall Hline) in H.
      + unfold ret in H. injection H as <- <-. split; [discriminate|exact I1].
      + destruct l0; [congruence|discriminate].
      + apply okch_latin1. exact Fall.
    - injection H as <- <-. split; [discriminate|exact I1].
    - injection H as <- <-. split; [|exact I1]. intro E. apply N1. congruence.
  Qed.
End BitString.

#[export] Hint Resolve nocr_skip nocr_pop_lowercase nocr_peek_lowercase nocr_skip_if nocr_parse_integer_loop
  nocr_parse_integer nocr_parse_exponent nocr_quoted_loop nocr_quoted_recover nocr_parse_quoted nocr_take_to_nl
  nocr_parse_comment nocr_ml_loop nocr_parse_ml_comment nocr_skip_ws nocr_leading_comments nocr_trailing_comment
  nocr_bs_second nocr_parse_base_specifier nocr_maybe_base_specifier nocr_ident_loop
  nocr_parse_basic_identifier_or_keyword nocr_real_loop nocr_parse_real_literal nocr_abs_real nocr_abs_based nocr_colon_starts_based_literal
  nocr_abs_plain nocr_char_lookahead nocr_parse_character_literal nocr_until_nl : nocr_db.

Section TokenNC.
  Variable d : list (list char).
  Variable kws : list (list N).
  Variable F : nat.
  Hypothesis HD : Forall lf_last d.
  Local Notation RInv := (RInv d).
  Local Notation nocr := (nocr d).

  Lemma nocr_simple : forall k, nocr (simple k).
  Proof. intro. unfold simple. nocr_tac. Qed.
  Hint Resolve nocr_simple : nocr_db.
  Lemma nocr_two : forall c k2 k1, nocr (two d c k2 k1).
  Proof. intros. unfold two. nocr_tac. Qed.
  Lemma nocr_illegal : forall p, nocr (illegal p).
  Proof. intro. unfold illegal. nocr_tac. Qed.
  Lemma nocr_lift_kv : forall m, nocr m -> nocr (lift_kv m).
  Proof. intros. unfold lift_kv. nocr_tac. Qed.
  Hint Resolve nocr_two nocr_illegal nocr_lift_kv : nocr_db.

  (* the `reader.peek().unwrap().unwrap()` of the integer-exponent arm follows a successful peek *)
  Lemma abs_int_exp_nocr : forall p0 ini st c r st', RInv st -> peek d st = (Ok (Some c), st) ->
    abs_int_exp d F p0 ini st = (r, st') -> r <> Ab Crash /\ RInv st'.
  Proof.
    intros p0 ini st c r st' HI P H. unfold abs_int_exp in H.
    destruct ini as [[iv it]|e].
    - unfold of_result in H. unfold bind at 1 in H. unfold ret at 1 in H.
      unfold bind at 1 in H. unfold try in H. rewrite P in H.
      assert (Hk : nocr (skip d ;;; x <- parse_exponent d F ;;
                   (let '(neg, ev, et) := x in
                    e <- get_pos ;;
                    if exp_is_neg neg ev then throw (TErr p0 e 10)
                    else if ev <=? 19 then
                      (if (10 ^ ev <? TWO64) && (10 ^ ev * iv <? TWO64)
                       then ret (lit_int (it ++ [c] ++ et) (10 ^ ev * iv))
                       else throw (TErr p0 e 4))
                    else throw (TErr p0 e 4)))%m) by nocr_tac.
      eapply Hk; [exact HI|exact H].
    - unfold of_result, bind, throw in H. injection H as <- <-. split; [discriminate|exact HI].
  Qed.

  Lemma abs_bit_string_nocr : forall s0 st ini r st', RInv s0 -> RInv st ->
    (forall x, ini = inl x -> exists l0, lrun d l0 s0 st) ->
    abs_bit_string d F (r_pos s0) ini st = (r, st') -> r <> Ab Crash /\ RInv st'.
  Proof.
    intros s0 st ini r st' HI0 HI Hl H. unfold abs_bit_string in H.
    destruct ini as [[iv it]|e].
    - destruct (Hl _ eq_refl) as [l0 Hl0].
      unfold of_result in H. unfold bind at 1 in H. unfold ret at 1 in H. unfold bind at 1 in H.
      destruct (parse_base_specifier d st) as [[[bs|]|e|a] st1] eqn:PB;
        destruct (nocr_parse_base_specifier d _ _ _ HI PB) as [N1 I1].
      + destruct (parse_base_specifier_lrun d _ _ _ PB) as [l1 [Hl1 Hne]].
        eapply (parse_bit_string_nocr d F HD) with (l0 := l0 ++ l1); [exact HI0| | |exact H].
        * eapply lrun_trans; eassumption.
        * destruct l0; [exact Hne|discriminate].
      + unfold bind, get_pos, throw in H. injection H as <- <-. split; [discriminate|exact I1].
      + injection H as <- <-. split; [discriminate|exact I1].
      + injection H as <- <-. split; [|exact I1]. intro E. apply N1. congruence.
    - unfold of_result, bind, throw in H. injection H as <- <-. split; [discriminate|exact HI].
  Qed.

  Lemma nocr_parse_abstract_literal : nocr (parse_abstract_literal d F).
  Proof.
    intros st r st' HI H. unfold parse_abstract_literal in H.
    unfold bind at 1 in H. unfold get_state in H. unfold bind at 1 in H.
    destruct (try (parse_integer d F 10 true) st) as [[ini|e|a] st1] eqn:T.
    - assert (Hini : RInv st1 /\ forall x, ini = inl x -> exists l0, lrun d l0 st st1).
      { unfold try in T. destruct (parse_integer d F 10 true st) as [[x|e|a] st2] eqn:PI; try discriminate;
          destruct (nocr_parse_integer d F _ _ _ _ _ HI PI) as [_ I2]; injection T as <- <-; (split; [exact I2|]).
        - intros x' _. eapply parse_integer_lrun; exact PI.
        - intros x' E. discriminate. }
      destruct Hini as [I1 Hl].
      unfold bind at 1 in H. unfold get_pos in H. unfold bind at 1 in H.
      destruct (peek_lowercase d st1) as [[onx|e|a] st2] eqn:PL; pose proof (peek_lowercase_nomove _ _ _ _ PL); subst st2.
      + destruct onx as [c|]; [|eapply nocr_abs_plain; eassumption].
        destruct (c =? 46); [eapply nocr_abs_real; [exact HI|exact I1|exact H]|].
        destruct (c =? 101).
        * unfold peek_lowercase, bind, ret in PL.
          destruct (peek d st1) as [[[c0|]|e|a] st3] eqn:P; try discriminate.
          assert (st3 = st1) by (apply peek_inv in P; tauto). subst st3.
          eapply abs_int_exp_nocr; [exact I1|exact P|exact H].
        * destruct (c =? 35); [eapply nocr_abs_based; eassumption|].
          destruct (c =? 58).
          { assert (Hc : nocr (b <- colon_starts_based_literal d ;;
                                 if b then abs_based d F 58 (r_pos st) (r_pos st1) ini else abs_plain ini)%m)
              by nocr_tac.
            eapply Hc; [exact I1|exact H]. }
          destruct (is_bs_letter c); [|eapply nocr_abs_plain; eassumption].
          eapply abs_bit_string_nocr; [exact HI|exact I1|exact Hl|exact H].
      + injection H as <- <-. split; [discriminate|exact I1].
      + injection H as <- <-. split; [|exact I1].
        intro E. destruct (nocr_peek_lowercase d _ _ _ I1 PL) as [N2 _]. apply N2. congruence.
    - unfold try in T. destruct (parse_integer d F 10 true st) as [[x|x|x] y]; discriminate.
    - injection H as <- <-. unfold try in T.
      destruct (parse_integer d F 10 true st) as [[x|e|a'] st2] eqn:PI; try discriminate.
      destruct (nocr_parse_integer d F _ _ _ _ _ HI PI) as [N2 I2]. injection T as <- <-.
      split; [intro E; apply N2; congruence|exact I2].
  Qed.
  Hint Resolve nocr_parse_abstract_literal : nocr_db.

  Lemma nocr_parse_token : forall fixed start last, nocr (parse_token d kws F fixed start last).
  Proof.
    intros fixed start last st r st' HI H. unfold parse_token in H. unfold bind at 1 in H.
    destruct (peek d st) as [[ob|e|a] st0] eqn:P;
      (assert (st0 = st) by (apply peek_inv in P; tauto)); subst st0.
    - destruct ob as [b|]; [|unfold ret in H; injection H as <- <-; split; [discriminate|exact HI]].
      destruct (is_alpha b || (b =? 95)).
      + unfold bind at 1 in H. unfold get_state in H. unfold bind at 1 in H.
        assert (Hid : nocr ('(kv, w) <- parse_basic_identifier_or_keyword d kws F ;; ret (Some (fst kv, snd kv, w)))%m)
          by nocr_tac.
        unfold maybe_base_specifier in H.
        destruct (parse_base_specifier d st) as [[[v|]|e|a] st1] eqn:PB;
          destruct (nocr_parse_base_specifier d _ _ _ HI PB) as [N1 I1].
        * destruct (parse_base_specifier_lrun d _ _ _ PB) as [l1 [Hl1 Hne]].
          unfold lift_kv in H. unfold bind at 1 in H.
          destruct (parse_bit_string d F v None (snd (r_pos st)) st1) as [[kv|e|a] st2] eqn:PBS;
            destruct (parse_bit_string_nocr d F HD _ _ _ _ _ _ _ HI Hl1 Hne PBS) as [N2 I2].
          -- unfold ret in H. injection H as <- <-. split; [discriminate|exact I2].
          -- injection H as <- <-. split; [discriminate|exact I2].
          -- injection H as <- <-. split; [intro E; apply N2; congruence|exact I2].
        * eapply Hid; [exact HI|exact H].
        * destruct fixed.
          -- eapply Hid; [exact HI|exact H].
          -- injection H as <- <-. split; [discriminate|exact HI].
        * injection H as <- <-. split; [|exact HI]. intro E. apply N1. congruence.
      + destruct (is_digit b).
        * assert (Hd : nocr (lift_kv (parse_abstract_literal d F))) by (apply nocr_lift_kv, nocr_parse_abstract_literal).
          eapply Hd; [exact HI|exact H].
        * assert (Hrest : nocr (skip d ;;;
            if b =? 58 then two d 61 KColonEq KColon
            else if b =? 39 then
              (if can_be_char last then
                 oc <- parse_character_literal d ;;
                 match oc with
                 | Some kv => ret (Some (fst kv, snd kv, None))
                 | None => simple KTick
                 end
               else simple KTick)
            else if b =? 45 then simple KMinus
            else if b =? 34 then v <- parse_quoted d F 34 false ;; ret (Some (KStringLiteral, VString v, None))
            else if b =? 59 then simple KSemiColon
            else if b =? 40 then simple KLeftPar
            else if b =? 41 then simple KRightPar
            else if b =? 43 then simple KPlus
            else if b =? 46 then simple KDot
            else if b =? 38 then simple KConcat
            else if b =? 44 then simple KComma
            else if b =? 61 then two d 62 KRightArrow KEQ
            else if b =? 60 then
              o2 <- peek d ;;
              (if opt_is o2 61 then skip d ;;; simple KLTE
               else if opt_is o2 62 then skip d ;;; simple KBOX
               else if opt_is o2 60 then skip d ;;; simple KLtLt
               else simple KLT)
            else if b =? 62 then
              o2 <- peek d ;;
              (if opt_is o2 61 then skip d ;;; simple KGTE
               else if opt_is o2 62 then skip d ;;; simple KGtGt
               else simple KGT)
            else if b =? 47 then two d 61 KNE KDiv
            else if b =? 42 then two d 42 KPow KTimes
            else if b =? 63 then
              o2 <- peek d ;;
              (if opt_is o2 63 then skip d ;;; simple KQueQue
               else if opt_is o2 61 then skip d ;;; simple KQueEQ
               else if opt_is o2 47 then
                 skip d ;;; s <- skip_if d 61 ;; if s then simple KQueNE else illegal start
               else if opt_is o2 60 then skip d ;;; two d 61 KQueLTE KQueLT
               else if opt_is o2 62 then skip d ;;; two d 61 KQueGTE KQueGT
               else simple KQue)
            else if b =? 94 then simple KCirc
            else if b =? 64 then simple KCommAt
            else if b =? 124 then simple KBar
            else if b =? 91 then simple KLeftSquare
            else if b =? 93 then simple KRightSquare
            else if b =? 92 then v <- parse_quoted d F 92 true ;; ret (Some (KIdentifier, VIdent v, None))
            else if b =? 96 then simple KGraveAccent
            else illegal start)%m) by nocr_tac.
          eapply Hrest; [exact HI|exact H].
    - injection H as <- <-. split; [discriminate|exact HI].
    - injection H as <- <-. split; [|exact HI]. intro E. destruct (nocr_peek d _ _ _ HI P) as [N1 _]. apply N1. congruence.
  Qed.
End TokenNC.

Section StreamNC.
  Variable d : list (list char).
  Variable kws : list (list N).
  Variable F : nat.
  Variable fixed : bool.
  Hypothesis HD : Forall lf_last d.
  Local Notation RInv := (RInv d).

  Lemma pop_raw_nocr : forall t r t', RInv (k_rd t) -> pop_raw d kws F fixed t = (r, t') ->
    r <> Ab Crash /\ RInv (k_rd t').
  Proof.
    intros t r t' HI H. unfold pop_raw in H.
    destruct (leading_comments d F F [] (k_rd t)) as [[lead|e|a] r1] eqn:LC;
      destruct (nocr_leading_comments d F _ _ _ _ _ HI LC) as [N1 I1].
    - destruct (parse_token d kws F fixed (r_pos r1) (k_last t) r1) as [[[[[k v] w]|]|e|a] r2] eqn:PT;
        destruct (nocr_parse_token d kws F HD _ _ _ _ _ _ I1 PT) as [N2 I2].
      + destruct (trailing_comment d F r2) as [[tr|e|a] r3] eqn:TC;
          destruct (nocr_trailing_comment d F _ _ _ I2 TC) as [N3 I3]; injection H as <- <-; cbn [k_rd];
          (split; [|exact I3]); try discriminate.
        intro E. apply N3. congruence.
      + injection H as <- <-. cbn [k_rd]. split; [discriminate|exact I2].
      + injection H as <- <-. cbn [k_rd]. split; [discriminate|exact I2].
      + injection H as <- <-. cbn [k_rd]. split; [intro E; apply N2; congruence|exact I2].
    - injection H as <- <-. cbn [k_rd]. split; [discriminate|exact I1].
    - injection H as <- <-. cbn [k_rd]. split; [intro E; apply N1; congruence|exact I1].
  Qed.

  Lemma ignored_loop_nocr : forall fuel t, RInv (k_rd t) ->
    match ignored_loop d kws F fixed fuel t with
    | IgnBreak t2 => RInv (k_rd t2)
    | IgnRet r t2 => RInv (k_rd t2)
    | IgnAb a t2 => a <> Crash /\ RInv (k_rd t2)
    end.
  Proof.
    induction fuel as [|f IH]; intros t HI; cbn [ignored_loop]; [split; [discriminate|exact HI]|].
    destruct (pop_raw d kws F fixed t) as [r t1] eqn:PR. destruct (pop_raw_nocr _ _ _ HI PR) as [N1 I1].
    destruct r as [[tok|]|e|a].
    - destruct (trailing_is_end tok); [exact I1|]. destruct (leading_is_end tok); [exact I1|]. apply IH. exact I1.
    - exact I1.
    - apply IH. exact I1.
    - split; [intro E; apply N1; congruence|exact I1].
  Qed.

  Lemma tk_pop_nocr : forall fuel t r t', RInv (k_rd t) -> tk_pop d kws F fixed fuel t = (r, t') ->
    r <> Ab Crash /\ RInv (k_rd t').
  Proof.
    induction fuel as [|f IH]; intros t r t' HI H; cbn [tk_pop] in H.
    - injection H as <- <-. split; [discriminate|exact HI].
    - destruct (pop_raw d kws F fixed t) as [r1 t1] eqn:PR. destruct (pop_raw_nocr _ _ _ HI PR) as [N1 I1].
      destruct r1 as [[tok|]|e|a].
      + destruct (leading_is_start tok).
        * destruct (negb (trailing_is_end tok)).
          -- pose proof (ignored_loop_nocr F t1 I1) as IL.
             destruct (ignored_loop d kws F fixed F t1) as [t2|r2 t2|a t2].
             ++ eapply IH; [exact IL|exact H].
             ++ injection H as <- <-. split; [discriminate|exact IL].
             ++ injection H as <- <-. destruct IL as [Na I2]. split; [intro E; apply Na; congruence|exact I2].
          -- eapply IH; [exact I1|exact H].
        * injection H as <- <-. split; [discriminate|exact I1].
      + injection H as <- <-. split; [discriminate|exact I1].
      + injection H as <- <-. split; [discriminate|exact I1].
      + injection H as <- <-. split; [intro E; apply N1; congruence|exact I1].
  Qed.

  Lemma text_until_newline_nocr : forall t r t', RInv (k_rd t) -> text_until_newline d F t = (r, t') ->
    r <> Ab Crash /\ RInv (k_rd t').
  Proof.
    intros t r t' HI H. unfold text_until_newline in H.
    destruct (until_nl d F [] (k_rd t)) as [[txt|e|a] r1] eqn:U;
      destruct (nocr_until_nl d _ _ _ _ _ HI U) as [N1 I1]; injection H as <- <-; cbn [k_rd];
      (split; [|exact I1]); try discriminate.
    intro E. apply N1. congruence.
  Qed.
  Lemma finish_directive_nocr : forall ds t r t', RInv (k_rd t) -> finish_directive d F ds t = (r, t') ->
    r <> Ab Crash /\ RInv (k_rd t') /\ (forall e, r <> Er e).
  Proof.
    intros ds t r t' HI H. unfold finish_directive in H.
    destruct (text_until_newline d F t) as [[x|e|a] t2] eqn:T;
      destruct (text_until_newline_nocr _ _ _ HI T) as [N1 I1]; injection H as <- <-;
      (split; [|split; [exact I1|intros e' E; discriminate]]); try discriminate.
    intro E. apply N1. congruence.
  Qed.
  Lemma handle_tool_directive_nocr : forall grave t r t', RInv (k_rd t) ->
    handle_tool_directive d kws F fixed grave t = (r, t') ->
    r <> Ab Crash /\ RInv (k_rd t') /\ (forall e, r <> Er e).
  Proof.
    intros grave t r t' HI H. unfold handle_tool_directive in H.
    destruct (tk_pop d kws F fixed F t) as [r1 t1] eqn:TP. destruct (tk_pop_nocr _ _ _ _ HI TP) as [N1 I1].
    destruct r1 as [[tok|]|e|a].
    - destruct (is_identifier (t_kind tok)); [eapply finish_directive_nocr; eassumption|].
      destruct (text_until_newline d F t1) as [[x|e|a] t2] eqn:T;
        destruct (text_until_newline_nocr _ _ _ I1 T) as [N2 I2]; injection H as <- <-;
        (split; [|split; [exact I2|intros e' E; discriminate]]); try discriminate.
      intro E. apply N2. congruence.
    - injection H as <- <-. split; [discriminate|]. split; [exact I1|intros e' E; discriminate].
    - eapply finish_directive_nocr; eassumption.
    - injection H as <- <-. split; [intro E; apply N1; congruence|]. split; [exact I1|intros e' E; discriminate].
  Qed.

  Lemma add_diags_crash : forall es o, add_diags es o = Aborted Crash -> o = Aborted Crash.
  Proof. intros es [ts ds|a] H; cbn in H; [discriminate|exact H]. Qed.
  Lemma add_tok_crash : forall t o, add_tok t o = Aborted Crash -> o = Aborted Crash.
  Proof. intros t [ts ds|a] H; cbn in H; [discriminate|exact H]. Qed.

  Lemma lex_nocr : forall fuel t, RInv (k_rd t) -> lex d kws F fixed fuel t <> Aborted Crash.
  Proof.
    induction fuel as [|f IH]; intros t HI; cbn [lex]; [discriminate|].
    destruct (tk_pop d kws F fixed F t) as [r t1] eqn:TP. destruct (tk_pop_nocr _ _ _ _ HI TP) as [N1 I1].
    destruct r as [[tok|]|e|a].
    - destruct (is_grave (t_kind tok)).
      + destruct (handle_tool_directive d kws F fixed tok t1) as [r2 t2] eqn:HT.
        destruct (handle_tool_directive_nocr _ _ _ _ I1 HT) as [N2 [I2 NE]].
        destruct r2 as [ds|e|a].
        * intro E. apply add_diags_crash in E. revert E. apply IH. exact I2.
        * exfalso. eapply NE; reflexivity.
        * intro E. apply N2. congruence.
      + intro E. apply add_tok_crash in E. revert E. apply IH. exact I1.
    - discriminate.
    - intro E. apply add_diags_crash in E. revert E. apply IH. exact I1.
    - intro E. apply N1. congruence.
  Qed.
End StreamNC.

(* the tokenizer never panics (neither version) *)
Theorem lex_no_crash_gen : forall kws fixed fuel s, lex_gen kws fixed fuel s <> Aborted Crash.
Proof.
  intros kws fixed fuel s. unfold lex_gen. apply lex_nocr.
  - apply cdoc_lf_last, split_cdoc.
  - apply rinv_start.
Qed.
Theorem lex_no_crash : forall s, lex_all s <> Aborted Crash.
Proof. intro s. apply lex_no_crash_gen. Qed.

(* total correctness of the modelled tokenizer: it terminates without panic on every input *)
Theorem lex_all_done : forall s, exists toks diags, lex_all s = Done toks diags.
Proof.
  intro s. destruct (lex_all s) as [toks diags|[|]] eqn:E.
  - exists toks, diags. reflexivity.
  - exfalso. exact (lex_total s E).
  - exfalso. exact (lex_no_crash s E).
Qed.
Theorem lex_latin1_file_done : forall bytes, exists toks diags, lex_latin1_file bytes = Done toks diags.
Proof. intro bytes. apply lex_all_done. Qed.
