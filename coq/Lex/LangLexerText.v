(* Lex/LangLexerText.v — (d) token_text_exact: the characters consumed for a token spell the lexeme
   of the (kind, value) the tokenizer returns; with consumed_is_slice: the text between the token's
   positions is its lexeme. *)
From Coq Require Import List NArith Arith Bool Lia.
Import ListNotations.
From RH Require Import Text.Contents Text.ContentsProofs Text.Reader Text.ReaderProofs Text.ReaderInv
  Lex.LangLexer Lex.LexSpec Lex.LangLexerProofs Lex.LangLexerNoCrash.
Open Scope N_scope.

#[local] Arguments N.add : simpl never.
#[local] Arguments N.sub : simpl never.
#[local] Arguments N.mul : simpl never.
#[local] Arguments N.eqb : simpl never.
#[local] Arguments N.ltb : simpl never.
#[local] Arguments N.leb : simpl never.
#[local] Arguments N.pow : simpl never.
#[local] Arguments N.modulo : simpl never.

Tactic Notation "bok" hyp(H) ident(x) ident(st) ident(P) :=
  apply bind_ok_inv in H; destruct H as [x [st [P H]]].

Section Text.
  Variable d : list (list char).
  Variable kws : list (list N).
  Variable F : nat.
  Local Notation run := (run d).

  Lemma run_one : forall st c, get_char d st = GChar c -> run [c] st (skip_char st c).
  Proof. intros st c G. econstructor; [exact G|constructor]. Qed.
  Lemma run_snoc : forall l a b c, run l a b -> get_char d b = GChar c -> run (l ++ [c]) a (skip_char b c).
  Proof. intros l a b c R G. eapply run_app; [exact R|apply run_one; exact G]. Qed.

  Lemma peek_ok_nomove : forall st x st', peek d st = (Ok x, st') -> st' = st.
  Proof. intros st x st' H. apply peek_inv in H. tauto. Qed.
  Lemma get_pos_ok : forall st p st', get_pos st = (Ok p, st') -> st' = st.
  Proof. intros st p st' H. unfold get_pos in H. injection H as _ <-. reflexivity. Qed.
  Lemma skip_ok_at : forall st c u st', get_char d st = GChar c -> skip d st = (Ok u, st') -> st' = skip_char st c.
  Proof. intros st c u st' G H. rewrite (skip_at _ _ _ G) in H. injection H as _ <-. reflexivity. Qed.
  Lemma skip_if_ok : forall v st b st', skip_if d v st = (Ok b, st') ->
    (b = true /\ get_char d st = GChar v /\ st' = skip_char st v) \/ (b = false /\ st' = st).
  Proof.
    intros v st b st' H. unfold skip_if in H. bok H ob st1 P. pose proof (peek_ok_nomove _ _ _ P). subst st1.
    destruct ob as [x|].
    - destruct (x =? v) eqn:E.
      + apply N.eqb_eq in E. subst x. destruct (peek_some_inv _ _ _ _ P) as [_ [G _]].
        bok H u st2 S. pose proof (skip_ok_at _ _ _ _ G S). subst st2.
        unfold ret in H. injection H as <- <-. left. auto.
      + unfold ret in H. injection H as <- <-. right. auto.
    - unfold ret in H. injection H as <- <-. right. auto.
  Qed.
  Lemma try_ok_inl : forall A (m : M A) st x st', try m st = (Ok (inl x), st') -> m st = (Ok x, st').
  Proof. intros A m st x st' H. unfold try in H. destruct (m st) as [[a|e|a] s]; try discriminate. congruence. Qed.

  (* ---------- integers ---------- *)
  Lemma parse_integer_loop_text : forall fuel base stp acc txt big inv st acc' txt' big' inv' st',
    parse_integer_loop d fuel base stp acc txt big inv st = (Ok (acc', txt', big', inv'), st') ->
    exists l, run l st st' /\ txt' = txt ++ l.
  Proof.
    induction fuel as [|f IH]; intros base stp acc txt big inv st acc' txt' big' inv' st' H;
      cbn [parse_integer_loop] in H; [discriminate|].
    bok H ob st1 P. pose proof (peek_ok_nomove _ _ _ P). subst st1.
    assert (Hstop : ret (acc, txt, big, inv) st = (Ok (acc', txt', big', inv'), st') -> exists l, run l st st' /\ txt' = txt ++ l).
    { intro E. unfold ret in E. injection E as _ <- _ _ <-. exists []. rewrite app_nil_r. split; [constructor|reflexivity]. }
    destruct ob as [b|]; [|apply Hstop; exact H].
    destruct (peek_some_inv _ _ _ _ P) as [_ [G _]].
    assert (Hgo : forall a2 b2 i2, (skip d ;;; parse_integer_loop d f base stp a2 (txt ++ [b]) b2 i2)%m st
                    = (Ok (acc', txt', big', inv'), st') -> exists l, run l st st' /\ txt' = txt ++ l).
    { intros a2 b2 i2 E. bok E u st2 S. pose proof (skip_ok_at _ _ _ _ G S). subst st2.
      destruct (IH _ _ _ _ _ _ _ _ _ _ _ _ E) as [l [R ->]]. exists (b :: l).
      split; [econstructor; eassumption|]. rewrite <- app_assoc. reflexivity. }
    destruct (stp && stop_suffix b); [apply Hstop; exact H|].
    destruct (is_hex b).
    - bok H p st2 GP. pose proof (get_pos_ok _ _ _ GP). subst st2. cbv zeta in H. eapply Hgo; exact H.
    - destruct (b =? 95); [eapply Hgo; exact H|].
      destruct (is_alpha b); [|apply Hstop; exact H].
      bok H p st2 GP. pose proof (get_pos_ok _ _ _ GP). subst st2. eapply Hgo; exact H.
  Qed.
  Lemma parse_integer_text : forall base stp st v t st',
    parse_integer d F base stp st = (Ok (v, t), st') -> run t st st'.
  Proof.
    intros base stp st v t st' H. unfold parse_integer in H.
    bok H p st1 GP. pose proof (get_pos_ok _ _ _ GP). subst st1.
    bok H x st2 PL. destruct x as [[[acc txt] big] inv].
    destruct (parse_integer_loop_text _ _ _ _ _ _ _ _ _ _ _ _ _ PL) as [l [R E]]. cbn [app] in E. subst txt.
    destruct inv as [q|]; [discriminate|]. destruct big as [q|]; [discriminate|].
    destruct acc as [v0|].
    - unfold ret in H. injection H as _ <- <-. exact R.
    - bok H e st3 GP2. discriminate.
  Qed.
  Lemma parse_exponent_text : forall st neg v t st',
    parse_exponent d F st = (Ok (neg, v, t), st') -> run t st st'.
  Proof.
    intros st neg v t st' H. unfold parse_exponent in H.
    bok H p st1 GP. pose proof (get_pos_ok _ _ _ GP). subst st1.
    bok H ob st1 P. pose proof (peek_ok_nomove _ _ _ P). subst st1.
    bok H nb st2 S. destruct nb as [neg0 buf].
    assert (Hb : run buf st st2).
    { destruct (opt_is ob 45) eqn:E.
      - destruct ob as [x|]; [|discriminate]. cbn [opt_is] in E. apply N.eqb_eq in E. subst x.
        destruct (peek_some_inv _ _ _ _ P) as [_ [G _]].
        bok S u st3 SK. pose proof (skip_ok_at _ _ _ _ G SK). subst st3.
        unfold ret in S. injection S as _ <- <-. apply run_one. exact G.
      - bok S s st3 SI. unfold ret in S. injection S as _ <- <-.
        destruct (skip_if_ok _ _ _ _ SI) as [[-> [G ->]]|[-> ->]]; [apply run_one; exact G|constructor]. }
    bok H vt st3 PI. destruct vt as [v0 t0]. pose proof (parse_integer_text _ _ _ _ _ _ PI) as Rt.
    bok H e st4 GP2. pose proof (get_pos_ok _ _ _ GP2). subst st4.
    assert (t = buf ++ t0 /\ st' = st3).
    { destruct neg0.
      - destruct (v0 <=? I32MAX + 1); [|discriminate]. unfold ret in H. injection H as _ _ <- <-. auto.
      - destruct (v0 <=? I32MAX); [|discriminate]. unfold ret in H. injection H as _ _ <- <-. auto. }
    destruct H0 as [-> ->]. eapply run_app; eassumption.
  Qed.

  (* ---------- quoted ---------- *)
  Lemma escape_app : forall q a b, escape q (a ++ b) = escape q a ++ escape q b.
  Proof. intros q a b. unfold escape. apply flat_map_app. Qed.
  Lemma quoted_loop_text : forall fuel q buf multi st buf' multi' st',
    quoted_loop d fuel q buf multi st = (Ok (buf', multi', true), st') ->
    exists content, buf' = buf ++ content /\ run (escape q content ++ [q]) st st'.
  Proof.
    induction fuel as [|f IH]; intros q buf multi st buf' multi' st' H; cbn [quoted_loop] in H; [discriminate|].
    bok H oc st1 P. destruct oc as [c|]; [|unfold ret in H; discriminate].
    destruct (pop_ok_some _ _ _ _ P) as [G [_ ->]].
    destruct (c =? q) eqn:Ecq.
    - apply N.eqb_eq in Ecq. subst c.
      bok H o2 st2 P2. pose proof (peek_ok_nomove _ _ _ P2). subst st2.
      destruct (opt_is o2 q) eqn:Eo.
      + destruct o2 as [x|]; [|discriminate]. cbn [opt_is] in Eo. apply N.eqb_eq in Eo. subst x.
        destruct (peek_some_inv _ _ _ _ P2) as [_ [G2 _]].
        bok H u st3 S. pose proof (skip_ok_at _ _ _ _ G2 S). subst st3.
        destruct (IH _ _ _ _ _ _ _ H) as [content [-> R]].
        exists (q :: content). rewrite <- app_assoc. split; [reflexivity|].
        cbn [escape flat_map]. rewrite N.eqb_refl. cbn [app].
        econstructor; [exact G|]. econstructor; [exact G2|exact R].
      + unfold ret in H. injection H as <- _ <-. exists []. rewrite app_nil_r. split; [reflexivity|].
        cbn [escape flat_map app]. apply run_one. exact G.
    - destruct (IH _ _ _ _ _ _ _ H) as [content [-> R]].
      exists (c :: content). rewrite <- app_assoc. split; [reflexivity|].
      cbn [escape flat_map]. rewrite Ecq. cbn [app]. econstructor; [exact G|exact R].
  Qed.
  Lemma parse_quoted_text : forall q incl st v st', parse_quoted d F q incl st = (Ok v, st') ->
    exists content, v = (if incl then q :: content ++ [q] else content) /\ run (escape q content ++ [q]) st st'.
  Proof.
    intros q incl st v st' H. unfold parse_quoted in H.
    bok H p st1 GP. pose proof (get_pos_ok _ _ _ GP). subst st1.
    bok H r st2 T. destruct r as [[[buf multi] found]|e].
    - apply try_ok_inl in T.
      bok H e st3 GP2. pose proof (get_pos_ok _ _ _ GP2). subst st3.
      destruct found; cbn [negb] in H; [|discriminate]. destruct multi; [discriminate|].
      unfold ret in H. injection H as <- <-.
      destruct (quoted_loop_text _ _ _ _ _ _ _ _ T) as [content [-> R]].
      exists content. split; [|exact R]. destruct incl; reflexivity.
    - bok H u st3 QR. discriminate.
  Qed.

  (* ---------- identifiers ---------- *)
  Lemma ident_loop_text : forall fuel acc st t st', ident_loop d fuel acc st = (Ok t, st') ->
    exists l, run l st st' /\ t = acc ++ l.
  Proof.
    induction fuel as [|f IH]; intros acc st t st' H; cbn [ident_loop] in H; [discriminate|].
    bok H ob st1 P. pose proof (peek_ok_nomove _ _ _ P). subst st1.
    assert (Hstop : ret acc st = (Ok t, st') -> exists l, run l st st' /\ t = acc ++ l).
    { intro E. unfold ret in E. injection E as <- <-. exists []. rewrite app_nil_r. split; [constructor|reflexivity]. }
    destruct ob as [b|]; [|apply Hstop; exact H].
    destruct (is_alnum b || (b =? 95)); [|apply Hstop; exact H].
    destruct (peek_some_inv _ _ _ _ P) as [_ [G _]].
    bok H u st2 S. pose proof (skip_ok_at _ _ _ _ G S). subst st2.
    destruct (IH _ _ _ _ H) as [l [R ->]]. exists (b :: l).
    split; [econstructor; eassumption|]. rewrite <- app_assoc. reflexivity.
  Qed.

  (* ---------- real literals ---------- *)
  Lemma lowercase_fix : forall c x, lowercase c = x -> (is_digit x || (x =? 46) || (x =? 95)) = true -> c = x.
  Proof.
    intros c x H Hx. unfold lowercase in H.
    destruct (c =? 215); [exact H|].
    destruct (in_range 65 90 c || in_range 192 214 c || in_range 216 222 c) eqn:E; [|exact H].
    exfalso. unfold is_digit in *. unfold in_range in *.
    rewrite !orb_true_iff, !andb_true_iff, !N.leb_le in E.
    rewrite !orb_true_iff, !andb_true_iff, !N.leb_le, !N.eqb_eq in Hx. lia.
  Qed.
  Lemma lowercase_58 : forall c, lowercase c = 58 -> c = 58.
  Proof.
    intros c H. unfold lowercase in H. destruct (c =? 215); [exact H|].
    destruct (in_range 65 90 c || in_range 192 214 c || in_range 216 222 c) eqn:E; [|exact H].
    exfalso. unfold in_range in *. rewrite !orb_true_iff, !andb_true_iff, !N.leb_le in E. lia.
  Qed.
  Lemma lowercase_35 : forall c, lowercase c = 35 -> c = 35.
  Proof.
    intros c H. unfold lowercase in H. destruct (c =? 215); [exact H|].
    destruct (in_range 65 90 c || in_range 192 214 c || in_range 216 222 c) eqn:E; [|exact H].
    exfalso. unfold in_range in *. rewrite !orb_true_iff, !andb_true_iff, !N.leb_le in E. lia.
  Qed.
  Lemma real_loop_text : forall fuel txt dg st txt' dg' st',
    real_loop d fuel txt dg st = (Ok (txt', dg'), st') ->
    exists l, run l st st' /\ txt' = txt ++ map lowercase l
              /\ dg' = dg ++ filter (fun x => negb (x =? 95)) (map lowercase l).
  Proof.
    induction fuel as [|f IH]; intros txt dg st txt' dg' st' H; cbn [real_loop] in H; [discriminate|].
    unfold peek_lowercase in H. bok H ob st1 PL. bok PL ob0 st2 P. pose proof (peek_ok_nomove _ _ _ P). subst st2.
    unfold ret in PL. injection PL as <- <-.
    assert (Hstop : ret (txt, dg) st = (Ok (txt', dg'), st') ->
              exists l, run l st st' /\ txt' = txt ++ map lowercase l
                        /\ dg' = dg ++ filter (fun x => negb (x =? 95)) (map lowercase l)).
    { intro E. unfold ret in E. injection E as <- <- <-. exists []. cbn [map filter]. rewrite !app_nil_r.
      split; [constructor|auto]. }
    destruct ob0 as [c|]; cbn [option_map] in H; [|apply Hstop; exact H].
    destruct (peek_some_inv _ _ _ _ P) as [_ [G _]].
    destruct (lowercase c =? 101); [apply Hstop; exact H|].
    destruct (is_digit (lowercase c) || in_range 97 100 (lowercase c) || (lowercase c =? 102) || (lowercase c =? 46)) eqn:E1.
    - bok H u st2 S. pose proof (skip_ok_at _ _ _ _ G S). subst st2.
      destruct (IH _ _ _ _ _ _ H) as [l [R [-> ->]]]. exists (c :: l). split; [econstructor; eassumption|].
      cbn [map filter].
      assert (E95 : (lowercase c =? 95) = false).
      { apply N.eqb_neq. intro E. rewrite E in E1. discriminate. }
      rewrite E95. cbn [negb]. rewrite <- !app_assoc. auto.
    - destruct (lowercase c =? 95) eqn:E95; [|apply Hstop; exact H].
      bok H u st2 S. pose proof (skip_ok_at _ _ _ _ G S). subst st2.
      destruct (IH _ _ _ _ _ _ H) as [l [R [-> ->]]]. exists (c :: l). split; [econstructor; eassumption|].
      cbn [map filter]. rewrite E95. cbn [negb]. rewrite <- !app_assoc. auto.
  Qed.
  Lemma f64_ok_identity : forall l,
    forallb (fun c => is_digit c || (c =? 46)) (filter (fun x => negb (x =? 95)) (map lowercase l)) = true ->
    map lowercase l = l.
  Proof.
    induction l as [|c l IH]; intro H; [reflexivity|]. cbn [map filter] in H.
    destruct (lowercase c =? 95) eqn:E95; cbn [negb] in H.
    - cbn [map]. rewrite (IH H). f_equal. symmetry. apply lowercase_fix with (x := lowercase c); [reflexivity|].
      rewrite E95. apply orb_true_r.
    - cbn [forallb] in H. apply andb_true_iff in H. destruct H as [H1 H2].
      cbn [map]. rewrite (IH H2). f_equal. symmetry. apply lowercase_fix with (x := lowercase c); [reflexivity|].
      rewrite E95, orb_false_r. exact H1.
  Qed.
  Lemma parse_real_literal_text : forall st txt st', parse_real_literal d F st = (Ok txt, st') -> run txt st st'.
  Proof.
    intros st txt st' H. unfold parse_real_literal in H.
    bok H p st1 GP. pose proof (get_pos_ok _ _ _ GP). subst st1.
    bok H x st2 RL. destruct x as [t dg].
    bok H e st3 GP2. pose proof (get_pos_ok _ _ _ GP2). subst st3.
    destruct (f64_ok dg) eqn:Ef; [|discriminate]. unfold ret in H. injection H as <- <-.
    destruct (real_loop_text _ _ _ _ _ _ _ RL) as [l [R [-> ->]]]. cbn [app] in *.
    unfold f64_ok in Ef. apply andb_true_iff in Ef. destruct Ef as [Ef _].
    apply andb_true_iff in Ef. destruct Ef as [Ef _].
    rewrite (f64_ok_identity l Ef). exact R.
  Qed.

  (* ---------- (kind, value) versus text ---------- *)
  Definition lex_ok (k : kind) (v : value) (sl : list char) : bool :=
    lexeme_ok {| t_kind := k; t_val := v; t_s := (0, 0); t_e := (0, 0); t_lead := []; t_trail := None |} sl.
  Lemma lexeme_ok_lex_ok : forall t sl, lexeme_ok t sl = lex_ok (t_kind t) (t_val t) sl.
  Proof. intros [k v s e l tr] sl. reflexivity. Qed.
  Lemma leqb_refl : forall x, leqb x x = true.
  Proof. intro x. unfold leqb. destruct (list_eq_dec N.eq_dec x x); [reflexivity|congruence]. Qed.
  Lemma lex_ok_int : forall t v, lex_ok KAbstractLiteral (VAbsInt t v) t = true.
  Proof. intros. unfold lex_ok, lexeme_ok. cbn [t_val]. apply leqb_refl. Qed.
  Lemma lex_ok_real : forall t, lex_ok KAbstractLiteral (VAbsReal t) t = true.
  Proof. intros. unfold lex_ok, lexeme_ok. cbn [t_val]. apply leqb_refl. Qed.

  Definition ini_run (initial : (N * list N) + terr) (st0 st : rstate) : Prop :=
    forall iv it, initial = inl (iv, it) -> run it st0 st.

  Lemma abs_plain_text : forall initial st0 st k v st', ini_run initial st0 st ->
    abs_plain initial st = (Ok (k, v), st') -> exists l, run l st0 st' /\ lex_ok k v l = true.
  Proof.
    intros initial st0 st k v st' Hi H. unfold abs_plain in H. destruct initial as [[iv it]|e]; [|discriminate].
    unfold of_result, bind, ret in H. injection H as <- <- <-. exists it. split; [exact (Hi iv it eq_refl)|apply lex_ok_int].
  Qed.

  Lemma abs_int_exp_text : forall p0 initial st0 st k v st', ini_run initial st0 st ->
    abs_int_exp d F p0 initial st = (Ok (k, v), st') -> exists l, run l st0 st' /\ lex_ok k v l = true.
  Proof.
    intros p0 initial st0 st k v st' Hi H. unfold abs_int_exp in H. destruct initial as [[iv it]|e]; [|discriminate].
    specialize (Hi iv it eq_refl).
    unfold of_result in H. bok H x st1 R0. unfold ret in R0. injection R0 as <- <-.
    bok H r st1 T. destruct r as [[c|]|e]; try discriminate.
    apply try_ok_inl in T. destruct (peek_some_inv _ _ _ _ T) as [-> [G _]].
    bok H u st2 S. pose proof (skip_ok_at _ _ _ _ G S). subst st2.
    bok H x st3 PE. destruct x as [[neg ev] et]. pose proof (parse_exponent_text _ _ _ _ _ PE) as Re.
    bok H e st4 GP. pose proof (get_pos_ok _ _ _ GP). subst st4.
    destruct (exp_is_neg neg ev); [discriminate|]. destruct (ev <=? 19); [|discriminate].
    destruct ((10 ^ ev <? TWO64) && (10 ^ ev * iv <? TWO64)); [|discriminate].
    unfold ret, lit_int in H. injection H as <- <- <-.
    exists (it ++ [c] ++ et). split; [|apply lex_ok_int].
    eapply run_app; [exact Hi|]. econstructor; [exact G|exact Re].
  Qed.

  Lemma abs_real_text : forall st0 pai initial st k v st',
    abs_real d F st0 pai initial st = (Ok (k, v), st') -> exists l, run l st0 st' /\ lex_ok k v l = true.
  Proof.
    intros st0 pai initial st k v st' H. unfold abs_real, abs_real_gen in H.
    bok H u st1 SS. unfold set_state in SS. injection SS as _ <-.
    bok H txt st2 PR. pose proof (parse_real_literal_text _ _ _ PR) as Rt.
    bok H p st3 GP. pose proof (get_pos_ok _ _ _ GP). subst st3.
    bok H u2 st3 C.
    assert (st3 = st2).
    { destruct (true && plt p pai).
      - bok C u3 st4 OR. unfold ret in C. injection C as _ <-.
        destruct initial as [x|e]; [|discriminate]. unfold of_result, ret in OR. injection OR as _ <-. reflexivity.
      - unfold ret in C. injection C as _ <-. reflexivity. }
    subst st3.
    bok H op st3 P. pose proof (peek_ok_nomove _ _ _ P). subst st3.
    assert (Hstop : ret (lit_real txt) st2 = (Ok (k, v), st') -> exists l, run l st0 st' /\ lex_ok k v l = true).
    { intro E. unfold ret, lit_real in E. injection E as <- <- <-. exists txt. split; [exact Rt|apply lex_ok_real]. }
    destruct op as [c|]; [|apply Hstop; exact H].
    destruct (is_e c); [|apply Hstop; exact H].
    destruct (peek_some_inv _ _ _ _ P) as [_ [G _]].
    bok H u3 st3 S. pose proof (skip_ok_at _ _ _ _ G S). subst st3.
    bok H x st4 PE. destruct x as [[neg ev] et]. pose proof (parse_exponent_text _ _ _ _ _ PE) as Re.
    unfold ret, lit_real in H. injection H as <- <- <-.
    exists (txt ++ [c] ++ et). split; [|apply lex_ok_real].
    eapply run_app; [exact Rt|]. econstructor; [exact G|exact Re].
  Qed.

  Lemma of_result_ok : forall A (r : A + terr) st x st', of_result r st = (Ok x, st') -> r = inl x /\ st' = st.
  Proof. intros A [a|e] st x st' H; unfold of_result, ret, throw in H; [injection H as <- <-; auto|discriminate]. Qed.

  Lemma abs_based_text : forall dl p0 pai initial st0 st k v st', ini_run initial st0 st ->
    get_char d st = GChar dl ->
    abs_based d F dl p0 pai initial st = (Ok (k, v), st') -> exists l, run l st0 st' /\ lex_ok k v l = true.
  Proof.
    intros dl p0 pai initial st0 st k v st' Hi G H. unfold abs_based in H.
    bok H x st1 OR. destruct x as [base bt]. destruct (of_result_ok _ _ _ _ _ OR) as [-> ->].
    specialize (Hi base bt eq_refl).
    bok H u st2 S. pose proof (skip_ok_at _ _ _ _ G S). subst st2.
    bok H bres st3 T1.
    bok H op st4 P1. pose proof (peek_ok_nomove _ _ _ P1). subst st4.
    bok H fres st4 FR.
    bok H op2 st5 P2. pose proof (peek_ok_nomove _ _ _ P2). subst st5.
    destruct (opt_is op2 dl) eqn:E2; [|bok H e st6 GP; discriminate].
    destruct op2 as [c2|]; [|discriminate]. cbn [opt_is] in E2. apply N.eqb_eq in E2. subst c2.
    destruct (peek_some_inv _ _ _ _ P2) as [_ [G2 _]].
    bok H u2 st5 S2. pose proof (skip_ok_at _ _ _ _ G2 S2). subst st5.
    bok H y st6 OR2. destruct y as [iv it]. destruct (of_result_ok _ _ _ _ _ OR2) as [-> ->].
    apply try_ok_inl in T1. pose proof (parse_integer_text _ _ _ _ _ _ T1) as Rit.
    bok H ftxt st6 FT.
    (* the fraction *)
    assert (Hfr : exists lf, run lf st3 st4 /\ st6 = skip_char st4 dl /\
                   lf = match ftxt with Some ft => [46] ++ ft | None => [] end).
    { destruct (opt_is op 46) eqn:E1.
      - destruct op as [c1|]; [|discriminate]. cbn [opt_is] in E1. apply N.eqb_eq in E1. subst c1.
        destruct (peek_some_inv _ _ _ _ P1) as [_ [G1 _]].
        bok FR u3 st7 S3. pose proof (skip_ok_at _ _ _ _ G1 S3). subst st7.
        bok FR r st7 T2. unfold ret in FR. injection FR as <- <-.
        bok FT z st8 OR3. destruct z as [fv ft]. destruct (of_result_ok _ _ _ _ _ OR3) as [-> ->].
        unfold ret in FT. injection FT as <- <-.
        apply try_ok_inl in T2. pose proof (parse_integer_text _ _ _ _ _ _ T2) as Rft.
        exists ([46] ++ ft). split; [|auto]. econstructor; [exact G1|exact Rft].
      - unfold ret in FR. injection FR as <- <-. unfold ret in FT. injection FT as <- <-.
        exists []. split; [constructor|auto]. }
    destruct Hfr as [lf [Rlf [-> Elf]]].
    cbv zeta in H.
    destruct (negb (in_range 2 16 base)); [discriminate|].
    bok H op3 st7 P3. pose proof (peek_ok_nomove _ _ _ P3). subst st7.
    bok H oexp st7 OE.
    (* the exponent *)
    assert (Hex : exists le, run le (skip_char st4 dl) st7 /\
                   le = match oexp with Some (c, (_, _, et)) => [c] ++ et | None => [] end).
    { destruct op3 as [c3|].
      - destruct (is_e c3).
        + destruct (peek_some_inv _ _ _ _ P3) as [_ [G3 _]].
          bok OE u4 st8 S4. pose proof (skip_ok_at _ _ _ _ G3 S4). subst st8.
          bok OE x st8 PE. destruct x as [[neg ev] et]. unfold ret in OE. injection OE as <- <-.
          pose proof (parse_exponent_text _ _ _ _ _ PE) as Re.
          exists ([c3] ++ et). split; [|reflexivity]. econstructor; [exact G3|exact Re].
        + unfold ret in OE. injection OE as <- <-. exists []. split; [constructor|reflexivity].
      - unfold ret in OE. injection OE as <- <-. exists []. split; [constructor|reflexivity]. }
    destruct Hex as [le [Rle Ele]].
    set (txt0 := bt ++ [dl] ++ it ++ match ftxt with Some ft => [46] ++ ft | None => [] end ++ [dl]) in *.
    set (txt1 := match oexp with Some (c, (_, _, et)) => txt0 ++ [c] ++ et | None => txt0 end) in *.
    assert (Rall : run txt1 st0 st7).
    { assert (R0 : run txt0 st0 (skip_char st4 dl)).
      { assert (R0' : run (bt ++ dl :: it ++ lf ++ [dl]) st0 (skip_char st4 dl)).
        { eapply run_app; [exact Hi|]. econstructor; [exact G|].
          eapply run_app; [exact Rit|]. eapply run_app; [exact Rlf|]. apply run_one. exact G2. }
        replace txt0 with (bt ++ dl :: it ++ lf ++ [dl]); [exact R0'|].
        unfold txt0. rewrite Elf. reflexivity. }
      unfold txt1. destruct oexp as [[c [[neg ev] et]]|].
      - eapply run_app; [exact R0|]. rewrite Ele in Rle. exact Rle.
      - subst le. inversion Rle; subst. exact R0. }
    destruct ftxt as [ft|].
    - unfold ret, lit_real in H. injection H as <- <- <-. exists txt1. split; [exact Rall|apply lex_ok_real].
    - destruct oexp as [[c [[neg ev] et]]|].
      + bok H e st8 GP. pose proof (get_pos_ok _ _ _ GP). subst st8.
        destruct (exp_is_neg neg ev); [discriminate|]. destruct (ev <=? 64); [|discriminate].
        destruct ((base ^ ev <? TWO64) && (base ^ ev * iv <? TWO64)); [|discriminate].
        unfold ret, lit_int in H. injection H as <- <- <-. exists txt1. split; [exact Rall|apply lex_ok_int].
      + unfold ret, lit_int in H. injection H as <- <- <-. exists txt1. split; [exact Rall|apply lex_ok_int].
  Qed.

  (* ---------- character literal ---------- *)
  Lemma parse_character_literal_text : forall st k v st',
    parse_character_literal d st = (Ok (Some (k, v)), st') ->
    exists c, k = KCharacter /\ v = VChar c /\ run [c; 39] st st'.
  Proof.
    intros st k v st' H. unfold parse_character_literal in H.
    destruct (char_lookahead d st) as [[[c|]|e|a] st1] eqn:CL; try discriminate.
    injection H as <- <- <-. exists c. split; [reflexivity|]. split; [reflexivity|].
    unfold char_lookahead in CL. bok CL oc st2 P. destruct oc as [x|]; [|discriminate].
    destruct (pop_ok_some _ _ _ _ P) as [G [_ ->]].
    bok CL s st3 SI. unfold ret in CL. injection CL as E <-.
    destruct (skip_if_ok _ _ _ _ SI) as [[-> [G2 ->]]|[-> ->]]; [|discriminate].
    injection E as ->. econstructor; [exact G|apply run_one; exact G2].
  Qed.

  (* ---------- bit strings: the text is re-read by value_at ---------- *)
  Hypothesis HD : Forall lf_last d.

  Lemma lex_ok_bits : forall t len b v, lex_ok KBitString (VBitString t len b v) t = true.
  Proof. intros. unfold lex_ok, lexeme_ok. cbn [t_val]. apply leqb_refl. Qed.

  Lemma parse_bit_string_text : forall base len s0 l0 st k v st',
    RInv d s0 -> lrun d l0 s0 st -> l0 <> [] ->
    parse_bit_string d F base len (snd (r_pos s0)) st = (Ok (k, v), st') ->
    exists l, run l s0 st' /\ lex_ok k v l = true.
  Proof.
    intros base len s0 l0 st k v st' HI0 [R0 F0] Hne H. unfold parse_bit_string in H.
    bok H q st1 PQ. bok H p st2 GP. pose proof (get_pos_ok _ _ _ GP). subst st2.
    unfold get_pos in GP. injection GP as <-.
    assert (Hq : 34 <> LF) by discriminate.
    destruct (parse_quoted_lrun d F _ _ _ _ Hq PQ) as [l1 [R1 F1]].
    assert (Rall : run (l0 ++ l1) s0 st1) by (eapply run_app; eassumption).
    assert (Fall : Forall (okch) (l0 ++ l1)) by (apply Forall_app; auto).
    assert (Hline : fst (r_pos s0) = fst (r_pos st1)).
    { symmetry. eapply run_same_line; [exact Rall|apply okch_no_lf; exact Fall]. }
    rewrite (value_at_consumed d HD (l0 ++ l1) s0 st1 HI0 Rall Hline) in H.
    - unfold ret in H. injection H as <- <- <-. exists (l0 ++ l1). split; [exact Rall|apply lex_ok_bits].
    - destruct l0; [congruence|discriminate].
    - apply okch_latin1. exact Fall.
  Qed.

  Lemma abs_bit_string_text : forall s0 st initial k v st', RInv d s0 ->
    (forall x, initial = inl x -> exists l0, lrun d l0 s0 st) ->
    abs_bit_string d F (r_pos s0) initial st = (Ok (k, v), st') ->
    exists l, run l s0 st' /\ lex_ok k v l = true.
  Proof.
    intros s0 st initial k v st' HI0 Hl H. unfold abs_bit_string in H.
    bok H x st1 OR. destruct x as [iv it]. destruct (of_result_ok _ _ _ _ _ OR) as [-> ->].
    destruct (Hl _ eq_refl) as [l0 Hl0].
    bok H obs st2 PB. destruct obs as [bs|]; [|bok H e st3 GP; discriminate].
    destruct (parse_base_specifier_lrun d _ _ _ PB) as [l1 [Hl1 Hne]].
    eapply parse_bit_string_text with (l0 := l0 ++ l1); [exact HI0| | |exact H].
    - eapply lrun_trans; eassumption.
    - destruct l0; [exact Hne|discriminate].
  Qed.

  Lemma parse_abstract_literal_text : forall st k v st', RInv d st ->
    parse_abstract_literal d F st = (Ok (k, v), st') -> exists l, run l st st' /\ lex_ok k v l = true.
  Proof.
    intros st k v st' HI H. unfold parse_abstract_literal in H.
    bok H st0 st1 GS. unfold get_state in GS. injection GS as <- <-.
    bok H initial st1 T.
    assert (Hini : ini_run initial st st1 /\ (forall x, initial = inl x -> exists l0, lrun d l0 st st1)).
    { destruct initial as [[iv it]|e].
      - apply try_ok_inl in T. split.
        + intros iv' it' E. injection E as <- <-. eapply parse_integer_text; exact T.
        + intros x _. eapply parse_integer_lrun; exact T.
      - split; [intros iv it E; discriminate|intros x E; discriminate]. }
    destruct Hini as [Hi Hl].
    bok H pai st2 GP. pose proof (get_pos_ok _ _ _ GP). subst st2.
    unfold peek_lowercase in H. bok H onx st2 PL. bok PL ob st3 P. pose proof (peek_ok_nomove _ _ _ P). subst st3.
    unfold ret in PL. injection PL as <- <-.
    destruct ob as [c0|]; cbn [option_map] in H; [|eapply abs_plain_text; eassumption].
    destruct (peek_some_inv _ _ _ _ P) as [_ [G _]].
    destruct (lowercase c0 =? 46); [eapply abs_real_text; exact H|].
    destruct (lowercase c0 =? 101); [eapply abs_int_exp_text; eassumption|].
    destruct (lowercase c0 =? 35) eqn:E35.
    - apply N.eqb_eq in E35. apply lowercase_35 in E35. subst c0. eapply abs_based_text; eassumption.
    - destruct (lowercase c0 =? 58) eqn:E58.
      + apply N.eqb_eq in E58. apply lowercase_58 in E58. subst c0.
        bok H b st2 CS.
        assert (st2 = st1).
        { unfold colon_starts_based_literal in CS.
          destruct (colon_lookahead d st1) as [[[[n|]|e]|e|a] st3]; try discriminate; injection CS as _ <-; reflexivity. }
        subst st2. destruct b; [eapply abs_based_text; eassumption|eapply abs_plain_text; eassumption].
      + destruct (is_bs_letter (lowercase c0)); [|eapply abs_plain_text; eassumption].
        eapply abs_bit_string_text; eassumption.
  Qed.

  (* ---------- parse_token ---------- *)
  Lemma leaf_simple : forall K l st0 cur k v w st', run l st0 cur ->
    simple K cur = (Ok (Some (k, v, w)), st') -> lex_ok K VNone l = true ->
    exists l', run l' st0 st' /\ lex_ok k v l' = true.
  Proof.
    intros K l st0 cur k v w st' R H Hl. unfold simple, ret in H. injection H as <- <- _ <-. exists l. auto.
  Qed.
  Lemma leaf_two : forall c k2 k1 l st0 cur k v w st', run l st0 cur ->
    two d c k2 k1 cur = (Ok (Some (k, v, w)), st') ->
    lex_ok k2 VNone (l ++ [c]) = true -> lex_ok k1 VNone l = true ->
    exists l', run l' st0 st' /\ lex_ok k v l' = true.
  Proof.
    intros c k2 k1 l st0 cur k v w st' R H H2 H1. unfold two in H. bok H s st1 SI.
    destruct (skip_if_ok _ _ _ _ SI) as [[-> [G ->]]|[-> ->]].
    - eapply leaf_simple; [eapply run_snoc; eassumption|exact H|exact H2].
    - eapply leaf_simple; [exact R|exact H|exact H1].
  Qed.
  Lemma leaf_skip_simple : forall K x l st0 cur k v w st', run l st0 cur -> get_char d cur = GChar x ->
    (skip d ;;; simple K)%m cur = (Ok (Some (k, v, w)), st') -> lex_ok K VNone (l ++ [x]) = true ->
    exists l', run l' st0 st' /\ lex_ok k v l' = true.
  Proof.
    intros K x l st0 cur k v w st' R G H Hl. bok H u st1 S. pose proof (skip_ok_at _ _ _ _ G S). subst st1.
    eapply leaf_simple; [eapply run_snoc; eassumption|exact H|exact Hl].
  Qed.
  Lemma leaf_skip_two : forall c k2 k1 x l st0 cur k v w st', run l st0 cur -> get_char d cur = GChar x ->
    (skip d ;;; two d c k2 k1)%m cur = (Ok (Some (k, v, w)), st') ->
    lex_ok k2 VNone ((l ++ [x]) ++ [c]) = true -> lex_ok k1 VNone (l ++ [x]) = true ->
    exists l', run l' st0 st' /\ lex_ok k v l' = true.
  Proof.
    intros c k2 k1 x l st0 cur k v w st' R G H H2 H1. bok H u st1 S. pose proof (skip_ok_at _ _ _ _ G S). subst st1.
    eapply leaf_two; [eapply run_snoc; eassumption|exact H|exact H2|exact H1].
  Qed.
  Lemma peek_opt : forall cur o2 st1 x, peek d cur = (Ok o2, st1) -> opt_is o2 x = true -> get_char d cur = GChar x.
  Proof.
    intros cur o2 st1 x P E. destruct o2 as [y|]; [|discriminate]. cbn [opt_is] in E. apply N.eqb_eq in E. subst y.
    destruct (peek_some_inv _ _ _ _ P) as [_ [G _]]. exact G.
  Qed.

  Lemma lex_ok_string : forall content, lex_ok KStringLiteral (VString content) (34 :: escape 34 content ++ [34]) = true.
  Proof. intros. unfold lex_ok, lexeme_ok. cbn [t_val]. apply leqb_refl. Qed.
  Lemma removelast_snoc : forall (A : Type) (l : list A) x, removelast (l ++ [x]) = l.
  Proof. intros A l x. rewrite removelast_app by discriminate. cbn. apply app_nil_r. Qed.
  Lemma lex_ok_ext : forall content,
    lex_ok KIdentifier (VIdent (92 :: content ++ [92])) (92 :: escape 92 content ++ [92]) = true.
  Proof.
    intros. unfold lex_ok, lexeme_ok. cbn [t_val]. rewrite N.eqb_refl. rewrite removelast_snoc. apply leqb_refl.
  Qed.

  Lemma parse_token_text : forall start last st k v w st', RInv d st ->
    parse_token d kws F true start last st = (Ok (Some (k, v, w)), st') ->
    exists l, run l st st' /\ lex_ok k v l = true.
  Proof.
    intros start last st k v w st' HI H. unfold parse_token in H.
    bok H ob st1 P. pose proof (peek_ok_nomove _ _ _ P). subst st1.
    destruct ob as [b|]; [|unfold ret in H; discriminate].
    destruct (peek_some_inv _ _ _ _ P) as [_ [G L]].
    destruct (is_alpha b || (b =? 95)) eqn:Ea.
    - (* bit string without length, identifier or keyword *)
      bok H s0 st1 GS. unfold get_state in GS. injection GS as <- <-.
      bok H obs st2 MB. unfold maybe_base_specifier in MB.
      assert (Hident : obs = None -> st2 = st -> exists l, run l st st' /\ lex_ok k v l = true).
      { intros -> ->. bok H x st3 PI. destruct x as [kv w0]. unfold ret in H. injection H as <- <- _ <-.
        unfold parse_basic_identifier_or_keyword in PI. bok PI t st4 IL. unfold ret in PI. injection PI as <- _ <-.
        destruct F as [|f]; cbn [ident_loop] in IL; [discriminate|].
        bok IL ob2 st5 P'. rewrite P in P'. injection P' as <- <-.
        rewrite (alpha_facts b Ea) in IL.
        bok IL u st5 S. pose proof (skip_ok_at _ _ _ _ G S). subst st5.
        destruct (ident_loop_text _ _ _ _ _ IL) as [l' [R' ->]]. cbn [app].
        exists (b :: l'). split; [econstructor; eassumption|].
        unfold insert_or_keyword. destruct (existsb (leqb (map lowercase (b :: l'))) kws); cbn [fst snd].
        - unfold lex_ok, lexeme_ok. cbn [t_val t_kind]. apply leqb_refl.
        - unfold lex_ok, lexeme_ok. cbn [t_val].
          destruct (b =? 92) eqn:E92; [apply N.eqb_eq in E92; subst b; discriminate|]. apply leqb_refl. }
      destruct (parse_base_specifier d st) as [[[bs|]|e|a] st3] eqn:PB; try discriminate.
      + injection MB as <- <-.
        destruct (parse_base_specifier_lrun d _ _ _ PB) as [l1 [Hl1 Hne]].
        unfold lift_kv in H. bok H kv st4 PBS. destruct kv as [k0 v0]. unfold ret in H. cbn [fst snd] in H.
        injection H as <- <- _ <-.
        eapply parse_bit_string_text; [exact HI|exact Hl1|exact Hne|exact PBS].
      + injection MB as <- <-. apply Hident; reflexivity.
      + injection MB as <- <-. apply Hident; reflexivity.
    - destruct (is_digit b).
      + unfold lift_kv in H. bok H kv st1 PA. destruct kv as [k0 v0]. unfold ret in H. cbn [fst snd] in H.
        injection H as <- <- _ <-. eapply parse_abstract_literal_text; [exact HI|exact PA].
      + bok H u st1 S. pose proof (skip_ok_at _ _ _ _ G S). subst st1.
        pose proof (run_one _ _ G) as R1.
        (* one arm per first character *)
        destruct (b =? 58) eqn:E; [apply N.eqb_eq in E; subst b; eapply leaf_two; [exact R1|exact H|reflexivity|reflexivity]|clear E].
        destruct (b =? 39) eqn:E.
        { apply N.eqb_eq in E; subst b.
          destruct (can_be_char last); [|eapply leaf_simple; [exact R1|exact H|reflexivity]].
          bok H oc st2 PC. destruct oc as [[k0 v0]|].
          - unfold ret in H. cbn [fst snd] in H. injection H as <- <- _ <-.
            destruct (parse_character_literal_text _ _ _ _ PC) as [c [-> [-> Rc]]].
            exists ([39] ++ [c; 39]). split; [eapply run_app; eassumption|].
            unfold lex_ok, lexeme_ok. cbn [t_val]. apply leqb_refl.
          - assert (st2 = skip_char st 39).
            { unfold parse_character_literal in PC.
              destruct (char_lookahead d (skip_char st 39)) as [[[c|]|e|a] st3]; try discriminate; congruence. }
            subst st2. eapply leaf_simple; [exact R1|exact H|reflexivity]. }
        clear E.
        destruct (b =? 45) eqn:E; [apply N.eqb_eq in E; subst b; eapply leaf_simple; [exact R1|exact H|reflexivity]|clear E].
        destruct (b =? 34) eqn:E.
        { apply N.eqb_eq in E; subst b. bok H q st2 PQ. unfold ret in H. injection H as <- <- _ <-.
          destruct (parse_quoted_text _ _ _ _ _ PQ) as [content [-> Rq]].
          exists ([34] ++ escape 34 content ++ [34]). split; [eapply run_app; eassumption|apply lex_ok_string]. }
        clear E.
        destruct (b =? 59) eqn:E; [apply N.eqb_eq in E; subst b; eapply leaf_simple; [exact R1|exact H|reflexivity]|clear E].
        destruct (b =? 40) eqn:E; [apply N.eqb_eq in E; subst b; eapply leaf_simple; [exact R1|exact H|reflexivity]|clear E].
        destruct (b =? 41) eqn:E; [apply N.eqb_eq in E; subst b; eapply leaf_simple; [exact R1|exact H|reflexivity]|clear E].
        destruct (b =? 43) eqn:E; [apply N.eqb_eq in E; subst b; eapply leaf_simple; [exact R1|exact H|reflexivity]|clear E].
        destruct (b =? 46) eqn:E; [apply N.eqb_eq in E; subst b; eapply leaf_simple; [exact R1|exact H|reflexivity]|clear E].
        destruct (b =? 38) eqn:E; [apply N.eqb_eq in E; subst b; eapply leaf_simple; [exact R1|exact H|reflexivity]|clear E].
        destruct (b =? 44) eqn:E; [apply N.eqb_eq in E; subst b; eapply leaf_simple; [exact R1|exact H|reflexivity]|clear E].
        destruct (b =? 61) eqn:E; [apply N.eqb_eq in E; subst b; eapply leaf_two; [exact R1|exact H|reflexivity|reflexivity]|clear E].
        destruct (b =? 60) eqn:E.
        { apply N.eqb_eq in E; subst b. bok H o2 st2 P2. pose proof (peek_ok_nomove _ _ _ P2). subst st2.
          destruct (opt_is o2 61) eqn:E1; [eapply leaf_skip_simple; [exact R1|eapply peek_opt; eassumption|exact H|reflexivity]|].
          destruct (opt_is o2 62) eqn:E2; [eapply leaf_skip_simple; [exact R1|eapply peek_opt; eassumption|exact H|reflexivity]|].
          destruct (opt_is o2 60) eqn:E3; [eapply leaf_skip_simple; [exact R1|eapply peek_opt; eassumption|exact H|reflexivity]|].
          eapply leaf_simple; [exact R1|exact H|reflexivity]. }
        clear E.
        destruct (b =? 62) eqn:E.
        { apply N.eqb_eq in E; subst b. bok H o2 st2 P2. pose proof (peek_ok_nomove _ _ _ P2). subst st2.
          destruct (opt_is o2 61) eqn:E1; [eapply leaf_skip_simple; [exact R1|eapply peek_opt; eassumption|exact H|reflexivity]|].
          destruct (opt_is o2 62) eqn:E2; [eapply leaf_skip_simple; [exact R1|eapply peek_opt; eassumption|exact H|reflexivity]|].
          eapply leaf_simple; [exact R1|exact H|reflexivity]. }
        clear E.
        destruct (b =? 47) eqn:E; [apply N.eqb_eq in E; subst b; eapply leaf_two; [exact R1|exact H|reflexivity|reflexivity]|clear E].
        destruct (b =? 42) eqn:E; [apply N.eqb_eq in E; subst b; eapply leaf_two; [exact R1|exact H|reflexivity|reflexivity]|clear E].
        destruct (b =? 63) eqn:E.
        { apply N.eqb_eq in E; subst b. bok H o2 st2 P2. pose proof (peek_ok_nomove _ _ _ P2). subst st2.
          destruct (opt_is o2 63) eqn:E1; [eapply leaf_skip_simple; [exact R1|eapply peek_opt; eassumption|exact H|reflexivity]|].
          destruct (opt_is o2 61) eqn:E2; [eapply leaf_skip_simple; [exact R1|eapply peek_opt; eassumption|exact H|reflexivity]|].
          destruct (opt_is o2 47) eqn:E3.
          { pose proof (peek_opt _ _ _ _ P2 E3) as G2.
            bok H u2 st2 S2. pose proof (skip_ok_at _ _ _ _ G2 S2). subst st2.
            bok H s st3 SI. destruct (skip_if_ok _ _ _ _ SI) as [[-> [G3 ->]]|[-> ->]].
            - eapply leaf_simple; [eapply run_snoc; [eapply run_snoc; [exact R1|exact G2]|exact G3]|exact H|reflexivity].
            - unfold illegal in H. bok H e st4 GP. discriminate. }
          destruct (opt_is o2 60) eqn:E4; [eapply leaf_skip_two; [exact R1|eapply peek_opt; eassumption|exact H|reflexivity|reflexivity]|].
          destruct (opt_is o2 62) eqn:E5; [eapply leaf_skip_two; [exact R1|eapply peek_opt; eassumption|exact H|reflexivity|reflexivity]|].
          eapply leaf_simple; [exact R1|exact H|reflexivity]. }
        clear E.
        destruct (b =? 94) eqn:E; [apply N.eqb_eq in E; subst b; eapply leaf_simple; [exact R1|exact H|reflexivity]|clear E].
        destruct (b =? 64) eqn:E; [apply N.eqb_eq in E; subst b; eapply leaf_simple; [exact R1|exact H|reflexivity]|clear E].
        destruct (b =? 124) eqn:E; [apply N.eqb_eq in E; subst b; eapply leaf_simple; [exact R1|exact H|reflexivity]|clear E].
        destruct (b =? 91) eqn:E; [apply N.eqb_eq in E; subst b; eapply leaf_simple; [exact R1|exact H|reflexivity]|clear E].
        destruct (b =? 93) eqn:E; [apply N.eqb_eq in E; subst b; eapply leaf_simple; [exact R1|exact H|reflexivity]|clear E].
        destruct (b =? 92) eqn:E.
        { apply N.eqb_eq in E; subst b. bok H q st2 PQ. unfold ret in H. injection H as <- <- _ <-.
          destruct (parse_quoted_text _ _ _ _ _ PQ) as [content [-> Rq]].
          exists ([92] ++ escape 92 content ++ [92]). split; [eapply run_app; eassumption|apply lex_ok_ext]. }
        clear E.
        destruct (b =? 96) eqn:E; [apply N.eqb_eq in E; subst b; eapply leaf_simple; [exact R1|exact H|reflexivity]|clear E].
        unfold illegal in H. bok H e st4 GP. discriminate.
  Qed.
End Text.

(* ---------------------------------------------------------------------------------------- *)
(* tokens of the stream                                                                      *)
(* ---------------------------------------------------------------------------------------- *)
From RH Require Import Lex.LangLexerComments.

Section StreamText.
  Variable d : list (list char).
  Variable kws : list (list N).
  Variable F : nat.
  Hypothesis HD : Forall lf_last d.

  (* the token's range is delimited by two invariant reader states, and the characters consumed
     between them spell the token's lexeme *)
  Definition tok_exact (tok : token) : Prop :=
    exists r1 r2 l, RInv d r1 /\ run d l r1 r2 /\ t_s tok = r_pos r1 /\ t_e tok = r_pos r2 /\
                    lexeme_ok tok l = true.

  Lemma pop_raw_text : forall t tok t', RInv d (k_rd t) ->
    pop_raw d kws F true t = (Ok (Some tok), t') -> tok_exact tok.
  Proof.
    intros t tok t' HI H. unfold pop_raw in H.
    destruct (leading_comments d F F [] (k_rd t)) as [[lead|e|a] r1] eqn:LC; try discriminate.
    destruct (nocr_leading_comments d F _ _ _ _ _ HI LC) as [_ I1].
    destruct (parse_token d kws F true (r_pos r1) (k_last t) r1) as [[[[[k v] w]|]|e|a] r2] eqn:PT; try discriminate.
    destruct (trailing_comment d F r2) as [[tr|e|a] r3] eqn:TC; try discriminate.
    injection H as <- <-.
    destruct (parse_token_text d kws F HD _ _ _ _ _ _ _ I1 PT) as [l [R Hl]].
    exists r1, r2, l. split; [exact I1|]. split; [exact R|]. cbn [t_s t_e]. split; [reflexivity|]. split; [reflexivity|].
    rewrite lexeme_ok_lex_ok. cbn [t_kind t_val]. exact Hl.
  Qed.

  Lemma lex_text : forall fuel t toks diags, RInv d (k_rd t) ->
    lex d kws F true fuel t = Done toks diags -> Forall tok_exact toks.
  Proof.
    induction fuel as [|f IH]; intros t toks diags HI H; [discriminate|]. cbn [lex] in H.
    destruct (tk_pop d kws F true F t) as [r t1] eqn:TP.
    destruct (tk_pop_from _ _ _ _ _ _ _ _ TP) as [A T].
    destruct (tk_pop_nocr d kws F true HD _ _ _ _ HI TP) as [_ I1].
    destruct r as [[tok|]|e|a].
    - destruct (is_grave (t_kind tok)).
      + destruct (handle_tool_directive d kws F true tok t1) as [[ds|e|a] t2] eqn:HT; try discriminate.
        destruct (handle_tool_directive_nocr d kws F true HD _ _ _ _ I1 HT) as [_ [I2 _]].
        destruct (lex d kws F true f t2) as [ts ds'|a] eqn:L; cbn [add_diags] in H; [|discriminate].
        injection H as <- _. eapply IH; [exact I2|exact L].
      + destruct (lex d kws F true f t1) as [ts ds'|a] eqn:L; cbn [add_tok] in H; [|discriminate].
        injection H as <- _. constructor; [|eapply IH; [exact I1|exact L]].
        destruct (T tok eq_refl) as [t0 [t1' [B1 [B2 B3]]]].
        eapply pop_raw_text; [|exact B2]. eapply rinv_adv; [exact B1|exact HI].
    - injection H as <- _. constructor.
    - destruct (lex d kws F true f t1) as [ts ds'|a] eqn:L; cbn [add_diags] in H; [|discriminate].
      injection H as <- _. eapply IH; [exact I1|exact L].
    - discriminate.
  Qed.
End StreamText.

(* (d) token_text_exact: the source text between a token's start and end position is exactly that
   token's lexeme *)
Theorem token_text_exact_gen : forall kws fuel s toks diags,
  lex_gen kws true fuel s = Done toks diags ->
  Forall (fun t => lexeme_ok t (slice_of_text s (t_s t) (t_e t)) = true) toks.
Proof.
  intros kws fuel s toks diags H. unfold lex_gen in H.
  assert (HD : Forall lf_last (split_lines s)) by (apply cdoc_lf_last, split_cdoc).
  pose proof (lex_text (split_lines s) kws fuel HD fuel tk_start toks diags (rinv_start _) H) as HT.
  eapply Forall_impl; [|exact HT].
  intros tok [r1 [r2 [l [I1 [R [Es [Ee Hl]]]]]]]. rewrite Es, Ee.
  rewrite <- (consumed_is_slice_text s l r1 r2 I1 R). exact Hl.
Qed.
Theorem token_text_exact : forall s toks diags, lex_all s = Done toks diags ->
  Forall (fun t => lexeme_ok t (slice_of_text s (t_s t) (t_e t)) = true) toks.
Proof. intros s toks diags H. eapply token_text_exact_gen; exact H. Qed.
