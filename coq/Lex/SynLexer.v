(* Lex/SynLexer.v — executable model of the byte tokenizer of crate vhdl_syntax
   (definitions only; proofs are in Lex/SynLexerProofs.v).

   Anchors in /repo/vhdl_syntax/src/tokens:
     tokenizer.rs     consume_trivia_piece, consume_trivia, Iterator::next, abstract_literal, quoted,
                      identifier_or_keyword, tool_directive, can_be_char
     trivia_piece.rs  TriviaPiece::{byte_len, write_to}
     trivia.rs        Trivia::{byte_len, write_to}
     token.rs         Token::{byte_len, write_to}
     token_stream.rs  is_base_specifier, merge_bit_string_literals

   The tokenizer state `(current, text.peekable())` is the list of the remaining bytes: `current` is
   its head, `peek()` its second element, `skip()` drops the head.  Counts are unbounded `N`
   (`usize` in Rust; a count never exceeds the input length).

   Panics of the modelled region are explicit:
     * `unreachable!("Trivia diagnostics and token diagnostics should never occur together")` in
       `next` is the result `LexCrash`;
     * `self.skip().expect(..)` in `quoted` and `self.skip().unwrap()` in the character-literal arm are
       guarded by a match on a non-empty input in the code itself (the arm is selected on `current`),
       so they are not reachable by construction of the match and do not appear here.
   The two loops that are not structurally recursive (`consume_trivia`, the token loop) run on fuel
   with the distinct results `None` / `OutOfFuel`; `SynLexerProofs.synlex_total` excludes both. *)
From Coq Require Import List NArith Arith Bool.
From Coq Require String Ascii.
Import ListNotations.
Open Scope N_scope.

Definition byte := N.

(* Word tables are written as Coq strings; this is the only place where `String` is imported
   (it would shadow `length` and `++`). *)
Module Words.
  Import String Ascii.
  Definition str_bytes (s : string) : list byte := List.map N_of_ascii (list_ascii_of_string s).
  (* token_stream.rs: is_base_specifier *)
  Definition base_specifiers : list (list byte) :=
    List.map str_bytes ["b"; "o"; "x"; "d"; "sb"; "ub"; "so"; "uo"; "sx"; "ux"]%string.
  (* Keyword table of the default standard (VHDL-2008): every `Keyword` with
     `is_reserved_in(VHDL2008)` (introduced_in() <= VHDL2008 and not removed before it), i.e. all but
     `view`, `private`, `vpkg` (VHDL-2019), and including `assume_guarantee`, `restrict_guarantee`, which
     only VHDL-2008 reserves (commits 9360ea7, 6617c1d).
     The correspondence run compares it with the implementation word by word. *)
  Definition kw2008_words : list string :=
    ["abs"; "access"; "after"; "alias"; "all"; "and"; "architecture"; "array"; "assert"; "assume";
     "assume_guarantee";
     "attribute"; "begin"; "block"; "body"; "buffer"; "bus"; "case"; "component"; "configuration";
     "constant"; "context"; "cover"; "default"; "disconnect"; "downto"; "else"; "elsif"; "end";
     "entity"; "exit"; "fairness"; "file"; "for"; "force"; "function"; "generate"; "generic";
     "group"; "guarded"; "if"; "impure"; "in"; "inertial"; "inout"; "is"; "label"; "library";
     "linkage"; "literal"; "loop"; "map"; "mod"; "nand"; "new"; "next"; "nor"; "not"; "null"; "of";
     "on"; "open"; "or"; "others"; "out"; "package"; "parameter"; "port"; "postponed"; "procedure";
     "process"; "property"; "protected"; "pure"; "range"; "record"; "register"; "reject";
     "release"; "rem"; "report"; "restrict"; "restrict_guarantee"; "return"; "rol"; "ror"; "select"; "sequence";
     "severity"; "signal"; "shared"; "sla"; "sll"; "sra"; "srl"; "strong"; "subtype"; "then"; "to";
     "transport"; "type"; "unaffected"; "units"; "until"; "use"; "variable"; "vmode"; "vprop";
     "vunit"; "wait"; "when"; "while"; "with"; "xnor"; "xor"]%string.
  Definition kw2008 : list (list byte) := List.map str_bytes kw2008_words.
  Definition kw2019_only : list (list byte) := List.map str_bytes ["view"; "private"; "vpkg"]%string.
End Words.
Definition base_specifiers : list (list byte) := Words.base_specifiers.
Definition kw2008 : list (list byte) := Words.kw2008.
Definition kw2019_only : list (list byte) := Words.kw2019_only.

(* ------------------------------------------------------------------------------------------ *)
(* Trivia pieces (trivia_piece.rs)                                                            *)
(* ------------------------------------------------------------------------------------------ *)
Inductive tpiece :=
| HTabs (n : N) | VTabs (n : N) | CRs (n : N) | CRLFs (n : N) | LFs (n : N) | FFs (n : N)
| LineC (bs : list byte)      (* `--` + bytes                                  *)
| BlockC (bs : list byte)     (* `/*` + bytes + `*/`                           *)
| UBlockC (bs : list byte)    (* `/*` + bytes, the input ended (repair of F10) *)
| Spaces (n : N) | NBSPs (n : N).

Fixpoint rep (n : nat) (bs : list byte) : list byte :=
  match n with O => [] | S k => bs ++ rep k bs end.

(* TriviaPiece::write_to *)
Definition piece_bytes (p : tpiece) : list byte :=
  match p with
  | HTabs n => rep (N.to_nat n) [9]
  | VTabs n => rep (N.to_nat n) [11]
  | CRs n => rep (N.to_nat n) [13]
  | CRLFs n => rep (N.to_nat n) [13; 10]
  | LFs n => rep (N.to_nat n) [10]
  | FFs n => rep (N.to_nat n) [12]
  | LineC bs => [45; 45] ++ bs
  | BlockC bs => [47; 42] ++ bs ++ [42; 47]
  | UBlockC bs => [47; 42] ++ bs
  | Spaces n => rep (N.to_nat n) [32]
  | NBSPs n => rep (N.to_nat n) [160]
  end.

(* TriviaPiece::byte_len *)
Definition piece_len (p : tpiece) : N :=
  match p with
  | HTabs n | VTabs n | CRs n | LFs n | FFs n | Spaces n | NBSPs n => n
  | CRLFs n => n * 2
  | LineC bs | UBlockC bs => 2 + N.of_nat (length bs)
  | BlockC bs => 4 + N.of_nat (length bs)
  end.

(* Trivia::write_to / Trivia::byte_len (a fold from 0) *)
Definition trivia_bytes (ps : list tpiece) : list byte := concat (map piece_bytes ps).
Definition trivia_len (ps : list tpiece) : N := fold_left (fun acc p => acc + piece_len p) ps 0.

(* ------------------------------------------------------------------------------------------ *)
(* consume_trivia_piece                                                                        *)
(* ------------------------------------------------------------------------------------------ *)
(* count_chars!(c): `while self.skip_if_eq(c) { count += 1 }` *)
Fixpoint count (c : byte) (s : list byte) : N * list byte :=
  match s with
  | x :: r => if x =? c then let '(n, r') := count c r in (n + 1, r') else (0, s)
  | [] => (0, [])
  end.

(* `while self.current == Some(b'\r') && self.peek() == Some(b'\n') { skip; skip; count += 1 }` *)
Fixpoint count_crlf (s : list byte) : N * list byte :=
  match s with
  | a :: b :: r =>
    if (a =? 13) && (b =? 10) then let '(n, r') := count_crlf r in (n + 1, r') else (0, s)
  | _ => (0, s)
  end.

(* `while let Some(ch) = self.skip_if(|ch| !matches!(ch, b'\r' | b'\n'))` *)
Fixpoint take_line (s : list byte) : list byte * list byte :=
  match s with
  | x :: r => if (x =? 13) || (x =? 10) then ([], s) else let '(a, b) := take_line r in (x :: a, b)
  | [] => ([], [])
  end.

(* body of a block comment after `/*`: (bytes, rest, terminated) *)
Fixpoint take_block (s : list byte) : list byte * list byte * bool :=
  match s with
  | [] => ([], [], false)
  | x :: r =>
    if (x =? 42) && (match r with y :: _ => y =? 47 | [] => false end) then ([], tl r, true)
    else let '(a, b, t) := take_block r in (x :: a, b, t)
  end.

(* is the second byte (`peek()`) equal to c *)
Definition is2 (s : list byte) (c : byte) : bool :=
  match s with _ :: y :: _ => y =? c | _ => false end.

(* result: piece, remaining input, "unterminated block comment" *)
Definition trivia_piece (s : list byte) : option (tpiece * list byte * bool) :=
  match s with
  | [] => None
  | c :: r =>
    if c =? 9 then let '(n, r') := count 9 s in Some (HTabs n, r', false)
    else if c =? 11 then let '(n, r') := count 11 s in Some (VTabs n, r', false)
    else if c =? 13 then
      if is2 s 10 then let '(n, r') := count_crlf s in Some (CRLFs n, r', false)
      else let '(n, r') := count 13 s in Some (CRs n, r', false)
    else if c =? 12 then let '(n, r') := count 12 s in Some (FFs n, r', false)
    else if c =? 10 then let '(n, r') := count 10 s in Some (LFs n, r', false)
    else if c =? 32 then let '(n, r') := count 32 s in Some (Spaces n, r', false)
    else if (c =? 45) && is2 s 45 then
      let '(a, b) := take_line (tl r) in Some (LineC a, b, false)
    else if (c =? 47) && is2 s 42 then
      let '(a, b, t) := take_block (tl r) in
      if t then Some (BlockC a, b, false) else Some (UBlockC a, b, true)
    else if c =? 160 then let '(n, r') := count 160 s in Some (NBSPs n, r', false)
    else None
  end.

(* consume_trivia: pieces, remaining input, whether the last piece is an unterminated block
   comment (then the Rust code returns `LexErr::trivia(len - 1, Unterminated(BlockComment))`).
   `None` = out of fuel. *)
Fixpoint trivia (fuel : nat) (s : list byte) : option (list tpiece * list byte * bool) :=
  match fuel with
  | O => None
  | S f =>
    match trivia_piece s with
    | None => Some ([], s, false)
    | Some (p, r, unterm) =>
      if unterm then Some ([p], r, true)
      else match trivia f r with
           | Some (ps, r', u) => Some (p :: ps, r', u)
           | None => None
           end
    end
  end.

(* ------------------------------------------------------------------------------------------ *)
(* Token kinds (token_kind.rs).  `KKeyword kw` carries the lower-case spelling of the keyword.  *)
(* ------------------------------------------------------------------------------------------ *)
Inductive kind :=
| KKeyword (kw : list byte)
| KPlus | KMinus | KEQ | KNE | KLT | KLTE | KGT | KGTE
| KQueEQ | KQueNE | KQueLT | KQueLTE | KQueGT | KQueGTE | KQue | KQueQue
| KTimes | KPow | KDiv | KTick | KLeftPar | KRightPar | KLeftSquare | KRightSquare
| KSemiColon | KColon | KBar | KDot | KBOX | KLtLt | KGtGt | KCirc | KCommAt | KConcat | KComma
| KColonEq | KRightArrow
| KIdentifier | KAbstractLiteral | KStringLiteral | KBitStringLiteral | KCharacterLiteral
| KToolDirective | KUnknown | KEof.

(* LexErrKind / UnterminatedKind *)
Inductive errkind := EUntermString | EUntermBased | EUntermExtId | EUntermBlockComment | EIllegal.
(* LexErrPos *)
Inductive errpos := PToken | PTrivia (index : nat).
Definition lexerr := (errkind * errpos)%type.

Record tok := mkTok { t_kind : kind; t_text : list byte; t_trivia : list tpiece }.
(* item of the tokenizer: `(Token, Option<LexErr>)` *)
Definition ltok := (tok * option lexerr)%type.

(* a lexer error refers to an existing trivia piece (`trivia[index]` in SyntaxErr::from_lex_err) *)
Definition err_ok (x : ltok) : bool :=
  match snd x with
  | Some (_, PTrivia i) => (i <? length (t_trivia (fst x)))%nat
  | _ => true
  end.

(* Token::write_to, Token::text_len, Token::byte_len *)
Definition token_bytes (t : tok) : list byte := trivia_bytes (t_trivia t) ++ t_text t.
Definition text_len (t : tok) : N := N.of_nat (length (t_text t)).
Definition tok_len (t : tok) : N := trivia_len (t_trivia t) + text_len t.

(* ------------------------------------------------------------------------------------------ *)
(* Character classes and scanning helpers                                                      *)
(* ------------------------------------------------------------------------------------------ *)
Definition is_lower (c : byte) : bool := (97 <=? c) && (c <=? 122).
Definition is_upper (c : byte) : bool := (65 <=? c) && (c <=? 90).
Definition is_alpha (c : byte) : bool := is_lower c || is_upper c.
Definition is_digit (c : byte) : bool := (48 <=? c) && (c <=? 57).
(* u8::is_ascii_alphanumeric *)
Definition is_alnum (c : byte) : bool := is_alpha c || is_digit c.
(* b'a'..=b'z' | b'A'..=b'Z' | b'0'..=b'9' | b'_'  (identifier_or_keyword, based_integer) *)
Definition is_identc (c : byte) : bool := is_alpha c || is_digit c || (c =? 95).
(* b'0'..=b'9' | b'_'  (integer) *)
Definition is_intc (c : byte) : bool := is_digit c || (c =? 95).

(* fill_buffer_while *)
Fixpoint take_while (p : byte -> bool) (s : list byte) : list byte * list byte :=
  match s with
  | x :: r => if p x then let '(a, b) := take_while p r in (x :: a, b) else ([], s)
  | [] => ([], [])
  end.

(* ASCII part of Latin1Str::to_lowercase; the texts it is applied to in the modelled region
   (identifier_or_keyword buffers; identifier texts in is_base_specifier, compared with pure ASCII
   words only) make the non-ASCII part of the Latin-1 mapping irrelevant: a non-ASCII byte never
   maps to an ASCII letter. *)
Definition lower (c : byte) : byte := if is_upper c then c + 32 else c.

Fixpoint beq_bytes (a b : list byte) : bool :=
  match a, b with
  | [], [] => true
  | x :: a', y :: b' => (x =? y) && beq_bytes a' b'
  | _, _ => false
  end.

Definition hd_is (s : list byte) (c : byte) : bool :=
  match s with x :: _ => x =? c | [] => false end.

(* opt_exponent *)
Definition opt_exponent (s : list byte) : list byte * list byte :=
  match s with
  | e :: r =>
    if (e =? 101) || (e =? 69) then
      let '(sg, r1) :=
        match r with
        | x :: r' => if (x =? 43) || (x =? 45) then ([x], r') else ([], r)
        | [] => ([], r)
        end in
      let '(d, r2) := take_while is_intc r1 in (e :: sg ++ d, r2)
    else ([], s)
  | [] => ([], s)
  end.

(* abstract_literal: (text, rest, unterminated based literal).
   The replacement character ':' starts a based literal only when an ASCII alphanumeric follows
   (repair of F13); `abstract_literal_old` below is the code before that repair. *)
Definition based_tail (i : list byte) (ch : byte) (r1 : list byte) : list byte * list byte * bool :=
  let '(b, r2) := take_while is_identc r1 in
  let '(fr, r3) :=
    match r2 with
    | d :: r2' => if d =? 46 then let '(b2, r2'') := take_while is_identc r2' in ([46] ++ b2, r2'')
                  else ([], r2)
    | [] => ([], r2)
    end in
  let '(cl, r4, err) :=
    match r3 with
    | x :: r3' => if x =? ch then ([ch], r3', false) else ([], r3, true)
    | [] => ([], r3, true)
    end in
  let '(e, r5) := opt_exponent r4 in
  (i ++ [ch] ++ b ++ fr ++ cl ++ e, r5, err).

Definition abstract_literal (s : list byte) : list byte * list byte * bool :=
  let '(i, r) := take_while is_intc s in
  match r with
  | [] => (i, r, false)
  | ch :: r1 =>
    if ch =? 46 then
      let '(f, r2) := take_while is_intc r1 in
      let '(e, r3) := opt_exponent r2 in (i ++ [46] ++ f ++ e, r3, false)
    else if (ch =? 35) || ((ch =? 58) && (match r1 with x :: _ => is_alnum x | [] => false end)) then
      based_tail i ch r1
    else if (ch =? 101) || (ch =? 69) then
      let '(e, r2) := opt_exponent r in (i ++ e, r2, false)
    else (i, r, false)
  end.

Definition abstract_literal_old (s : list byte) : list byte * list byte * bool :=
  let '(i, r) := take_while is_intc s in
  match r with
  | [] => (i, r, false)
  | ch :: r1 =>
    if ch =? 46 then
      let '(f, r2) := take_while is_intc r1 in
      let '(e, r3) := opt_exponent r2 in (i ++ [46] ++ f ++ e, r3, false)
    else if (ch =? 35) || (ch =? 58) then based_tail i ch r1
    else if (ch =? 101) || (ch =? 69) then
      let '(e, r2) := opt_exponent r in (i ++ e, r2, false)
    else (i, r, false)
  end.

(* quoted: the first byte is the quote; (text, rest, terminated) *)
Fixpoint quoted_body (q : byte) (s : list byte) : list byte * list byte * bool :=
  match s with
  | [] => ([], [], false)
  | x :: r =>
    if x =? q then
      match r with
      | y :: r2 => if y =? q then let '(a, b, t) := quoted_body q r2 in (x :: y :: a, b, t)
                   else ([x], r, true)
      | [] => ([x], [], true)
      end
    else let '(a, b, t) := quoted_body q r in (x :: a, b, t)
  end.
Definition quoted (s : list byte) : list byte * list byte * bool :=
  match s with
  | q :: r => let '(a, b, t) := quoted_body q r in (q :: a, b, t)
  | [] => ([], [], false)
  end.

Definition kw_all : list byte := [97; 108; 108].

(* can_be_char: a tick after `]`, `)`, `all` or an identifier is never a character literal *)
Definition can_be_char (last : option kind) : bool :=
  match last with
  | Some KRightSquare | Some KRightPar | Some KIdentifier => false
  | Some (KKeyword kw) => negb (beq_bytes kw kw_all)
  | _ => true
  end.

(* identifier_or_keyword; `kws` = lower-case spellings of the keywords reserved under the
   tokenizer's standard (`Kw::from_latin1(buf).filter(|kw| kw.is_reserved_in(standard))`) *)
Definition ident_kind (kws : list (list byte)) (t : list byte) : kind :=
  let l := map lower t in
  if existsb (beq_bytes l) kws then KKeyword l else KIdentifier.

(* ------------------------------------------------------------------------------------------ *)
(* Iterator::next: one token from a non-empty remaining input (after the trivia)                *)
(* ------------------------------------------------------------------------------------------ *)
Definition one (k : kind) (n : nat) (s : list byte) : kind * list byte * list byte * option errkind :=
  (k, firstn n s, skipn n s, None).

Definition token (kws : list (list byte)) (last : option kind) (s : list byte)
  : kind * list byte * list byte * option errkind :=
  match s with
  | [] => (KEof, [], [], None)
  | c :: r =>
    if is_alpha c then
      let '(t, r') := take_while is_identc s in (ident_kind kws t, t, r', None)
    else if is_digit c then
      let '(t, r', e) := abstract_literal s in
      (KAbstractLiteral, t, r', if e then Some EUntermBased else None)
    else if c =? 58 then (if hd_is r 61 then one KColonEq 2 s else one KColon 1 s)
    else if c =? 39 then
      (if can_be_char last && is2 r 39 then one KCharacterLiteral 3 s else one KTick 1 s)
    else if c =? 45 then one KMinus 1 s
    else if c =? 34 then
      let '(t, r', term) := quoted s in
      (KStringLiteral, t, r', if term then None else Some EUntermString)
    else if c =? 59 then one KSemiColon 1 s
    else if c =? 40 then one KLeftPar 1 s
    else if c =? 41 then one KRightPar 1 s
    else if c =? 43 then one KPlus 1 s
    else if c =? 46 then one KDot 1 s
    else if c =? 38 then one KConcat 1 s
    else if c =? 44 then one KComma 1 s
    else if c =? 61 then (if hd_is r 62 then one KRightArrow 2 s else one KEQ 1 s)
    else if c =? 60 then
      (if hd_is r 61 then one KLTE 2 s
       else if hd_is r 62 then one KBOX 2 s
       else if hd_is r 60 then one KLtLt 2 s
       else one KLT 1 s)
    else if c =? 62 then
      (if hd_is r 61 then one KGTE 2 s
       else if hd_is r 62 then one KGtGt 2 s
       else one KGT 1 s)
    else if c =? 47 then (if hd_is r 61 then one KNE 2 s else one KDiv 1 s)
    else if c =? 42 then (if hd_is r 42 then one KPow 2 s else one KTimes 1 s)
    else if c =? 63 then
      (if hd_is r 63 then one KQueQue 2 s
       else if hd_is r 61 then one KQueEQ 2 s
       else if hd_is r 47 then (if is2 r 61 then one KQueNE 3 s else one KQue 1 s)
       else if hd_is r 60 then (if is2 r 61 then one KQueLTE 3 s else one KQueLT 2 s)
       else if hd_is r 62 then (if is2 r 61 then one KQueGTE 3 s else one KQueGT 2 s)
       else one KQue 1 s)
    else if c =? 94 then one KCirc 1 s
    else if c =? 64 then one KCommAt 1 s
    else if c =? 124 then one KBar 1 s
    else if c =? 91 then one KLeftSquare 1 s
    else if c =? 93 then one KRightSquare 1 s
    else if c =? 92 then
      let '(t, r', term) := quoted s in
      (KIdentifier, t, r', if term then None else Some EUntermExtId)
    else if c =? 96 then
      let '(t, r') := take_line s in (KToolDirective, t, r', None)
    else (KUnknown, [c], r, Some EIllegal)
  end.

(* ------------------------------------------------------------------------------------------ *)
(* The token loop                                                                              *)
(* ------------------------------------------------------------------------------------------ *)
Inductive lexres := LexOk (ts : list ltok) | LexCrash | OutOfFuel.

(* the `match (trivia_diag, token_diag)` at the end of `next` *)
Definition combine_diag (tr : list tpiece) (unterm : bool) (e : option errkind) : option (option lexerr) :=
  match unterm, e with
  | true, None => Some (Some (EUntermBlockComment, PTrivia (length tr - 1)))
  | false, Some k => Some (Some (k, PToken))
  | false, None => Some None
  | true, Some _ => None              (* unreachable!(..) *)
  end.

Fixpoint lex (kws : list (list byte)) (fuel : nat) (last : option kind) (s : list byte) : lexres :=
  match fuel with
  | O => OutOfFuel
  | S f =>
    match trivia (S (length s)) s with
    | None => OutOfFuel
    | Some (tr, r, unterm) =>
      match r with
      | [] =>
        (* `Token::eof(trivia)` with `trivia_diag`; the next call returns None (eof_emitted) *)
        LexOk [(mkTok KEof [] tr,
                if unterm then Some (EUntermBlockComment, PTrivia (length tr - 1)) else None)]
      | _ :: _ =>
        let '(k, t, r', e) := token kws last r in
        match combine_diag tr unterm e with
        | None => LexCrash
        | Some d =>
          match lex kws f (Some k) r' with
          | LexOk ts => LexOk ((mkTok k t tr, d) :: ts)
          | LexCrash => LexCrash
          | OutOfFuel => OutOfFuel
          end
        end
      end
    end
  end.

(* `bytes.tokenize().collect()` *)
Definition synlex (kws : list (list byte)) (bs : list byte) : lexres := lex kws (S (length bs)) None bs.

(* ------------------------------------------------------------------------------------------ *)
(* token_stream.rs: merge_bit_string_literals                                                   *)
(* ------------------------------------------------------------------------------------------ *)
Definition is_base_specifier (t : list byte) : bool := existsb (beq_bytes (map lower t)) base_specifiers.

Definition is_ident (k : kind) : bool := match k with KIdentifier => true | _ => false end.
Definition is_abs (k : kind) : bool := match k with KAbstractLiteral => true | _ => false end.
Definition is_str (k : kind) : bool := match k with KStringLiteral => true | _ => false end.
Definition no_trivia (t : tok) : bool := match t_trivia t with [] => true | _ :: _ => false end.
(* Option::or *)
Definition or_err (a b : option lexerr) : option lexerr := match a with Some _ => a | None => b end.

Fixpoint merge (ts : list ltok) : list ltok :=
  match ts with
  | [] => []
  | (t, d) :: rest =>
    if is_ident (t_kind t) && is_base_specifier (t_text t) then
      match rest with
      | (s, ds) :: rest' =>
        if is_str (t_kind s) && no_trivia s then
          (mkTok KBitStringLiteral (t_text t ++ t_text s) (t_trivia t), or_err d ds) :: merge rest'
        else (t, d) :: merge rest
      | [] => (t, d) :: merge rest
      end
    else if is_abs (t_kind t) then
      match rest with
      | (i, di) :: (s, ds) :: rest' =>
        (* the length of a bit string literal is an integer: digits and underscores only (repair of
           finding F41, commit f2c0e80; `merge_old` below is the code before it) *)
        if forallb is_intc (t_text t) && is_ident (t_kind i) && no_trivia i && is_base_specifier (t_text i)
           && is_str (t_kind s) && no_trivia s then
          (mkTok KBitStringLiteral (t_text t ++ t_text i ++ t_text s) (t_trivia t),
           or_err (or_err d di) ds) :: merge rest'
        else (t, d) :: merge rest
      | _ => (t, d) :: merge rest
      end
    else (t, d) :: merge rest
  end.

(* merge_bit_string_literals before commit f2c0e80 (finding F41): ANY abstract literal (real, based, with
   exponent) was merged with a following base specifier and string, e.g. `1.5x"0"` *)
Fixpoint merge_old (ts : list ltok) : list ltok :=
  match ts with
  | [] => []
  | (t, d) :: rest =>
    if is_ident (t_kind t) && is_base_specifier (t_text t) then
      match rest with
      | (s, ds) :: rest' =>
        if is_str (t_kind s) && no_trivia s then
          (mkTok KBitStringLiteral (t_text t ++ t_text s) (t_trivia t), or_err d ds) :: merge_old rest'
        else (t, d) :: merge_old rest
      | [] => (t, d) :: merge_old rest
      end
    else if is_abs (t_kind t) then
      match rest with
      | (i, di) :: (s, ds) :: rest' =>
        if is_ident (t_kind i) && no_trivia i && is_base_specifier (t_text i)
           && is_str (t_kind s) && no_trivia s then
          (mkTok KBitStringLiteral (t_text t ++ t_text i ++ t_text s) (t_trivia t),
           or_err (or_err d di) ds) :: merge_old rest'
        else (t, d) :: merge_old rest
      | _ => (t, d) :: merge_old rest
      end
    else (t, d) :: merge_old rest
  end.

(* `TokenStream::from(bytes)`: tokenize, collect, merge *)
Definition token_stream (kws : list (list byte)) (bs : list byte) : option (list ltok) :=
  match synlex kws bs with LexOk ts => Some (merge ts) | _ => None end.

(* ------------------------------------------------------------------------------------------ *)
(* The code before the repair of F10 (commit 47e2155): there was no `UnterminatedBlockComment`;     *)
(* the unterminated comment was returned as `BlockComment(bytes)` with the same diagnostic.     *)
(* ------------------------------------------------------------------------------------------ *)
Definition piece_old (p : tpiece) : tpiece := match p with UBlockC bs => BlockC bs | _ => p end.
Definition tok_old (t : tok) : tok := mkTok (t_kind t) (t_text t) (map piece_old (t_trivia t)).
Definition synlex_old (kws : list (list byte)) (bs : list byte) : lexres :=
  match synlex kws bs with
  | LexOk ts => LexOk (map (fun x => (tok_old (fst x), snd x)) ts)
  | r => r
  end.

