(* Lex/Render.v — executable model of the formatter's output buffer
   (vhdl_lang/src/formatting/buffer.rs: Buffer::{new, push_whitespace, format_comment,
   format_leading_comments, indent, push_token, increase_indent, decrease_indent, line_break,
   line_breaks}, leading_comment_is_on_token_line) and the separator discipline `sep_ok`.

   The buffer is modelled as the list of *pieces* it has written, newest first:
       PBlank c   one `push_ch(' ')` / `push_ch('\n')` (indentation = 4*level blanks)
       PLine v    format_comment of a `--` comment: "--" ++ v        (v = value.trim_end())
       PBlock v   format_comment of a block comment: "/*" ++ v ++ "*/"
       PLex t     the text of token t (the `match &token.value` of push_token)
   so that `piece_text` flattened is exactly the String the Rust code builds, and the
   structure needed to state the separator discipline is kept.  The per-node formatter arms
   (formatting/{design,declaration,...}.rs) are NOT modelled: what they do is a *trace* —
   a list of buffer operations `op` — which the check reconstructs from the real output of
   every explored file and replays through this model (byte-for-byte comparison).

   Panics of the modelled region are explicit `None`:
     * `decrease_indent` at level 0 (`usize` underflow; overflow checks are on in the harness),
     * `next_comment.range.start.line - comment.range.end.line` (u32) when negative.
   No proofs in this file. *)
From Coq Require Import List NArith Arith Bool.
Import ListNotations.
From RH Require Import Text.Contents Text.Reader Lex.LangLexer Lex.LexSpec.
Open Scope N_scope.

(* ---------- token text ---------- *)
(* kind_str(kind) for the kinds that carry Value::None: keywords print their lower-case name,
   delimiters their spelling *)
Definition kind_text (k : kind) : list N :=
  match k with KKw n => n | k => delim_text k end.

(* the `match &token.value` of push_token.  An identifier prints `Symbol::name_utf8()`; when that
   name starts and (after the first character) ends with a backslash it is an extended identifier
   whose stored name is un-escaped: its interior backslashes are doubled again (commit 74eb856).
   `ext_escape = false` is the code before that commit (finding F42: `\a\\b\` was printed `\a\b\`). *)
Definition ext_ident_text (n : list N) : list N :=
  match n with
  | c :: r =>
    if (c =? 92) && negb (match r with [] => true | _ => false end) && (last r 0 =? 92)
    then 92 :: escape 92 (removelast r) ++ [92] else n
  | [] => n
  end.
Definition tok_text_gen (ext_escape : bool) (t : token) : list char :=
  match t_val t with
  | VIdent n => if ext_escape then ext_ident_text n else n
  | VString v => 34 :: escape 34 v ++ [34]
  | VBitString txt _ _ _ => txt
  | VAbsInt txt _ => txt
  | VAbsReal txt => txt
  | VChar c => [39; c; 39]
  | VText x => x
  | VNone => kind_text (t_kind t)
  end.
Definition tok_text := tok_text_gen true.
Definition tok_text_old := tok_text_gen false.

(* str::trim_end (char::is_whitespace) *)
Definition trim_end (l : list char) : list char := rev (trim_start (rev l)).

(* ---------- pieces ---------- *)
Inductive piece :=
| PBlank (c : char)
| PLine (v : list char)
| PBlock (v : list char)
| PLex (t : token).

Definition piece_text (p : piece) : list char :=
  match p with
  | PBlank c => [c]
  | PLine v => 45 :: 45 :: v
  | PBlock v => 47 :: 42 :: v ++ [42; 47]
  | PLex t => tok_text t
  end.
Definition pieces_text (ps : list piece) : list char := flat_map piece_text ps.

(* Buffer::format_comment *)
Definition fmt_comment (c : comment) : piece :=
  if c_multi c then PBlock (c_val c) else PLine (trim_end (c_val c)).

(* ---------- the buffer ---------- *)
Record buffer := { b_rev : list piece; b_extra : bool; b_ind : N }.
Definition buf0 : buffer := {| b_rev := []; b_extra := false; b_ind := 0 |}.
Definition push (b : buffer) (ps : list piece) : buffer :=
  {| b_rev := rev ps ++ b_rev b; b_extra := b_extra b; b_ind := b_ind b |}.
Definition set_extra (b : buffer) (e : bool) : buffer :=
  {| b_rev := b_rev b; b_extra := e; b_ind := b_ind b |}.
Definition INDENT_WIDTH : N := 4.
Definition indent_pieces (b : buffer) : list piece :=
  repeat (PBlank 32) (N.to_nat (INDENT_WIDTH * b_ind b)).
(* line_break / line_breaks *)
Definition line_breaks (n : N) (b : buffer) : buffer :=
  push (set_extra b false) (repeat (PBlank 10) (N.to_nat n) ++ indent_pieces b).
Definition line_break (b : buffer) : buffer := line_breaks 1 b.
Definition push_whitespace (b : buffer) : buffer :=
  if b_extra b then b else push b [PBlank 32].
Definition increase_indent (b : buffer) : buffer :=
  {| b_rev := b_rev b; b_extra := b_extra b; b_ind := b_ind b + 1 |}.
Definition decrease_indent (b : buffer) : option buffer :=
  if b_ind b =? 0 then None
  else Some {| b_rev := b_rev b; b_extra := b_extra b; b_ind := b_ind b - 1 |}.

(* format_leading_comments *)
Fixpoint fmt_leading (b : buffer) (cs : list comment) : option buffer :=
  match cs with
  | [] => Some b
  | c :: r =>
    let b1 := push b [fmt_comment c] in
    match r with
    | nx :: _ =>
      if fst (c_s nx) <? fst (c_e c) then None
      else fmt_leading (line_breaks (N.max (fst (c_s nx) - fst (c_e c)) 1) b1) r
    | [] => Some (line_break b1)
    end
  end.

Definition on_token_line (c : comment) (t : token) : bool :=
  c_multi c && (fst (c_s c) =? fst (c_e c)) && (fst (t_s t) =? fst (c_s c)).

(* `self.inner.chars().next_back()`: the last character written so far *)
Fixpoint last_char (rev_ps : list piece) : option char :=
  match rev_ps with
  | [] => None
  | p :: r => match rev (piece_text p) with c :: _ => Some c | [] => last_char r end
  end.
(* comment_merges_with_previous_char (commit 9420374): `-` + `--`, `?` + `/*` *)
Definition comment_merges (c : comment) (prev : char) : bool :=
  if c_multi c then prev =? 63 else prev =? 45.

(* push_token.  `sepfix = false` is the code before commit 9420374 (finding F40: a leading comment was
   written directly behind the previous token: `-` `-- c` gave `--- c`). *)
Definition sep_before_comment (sepfix : bool) (b0 : buffer) (lead : list comment) : buffer :=
  match last_char (b_rev b0), lead with
  | Some prev, c :: _ => if sepfix && comment_merges c prev then push b0 [PBlank 32] else b0
  | _, _ => b0
  end.
Definition push_leading (b : buffer) (t : token) : option buffer :=
  match t_lead t with
  | [] => Some b
  | [c] => if on_token_line c t then Some (push b [fmt_comment c; PBlank 32]) else fmt_leading b [c]
  | cs => fmt_leading b cs
  end.
Definition push_text_trailing (b1 : buffer) (t : token) : buffer :=
  let b2 := push b1 [PLex t] in
  match t_trail t with
  | Some c => set_extra (push b2 [PBlank 32; fmt_comment c]) true
  | None => b2
  end.
Definition push_token_gen (sepfix : bool) (b : buffer) (t : token) : option buffer :=
  let b0 := set_extra (if b_extra b then line_break b else b) false in
  let b1 := sep_before_comment sepfix b0 (t_lead t) in
  match push_leading b1 t with
  | None => None
  | Some b2 => Some (push_text_trailing b2 t)
  end.
Definition push_token := push_token_gen true.
Definition push_token_old := push_token_gen false.

(* ---------- traces: what a formatter run does to the buffer ---------- *)
Inductive sop := SWs | SBreak | SBreaks (n : N) | SInc | SDec.     (* the non-token operations *)
Definition sep := list sop.
Inductive op := OTok (t : token) | OSep (s : sop).

Definition run_sop (b : buffer) (s : sop) : option buffer :=
  match s with
  | SWs => Some (push_whitespace b)
  | SBreak => Some (line_break b)
  | SBreaks n => Some (line_breaks n b)
  | SInc => Some (increase_indent b)
  | SDec => decrease_indent b
  end.
Definition run_op (b : buffer) (o : op) : option buffer :=
  match o with OTok t => push_token b t | OSep s => run_sop b s end.
Fixpoint run_ops (b : buffer) (l : list op) : option buffer :=
  match l with
  | [] => Some b
  | o :: r => match run_op b o with Some b' => run_ops b' r | None => None end
  end.
(* the same with the push_token of before commit 9420374 (for the refutation of the old behaviour) *)
Fixpoint run_ops_old (b : buffer) (l : list op) : option buffer :=
  match l with
  | [] => Some b
  | OTok t :: r => match push_token_old b t with Some b' => run_ops_old b' r | None => None end
  | OSep s :: r => match run_sop b s with Some b' => run_ops_old b' r | None => None end
  end.
Definition render_ops_old (l : list op) : option (list char) :=
  match run_ops_old buf0 l with Some b => Some (pieces_text (rev_append (b_rev b) [])) | None => None end.
Definition render_pieces (l : list op) : option (list piece) :=
  match run_ops buf0 l with Some b => Some (rev_append (b_rev b) []) | None => None end.   (* = rev (b_rev b), linear *)
Definition render_ops (l : list op) : option (list char) :=
  match render_pieces l with Some ps => Some (pieces_text ps) | None => None end.

(* a token list with a separator after every token (and one before the first) *)
Definition trace_of (s0 : sep) (l : list (token * sep)) : list op :=
  map OSep s0 ++ flat_map (fun ts => OTok (fst ts) :: map OSep (snd ts)) l.
Definition render (s0 : sep) (l : list (token * sep)) : option (list char) := render_ops (trace_of s0 l).
Definition ops_tokens (l : list op) : list token :=
  flat_map (fun o => match o with OTok t => [t] | OSep _ => [] end) l.

(* ---------- the separator discipline ---------- *)
(* the first n characters of the text of a piece list *)
Fixpoint take_text (n : nat) (ps : list piece) : list char :=
  match ps with
  | [] => []
  | p :: r =>
    match n with
    | O => []
    | _ => let t := firstn n (piece_text p) in t ++ take_text (n - length t) r
    end
  end.

Definition lat (c : N) : bool := c <? 256.
Definition nonl (c : N) : bool := negb (c =? 10) && negb (c =? 13).
Definition is_idc (c : N) : bool := is_alnum c || (c =? 95).
Definition hd_is (r : list char) (v : N) : bool := match r with c :: _ => c =? v | [] => false end.
Definition hd_sat (r : list char) (f : N -> bool) : bool := match r with c :: _ => f c | [] => false end.
Definition hd_lat_b (r : list char) : bool := match r with c :: _ => c <? 256 | [] => true end.
(* the second character, if any, is Latin-1 and not a tick *)
Definition snd_not_tick (r : list char) : bool :=
  match r with _ :: c2 :: _ => (c2 <? 256) && negb (c2 =? 39) | _ => true end.

(* the base specifiers: b o x d ub uo ux sb so sx (any letter case) *)
Definition is_bs_name (n : list N) : bool :=
  match map lowercase n with
  | [c] => (c =? 98) || (c =? 111) || (c =? 120) || (c =? 100)
  | [c; e] => ((c =? 117) || (c =? 115)) && ((e =? 98) || (e =? 111) || (e =? 120))
  | _ => false
  end.

(* `follow_kv last k v rest`: the tokenizer arm that reads the text of a token of kind k and value v,
   entered with `last` as the previous token kind, stops exactly at the end of that text and yields
   (k, v) when the text is followed by `rest` (only the first two characters matter):
     identifier / keyword / number followed by an identifier character; `x` `"..."` (bit string);
     `-` `-` and `/` `*` (comment), `<` `=`, `:` `=`, `=` `>`, `*` `*`, `?` + operator character,
     tick vs character literal, string after string, integer followed by `.` `#` or a letter ...
   The next character must be Latin-1 (the tokenizer looks at it through the checking `peek`). *)
Definition ident_follow (n : list N) (rest : list char) : bool :=
  negb (hd_sat rest is_idc) && negb (is_bs_name n && hd_is rest 34).
(* behind a number: no identifier character (digit, letter, underscore), no `.`, no `#`, no `:` (since commit
   bba3236 `16:FF:` is a based literal: a ':' behind the digits starts one when a letter or digit follows); and no
   sign when the number ends with `e`/`E` (the tokenizer accepts an empty exponent: `1e` followed by `-` would read
   the sign) *)
Definition ends_e (txt : list N) : bool := match rev txt with c :: _ => is_e c | [] => false end.
Definition num_follow (txt : list N) (rest : list char) : bool :=
  negb (hd_sat rest is_idc) && negb (hd_is rest 46) && negb (hd_is rest 35) && negb (hd_is rest 58)
  && negb (ends_e txt && (hd_is rest 45 || hd_is rest 43)).
Definition follow_delim (last : option kind) (k : kind) (rest : list char) : bool :=
  let c1 := hd_is rest in
  match k with
  | KColon => negb (c1 61)
  | KTick => negb (can_be_char last) || snd_not_tick rest
  | KMinus => negb (c1 45)
  | KEQ => negb (c1 62)
  | KLT => negb (c1 61 || c1 62 || c1 60)
  | KGT => negb (c1 61 || c1 62)
  | KDiv => negb (c1 61 || c1 42)
  | KTimes => negb (c1 42)
  | KQue => negb (c1 63 || c1 61 || c1 47 || c1 60 || c1 62)
  | KQueLT => negb (c1 61)
  | KQueGT => negb (c1 61)
  | KKw n => ident_follow n rest
  | _ => true
  end.
Definition follow_kv (last : option kind) (k : kind) (v : value) (rest : list char) : bool :=
  hd_lat_b rest &&
  match v with
  | VNone => follow_delim last k rest
  | VIdent n => if hd_is n 92 then negb (hd_is rest 92) else ident_follow n rest
  | VString _ => negb (hd_is rest 34)
  | VChar _ => can_be_char last
  | VAbsInt txt _ => num_follow txt rest
  | VAbsReal txt => num_follow txt rest
  | VBitString txt _ _ _ => negb (hd_is rest 34) && (if hd_sat txt is_digit then num_follow txt rest else true)
  | VText _ => true
  end.
Definition follow_ok (last : option kind) (t : token) (rest : list char) : bool :=
  follow_kv last (t_kind t) (t_val t) rest.

(* comments as they may appear in a rendering *)
Fixpoint has_star_slash (v : list char) : bool :=
  match v with
  | a :: ((b :: _) as r) => ((a =? 42) && (b =? 47)) || has_star_slash r
  | _ => false
  end.
Definition line_ok (v : list char) : bool := forallb nonl v && negb (leqb (trim v) VHDL_LS_OFF).
Definition block_ok (v : list char) : bool :=
  negb (existsb (fun c => c =? 13) v) && negb (has_star_slash v) && negb (leqb (trim v) VHDL_LS_OFF).

(* `pieces_ok last ps`: every token text is followed by something its arm stops at, every `--`
   comment is followed by a line break (or ends the text), blanks are ' ' or LF, comments are
   printable as comments *)
Fixpoint pieces_ok (last : option kind) (ps : list piece) : bool :=
  match ps with
  | [] => true
  | p :: r =>
    match p with
    | PBlank c => ((c =? 32) || (c =? 10)) && pieces_ok last r
    | PLine v => line_ok v && (match r with [] => true | PBlank c :: _ => c =? 10 | _ => false end)
                 && pieces_ok last r
    | PBlock v => block_ok v && pieces_ok last r
    | PLex t => follow_ok last t (take_text 2 r) && negb (match tok_text t with [] => true | _ => false end)
                && pieces_ok (Some (t_kind t)) r
    end
  end.

(* Which comments of a rendering does the tokenizer attach to a token?  Those in front of a token text
   (leading), and a `--` comment that directly follows a token text, blanks between (trailing).  Comments
   behind the last token other than its trailing comment are attached to nothing: `all_attached`
   demands that there are none. *)
Fixpoint split_lex (ps : list piece) : list piece * option (token * list piece) :=
  match ps with
  | [] => ([], None)
  | PLex t :: r => ([], Some (t, r))
  | p :: r => let (g, o) := split_lex r in (p :: g, o)
  end.
Fixpoint drop_blank32 (ps : list piece) : list piece :=
  match ps with
  | PBlank c :: r => if c =? 32 then drop_blank32 r else ps
  | _ => ps
  end.
Definition after_trail (ps : list piece) : option (list char) * list piece :=
  match drop_blank32 ps with
  | PLine v :: r => (Some v, r)
  | r => (None, r)
  end.
Fixpoint gap_keys (ps : list piece) : list (bool * list char) :=
  match ps with
  | [] => []
  | PLine v :: r => (false, v) :: gap_keys r
  | PBlock v :: r => (true, v) :: gap_keys r
  | _ :: r => gap_keys r
  end.
Definition trail_key (o : option (list char)) : list (bool * list char) :=
  match o with Some v => [(false, v)] | None => [] end.
Fixpoint attached_keys (fuel : nat) (ps : list piece) : list (bool * list char) :=
  match fuel with
  | O => []
  | S f =>
    match split_lex ps with
    | (_, None) => []
    | (g, Some (_, ps2)) => gap_keys g ++ trail_key (fst (after_trail ps2)) ++ attached_keys f (snd (after_trail ps2))
    end
  end.
Definition ckey_flat (k : bool * list char) : list N := (if fst k then 1 else 0) :: N.of_nat (length (snd k)) :: snd k.
Definition key_eq_dec : forall a b : bool * list char, {a = b} + {a <> b}.
Proof. decide equality; [apply (list_eq_dec N.eq_dec)|apply bool_dec]. Defined.
Definition keys_eqb (a b : list (bool * list char)) : bool := if list_eq_dec key_eq_dec a b then true else false.
Definition all_attached (ps : list piece) : bool := keys_eqb (attached_keys (S (length ps)) ps) (gap_keys ps).

(* the separator discipline of a trace, and of a token/separator list *)
Definition ops_sep_ok (l : list op) : bool :=
  match render_pieces l with Some ps => pieces_ok None ps && all_attached ps | None => false end.
Definition sep_ok_from (s0 : sep) (l : list (token * sep)) : bool := ops_sep_ok (trace_of s0 l).
Definition sep_ok (l : list (token * sep)) : bool := sep_ok_from [] l.

(* ---------- traces over token ids (what a formatter run records: `format_token_id(id)`) ---------- *)
Inductive iop := ITok (i : nat) | ISep (s : sop).
Definition trace_ids (tr : list iop) : list nat :=
  flat_map (fun o => match o with ITok i => [i] | ISep _ => [] end) tr.
Fixpoint inst_trace (ts : list token) (tr : list iop) : option (list op) :=
  match tr with
  | [] => Some []
  | ITok i :: r =>
    match nth_error ts i, inst_trace ts r with
    | Some t, Some l => Some (OTok t :: l)
    | _, _ => None
    end
  | ISep s :: r => match inst_trace ts r with Some l => Some (OSep s :: l) | None => None end
  end.
(* the trace checker: the ids 0 .. n-1 each exactly once, in order; separators satisfy sep_ok *)
Definition ids_in_order (n : nat) (tr : list iop) : bool :=
  if list_eq_dec Nat.eq_dec (trace_ids tr) (seq 0 n) then true else false.
Definition trace_check (ts : list token) (tr : list iop) : bool :=
  ids_in_order (length ts) tr && match inst_trace ts tr with Some l => ops_sep_ok l | None => false end.

(* ---------- which tokens the round-trip theorem covers ---------- *)
Definition delim_kind (k : kind) : bool :=
  match k with
  | KColon | KColonEq | KTick | KMinus | KSemiColon | KLeftPar | KRightPar | KPlus | KDot | KConcat
  | KComma | KEQ | KRightArrow | KLT | KLTE | KBOX | KLtLt | KGT | KGTE | KGtGt | KDiv | KNE | KTimes
  | KPow | KQue | KQueQue | KQueEQ | KQueNE | KQueLT | KQueLTE | KQueGT | KQueGTE | KCirc | KCommAt
  | KBar | KLeftSquare | KRightSquare => true
  | _ => false
  end.
Definition is_keyword (n : list N) : bool := existsb (leqb n) keywords_2008.
Definition basic_ident_ok (n : list N) : bool :=
  match validate_basic_identifier n with None => negb (is_keyword (map lowercase n)) | Some _ => false end.
Definition ext_ident_ok (n : list N) : bool :=
  match n with
  | c :: r => (c =? 92) && negb (match r with [] => true | _ => false end) && (last r 0 =? 92)
              && forallb (fun x => lat x && nonl x) (removelast r)
  | [] => false
  end.
(* a decimal integer literal without exponent: digits and underscores, first a digit *)
Fixpoint dec_value (acc : N) (l : list N) : option N :=
  match l with
  | [] => Some acc
  | c :: r => if c =? 95 then dec_value acc r
              else if is_digit c then (let y := 10 * acc + (c - 48) in if y <? TWO64 then dec_value y r else None)
              else None
  end.
Definition plain_int_ok (txt : list N) (n : N) : bool :=
  hd_sat txt is_digit && match dec_value 0 txt with Some v => v =? n | None => false end.

Definition supported_kind (t : token) : bool :=
  match t_kind t, t_val t with
  | KKw n, VNone => is_keyword n
  | KIdentifier, VIdent n => basic_ident_ok n || ext_ident_ok n
  | KStringLiteral, VString v => forallb (fun x => lat x && nonl x) v
  | KCharacter, VChar c => lat c && negb (c =? 13)
  | KAbstractLiteral, VAbsInt txt n => plain_int_ok txt n
  | k, VNone => delim_kind k
  | _, _ => false
  end.
Definition pieces_supported (ps : list piece) : bool :=
  forallb (fun p => match p with PLex t => supported_kind t | _ => true end) ps.

(* ---------- what is compared ---------- *)
Definition tok_kv (t : token) : kind * value := (t_kind t, t_val t).
(* a comment up to trailing blanks: (block?, value.trim_end()) *)
Definition comment_key (c : comment) : bool * list char := (c_multi c, trim_end (c_val c)).
Definition tok_comments (t : token) : list comment :=
  t_lead t ++ match t_trail t with Some c => [c] | None => [] end.
Definition flat_comments (ts : list token) : list (bool * list char) :=
  map comment_key (flat_map tok_comments ts).
Definition same_stream (ts ts' : list token) : Prop :=
  map tok_kv ts' = map tok_kv ts /\ flat_comments ts' = flat_comments ts.

(* boolean version, used by the extracted runner *)
Definition kind_eqb (a b : kind) : bool := leqb (kind_code a) (kind_code b).
Definition value_eqb (a b : value) : bool := leqb (flat_value a) (flat_value b).
Definition same_stream_b (ts ts' : list token) : bool :=
  leqb (flat_map (fun t => kind_code (t_kind t) ++ flat_value (t_val t)) ts')
       (flat_map (fun t => kind_code (t_kind t) ++ flat_value (t_val t)) ts)
  && leqb (flat_map ckey_flat (flat_comments ts')) (flat_map ckey_flat (flat_comments ts)).

(* re-lexing a rendering: the run-time form of the round-trip statement *)
Definition relex_same (ts : list token) (text : list char) : bool :=
  match lex_all text with
  | Done ts' [] => same_stream_b ts ts'
  | _ => false
  end.
