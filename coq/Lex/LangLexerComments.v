(* Lex/LangLexerComments.v — attached comments lie between their neighbours: the leading comments of
   a token are ordered, start at or after the reader position before the token was popped (i.e. after
   the previous token and its trailing comment) and end at or before the token's start; the trailing
   comment starts at or after the token's end and ends before the next pop starts. *)
From Coq Require Import List NArith Arith Bool Lia.
Import ListNotations.
From RH Require Import Text.Contents Text.Reader Text.ReaderProofs Lex.LangLexer Lex.LexSpec Lex.LangLexerProofs.
Open Scope N_scope.

#[local] Arguments N.add : simpl never.
#[local] Arguments N.sub : simpl never.
#[local] Arguments N.eqb : simpl never.
#[local] Arguments N.ltb : simpl never.
#[local] Arguments N.leb : simpl never.

(* the comment block `cs` read from position lo ends at hi *)
Fixpoint comments_chain (lo : position) (cs : list comment) (hi : position) : Prop :=
  match cs with
  | [] => ple lo hi = true
  | c :: r => ple lo (c_s c) = true /\ ple (c_s c) (c_e c) = true /\ comments_chain (c_e c) r hi
  end.

Lemma comments_chain_weaken : forall cs lo lo' hi, ple lo' lo = true -> comments_chain lo cs hi -> comments_chain lo' cs hi.
Proof.
  intros [|c r] lo lo' hi H; cbn [comments_chain]; [intro H2; eapply ple_trans; eassumption|].
  intros [H1 H2]. split; [eapply ple_trans; eassumption|exact H2].
Qed.
Lemma comments_chain_extend : forall cs lo hi hi', ple hi hi' = true -> comments_chain lo cs hi -> comments_chain lo cs hi'.
Proof.
  induction cs as [|c r IH]; intros lo hi hi' H; cbn [comments_chain]; [intro H2; eapply ple_trans; eassumption|].
  intros [H1 [H2 H3]]. split; [exact H1|]. split; [exact H2|eapply IH; eassumption].
Qed.
Lemma comments_chain_app : forall a lo mid b hi,
  comments_chain lo a mid -> comments_chain mid b hi -> comments_chain lo (a ++ b) hi.
Proof.
  induction a as [|c r IH]; intros lo mid b hi; cbn [comments_chain app].
  - intros H1 H2. eapply comments_chain_weaken; eassumption.
  - intros [H1 [H2 H3]] H4. split; [exact H1|]. split; [exact H2|eapply IH; eassumption].
Qed.

Section Comments.
  Variable d : list (list char).
  Variable kws : list (list N).
  Variable F : nat.
  Local Notation adv := (adv d).
  Local Notation sadv := (sadv d).

  Definition comment_pos (pc : M comment) : Prop :=
    forall st c st', pc st = (Ok c, st') -> c_s c = prev_char (prev_char (r_pos st)) /\ c_e c = r_pos st'.

  Lemma comment_pos_parse_comment : comment_pos (parse_comment d F).
  Proof.
    intros st c st' H. unfold parse_comment in H.
    apply bind_ok_inv in H. destruct H as [p [st1 [GP H]]]. unfold get_pos in GP. injection GP as <- <-.
    apply bind_ok_inv in H. destruct H as [v [st2 [T H]]].
    apply bind_ok_inv in H. destruct H as [e [st3 [GP H]]]. unfold get_pos in GP. injection GP as <- <-.
    unfold ret in H. injection H as <- <-. cbn [c_s c_e]. auto.
  Qed.
  Lemma comment_pos_parse_ml_comment : comment_pos (parse_ml_comment d F).
  Proof.
    intros st c st' H. unfold parse_ml_comment in H.
    apply bind_ok_inv in H. destruct H as [p [st1 [GP H]]]. unfold get_pos in GP. injection GP as <- <-.
    apply bind_ok_inv in H. destruct H as [v [st2 [T H]]].
    apply bind_ok_inv in H. destruct H as [e [st3 [GP H]]]. unfold get_pos in GP. injection GP as <- <-.
    destruct v as [v|]; [|discriminate]. unfold ret in H. injection H as <- <-. cbn [c_s c_e]. auto.
  Qed.

  (* popping a one-unit character that is not LF moves one column to the right *)
  Lemma skip_col1 : forall st c, c <> LF -> c < 65536 ->
    r_pos (skip_char st c) = (fst (r_pos st), snd (r_pos st) + 1).
  Proof.
    intros st c H1 H2. unfold skip_char, move_after_char. cbn [r_pos].
    replace (c =? LF) with false by (symmetry; apply N.eqb_neq; exact H1).
    unfold len16. replace (c <? 65536) with true by (symmetry; apply N.ltb_lt; exact H2). reflexivity.
  Qed.
  Lemma prev2 : forall a b, prev_char (prev_char (a, b + 1 + 1)) = (a, b).
  Proof. intros a b. unfold prev_char. cbn [fst snd]. f_equal. lia. Qed.

  (* after `--` / `/*` popped from st1, the comment parsed by pc starts exactly at st1 *)
  Lemma two_pops_comment : forall (pc : M comment) st1 c1 q o2 st3 cm st4,
    comment_pos pc -> get_char d st1 = GChar c1 -> (c1 =? 47) || (c1 =? 45) = true ->
    pop d (skip_char st1 c1) = (Ok o2, st3) -> opt_is o2 q = true -> q = 42 \/ q = 45 ->
    pc st3 = (Ok cm, st4) -> c_s cm = r_pos st1 /\ c_e cm = r_pos st4.
  Proof.
    intros pc st1 c1 q o2 st3 cm st4 Hpc G1 Hc1 P2 Ho Hq PC.
    destruct (Hpc _ _ _ PC) as [Hs He]. split; [|exact He].
    destruct o2 as [c2|]; [|discriminate]. cbn [opt_is] in Ho. apply N.eqb_eq in Ho. subst c2.
    apply pop_cases in P2.
    destruct P2 as [[_ [E _]]|[[c [G2 [-> [[L E]|[e E]]]]]|[_ [E _]]]]; try discriminate.
    injection E as <-.
    assert (H1 : c1 <> LF /\ c1 < 65536).
    { apply orb_true_iff in Hc1. destruct Hc1 as [E|E]; apply N.eqb_eq in E; subst c1; split; (discriminate || reflexivity). }
    assert (H2 : q <> LF /\ q < 65536) by (destruct Hq; subst q; split; (discriminate || reflexivity)).
    rewrite Hs, skip_col1 by tauto. rewrite skip_col1 by tauto. cbn [fst snd]. rewrite prev2.
    destruct (r_pos st1); reflexivity.
  Qed.

  Lemma lc_body_chain : forall f acc st1 r st', lc_body d F f acc st1 = (r, st') ->
    (r = Ok acc /\ st' = st1)
    \/ (exists e, r = Er e) \/ (exists a, r = Ab a)
    \/ (exists c st4, adv st1 st4 /\ c_s c = r_pos st1 /\ c_e c = r_pos st4 /\
                      leading_comments d F f (acc ++ [c]) st4 = (r, st')).
  Proof.
    intros f acc st1 r st' H. unfold lc_body in H. unfold bind at 1 in H. unfold get_state in H.
    unfold bind at 1 in H. destruct (pop d st1) as [x st2] eqn:P1. apply pop_cases in P1.
    destruct P1 as [[G [-> ->]]|[[c [G [-> [[L ->]|[e ->]]]]]|[G [-> ->]]]].
    - unfold ret in H. injection H as <- <-. left; auto.
    - assert (Hstop : (set_state st1 ;;; ret acc)%m (skip_char st1 c) = (r, st') -> r = Ok acc /\ st' = st1).
      { intro E. unfold bind, set_state, ret in E. injection E as <- <-. auto. }
      assert (Hcomment : forall (pc : M comment) (q : N), advs d pc -> comment_pos pc ->
                (c =? 47) || (c =? 45) = true -> q = 42 \/ q = 45 ->
                (o2 <- pop d ;; if opt_is o2 q then cm <- pc ;; leading_comments d F f (acc ++ [cm])
                                else set_state st1 ;;; ret acc)%m (skip_char st1 c) = (r, st') ->
                (r = Ok acc /\ st' = st1)
                \/ (exists e, r = Er e) \/ (exists a, r = Ab a)
                \/ (exists cm st4, adv st1 st4 /\ c_s cm = r_pos st1 /\ c_e cm = r_pos st4 /\
                                   leading_comments d F f (acc ++ [cm]) st4 = (r, st'))).
      { intros pc q Hadv Hpc Hc Hq E. unfold bind at 1 in E.
        destruct (pop d (skip_char st1 c)) as [[o2|e|a] st3] eqn:P2.
        - destruct (opt_is o2 q) eqn:Eo.
          + unfold bind at 1 in E. destruct (pc st3) as [[cm|e|a] st4] eqn:PC.
            * right; right; right. exists cm, st4.
              destruct (two_pops_comment pc st1 c q o2 st3 cm st4 Hpc G Hc P2 Eo Hq PC) as [Hs He].
              split; [|auto].
              eapply adv_trans; [apply sadv_adv, adv_skip; exact G|].
              eapply adv_trans; [eapply advs_pop; exact P2|eapply Hadv; exact PC].
            * injection E as <- <-. right; left. exists e; reflexivity.
            * injection E as <- <-. right; right; left. exists a; reflexivity.
          + left. apply Hstop. exact E.
        - injection E as <- <-. right; left. exists e; reflexivity.
        - injection E as <- <-. right; right; left. exists a; reflexivity. }
      destruct (c =? 47) eqn:E47.
      + eapply Hcomment; [| | |left; reflexivity|exact H].
        * apply advO_advs. intro. apply advO_parse_ml_comment.
        * apply comment_pos_parse_ml_comment.
        * reflexivity.
      + destruct (c =? 45) eqn:E45.
        * eapply Hcomment; [| | |right; reflexivity|exact H].
          -- apply advO_advs. intro. apply advO_parse_comment.
          -- apply comment_pos_parse_comment.
          -- reflexivity.
        * left. apply Hstop. exact H.
    - injection H as <- <-. right; left. exists e; reflexivity.
    - injection H as <- <-. right; right; left. exists Crash; reflexivity.
  Qed.

  (* get_leading_comments: the comments read are chained from the entry position to the exit position *)
  Lemma leading_comments_chain : forall fuel acc st l st',
    leading_comments d F fuel acc st = (Ok l, st') ->
    exists new, l = acc ++ new /\ comments_chain (r_pos st) new (r_pos st').
  Proof.
    induction fuel as [|f IH]; intros acc st l st' H; [discriminate|].
    rewrite leading_comments_S in H. unfold bind at 1 in H.
    destruct (skip_ws d F true st) as [[[]|e|a] st1] eqn:W; try discriminate.
    assert (A1 : adv st st1) by (eapply (advO_advs d); [intro; apply advO_skip_ws|exact W]).
    apply lc_body_chain in H.
    destruct H as [[E ->]|[[e E]|[[a E]|[c [st4 [A4 [Hs [He E]]]]]]]]; try discriminate.
    - injection E as <-. exists []. rewrite app_nil_r. split; [reflexivity|].
      cbn [comments_chain]. eapply adv_ple; exact A1.
    - destruct (IH _ _ _ _ E) as [new [-> Hc]]. exists (c :: new). rewrite <- app_assoc. split; [reflexivity|].
      cbn [comments_chain]. rewrite Hs, He. split; [eapply adv_ple; exact A1|].
      split; [eapply adv_ple; exact A4|exact Hc].
  Qed.

  (* get_trailing_comment *)
  Lemma trailing_comment_chain : forall st tr st', trailing_comment d F st = (Ok tr, st') ->
    comments_chain (r_pos st) (match tr with Some c => [c] | None => [] end) (r_pos st').
  Proof.
    intros st tr st' H. unfold trailing_comment in H. unfold bind at 1 in H.
    destruct (skip_ws d F false st) as [[[]|e|a] st1] eqn:W; try discriminate.
    assert (A1 : adv st st1) by (eapply (advO_advs d); [intro; apply advO_skip_ws|exact W]).
    unfold bind at 1 in H. unfold get_state in H. unfold bind at 1 in H.
    destruct (pop d st1) as [x st2] eqn:P1.
    assert (Hstop : (set_state st1 ;;; ret (@None comment))%m st2 = (Ok tr, st') ->
              comments_chain (r_pos st) (match tr with Some c => [c] | None => [] end) (r_pos st')).
    { intro E. unfold bind, set_state, ret in E. injection E as <- <-. cbn [comments_chain]. eapply adv_ple; exact A1. }
    destruct x as [ob|e|a]; try discriminate.
    destruct (opt_is ob 45) eqn:Eo; [|apply Hstop; exact H].
    destruct ob as [c|]; [|discriminate]. cbn [opt_is] in Eo. apply N.eqb_eq in Eo. subst c.
    apply pop_cases in P1.
    destruct P1 as [[_ [E _]]|[[c [G [-> [[L E]|[e E]]]]]|[_ [E _]]]]; try discriminate. injection E as <-.
    unfold bind at 1 in H.
    destruct (pop d (skip_char st1 45)) as [[o2|e|a] st3] eqn:P2; try discriminate.
    destruct (opt_is o2 45) eqn:Eo2; [|apply Hstop; exact H].
    unfold bind at 1 in H. destruct (parse_comment d F st3) as [[cm|e|a] st4] eqn:PC; try discriminate.
    unfold ret in H. injection H as <- <-.
    destruct (two_pops_comment (parse_comment d F) st1 45 45 o2 st3 cm st4 comment_pos_parse_comment G
                eq_refl P2 Eo2 (or_intror eq_refl) PC) as [Hs He].
    cbn [comments_chain]. rewrite Hs, He. split; [eapply adv_ple; exact A1|].
    assert (A4 : adv st1 st4).
    { eapply adv_trans; [apply sadv_adv, adv_skip; exact G|].
      eapply adv_trans; [eapply advs_pop; exact P2|].
      eapply (advO_advs d); [intro; apply advO_parse_comment|exact PC]. }
    split; [eapply adv_ple; exact A4|apply ple_refl].
  Qed.

  (* a token with its comments, between the reader positions before and after pop_raw *)
  Definition tok_comments_between (lo : position) (tok : token) (hi : position) : Prop :=
    comments_chain lo (t_lead tok) (t_s tok) /\
    comments_chain (t_e tok) (match t_trail tok with Some c => [c] | None => [] end) hi.

  Lemma pop_raw_comments : forall fixed t tok t', pop_raw d kws F fixed t = (Ok (Some tok), t') ->
    tok_comments_between (r_pos (k_rd t)) tok (r_pos (k_rd t')).
  Proof.
    intros fixed t tok t' H. unfold pop_raw in H.
    destruct (leading_comments d F F [] (k_rd t)) as [[lead|e|a] r1] eqn:LC; try discriminate.
    destruct (parse_token d kws F fixed (r_pos r1) (k_last t) r1) as [[[[[k v] w]|]|e|a] r2] eqn:PT; try discriminate.
    destruct (trailing_comment d F r2) as [[tr|e|a] r3] eqn:TC; try discriminate.
    injection H as <- <-. unfold tok_comments_between. cbn [t_lead t_s t_e t_trail k_rd].
    destruct (leading_comments_chain _ _ _ _ _ LC) as [new [-> Hc]]. cbn [app].
    split; [exact Hc|]. apply trailing_comment_chain. exact TC.
  Qed.
End Comments.

(* every token of the stream with its comments: leading comments between `lo` and the token, trailing
   comment between the token and `hi`, the next token's comments start at `hi` *)
Fixpoint stream_comments (lo : position) (ts : list token) : Prop :=
  match ts with
  | [] => True
  | t :: r => exists hi, comments_chain lo (t_lead t) (t_s t)
                         /\ comments_chain (t_e t) (match t_trail t with Some c => [c] | None => [] end) hi
                         /\ stream_comments hi r
  end.
Lemma stream_comments_weaken : forall ts lo lo', ple lo' lo = true -> stream_comments lo ts -> stream_comments lo' ts.
Proof.
  intros [|t r] lo lo' H; cbn [stream_comments]; [auto|]. intros [hi [H1 [H2 H3]]]. exists hi.
  split; [eapply comments_chain_weaken; eassumption|auto].
Qed.

Section StreamComments.
  Variable d : list (list char).
  Variable kws : list (list N).
  Variable F : nat.
  Variable fixed : bool.
  Local Notation adv := (adv d).

  Lemma pop_raw_adv : forall t r t', pop_raw d kws F fixed t = (r, t') -> adv (k_rd t) (k_rd t').
  Proof.
    intros t r t' H. unfold pop_raw in H.
    destruct (leading_comments d F F [] (k_rd t)) as [x r1] eqn:LC.
    assert (A1 : adv (k_rd t) r1) by (eapply (advO_advs d); [intro; apply advO_leading_comments|exact LC]).
    destruct x as [lead|e|a]; try (injection H as <- <-; exact A1).
    destruct (parse_token d kws F fixed (r_pos r1) (k_last t) r1) as [y r2] eqn:PT.
    assert (A2 : adv r1 r2) by (eapply (advO_advs d); [intro; apply advO_parse_token|exact PT]).
    destruct y as [[[[k v] w]|]|e|a]; try (injection H as <- <-; eapply adv_trans; eassumption).
    destruct (trailing_comment d F r2) as [z r3] eqn:TC.
    assert (A3 : adv r2 r3) by (eapply (advO_advs d); [intro; apply advO_trailing_comment|exact TC]).
    destruct z as [tr|e|a]; injection H as <- <-; cbn [k_rd];
      (eapply adv_trans; [exact A1|eapply adv_trans; eassumption]).
  Qed.

  (* a token returned by the ignored-region loop / by Tokenizer::pop was produced by one pop_raw call *)
  Definition from_pop_raw (t : tkst) (tok : token) (t' : tkst) : Prop :=
    exists t0 t1, adv (k_rd t) (k_rd t0) /\ pop_raw d kws F fixed t0 = (Ok (Some tok), t1) /\ adv (k_rd t1) (k_rd t').

  Lemma ignored_loop_from : forall fuel t,
    match ignored_loop d kws F fixed fuel t with
    | IgnBreak t2 => adv (k_rd t) (k_rd t2)
    | IgnRet r t2 => adv (k_rd t) (k_rd t2) /\ (forall tok, r = Some tok -> from_pop_raw t tok t2)
    | IgnAb a t2 => adv (k_rd t) (k_rd t2)
    end.
  Proof.
    induction fuel as [|f IH]; intro t; cbn [ignored_loop]; [apply adv_refl|].
    destruct (pop_raw d kws F fixed t) as [r t1] eqn:PR. pose proof (pop_raw_adv _ _ _ PR) as A.
    assert (Hrec : match ignored_loop d kws F fixed f t1 with
                   | IgnBreak t2 => adv (k_rd t) (k_rd t2)
                   | IgnRet r t2 => adv (k_rd t) (k_rd t2) /\ (forall tok, r = Some tok -> from_pop_raw t tok t2)
                   | IgnAb a t2 => adv (k_rd t) (k_rd t2)
                   end).
    { specialize (IH t1). destruct (ignored_loop d kws F fixed f t1) as [t2|r2 t2|a t2].
      - eapply adv_trans; eassumption.
      - destruct IH as [A2 T2]. split; [eapply adv_trans; eassumption|].
        intros tok E. destruct (T2 tok E) as [t0 [t1' [B1 [B2 B3]]]]. exists t0, t1'.
        split; [eapply adv_trans; eassumption|auto].
      - eapply adv_trans; eassumption. }
    destruct r as [[tok|]|e|a].
    - destruct (trailing_is_end tok); [exact A|]. destruct (leading_is_end tok); [|exact Hrec].
      split; [exact A|]. intros tok' E. injection E as <-. exists t, t1.
      split; [apply adv_refl|]. split; [exact PR|apply adv_refl].
    - split; [exact A|]. intros tok E. discriminate.
    - exact Hrec.
    - exact A.
  Qed.

  Lemma tk_pop_from : forall fuel t r t', tk_pop d kws F fixed fuel t = (r, t') ->
    adv (k_rd t) (k_rd t') /\ (forall tok, r = Ok (Some tok) -> from_pop_raw t tok t').
  Proof.
    induction fuel as [|f IH]; intros t r t' H; cbn [tk_pop] in H.
    - injection H as <- <-. split; [apply adv_refl|intros tok E; discriminate].
    - destruct (pop_raw d kws F fixed t) as [r1 t1] eqn:PR. pose proof (pop_raw_adv _ _ _ PR) as A.
      assert (Hrec : forall t2, adv (k_rd t) (k_rd t2) -> tk_pop d kws F fixed f t2 = (r, t') ->
                adv (k_rd t) (k_rd t') /\ (forall tok, r = Ok (Some tok) -> from_pop_raw t tok t')).
      { intros t2 A2 E. destruct (IH _ _ _ E) as [A3 T3]. split; [eapply adv_trans; eassumption|].
        intros tok E'. destruct (T3 tok E') as [t0 [t1' [B1 [B2 B3]]]]. exists t0, t1'.
        split; [eapply adv_trans; eassumption|auto]. }
      destruct r1 as [[tok|]|e|a].
      + destruct (leading_is_start tok).
        * destruct (negb (trailing_is_end tok)).
          -- pose proof (ignored_loop_from F t1) as IL.
             destruct (ignored_loop d kws F fixed F t1) as [t2|r2 t2|a t2].
             ++ apply Hrec with (t2 := t2); [eapply adv_trans; eassumption|exact H].
             ++ injection H as <- <-. destruct IL as [A2 T2]. split; [eapply adv_trans; eassumption|].
                intros tok' E. injection E as E. destruct (T2 tok' E) as [t0 [t1' [B1 [B2 B3]]]].
                exists t0, t1'. split; [eapply adv_trans; eassumption|auto].
             ++ injection H as <- <-. split; [eapply adv_trans; eassumption|intros tok' E; discriminate].
          -- apply Hrec with (t2 := t1); [exact A|exact H].
        * injection H as <- <-. split; [exact A|]. intros tok' E. injection E as <-.
          exists t, t1. split; [apply adv_refl|]. split; [exact PR|apply adv_refl].
      + injection H as <- <-. split; [exact A|intros tok' E; discriminate].
      + injection H as <- <-. split; [exact A|intros tok' E; discriminate].
      + injection H as <- <-. split; [exact A|intros tok' E; discriminate].
  Qed.
End StreamComments.

Section LexComments.
  Variable d : list (list char).
  Variable kws : list (list N).
  Variable F : nat.
  Variable fixed : bool.
  Local Notation adv := (adv d).

  Lemma text_until_newline_adv : forall t r t', text_until_newline d F t = (r, t') -> adv (k_rd t) (k_rd t').
  Proof.
    intros t r t' H. unfold text_until_newline in H.
    destruct (until_nl d F [] (k_rd t)) as [x r1] eqn:U.
    assert (A : adv (k_rd t) r1) by (eapply (advO_advs d); [intro; apply advO_until_nl|exact U]).
    destruct x as [txt|e|a]; injection H as <- <-; exact A.
  Qed.
  Lemma finish_directive_adv : forall ds t r t', finish_directive d F ds t = (r, t') -> adv (k_rd t) (k_rd t').
  Proof.
    intros ds t r t' H. unfold finish_directive in H.
    destruct (text_until_newline d F t) as [x t2] eqn:T. pose proof (text_until_newline_adv _ _ _ T) as A.
    destruct x as [y|e|a]; injection H as <- <-; exact A.
  Qed.
  Lemma handle_tool_directive_adv : forall grave t r t',
    handle_tool_directive d kws F fixed grave t = (r, t') -> adv (k_rd t) (k_rd t').
  Proof.
    intros grave t r t' H. unfold handle_tool_directive in H.
    destruct (tk_pop d kws F fixed F t) as [r1 t1] eqn:TP. destruct (tk_pop_from _ _ _ _ _ _ _ _ TP) as [A _].
    destruct r1 as [[tok|]|e|a].
    - destruct (is_identifier (t_kind tok)).
      + eapply adv_trans; [exact A|eapply finish_directive_adv; exact H].
      + destruct (text_until_newline d F t1) as [x t2] eqn:T. pose proof (text_until_newline_adv _ _ _ T) as A2.
        destruct x as [y|e|a]; injection H as <- <-; eapply adv_trans; eassumption.
    - injection H as <- <-. exact A.
    - eapply adv_trans; [exact A|eapply finish_directive_adv; exact H].
    - injection H as <- <-. exact A.
  Qed.

  Lemma lex_comments : forall fuel t toks diags,
    lex d kws F fixed fuel t = Done toks diags -> stream_comments (r_pos (k_rd t)) toks.
  Proof.
    induction fuel as [|f IH]; intros t toks diags H; [discriminate|]. cbn [lex] in H.
    destruct (tk_pop d kws F fixed F t) as [r t1] eqn:TP. destruct (tk_pop_from _ _ _ _ _ _ _ _ TP) as [A T].
    destruct r as [[tok|]|e|a].
    - destruct (is_grave (t_kind tok)).
      + destruct (handle_tool_directive d kws F fixed tok t1) as [[ds|e|a] t2] eqn:HT; try discriminate.
        pose proof (handle_tool_directive_adv _ _ _ _ HT) as A2.
        destruct (lex d kws F fixed f t2) as [ts ds'|a] eqn:L; cbn [add_diags] in H; [|discriminate].
        injection H as <- _. eapply stream_comments_weaken; [|eapply IH; exact L].
        eapply adv_ple. eapply adv_trans; eassumption.
      + destruct (lex d kws F fixed f t1) as [ts ds'|a] eqn:L; cbn [add_tok] in H; [|discriminate].
        injection H as <- _. cbn [stream_comments].
        destruct (T tok eq_refl) as [t0 [t1' [B1 [B2 B3]]]].
        destruct (pop_raw_comments _ _ _ _ _ _ _ B2) as [C1 C2].
        exists (r_pos (k_rd t1)). split; [|split].
        * eapply comments_chain_weaken; [eapply adv_ple; exact B1|exact C1].
        * eapply comments_chain_extend; [eapply adv_ple; exact B3|exact C2].
        * eapply IH; exact L.
    - injection H as <- _. exact I.
    - destruct (lex d kws F fixed f t1) as [ts ds'|a] eqn:L; cbn [add_diags] in H; [|discriminate].
      injection H as <- _. eapply stream_comments_weaken; [|eapply IH; exact L]. eapply adv_ple; exact A.
    - discriminate.
  Qed.
End LexComments.

(* attached comments lie between their neighbours *)
Theorem comments_between_gen : forall kws fixed fuel s toks diags,
  lex_gen kws fixed fuel s = Done toks diags -> stream_comments (0, 0) toks.
Proof. intros kws fixed fuel s toks diags H. unfold lex_gen in H. exact (lex_comments _ _ _ _ _ _ _ _ H). Qed.
Theorem comments_between : forall s toks diags, lex_all s = Done toks diags -> stream_comments (0, 0) toks.
Proof. intros s toks diags H. eapply comments_between_gen; exact H. Qed.
