(* Lex/CaseLayoutRelayout.v — C13, layout half, general form: two writings of the SAME token list of a
   diagnostic-free input, with arbitrary gaps (blanks, line breaks, `--` comments, block comments) that keep
   the tokens apart, lex to the same kinds and values.  Derived from the render -> lex round trip of the
   C12 development (Lex/Render.v `pieces_ok` / `sep_ok`, Lex/RenderProofs.v `lex_pieces`,
   Lex/RenderFull.v `lex_output_good`, all imported read-only):
     a writing = a list of pieces (PBlank 32 | PBlank 10 | PLine body | PBlock body | PLex token);
     `pieces_ok` = the separator discipline: behind every token text comes something its tokenizer arm
     stops at (`follow_ok`), a `--` comment is followed by a line break or ends the text, comments are
     printable as comments and are no `vhdl_ls off` directive. *)
From Coq Require Import List NArith Arith Bool.
Import ListNotations.
From RH Require Import Text.Contents Text.Reader Lex.LangLexer Lex.LexSpec Lex.Render Lex.RenderToks Lex.RenderLex
  Lex.RenderProofs Lex.RenderFull Lex.CaseLayout.
Open Scope N_scope.

Lemma tok_kv_kv : forall ts, map tok_kv ts = map kv ts.
Proof. intros ts. apply map_ext. intros t. reflexivity. Qed.

(* one writing: the tokens come back, no diagnostic *)
Theorem relayout_reads_back : forall s ts ps,
  lex_all s = Done ts [] -> lex_toks ps = ts -> pieces_ok None ps = true ->
  exists ts', lex_all (pieces_text ps) = Done ts' [] /\ map kv ts' = map kv ts.
Proof.
  intros s ts ps L E Hok.
  assert (G : pieces_good ps) by (apply pieces_good_toks; rewrite E; eapply lex_output_good; exact L).
  destruct (lex_pieces ps Hok G) as [ts' [EL [EKV _]]]. exists ts'. split; [exact EL|].
  rewrite <- !tok_kv_kv, EKV, E. reflexivity.
Qed.

(* two writings of the same tokens *)
Theorem relayout_invariant : forall s ts ps ps',
  lex_all s = Done ts [] -> lex_toks ps = ts -> lex_toks ps' = ts ->
  pieces_ok None ps = true -> pieces_ok None ps' = true ->
  same_kinds_values (lex_all (pieces_text ps)) (lex_all (pieces_text ps'))
  /\ exists ts1 ts2, lex_all (pieces_text ps) = Done ts1 [] /\ lex_all (pieces_text ps') = Done ts2 []
                     /\ map kv ts1 = map kv ts /\ map kv ts2 = map kv ts.
Proof.
  intros s ts ps ps' L E E' H H'.
  destruct (relayout_reads_back s ts ps L E H) as [ts1 [L1 K1]].
  destruct (relayout_reads_back s ts ps' L E' H') as [ts2 [L2 K2]].
  split; [|exists ts1, ts2; auto].
  rewrite L1, L2. cbn [same_kinds_values]. split; [congruence|reflexivity].
Qed.

(* the same for two separator assignments of the formatter's buffer model (`sep_ok`, comments taken from
   the tokens themselves) *)
Theorem relayout_invariant_sep : forall s ts s0 l text s0' l' text',
  lex_all s = Done ts [] -> map fst l = ts -> map fst l' = ts ->
  Render.render s0 l = Some text -> Render.render s0' l' = Some text' ->
  sep_ok_from s0 l = true -> sep_ok_from s0' l' = true ->
  same_kinds_values (lex_all text) (lex_all text').
Proof.
  intros s ts s0 l text s0' l' text' L E E' R R' H H'.
  destruct (render_lex_roundtrip s ts s0 l text L E R H) as [t1 [L1 [K1 _]]].
  destruct (render_lex_roundtrip s ts s0' l' text' L E' R' H') as [t2 [L2 [K2 _]]].
  rewrite L1, L2. cbn [same_kinds_values]. split; [|reflexivity].
  rewrite <- (tok_kv_kv t1), <- (tok_kv_kv t2), K1, K2. reflexivity.
Qed.

(* non-vacuity: `x := 16#F.F#e-1 + ...` (full_src of the C12 development, 16 tokens of every literal kind)
   written once with single blanks and once one token per line with a line comment and a block comment
   in front of every token *)
Definition blanked (ts : list token) : list piece := flat_map (fun t => [PLex t; PBlank 32]) ts.
Definition commented (ts : list token) : list piece :=
  flat_map (fun t => [PLine [32; 99; 32; 42; 47]; PBlank 10; PBlock [42; 32; 45; 45; 32; 42]; PLex t; PBlank 10; PBlank 32]) ts.
Lemma relayout_example : exists ts, lex_all full_src = Done ts [] /\ length ts = 16%nat
  /\ lex_toks (blanked ts) = ts /\ lex_toks (commented ts) = ts
  /\ pieces_ok None (blanked ts) = true /\ pieces_ok None (commented ts) = true
  /\ pieces_text (blanked ts) <> pieces_text (commented ts).
Proof.
  destruct (lex_all full_src) as [ts ds|a] eqn:E; vm_compute in E; [|discriminate].
  injection E as <- <-. eexists. split; [reflexivity|]. split; [reflexivity|].
  split; [vm_compute; reflexivity|]. split; [vm_compute; reflexivity|].
  split; [vm_compute; reflexivity|]. split; [vm_compute; reflexivity|]. vm_compute. discriminate.
Qed.
