(* Lex/CaseLayoutProofs.v — C13, case half: a simulation proof over the whole shared tokenizer model
   (Lex/LangLexer.v).  Two line buffers that are pointwise case variants (`dsim`) drive the tokenizer
   through the same reader states; every function returns related results.  The only place where
   the letters of the text decide control flow case-SENSITIVELY is the comparison of a comment body
   with `vhdl_ls off` / `vhdl_ls on`; that the case change does not hit such a comment is the
   hypothesis `directives_agree`.  Result: `lex_all_case_sim`. *)
From Coq Require Import List NArith Arith Bool Lia.
Import ListNotations.
From RH Require Import Text.Contents Text.Reader Lex.LangLexer Lex.CaseLayout.
Open Scope N_scope.

#[local] Arguments N.add : simpl never.
#[local] Arguments N.sub : simpl never.
#[local] Arguments N.mul : simpl never.
#[local] Arguments N.eqb : simpl never.
#[local] Arguments N.ltb : simpl never.
#[local] Arguments N.leb : simpl never.
#[local] Arguments N.pow : simpl never.
#[local] Arguments N.modulo : simpl never.

(* ---------------------------------------------------------------------------------------- *)
(* 1. characters: everything the tokenizer asks about a character is invariant under csim    *)
(* ---------------------------------------------------------------------------------------- *)
Definition range128 : list N := map N.of_nat (seq 0 128).
Definition nonletter_consts : list N :=
  [95; 46; 35; 34; 39; 45; 47; 42; 32; 9; 10; 13; 58; 59; 40; 41; 43; 38; 44; 61; 60; 62; 63; 94; 64; 124; 91; 93; 92; 96].
Definition char_inv_b (c c' : N) : bool :=
  Bool.eqb (is_alpha c) (is_alpha c') && Bool.eqb (is_digit c) (is_digit c') && Bool.eqb (is_alnum c) (is_alnum c')
  && Bool.eqb (is_hex c) (is_hex c') && implb (is_hex c) (hex_val c =? hex_val c') && Bool.eqb (stop_suffix c) (stop_suffix c')
  && Bool.eqb (is_e c) (is_e c') && (lowercase c =? lowercase c') && Bool.eqb (is_ws c) (is_ws c')
  && (len8 c =? len8 c') && (len16 c =? len16 c') && Bool.eqb (c <? 256) (c' <? 256)
  && forallb (fun k => Bool.eqb (c =? k) (c' =? k)) nonletter_consts
  && csimb c' c.
Lemma char_sweep :
  forallb (fun c => forallb (fun c' => implb (csimb c c') (char_inv_b c c')) range128) range128 = true.
Proof. vm_compute. reflexivity. Qed.

Lemma in_range128 : forall c, c < 128 -> In c range128.
Proof.
  intros c H. unfold range128. replace c with (N.of_nat (N.to_nat c)) by lia.
  apply in_map. apply in_seq. lia.
Qed.

Lemma csim_refl : forall c, csim c c.
Proof. intros c. unfold csim, csimb. rewrite N.eqb_refl. reflexivity. Qed.

Lemma csim_cases : forall c c', csim c c' -> c' = c \/ (c < 128 /\ c' < 128 /\ is_alpha c = true).
Proof.
  intros c c' H. unfold csim, csimb in H. apply orb_prop in H. destruct H as [H|H].
  - left. apply N.eqb_eq in H. exact H.
  - right. apply andb_prop in H. destruct H as [A F]. apply N.eqb_eq in F.
    unfold is_alpha, is_lower, is_upper, in_range in A.
    unfold flipc, is_upper, is_lower, in_range in F.
    destruct (N.leb_spec 97 c); destruct (N.leb_spec c 122); destruct (N.leb_spec 65 c); destruct (N.leb_spec c 90);
      cbn [andb orb] in A, F; try discriminate; (split; [lia|split; [lia|]]);
      unfold is_alpha, is_lower, is_upper, in_range;
      repeat match goal with
             | |- context [?a <=? ?b] => first [replace (a <=? b) with true by (symmetry; apply N.leb_le; lia)
                                               |replace (a <=? b) with false by (symmetry; apply N.leb_gt; lia)]
             end; reflexivity.
Qed.

Lemma csim_inv : forall c c', csim c c' -> char_inv_b c c' = true.
Proof.
  intros c c' H. destruct (csim_cases c c' H) as [->|[Hc [Hc' _]]].
  - unfold char_inv_b. rewrite !eqb_reflx, !N.eqb_refl.
    replace (implb (is_hex c) true) with true by (destruct (is_hex c); reflexivity). cbn [andb].
    replace (csimb c c) with true by (symmetry; apply csim_refl).
    rewrite andb_true_r. apply forallb_forall. intros k _. apply eqb_reflx.
  - pose proof char_sweep as S. rewrite forallb_forall in S. specialize (S c (in_range128 c Hc)).
    rewrite forallb_forall in S. specialize (S c' (in_range128 c' Hc')).
    unfold csim in H. rewrite H in S. exact S.
Qed.

Ltac split_inv H :=
  unfold char_inv_b in H;
  repeat match type of H with
         | (_ && _) = true => let H2 := fresh "I" in apply andb_prop in H; destruct H as [H H2]
         end.

Section CharFacts.
  Variables c c' : N.
  Hypothesis H : csim c c'.
  Lemma cs_alpha : is_alpha c' = is_alpha c.
  Proof. pose proof (csim_inv _ _ H) as I. split_inv I. apply eqb_prop in I. congruence. Qed.
  Lemma cs_digit : is_digit c' = is_digit c.
  Proof. pose proof (csim_inv _ _ H) as I. split_inv I. apply eqb_prop in I12. congruence. Qed.
  Lemma cs_alnum : is_alnum c' = is_alnum c.
  Proof. pose proof (csim_inv _ _ H) as I. split_inv I. apply eqb_prop in I11. congruence. Qed.
  Lemma cs_hex : is_hex c' = is_hex c.
  Proof. pose proof (csim_inv _ _ H) as I. split_inv I. apply eqb_prop in I10. congruence. Qed.
  Lemma cs_hex_val : is_hex c = true -> hex_val c' = hex_val c.
  Proof. intros X. pose proof (csim_inv _ _ H) as I. split_inv I. rewrite X in I9. cbn [implb] in I9. apply N.eqb_eq in I9. congruence. Qed.
  Lemma cs_stop : stop_suffix c' = stop_suffix c.
  Proof. pose proof (csim_inv _ _ H) as I. split_inv I. apply eqb_prop in I8. congruence. Qed.
  Lemma cs_is_e : is_e c' = is_e c.
  Proof. pose proof (csim_inv _ _ H) as I. split_inv I. apply eqb_prop in I7. congruence. Qed.
  Lemma cs_lowercase : lowercase c' = lowercase c.
  Proof. pose proof (csim_inv _ _ H) as I. split_inv I. apply N.eqb_eq in I6. congruence. Qed.
  Lemma cs_ws : is_ws c' = is_ws c.
  Proof. pose proof (csim_inv _ _ H) as I. split_inv I. apply eqb_prop in I5. congruence. Qed.
  Lemma cs_len8 : len8 c' = len8 c.
  Proof. pose proof (csim_inv _ _ H) as I. split_inv I. apply N.eqb_eq in I4. congruence. Qed.
  Lemma cs_len16 : len16 c' = len16 c.
  Proof. pose proof (csim_inv _ _ H) as I. split_inv I. apply N.eqb_eq in I3. congruence. Qed.
  Lemma cs_latin1 : (c' <? 256) = (c <? 256).
  Proof. pose proof (csim_inv _ _ H) as I. split_inv I. apply eqb_prop in I2. congruence. Qed.
  Lemma cs_const : forall k, In k nonletter_consts -> (c' =? k) = (c =? k).
  Proof.
    intros k Hk. pose proof (csim_inv _ _ H) as I. split_inv I. rewrite forallb_forall in I1.
    specialize (I1 k Hk). apply eqb_prop in I1. congruence.
  Qed.
  Lemma cs_sym : csim c' c.
  Proof. pose proof (csim_inv _ _ H) as I. split_inv I. exact I0. Qed.
  Lemma cs_nonalpha : is_alpha c = false -> c' = c.
  Proof.
    intros A. destruct (csim_cases _ _ H) as [E|[_ [_ A']]]; [exact E|congruence].
  Qed.
End CharFacts.

(* ---------------------------------------------------------------------------------------- *)
(* 2. lists, buffers                                                                        *)
(* ---------------------------------------------------------------------------------------- *)
Lemma lsim_refl : forall l, lsim l l.
Proof. induction l; constructor; [apply csim_refl|assumption]. Qed.
Lemma lsim_app : forall a a' b b', lsim a a' -> lsim b b' -> lsim (a ++ b) (a' ++ b').
Proof. intros. apply Forall2_app; assumption. Qed.
Lemma lsim_snoc : forall a a' c c', lsim a a' -> csim c c' -> lsim (a ++ [c]) (a' ++ [c']).
Proof. intros. apply lsim_app; [assumption|constructor; [assumption|constructor]]. Qed.
Lemma lsim_length : forall a a', lsim a a' -> length a = length a'.
Proof. induction 1; cbn [length]; congruence. Qed.
Lemma lsim_lowercase : forall a a', lsim a a' -> map lowercase a' = map lowercase a.
Proof.
  induction 1 as [|c c' a a' H _ IH]; [reflexivity|]. cbn [map]. rewrite IH, (cs_lowercase _ _ H). reflexivity.
Qed.

Inductive gsim : gchar -> gchar -> Prop :=
| gs_eof : gsim GEof GEof
| gs_bad : gsim GBad GBad
| gs_char : forall c c', csim c c' -> gsim (GChar c) (GChar c').

Lemma char_at_sim : forall l l', lsim l l' -> forall i, gsim (char_at l i) (char_at l' i).
Proof.
  induction 1 as [|c c' l l' H _ IH]; intros i; cbn [char_at]; [constructor|].
  rewrite (cs_len8 _ _ H). destruct (i =? 0); [constructor; exact H|].
  destruct (i <? len8 c); [constructor|apply IH].
Qed.

Lemma nth_error_sim : forall (d d' : list (list char)), dsim d d' -> forall n,
  match nth_error d n, nth_error d' n with
  | Some l, Some l' => lsim l l'
  | None, None => True
  | _, _ => False
  end.
Proof.
  induction 1 as [|l l' d d' H _ IH]; intros [|n]; cbn [nth_error]; auto. apply IH.
Qed.

Lemma cut16_sim : forall l l', lsim l l' -> forall off a b,
  osim lsim (cut16 l off a b) (cut16 l' off a b).
Proof.
  induction 1 as [|c c' l l' H _ IH]; intros off a b; cbn [cut16]; [cbn; constructor|].
  rewrite (cs_len16 _ _ H).
  destruct ((off + len16 c <=? a) || (b <=? off)); [apply IH|].
  destruct ((a <=? off) && (off + len16 c <=? b)); [|cbn; exact I].
  unfold char_to_latin1. rewrite (cs_latin1 _ _ H). destruct (c <? 256); [|cbn; exact I].
  specialize (IH (off + len16 c) a b).
  destruct (cut16 l (off + len16 c) a b), (cut16 l' (off + len16 c) a b); cbn in IH |- *; try contradiction; [|exact I].
  constructor; assumption.
Qed.

(* ---------------------------------------------------------------------------------------- *)
(* 3. the monad                                                                             *)
(* ---------------------------------------------------------------------------------------- *)
Definition rsim {S A B} (R : A -> B -> Prop) (x : res A * S) (y : res B * S) : Prop :=
  snd x = snd y /\ match fst x, fst y with
                   | Ok a, Ok b => R a b
                   | Er e, Er e' => e = e'
                   | Ab a, Ab a' => a = a'
                   | _, _ => False
                   end.
Definition simM {A B} (R : A -> B -> Prop) (m : M A) (m' : M B) : Prop := forall st, rsim R (m st) (m' st).

Lemma sim_ret : forall A B (R : A -> B -> Prop) a b, R a b -> simM R (ret a) (ret b).
Proof. intros A B R a b H st. split; [reflexivity|exact H]. Qed.
Lemma sim_throw : forall A B (R : A -> B -> Prop) e, simM R (throw e) (throw e).
Proof. intros A B R e st. split; reflexivity. Qed.
Lemma sim_stop : forall A B (R : A -> B -> Prop) a, simM R (stop a) (stop a).
Proof. intros A B R a st. split; reflexivity. Qed.
Lemma sim_bind : forall A B A' B' (R : A -> A' -> Prop) (S : B -> B' -> Prop) m m' k k',
  simM R m m' -> (forall a a', R a a' -> simM S (k a) (k' a')) -> simM S (bind m k) (bind m' k').
Proof.
  intros A B A' B' R S m m' k k' Hm Hk st. unfold bind. specialize (Hm st).
  destruct (m st) as [[a|e|x] s1], (m' st) as [[a'|e'|x'] s2]; destruct Hm as [E H]; cbn [fst snd] in E, H;
    subst; try contradiction.
  - apply Hk. exact H.
  - split; reflexivity.
  - split; reflexivity.
Qed.
Definition sum_rel {A A' B B'} (R : A -> A' -> Prop) (S : B -> B' -> Prop) (x : A + B) (y : A' + B') : Prop :=
  match x, y with inl a, inl a' => R a a' | inr b, inr b' => S b b' | _, _ => False end.
Lemma sim_try : forall A A' (R : A -> A' -> Prop) m m', simM R m m' -> simM (sum_rel R eq) (try m) (try m').
Proof.
  intros A A' R m m' Hm st. unfold try. specialize (Hm st).
  destruct (m st) as [[a|e|x] s1], (m' st) as [[a'|e'|x'] s2]; destruct Hm as [E H]; cbn [fst snd] in E, H;
    subst; try contradiction; split; cbn; auto.
Qed.
Lemma sim_of_result : forall A A' (R : A -> A' -> Prop) r r', sum_rel R eq r r' -> simM R (of_result r) (of_result r').
Proof.
  intros A A' R [a|e] [a'|e'] H; cbn in H; try contradiction; unfold of_result.
  - apply sim_ret. exact H.
  - subst. apply sim_throw.
Qed.
Lemma sim_weaken : forall A B (R S : A -> B -> Prop) m m', (forall a b, R a b -> S a b) -> simM R m m' -> simM S m m'.
Proof.
  intros A B R S m m' W H st. specialize (H st).
  destruct (m st) as [[a|e|x] s1], (m' st) as [[a'|e'|x'] s2]; destruct H as [E H]; cbn [fst snd] in E, H;
    subst; try contradiction; split; cbn; auto.
Qed.

Section Sim.
  Variables d d' : list (list char).
  Hypothesis HB : dsim d d'.

  Lemma get_char_sim : forall st, gsim (get_char d st) (get_char d' st).
  Proof.
    intros st. unfold get_char, get_line. pose proof (nth_error_sim d d' HB (N.to_nat (fst (r_pos st)))) as H.
    destruct (nth_error d _), (nth_error d' _); try contradiction; [apply char_at_sim; exact H|constructor].
  Qed.
  Lemma skip_char_sim : forall st c c', csim c c' -> skip_char st c' = skip_char st c.
  Proof.
    intros st c c' H. unfold skip_char, move_after_char. rewrite (cs_len8 _ _ H), (cs_len16 _ _ H).
    unfold LF. rewrite (cs_const _ _ H 10) by (cbn; tauto). reflexivity.
  Qed.

  Lemma sim_get_state : simM eq (@get_state) (@get_state).
  Proof. intros st. split; reflexivity. Qed.
  Lemma sim_get_pos : simM eq (@get_pos) (@get_pos).
  Proof. intros st. split; reflexivity. Qed.
  Lemma sim_set_state : forall s, simM eq (set_state s) (set_state s).
  Proof. intros s st. split; reflexivity. Qed.

  Lemma sim_peek_char : simM (osim csim) (peek_char d) (peek_char d').
  Proof.
    intros st. unfold peek_char. destruct (get_char_sim st) as [| |c c' H]; split; cbn; auto.
  Qed.
  Lemma sim_pop_char : simM (osim csim) (pop_char d) (pop_char d').
  Proof.
    intros st. unfold pop_char. destruct (get_char_sim st) as [| |c c' H]; split; cbn; auto.
    symmetry. apply skip_char_sim. exact H.
  Qed.
  Lemma sim_skip : simM eq (skip d) (skip d').
  Proof.
    unfold skip. eapply sim_bind; [apply sim_pop_char|]. intros a a' _. apply sim_ret. reflexivity.
  Qed.
  Lemma latin1_err_sim : forall st c c', csim c c' -> (c <? 256) = false -> latin1_err st c' = latin1_err st c.
  Proof.
    intros st c c' H L. destruct (csim_cases _ _ H) as [->|[Hc _]]; [reflexivity|].
    apply N.ltb_ge in L. lia.
  Qed.
  Lemma sim_peek : simM (osim csim) (peek d) (peek d').
  Proof.
    intros st. unfold peek, char_to_latin1. destruct (get_char_sim st) as [| |c c' H]; [split; cbn; auto..|].
    rewrite (cs_latin1 _ _ H). destruct (c <? 256) eqn:L; split; cbn; auto.
    symmetry. apply latin1_err_sim; assumption.
  Qed.
  Lemma sim_pop : simM (osim csim) (pop d) (pop d').
  Proof.
    intros st. unfold pop, char_to_latin1. destruct (get_char_sim st) as [| |c c' H]; [split; cbn; auto..|].
    rewrite (cs_latin1 _ _ H), (skip_char_sim st c c' H). destruct (c <? 256) eqn:L; split; cbn; auto.
    symmetry. apply latin1_err_sim; assumption.
  Qed.
  Lemma osim_lowercase : forall o o', osim csim o o' -> option_map lowercase o = option_map lowercase o'.
  Proof.
    intros [c|] [c'|] H; cbn in H; try contradiction; [|reflexivity]. cbn. rewrite (cs_lowercase _ _ H). reflexivity.
  Qed.
  Lemma sim_pop_lowercase : simM eq (pop_lowercase d) (pop_lowercase d').
  Proof.
    unfold pop_lowercase. eapply sim_bind; [apply sim_pop|]. intros a a' H. apply sim_ret. apply osim_lowercase. exact H.
  Qed.
  Lemma sim_peek_lowercase : simM eq (peek_lowercase d) (peek_lowercase d').
  Proof.
    unfold peek_lowercase. eapply sim_bind; [apply sim_peek|]. intros a a' H. apply sim_ret. apply osim_lowercase. exact H.
  Qed.
  Lemma opt_is_sim : forall o o' k, osim csim o o' -> In k nonletter_consts -> opt_is o' k = opt_is o k.
  Proof.
    intros [c|] [c'|] k H Hk; cbn in H; try contradiction; [|reflexivity]. cbn [opt_is]. apply cs_const; assumption.
  Qed.
  Lemma sim_skip_if : forall k, In k nonletter_consts -> simM eq (skip_if d k) (skip_if d' k).
  Proof.
    intros k Hk. unfold skip_if. eapply sim_bind; [apply sim_peek|]. intros [c|] [c'|] H; cbn in H; try contradiction.
    - rewrite (cs_const _ _ H k Hk). destruct (c =? k).
      + eapply sim_bind; [apply sim_skip|]. intros _ _ _. apply sim_ret. reflexivity.
      + apply sim_ret. reflexivity.
    - apply sim_ret. reflexivity.
  Qed.
  Lemma value_at_sim : forall line a b, osim lsim (value_at d line a b) (value_at d' line a b).
  Proof.
    intros line a b. unfold value_at, get_line. pose proof (nth_error_sim d d' HB (N.to_nat line)) as H.
    destruct (nth_error d _), (nth_error d' _); try contradiction; [|cbn; exact I].
    destruct (b <=? a); [cbn; constructor|]. apply cut16_sim. exact H.
  Qed.

  (* -------------------------------------------------------------------------------------- *)
  (* 4. the tokenizer, function by function                                                 *)
  (* -------------------------------------------------------------------------------------- *)
  Variable kws : list (list N).
  Variable F : nat.
  Variable fixed : bool.

  Ltac sbind L := eapply sim_bind; [apply L|].
  Ltac inl k := (cbn; tauto).

  Definition R4 (x y : option N * list N * option position * option position) : Prop :=
    match x, y with (a, t, b, i), (a', t', b', i') => a = a' /\ lsim t t' /\ b = b' /\ i = i' end.

  Lemma sim_parse_integer_loop : forall fuel base stp acc txt txt' big inv, lsim txt txt' ->
    simM R4 (parse_integer_loop d fuel base stp acc txt big inv) (parse_integer_loop d' fuel base stp acc txt' big inv).
  Proof.
    induction fuel as [|f IH]; intros base stp acc txt txt' big inv HT; cbn [parse_integer_loop]; [apply sim_stop|].
    sbind sim_peek. intros [b|] [b'|] H; cbn in H; try contradiction.
    - rewrite (cs_stop _ _ H), (cs_hex _ _ H), (cs_const _ _ H 95) by inl 0. rewrite (cs_alpha _ _ H).
      destruct (stp && stop_suffix b); [apply sim_ret; cbn; auto|].
      destruct (is_hex b) eqn:X.
      + sbind sim_get_pos. intros p p' <-. rewrite (cs_hex_val _ _ H X).
        sbind sim_skip. intros _ _ _. apply IH. apply lsim_snoc; assumption.
      + destruct (b =? 95).
        * sbind sim_skip. intros _ _ _. apply IH. apply lsim_snoc; assumption.
        * destruct (is_alpha b).
          -- sbind sim_get_pos. intros p p' <-. sbind sim_skip. intros _ _ _. apply IH. apply lsim_snoc; assumption.
          -- apply sim_ret. cbn. auto.
    - apply sim_ret. cbn. auto.
  Qed.

  Definition RNL (x y : N * list N) : Prop := fst x = fst y /\ lsim (snd x) (snd y).

  Lemma sim_parse_integer : forall base stp, simM RNL (parse_integer d F base stp) (parse_integer d' F base stp).
  Proof.
    intros base stp. unfold parse_integer. sbind sim_get_pos. intros start start' <-.
    eapply sim_bind; [apply sim_parse_integer_loop; constructor|].
    intros [[[acc txt] big] inv] [[[acc' txt'] big'] inv'] [<- [HT [<- <-]]].
    destruct inv; [apply sim_throw|]. destruct big; [apply sim_throw|].
    destruct acc; [apply sim_ret; split; [reflexivity|exact HT]|].
    sbind sim_get_pos. intros e e' <-. apply sim_throw.
  Qed.

  Definition RE (x y : bool * N * list N) : Prop :=
    match x, y with (n, m, t), (n', m', t') => n = n' /\ m = m' /\ lsim t t' end.

  Lemma sim_parse_exponent : simM RE (parse_exponent d F) (parse_exponent d' F).
  Proof.
    unfold parse_exponent. sbind sim_get_pos. intros start start' <-.
    sbind sim_peek. intros ob ob' HO. rewrite (opt_is_sim _ _ 45 HO) by inl 0.
    eapply sim_bind with (R := fun x y : bool * list N => x = y).
    - destruct (opt_is ob 45).
      + sbind sim_skip. intros _ _ _. apply sim_ret. reflexivity.
      + eapply sim_bind; [apply sim_skip_if; inl 0|]. intros s s' <-. apply sim_ret. reflexivity.
    - intros [neg buf] [neg' buf'] E. injection E as <- <-.
      sbind sim_parse_integer. intros [v t] [v' t'] [E HT]. cbn [fst snd] in E, HT. subst v'.
      sbind sim_get_pos. intros e e' <-.
      destruct neg.
      + destruct (v <=? I32MAX + 1); [|apply sim_throw]. apply sim_ret. cbn. split; [reflexivity|split; [reflexivity|]].
        apply lsim_app; [apply lsim_refl|exact HT].
      + destruct (v <=? I32MAX); [|apply sim_throw]. apply sim_ret. cbn. split; [reflexivity|split; [reflexivity|]].
        apply lsim_app; [apply lsim_refl|exact HT].
  Qed.

  (* ---------- quoted ---------- *)
  Definition RQ (x y : list N * bool * bool) : Prop :=
    match x, y with (b, m, f), (b', m', f') => lsim b b' /\ m = m' /\ f = f' end.
  Lemma sim_quoted_loop : forall fuel q buf buf' multi, In q nonletter_consts -> lsim buf buf' ->
    simM RQ (quoted_loop d fuel q buf multi) (quoted_loop d' fuel q buf' multi).
  Proof.
    induction fuel as [|f IH]; intros q buf buf' multi Hq HBf; cbn [quoted_loop]; [apply sim_stop|].
    sbind sim_pop. intros [c|] [c'|] H; cbn in H; try contradiction; [|apply sim_ret; cbn; auto].
    rewrite (cs_const _ _ H 10) by inl 0. rewrite (cs_const _ _ H q Hq).
    destruct (c =? q).
    - sbind sim_peek. intros o2 o2' H2. rewrite (opt_is_sim _ _ q H2 Hq).
      destruct (opt_is o2 q).
      + sbind sim_skip. intros _ _ _. apply IH; [exact Hq|apply lsim_snoc; assumption].
      + apply sim_ret. cbn. auto.
    - apply IH; [exact Hq|apply lsim_snoc; assumption].
  Qed.
  Lemma sim_quoted_recover : forall fuel q, In q nonletter_consts ->
    simM eq (quoted_recover d fuel q) (quoted_recover d' fuel q).
  Proof.
    induction fuel as [|f IH]; intros q Hq; cbn [quoted_recover]; [apply sim_stop|].
    sbind sim_pop_char. intros [c|] [c'|] H; cbn in H; try contradiction; [|apply sim_ret; reflexivity].
    rewrite (cs_const _ _ H q Hq). destruct (c =? q); [|apply IH; exact Hq].
    sbind sim_peek_char. intros o2 o2' H2. rewrite (opt_is_sim _ _ q H2 Hq).
    destruct (opt_is o2 q); [|apply sim_ret; reflexivity].
    sbind sim_skip. intros _ _ _. apply IH. exact Hq.
  Qed.
  Definition RPQ (q : N) (incl : bool) (v v' : list N) : Prop :=
    lsim v v' /\ (incl = true -> last v 0 = q /\ last v' 0 = q).
  Lemma sim_parse_quoted : forall q incl, In q nonletter_consts ->
    simM (RPQ q incl) (parse_quoted d F q incl) (parse_quoted d' F q incl).
  Proof.
    intros q incl Hq. unfold parse_quoted. sbind sim_get_pos. intros start start' <-.
    eapply sim_bind; [apply sim_try; apply sim_quoted_loop; [exact Hq|apply lsim_refl]|].
    intros [[[buf multi] found]|e] [[[buf' multi'] found']|e'] H; cbn in H; try contradiction.
    - destruct H as [HBf [<- <-]].
      sbind sim_get_pos. intros e e' <-.
      destruct (negb found); [apply sim_throw|]. destruct multi; [apply sim_throw|].
      apply sim_ret. unfold RPQ. destruct incl.
      + split; [apply lsim_snoc; [exact HBf|apply csim_refl]|]. intros _. rewrite !last_last. split; reflexivity.
      + split; [exact HBf|]. intros X. discriminate.
    - subst e'. eapply sim_bind; [apply sim_quoted_recover; exact Hq|]. intros _ _ _. apply sim_throw.
  Qed.

  (* ---------- comments ---------- *)
  Lemma sim_take_to_nl : forall fuel acc acc', lsim acc acc' ->
    simM lsim (take_to_nl d fuel acc) (take_to_nl d' fuel acc').
  Proof.
    induction fuel as [|f IH]; intros acc acc' HA; cbn [take_to_nl]; [apply sim_stop|].
    sbind sim_peek_char. intros [c|] [c'|] H; cbn in H; try contradiction; [|apply sim_ret; exact HA].
    unfold LF. rewrite (cs_const _ _ H 10) by inl 0. destruct (c =? 10); [apply sim_ret; exact HA|].
    sbind sim_skip. intros _ _ _. apply IH. apply lsim_snoc; assumption.
  Qed.
  Lemma sim_ml_loop : forall fuel acc acc', lsim acc acc' ->
    simM (osim lsim) (ml_loop d fuel acc) (ml_loop d' fuel acc').
  Proof.
    induction fuel as [|f IH]; intros acc acc' HA; cbn [ml_loop]; [apply sim_stop|].
    sbind sim_pop_char. intros [c|] [c'|] H; cbn in H; try contradiction; [|apply sim_ret; cbn; exact I].
    rewrite (cs_const _ _ H 42) by inl 0. destruct (c =? 42); [|apply IH; apply lsim_snoc; assumption].
    sbind sim_peek_char. intros o2 o2' H2. rewrite (opt_is_sim _ _ 47 H2) by inl 0.
    destruct (opt_is o2 47); [|apply IH; apply lsim_snoc; assumption].
    sbind sim_skip. intros _ _ _. apply sim_ret. cbn. exact HA.
  Qed.

  Hypothesis HDir : directives_agree d d' F.

  Definition csimD (c c' : comment) : Prop := comment_sim c c' /\ dir_eq (c_val c) (c_val c').

  Lemma sim_take_to_nl_dir : simM (fun v v' => lsim v v' /\ dir_eq v v') (take_to_nl d F []) (take_to_nl d' F []).
  Proof.
    intros st. pose proof (sim_take_to_nl F [] [] (lsim_refl []) st) as H.
    assert (G : forall r1 r2, take_to_nl d F [] st = r1 -> take_to_nl d' F [] st = r2 -> rsim lsim r1 r2 ->
                rsim (fun v v' => lsim v v' /\ dir_eq v v') r1 r2).
    { intros [[v|e|a] s1] [[v'|e'|a'] s2] E1 E2 [ES H1]; cbn [fst snd] in ES, H1; try contradiction;
        (split; [exact ES|]); cbn [fst snd]; auto.
      split; [exact H1|]. eapply (proj1 HDir); eassumption. }
    exact (G _ _ eq_refl eq_refl H).
  Qed.
  Lemma sim_ml_loop_dir : simM (osim (fun v v' => lsim v v' /\ dir_eq v v')) (ml_loop d F []) (ml_loop d' F []).
  Proof.
    intros st. pose proof (sim_ml_loop F [] [] (lsim_refl []) st) as H.
    assert (G : forall r1 r2, ml_loop d F [] st = r1 -> ml_loop d' F [] st = r2 -> rsim (osim lsim) r1 r2 ->
                rsim (osim (fun v v' => lsim v v' /\ dir_eq v v')) r1 r2).
    { intros [[v|e|a] s1] [[v'|e'|a'] s2] E1 E2 [ES H1]; cbn [fst snd] in ES, H1; try contradiction;
        (split; [exact ES|]); cbn [fst snd]; auto.
      destruct v as [v|], v' as [v'|]; cbn in H1 |- *; try contradiction; [|exact I].
      split; [exact H1|]. eapply (proj2 HDir); eassumption. }
    exact (G _ _ eq_refl eq_refl H).
  Qed.

  Lemma sim_parse_comment : simM csimD (parse_comment d F) (parse_comment d' F).
  Proof.
    unfold parse_comment. sbind sim_get_pos. intros p p' <-.
    sbind sim_take_to_nl_dir. intros v v' [HV HD]. sbind sim_get_pos. intros e e' <-.
    apply sim_ret. split; [|exact HD]. unfold comment_sim. cbn. auto.
  Qed.
  Lemma sim_parse_ml_comment : simM csimD (parse_ml_comment d F) (parse_ml_comment d' F).
  Proof.
    unfold parse_ml_comment. sbind sim_get_pos. intros p p' <-.
    sbind sim_ml_loop_dir. intros [v|] [v'|] HV; cbn in HV; try contradiction.
    - destruct HV as [HV HD]. sbind sim_get_pos. intros e e' <-.
      apply sim_ret. split; [|exact HD]. unfold comment_sim. cbn. auto.
    - sbind sim_get_pos. intros e e' <-. apply sim_throw.
  Qed.

  Lemma sim_skip_ws : forall fuel nl, simM eq (skip_ws d fuel nl) (skip_ws d' fuel nl).
  Proof.
    induction fuel as [|f IH]; intros nl; cbn [skip_ws]; [apply sim_stop|].
    eapply sim_bind; [apply sim_try; apply sim_peek|].
    intros [[b|]|e] [[b'|]|e'] H; cbn in H; try contradiction; try (apply sim_ret; reflexivity).
    rewrite (cs_const _ _ H 32), (cs_const _ _ H 9), (cs_const _ _ H 10) by inl 0.
    destruct ((b =? 32) || (b =? 9) || nl && (b =? 10)); [|apply sim_ret; reflexivity].
    sbind sim_skip. intros _ _ _. apply IH.
  Qed.

  Lemma sim_leading_comments : forall fuel acc acc', Forall2 csimD acc acc' ->
    simM (Forall2 csimD) (leading_comments d F fuel acc) (leading_comments d' F fuel acc').
  Proof.
    induction fuel as [|f IH]; intros acc acc' HA; cbn [leading_comments]; [apply sim_stop|].
    eapply sim_bind; [apply sim_skip_ws|]. intros _ _ _.
    sbind sim_get_state. intros st st' <-.
    sbind sim_pop. intros [b|] [b'|] H; cbn in H; try contradiction; [|apply sim_ret; exact HA].
    rewrite (cs_const _ _ H 47), (cs_const _ _ H 45) by inl 0.
    assert (BACK : simM (Forall2 csimD) (set_state st;;; ret acc) (set_state st;;; ret acc')).
    { eapply sim_bind; [apply sim_set_state|]. intros _ _ _. apply sim_ret. exact HA. }
    destruct (b =? 47).
    - sbind sim_pop. intros o2 o2' H2. rewrite (opt_is_sim _ _ 42 H2) by inl 0.
      destruct (opt_is o2 42); [|exact BACK].
      sbind sim_parse_ml_comment. intros c c' HC. apply IH. apply Forall2_app; [exact HA|constructor; [exact HC|constructor]].
    - destruct (b =? 45); [|exact BACK].
      sbind sim_pop. intros o2 o2' H2. rewrite (opt_is_sim _ _ 45 H2) by inl 0.
      destruct (opt_is o2 45); [|exact BACK].
      sbind sim_parse_comment. intros c c' HC. apply IH. apply Forall2_app; [exact HA|constructor; [exact HC|constructor]].
  Qed.

  Lemma sim_trailing_comment : simM (osim csimD) (trailing_comment d F) (trailing_comment d' F).
  Proof.
    unfold trailing_comment. eapply sim_bind; [apply sim_skip_ws|]. intros _ _ _.
    sbind sim_get_state. intros st st' <-.
    sbind sim_pop. intros ob ob' H. rewrite (opt_is_sim _ _ 45 H) by inl 0.
    assert (BACK : simM (osim csimD) (set_state st;;; ret None) (set_state st;;; ret None)).
    { eapply sim_bind; [apply sim_set_state|]. intros _ _ _. apply sim_ret. exact I. }
    destruct (opt_is ob 45); [|exact BACK].
    sbind sim_pop. intros o2 o2' H2. rewrite (opt_is_sim _ _ 45 H2) by inl 0.
    destruct (opt_is o2 45); [|exact BACK].
    sbind sim_parse_comment. intros c c' HC. apply sim_ret. exact HC.
  Qed.

  (* ---------- base specifier, bit string ---------- *)
  Lemma sim_bs_second : forall off, simM eq (bs_second d off) (bs_second d' off).
  Proof.
    intros off. unfold bs_second. sbind sim_pop_lowercase. intros oc oc' <-. apply sim_ret. reflexivity.
  Qed.
  Lemma sim_parse_base_specifier : simM eq (parse_base_specifier d) (parse_base_specifier d').
  Proof.
    unfold parse_base_specifier. sbind sim_pop_lowercase. intros [c|] oc' <-; [|apply sim_ret; reflexivity].
    eapply sim_bind with (R := eq).
    - destruct (c =? 117); [apply sim_bs_second|]. destruct (c =? 115); [apply sim_bs_second|]. apply sim_ret. reflexivity.
    - intros [code|] o' <-; [|apply sim_ret; reflexivity].
      sbind sim_pop. intros oq oq' H. apply sim_ret. rewrite (opt_is_sim _ _ 34 H) by inl 0. reflexivity.
  Qed.
  Lemma sim_maybe_base_specifier : simM eq (maybe_base_specifier d fixed) (maybe_base_specifier d' fixed).
  Proof.
    intros st. unfold maybe_base_specifier. pose proof (sim_parse_base_specifier st) as H.
    destruct (parse_base_specifier d st) as [[[v|]|e|a] s1]; destruct (parse_base_specifier d' st) as [[[v'|]|e'|a'] s2];
      destruct H as [ES H]; cbn [fst snd] in ES, H; try contradiction; try discriminate; subst.
    - injection H as <-. split; reflexivity.
    - split; reflexivity.
    - destruct fixed; split; reflexivity.
    - split; reflexivity.
  Qed.

  Definition kv_sim (x y : kind * value) : Prop := fst x = fst y /\ val_sim (snd x) (snd y).

  Lemma sim_parse_bit_string : forall base len col,
    simM kv_sim (parse_bit_string d F base len col) (parse_bit_string d' F base len col).
  Proof.
    intros base len col. unfold parse_bit_string.
    eapply sim_bind; [apply sim_parse_quoted; inl 0|]. intros v v' [HV _].
    sbind sim_get_pos. intros p p' <-.
    pose proof (value_at_sim (fst p) col (snd p)) as HVA.
    destruct (value_at d (fst p) col (snd p)), (value_at d' (fst p) col (snd p)); cbn in HVA; try contradiction.
    - apply sim_ret. split; [reflexivity|]. cbn. auto.
    - apply sim_stop.
  Qed.

  (* ---------- identifiers ---------- *)
  Definition idc (b : N) : Prop := is_alnum b || (b =? 95) = true.
  Lemma sim_ident_loop : forall fuel acc acc', lsim acc acc' -> Forall idc acc ->
    simM (fun t t' => lsim t t' /\ Forall idc t) (ident_loop d fuel acc) (ident_loop d' fuel acc').
  Proof.
    induction fuel as [|f IH]; intros acc acc' HA HI; cbn [ident_loop]; [apply sim_stop|].
    sbind sim_peek. intros [b|] [b'|] H; cbn in H; try contradiction; [|apply sim_ret; split; assumption].
    rewrite (cs_alnum _ _ H), (cs_const _ _ H 95) by inl 0.
    destruct (is_alnum b || (b =? 95)) eqn:IC; [|apply sim_ret; split; assumption].
    sbind sim_skip. intros _ _ _. apply IH; [apply lsim_snoc; assumption|].
    apply Forall_app. split; [exact HI|constructor; [exact IC|constructor]].
  Qed.
  Lemma insert_or_keyword_sim : forall n n', lsim n n' -> Forall idc n ->
    kv_sim (insert_or_keyword kws n) (insert_or_keyword kws n').
  Proof.
    intros n n' H HI. unfold insert_or_keyword. rewrite (lsim_lowercase _ _ H).
    destruct (existsb (leqb (map lowercase n)) kws); split; cbn; auto.
    split; [exact H|]. intros X. exfalso. destruct n as [|b r]; cbn [hd] in X; [discriminate|].
    subst b. inversion HI as [|x l I1 I2]. unfold idc in I1. vm_compute in I1. discriminate.
  Qed.
  Lemma vbi_rest_sim : forall l l', lsim l l' -> forall p, vbi_rest p l' = vbi_rest p l.
  Proof.
    induction 1 as [|b b' l l' H _ IH]; intros p; cbn [vbi_rest]; [reflexivity|].
    rewrite (cs_const _ _ H 95) by inl 0. rewrite (cs_alnum _ _ H), !IH. reflexivity.
  Qed.
  Lemma validate_sim : forall l l', lsim l l' -> validate_basic_identifier l' = validate_basic_identifier l.
  Proof.
    intros l l' H. destruct H as [|b b' l l' H HL]; [reflexivity|]. cbn [validate_basic_identifier].
    rewrite (cs_alpha _ _ H), (vbi_rest_sim _ _ HL). reflexivity.
  Qed.
  Definition tv_sim (x y : tokv) : Prop :=
    match x, y with (k, v, w), (k', v', w') => k = k' /\ val_sim v v' /\ w = w' end.
  Lemma sim_parse_ident : simM (fun x y : kind * value * option N => kv_sim (fst x) (fst y) /\ snd x = snd y)
    (parse_basic_identifier_or_keyword d kws F) (parse_basic_identifier_or_keyword d' kws F).
  Proof.
    unfold parse_basic_identifier_or_keyword. eapply sim_bind; [apply sim_ident_loop; constructor|].
    intros t t' [HT HI]. apply sim_ret. cbn [fst snd]. split; [apply insert_or_keyword_sim; assumption|].
    symmetry. apply validate_sim. exact HT.
  Qed.

  (* ---------- abstract literals ---------- *)
  Lemma sim_real_loop : forall fuel txt dg, simM eq (real_loop d fuel txt dg) (real_loop d' fuel txt dg).
  Proof.
    induction fuel as [|f IH]; intros txt dg; cbn [real_loop]; [apply sim_stop|].
    sbind sim_peek_lowercase. intros [b|] ob' <-; [|apply sim_ret; reflexivity].
    destruct (b =? 101); [apply sim_ret; reflexivity|].
    destruct (is_digit b || in_range 97 100 b || (b =? 102) || (b =? 46)).
    - sbind sim_skip. intros _ _ _. apply IH.
    - destruct (b =? 95); [|apply sim_ret; reflexivity]. sbind sim_skip. intros _ _ _. apply IH.
  Qed.
  Lemma sim_parse_real_literal : simM eq (parse_real_literal d F) (parse_real_literal d' F).
  Proof.
    unfold parse_real_literal. sbind sim_get_pos. intros start start' <-.
    sbind sim_real_loop. intros [txt dg] x <-. sbind sim_get_pos. intros e e' <-.
    destruct (f64_ok dg); [apply sim_ret; reflexivity|apply sim_throw].
  Qed.

  Definition RI (x y : (N * list N) + terr) : Prop := sum_rel RNL eq x y.

  Lemma lit_real_sim : forall t t', lsim t t' -> kv_sim (lit_real t) (lit_real t').
  Proof. intros t t' H. split; [reflexivity|exact H]. Qed.
  Lemma lit_int_sim : forall t t' v, lsim t t' -> kv_sim (lit_int t v) (lit_int t' v).
  Proof. intros t t' v H. split; [reflexivity|]. cbn. auto. Qed.

  Lemma sim_abs_real_gen : forall fix24 st0 pai i i', RI i i' ->
    simM kv_sim (abs_real_gen d F fix24 st0 pai i) (abs_real_gen d' F fix24 st0 pai i').
  Proof.
    intros fix24 st0 pai i i' HI. unfold abs_real_gen.
    eapply sim_bind; [apply sim_set_state|]. intros _ _ _.
    sbind sim_parse_real_literal. intros txt txt' <-. sbind sim_get_pos. intros p p' <-.
    eapply sim_bind with (R := eq).
    - destruct (fix24 && plt p pai); [|apply sim_ret; reflexivity].
      eapply sim_bind; [apply sim_of_result; exact HI|]. intros _ _ _. apply sim_ret. reflexivity.
    - intros _ _ _. sbind sim_peek. intros [c|] [c'|] H; cbn in H; try contradiction.
      + rewrite (cs_is_e _ _ H). destruct (is_e c); [|apply sim_ret; apply lit_real_sim; apply lsim_refl].
        sbind sim_skip. intros _ _ _. sbind sim_parse_exponent.
        intros [[n m] et] [[n' m'] et'] [_ [_ HE]]. apply sim_ret. apply lit_real_sim.
        apply lsim_app; [apply lsim_refl|]. apply lsim_app; [constructor; [exact H|constructor]|exact HE].
      + apply sim_ret. apply lit_real_sim. apply lsim_refl.
  Qed.

  Lemma sim_abs_int_exp : forall p0 i i', RI i i' ->
    simM kv_sim (abs_int_exp d F p0 i) (abs_int_exp d' F p0 i').
  Proof.
    intros p0 i i' HI. unfold abs_int_exp.
    eapply sim_bind; [apply sim_of_result; exact HI|]. intros [iv it] [iv' it'] [E HT]. cbn [fst snd] in E, HT. subst iv'.
    eapply sim_bind; [apply sim_try; apply sim_peek|].
    intros [[c|]|e] [[c'|]|e'] H; cbn in H; try contradiction; try apply sim_stop.
    sbind sim_skip. intros _ _ _. sbind sim_parse_exponent.
    intros [[neg ev] et] [[neg' ev'] et'] [<- [<- HE]]. sbind sim_get_pos. intros e e' <-.
    destruct (exp_is_neg neg ev); [apply sim_throw|].
    destruct (ev <=? 19); [|apply sim_throw].
    destruct ((10 ^ ev <? TWO64) && (10 ^ ev * iv <? TWO64)); [|apply sim_throw].
    apply sim_ret. apply lit_int_sim.
    apply lsim_app; [exact HT|]. apply lsim_app; [constructor; [exact H|constructor]|exact HE].
  Qed.

  Lemma sim_abs_plain : forall i i', RI i i' -> simM kv_sim (abs_plain i) (abs_plain i').
  Proof.
    intros i i' HI. unfold abs_plain. eapply sim_bind; [apply sim_of_result; exact HI|].
    intros [iv it] [iv' it'] [E HT]. cbn [fst snd] in E, HT. subst iv'. apply sim_ret. apply lit_int_sim. exact HT.
  Qed.

  Lemma sim_abs_bit_string : forall p0 i i', RI i i' ->
    simM kv_sim (abs_bit_string d F p0 i) (abs_bit_string d' F p0 i').
  Proof.
    intros p0 i i' HI. unfold abs_bit_string. eapply sim_bind; [apply sim_of_result; exact HI|].
    intros [iv it] [iv' it'] [E HT]. cbn [fst snd] in E, HT. subst iv'.
    sbind sim_parse_base_specifier. intros [bs|] o' <-.
    - apply sim_parse_bit_string.
    - sbind sim_get_pos. intros e e' <-. apply sim_throw.
  Qed.

  Lemma sim_abs_based : forall delim p0 pai i i', In delim nonletter_consts -> RI i i' ->
    simM kv_sim (abs_based d F delim p0 pai i) (abs_based d' F delim p0 pai i').
  Proof.
    intros delim p0 pai i i' HDl HI. unfold abs_based. eapply sim_bind; [apply sim_of_result; exact HI|].
    intros [base bt] [base' bt'] [E HBT]. cbn [fst snd] in E, HBT. subst base'.
    sbind sim_skip. intros _ _ _.
    eapply sim_bind; [apply sim_try; apply sim_parse_integer|]. intros bres bres' HBR.
    sbind sim_peek. intros op op' HOP. rewrite (opt_is_sim _ _ 46 HOP) by inl 0.
    eapply sim_bind with (R := osim RI).
    - destruct (opt_is op 46); [|apply sim_ret; exact I].
      sbind sim_skip. intros _ _ _. eapply sim_bind; [apply sim_try; apply sim_parse_integer|].
      intros r r' HR. apply sim_ret. exact HR.
    - intros fres fres' HFR. sbind sim_peek. intros op2 op2' HOP2. rewrite (opt_is_sim _ _ delim HOP2 HDl).
      destruct (opt_is op2 delim).
      + sbind sim_skip. intros _ _ _. eapply sim_bind; [apply sim_of_result; exact HBR|].
        intros [iv it] [iv' it'] [E HIT]. cbn [fst snd] in E, HIT. subst iv'.
        eapply sim_bind with (R := osim lsim).
        * destruct fres as [r|], fres' as [r'|]; cbn in HFR; try contradiction; [|apply sim_ret; exact I].
          eapply sim_bind; [apply sim_of_result; exact HFR|]. intros [fv ft] [fv' ft'] [_ HFT]. apply sim_ret. exact HFT.
        * intros ftxt ftxt' HFT.
          assert (HTX : lsim (bt ++ [delim] ++ it ++ match ftxt with Some ft => [46] ++ ft | None => [] end ++ [delim])
                             (bt' ++ [delim] ++ it' ++ match ftxt' with Some ft => [46] ++ ft | None => [] end ++ [delim])).
          { apply lsim_app; [exact HBT|]. apply lsim_app; [apply lsim_refl|]. apply lsim_app; [exact HIT|].
            apply lsim_app; [|apply lsim_refl].
            destruct ftxt, ftxt'; cbn in HFT; try contradiction; [|constructor].
            apply lsim_app; [apply lsim_refl|exact HFT]. }
          destruct (negb (in_range 2 16 base)); [apply sim_throw|].
          sbind sim_peek. intros op3 op3' HOP3.
          eapply sim_bind with (R := osim (fun x y : N * (bool * N * list N) => csim (fst x) (fst y) /\ RE (snd x) (snd y))).
          -- destruct op3 as [c|], op3' as [c'|]; cbn in HOP3; try contradiction; [|apply sim_ret; exact I].
             rewrite (cs_is_e _ _ HOP3). destruct (is_e c); [|apply sim_ret; exact I].
             sbind sim_skip. intros _ _ _. sbind sim_parse_exponent. intros x x' HX. apply sim_ret. cbn. auto.
          -- intros oexp oexp' HOE.
             assert (HTX2 : lsim (match oexp with Some (c, (_, _, et)) => (bt ++ [delim] ++ it ++ match ftxt with Some ft => [46] ++ ft | None => [] end ++ [delim]) ++ [c] ++ et
                                               | None => bt ++ [delim] ++ it ++ match ftxt with Some ft => [46] ++ ft | None => [] end ++ [delim] end)
                                 (match oexp' with Some (c, (_, _, et)) => (bt' ++ [delim] ++ it' ++ match ftxt' with Some ft => [46] ++ ft | None => [] end ++ [delim]) ++ [c] ++ et
                                               | None => bt' ++ [delim] ++ it' ++ match ftxt' with Some ft => [46] ++ ft | None => [] end ++ [delim] end)).
             { destruct oexp as [[c [[n m] et]]|], oexp' as [[c' [[n' m'] et']]|]; cbn in HOE; try contradiction; [|exact HTX].
               destruct HOE as [HC [_ [_ HE]]]. apply lsim_app; [exact HTX|]. apply lsim_app; [constructor; [exact HC|constructor]|exact HE]. }
             destruct ftxt as [ft|], ftxt' as [ft'|]; cbn in HFT; try contradiction.
             ++ apply sim_ret. apply lit_real_sim. exact HTX2.
             ++ destruct oexp as [[c [[neg ev] et]]|], oexp' as [[c' [[neg' ev'] et']]|]; cbn in HOE; try contradiction.
                ** destruct HOE as [_ [<- [<- _]]]. sbind sim_get_pos. intros e e' <-.
                   destruct (exp_is_neg neg ev); [apply sim_throw|]. destruct (ev <=? 64); [|apply sim_throw].
                   destruct ((base ^ ev <? TWO64) && (base ^ ev * iv <? TWO64)); [|apply sim_throw].
                   apply sim_ret. apply lit_int_sim. exact HTX2.
                ** apply sim_ret. apply lit_int_sim. exact HTX2.
      + sbind sim_get_pos. intros e e' <-. apply sim_throw.
  Qed.

  Lemma sim_colon_starts_based_literal : simM eq (colon_starts_based_literal d) (colon_starts_based_literal d').
  Proof.
    assert (L : simM (sum_rel (osim csim) eq) (colon_lookahead d) (colon_lookahead d')).
    { unfold colon_lookahead. sbind sim_skip. intros _ _ _. apply sim_try. apply sim_peek. }
    intros st. unfold colon_starts_based_literal. specialize (L st).
    destruct (colon_lookahead d st) as [[[[n|]|e]|e|a] s1]; destruct (colon_lookahead d' st) as [[[[n'|]|e']|e'|a'] s2];
      destruct L as [ES H]; cbn [fst snd] in ES, H; try contradiction; subst; split; cbn [fst snd]; auto.
    cbn in H. rewrite (cs_alnum _ _ H). reflexivity.
  Qed.

  Lemma sim_parse_abstract_literal : simM kv_sim (parse_abstract_literal d F) (parse_abstract_literal d' F).
  Proof.
    unfold parse_abstract_literal. sbind sim_get_state. intros st0 st0' <-.
    eapply sim_bind; [apply sim_try; apply sim_parse_integer|]. intros i i' HI.
    sbind sim_get_pos. intros pai pai' <-. sbind sim_peek_lowercase. intros [c|] o' <-; [|apply sim_abs_plain; exact HI].
    destruct (c =? 46); [apply sim_abs_real_gen; exact HI|].
    destruct (c =? 101); [apply sim_abs_int_exp; exact HI|].
    destruct (c =? 35); [apply sim_abs_based; [inl 0|exact HI]|].
    destruct (c =? 58).
    { sbind sim_colon_starts_based_literal. intros b b' <-.
      destruct b; [apply sim_abs_based; [inl 0|exact HI]|apply sim_abs_plain; exact HI]. }
    destruct (is_bs_letter c); [apply sim_abs_bit_string; exact HI|apply sim_abs_plain; exact HI].
  Qed.

  (* ---------- character literal ---------- *)
  Lemma sim_char_lookahead : simM (osim csim) (char_lookahead d) (char_lookahead d').
  Proof.
    unfold char_lookahead. sbind sim_pop. intros [c|] [c'|] H; cbn in H; try contradiction; [|apply sim_ret; exact I].
    eapply sim_bind; [apply sim_skip_if; inl 0|]. intros s s' <-. apply sim_ret. destruct s; cbn; auto.
  Qed.
  Lemma sim_parse_character_literal : simM (osim kv_sim) (parse_character_literal d) (parse_character_literal d').
  Proof.
    intros st. unfold parse_character_literal. pose proof (sim_char_lookahead st) as H.
    destruct (char_lookahead d st) as [[[v|]|e|a] s1]; destruct (char_lookahead d' st) as [[[v'|]|e'|a'] s2];
      destruct H as [ES H]; cbn [fst snd] in ES, H; try contradiction; subst; (split; [reflexivity|]); cbn; auto.
    split; [reflexivity|exact H].
  Qed.

  (* ---------- parse_token ---------- *)
  Lemma sim_simple : forall k, simM (osim tv_sim) (simple k) (simple k).
  Proof. intros k. unfold simple. apply sim_ret. cbn. auto. Qed.
  Lemma sim_two : forall c k2 k1, In c nonletter_consts -> simM (osim tv_sim) (two d c k2 k1) (two d' c k2 k1).
  Proof.
    intros c k2 k1 Hc. unfold two. eapply sim_bind; [apply sim_skip_if; exact Hc|]. intros s s' <-.
    destruct s; apply sim_simple.
  Qed.
  Lemma sim_illegal : forall start, simM (osim tv_sim) (illegal start) (illegal start).
  Proof. intros start. unfold illegal. sbind sim_get_pos. intros e e' <-. apply sim_throw. Qed.
  Lemma sim_lift_kv : forall m m', simM kv_sim m m' -> simM (osim tv_sim) (lift_kv m) (lift_kv m').
  Proof.
    intros m m' H. unfold lift_kv. eapply sim_bind; [exact H|]. intros [k v] [k' v'] [E V]. cbn [fst snd] in E, V.
    apply sim_ret. cbn. auto.
  Qed.

  Ltac oi H k := rewrite (opt_is_sim _ _ k H) by (cbn; tauto).

  Lemma sim_parse_token : forall start last,
    simM (osim tv_sim) (parse_token d kws F fixed start last) (parse_token d' kws F fixed start last).
  Proof.
    intros start last. unfold parse_token. sbind sim_peek.
    intros [b|] [b'|] H; cbn in H; try contradiction; [|apply sim_ret; exact I].
    rewrite (cs_alpha _ _ H), (cs_const _ _ H 95), (cs_digit _ _ H) by inl 0.
    destruct (is_alpha b) eqn:AL; cbn [orb].
    { sbind sim_get_state. intros st st' <-. sbind sim_maybe_base_specifier. intros [bs|] o' <-.
      - apply sim_lift_kv. apply sim_parse_bit_string.
      - sbind sim_parse_ident. intros [kv w] [kv' w'] [[K V] W]. cbn [fst snd] in K, V, W. apply sim_ret. cbn. auto. }
    pose proof (cs_nonalpha _ _ H AL) as E. subst b'. clear H.
    destruct (b =? 95).
    { sbind sim_get_state. intros st st' <-. sbind sim_maybe_base_specifier. intros [bs|] o' <-.
      - apply sim_lift_kv. apply sim_parse_bit_string.
      - sbind sim_parse_ident. intros [kv w] [kv' w'] [[K V] W]. cbn [fst snd] in K, V, W. apply sim_ret. cbn. auto. }
    destruct (is_digit b); [apply sim_lift_kv; apply sim_parse_abstract_literal|].
    sbind sim_skip. intros _ _ _.
    destruct (b =? 58); [apply sim_two; inl 0|].
    destruct (b =? 39).
    { destruct (can_be_char last); [|apply sim_simple].
      sbind sim_parse_character_literal. intros [[k v]|] [[k' v']|] HC; cbn in HC; try contradiction; [|apply sim_simple].
      destruct HC as [K V]. cbn [fst snd] in K, V. apply sim_ret. cbn. auto. }
    destruct (b =? 45); [apply sim_simple|].
    destruct (b =? 34).
    { eapply sim_bind; [apply sim_parse_quoted; inl 0|]. intros v v' [HV _]. apply sim_ret. cbn. auto. }
    destruct (b =? 59); [apply sim_simple|]. destruct (b =? 40); [apply sim_simple|].
    destruct (b =? 41); [apply sim_simple|]. destruct (b =? 43); [apply sim_simple|].
    destruct (b =? 46); [apply sim_simple|]. destruct (b =? 38); [apply sim_simple|].
    destruct (b =? 44); [apply sim_simple|]. destruct (b =? 61); [apply sim_two; inl 0|].
    destruct (b =? 60).
    { sbind sim_peek. intros o2 o2' H2. oi H2 61. oi H2 62. oi H2 60.
      destruct (opt_is o2 61); [sbind sim_skip; intros _ _ _; apply sim_simple|].
      destruct (opt_is o2 62); [sbind sim_skip; intros _ _ _; apply sim_simple|].
      destruct (opt_is o2 60); [sbind sim_skip; intros _ _ _; apply sim_simple|apply sim_simple]. }
    destruct (b =? 62).
    { sbind sim_peek. intros o2 o2' H2. oi H2 61. oi H2 62.
      destruct (opt_is o2 61); [sbind sim_skip; intros _ _ _; apply sim_simple|].
      destruct (opt_is o2 62); [sbind sim_skip; intros _ _ _; apply sim_simple|apply sim_simple]. }
    destruct (b =? 47); [apply sim_two; inl 0|]. destruct (b =? 42); [apply sim_two; inl 0|].
    destruct (b =? 63).
    { sbind sim_peek. intros o2 o2' H2. oi H2 63. oi H2 61. oi H2 47. oi H2 60. oi H2 62.
      destruct (opt_is o2 63); [sbind sim_skip; intros _ _ _; apply sim_simple|].
      destruct (opt_is o2 61); [sbind sim_skip; intros _ _ _; apply sim_simple|].
      destruct (opt_is o2 47).
      { sbind sim_skip. intros _ _ _. eapply sim_bind; [apply sim_skip_if; inl 0|]. intros s s' <-.
        destruct s; [apply sim_simple|apply sim_illegal]. }
      destruct (opt_is o2 60); [sbind sim_skip; intros _ _ _; apply sim_two; inl 0|].
      destruct (opt_is o2 62); [sbind sim_skip; intros _ _ _; apply sim_two; inl 0|apply sim_simple]. }
    destruct (b =? 94); [apply sim_simple|]. destruct (b =? 64); [apply sim_simple|].
    destruct (b =? 124); [apply sim_simple|]. destruct (b =? 91); [apply sim_simple|].
    destruct (b =? 93); [apply sim_simple|].
    destruct (b =? 92).
    { eapply sim_bind; [apply sim_parse_quoted; inl 0|]. intros v v' [HV HL]. apply sim_ret. cbn. auto. }
    destruct (b =? 96); [apply sim_simple|apply sim_illegal].
  Qed.

  (* ---------- tokens with directive-equivalent comments ---------- *)
  Definition tok_simD (t t' : token) : Prop :=
    t_kind t = t_kind t' /\ val_sim (t_val t) (t_val t') /\ t_s t = t_s t' /\ t_e t = t_e t'
    /\ Forall2 csimD (t_lead t) (t_lead t') /\ osim csimD (t_trail t) (t_trail t').

  Lemma is_off_sim : forall c c', csimD c c' -> is_off c' = is_off c.
  Proof. intros c c' [_ [E _]]. unfold is_off. symmetry. exact E. Qed.
  Lemma is_on_sim : forall c c', csimD c c' -> is_on c' = is_on c.
  Proof. intros c c' [_ [_ E]]. unfold is_on. symmetry. exact E. Qed.
  Lemma existsb_on_sim : forall l l', Forall2 csimD l l' -> existsb is_on l' = existsb is_on l.
  Proof.
    induction 1 as [|c c' l l' H _ IH]; [reflexivity|]. cbn [existsb]. rewrite (is_on_sim _ _ H), IH. reflexivity.
  Qed.
  Lemma lead_start_sim : forall l l', Forall2 csimD l l' -> lead_start l' = lead_start l.
  Proof.
    induction 1 as [|c c' l l' H HL IH]; [reflexivity|]. cbn [lead_start].
    rewrite (is_off_sim _ _ H), IH. cbn [existsb]. rewrite (is_on_sim _ _ H), (existsb_on_sim _ _ HL). reflexivity.
  Qed.
  Lemma leading_is_start_sim : forall t t', tok_simD t t' -> leading_is_start t' = leading_is_start t.
  Proof. intros t t' [_ [_ [_ [_ [L _]]]]]. unfold leading_is_start. apply lead_start_sim. exact L. Qed.
  Lemma leading_is_end_sim : forall t t', tok_simD t t' -> leading_is_end t' = leading_is_end t.
  Proof. intros t t' [_ [_ [_ [_ [L _]]]]]. unfold leading_is_end. apply existsb_on_sim. exact L. Qed.
  Lemma trailing_is_end_sim : forall t t', tok_simD t t' -> trailing_is_end t' = trailing_is_end t.
  Proof.
    intros t t' [_ [_ [_ [_ [_ T]]]]]. unfold trailing_is_end.
    destruct (t_trail t), (t_trail t'); cbn in T; try contradiction; [apply is_on_sim; exact T|reflexivity].
  Qed.

  (* ---------- pop_raw ---------- *)
  Lemma sim_pop_raw : forall t,
    rsim (osim tok_simD) (pop_raw d kws F fixed t) (pop_raw d' kws F fixed t).
  Proof.
    intros t. unfold pop_raw.
    pose proof (sim_leading_comments F [] [] (Forall2_nil _) (k_rd t)) as HL.
    destruct (leading_comments d F F [] (k_rd t)) as [[lead|e|a] r1];
      destruct (leading_comments d' F F [] (k_rd t)) as [[lead'|e'|a'] r1'];
      destruct HL as [ES HL]; cbn [fst snd] in ES, HL; try contradiction; subst; try (split; reflexivity).
    pose proof (sim_parse_token (r_pos r1') (k_last t) r1') as HP.
    destruct (parse_token d kws F fixed (r_pos r1') (k_last t) r1') as [[[[[k v] w]|]|e|a] r2];
      destruct (parse_token d' kws F fixed (r_pos r1') (k_last t) r1') as [[[[[k' v'] w']|]|e'|a'] r2'];
      destruct HP as [ES HP]; cbn [fst snd] in ES, HP; try contradiction; subst; try (split; cbn; auto; fail).
    destruct HP as [<- [HV <-]].
    pose proof (sim_trailing_comment r2') as HT.
    destruct (trailing_comment d F r2') as [[tr|e|a] r3]; destruct (trailing_comment d' F r2') as [[tr'|e'|a'] r3'];
      destruct HT as [ES HT]; cbn [fst snd] in ES, HT; try contradiction; subst; try (split; reflexivity).
    split; [reflexivity|]. cbn [fst]. cbn [osim]. unfold tok_simD. cbn. auto 10.
  Qed.

  Inductive ign_sim : ign -> ign -> Prop :=
  | is_break : forall t, ign_sim (IgnBreak t) (IgnBreak t)
  | is_ret : forall r r' t, osim tok_simD r r' -> ign_sim (IgnRet r t) (IgnRet r' t)
  | is_ab : forall a t, ign_sim (IgnAb a t) (IgnAb a t).

  Lemma sim_ignored_loop : forall fuel t,
    ign_sim (ignored_loop d kws F fixed fuel t) (ignored_loop d' kws F fixed fuel t).
  Proof.
    induction fuel as [|f IH]; intros t; cbn [ignored_loop]; [constructor|].
    pose proof (sim_pop_raw t) as HP.
    destruct (pop_raw d kws F fixed t) as [[[tok|]|e|a] t1]; destruct (pop_raw d' kws F fixed t) as [[[tok'|]|e'|a'] t1'];
      destruct HP as [ES HP]; cbn [fst snd] in ES, HP; try contradiction; subst.
    - rewrite (trailing_is_end_sim _ _ HP), (leading_is_end_sim _ _ HP).
      destruct (trailing_is_end tok); [constructor|]. destruct (leading_is_end tok); [constructor; exact HP|apply IH].
    - constructor. exact I.
    - apply IH.
    - constructor.
  Qed.

  Lemma sim_tk_pop : forall fuel t,
    rsim (osim tok_simD) (tk_pop d kws F fixed fuel t) (tk_pop d' kws F fixed fuel t).
  Proof.
    induction fuel as [|f IH]; intros t; cbn [tk_pop]; [split; reflexivity|].
    pose proof (sim_pop_raw t) as HP.
    destruct (pop_raw d kws F fixed t) as [[[tok|]|e|a] t1]; destruct (pop_raw d' kws F fixed t) as [[[tok'|]|e'|a'] t1'];
      destruct HP as [ES HP]; cbn [fst snd] in ES, HP; try contradiction; subst; try (split; cbn; auto; fail).
    rewrite (leading_is_start_sim _ _ HP), (trailing_is_end_sim _ _ HP).
    destruct (leading_is_start tok); [|split; [reflexivity|exact HP]].
    destruct (negb (trailing_is_end tok)); [|apply IH].
    pose proof (sim_ignored_loop F t1') as HI.
    destruct HI as [t2|r r' t2 HR|a t2]; [apply IH|split; [reflexivity|exact HR]|split; reflexivity].
  Qed.

  (* ---------- tool directives ---------- *)
  Lemma sim_until_nl : forall fuel acc acc', lsim acc acc' -> simM lsim (until_nl d fuel acc) (until_nl d' fuel acc').
  Proof.
    induction fuel as [|f IH]; intros acc acc' HA; cbn [until_nl]; [apply sim_stop|].
    sbind sim_peek. intros [b|] [b'|] H; cbn in H; try contradiction; [|apply sim_ret; exact HA].
    rewrite (cs_const _ _ H 10) by inl 0. destruct (b =? 10); [apply sim_ret; exact HA|].
    sbind sim_skip. intros _ _ _. apply IH. apply lsim_snoc; assumption.
  Qed.
  Lemma sim_text_until_newline : forall t,
    rsim tok_simD (text_until_newline d F t) (text_until_newline d' F t).
  Proof.
    intros t. unfold text_until_newline. pose proof (sim_until_nl F [] [] (Forall2_nil _) (k_rd t)) as H.
    destruct (until_nl d F [] (k_rd t)) as [[txt|e|a] r1]; destruct (until_nl d' F [] (k_rd t)) as [[txt'|e'|a'] r1'];
      destruct H as [ES H]; cbn [fst snd] in ES, H; try contradiction; subst; split; cbn; auto.
    unfold tok_simD. cbn. auto 10.
  Qed.
  Lemma sim_finish_directive : forall ds t,
    rsim eq (finish_directive d F ds t) (finish_directive d' F ds t).
  Proof.
    intros ds t. unfold finish_directive. pose proof (sim_text_until_newline t) as H.
    destruct (text_until_newline d F t) as [[x|e|a] t2]; destruct (text_until_newline d' F t) as [[x'|e'|a'] t2'];
      destruct H as [ES H]; cbn [fst snd] in ES, H; try contradiction; subst; split; cbn; auto.
  Qed.
  Lemma sim_handle_tool_directive : forall grave grave' t, tok_simD grave grave' ->
    rsim eq (handle_tool_directive d kws F fixed grave t) (handle_tool_directive d' kws F fixed grave' t).
  Proof.
    intros grave grave' t HG. unfold handle_tool_directive. pose proof (sim_tk_pop F t) as H.
    destruct (tk_pop d kws F fixed F t) as [[[tok|]|e|a] t1]; destruct (tk_pop d' kws F fixed F t) as [[[tok'|]|e'|a'] t1'];
      destruct H as [ES H]; cbn [fst snd] in ES, H; try contradiction; subst.
    - destruct H as [K [_ [S [E _]]]]. rewrite <- K, <- S, <- E.
      destruct (is_identifier (t_kind tok)); [apply sim_finish_directive|].
      pose proof (sim_text_until_newline t1') as H2.
      destruct (text_until_newline d F t1') as [[x|e|a] t2]; destruct (text_until_newline d' F t1') as [[x'|e'|a'] t2'];
        destruct H2 as [ES H2]; cbn [fst snd] in ES, H2; try contradiction; subst; split; cbn; auto.
    - destruct HG as [_ [_ [S [E _]]]]. rewrite <- S, <- E. split; reflexivity.
    - apply sim_finish_directive.
    - split; reflexivity.
  Qed.

  Definition outcome_simD (o o' : outcome) : Prop :=
    match o, o' with
    | Done ts ds, Done ts' ds' => Forall2 tok_simD ts ts' /\ ds = ds'
    | Aborted a, Aborted a' => a = a'
    | _, _ => False
    end.
  Lemma add_tok_sim : forall t t' o o', tok_simD t t' -> outcome_simD o o' -> outcome_simD (add_tok t o) (add_tok t' o').
  Proof.
    intros t t' [ts ds|a] [ts' ds'|a'] HT H; cbn in H |- *; try contradiction; [|exact H].
    destruct H as [H1 H2]. split; [constructor; assumption|exact H2].
  Qed.
  Lemma add_diags_sim : forall es o o', outcome_simD o o' -> outcome_simD (add_diags es o) (add_diags es o').
  Proof.
    intros es [ts ds|a] [ts' ds'|a'] H; cbn in H |- *; try contradiction; [|exact H].
    destruct H as [H1 H2]. split; [exact H1|congruence].
  Qed.

  Lemma sim_lex : forall fuel t, outcome_simD (lex d kws F fixed fuel t) (lex d' kws F fixed fuel t).
  Proof.
    induction fuel as [|f IH]; intros t; cbn [lex]; [reflexivity|].
    pose proof (sim_tk_pop F t) as H.
    destruct (tk_pop d kws F fixed F t) as [[[tok|]|e|a] t1]; destruct (tk_pop d' kws F fixed F t) as [[[tok'|]|e'|a'] t1'];
      destruct H as [ES H]; cbn [fst snd] in ES, H; try contradiction; subst.
    - assert (K : t_kind tok' = t_kind tok) by (symmetry; exact (proj1 H)). rewrite K.
      destruct (is_grave (t_kind tok)).
      + pose proof (sim_handle_tool_directive tok tok' t1' H) as HH.
        destruct (handle_tool_directive d kws F fixed tok t1') as [[ds|e|a] t2];
          destruct (handle_tool_directive d' kws F fixed tok' t1') as [[ds'|e'|a'] t2'];
          destruct HH as [ES HH]; cbn [fst snd] in ES, HH; try contradiction; subst; try reflexivity.
        apply add_diags_sim. apply IH.
      + apply add_tok_sim; [exact H|apply IH].
    - cbn. split; [constructor|reflexivity].
    - apply add_diags_sim. apply IH.
    - reflexivity.
  Qed.
End Sim.

(* ---------------------------------------------------------------------------------------- *)
(* 5. whole texts                                                                           *)
(* ---------------------------------------------------------------------------------------- *)
Lemma lsim_rev : forall a a', lsim a a' -> lsim (rev a) (rev a').
Proof.
  induction 1 as [|c c' a a' H _ IH]; [constructor|]. cbn [rev]. apply lsim_snoc; assumption.
Qed.

Lemma split_aux_sim : forall s s', tsim s s' -> forall pc cur cur', lsim cur cur' ->
  dsim (split_aux pc cur s) (split_aux pc cur' s').
Proof.
  induction 1 as [|c c' s s' H _ IH]; intros pc cur cur' HC; cbn [split_aux].
  - destruct HC as [|x x' cur cur' HX HC]; [constructor|].
    constructor; [|constructor]. apply lsim_rev. constructor; assumption.
  - unfold LF, CR. rewrite (cs_const _ _ H 10), (cs_const _ _ H 13) by (cbn; tauto).
    destruct (c =? 10).
    + destruct pc; [apply IH; exact HC|].
      constructor; [|apply IH; constructor]. apply lsim_rev. constructor; [apply csim_refl|exact HC].
    + destruct (c =? 13).
      * constructor; [|apply IH; constructor]. apply lsim_rev. constructor; [apply csim_refl|exact HC].
      * apply IH. constructor; assumption.
Qed.
Lemma split_lines_sim : forall s s', tsim s s' -> dsim (split_lines s) (split_lines s').
Proof. intros s s' H. unfold split_lines. apply split_aux_sim; [exact H|constructor]. Qed.

Lemma F2_impl : forall (A B : Type) (R S : A -> B -> Prop) l l', (forall a b, R a b -> S a b) ->
  Forall2 R l l' -> Forall2 S l l'.
Proof. intros A B R S l l' W H. induction H; constructor; auto. Qed.

Lemma csimD_sim : forall c c', csimD c c' -> comment_sim c c'.
Proof. intros c c' [H _]. exact H. Qed.
Lemma tok_simD_sim : forall t t', tok_simD t t' -> tok_sim t t'.
Proof.
  intros t t' [K [V [S [E [L T]]]]]. unfold tok_sim. repeat (split; [assumption|]). split.
  - eapply F2_impl; [|exact L]. apply csimD_sim.
  - destruct (t_trail t), (t_trail t'); cbn in T |- *; try contradiction; [apply csimD_sim; exact T|exact I].
Qed.
Lemma outcome_simD_sim : forall o o', outcome_simD o o' -> outcome_sim o o'.
Proof.
  intros [ts ds|a] [ts' ds'|a'] H; cbn in H |- *; try contradiction; [|exact H].
  destruct H as [H1 H2]. split; [|exact H2]. eapply F2_impl; [|exact H1]. apply tok_simD_sim.
Qed.

(* the main simulation theorem, for every keyword table, both variants of the base-specifier
   lookahead and every fuel: two texts that are case variants of each other (outside tool-directive
   comments) give the same tokens up to the case of the letters in their values, at the same
   positions, and exactly the same diagnostics *)
Theorem lex_gen_case_sim : forall kws fixed fuel s s', tsim s s' ->
  directives_agree (split_lines s) (split_lines s') fuel ->
  outcome_sim (lex_gen kws fixed fuel s) (lex_gen kws fixed fuel s').
Proof.
  intros kws fixed fuel s s' H HD. unfold lex_gen. apply outcome_simD_sim.
  apply sim_lex; [apply split_lines_sim; exact H|exact HD].
Qed.
Theorem lex_all_case_sim : forall s s', tsim s s' ->
  directives_agree (split_lines s) (split_lines s') (lex_fuel s) ->
  outcome_sim (lex_all s) (lex_all s').
Proof.
  intros s s' H HD. unfold lex_all. replace (lex_fuel s') with (lex_fuel s).
  - apply lex_gen_case_sim; assumption.
  - cut (length s = length s'); [intros E; unfold lex_fuel; rewrite E; reflexivity|exact (lsim_length _ _ H)].
Qed.
