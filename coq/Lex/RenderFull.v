(* Lex/RenderFull.v — the round trip without restriction on the token kinds.
   1. The identifier warnings of the tokenizer only accumulate, so every token of a DIAGNOSTIC-FREE stream comes
      from a pop_raw call that left no warning (lex_forall_clean).
   2. lit_tok_good: C11's "parse_token stops at the end of the input" (LangLexerRelex4.parse_token_sim) + the lockstep
      lemmas of Lex/RenderLock.v = "parse_token stops at every character of the follow set": a literal token is
      read back from its text followed by any `rest` accepted by follow_ok.
   3. pop_raw_good: every token the tokenizer produces from a diagnostic-free input is `tok_good` — numbers (plain,
      exponent, real, based), bit strings (with and without length), strings, extended identifiers by 2.; basic
      identifiers, keywords, delimiters and character literals through `supported_kind`.
   4. render_lex_roundtrip_full: lex (render trace) = the same stream, for every trace over the tokens of a
      diagnostic-free input whose separators satisfy sep_ok. *)
From Coq Require Import List NArith Arith Bool Lia ZifyBool ZifyN.
Import ListNotations.
From RH Require Import Text.Contents Text.ContentsProofs Text.Reader Text.ReaderProofs Text.ReaderInv
  Lex.LangLexer Lex.LangLexerProofs Lex.LangLexerNoCrash Lex.LangLexerComments Lex.LangLexerText Lex.LangLexerRelex
  Lex.LangLexerRelex2 Lex.LangLexerRelex4 Lex.LexSpec
  Lex.Render Lex.RenderStream Lex.RenderArms Lex.RenderGaps Lex.RenderToks Lex.RenderLex Lex.RenderLock Lex.RenderProofs.
Open Scope N_scope.
#[local] Arguments N.add : simpl never.
#[local] Arguments N.sub : simpl never.
#[local] Arguments N.mul : simpl never.
#[local] Arguments N.eqb : simpl never.
#[local] Arguments N.ltb : simpl never.
#[local] Arguments N.leb : simpl never.

(* ---------- the identifier warnings only accumulate ---------- *)
Section Warn.
  Variable d : list (list char).
  Variable F : nat.
  Local Notation kws := keywords_2008.

  Definition wle (t t' : tkst) : Prop := exists w, k_warn t' = k_warn t ++ w.
  Lemma wle_refl : forall t, wle t t.
  Proof. intro t. exists []. rewrite app_nil_r. reflexivity. Qed.
  Lemma wle_trans : forall a b c, wle a b -> wle b c -> wle a c.
  Proof. intros a b c [w1 E1] [w2 E2]. exists (w1 ++ w2). rewrite E2, E1, app_assoc. reflexivity. Qed.
  Lemma wle_nil : forall t t', wle t t' -> k_warn t' = [] -> k_warn t = [].
  Proof. intros t t' [w E] H. rewrite H in E. symmetry in E. apply app_eq_nil in E. apply E. Qed.
  Lemma wle_with_rd : forall t r, wle t (with_rd t r).
  Proof. intros t r. exists []. rewrite app_nil_r. reflexivity. Qed.

  Lemma pop_raw_wle : forall t r t', pop_raw d kws F true t = (r, t') -> wle t t'.
  Proof.
    intros t r t' H. unfold pop_raw in H.
    destruct (leading_comments d F F [] (k_rd t)) as [[lead|e|a] r1]; try (injection H as <- <-; apply wle_with_rd).
    destruct (parse_token d kws F true (r_pos r1) (k_last t) r1) as [[[[[k v] w]|]|e|a] r2]; try (injection H as <- <-; apply wle_with_rd).
    destruct (trailing_comment d F r2) as [[tr|e|a] r3]; injection H as <- <-; eexists; reflexivity.
  Qed.

  Definition from_raw (t : tkst) (tok : token) (t' : tkst) : Prop :=
    exists t0 t1, adv d (k_rd t) (k_rd t0) /\ pop_raw d kws F true t0 = (Ok (Some tok), t1) /\ wle t1 t'.

  Lemma ignored_loop_w : forall fuel t,
    match ignored_loop d kws F true fuel t with
    | IgnBreak t2 => wle t t2
    | IgnRet r t2 => wle t t2 /\ (forall tok, r = Some tok -> from_raw t tok t2)
    | IgnAb a t2 => wle t t2
    end.
  Proof.
    induction fuel as [|f IH]; intro t; cbn [ignored_loop]; [apply wle_refl|].
    destruct (pop_raw d kws F true t) as [r t1] eqn:PR. pose proof (pop_raw_wle _ _ _ PR) as W.
    pose proof (pop_raw_adv d kws F true _ _ _ PR) as A.
    assert (Hrec : match ignored_loop d kws F true f t1 with
                   | IgnBreak t2 => wle t t2
                   | IgnRet r t2 => wle t t2 /\ (forall tok, r = Some tok -> from_raw t tok t2)
                   | IgnAb a t2 => wle t t2
                   end).
    { specialize (IH t1). destruct (ignored_loop d kws F true f t1) as [t2|r2 t2|a t2].
      - eapply wle_trans; eassumption.
      - destruct IH as [W2 T2]. split; [eapply wle_trans; eassumption|].
        intros tok E. destruct (T2 tok E) as [t0 [t1' [B1 [B2 B3]]]]. exists t0, t1'.
        split; [eapply adv_trans; eassumption|auto].
      - eapply wle_trans; eassumption. }
    destruct r as [[tok|]|e|a].
    - destruct (trailing_is_end tok); [exact W|]. destruct (leading_is_end tok); [|exact Hrec].
      split; [exact W|]. intros tok' E. injection E as <-. exists t, t1.
      split; [apply adv_refl|]. split; [exact PR|apply wle_refl].
    - split; [exact W|]. intros tok E. discriminate.
    - exact Hrec.
    - exact W.
  Qed.

  Lemma tk_pop_w : forall fuel t r t', tk_pop d kws F true fuel t = (r, t') ->
    wle t t' /\ (forall tok, r = Ok (Some tok) -> from_raw t tok t').
  Proof.
    induction fuel as [|f IH]; intros t r t' H; cbn [tk_pop] in H.
    - injection H as <- <-. split; [apply wle_refl|intros tok E; discriminate].
    - destruct (pop_raw d kws F true t) as [r1 t1] eqn:PR. pose proof (pop_raw_wle _ _ _ PR) as W.
      pose proof (pop_raw_adv d kws F true _ _ _ PR) as A.
      assert (Hrec : forall t2, wle t t2 -> adv d (k_rd t) (k_rd t2) -> tk_pop d kws F true f t2 = (r, t') ->
                wle t t' /\ (forall tok, r = Ok (Some tok) -> from_raw t tok t')).
      { intros t2 W2 A2 E. destruct (IH _ _ _ E) as [W3 T3]. split; [eapply wle_trans; eassumption|].
        intros tok E'. destruct (T3 tok E') as [t0 [t1' [B1 [B2 B3]]]]. exists t0, t1'.
        split; [eapply adv_trans; eassumption|auto]. }
      destruct r1 as [[tok|]|e|a].
      + destruct (leading_is_start tok).
        * destruct (negb (trailing_is_end tok)).
          -- pose proof (ignored_loop_w F t1) as IL. pose proof (ignored_loop_from d kws F true F t1) as IA.
             destruct (ignored_loop d kws F true F t1) as [t2|r2 t2|a t2].
             ++ apply Hrec with (t2 := t2); [eapply wle_trans; eassumption|eapply adv_trans; eassumption|exact H].
             ++ injection H as <- <-. destruct IL as [W2 T2]. split; [eapply wle_trans; eassumption|].
                intros tok' E. injection E as E. destruct (T2 tok' E) as [t0 [t1' [B1 [B2 B3]]]].
                exists t0, t1'. split; [eapply adv_trans; eassumption|auto].
             ++ injection H as <- <-. split; [eapply wle_trans; eassumption|intros tok' E; discriminate].
          -- apply Hrec with (t2 := t1); [exact W|exact A|exact H].
        * injection H as <- <-. split; [exact W|]. intros tok' E. injection E as <-.
          exists t, t1. split; [apply adv_refl|]. split; [exact PR|apply wle_refl].
      + injection H as <- <-. split; [exact W|intros tok' E; discriminate].
      + injection H as <- <-. split; [exact W|intros tok' E; discriminate].
      + injection H as <- <-. split; [exact W|intros tok' E; discriminate].
  Qed.

  Lemma text_until_newline_w : forall t r t', text_until_newline d F t = (r, t') -> wle t t'.
  Proof.
    intros t r t' H. unfold text_until_newline in H. destruct (until_nl d F [] (k_rd t)) as [[x|e|a] r1]; injection H as <- <-; apply wle_with_rd.
  Qed.
  Lemma handle_tool_directive_w : forall g t r t', handle_tool_directive d kws F true g t = (r, t') -> wle t t'.
  Proof.
    intros g t r t' H. unfold handle_tool_directive in H.
    destruct (tk_pop d kws F true F t) as [r1 t1] eqn:TP. destruct (tk_pop_w _ _ _ _ TP) as [W1 _].
    assert (Hfin : forall ds, finish_directive d F ds t1 = (r, t') -> wle t t').
    { intros ds E. unfold finish_directive in E. destruct (text_until_newline d F t1) as [[x|e|a] t2] eqn:TU;
        pose proof (text_until_newline_w _ _ _ TU) as W2; injection E as <- <-; eapply wle_trans; eassumption. }
    destruct r1 as [[tok|]|e|a].
    - destruct (is_identifier (t_kind tok)); [apply (Hfin _ H)|].
      destruct (text_until_newline d F t1) as [[x|e|a] t2] eqn:TU; pose proof (text_until_newline_w _ _ _ TU) as W2;
        injection H as <- <-; eapply wle_trans; eassumption.
    - injection H as <- <-. exact W1.
    - apply (Hfin _ H).
    - injection H as <- <-. exact W1.
  Qed.

  Lemma add_tok_done : forall tok o ts ds, add_tok tok o = Done ts ds -> exists ts', o = Done ts' ds /\ ts = tok :: ts'.
  Proof. intros tok [ts' ds'|a] ts ds H; cbn [add_tok] in H; [|discriminate]. injection H as <- <-. eauto. Qed.
  Lemma add_diags_done : forall es o ts ds, add_diags es o = Done ts ds -> exists ds', o = Done ts ds' /\ ds = es ++ ds'.
  Proof. intros es [ts' ds'|a] ts ds H; cbn [add_diags] in H; [|discriminate]. injection H as <- <-. eauto. Qed.

  (* a diagnostic-free stream has no identifier warning pending at any time *)
  Lemma lex_clean_warn : forall fuel t ts, lex d kws F true fuel t = Done ts [] -> k_warn t = [].
  Proof.
    induction fuel as [|f IH]; intros t ts H; [discriminate|]. cbn [lex] in H.
    destruct (tk_pop d kws F true F t) as [r t1] eqn:TP. destruct (tk_pop_w _ _ _ _ TP) as [W1 _].
    destruct r as [[tok|]|e|a].
    - destruct (is_grave (t_kind tok)).
      + destruct (handle_tool_directive d kws F true tok t1) as [[ds|e|a] t2] eqn:HT; try discriminate.
        pose proof (handle_tool_directive_w _ _ _ _ HT) as W2.
        apply add_diags_done in H. destruct H as [ds' [H E]]. symmetry in E. apply app_eq_nil in E. destruct E as [_ ->].
        apply (wle_nil _ _ (wle_trans _ _ _ W1 W2)). apply (IH _ _ H).
      + apply add_tok_done in H. destruct H as [ts' [H _]]. apply (wle_nil _ _ W1). apply (IH _ _ H).
    - injection H as _ H. apply (wle_nil _ _ W1 H).
    - apply add_diags_done in H. destruct H as [ds' [_ E]]. discriminate.
    - discriminate.
  Qed.

  (* every token of a diagnostic-free stream comes from a pop_raw call that left no warning *)
  Lemma lex_forall_clean : forall (P : token -> Prop), Forall lf_last d ->
    (forall t tok t', RInv d (k_rd t) -> pop_raw d kws F true t = (Ok (Some tok), t') -> k_warn t' = [] ->
       is_grave (t_kind tok) = false -> P tok) ->
    forall fuel t toks, RInv d (k_rd t) -> lex d kws F true fuel t = Done toks [] -> Forall P toks.
  Proof.
    intros P HD HP. induction fuel as [|f IH]; intros t toks HI H; [discriminate|]. cbn [lex] in H.
    destruct (tk_pop d kws F true F t) as [r t1] eqn:TP. destruct (tk_pop_w _ _ _ _ TP) as [W1 T].
    destruct (tk_pop_nocr d kws F true HD _ _ _ _ HI TP) as [_ I1].
    destruct r as [[tok|]|e|a].
    - destruct (is_grave (t_kind tok)) eqn:Eg.
      + destruct (handle_tool_directive d kws F true tok t1) as [[ds|e|a] t2] eqn:HT; try discriminate.
        destruct (handle_tool_directive_nocr d kws F true HD _ _ _ _ I1 HT) as [_ [I2 _]].
        apply add_diags_done in H. destruct H as [ds' [H E]]. symmetry in E. apply app_eq_nil in E. destruct E as [_ ->].
        apply (IH _ _ I2 H).
      + apply add_tok_done in H. destruct H as [ts' [H ->]]. constructor; [|apply (IH _ _ I1 H)].
        destruct (T tok eq_refl) as [t0 [t1' [B1 [B2 B3]]]].
        apply (HP t0 tok t1'); [eapply rinv_adv; [exact B1|exact HI]|exact B2| |exact Eg].
        apply (wle_nil _ _ B3). apply (lex_clean_warn _ _ _ H).
    - injection H as <- _. constructor.
    - apply add_diags_done in H. destruct H as [ds' [_ E]]. discriminate.
    - discriminate.
  Qed.
End Warn.

(* ---------- from "stops at the end of the input" to "stops at every character of the follow set" ---------- *)
Lemma at_run_all : forall d, cdoc d -> forall l st r, At d st (l ++ r) -> exists st', run d l st st' /\ At d st' r.
Proof.
  intros d HD. induction l as [|c l IH]; intros st r H.
  - exists st. split; [constructor|exact H].
  - cbn [app] in H. destruct (at_cons d HD _ _ _ H) as [G H']. destruct (IH _ _ H') as [st' [R HA]].
    exists st'. split; [econstructor; eassumption|exact HA].
Qed.
Lemma okch_nocr : forall d l st st', cdoc d -> run d l st st' -> nocr l = true.
Proof.
  intros d l st st' HD R. pose proof (run_no_cr d l st st' HD R) as H. unfold nocr. apply forallb_forall. intros x Hx.
  rewrite Forall_forall in H. specialize (H x Hx). change CR with 13 in H. apply negb_true_iff. apply N.eqb_neq. exact H.
Qed.
Lemma first_ok_start : forall b r, first_ok b -> b < 256 -> (b =? 47) = false -> (b =? 45) = false -> start_ok (b :: r) = true.
Proof.
  intros b r H L H47 H45. unfold first_ok in H. cbn [start_ok]. unfold wsP. rewrite H47, H45.
  replace (b <? 256) with true by lia. replace ((b =? 32) || (b =? 9) || true && (b =? 10)) with false by lia. reflexivity.
Qed.

Definition lock_for (tok : token) (lxm : list char) : Prop :=
  forall d1 d2, cdoc d1 -> cdoc d2 -> forall x F1 F2, (length (concat d2) < F2)%nat ->
  forall start last start2 last2 st s st', follow_ok last2 tok x = true ->
    parse_token d1 keywords_2008 F1 true start last st = (Ok (Some (t_kind tok, t_val tok, None)), st') ->
    L d1 d2 x lxm st s lxm ->
    exists s' u', parse_token d2 keywords_2008 F2 true start2 last2 s = (Ok (Some (t_kind tok, t_val tok, None)), s') /\
                  L d1 d2 x lxm st' s' u'.

Lemma lit_tok_good : forall d0 tok b l st st2, cdoc d0 ->
  run d0 (b :: l) st st2 -> Forall okch (b :: l) -> first_ok b ->
  (forall d' F' start' last' st' e', Forall lf_last d' -> RInv d' st' ->
     run d' (b :: l) st' e' -> get_char d' e' = GEof -> (length (b :: l) < F')%nat ->
     parse_token d' keywords_2008 F' true start' last' st' = (Ok (Some (t_kind tok, t_val tok, None)), e')) ->
  tok_text tok = b :: l -> lit_kind (t_kind tok) = true -> lock_for tok (b :: l) -> tok_good tok.
Proof.
  intros d0 tok b l st st2 HD0 R Hok Hfo Heof Etx Hk Hlock.
  assert (Hb : b < 256 /\ (b =? 47) = false /\ (b =? 45) = false).
  { inversion Hok as [|? ? [Lb _] _]; subst. unfold first_ok in Hfo. split; [exact Lb|]. split; lia. }
  destruct Hb as [Lb [H47 H45]].
  split; [apply lit_not_grave; exact Hk|]. split; [rewrite Etx; apply (okch_nocr d0 _ _ _ HD0 R)|]. split.
  - intros last rest _. rewrite Etx. cbn [app]. split; [apply first_ok_start; assumption|discriminate].
  - intros d HD F HF start last s rest Hf HA. rewrite Etx in HA.
    set (lxm := b :: l) in *. set (d1 := split_lines lxm).
    assert (HD1 : cdoc d1) by apply split_cdoc.
    assert (HA1 : At d1 rstart lxm).
    { split; [apply rinv_start|]. rewrite remaining_start. apply split_nocr. apply (okch_nocr d0 _ _ _ HD0 R). }
    destruct (at_run_all d1 HD1 lxm rstart [] ltac:(rewrite app_nil_r; exact HA1)) as [e1 [R1 HE1]].
    pose proof (Heof d1 (S (length lxm)) (0, 0) None rstart e1 (cdoc_lf_last d1 HD1) (rinv_start d1) R1 (at_nil d1 HD1 _ HE1) (Nat.lt_succ_diag_r _)) as PT1.
    assert (HL : L d1 d rest lxm rstart s lxm).
    { split; [exact HA1|]. split; [exact HA|]. split; [exact Hok|]. exists []. reflexivity. }
    destruct (Hlock d1 d HD1 HD rest (S (length lxm)) F HF (0, 0) None start last rstart s e1 Hf PT1 HL) as [s' [u' [E2 HL']]].
    exists s'. split; [exact E2|]. destruct HL' as [A1 [A2 _]]. pose proof (at_fun d1 _ _ _ A1 HE1) as Eu. subst u'. exact A2.
Qed.

(* ---------- the value of a literal ---------- *)
Definition lit_val (kv : kind * value) : Prop :=
  match snd kv with
  | VAbsInt _ _ | VAbsReal _ => fst kv = KAbstractLiteral
  | VBitString _ _ _ _ => fst kv = KBitString
  | _ => False
  end.
Definition valP (m : M (kind * value)) : Prop := forall st kv st2, m st = (Ok kv, st2) -> lit_val kv.
Lemma valP_bind : forall A (m : M A) (f : A -> M (kind * value)), (forall a, valP (f a)) -> valP (bind m f).
Proof. intros A m f Hf st kv st2 H. bok H a st1 E. eapply Hf. exact H. Qed.
Lemma valP_ret : forall kv, lit_val kv -> valP (ret kv).
Proof. intros kv Hk st kv' st2 H. unfold ret in H. injection H as <- _. exact Hk. Qed.
Lemma valP_throw : forall e, valP (throw e).
Proof. intros e st kv st2 H. discriminate. Qed.
Lemma valP_stop : forall a, valP (stop a).
Proof. intros a st kv st2 H. discriminate. Qed.
Ltac vp_step :=
  first [ apply valP_throw | apply valP_stop | apply valP_ret; reflexivity
        | apply valP_bind; intros
        | match goal with
          | |- valP (if ?c then _ else _) => destruct c
          | |- valP (match ?x with _ => _ end) => destruct x
          end ].
Ltac vp := repeat vp_step.
Lemma valP_parse_bit_string : forall d F base len sc, valP (parse_bit_string d F base len sc).
Proof. intros. unfold parse_bit_string. vp. Qed.
Lemma valP_parse_abstract_literal : forall d F, valP (parse_abstract_literal d F).
Proof.
  intros d F. unfold parse_abstract_literal. apply valP_bind; intro st0. apply valP_bind; intro initial.
  apply valP_bind; intro pai. apply valP_bind; intro onx.
  assert (Hplain : valP (abs_plain initial)) by (unfold abs_plain; vp).
  destruct onx as [c|]; [|exact Hplain].
  destruct (c =? 46); [unfold abs_real, abs_real_gen; vp|].
  destruct (c =? 101); [unfold abs_int_exp; vp|].
  destruct (c =? 35); [unfold abs_based; vp|].
  destruct (c =? 58); [apply valP_bind; intros [|]; [unfold abs_based; vp|exact Hplain]|].
  destruct (is_bs_letter c); [|exact Hplain].
  unfold abs_bit_string. apply valP_bind; intros [iv it]. apply valP_bind; intros [bs|]; [apply valP_parse_bit_string|vp].
Qed.

Lemma ends_e_snoc : forall w c, ends_e (w ++ [c]) = is_e c.
Proof. intros w c. unfold ends_e. rewrite rev_app_distr. reflexivity. Qed.

(* the follow conditions of a number, as the lockstep lemmas want them *)
Lemma num_follow_facts : forall txt x, num_follow txt x = true ->
  hd_sat x is_idc = false /\ hd_is x 46 = false /\ hd_is x 35 = false /\ hd_is x 58 = false /\
  ((exists w c, txt = w ++ [c] /\ is_e c = true) -> hd_is x 45 = false /\ hd_is x 43 = false).
Proof.
  intros txt x H. unfold num_follow in H. apply andb_true_iff in H. destruct H as [H Hs]. apply andb_true_iff in H. destruct H as [H H58].
  apply andb_true_iff in H. destruct H as [H H35].
  apply andb_true_iff in H. destruct H as [Hn H46]. apply negb_true_iff in Hn, H46, H35, H58, Hs.
  split; [exact Hn|]. split; [exact H46|]. split; [exact H35|]. split; [exact H58|]. intros [w [c [-> He]]]. rewrite ends_e_snoc, He in Hs. cbn [andb] in Hs.
  apply orb_false_iff in Hs. exact Hs.
Qed.

Lemma lock_digit : forall tok b l, tok_text tok = b :: l -> is_digit b = true -> lit_val (t_kind tok, t_val tok) ->
  (match t_val tok with VAbsInt t _ | VAbsReal t | VBitString t _ _ _ => t = b :: l | _ => False end) ->
  lock_for tok (b :: l).
Proof.
  intros tok b l Etx Hd Hv Ht d1 d2 HD1 HD2 x F1 F2 HF2 start last start2 last2 st s st' Hf PT HL.
  unfold follow_ok, follow_kv in Hf. apply andb_true_iff in Hf. destruct Hf as [Hx Hf]. pose proof (hd_lat_of_b _ Hx) as Hx'.
  unfold lit_val in Hv. cbn [fst snd] in Hv.
  assert (Hnum : num_follow (b :: l) x = true /\ (t_kind tok = KBitString -> hd_is x 34 = false)).
  { destruct (t_val tok) as [|n|s0|t ? ? ?|t n|t|c|?]; try contradiction; subst t.
    - apply andb_true_iff in Hf. destruct Hf as [H34 Hf]. cbn [hd_sat] in Hf. rewrite Hd in Hf. split; [exact Hf|]. intros _. apply negb_true_iff. exact H34.
    - split; [exact Hf|]. rewrite Hv. discriminate.
    - split; [exact Hf|]. rewrite Hv. discriminate. }
  destruct Hnum as [Hnum H34]. destruct (num_follow_facts _ _ Hnum) as [Hn [H46 [H35 [H58 Hsg]]]].
  apply (pt_lock_digit d1 d2 HD1 HD2 x Hx' (b :: l) F1 F2 HF2 Hn H46 H35 H58 Hsg start last start2 last2 st s b l _ _ _ _ PT HL Hd H34).
Qed.
Lemma lock_bits : forall tok b l, is_alpha b || (b =? 95) = true -> t_kind tok = KBitString ->
  (match t_val tok with VBitString t _ _ _ => t = b :: l | _ => False end) -> lock_for tok (b :: l).
Proof.
  intros tok b l Ha Hk Ht d1 d2 HD1 HD2 x F1 F2 HF2 start last start2 last2 st s st' Hf PT HL.
  unfold follow_ok, follow_kv in Hf. apply andb_true_iff in Hf. destruct Hf as [Hx Hf]. pose proof (hd_lat_of_b _ Hx) as Hx'.
  destruct (t_val tok) as [|n|s0|t ? ? ?|t n|t|c|?] eqn:Ev; try contradiction. apply andb_true_iff in Hf. destruct Hf as [H34 _].
  apply negb_true_iff in H34. rewrite Hk in *.
  apply (pt_lock_bits d1 d2 HD1 HD2 x Hx' (b :: l) F1 F2 HF2 start last start2 last2 st s b l _ _ _ PT HL Ha H34).
Qed.
Lemma lock_quoted : forall tok q l, (q = 34 \/ q = 92) ->
  (match t_val tok with VString _ => q = 34 | VIdent n => q = 92 /\ hd_is n 92 = true | _ => False end) -> lock_for tok (q :: l).
Proof.
  intros tok q l Hq Hv d1 d2 HD1 HD2 x F1 F2 HF2 start last start2 last2 st s st' Hf PT HL.
  unfold follow_ok, follow_kv in Hf. apply andb_true_iff in Hf. destruct Hf as [Hx Hf]. pose proof (hd_lat_of_b _ Hx) as Hx'.
  assert (Hxq : hd_is x q = false).
  { destruct (t_val tok) as [|n|s0|t ? ? ?|t n|t|c|?]; try contradiction.
    - destruct Hv as [-> H92]. rewrite H92 in Hf. apply negb_true_iff. exact Hf.
    - subst q. apply negb_true_iff. exact Hf. }
  apply (pt_lock_quoted d1 d2 HD1 HD2 x Hx' (q :: l) F1 F2 HF2 q start last start2 last2 st s l _ _ _ _ Hq PT HL Hxq).
Qed.

(* ---------- every token of a diagnostic-free stream is good ---------- *)
Lemma run_unique : forall d l1 l2 st st', Forall lf_last d -> RInv d st -> run d l1 st st' -> run d l2 st st' -> l1 = l2.
Proof.
  intros d l1 l2 st st' HD HI R1 R2. pose proof (run_remaining d l1 st st' HD R1 HI) as E1.
  pose proof (run_remaining d l2 st st' HD R2 HI) as E2. rewrite E1 in E2. apply app_inv_tail in E2. exact E2.
Qed.
Lemma delim_kinds_delim : forall k, In k delim_kinds -> delim_kind k = true.
Proof. intros k H. unfold delim_kinds in H. cbn [In] in H. repeat (destruct H as [<-|H]; [reflexivity|]). contradiction. Qed.
Lemma leqb_eq : forall x y, leqb x y = true -> x = y.
Proof. intros x y H. unfold leqb in H. destruct (list_eq_dec N.eq_dec x y); [assumption|discriminate]. Qed.

Lemma pop_raw_good : forall s0 F t tok t', RInv (split_lines s0) (k_rd t) ->
  pop_raw (split_lines s0) keywords_2008 F true t = (Ok (Some tok), t') -> k_warn t' = [] ->
  is_grave (t_kind tok) = false -> tok_good tok.
Proof.
  intros s0 F t tok t' HI H Hw Hg. set (d := split_lines s0) in *.
  assert (HC : cdoc d) by apply split_cdoc. pose proof (cdoc_lf_last d HC) as HDl.
  unfold pop_raw in H.
  destruct (leading_comments d F F [] (k_rd t)) as [[lead|e|a] r1] eqn:LC; try discriminate.
  destruct (nocr_leading_comments d F _ _ _ _ _ HI LC) as [_ I1].
  destruct (parse_token d keywords_2008 F true (r_pos r1) (k_last t) r1) as [[[[[k v] w]|]|e|a] r2] eqn:PT; try discriminate.
  destruct (trailing_comment d F r2) as [[tr|e|a] r3] eqn:TC; try discriminate.
  injection H as <- <-. cbn [k_warn t_kind] in *.
  assert (Ew : w = None). { destruct w as [c|]; [|reflexivity]. apply app_eq_nil in Hw. destruct Hw as [_ Hw]. discriminate. }
  subst w. clear Hw.
  pose proof PT as PT0. unfold parse_token in PT0. bok PT0 ob stx P.
  destruct ob as [b|]; [|unfold ret in PT0; discriminate]. destruct (peek_ok_get _ _ _ _ P) as [_ [G L]]. clear PT0 P.
  (* the literal arms: the lexeme, and the run on a document that ends with it *)
  assert (Hlit : lit_kind k = true -> forall (Q : Prop),
            (forall l, run d (b :: l) r1 r2 -> Forall okch (b :: l) -> first_ok b -> lex_ok k v (b :: l) = true ->
               (forall d' F' start' last' st' e', Forall lf_last d' -> RInv d' st' ->
                  run d' (b :: l) st' e' -> get_char d' e' = GEof -> (length (b :: l) < F')%nat ->
                  parse_token d' keywords_2008 F' true start' last' st' = (Ok (Some (k, v, None)), e')) -> Q) -> Q).
  { intros Hk Q HQ. destruct (parse_token_sim d keywords_2008 F _ _ _ _ _ _ _ HDl I1 PT Hk) as [b' [l [R [Hok [Hfo [_ Heof]]]]]].
    pose proof R as R0. apply run_cons_inv in R0. destruct R0 as [G' _]. assert (b' = b) by congruence. subst b'.
    destruct (parse_token_text d keywords_2008 F HDl _ _ _ _ _ _ _ I1 PT) as [l' [R' Hl']].
    pose proof (run_unique d _ _ _ _ HDl I1 R' R) as ->. apply (HQ l R Hok Hfo Hl' Heof). }
  set (tok := {| t_kind := k; t_val := v; t_s := r_pos r1; t_e := r_pos r2; t_lead := lead; t_trail := tr |}).
  destruct (is_alpha b || (b =? 95)) eqn:Ea.
  - (* identifier, keyword or bit string without length *)
    pose proof PT as PT0. unfold parse_token in PT0. unfold bind at 1 in PT0. rewrite (peek_at' _ _ _ G L) in PT0. rewrite Ea in PT0.
    bok PT0 sx st1 GS. bok PT0 obs st3 MB. destruct obs as [bs|].
    + unfold lift_kv in PT0. bok PT0 kv st5 PBS. destruct kv as [k0 v0]. unfold ret in PT0. cbn [fst snd] in PT0.
      injection PT0 as <- <- _. pose proof (pbit_kind _ _ _ _ _ _ _ _ _ PBS) as ->.
      pose proof (valP_parse_bit_string _ _ _ _ _ _ _ _ PBS) as Hv. unfold lit_val in Hv. cbn [fst snd] in Hv.
      apply (Hlit eq_refl). intros l R Hok Hfo Hl Heof.
      assert (Ht : match v0 with VBitString t0 _ _ _ => t0 = b :: l | _ => False end).
      { destruct v0; try contradiction; try discriminate. unfold lex_ok, lexeme_ok in Hl. cbn [t_val] in Hl. symmetry. apply leqb_eq. exact Hl. }
      apply (lit_tok_good d tok b l r1 r2 HC R Hok Hfo Heof); [|reflexivity|apply lock_bits; [exact Ea|reflexivity|exact Ht]].
      unfold tok, tok_text, tok_text_gen. cbn [t_val]. destruct v0; try contradiction. exact Ht.
    + bok PT0 xx st4 PI. destruct xx as [kv w0]. unfold ret in PT0. injection PT0 as Ek0 Ev0 Ew0 _. subst k v w0.
      unfold parse_basic_identifier_or_keyword in PI. bok PI t0 st5 IL. unfold ret in PI. injection PI as Ekv Ew _. subst kv.
      apply supported_good. unfold tok, supported_kind, insert_or_keyword. cbn [t_kind t_val].
      destruct (existsb (leqb (map lowercase t0)) keywords_2008) eqn:Ek; cbn [fst snd].
      * exact Ek.
      * unfold basic_ident_ok. rewrite Ew. unfold is_keyword. rewrite Ek. reflexivity.
  - destruct (is_digit b) eqn:Ed.
    + pose proof PT as PT0. unfold parse_token in PT0. unfold bind at 1 in PT0. rewrite (peek_at' _ _ _ G L) in PT0. rewrite Ea, Ed in PT0.
      unfold lift_kv in PT0. bok PT0 kv st1 PA. destruct kv as [k0 v0]. unfold ret in PT0. cbn [fst snd] in PT0.
      injection PT0 as <- <- _. pose proof (valP_parse_abstract_literal _ _ _ _ _ PA) as Hv.
      assert (Hk : lit_kind k0 = true) by (eapply kindP_parse_abstract_literal; exact PA).
      apply (Hlit Hk). intros l R Hok Hfo Hl Heof.
      assert (Ht : match v0 with VAbsInt t0 _ | VAbsReal t0 | VBitString t0 _ _ _ => t0 = b :: l | _ => False end).
      { unfold lit_val in Hv. cbn [fst snd] in Hv. unfold lex_ok, lexeme_ok in Hl. cbn [t_val] in Hl.
        destruct v0; try contradiction; symmetry; apply leqb_eq; exact Hl. }
      apply (lit_tok_good d tok b l r1 r2 HC R Hok Hfo Heof); [|exact Hk|apply lock_digit; [|exact Ed|exact Hv|exact Ht]];
        unfold tok, tok_text, tok_text_gen; cbn [t_val]; destruct v0; try contradiction; exact Ht.
    + destruct (b =? 34) eqn:E34.
      * apply N.eqb_eq in E34. subst b. pose proof PT as PT0. rewrite (parse_token_34 _ _ _ _ _ _ _ G) in PT0.
        bok PT0 q st1 PQ. unfold ret in PT0. injection PT0 as <- <- _.
        apply (Hlit eq_refl). intros l R Hok Hfo Hl Heof.
        assert (Etx : 34 :: escape 34 q ++ [34] = 34 :: l).
        { unfold lex_ok, lexeme_ok in Hl. cbn [t_val] in Hl. symmetry. apply leqb_eq. exact Hl. }
        apply (lit_tok_good d tok 34 l r1 r2 HC R Hok Hfo Heof); [exact Etx|reflexivity|].
        apply lock_quoted; [left; reflexivity|reflexivity].
      * destruct (b =? 92) eqn:E92.
        -- apply N.eqb_eq in E92. subst b. pose proof PT as PT0. rewrite (parse_token_92 _ _ _ _ _ _ _ G) in PT0.
           bok PT0 q st1 PQ. unfold ret in PT0. injection PT0 as <- <- _.
           destruct (parse_quoted_text d F _ _ _ _ _ PQ) as [content [Eq _]]. subst q.
           apply (Hlit eq_refl). intros l R Hok Hfo Hl Heof.
           assert (Etx : 92 :: escape 92 content ++ [92] = 92 :: l).
           { unfold lex_ok, lexeme_ok in Hl. cbn [t_val] in Hl. rewrite N.eqb_refl in Hl. rewrite removelast_last in Hl.
             symmetry. apply leqb_eq. exact Hl. }
           apply (lit_tok_good d tok 92 l r1 r2 HC R Hok Hfo Heof); [|reflexivity|apply lock_quoted; [right; reflexivity|split; reflexivity]].
           unfold tok, tok_text, tok_text_gen, ext_ident_text. cbn [t_val]. rewrite N.eqb_refl.
           rewrite removelast_last. rewrite last_last. rewrite N.eqb_refl.
           destruct (content ++ [92]) eqn:Ec; [destruct content; discriminate|]. cbn [andb negb]. exact Etx.
        -- (* delimiter or character literal *)
           apply supported_good. unfold tok, supported_kind. cbn [t_kind t_val].
           destruct (other_arm_class _ _ _ _ _ _ _ _ _ _ _ G L Ea Ed E34 E92 PT) as [[Hv [Hk|Hk]]|[Hk [c [Hv [Lc Gc]]]]].
           ++ subst v. pose proof (delim_kinds_delim _ Hk) as Hd. destruct k; try discriminate Hd; exact Hd.
           ++ subst k. discriminate.
           ++ subst k v. unfold lat. replace (c <? 256) with true by lia. cbn [andb]. apply negb_true_iff. apply N.eqb_neq.
              apply (get_char_no_cr d _ c HC Gc).
Qed.

Theorem lex_output_good : forall s ts, lex_all s = Done ts [] -> Forall tok_good ts.
Proof.
  intros s ts H. unfold lex_all, lex_gen in H.
  refine (lex_forall_clean (split_lines s) (lex_fuel s) tok_good (cdoc_lf_last _ (split_cdoc s)) _ (lex_fuel s) tk_start ts (rinv_start _) H).
  intros t tok t' HI PR Hw Hg. apply (pop_raw_good s (lex_fuel s) t tok t' HI PR Hw Hg).
Qed.

(* C12_render_lex_roundtrip: no restriction on the token kinds *)
Theorem render_lex_roundtrip_full : forall s ts l text,
  lex_all s = Done ts [] -> ops_tokens l = ts -> render_ops l = Some text -> ops_sep_ok l = true ->
  exists ts', lex_all text = Done ts' [] /\ same_stream ts ts'.
Proof.
  intros s ts l text HL ET HR HS. subst ts. apply (render_lex_roundtrip_good l text HR HS). apply (lex_output_good s _ HL).
Qed.

Theorem render_lex_roundtrip : forall s ts s0 l text,
  lex_all s = Done ts [] -> map fst l = ts -> render s0 l = Some text -> sep_ok_from s0 l = true ->
  exists ts', lex_all text = Done ts' [] /\ same_stream ts ts'.
Proof.
  intros s ts s0 l text HL ET HR HS. apply (render_lex_roundtrip_full s ts (trace_of s0 l) text HL); [|exact HR|exact HS].
  rewrite ops_tokens_trace. exact ET.
Qed.
Theorem trace_checker_sound_full : forall s ts tr l text,
  lex_all s = Done ts [] -> trace_check ts tr = true -> inst_trace ts tr = Some l -> render_ops l = Some text ->
  exists ts', lex_all text = Done ts' [] /\ same_stream ts ts'.
Proof.
  intros s ts tr l text HL HC HI HR. unfold trace_check in HC. apply andb_true_iff in HC. destruct HC as [Hid HS].
  rewrite HI in HS. unfold ids_in_order in Hid. destruct (list_eq_dec Nat.eq_dec _ _) as [Eid|]; [|discriminate].
  pose proof (inst_trace_tokens _ _ _ HI) as HF. rewrite Eid in HF.
  assert (ET : ops_tokens l = ts) by (apply (seq_nth_all ts [] _ HF)).
  apply (render_lex_roundtrip_full s ts l text HL ET HR HS).
Qed.

(* non-vacuity: a source with every kind of literal *)
Definition full_src : list char :=
  [120; 32; 58; 61; 32; 49; 54; 35; 70; 46; 70; 35; 101; 45; 49; 32; 43; 32; 49; 46; 53; 101; 51; 32; 43; 32; 49; 50; 115; 98; 34; 48; 49; 34;
   32; 43; 32; 120; 34; 65; 66; 34; 32; 43; 32; 49; 69; 51; 32; 43; 32; 56; 35; 55; 55; 35; 32; 45; 32; 49; 95; 48; 59].
Definition spaced_b (ts : list token) : list (token * sep) := map (fun t => (t, [SWs])) ts.
Lemma full_example : exists ts text, lex_all full_src = Done ts [] /\ length ts = 16%nat /\
  render [] (spaced_b ts) = Some text /\ sep_ok (spaced_b ts) = true /\ forallb supported_kind ts = false /\ relex_same ts text = true.
Proof. eexists _, _. split; [vm_compute; reflexivity|]. split; [reflexivity|]. split; [vm_compute; reflexivity|]. repeat split; vm_compute; reflexivity. Qed.
