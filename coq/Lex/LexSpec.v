(* Lex/LexSpec.v — specification side of C11 (definitions only, no proofs):
   the text between two UTF-16 positions of a line buffer, the lexeme of a token, and what
   "re-lexing the slice alone yields the same kind and value" means. *)
From Coq Require Import List NArith Arith Bool.
Import ListNotations.
From RH Require Import Text.Contents Text.Reader Lex.LangLexer.
Open Scope N_scope.

(* ---------- text between two positions ---------- *)
Definition line_of (d : list (list char)) (n : N) : list char :=
  match nth_error d (N.to_nat n) with Some l => l | None => [] end.
Definition lines_between (d : list (list char)) (a b : N) : list (list char) :=
  firstn (N.to_nat b - N.to_nat a) (skipn (N.to_nat a) d).
(* `drop16 0 a l`: the characters of l at UTF-16 offset >= a (the line terminator included);
   `take16 a b l'`: the characters of l' (whose head is at offset a) at offset < b *)
Definition slice16 (d : list (list char)) (p q : position) : list char :=
  if fst p =? fst q then take16 (snd p) (snd q) (drop16 0 (snd p) (line_of d (fst p)))
  else drop16 0 (snd p) (line_of d (fst p))
       ++ concat (lines_between d (fst p + 1) (fst q))
       ++ take16 0 (snd q) (line_of d (fst q)).
(* the slice of the raw text s: lines split at LF, CR, CRLF (each line break reads as LF) *)
Definition slice_of_text (s : list char) (p q : position) : list char := slice16 (split_lines s) p q.

(* ---------- lexemes ---------- *)
Definition escape (q : N) (l : list N) : list N := flat_map (fun c => if c =? q then [q; q] else [c]) l.
Definition delim_text (k : kind) : list N :=
  match k with
  | KColon => [58] | KColonEq => [58; 61] | KTick => [39] | KMinus => [45] | KSemiColon => [59]
  | KLeftPar => [40] | KRightPar => [41] | KPlus => [43] | KDot => [46] | KConcat => [38] | KComma => [44]
  | KEQ => [61] | KRightArrow => [61; 62] | KLT => [60] | KLTE => [60; 61] | KBOX => [60; 62]
  | KLtLt => [60; 60] | KGT => [62] | KGTE => [62; 61] | KGtGt => [62; 62] | KDiv => [47] | KNE => [47; 61]
  | KTimes => [42] | KPow => [42; 42] | KQue => [63] | KQueQue => [63; 63] | KQueEQ => [63; 61]
  | KQueNE => [63; 47; 61] | KQueLT => [63; 60] | KQueLTE => [63; 60; 61] | KQueGT => [63; 62]
  | KQueGTE => [63; 62; 61] | KCirc => [94] | KCommAt => [64] | KBar => [124] | KLeftSquare => [91]
  | KRightSquare => [93] | KGraveAccent => [96]
  | _ => []
  end.
(* is `sl` the lexeme of token t?  identifiers and keywords up to letter case; strings and
   extended identifiers with their quote character doubled; literals: their text *)
Definition lexeme_ok (t : token) (sl : list char) : bool :=
  match t_val t with
  | VIdent n =>
      match n with
      | c :: r => if c =? 92 then leqb sl (92 :: escape 92 (removelast r) ++ [92])
                  else leqb (map lowercase sl) (map lowercase n)
      | [] => false
      end
  | VNone => match t_kind t with
             | KKw n => leqb (map lowercase sl) n
             | k => leqb sl (delim_text k)
             end
  | VString v => leqb sl (34 :: escape 34 v ++ [34])
  | VChar c => leqb sl [39; c; 39]
  | VAbsInt txt _ => leqb sl txt
  | VAbsReal txt => leqb sl txt
  | VBitString txt _ _ _ => leqb sl txt
  | VText txt => leqb sl txt
  end.

(* ---------- re-lexing ---------- *)
Definition relex_prop (t : token) (sl : list char) : Prop :=
  exists t' ds, lex_all sl = Done [t'] ds /\ t_kind t' = t_kind t /\ t_val t' = t_val t.

(* ---------- comments between neighbours ---------- *)
Fixpoint comments_sorted (lo : position) (cs : list comment) : Prop :=
  match cs with
  | [] => True
  | c :: r => ple lo (c_s c) = true /\ ple (c_s c) (c_e c) = true /\ comments_sorted (c_e c) r
  end.
Definition last_end (lo : position) (cs : list comment) : position :=
  match rev cs with c :: _ => c_e c | [] => lo end.
