(* Lex/AgreeSweep.v — finite-domain agreement of the two lexer models and the refutations (witnesses
   evaluated with vm_compute). *)
From Coq Require Import List NArith Arith Bool Lia.
Import ListNotations.
From RH Require Import Lex.LexGrammar Lex.Agree.
Open Scope N_scope.

(* one representative of every arm's leading characters:
   a b x e 1 _ QUOTE TICK BACKSLASH # : . - / * SP LF = < > ? ( ) CR *)
Definition ALPHA : list N :=
  [97; 98; 120; 101; 49; 95; 34; 39; 92; 35; 58; 46; 45; 47; 42; 32; 10; 61; 60; 62; 63; 40; 41; 13].

Definition agree_or_known (s : list N) : bool :=
  negb (in_quantifier s) || known_difference s || opt_lexemes_eqb (lexemes_lang s) (lexemes_syn s).

(* ---------- enumeration is complete ---------- *)
Lemma strings_exact_complete : forall alpha s,
  Forall (fun c => In c alpha) s -> In s (strings_exact alpha (length s)).
Proof.
  intros alpha s H. induction H as [|c s Hc Hs IH]; cbn [length strings_exact]; [left; reflexivity|].
  apply in_flat_map. exists s. split; [exact IH|]. apply (in_map (fun c0 => c0 :: s)). exact Hc.
Qed.
Lemma strings_upto_complete : forall alpha k s,
  (length s <= k)%nat -> Forall (fun c => In c alpha) s -> In s (strings_upto alpha k).
Proof.
  intros alpha k s Hl H. unfold strings_upto. apply in_flat_map. exists (length s).
  split; [apply in_seq; lia|apply strings_exact_complete; exact H].
Qed.

Lemma list_eqb_eq : forall a b, list_eqb a b = true -> a = b.
Proof.
  induction a as [|x a IH]; intros [|y b] H; cbn [list_eqb] in H; try discriminate; [reflexivity|].
  apply andb_true_iff in H. destruct H as [H1 H2]. apply N.eqb_eq in H1. subst y. f_equal. apply IH. exact H2.
Qed.
Lemma opt_lexemes_eqb_eq : forall a b, opt_lexemes_eqb a b = true -> a = b.
Proof.
  intros [x|] [y|] H; cbn [opt_lexemes_eqb] in H; try discriminate. f_equal.
  revert y H. induction x as [|t x IH]; intros [|u y] H; try discriminate; [reflexivity|].
  apply andb_true_iff in H. destruct H as [H1 H2]. apply list_eqb_eq in H1. subst u. f_equal. apply IH. exact H2.
Qed.

Lemma agree_or_known_sound : forall s, agree_or_known s = true ->
  in_quantifier s = true -> known_difference s = false -> lexemes_lang s = lexemes_syn s.
Proof.
  intros s H Q K. unfold agree_or_known in H. rewrite Q, K in H. cbn [negb orb] in H.
  apply opt_lexemes_eqb_eq. exact H.
Qed.

(* ---------- all strings of length <= 3 over ALPHA (14 425 strings) ---------- *)
Lemma sweep3 : forallb agree_or_known (strings_upto ALPHA 3) = true.
Proof. vm_compute. reflexivity. Qed.

Theorem lexemes_agree_bounded : forall s, (length s <= 3)%nat -> Forall (fun c => In c ALPHA) s ->
  in_quantifier s = true -> known_difference s = false -> lexemes_lang s = lexemes_syn s.
Proof.
  intros s Hl Ha Q K. apply agree_or_known_sound; [|exact Q|exact K].
  pose proof sweep3 as S. rewrite forallb_forall in S. apply S. apply strings_upto_complete; assumption.
Qed.

(* ---------- refutations ---------- *)
(* F13, before commit 5ee4d03: `1:= ` is clean for vhdl_lang (`1` `:=`) and an unterminated based
   literal for vhdl_syntax, although `range 0 to 1:= 1` is legal VHDL *)
Definition w_f13 : list N := [49; 58; 61; 32].
Lemma clean_mismatch_old : lang_result w_f13 = Some (true, [[49]; [58; 61]])
  /\ syn_result_old w_f13 = Some (false, [[49; 58]; [61]])
  /\ syn_result w_f13 = Some (true, [[49]; [58; 61]]).
Proof. vm_compute. repeat split. Qed.

(* the one way left in which today's lexers split a source differently although it is clean for both, and
   the repaired ones *)
Definition w_colon : list N := [49; 54; 58; 70; 70; 58].                          (* 16:FF: *)
Definition w_merge : list N := [49; 46; 53; 120; 34; 48; 34].                     (* 1.5x, quote, 0, quote *)
Definition w_psl : list N := ASSUME_G ++ [39; 97; 39].                            (* assume_guarantee'a' *)
Definition w_crlf : list N := [39; 13; 10; 39].                                   (* ' CR LF ' *)
Definition mismatch (s : list N) : Prop :=
  in_quantifier s = true /\ lexemes_lang s <> lexemes_syn s.
(* F40 (repaired by bba3236): `16:FF:` is one based literal for both lexers now *)
Lemma colon_based_literal_agree : lang_result w_colon = Some (true, [w_colon]) /\ syn_result w_colon = Some (true, [w_colon]).
Proof. vm_compute. repeat split. Qed.
(* F41, before commit f2c0e80: the real literal was merged into a bit string literal; repaired: agreement *)
Lemma merge_any_literal_old : lang_result w_merge = Some (true, [[49; 46; 53]; [120; 34; 48; 34]])
  /\ syn_result_merge_old w_merge = Some (true, [w_merge])
  /\ syn_result w_merge = Some (true, [[49; 46; 53]; [120; 34; 48; 34]]).
Proof. vm_compute. repeat split. Qed.
(* F42, before commit 9360ea7: assume_guarantee was an identifier for vhdl_syntax, so the tick after it was an
   attribute tick; with the repaired keyword table both lexers read a character literal *)
Lemma psl_reserved_word_old : lang_result w_psl = Some (true, [ASSUME_G; [39; 97; 39]])
  /\ syn_result_kw_old w_psl = Some (true, [ASSUME_G; [39]; [97]; [39]])
  /\ syn_result w_psl = Some (true, [ASSUME_G; [39; 97; 39]]).
Proof. vm_compute. repeat split. Qed.
Lemma mismatch_crlf : mismatch w_crlf
  /\ lexemes_lang w_crlf = Some [[39; 10; 39]] /\ lexemes_syn w_crlf = Some [[39]; [39]].
Proof. unfold mismatch. vm_compute. repeat split; discriminate. Qed.
Lemma witnesses_known : known_difference w_crlf = true /\ known_difference w_colon = false
  /\ known_difference w_merge = false /\ known_difference w_psl = false.
Proof. vm_compute. repeat split. Qed.
