(* Lex/CaseLayout.v — the transformations of property C13 on texts, and the relations that say
   "same tokens" for the shared tokenizer model Lex/LangLexer.v (definitions only).

   CASE.  `csim c c'`: c' is c, or c is an ASCII letter and c' is the same letter in the other case.
   The tokenizer accepts only ASCII letters in basic identifiers and keywords (`is_alpha`), so this is
   the whole case change the property talks about.  Two texts are case variants of each other when
   they have the same shape and are pointwise `csim` (`dsim` on line buffers, `tsim` on raw texts).
   Which letters may change (those of keywords and basic identifiers, base specifiers, exponents,
   based digits) and which may not (comment bodies that are `vhdl_ls off/on` directives; strings,
   character literals and extended identifiers when their value is to be preserved) is said by
   hypotheses on the two texts, not by the relation.

   LAYOUT.  A gap is a sequence of blanks, tabs, line breaks, line comments (each followed by a line
   break) and block comments.  `render` writes lexemes separated by gaps. *)
From Coq Require Import List NArith Arith Bool.
Import ListNotations.
From RH Require Import Text.Contents Text.Reader Lex.LangLexer.
Open Scope N_scope.

(* ---------------------------------------------------------------------------------------- *)
(* case                                                                                     *)
(* ---------------------------------------------------------------------------------------- *)
Definition flipc (c : N) : N := if is_upper c then c + 32 else if is_lower c then c - 32 else c.
Definition csimb (c c' : N) : bool := (c' =? c) || (is_alpha c && (c' =? flipc c)).
Definition csim (c c' : N) : Prop := csimb c c' = true.
Definition lsim : list N -> list N -> Prop := Forall2 csim.
Definition dsim : list (list char) -> list (list char) -> Prop := Forall2 lsim.
(* raw texts (before the split into lines): same length, pointwise *)
Definition tsim : list char -> list char -> Prop := Forall2 csim.

(* change the case of the letters at the flagged offsets *)
Fixpoint flip_at (flags : list bool) (s : list char) : list char :=
  match s, flags with
  | c :: r, f :: fr => (if f then flipc c else c) :: flip_at fr r
  | _, _ => s
  end.

Definition osim {A} (R : A -> A -> Prop) (o o' : option A) : Prop :=
  match o, o' with Some a, Some a' => R a a' | None, None => True | _, _ => False end.

(* values: numbers, lengths and base codes are equal, every text is a case variant; an extended
   identifier (first character backslash) also ends with a backslash on both sides *)
Definition val_sim (v v' : value) : Prop :=
  match v, v' with
  | VNone, VNone => True
  | VIdent a, VIdent a' => lsim a a' /\ (hd 0 a = 92 -> last a 0 = 92 /\ last a' 0 = 92)
  | VString a, VString a' => lsim a a'
  | VBitString t l b x, VBitString t' l' b' x' => lsim t t' /\ l = l' /\ b = b' /\ lsim x x'
  | VAbsInt t n, VAbsInt t' n' => lsim t t' /\ n = n'
  | VAbsReal t, VAbsReal t' => lsim t t'
  | VChar c, VChar c' => csim c c'
  | VText t, VText t' => lsim t t'
  | _, _ => False
  end.
Definition comment_sim (c c' : comment) : Prop :=
  lsim (c_val c) (c_val c') /\ c_s c = c_s c' /\ c_e c = c_e c' /\ c_multi c = c_multi c'.
(* same kind (a keyword kind carries its lower-case name), same range, related value and comments *)
Definition tok_sim (t t' : token) : Prop :=
  t_kind t = t_kind t' /\ val_sim (t_val t) (t_val t') /\ t_s t = t_s t' /\ t_e t = t_e t'
  /\ Forall2 comment_sim (t_lead t) (t_lead t') /\ osim comment_sim (t_trail t) (t_trail t').
(* the whole result: related tokens, IDENTICAL diagnostics (ranges and codes) *)
Definition outcome_sim (o o' : outcome) : Prop :=
  match o, o' with
  | Done ts ds, Done ts' ds' => Forall2 tok_sim ts ts' /\ ds = ds'
  | Aborted a, Aborted a' => a = a'
  | _, _ => False
  end.

(* the tool-directive status of a comment body (Comment::is_start/end_of_ignored_region) *)
Definition dir_eq (v v' : list char) : Prop :=
  leqb (trim v) VHDL_LS_OFF = leqb (trim v') VHDL_LS_OFF /\ leqb (trim v) VHDL_LS_ON = leqb (trim v') VHDL_LS_ON.
(* "the case change does not touch a `vhdl_ls off` / `vhdl_ls on` comment": every comment body that
   the two comment scanners read at the same place of the two texts has the same directive status *)
Definition directives_agree (d d' : list (list char)) (F : nat) : Prop :=
  (forall st v v' st1 st2, take_to_nl d F [] st = (Ok v, st1) -> take_to_nl d' F [] st = (Ok v', st2) -> dir_eq v v')
  /\ (forall st v v' st1 st2, ml_loop d F [] st = (Ok (Some v), st1) -> ml_loop d' F [] st = (Ok (Some v'), st2) -> dir_eq v v').

(* ---------------------------------------------------------------------------------------- *)
(* layout                                                                                   *)
(* ---------------------------------------------------------------------------------------- *)
Inductive gap_piece :=
| GWs (c : char)                  (* blank 32, tab 9, line break 10 *)
| GLine (body : list char)        (* `--body` + line break *)
| GBlock (body : list char).      (* `/*body*/` *)
Definition gap := list gap_piece.

Fixpoint has_star_slash (l : list char) : bool :=
  match l with
  | a :: ((b :: _) as r) => ((a =? 42) && (b =? 47)) || has_star_slash r
  | _ => false
  end.
Definition piece_ok (p : gap_piece) : bool :=
  match p with
  | GWs c => (c =? 32) || (c =? 9) || (c =? 10)
  | GLine b => forallb (fun c => negb (c =? 10) && negb (c =? 13)) b
  | GBlock b => negb (has_star_slash b) && negb (match rev b with c :: _ => c =? 42 | [] => false end)
                && forallb (fun c => negb (c =? 13)) b
  end.
Definition gap_ok (g : gap) : bool := forallb piece_ok g.
Definition piece_text (p : gap_piece) : list char :=
  match p with
  | GWs c => [c]
  | GLine b => [45; 45] ++ b ++ [10]
  | GBlock b => [47; 42] ++ b ++ [42; 47]
  end.
Definition gap_text (g : gap) : list char := flat_map piece_text g.
(* lexemes l1 .. ln written with gaps g0 .. gn: g0 l1 g1 l2 ... ln gn *)
Fixpoint render (g0 : gap) (ls : list (list char * gap)) : list char :=
  gap_text g0 ++ match ls with
                 | [] => []
                 | (l, g) :: r => l ++ render g r
                 end.

(* what a re-layout preserves: kinds and values, in order (ranges and comments move) *)
Definition kv (t : token) : kind * value := (t_kind t, t_val t).
Definition same_kinds_values (o o' : outcome) : Prop :=
  match o, o' with
  | Done ts ds, Done ts' ds' => map kv ts = map kv ts' /\ map (fun e => match e with TErr _ _ c => c end) ds
                                                        = map (fun e => match e with TErr _ _ c => c end) ds'
  | Aborted a, Aborted a' => a = a'
  | _, _ => False
  end.
