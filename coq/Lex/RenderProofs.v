(* Lex/RenderProofs.v — the C12 theorems about the formatter-buffer model (Lex/Render.v) and the tokenizer model:
     lex_pieces                  TokenStream::new on the text of a well-separated piece list returns its tokens
     render_lex_roundtrip_ops    lex (render trace) = the trace's tokens, kinds, values, comments up to trailing blanks
     render_lex_roundtrip_partial  the same for a token list with a separator assignment
     trace_checker_sound         a trace over token ids 0..n-1 in order with sep_ok re-lexes to the same tokens
     glue_hazard_examples        sep_ok is necessary: a - -b, ( ' a ', 1 ., < =, x "1", "a" "b", : =, * *, / *, ...
     ext_ident_old_refuted, push_token_old_refuted   the code before the repairs F42 / F40 violates the round trip
   all for the token kinds of `supported_kind` (delimiters, keywords, basic and extended identifiers, string and
   character literals, decimal integer literals without exponent); see Props/C12.v. *)
From Coq Require Import List NArith Arith Bool Lia ZifyBool ZifyN.
Import ListNotations.
From RH Require Import Text.Contents Text.ContentsProofs Text.Reader Text.ReaderProofs Text.ReaderInv
  Lex.LangLexer Lex.LangLexerProofs Lex.LexSpec Lex.Render Lex.RenderStream Lex.RenderArms Lex.RenderGaps
  Lex.RenderToks Lex.RenderLex.
Open Scope N_scope.
#[local] Arguments N.add : simpl never.
#[local] Arguments N.sub : simpl never.
#[local] Arguments N.mul : simpl never.
#[local] Arguments N.eqb : simpl never.
#[local] Arguments N.ltb : simpl never.
#[local] Arguments N.leb : simpl never.

(* ---------- a text without CR is its own line split ---------- *)
Lemma split_aux_nocr : forall s cur, nocr s = true -> concat (split_aux false cur s) = rev cur ++ s.
Proof.
  induction s as [|c s IH]; intros cur H.
  - cbn [split_aux]. destruct cur as [|x cur]; [reflexivity|]. cbn [concat]. rewrite !app_nil_r. reflexivity.
  - unfold nocr in H. cbn [forallb] in H. apply andb_true_iff in H. destruct H as [Hc Hs]. cbn [split_aux].
    change LF with 10. change CR with 13. destruct (c =? 10) eqn:E10.
    + apply N.eqb_eq in E10. subst c. cbn [concat]. pose proof (IH [] Hs) as E. cbn [rev app] in E.
      etransitivity; [apply f_equal; exact E|]. cbn [rev app]. rewrite <- app_assoc. reflexivity.
    + replace (c =? 13) with false by lia. pose proof (IH (c :: cur) Hs) as E. cbn [rev] in E.
      rewrite <- app_assoc in E. exact E.
Qed.
Lemma split_nocr : forall s, nocr s = true -> concat (split_lines s) = s.
Proof. intros s H. unfold split_lines. rewrite (split_aux_nocr s [] H). reflexivity. Qed.
Lemma remaining_start : forall d, remaining d rstart = concat d.
Proof.
  intro d. unfold remaining, rstart, get_line. cbn [r_pos r_idx fst N.to_nat]. destruct d as [|l d']; cbn [nth_error]; [reflexivity|].
  rewrite after_idx_0. reflexivity.
Qed.

Lemma pieces_nocr : forall ps last, pieces_ok last ps = true -> pieces_good ps ->
  nocr (pieces_text ps) = true /\ (length ps <= length (pieces_text ps))%nat.
Proof.
  induction ps as [|p ps IH]; intros last H HS; [split; [reflexivity|cbn; lia]|].
  inversion HS as [|? ? HSp HS']; subst. clear HS. rename HS' into HS.
  unfold pieces_text. cbn [flat_map]. fold (pieces_text ps). rewrite nocr_app, app_length. cbn [pieces_ok length] in *.
  destruct p as [c|v|v|t].
  - apply andb_true_iff in H. destruct H as [Hc H]. destruct (IH _ H HS) as [A B]. rewrite A. cbn [piece_text length].
    split; [|lia]. unfold nocr. cbn [forallb]. replace (c =? 13) with false by lia. reflexivity.
  - apply andb_true_iff in H. destruct H as [H H3]. apply andb_true_iff in H. destruct H as [H1 _]. destruct (IH _ H3 HS) as [A B].
    rewrite A. cbn [piece_text length]. split; [|lia]. unfold line_ok in H1. apply andb_true_iff in H1. destruct H1 as [Hv _].
    assert (Hn : nocr v = true).
    { unfold nocr. rewrite forallb_forall in Hv. apply forallb_forall. intros x Hx. specialize (Hv x Hx). unfold nonl in Hv. lia. }
    change (45 :: 45 :: v) with ([45; 45] ++ v). rewrite nocr_app, Hn. reflexivity.
  - apply andb_true_iff in H. destruct H as [H1 H3]. destruct (IH _ H3 HS) as [A B]. rewrite A. cbn [piece_text length]. split; [|lia].
    unfold block_ok in H1. apply andb_true_iff in H1. destruct H1 as [H1 _]. apply andb_true_iff in H1. destruct H1 as [H1 _].
    assert (Hn : nocr v = true).
    { unfold nocr. apply negb_true_iff in H1. rewrite forallb_forall. intros x Hx. destruct (x =? 13) eqn:E; [|reflexivity].
      exfalso. rewrite <- not_true_iff_false in H1. apply H1. apply existsb_exists. exists x. split; assumption. }
    change (47 :: 42 :: v ++ [42; 47]) with ([47; 42] ++ v ++ [42; 47]). rewrite !nocr_app, Hn. reflexivity.
  - apply andb_true_iff in H. destruct H as [H H3]. apply andb_true_iff in H. destruct H as [_ Hne]. destruct (IH _ H3 HS) as [A B].
    cbn [piece_text]. rewrite A, (proj1 (proj2 HSp)). split; [reflexivity|]. destruct (tok_text t); [discriminate|cbn [length]; lia].
Qed.

(* ---------- TokenStream::new on the text of a piece list ---------- *)
Theorem lex_pieces : forall ps, pieces_ok None ps = true -> pieces_good ps ->
  exists ts', lex_all (pieces_text ps) = Done ts' [] /\ map tok_kv ts' = map tok_kv (lex_toks ps)
              /\ flat_map tok_keys ts' = attached_keys (S (length ps)) ps.
Proof.
  intros ps Hok Hs. destruct (pieces_nocr ps None Hok Hs) as [Hcr Hlen].
  set (s := pieces_text ps) in *. unfold lex_all, lex_gen.
  pose proof (split_cdoc s) as HD.
  assert (HF : (length (concat (split_lines s)) < lex_fuel s)%nat).
  { pose proof (split_lines_length s). unfold lex_fuel. lia. }
  assert (HA : At (split_lines s) (k_rd tk_start) s).
  { cbn [tk_start k_rd]. split; [apply rinv_start|]. rewrite remaining_start. apply split_nocr. exact Hcr. }
  assert (Hn : (length ps < lex_fuel s)%nat) by (unfold lex_fuel; lia).
  apply (lex_pieces_aux (split_lines s) HD (lex_fuel s) HF (length ps) ps (lex_fuel s) tk_start (le_n _) Hn Hn HA Hok Hs eq_refl).
Qed.

Lemma pieces_supported_good : forall ps, pieces_supported ps = true -> pieces_good ps.
Proof.
  induction ps as [|p ps IH]; intro H; [constructor|]. unfold pieces_supported in H. cbn [forallb] in H. apply andb_true_iff in H.
  destruct H as [Hp H]. constructor; [|apply IH; exact H]. destruct p; try exact I. apply supported_good. exact Hp.
Qed.
Theorem lex_pieces_supported : forall ps, pieces_ok None ps = true -> pieces_supported ps = true ->
  exists ts', lex_all (pieces_text ps) = Done ts' [] /\ map tok_kv ts' = map tok_kv (lex_toks ps)
              /\ flat_map tok_keys ts' = attached_keys (S (length ps)) ps.
Proof. intros ps H1 H2. apply (lex_pieces ps H1 (pieces_supported_good ps H2)). Qed.

(* ---------- what a trace writes: its tokens, in order, and their comments ---------- *)
Definition fmt_key (c : comment) : bool * list char := (c_multi c, if c_multi c then c_val c else trim_end (c_val c)).
Definition tok_fmt_keys (t : token) : list (bool * list char) := map fmt_key (tok_comments t).
Definition buf_pieces (b : buffer) : list piece := rev (b_rev b).

Lemma gap_keys_app : forall a b, gap_keys (a ++ b) = gap_keys a ++ gap_keys b.
Proof. induction a as [|p a IH]; intro b; [reflexivity|]. destruct p; cbn [app gap_keys]; rewrite ?IH; reflexivity. Qed.
Lemma gap_keys_blanks : forall c n, gap_keys (repeat (PBlank c) n) = [].
Proof. induction n as [|n IH]; [reflexivity|exact IH]. Qed.
Lemma lex_toks_blanks : forall c n, lex_toks (repeat (PBlank c) n) = [].
Proof. induction n as [|n IH]; [reflexivity|exact IH]. Qed.
Lemma buf_push : forall b ps, buf_pieces (push b ps) = buf_pieces b ++ ps.
Proof. intros b ps. unfold buf_pieces, push. cbn [b_rev]. rewrite rev_app_distr, rev_involutive. reflexivity. Qed.
Lemma buf_set_extra : forall b e, buf_pieces (set_extra b e) = buf_pieces b.
Proof. reflexivity. Qed.

(* a buffer operation that writes blanks only *)
Definition blank_only (b b' : buffer) : Prop :=
  lex_toks (buf_pieces b') = lex_toks (buf_pieces b) /\ gap_keys (buf_pieces b') = gap_keys (buf_pieces b).
Lemma blank_line_breaks : forall n b, blank_only b (line_breaks n b).
Proof.
  intros n b. unfold blank_only, line_breaks. rewrite buf_push, buf_set_extra, lex_toks_app, gap_keys_app.
  unfold indent_pieces. rewrite lex_toks_app, gap_keys_app, !lex_toks_blanks, !gap_keys_blanks, !app_nil_r. split; reflexivity.
Qed.
Lemma fmt_comment_keys : forall c, gap_keys [fmt_comment c] = [fmt_key c] /\ lex_toks [fmt_comment c] = [].
Proof. intro c. unfold fmt_comment, fmt_key. destruct (c_multi c); split; reflexivity. Qed.
Lemma fmt_leading_eff : forall cs b b', fmt_leading b cs = Some b' ->
  lex_toks (buf_pieces b') = lex_toks (buf_pieces b) /\ gap_keys (buf_pieces b') = gap_keys (buf_pieces b) ++ map fmt_key cs.
Proof.
  induction cs as [|c cs IH]; intros b b' H.
  - injection H as <-. rewrite app_nil_r. split; reflexivity.
  - cbn [fmt_leading] in H. destruct cs as [|nx cs'].
    + injection H as <-. destruct (blank_line_breaks 1 (push b [fmt_comment c])) as [A B]. unfold line_break. rewrite A, B.
      rewrite buf_push, lex_toks_app, gap_keys_app. destruct (fmt_comment_keys c) as [K L]. rewrite K, L, app_nil_r. split; reflexivity.
    + destruct (fst (c_s nx) <? fst (c_e c)); [discriminate|].
      destruct (IH _ _ H) as [A B]. rewrite A, B.
      destruct (blank_line_breaks (N.max (fst (c_s nx) - fst (c_e c)) 1) (push b [fmt_comment c])) as [A' B']. rewrite A', B'.
      rewrite buf_push, lex_toks_app, gap_keys_app. destruct (fmt_comment_keys c) as [K L]. rewrite K, L, app_nil_r.
      split; [reflexivity|]. rewrite <- app_assoc. reflexivity.
Qed.
Lemma sep_before_blank : forall f b0 lead, blank_only b0 (sep_before_comment f b0 lead).
Proof.
  intros f b0 lead. unfold sep_before_comment. destruct (last_char (b_rev b0)) as [prev|]; [|split; reflexivity].
  destruct lead as [|c lead]; [split; reflexivity|]. destruct (f && comment_merges c prev); [|split; reflexivity].
  split; rewrite buf_push, ?lex_toks_app, ?gap_keys_app, app_nil_r; reflexivity.
Qed.
Lemma push_leading_eff : forall b t b', push_leading b t = Some b' ->
  lex_toks (buf_pieces b') = lex_toks (buf_pieces b) /\ gap_keys (buf_pieces b') = gap_keys (buf_pieces b) ++ map fmt_key (t_lead t).
Proof.
  intros b t b' H. unfold push_leading in H. destruct (t_lead t) as [|c [|c2 cs]] eqn:EL.
  - injection H as <-. rewrite app_nil_r. split; reflexivity.
  - destruct (on_token_line c t); [|apply (fmt_leading_eff _ _ _ H)]. injection H as <-.
    rewrite buf_push, lex_toks_app, gap_keys_app. destruct (fmt_comment_keys c) as [K L].
    change [fmt_comment c; PBlank 32] with ([fmt_comment c] ++ [PBlank 32]). rewrite lex_toks_app, gap_keys_app, K, L, !app_nil_r.
    split; reflexivity.
  - apply (fmt_leading_eff _ _ _ H).
Qed.
Lemma push_token_eff : forall b t b', push_token b t = Some b' ->
  lex_toks (buf_pieces b') = lex_toks (buf_pieces b) ++ [t] /\
  gap_keys (buf_pieces b') = gap_keys (buf_pieces b) ++ tok_fmt_keys t.
Proof.
  intros b t b' H. unfold push_token, push_token_gen in H. cbv zeta in H.
  set (b0 := set_extra (if b_extra b then line_break b else b) false) in H.
  assert (B0 : blank_only b b0).
  { unfold b0. destruct (b_extra b); [|split; reflexivity]. apply (blank_line_breaks 1 b). }
  destruct (sep_before_blank true b0 (t_lead t)) as [T1 K1]. destruct B0 as [T0 K0].
  destruct (push_leading (sep_before_comment true b0 (t_lead t)) t) as [b2|] eqn:EL; [|discriminate]. injection H as <-.
  destruct (push_leading_eff _ _ _ EL) as [T2 K2]. rewrite T1, T0 in T2. rewrite K1, K0 in K2.
  unfold push_text_trailing, tok_fmt_keys, tok_comments. rewrite map_app. destruct (t_trail t) as [c|].
  - rewrite buf_set_extra, !buf_push, !lex_toks_app, !gap_keys_app, T2, K2. destruct (fmt_comment_keys c) as [K L].
    change [PBlank 32; fmt_comment c] with ([PBlank 32] ++ [fmt_comment c]). rewrite lex_toks_app, gap_keys_app, K, L.
    cbn [lex_toks gap_keys flat_map app map]. rewrite !app_nil_r, <- ?app_assoc. split; reflexivity.
  - rewrite buf_push, lex_toks_app, gap_keys_app, T2, K2. cbn [lex_toks gap_keys flat_map app map]. rewrite !app_nil_r. split; reflexivity.
Qed.

Lemma run_sop_eff : forall b s b', run_sop b s = Some b' -> blank_only b b'.
Proof.
  intros b s b' H. destruct s; cbn [run_sop] in H.
  - injection H as <-. unfold push_whitespace. destruct (b_extra b); [split; reflexivity|].
    split; rewrite buf_push, ?lex_toks_app, ?gap_keys_app, app_nil_r; reflexivity.
  - injection H as <-. apply (blank_line_breaks 1 b).
  - injection H as <-. apply blank_line_breaks.
  - injection H as <-. split; reflexivity.
  - unfold decrease_indent in H. destruct (b_ind b =? 0); [discriminate|]. injection H as <-. split; reflexivity.
Qed.
Lemma run_ops_eff : forall l b b', run_ops b l = Some b' ->
  lex_toks (buf_pieces b') = lex_toks (buf_pieces b) ++ ops_tokens l /\
  gap_keys (buf_pieces b') = gap_keys (buf_pieces b) ++ flat_map tok_fmt_keys (ops_tokens l).
Proof.
  induction l as [|o l IH]; intros b b' H.
  - injection H as <-. cbn [ops_tokens flat_map]. rewrite !app_nil_r. split; reflexivity.
  - cbn [run_ops] in H. destruct (run_op b o) as [b1|] eqn:E1; [|discriminate]. destruct (IH _ _ H) as [T K].
    destruct o as [t|s]; cbn [run_op] in E1.
    + destruct (push_token_eff _ _ _ E1) as [T1 K1]. rewrite T, K, T1, K1. cbn [ops_tokens flat_map app]. fold (ops_tokens l).
      rewrite <- !app_assoc. split; reflexivity.
    + destruct (run_sop_eff _ _ _ E1) as [T1 K1]. rewrite T, K, T1, K1. split; reflexivity.
Qed.
Lemma render_pieces_eff : forall l ps, render_pieces l = Some ps ->
  lex_toks ps = ops_tokens l /\ gap_keys ps = flat_map tok_fmt_keys (ops_tokens l).
Proof.
  intros l ps H. unfold render_pieces in H. destruct (run_ops buf0 l) as [b|] eqn:E; [|discriminate]. injection H as <-.
  rewrite rev_append_rev, app_nil_r. destruct (run_ops_eff _ _ _ E) as [T K]. exact (conj T K).
Qed.

(* ---------- trailing blanks ---------- *)
Lemma trim_start_idem : forall l, trim_start (trim_start l) = trim_start l.
Proof.
  induction l as [|c l IH]; [reflexivity|]. cbn [trim_start]. destruct (is_ws c) eqn:E; [exact IH|]. cbn [trim_start]. rewrite E. reflexivity.
Qed.
Lemma trim_end_idem : forall l, trim_end (trim_end l) = trim_end l.
Proof. intro l. unfold trim_end. rewrite rev_involutive, trim_start_idem. reflexivity. Qed.
Definition trimk (k : bool * list char) : bool * list char := (fst k, trim_end (snd k)).
Lemma trimk_fmt : forall c, trimk (fmt_key c) = comment_key c.
Proof. intro c. unfold trimk, fmt_key, comment_key. cbn [fst snd]. destruct (c_multi c); [reflexivity|]. rewrite trim_end_idem. reflexivity. Qed.
Lemma trimk_ckey : forall c, trimk (ckey c) = comment_key c.
Proof. reflexivity. Qed.
Lemma tok_keys_ckey : forall t, tok_keys t = map ckey (tok_comments t).
Proof. intro t. unfold tok_keys, tok_comments, trail_keys. rewrite map_app. destruct (t_trail t); reflexivity. Qed.
Lemma pieces_good_toks : forall ps, Forall tok_good (lex_toks ps) -> pieces_good ps.
Proof.
  induction ps as [|p ps IH]; intro H; [constructor|]. destruct p; cbn [lex_toks flat_map app] in H;
    try (constructor; [exact I|apply IH; exact H]).
  inversion H; subst. constructor; [assumption|apply IH; assumption].
Qed.
Lemma supported_all_good : forall ts, forallb supported_kind ts = true -> Forall tok_good ts.
Proof. intros ts H. rewrite forallb_forall in H. apply Forall_forall. intros t Ht. apply supported_good. apply H. exact Ht. Qed.

(* ---------- the round trip ---------- *)
Theorem render_lex_roundtrip_good : forall l text,
  render_ops l = Some text -> ops_sep_ok l = true -> Forall tok_good (ops_tokens l) ->
  exists ts', lex_all text = Done ts' [] /\ same_stream (ops_tokens l) ts'.
Proof.
  intros l text HR HS HK. unfold render_ops in HR. unfold ops_sep_ok in HS.
  destruct (render_pieces l) as [ps|] eqn:EP; [|discriminate]. injection HR as <-.
  apply andb_true_iff in HS. destruct HS as [Hok Hat]. destruct (render_pieces_eff _ _ EP) as [ET EK].
  assert (Hsup : pieces_good ps) by (apply pieces_good_toks; rewrite ET; exact HK).
  destruct (lex_pieces ps Hok Hsup) as [ts' [EL [EKV EKS]]]. exists ts'. split; [exact EL|]. split.
  - rewrite EKV, ET. reflexivity.
  - unfold all_attached, keys_eqb in Hat. destruct (list_eq_dec key_eq_dec _ _) as [Eq|]; [|discriminate]. rewrite Eq, EK in EKS.
    unfold flat_comments. rewrite <- (map_ext _ _ trimk_ckey), <- map_map.
    assert (E1 : map ckey (flat_map tok_comments ts') = flat_map tok_keys ts').
    { clear. induction ts' as [|t ts IH]; [reflexivity|]. cbn [flat_map]. rewrite map_app, IH, tok_keys_ckey. reflexivity. }
    rewrite E1, EKS. clear. induction (ops_tokens l) as [|t ts IH]; [reflexivity|]. cbn [flat_map]. rewrite !map_app, IH. f_equal.
    unfold tok_fmt_keys. rewrite !map_map. apply map_ext. intro c. apply trimk_fmt.
Qed.
Theorem render_lex_roundtrip_ops : forall l text,
  render_ops l = Some text -> ops_sep_ok l = true -> forallb supported_kind (ops_tokens l) = true ->
  exists ts', lex_all text = Done ts' [] /\ same_stream (ops_tokens l) ts'.
Proof. intros l text HR HS HK. apply (render_lex_roundtrip_good l text HR HS (supported_all_good _ HK)). Qed.

Lemma ops_tokens_trace : forall s0 l, ops_tokens (trace_of s0 l) = map fst l.
Proof.
  intros s0 l. unfold trace_of, ops_tokens. rewrite flat_map_app.
  assert (E0 : forall s : sep, flat_map (fun o => match o with OTok t => [t] | OSep _ => [] end) (map OSep s) = []).
  { induction s as [|x s IH]; [reflexivity|exact IH]. }
  rewrite E0. cbn [app]. induction l as [|[t s] l IH]; [reflexivity|]. cbn [flat_map map fst snd app]. rewrite flat_map_app, E0, IH. reflexivity.
Qed.

(* C12_render_lex_roundtrip, proved for the token kinds of `supported_kind` *)
Theorem render_lex_roundtrip_partial : forall s0 l text,
  render s0 l = Some text -> sep_ok_from s0 l = true -> forallb supported_kind (map fst l) = true ->
  exists ts', lex_all text = Done ts' [] /\ same_stream (map fst l) ts'.
Proof.
  intros s0 l text HR HS HK. rewrite <- (ops_tokens_trace s0 l) in *.
  apply (render_lex_roundtrip_ops (trace_of s0 l) text HR HS HK).
Qed.

(* ---------- the trace checker ---------- *)
Lemma inst_trace_tokens : forall ts tr l, inst_trace ts tr = Some l ->
  Forall2 (fun i t => nth_error ts i = Some t) (trace_ids tr) (ops_tokens l).
Proof.
  intros ts tr. induction tr as [|o tr IH]; intros l H.
  - injection H as <-. constructor.
  - destruct o as [i|s]; cbn [inst_trace] in H.
    + destruct (nth_error ts i) as [t|] eqn:E; [|discriminate]. destruct (inst_trace ts tr) as [l'|]; [|discriminate]. injection H as <-.
      cbn [trace_ids ops_tokens flat_map app]. constructor; [exact E|apply IH; reflexivity].
    + destruct (inst_trace ts tr) as [l'|]; [|discriminate]. injection H as <-. cbn [trace_ids ops_tokens flat_map app]. apply IH. reflexivity.
Qed.
Lemma seq_nth_all : forall (ts pre l : list token),
  Forall2 (fun i t => nth_error (pre ++ ts) i = Some t) (seq (length pre) (length ts)) l -> l = ts.
Proof.
  induction ts as [|t ts IH]; intros pre l H.
  - inversion H. reflexivity.
  - cbn [length seq] in H. inversion H as [|i t' is l' Hn HF]; subst. rewrite nth_error_app2 in Hn by lia. rewrite Nat.sub_diag in Hn.
    cbn [nth_error] in Hn. injection Hn as <-. f_equal. apply (IH (pre ++ [t])). rewrite <- app_assoc. cbn [app].
    rewrite app_length. cbn [length]. replace (length pre + 1)%nat with (S (length pre)) by lia. exact HF.
Qed.
Theorem trace_checker_sound : forall ts tr l text,
  trace_check ts tr = true -> inst_trace ts tr = Some l -> render_ops l = Some text ->
  forallb supported_kind ts = true ->
  exists ts', lex_all text = Done ts' [] /\ same_stream ts ts'.
Proof.
  intros ts tr l text HC HI HR HK. unfold trace_check in HC. apply andb_true_iff in HC. destruct HC as [Hid HS].
  rewrite HI in HS. unfold ids_in_order in Hid. destruct (list_eq_dec Nat.eq_dec _ _) as [Eid|]; [|discriminate].
  pose proof (inst_trace_tokens _ _ _ HI) as HF. rewrite Eid in HF.
  assert (ET : ops_tokens l = ts) by (apply (seq_nth_all ts [] _ HF)).
  rewrite <- ET in *. apply (render_lex_roundtrip_ops l text HR HS HK).
Qed.

(* ---------- examples: sep_ok is necessary ---------- *)
Definition mk (k : kind) (v : value) : token :=
  {| t_kind := k; t_val := v; t_s := (0, 0); t_e := (0, 0); t_lead := []; t_trail := None |}.
Definition glued (ts : list token) : list (token * sep) := map (fun t => (t, [])) ts.
Definition spaced (ts : list token) : list (token * sep) := map (fun t => (t, [SWs])) ts.
Definition roundtrip_b (l : list (token * sep)) : bool :=
  match render [] l with Some text => relex_same (map fst l) text | None => false end.
Definition hazard (ts : list token) : bool :=
  negb (sep_ok (glued ts)) && negb (roundtrip_b (glued ts)) && sep_ok (spaced ts) && roundtrip_b (spaced ts).
Definition id_ (c : N) : token := mk KIdentifier (VIdent [c]).
(* a - -b ; ( ' a ' ; 1 . ; < = ; x "s" ; "s" "t" ; : = ; * * ; / * ; ? = ; = > *)
Definition hazard_examples : list (list token) := [
  [id_ 97; mk KMinus VNone; mk KMinus VNone; id_ 98];
  [mk KLeftPar VNone; mk KTick VNone; id_ 97; mk KTick VNone];
  [mk KAbstractLiteral (VAbsInt [49] 1); mk KDot VNone];
  [mk KLT VNone; mk KEQ VNone];
  [id_ 120; mk KStringLiteral (VString [49])];
  [mk KStringLiteral (VString [97]); mk KStringLiteral (VString [98])];
  [mk KColon VNone; mk KEQ VNone];
  [mk KTimes VNone; mk KTimes VNone];
  [mk KDiv VNone; mk KTimes VNone];
  [mk KQue VNone; mk KEQ VNone];
  [mk KEQ VNone; mk KGT VNone];
  [id_ 97; id_ 98];
  [mk (KKw [105; 115]) VNone; id_ 98];
  [mk KAbstractLiteral (VAbsInt [49] 1); id_ 101]
].
Lemma glue_hazard_examples : forallb hazard hazard_examples = true.
Proof. vm_compute. reflexivity. Qed.
(* x'('a') needs no separator at all: tick versus character literal is decided by the previous token *)
Definition tick_example : list token :=
  [id_ 120; mk KTick VNone; mk KLeftPar VNone; mk KCharacter (VChar 97); mk KRightPar VNone].
Lemma tick_example_ok : sep_ok (glued tick_example) = true /\ roundtrip_b (glued tick_example) = true.
Proof. vm_compute. split; reflexivity. Qed.

(* ---------- the code before the repairs ---------- *)
(* F42 (74eb856): the extended identifier \a\\b\ (stored name \a\b\) was printed un-escaped *)
Definition ext_tok : token := mk KIdentifier (VIdent [92; 97; 92; 98; 92]).
Lemma ext_ident_old_refuted :
  supported_kind ext_tok = true /\ relex_same [ext_tok] (tok_text ext_tok) = true /\
  relex_same [ext_tok] (tok_text_old ext_tok) = false.
Proof. vm_compute. repeat split. Qed.
(* F40 (9420374): a unary minus directly followed by the leading `--` comment of its operand *)
Definition cmt (v : list char) (l : N) : comment := {| c_val := v; c_s := (l, 0); c_e := (l, 4); c_multi := false |}.
Definition b_commented : token :=
  {| t_kind := KIdentifier; t_val := VIdent [98]; t_s := (2, 0); t_e := (2, 1); t_lead := [cmt [32; 99] 1]; t_trail := None |}.
Definition minus_comment_trace : list op := [OTok (mk KMinus VNone); OTok b_commented].
Lemma push_token_old_refuted :
  (match render_ops_old minus_comment_trace with Some t => relex_same (ops_tokens minus_comment_trace) t | None => true end) = false /\
  (match render_ops minus_comment_trace with Some t => relex_same (ops_tokens minus_comment_trace) t | None => false end) = true /\
  ops_sep_ok minus_comment_trace = true.
Proof. vm_compute. repeat split. Qed.

(* ---------- non-vacuity: a trace with leading, on-line and trailing comments, a string, a character,
   an extended identifier and an integer satisfies the hypotheses of the theorems ---------- *)
Definition ex_tokens : list token := [
  {| t_kind := KKw [101; 110; 116; 105; 116; 121]; t_val := VNone; t_s := (3, 0); t_e := (3, 6);
     t_lead := [{| c_val := [32; 108; 49; 32; 32]; c_s := (0, 0); c_e := (0, 7); c_multi := false |};
                {| c_val := [32; 98; 10; 32]; c_s := (1, 0); c_e := (2, 3); c_multi := true |}]; t_trail := None |};
  {| t_kind := KIdentifier; t_val := VIdent [92; 97; 92; 98; 92]; t_s := (3, 7); t_e := (3, 13); t_lead := [];
     t_trail := Some {| c_val := [32; 116; 32]; c_s := (3, 14); c_e := (3, 19); c_multi := false |} |};
  {| t_kind := KKw [105; 115]; t_val := VNone; t_s := (4, 8); t_e := (4, 10);
     t_lead := [{| c_val := [120]; c_s := (4, 0); c_e := (4, 5); c_multi := true |}]; t_trail := None |};
  mk KStringLiteral (VString [97; 34; 98]); mk KConcat VNone; mk KCharacter (VChar 39); mk KMinus VNone;
  mk KAbstractLiteral (VAbsInt [49; 95; 48] 10); mk KSemiColon VNone ].
Definition ex_trace : list iop :=
  [ITok 0; ISep SWs; ITok 1; ISep SWs; ISep SInc; ITok 2; ISep SBreak; ITok 3; ISep SWs; ITok 4; ISep SWs; ITok 5;
   ITok 6; ITok 7; ITok 8; ISep SDec; ISep (SBreaks 2)].
Lemma example_trace_ok :
  trace_check ex_tokens ex_trace = true /\ forallb supported_kind ex_tokens = true /\
  exists l text, inst_trace ex_tokens ex_trace = Some l /\ render_ops l = Some text /\ relex_same ex_tokens text = true.
Proof.
  split; [vm_compute; reflexivity|]. split; [vm_compute; reflexivity|].
  eexists _, _. split; [vm_compute; reflexivity|]. split; [vm_compute; reflexivity|]. vm_compute. reflexivity.
Qed.
