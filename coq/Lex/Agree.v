(* Lex/Agree.v — what C18 observes of the two lexer models (definitions only):
   the lexeme (text) sequence each front end splits a Latin-1 input into, and the predicates that
   delimit the property's quantifier.

     lexemes_lang s   RH.Lex.LangLexer.lex_all (Contents::from_str + Tokenizer + TokenStream::new of crate
                      vhdl_lang) on the scalars s; a token's lexeme is the text between its start and end
                      position (RH.Lex.LexSpec.slice_of_text: UTF-16 coordinates, a line break reads as LF)
     lexemes_syn s    RH.Lex.SynLexer.token_stream (Tokenizer + merge_bit_string_literals of crate
                      vhdl_syntax) on the bytes s; a token's lexeme is its text, every token but Eof;
                      CR / CRLF inside a token read as LF (only a character literal can hold one when
                      both lexers are clean)
     clean_lang s     TokenStream::new pushed no diagnostic (lexical errors and identifier warnings)
     clean_syn s      no token of the merged stream carries a LexErr
     no_directive s   no grave accent anywhere (tool directives)
     no_pragma s      the text `vhdl_ls` does not occur (the `vhdl_ls off` / `vhdl_ls on` comments)
   A byte is a scalar below 256 (`latin1 s`). *)
From Coq Require Import List NArith Arith Bool.
Import ListNotations.
From RH Require Import Text.Contents Text.Reader.
From RH Require Lex.LangLexer Lex.LexSpec Lex.SynLexer.
From RH Require Import Lex.LexGrammar.
Open Scope N_scope.

Definition latin1 (s : list N) : bool := forallb (fun c => c <? 256) s.
Definition no_directive (s : list N) : bool := forallb (fun c => negb (c =? 96)) s.
Definition no_cr (s : list N) : bool := forallb (fun c => negb (c =? 13)) s.

Fixpoint is_prefix (p s : list N) : bool :=
  match p, s with
  | [], _ => true
  | x :: p', y :: s' => (x =? y) && is_prefix p' s'
  | _ :: _, [] => false
  end.
Fixpoint contains (p s : list N) : bool :=
  is_prefix p s || match s with _ :: r => contains p r | [] => false end.
Definition VHDL_LS : list N := [118; 104; 100; 108; 95; 108; 115].        (* "vhdl_ls" *)
Definition no_pragma (s : list N) : bool := negb (contains VHDL_LS s).

(* ---------- vhdl_lang ---------- *)
Definition lang_lexeme (s : list N) (t : LangLexer.token) : lexeme :=
  LexSpec.slice_of_text s (LangLexer.t_s t) (LangLexer.t_e t).
(* (no diagnostic, lexemes); None = the model aborts (excluded for all inputs by C11's lex_all_done) *)
Definition lang_result (s : list N) : option (bool * list lexeme) :=
  match LangLexer.lex_all s with
  | LangLexer.Done ts ds => Some (match ds with [] => true | _ :: _ => false end, map (lang_lexeme s) ts)
  | LangLexer.Aborted _ => None
  end.
Definition lexemes_lang (s : list N) : option (list lexeme) := option_map snd (lang_result s).
Definition clean_lang (s : list N) : bool :=
  match lang_result s with Some (c, _) => c | None => false end.

(* ---------- vhdl_syntax ---------- *)
Fixpoint norm_eol (t : list N) : list N :=
  match t with
  | [] => []
  | c :: r =>
    if c =? 13 then 10 :: match r with
                          | d :: r' => if d =? 10 then norm_eol r' else norm_eol r
                          | [] => []
                          end
    else c :: norm_eol r
  end.
Definition is_eof (k : SynLexer.kind) : bool := match k with SynLexer.KEof => true | _ => false end.
Definition syn_lexemes_of (ts : list SynLexer.ltok) : list lexeme :=
  map (fun x => norm_eol (SynLexer.t_text (fst x)))
      (filter (fun x => negb (is_eof (SynLexer.t_kind (fst x)))) ts).
Definition syn_clean_of (ts : list SynLexer.ltok) : bool :=
  forallb (fun x => match snd x with None => true | Some _ => false end) ts.
Definition syn_result (s : list N) : option (bool * list lexeme) :=
  match SynLexer.token_stream SynLexer.kw2008 s with
  | Some ts => Some (syn_clean_of ts, syn_lexemes_of ts)
  | None => None
  end.
Definition lexemes_syn (s : list N) : option (list lexeme) := option_map snd (syn_result s).
Definition clean_syn (s : list N) : bool :=
  match syn_result s with Some (c, _) => c | None => false end.

(* the tokenizer before commit 5ee4d03 (finding F13): ':' after an integer always opened a based literal *)
Definition token_old (kws : list (list SynLexer.byte)) (last : option SynLexer.kind) (s : list SynLexer.byte)
  : SynLexer.kind * list SynLexer.byte * list SynLexer.byte * option SynLexer.errkind :=
  match s with
  | c :: _ =>
    if SynLexer.is_digit c then
      let '(t, r', e) := SynLexer.abstract_literal_old s in
      (SynLexer.KAbstractLiteral, t, r', if e then Some SynLexer.EUntermBased else None)
    else SynLexer.token kws last s
  | [] => SynLexer.token kws last s
  end.
Fixpoint lex_old (kws : list (list SynLexer.byte)) (fuel : nat) (last : option SynLexer.kind)
         (s : list SynLexer.byte) : SynLexer.lexres :=
  match fuel with
  | O => SynLexer.OutOfFuel
  | S f =>
    match SynLexer.trivia (S (length s)) s with
    | None => SynLexer.OutOfFuel
    | Some (tr, r, unterm) =>
      match r with
      | [] => SynLexer.LexOk [(SynLexer.mkTok SynLexer.KEof [] tr,
                 if unterm then Some (SynLexer.EUntermBlockComment, SynLexer.PTrivia (length tr - 1)) else None)]
      | _ :: _ =>
        let '(k, t, r', e) := token_old kws last r in
        match SynLexer.combine_diag tr unterm e with
        | None => SynLexer.LexCrash
        | Some d =>
          match lex_old kws f (Some k) r' with
          | SynLexer.LexOk ts => SynLexer.LexOk ((SynLexer.mkTok k t tr, d) :: ts)
          | SynLexer.LexCrash => SynLexer.LexCrash
          | SynLexer.OutOfFuel => SynLexer.OutOfFuel
          end
        end
      end
    end
  end.
Definition syn_result_old (s : list N) : option (bool * list lexeme) :=
  match lex_old SynLexer.kw2008 (S (length s)) None s with
  | SynLexer.LexOk ts => let m := SynLexer.merge ts in Some (syn_clean_of m, syn_lexemes_of m)
  | _ => None
  end.

(* merge_bit_string_literals before commit f2c0e80 (finding F41): any abstract literal was merged *)
Definition syn_result_merge_old (s : list N) : option (bool * list lexeme) :=
  match SynLexer.synlex SynLexer.kw2008 s with
  | SynLexer.LexOk ts => let m := SynLexer.merge_old ts in Some (syn_clean_of m, syn_lexemes_of m)
  | _ => None
  end.

(* ---------- the property on one input ---------- *)
Definition in_quantifier (s : list N) : bool :=
  latin1 s && clean_lang s && clean_syn s && no_directive s && no_pragma s.
Definition opt_lexemes_eqb (a b : option (list lexeme)) : bool :=
  match a, b with
  | Some x, Some y =>
    (fix go (x y : list lexeme) : bool :=
       match x, y with
       | [], [] => true
       | t :: x', u :: y' => list_eqb t u && go x' y'
       | _, _ => false
       end) x y
  | _, _ => false
  end.
Definition agree_on (s : list N) : bool :=
  negb (in_quantifier s) || opt_lexemes_eqb (lexemes_lang s) (lexemes_syn s).

(* ---------- where today's lexers split a clean source differently: one place is left (D) ---------- *)
(* (B, repaired by commit bba3236, finding F40) vhdl_lang did not know the replacement character ':' of based
   literals (LRM 15.10); the predicate is kept for the refutation of the old code *)
Fixpoint has_colon_literal (s : list N) : bool :=
  match s with
  | a :: ((b :: c :: _) as r) => (int_char a && (b =? 58) && letter_or_digit c) || has_colon_literal r
  | _ => false
  end.
(* (C, repaired by commit f2c0e80, finding F41) vhdl_syntax merged ANY abstract literal (real, based, with
   exponent) with a following base specifier and string into a bit string literal; the LRM allows an integer
   only.  `has_nonint_bitstring` is false for every input with the repaired merge *)
Definition nonint_prefix (t : list N) : bool :=
  match t with
  | c :: _ => digit c && match base_spec_len (snd (span int_char t)) with Some _ => false | None => true end
  | [] => false
  end.
Definition has_nonint_bitstring (s : list N) : bool :=
  match SynLexer.token_stream SynLexer.kw2008 s with
  | Some ts => existsb (fun x => match SynLexer.t_kind (fst x) with
                                 | SynLexer.KBitStringLiteral => nonint_prefix (SynLexer.t_text (fst x))
                                 | _ => false
                                 end) ts
  | None => false
  end.
(* (A, repaired by commit 9360ea7, finding F42) `assume_guarantee` and `restrict_guarantee` were reserved words
   of VHDL-2008 for vhdl_lang and plain identifiers for vhdl_syntax: a following tick was read differently *)
Definition ASSUME_G : list N := [97;115;115;117;109;101;95;103;117;97;114;97;110;116;101;101].
Definition RESTRICT_G : list N := [114;101;115;116;114;105;99;116;95;103;117;97;114;97;110;116;101;101].
(* the keyword table of vhdl_syntax before commit 9360ea7 *)
Definition kw2008_old : list (list N) :=
  filter (fun w => negb (list_eqb w ASSUME_G || list_eqb w RESTRICT_G)) SynLexer.kw2008.
Definition syn_result_kw_old (s : list N) : option (bool * list lexeme) :=
  match SynLexer.token_stream kw2008_old s with
  | Some ts => Some (syn_clean_of ts, syn_lexemes_of ts)
  | None => None
  end.
Definition has_psl_word (s : list N) : bool :=
  let l := map to_lower s in contains ASSUME_G l || contains RESTRICT_G l.
(* (D) a character literal holding the line break CR LF: vhdl_lang reads the normalised `'LF'`,
   vhdl_syntax sees two characters between the ticks *)
Definition has_crlf_char (s : list N) : bool := contains [39; 13; 10; 39] s.

Definition known_difference (s : list N) : bool := has_crlf_char s.

(* all strings of length <= k over an alphabet (for the finite-domain theorems) *)
Fixpoint strings_exact (alpha : list N) (k : nat) : list (list N) :=
  match k with
  | O => [[]]
  | S k' => flat_map (fun t => map (fun c => c :: t) alpha) (strings_exact alpha k')
  end.
Definition strings_upto (alpha : list N) (k : nat) : list (list N) :=
  flat_map (strings_exact alpha) (seq 0 (S k)).
