(* Lex/LangLexerRelex2.v — (e) relex, part 2: every arm of parse_token "stops at the end of its
   lexeme".  For two line buffers d and d': if a function of the tokenizer succeeds on d from st,
   it consumed some characters l (run d l st st2), and on ANY buffer d' in which the same characters
   l can be read from st' (run d' l st' e') and in which the character that follows is either the one
   that follows in d or the end of the input (`nxt st2 e'`), the same function returns the same
   result (with any fuel greater than |l|).  Positions are never compared between d and d'.
   This file: the framework, identifiers/keywords, quoted lexemes (string literals, extended
   identifiers), base specifiers and bit strings.  Abstract literals: Lex/LangLexerRelex3.v;
   parse_token and the token stream: Lex/LangLexerRelex4.v. *)
From Coq Require Import List NArith Arith Bool Lia.
Import ListNotations.
From RH Require Import Text.Contents Text.ContentsProofs Text.Reader Text.ReaderProofs Text.ReaderInv
  Lex.LangLexer Lex.LexSpec Lex.LangLexerProofs Lex.LangLexerNoCrash Lex.LangLexerText.
Open Scope N_scope.

#[local] Arguments N.add : simpl never.
#[local] Arguments N.sub : simpl never.
#[local] Arguments N.mul : simpl never.
#[local] Arguments N.eqb : simpl never.
#[local] Arguments N.ltb : simpl never.
#[local] Arguments N.leb : simpl never.
#[local] Arguments N.pow : simpl never.
#[local] Arguments N.modulo : simpl never.

(* ---------- runs ---------- *)
Lemma run_nil_inv : forall D a b, run D [] a b -> a = b.
Proof. intros D a b H. inversion H. reflexivity. Qed.
Lemma run_cons_inv : forall D c l a b, run D (c :: l) a b ->
  get_char D a = GChar c /\ run D l (skip_char a c) b.
Proof. intros D c l a b H. inversion H; subst. auto. Qed.
Lemma run_app_inv : forall D l1 l2 a c, run D (l1 ++ l2) a c -> exists b, run D l1 a b /\ run D l2 b c.
Proof.
  intros D l1. induction l1 as [|x l1 IH]; intros l2 a c H; cbn [app] in H.
  - exists a. split; [constructor|exact H].
  - apply run_cons_inv in H. destruct H as [G H]. destruct (IH _ _ _ H) as [b [R1 R2]].
    exists b. split; [econstructor; eassumption|exact R2].
Qed.
(* two runs from the same state, the second up to the end of the input: the first is a prefix *)
Lemma run_prefix : forall D la s a, run D la s a -> forall lb b, run D lb s b -> get_char D b = GEof ->
  exists r, lb = la ++ r.
Proof.
  intros D la s a H. induction H as [st|c l st st' G H IH]; intros lb b Hb E.
  - exists lb. reflexivity.
  - destruct lb as [|c' lb'].
    + apply run_nil_inv in Hb. subst b. congruence.
    + apply run_cons_inv in Hb. destruct Hb as [G' Hb]. assert (c' = c) by congruence. subst c'.
      destruct (IH _ _ Hb E) as [r ->]. exists r. reflexivity.
Qed.
(* two runs from the same state: one is a prefix of the other *)
Lemma run_compare : forall D la s a, run D la s a -> forall lb b, run D lb s b ->
  (exists r, lb = la ++ r /\ run D r a b) \/ (exists r, la = lb ++ r /\ run D r b a).
Proof.
  intros D la s a H. induction H as [st|c l st st' G H IH]; intros lb b Hb.
  - left. exists lb. auto.
  - destruct lb as [|c' lb'].
    + apply run_nil_inv in Hb. subst b. right. exists (c :: l). split; [reflexivity|econstructor; eassumption].
    + apply run_cons_inv in Hb. destruct Hb as [G' Hb]. assert (c' = c) by congruence. subst c'.
      destruct (IH _ _ Hb) as [[r [-> R]]|[r [-> R]]]; [left|right]; exists r; auto.
Qed.
Lemma run_ple : forall D l a b, run D l a b -> ple (r_pos a) (r_pos b) = true.
Proof. intros D l a b H. eapply steps_ple. eapply run_steps. exact H. Qed.

Lemma pop_at : forall D st c, get_char D st = GChar c -> c < 256 -> pop D st = (Ok (Some c), skip_char st c).
Proof.
  intros D st c G L. unfold pop, char_to_latin1. rewrite G.
  replace (c <? 256) with true by (symmetry; apply N.ltb_lt; exact L). reflexivity.
Qed.
Lemma peek_at' : forall D st c, get_char D st = GChar c -> c < 256 -> peek D st = (Ok (Some c), st).
Proof. intros D st c G L. apply peek_at; [exact G|apply N.ltb_lt; exact L]. Qed.
Lemma peek_eof : forall D st, get_char D st = GEof -> peek D st = (Ok None, st).
Proof. intros D st G. unfold peek. rewrite G. reflexivity. Qed.
Lemma pop_eof : forall D st, get_char D st = GEof -> pop D st = (Ok None, st).
Proof. intros D st G. unfold pop. rewrite G. reflexivity. Qed.
Lemma peek_ok_get : forall D st ob st1, peek D st = (Ok ob, st1) ->
  st1 = st /\ match ob with Some b => get_char D st = GChar b /\ b < 256 | None => get_char D st = GEof end.
Proof.
  intros D st ob st1 H. destruct ob as [b|].
  - destruct (peek_some_inv _ _ _ _ H) as [E [G L]]. apply N.ltb_lt in L. auto.
  - apply peek_inv in H. destruct H as [E [[_ G]|[[c [E' _]]|[[c [e [E' _]]]|[E' _]]]]]; try discriminate. auto.
Qed.

Lemma identch_okch : forall b, (is_alnum b || (b =? 95)) = true -> b < 256 -> okch b.
Proof. intros b H L. split; [exact L|]. intro E. subst b. discriminate. Qed.

Section Sim.
  Variable d : list (list char).

  (* the character after the lexeme: in d' it is the one of d, or the end of the input *)
  Definition nxt (d' : list (list char)) (st2 e' : rstate) : Prop :=
    get_char d' e' = GEof \/ get_char d' e' = get_char d st2.

  Lemma nxt_back : forall d' l st2 st3 m' e', run d l st2 st3 -> run d' l m' e' -> nxt d' st3 e' -> nxt d' st2 m'.
  Proof.
    intros d' [|c l] st2 st3 m' e' R R' N.
    - apply run_nil_inv in R. apply run_nil_inv in R'. subst. exact N.
    - apply run_cons_inv in R. apply run_cons_inv in R'. right. destruct R as [G _]. destruct R' as [G' _]. congruence.
  Qed.
  Lemma run_split' : forall d' l1 l2 st st1 st2 st' e', run d l1 st st1 -> run d l2 st1 st2 ->
    run d' (l1 ++ l2) st' e' -> nxt d' st2 e' ->
    exists m', run d' l1 st' m' /\ run d' l2 m' e' /\ nxt d' st1 m'.
  Proof.
    intros d' l1 l2 st st1 st2 st' e' R1 R2 R' N. apply run_app_inv in R'. destruct R' as [m' [Ra Rb]].
    exists m'. split; [exact Ra|]. split; [exact Rb|]. eapply nxt_back; eassumption.
  Qed.

  Lemma peek_nxt : forall d' st ob st1 e', peek d st = (Ok ob, st1) -> nxt d' st e' ->
    peek d' e' = (Ok None, e') \/ peek d' e' = (Ok ob, e').
  Proof.
    intros d' st ob st1 e' P [N|N]; [left; apply peek_eof; exact N|].
    destruct (peek_ok_get _ _ _ _ P) as [_ G]. destruct ob as [b|].
    - destruct G as [G L]. right. apply peek_at'; [congruence|exact L].
    - left. apply peek_eof. congruence.
  Qed.
  Lemma peek_lowercase_nxt : forall d' st ob st1 e', peek_lowercase d st = (Ok ob, st1) -> nxt d' st e' ->
    peek_lowercase d' e' = (Ok None, e') \/ peek_lowercase d' e' = (Ok ob, e').
  Proof.
    intros d' st ob st1 e' P N. unfold peek_lowercase in P. bok P o st2 P0. unfold ret in P. injection P as <- <-.
    unfold peek_lowercase, bind. destruct (peek_nxt _ _ _ _ _ P0 N) as [E|E]; rewrite E; [left|right]; reflexivity.
  Qed.

  (* ---------- identifiers and keywords ---------- *)
  Lemma ident_loop_sim : forall fuel acc st t st2, ident_loop d fuel acc st = (Ok t, st2) ->
    exists l, run d l st st2 /\ t = acc ++ l /\ Forall (fun b => (is_alnum b || (b =? 95)) = true) l /\ Forall okch l /\
      forall d' fuel' st' e', run d' l st' e' -> nxt d' st2 e' -> (length l < fuel')%nat ->
        ident_loop d' fuel' acc st' = (Ok t, e').
  Proof.
    induction fuel as [|f IH]; intros acc st t st2 H; cbn [ident_loop] in H; [discriminate|].
    bok H ob st1 P. pose proof (peek_ok_nomove _ _ _ _ P). subst st1.
    assert (Hstop : match ob with Some b => (is_alnum b || (b =? 95)) = false | None => True end ->
              ret acc st = (Ok t, st2) ->
              exists l, run d l st st2 /\ t = acc ++ l /\ Forall (fun b => (is_alnum b || (b =? 95)) = true) l /\ Forall okch l /\
                forall d' fuel' st' e', run d' l st' e' -> nxt d' st2 e' -> (length l < fuel')%nat ->
                  ident_loop d' fuel' acc st' = (Ok t, e')).
    { intros Hna E. unfold ret in E. injection E as <- <-. exists []. rewrite app_nil_r.
      split; [constructor|]. split; [reflexivity|]. split; [constructor|]. split; [constructor|].
      intros d' fuel' st' e' R N L. apply run_nil_inv in R. subst e'.
      destruct fuel' as [|f']; [cbn [length] in L; lia|]. cbn [ident_loop]. unfold bind.
      destruct (peek_nxt _ _ _ _ _ P N) as [E|E]; rewrite E; [reflexivity|].
      destruct ob as [b|]; [rewrite Hna|]; reflexivity. }
    destruct ob as [b|]; [|apply Hstop; [exact I|exact H]].
    destruct (is_alnum b || (b =? 95)) eqn:Eb; [|apply Hstop; [reflexivity|exact H]].
    destruct (peek_ok_get _ _ _ _ P) as [_ [G L]].
    bok H u st3 S. pose proof (skip_ok_at _ _ _ _ _ G S). subst st3.
    destruct (IH _ _ _ _ H) as [l [R [-> [Fi [Fo Hsim]]]]]. exists (b :: l).
    split; [econstructor; eassumption|]. split; [rewrite <- app_assoc; reflexivity|].
    split; [constructor; assumption|]. split; [constructor; [apply identch_okch; assumption|assumption]|].
    intros d' fuel' st' e' R' N Lf. apply run_cons_inv in R'. destruct R' as [G' R'].
    destruct fuel' as [|f']; [cbn [length] in Lf; lia|]. cbn [ident_loop]. cbn [length] in Lf.
    unfold bind at 1. rewrite (peek_at' _ _ _ G' L). rewrite Eb. unfold bind at 1. rewrite (skip_at _ _ _ G').
    apply Hsim; [exact R'|exact N|lia].
  Qed.

  (* ---------- quoted lexemes ---------- *)
  Lemma quoted_loop_sim : forall fuel q buf multi st buf' st2, q <> LF ->
    quoted_loop d fuel q buf multi st = (Ok (buf', false, true), st2) ->
    multi = false /\ exists l, run d l st st2 /\ Forall okch l /\
      forall d' fuel' st' e', run d' l st' e' -> nxt d' st2 e' -> (length l < fuel')%nat ->
        quoted_loop d' fuel' q buf multi st' = (Ok (buf', false, true), e').
  Proof.
    induction fuel as [|f IH]; intros q buf multi st buf' st2 Hq H; cbn [quoted_loop] in H; [discriminate|].
    bok H oc st1 P. destruct oc as [c|]; [|unfold ret in H; discriminate].
    destruct (pop_ok_some _ _ _ _ P) as [G [L ->]]. cbv zeta in H.
    destruct (c =? q) eqn:Ecq.
    - bok H o2 st3 P2. pose proof (peek_ok_nomove _ _ _ _ P2). subst st3.
      destruct (opt_is o2 q) eqn:Eo.
      + destruct o2 as [x|]; [|discriminate]. cbn [opt_is] in Eo. apply N.eqb_eq in Eo. subst x.
        destruct (peek_ok_get _ _ _ _ P2) as [_ [G2 L2]].
        bok H u st3 S. pose proof (skip_ok_at _ _ _ _ _ G2 S). subst st3.
        destruct (IH _ _ _ _ _ _ Hq H) as [Hm [l [R [Fo Hsim]]]].
        apply orb_false_iff in Hm. destruct Hm as [Hm Hc]. split; [exact Hm|].
        exists (c :: q :: l). split; [econstructor; [exact G|econstructor; eassumption]|].
        split.
        { constructor; [split; [exact L|apply N.eqb_neq; exact Hc]|]. constructor; [split; [exact L2|exact Hq]|exact Fo]. }
        intros d' fuel' st' e' R' N Lf. apply run_cons_inv in R'. destruct R' as [G' R'].
        apply run_cons_inv in R'. destruct R' as [G2' R'].
        destruct fuel' as [|f']; [cbn [length] in Lf; lia|]. cbn [quoted_loop]. cbn [length] in Lf.
        unfold bind at 1. rewrite (pop_at _ _ _ G' L). cbv zeta. rewrite Ecq.
        unfold bind at 1. rewrite (peek_at' _ _ _ G2' L2). cbn [opt_is]. rewrite N.eqb_refl.
        unfold bind at 1. rewrite (skip_at _ _ _ G2'). apply Hsim; [exact R'|exact N|lia].
      + unfold ret in H. injection H as <- Hm <-.
        apply orb_false_iff in Hm. destruct Hm as [Hm Hc]. split; [exact Hm|].
        exists [c]. split; [apply run_one; exact G|].
        split; [constructor; [split; [exact L|apply N.eqb_neq; exact Hc]|constructor]|].
        intros d' fuel' st' e' R' N Lf. apply run_cons_inv in R'. destruct R' as [G' R'].
        apply run_nil_inv in R'. subst e'.
        destruct fuel' as [|f']; [cbn [length] in Lf; lia|]. cbn [quoted_loop].
        unfold bind at 1. rewrite (pop_at _ _ _ G' L). cbv zeta. rewrite Ecq.
        unfold bind at 1. rewrite Hm, Hc. cbn [orb].
        destruct (peek_nxt _ _ _ _ _ P2 N) as [E|E]; rewrite E; [reflexivity|]. rewrite Eo. reflexivity.
    - destruct (IH _ _ _ _ _ _ Hq H) as [Hm [l [R [Fo Hsim]]]].
      apply orb_false_iff in Hm. destruct Hm as [Hm Hc]. split; [exact Hm|].
      exists (c :: l). split; [econstructor; eassumption|].
      split; [constructor; [split; [exact L|apply N.eqb_neq; exact Hc]|exact Fo]|].
      intros d' fuel' st' e' R' N Lf. apply run_cons_inv in R'. destruct R' as [G' R'].
      destruct fuel' as [|f']; [cbn [length] in Lf; lia|]. cbn [quoted_loop]. cbn [length] in Lf.
      unfold bind at 1. rewrite (pop_at _ _ _ G' L). cbv zeta. rewrite Ecq.
      apply Hsim; [exact R'|exact N|lia].
  Qed.

  Lemma parse_quoted_sim : forall F q incl st v st2, q <> LF -> parse_quoted d F q incl st = (Ok v, st2) ->
    exists l, run d l st st2 /\ Forall okch l /\
      forall d' F' st' e', run d' l st' e' -> nxt d' st2 e' -> (length l < F')%nat ->
        parse_quoted d' F' q incl st' = (Ok v, e').
  Proof.
    intros F q incl st v st2 Hq H. unfold parse_quoted in H.
    bok H p st1 GP. pose proof (get_pos_ok _ _ _ GP). subst st1.
    bok H r st3 T. destruct r as [[[buf multi] found]|e]; [|bok H u st4 QR; discriminate].
    apply try_ok_inl in T.
    bok H e st4 GP2. pose proof (get_pos_ok _ _ _ GP2). subst st4.
    destruct found; cbn [negb] in H; [|discriminate]. destruct multi; [discriminate|].
    unfold ret in H. injection H as <- <-.
    destruct (quoted_loop_sim _ _ _ _ _ _ _ Hq T) as [_ [l [R [Fo Hsim]]]].
    exists l. split; [exact R|]. split; [exact Fo|].
    intros d' F' st' e' R' N Lf. unfold parse_quoted. unfold bind at 1. unfold get_pos at 1.
    unfold bind at 1. unfold try. rewrite (Hsim d' F' st' e' R' N Lf).
    unfold bind at 1. unfold get_pos at 1. cbn [negb]. reflexivity.
  Qed.

  (* ---------- base specifier (pops only: no lookahead beyond what it consumes) ---------- *)
  Lemma bs_second_sim : forall off st code st1, bs_second d off st = (Ok (Some code), st1) ->
    exists c, get_char d st = GChar c /\ st1 = skip_char st c /\ okch c /\
      forall d' st', get_char d' st' = GChar c -> bs_second d' off st' = (Ok (Some code), skip_char st' c).
  Proof.
    intros off st code st1 H. unfold bs_second in H. bok H oc st2 P.
    unfold ret in H. injection H as H <-. destruct oc as [x|]; [|discriminate].
    destruct (pop_lowercase_ok_some _ _ _ _ P) as [c [G [L [-> ->]]]].
    exists c. split; [exact G|]. split; [reflexivity|]. split.
    { split; [exact L|]. apply lowercase_lf.
      destruct (lowercase c =? 98) eqn:E1; [apply N.eqb_eq in E1; rewrite E1; discriminate|].
      destruct (lowercase c =? 111) eqn:E2; [apply N.eqb_eq in E2; rewrite E2; discriminate|].
      destruct (lowercase c =? 120) eqn:E3; [apply N.eqb_eq in E3; rewrite E3; discriminate|].
      discriminate. }
    intros d' st' G'. unfold bs_second, pop_lowercase. unfold bind. rewrite (pop_at _ _ _ G' L).
    unfold ret. cbn [option_map]. rewrite H. reflexivity.
  Qed.

  Lemma parse_base_specifier_sim : forall st bs st1, parse_base_specifier d st = (Ok (Some bs), st1) ->
    exists l, run d l st st1 /\ Forall okch l /\ In 34 l /\ l <> [] /\
      forall d' st' m', run d' l st' m' -> parse_base_specifier d' st' = (Ok (Some bs), m').
  Proof.
    intros st bs st1 H. unfold parse_base_specifier in H.
    bok H oc st2 P. destruct oc as [x|]; [|discriminate].
    destruct (pop_lowercase_ok_some _ _ _ _ P) as [c [G [L [-> ->]]]].
    bok H ocode st3 C. destruct ocode as [code|]; [|discriminate].
    bok H oq st4 PQ. unfold ret in H. injection H as H <-.
    destruct (opt_is oq 34) eqn:Eq; [|discriminate]. injection H as <-.
    destruct oq as [qc|]; [|discriminate]. cbn [opt_is] in Eq. apply N.eqb_eq in Eq. subst qc.
    destruct (pop_ok_some _ _ _ _ PQ) as [GQ [LQ ->]].
    assert (Hc : lowercase c <> 10 -> okch c) by (intro Hx; split; [exact L|apply lowercase_lf; exact Hx]).
    assert (H34 : okch 34) by (split; [lia|discriminate]).
    destruct ((lowercase c =? 117) || (lowercase c =? 115)) eqn:E1.
    - assert (C' : bs_second d (if lowercase c =? 117 then 3 else 6) (skip_char st c) = (Ok (Some code), st3)).
      { destruct (lowercase c =? 117); [exact C|]. cbn [orb] in E1. rewrite E1 in C. exact C. }
      destruct (bs_second_sim _ _ _ _ C') as [c2 [G2 [-> [O2 Hs2]]]].
      exists [c; c2; 34]. split; [econstructor; [exact G|econstructor; [exact G2|apply run_one; exact GQ]]|].
      split.
      { constructor; [|constructor; [exact O2|constructor; [exact H34|constructor]]]. apply Hc.
        apply orb_true_iff in E1. destruct E1 as [E|E]; apply N.eqb_eq in E; rewrite E; discriminate. }
      split; [right; right; left; reflexivity|]. split; [discriminate|].
      intros d' st' m' R'. apply run_cons_inv in R'. destruct R' as [G' R'].
      apply run_cons_inv in R'. destruct R' as [G2' R']. apply run_cons_inv in R'. destruct R' as [GQ' R'].
      apply run_nil_inv in R'. subst m'.
      unfold parse_base_specifier, pop_lowercase. unfold bind at 1. unfold bind at 1. rewrite (pop_at _ _ _ G' L).
      unfold ret at 1. cbn [option_map]. unfold bind at 1.
      assert (C'' : (if lowercase c =? 117 then bs_second d' 3
               else if lowercase c =? 115 then bs_second d' 6
               else ret (if lowercase c =? 98 then Some 0 else if lowercase c =? 111 then Some 1
                         else if lowercase c =? 120 then Some 2 else if lowercase c =? 100 then Some 9 else None))
               (skip_char st' c) = (Ok (Some code), skip_char (skip_char st' c) c2)).
      { specialize (Hs2 _ _ G2'). destruct (lowercase c =? 117); [exact Hs2|]. cbn [orb] in E1. rewrite E1. exact Hs2. }
      rewrite C''. unfold bind. rewrite (pop_at _ _ _ GQ' LQ). reflexivity.
    - apply orb_false_iff in E1. destruct E1 as [E1 E2]. rewrite E1, E2 in C.
      unfold ret in C. injection C as C <-.
      exists [c; 34]. split; [econstructor; [exact G|apply run_one; exact GQ]|].
      split.
      { constructor; [|constructor; [exact H34|constructor]]. apply Hc.
        destruct (lowercase c =? 98) eqn:E3; [apply N.eqb_eq in E3; rewrite E3; discriminate|].
        destruct (lowercase c =? 111) eqn:E4; [apply N.eqb_eq in E4; rewrite E4; discriminate|].
        destruct (lowercase c =? 120) eqn:E5; [apply N.eqb_eq in E5; rewrite E5; discriminate|].
        destruct (lowercase c =? 100) eqn:E6; [apply N.eqb_eq in E6; rewrite E6; discriminate|].
        discriminate. }
      split; [right; left; reflexivity|]. split; [discriminate|].
      intros d' st' m' R'. apply run_cons_inv in R'. destruct R' as [G' R'].
      apply run_cons_inv in R'. destruct R' as [GQ' R']. apply run_nil_inv in R'. subst m'.
      unfold parse_base_specifier, pop_lowercase. unfold bind at 1. unfold bind at 1. rewrite (pop_at _ _ _ G' L).
      unfold ret at 1. cbn [option_map]. unfold bind at 1. rewrite E1, E2. unfold ret at 1. rewrite C.
      unfold bind. rewrite (pop_at _ _ _ GQ' LQ). reflexivity.
  Qed.

  (* ---------- bit string: the text is re-read through value_at in both buffers ---------- *)
  Hypothesis HD : Forall lf_last d.

  Lemma parse_bit_string_sim : forall F base len s0 l0 st k v st2,
    RInv d s0 -> run d l0 s0 st -> Forall okch l0 -> l0 <> [] ->
    parse_bit_string d F base len (snd (r_pos s0)) st = (Ok (k, v), st2) ->
    exists l, run d l st st2 /\ Forall okch l /\
      forall d' F' s0' st' e', Forall lf_last d' -> RInv d' s0' -> run d' l0 s0' st' -> run d' l st' e' ->
        nxt d' st2 e' -> (length l < F')%nat ->
        parse_bit_string d' F' base len (snd (r_pos s0')) st' = (Ok (k, v), e').
  Proof.
    intros F base len s0 l0 st k v st2 HI0 R0 F0 Hne H. unfold parse_bit_string in H.
    bok H q st1 PQ. bok H p st3 GP. pose proof (get_pos_ok _ _ _ GP). subst st3.
    unfold get_pos in GP. injection GP as <-.
    assert (Hq : 34 <> LF) by discriminate.
    destruct (parse_quoted_sim _ _ _ _ _ _ Hq PQ) as [l1 [R1 [F1 Hsim]]].
    assert (Fall : Forall okch (l0 ++ l1)) by (apply Forall_app; auto).
    assert (Hne' : l0 ++ l1 <> []) by (destruct l0; [congruence|discriminate]).
    assert (Rall : run d (l0 ++ l1) s0 st1) by (eapply run_app; eassumption).
    assert (Hline : fst (r_pos s0) = fst (r_pos st1)).
    { symmetry. eapply run_same_line; [exact Rall|apply okch_no_lf; exact Fall]. }
    rewrite (value_at_consumed d HD (l0 ++ l1) s0 st1 HI0 Rall Hline Hne' (okch_latin1 _ Fall)) in H.
    unfold ret in H. injection H as <- <- <-.
    exists l1. split; [exact R1|]. split; [exact F1|].
    intros d' F' s0' st' e' HD' HI0' R0' R1' N Lf. unfold parse_bit_string.
    unfold bind at 1. rewrite (Hsim d' F' st' e' R1' N Lf). unfold bind at 1. unfold get_pos at 1.
    assert (Rall' : run d' (l0 ++ l1) s0' e') by (eapply run_app; eassumption).
    assert (Hline' : fst (r_pos s0') = fst (r_pos e')).
    { symmetry. eapply run_same_line; [exact Rall'|apply okch_no_lf; exact Fall]. }
    rewrite (value_at_consumed d' HD' (l0 ++ l1) s0' e' HI0' Rall' Hline' Hne' (okch_latin1 _ Fall)). reflexivity.
  Qed.
End Sim.
