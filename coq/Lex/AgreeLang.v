(* Lex/AgreeLang.v — C18, vhdl_lang side: on the inputs of the quantifier the model of vhdl_lang's tokenizer
   splits the text exactly like the reference longest-match splitter of Lex/LexGrammar.v.

     Theorem lang_is_spec : forall s : list N,
       latin1 s = true -> clean_lang s = true -> no_directive s = true -> no_pragma s = true ->
       no_cr s = true ->
       lexemes_lang s = split_spec LangLexer.keywords_2008 s.

   i.e. on a Latin-1, CR-free text without grave accent, without the text `vhdl_ls`,
   on which the model of TokenStream::new pushes no diagnostic, the texts between the
   start and end positions of its tokens are exactly the lexemes of `split_spec`.

   Structure of the proof
     1  facts about the reference splitter (span, skip_gap as the fuel-free `gap`, split_from)
     2  `good`: the quantifier as a suffix-closed predicate on the text still to be read
     3  the flat view of the reader: `At d st r` = reader invariant + `remaining d st = r` + `good r`;
        peek/pop/skip are the head/tail of r
     4  every fuelled loop of the tokenizer computes the corresponding `span`/`drop_block`/`quoted_rest`
     5  get_leading_comments / get_trailing_comment skip what skip_gap skips
     6  parse_quoted, parse_base_specifier, parse_integer, parse_exponent, parse_real_literal
     7  parse_abstract_literal = LexGrammar.number on the Ok path
     8  parse_token = lexeme_step on the Ok path without identifier warning
     9  a lexeme of the reference splitter is a prefix of its input
     10 no `vhdl_ls off` comment, parse_token returns None only at the end of the text
     11 pop_raw = skip_gap + lexeme_step, Tokenizer::pop = pop_raw, induction on the fuel of `lex`
     12 whole inputs: lang_is_spec
   Everything is Qed; `Print Assumptions lang_is_spec` at the end: Closed under the global context. *)
From Coq Require Import List NArith Arith Bool Lia ZifyBool ZifyN.
Import ListNotations.
From RH Require Import Text.Contents Text.ContentsProofs Text.Reader Text.ReaderProofs Text.ReaderInv
  Lex.LangLexer Lex.LexSpec Lex.LangLexerProofs Lex.LexGrammar Lex.Agree.
Open Scope N_scope.

#[local] Arguments N.add : simpl never.
#[local] Arguments N.sub : simpl never.
#[local] Arguments N.mul : simpl never.
#[local] Arguments N.eqb : simpl never.
#[local] Arguments N.ltb : simpl never.
#[local] Arguments N.leb : simpl never.
#[local] Arguments N.pow : simpl never.
#[local] Arguments N.modulo : simpl never.

(* inversion of a bind that returned Ok *)
Local Tactic Notation "bok" hyp(H) ident(x) ident(st) ident(P) :=
  apply bind_ok_inv in H; destruct H as [x [st [P H]]].
Lemma try_ok_inl : forall A (m : M A) st x st', try m st = (Ok (inl x), st') -> m st = (Ok x, st').
Proof. intros A m st x st' H. unfold try in H. destruct (m st) as [[a|e|a] s]; try discriminate. congruence. Qed.
Lemma of_result_ok : forall A (r : A + terr) st x st', of_result r st = (Ok x, st') -> r = inl x /\ st' = st.
Proof. intros A [a|e] st x st' H; unfold of_result, ret, throw in H; [injection H as <- <-; auto|discriminate]. Qed.
Lemma lowercase_fix : forall c x, lowercase c = x -> (is_digit x || (x =? 46) || (x =? 95)) = true -> c = x.
Proof.
  intros c x H Hx. unfold lowercase in H.
  destruct (c =? 215); [exact H|].
  destruct (in_range 65 90 c || in_range 192 214 c || in_range 216 222 c) eqn:E; [|exact H].
  exfalso. unfold is_digit in *. unfold in_range in *. lia.
Qed.
Lemma f64_ok_identity : forall l,
  forallb (fun c => is_digit c || (c =? 46)) (filter (fun x => negb (x =? 95)) (map lowercase l)) = true ->
  map lowercase l = l.
Proof.
  induction l as [|c l IH]; intro H; [reflexivity|]. cbn [map filter] in H.
  destruct (lowercase c =? 95) eqn:E95; cbn [negb] in H.
  - cbn [map]. rewrite (IH H). f_equal. symmetry. apply lowercase_fix with (x := lowercase c); [reflexivity|].
    rewrite E95. apply orb_true_r.
  - cbn [forallb] in H. apply andb_true_iff in H. destruct H as [H1 H2].
    cbn [map]. rewrite (IH H2). f_equal. symmetry. apply lowercase_fix with (x := lowercase c); [reflexivity|].
    rewrite E95, orb_false_r. exact H1.
Qed.

(* ------------------------------------------------------------------------------------------ *)
(* 1. facts about the reference splitter                                                        *)
(* ------------------------------------------------------------------------------------------ *)
Lemma span_cons : forall p x r,
  span p (x :: r) = if p x then (x :: fst (span p r), snd (span p r)) else ([], x :: r).
Proof. intros p x r. cbn [span]. destruct (p x); [|reflexivity]. destruct (span p r); reflexivity. Qed.
Lemma span_pair : forall p s, span p s = (fst (span p s), snd (span p s)).
Proof. intros p s. destruct (span p s); reflexivity. Qed.
Lemma span_app : forall p s, s = fst (span p s) ++ snd (span p s).
Proof.
  intros p s. induction s as [|x r IH]; [reflexivity|]. rewrite span_cons. destruct (p x); cbn [fst snd app]; [|reflexivity].
  f_equal. exact IH.
Qed.
Lemma span_length : forall p s, (length (snd (span p s)) <= length s)%nat.
Proof.
  intros p s. induction s as [|x r IH]; [cbn; lia|]. rewrite span_cons. destruct (p x); cbn [fst snd length]; lia.
Qed.
Lemma span_all : forall p s, forallb p (fst (span p s)) = true.
Proof.
  intros p s. induction s as [|x r IH]; [reflexivity|]. rewrite span_cons. destruct (p x) eqn:E; cbn [fst forallb]; [|reflexivity].
  rewrite E, IH. reflexivity.
Qed.
Lemma span_hd : forall p s x r, snd (span p s) = x :: r -> p x = false.
Proof.
  intros p s. induction s as [|y s IH]; intros x r H; [discriminate|]. rewrite span_cons in H.
  destruct (p y) eqn:E; cbn [snd] in H; [eapply IH; exact H|]. injection H as <- _. exact E.
Qed.
Lemma span_ext : forall p q s, (forall x, p x = q x) -> span p s = span q s.
Proof.
  intros p q s H. induction s as [|x r IH]; [reflexivity|]. rewrite !span_cons, IH, H. reflexivity.
Qed.
Lemma span_refine : forall p q s, forallb q (fst (span p s)) = true -> (forall x, q x = true -> p x = true) ->
  span q s = span p s.
Proof.
  intros p q s H Hqp. induction s as [|x r IH]; [reflexivity|]. rewrite span_cons in H. rewrite !span_cons.
  destruct (p x) eqn:E; cbn [fst forallb] in H.
  - apply andb_true_iff in H. destruct H as [H1 H2]. rewrite H1, (IH H2). reflexivity.
  - destruct (q x) eqn:E2; [|reflexivity]. rewrite (Hqp _ E2) in E. discriminate.
Qed.
Lemma span_nil_hd : forall p x r, p x = false -> span p (x :: r) = ([], x :: r).
Proof. intros p x r H. rewrite span_cons, H. reflexivity. Qed.

Lemma drop_line_length : forall s, (length (drop_line s) <= length s)%nat.
Proof. induction s as [|x r IH]; cbn [drop_line length]; [lia|]. destruct (eol x); cbn [length]; lia. Qed.
Lemma drop_block_length : forall s r, drop_block s = Some r -> (length r < length s)%nat.
Proof.
  induction s as [|x s IH]; intros r H; [discriminate|]. cbn [drop_block] in H.
  destruct s as [|y r2]; [discriminate|]. destruct ((x =? 42) && (y =? 47)).
  - injection H as <-. cbn [length]. lia.
  - apply IH in H. cbn [length] in *. lia.
Qed.

Lemma skip_gap_fuel : forall f1 f2 s, (length s < f1)%nat -> (length s < f2)%nat -> skip_gap f1 s = skip_gap f2 s.
Proof.
  induction f1 as [|f1 IH]; intros f2 s H1 H2; [lia|]. destruct f2 as [|f2]; [lia|]. cbn [skip_gap].
  destruct s as [|c r]; [reflexivity|]. cbn [length] in *.
  destruct (separator c); [apply IH; lia|].
  assert (Ht : (length (tl r) <= length r)%nat) by (destruct r; cbn [tl length]; lia).
  destruct (starts2 (c :: r) 45 45); [pose proof (drop_line_length (tl r)); apply IH; lia|].
  destruct (starts2 (c :: r) 47 42); [|reflexivity].
  destruct (drop_block (tl r)) as [r'|] eqn:E; [|reflexivity]. apply drop_block_length in E. apply IH; lia.
Qed.

Lemma skip_gap_S : forall f c r,
  skip_gap (S f) (c :: r) =
  if separator c then skip_gap f r
  else if starts2 (c :: r) 45 45 then skip_gap f (drop_line (tl r))
  else if starts2 (c :: r) 47 42 then match drop_block (tl r) with Some r' => skip_gap f r' | None => None end
  else Some (c :: r).
Proof. reflexivity. Qed.

Definition gap (s : list N) : option (list N) := skip_gap (S (length s)) s.
Lemma gap_nil : gap [] = Some [].
Proof. reflexivity. Qed.
Lemma gap_sep : forall c r, separator c = true -> gap (c :: r) = gap r.
Proof. intros c r H. unfold gap. cbn [length]. rewrite skip_gap_S, H. apply skip_gap_fuel; lia. Qed.
Lemma gap_line : forall y, gap (45 :: 45 :: y) = gap (drop_line y).
Proof.
  intro y. unfold gap. cbn [length]. rewrite skip_gap_S. change (separator 45) with false.
  change (starts2 (45 :: 45 :: y) 45 45) with true.
  cbn [tl]. pose proof (drop_line_length y). apply skip_gap_fuel; lia.
Qed.
Lemma gap_block : forall y, gap (47 :: 42 :: y) = match drop_block y with Some r' => gap r' | None => None end.
Proof.
  intro y. unfold gap. cbn [length]. rewrite skip_gap_S. change (separator 47) with false.
  change (starts2 (47 :: 42 :: y) 45 45) with false. change (starts2 (47 :: 42 :: y) 47 42) with true. cbn [tl].
  destruct (drop_block y) as [r'|] eqn:E; [|reflexivity]. apply drop_block_length in E. apply skip_gap_fuel; lia.
Qed.
Lemma gap_stop : forall c r, separator c = false -> starts2 (c :: r) 45 45 = false -> starts2 (c :: r) 47 42 = false ->
  gap (c :: r) = Some (c :: r).
Proof. intros c r H1 H2 H3. unfold gap. cbn [length]. rewrite skip_gap_S, H1, H2, H3. reflexivity. Qed.

Lemma split_from_S : forall kws f prev s,
  split_from kws (S f) prev s =
  match gap s with
  | None => None
  | Some [] => Some []
  | Some ((_ :: _) as s1) =>
    match lexeme_step kws prev s1 with
    | None => None
    | Some (t, r, a) => match split_from kws f a r with Some ts => Some (t :: ts) | None => None end
    end
  end.
Proof. reflexivity. Qed.
Lemma split_from_gap : forall kws f prev s s', gap s = gap s' -> split_from kws f prev s = split_from kws f prev s'.
Proof. intros kws f prev s s' H. destruct f as [|f]; [reflexivity|]. rewrite !split_from_S, H. reflexivity. Qed.

(* ------------------------------------------------------------------------------------------ *)
(* 2. the inputs of the quantifier, as a suffix-closed predicate on the text still to be read    *)
(* ------------------------------------------------------------------------------------------ *)
Definition chok (c : N) : bool := (c <? 256) && negb (c =? 13) && negb (c =? 96).
Definition good (r : list N) : bool :=
  forallb chok r && negb (contains VHDL_LS r).

Lemma contains_tl : forall p a r, contains p (a :: r) = false -> contains p r = false.
Proof. intros p a r H. cbn [contains] in H. apply orb_false_iff in H. destruct H as [_ H]. exact H. Qed.
Lemma good_cons : forall c r, good (c :: r) = true -> chok c = true /\ good r = true.
Proof.
  intros c r H. unfold good in *. cbn [forallb] in H.
  apply andb_true_iff in H. destruct H as [H H3].
  apply andb_true_iff in H. destruct H as [H0 H1]. split; [exact H0|].
  rewrite H1. apply negb_true_iff in H3.
  rewrite (contains_tl _ _ _ H3). reflexivity.
Qed.
Lemma good_app_r : forall l r, good (l ++ r) = true -> good r = true.
Proof. induction l as [|x l IH]; intros r H; [exact H|]. apply IH. cbn [app] in H. apply good_cons in H. tauto. Qed.
Lemma good_nocr : forall r, good r = true -> forallb (fun c => negb (c =? 13)) r = true.
Proof.
  induction r as [|c r IH]; intro H; [reflexivity|]. apply good_cons in H. destruct H as [H1 H2].
  cbn [forallb]. rewrite (IH H2). unfold chok in H1. lia.
Qed.

Lemma drop_line_span : forall r, forallb (fun c => negb (c =? 13)) r = true ->
  drop_line r = snd (span (fun c => negb (c =? 10)) r).
Proof.
  induction r as [|x r IH]; intro H; [reflexivity|]. cbn [forallb] in H. apply andb_true_iff in H. destruct H as [H1 H2].
  cbn [drop_line]. rewrite span_cons. unfold eol.
  destruct (x =? 10) eqn:E; cbn [negb orb snd]; [reflexivity|].
  replace (x =? 13) with false by lia. rewrite (IH H2). reflexivity.
Qed.

(* ------------------------------------------------------------------------------------------ *)
(* 3. the flat view of the reader                                                               *)
(* ------------------------------------------------------------------------------------------ *)
Section Flat.
  Variable d : list (list char).
  Hypothesis HD : cdoc d.

  Definition At (st : rstate) (r : list N) : Prop := RInv d st /\ remaining d st = r /\ good r = true.

  Lemma HDl : Forall lf_last d.
  Proof. apply cdoc_lf_last. exact HD. Qed.

  Lemma geof_remaining_nil : forall st, RInv d st -> get_char d st = GEof -> remaining d st = [].
  Proof.
    intros st [[pre [suf [Hl [Hi [Hc Hn]]]]]|[Hl [Hc Hi]]] G.
    - unfold get_char, get_line in G. fold (lnat st) in G. rewrite Hl, Hi, char_at_app in G.
      destruct suf as [|c suf]; [|discriminate].
      unfold remaining, get_line. fold (lnat st). rewrite Hl, Hi, after_idx_app. cbn [app].
      destruct (Nat.lt_ge_cases (S (lnat st)) (length d)) as [Hlt|Hge].
      + exfalso. destruct (cdoc_nonlast d HD _ _ Hlt Hl) as [b Eb]. apply Hn. rewrite app_nil_r in Eb. rewrite Eb.
        apply in_or_app. right. left. reflexivity.
      + rewrite skipn_all2 by lia. reflexivity.
    - unfold remaining, get_line. fold (lnat st). rewrite Hl.
      replace (nth_error d (length d)) with (@None (list char)); [reflexivity|].
      symmetry. apply nth_error_None. lia.
  Qed.

  Lemma at_nil : forall st, At st [] -> get_char d st = GEof.
  Proof.
    intros st [HI [HR _]]. destruct (rinv_get_char d st HI) as [[pre [c [suf [Hl [Hi [Hc [Hn G]]]]]]]|G]; [|exact G].
    exfalso. rewrite (remaining_skip_exact d st c HDl HI G) in HR. discriminate.
  Qed.
  Lemma at_cons : forall st c r, At st (c :: r) -> get_char d st = GChar c /\ At (skip_char st c) r /\ c < 256.
  Proof.
    intros st c r [HI [HR HG]]. destruct (rinv_get_char d st HI) as [[pre [c' [suf [Hl [Hi [Hc [Hn G]]]]]]]|G].
    - rewrite (remaining_skip_exact d st c' HDl HI G) in HR. injection HR as -> HR.
      apply good_cons in HG. destruct HG as [H1 H2].
      split; [exact G|]. split; [|unfold chok in H1; lia].
      split; [apply rinv_skip; assumption|]. split; assumption.
    - rewrite (geof_remaining_nil st HI G) in HR. discriminate.
  Qed.
  Lemma at_good : forall st r, At st r -> good r = true.
  Proof. intros st r H. apply H. Qed.
  Lemma at_rinv : forall st r, At st r -> RInv d st.
  Proof. intros st r H. apply H. Qed.
  Lemma at_fun : forall st r r', At st r -> At st r' -> r = r'.
  Proof. intros st r r' [_ [H1 _]] [_ [H2 _]]. congruence. Qed.
  Lemma at_len : forall st r, At st r -> (length r <= length (concat d))%nat.
  Proof. intros st r [_ [H _]]. rewrite <- H. apply (mu_total d st). Qed.

  Lemma peek_nil : forall st, At st [] -> peek d st = (Ok None, st).
  Proof. intros st H. unfold peek. rewrite (at_nil _ H). reflexivity. Qed.
  Lemma peek_cons : forall st c r, At st (c :: r) -> peek d st = (Ok (Some c), st).
  Proof.
    intros st c r H. destruct (at_cons _ _ _ H) as [G [_ L]]. unfold peek, char_to_latin1. rewrite G.
    replace (c <? 256) with true by lia. reflexivity.
  Qed.
  Lemma pop_nil : forall st, At st [] -> pop d st = (Ok None, st).
  Proof. intros st H. unfold pop. rewrite (at_nil _ H). reflexivity. Qed.
  Lemma pop_cons : forall st c r, At st (c :: r) -> pop d st = (Ok (Some c), skip_char st c).
  Proof.
    intros st c r H. destruct (at_cons _ _ _ H) as [G [_ L]]. unfold pop, char_to_latin1. rewrite G.
    replace (c <? 256) with true by lia. reflexivity.
  Qed.
  Lemma peek_char_nil : forall st, At st [] -> peek_char d st = (Ok None, st).
  Proof. intros st H. unfold peek_char. rewrite (at_nil _ H). reflexivity. Qed.
  Lemma peek_char_cons : forall st c r, At st (c :: r) -> peek_char d st = (Ok (Some c), st).
  Proof. intros st c r H. destruct (at_cons _ _ _ H) as [G _]. unfold peek_char. rewrite G. reflexivity. Qed.
  Lemma pop_char_nil : forall st, At st [] -> pop_char d st = (Ok None, st).
  Proof. intros st H. unfold pop_char. rewrite (at_nil _ H). reflexivity. Qed.
  Lemma pop_char_cons : forall st c r, At st (c :: r) -> pop_char d st = (Ok (Some c), skip_char st c).
  Proof. intros st c r H. destruct (at_cons _ _ _ H) as [G _]. unfold pop_char. rewrite G. reflexivity. Qed.
  Lemma skip_cons : forall st c r, At st (c :: r) -> skip d st = (Ok tt, skip_char st c).
  Proof. intros st c r H. destruct (at_cons _ _ _ H) as [G _]. apply skip_at. exact G. Qed.
  Lemma at_skip : forall st c r, At st (c :: r) -> At (skip_char st c) r.
  Proof. intros st c r H. apply (at_cons _ _ _ H). Qed.

  Lemma skip_if_flat : forall v st r, At st r ->
    exists st', skip_if d v st = (Ok (hd_eq r v), st') /\ At st' (if hd_eq r v then tl r else r).
  Proof.
    intros v st r H. unfold skip_if. destruct r as [|c r]; unfold bind.
    - rewrite (peek_nil _ H). cbn [hd_eq]. exists st. split; [reflexivity|exact H].
    - rewrite (peek_cons _ _ _ H). cbn [hd_eq tl]. destruct (c =? v).
      + rewrite (skip_cons _ _ _ H). exists (skip_char st c). split; [reflexivity|apply (at_skip _ _ _ H)].
      + exists st. split; [reflexivity|exact H].
  Qed.
  Lemma peek_lowercase_flat : forall st r, At st r ->
    peek_lowercase d st = (Ok (option_map lowercase (hd_error r)), st).
  Proof.
    intros st r H. unfold peek_lowercase, bind, ret. destruct r as [|c r].
    - rewrite (peek_nil _ H). reflexivity.
    - rewrite (peek_cons _ _ _ H). reflexivity.
  Qed.
  Lemma pop_lowercase_nil : forall st, At st [] -> pop_lowercase d st = (Ok None, st).
  Proof. intros st H. unfold pop_lowercase, bind, ret. rewrite (pop_nil _ H). reflexivity. Qed.
  Lemma pop_lowercase_cons : forall st c r, At st (c :: r) ->
    pop_lowercase d st = (Ok (Some (lowercase c)), skip_char st c).
  Proof. intros st c r H. unfold pop_lowercase, bind, ret. rewrite (pop_cons _ _ _ H). reflexivity. Qed.

  (* states reached: the consumed characters *)
  Lemma at_run : forall st x st' y, At st x -> At st' y -> adv d st st' -> exists l, run d l st st' /\ x = l ++ y.
  Proof.
    intros st x st' y [HI [HR _]] [_ [HR' _]] [n S]. destruct (steps_run d _ _ _ S) as [l [R _]].
    exists l. split; [exact R|]. rewrite <- HR, <- HR'. apply run_remaining; [exact HDl|exact R|exact HI].
  Qed.
End Flat.


(* ------------------------------------------------------------------------------------------ *)
(* 4. the loops of the tokenizer on the flat view                                               *)
(* ------------------------------------------------------------------------------------------ *)
Definition wsP (nl : bool) (b : N) : bool := (b =? 32) || (b =? 9) || (nl && (b =? 10)).
Definition notlf (c : N) : bool := negb (c =? 10).
Definition Qint (stp : bool) (b : N) : bool := negb (stp && stop_suffix b) && ident_char b.
Definition Preal (c : N) : bool :=
  let b := lowercase c in
  negb (b =? 101) && (is_digit b || in_range 97 100 b || (b =? 102) || (b =? 46) || (b =? 95)).

Lemma drop_block_cons : forall x r,
  drop_block (x :: r) = match r with
                        | y :: r2 => if (x =? 42) && (y =? 47) then Some r2 else drop_block r
                        | [] => None
                        end.
Proof. reflexivity. Qed.
Lemma quoted_rest_cons : forall q x r,
  quoted_rest q (x :: r) =
  if x =? q then
    match r with
    | y :: r2 => if y =? q then match quoted_rest q r2 with Some (a, b) => Some (x :: y :: a, b) | None => None end
                 else Some ([x], r)
    | [] => Some ([x], [])
    end
  else match quoted_rest q r with Some (a, b) => Some (x :: a, b) | None => None end.
Proof. reflexivity. Qed.

Section Loops.
  Variable d : list (list char).
  Hypothesis HD : cdoc d.
  Local Notation At := (At d).

  Lemma skip_ws_flat : forall fuel nl st r, At st r -> (length r < fuel)%nat ->
    exists st', skip_ws d fuel nl st = (Ok tt, st') /\ At st' (snd (span (wsP nl) r)).
  Proof.
    induction fuel as [|f IH]; intros nl st r HA Hf; [lia|]. cbn [skip_ws]. unfold bind at 1. unfold try.
    destruct r as [|c r].
    - rewrite (peek_nil d HD _ HA). cbv beta iota. exists st. split; [reflexivity|exact HA].
    - rewrite (peek_cons d HD _ _ _ HA). cbv beta iota. rewrite span_cons. change ((c =? 32) || (c =? 9) || nl && (c =? 10)) with (wsP nl c).
      destruct (wsP nl c).
      + unfold bind. rewrite (skip_cons d HD _ _ _ HA). cbv beta iota. cbn [snd]. apply IH; [apply (at_skip d HD _ _ _ HA)|cbn [length] in Hf; lia].
      + exists st. split; [reflexivity|exact HA].
  Qed.

  Lemma take_to_nl_flat : forall fuel acc st r, At st r -> (length r < fuel)%nat ->
    exists st', take_to_nl d fuel acc st = (Ok (acc ++ fst (span notlf r)), st') /\ At st' (snd (span notlf r)).
  Proof.
    induction fuel as [|f IH]; intros acc st r HA Hf; [lia|]. cbn [take_to_nl]. unfold bind at 1.
    destruct r as [|c r].
    - rewrite (peek_char_nil d HD _ HA). cbv beta iota. exists st. cbn [span fst snd]. rewrite app_nil_r. split; [reflexivity|exact HA].
    - rewrite (peek_char_cons d HD _ _ _ HA). cbv beta iota. rewrite span_cons. change LF with 10.
      destruct (c =? 10) eqn:E10;
        [replace (notlf c) with false by (unfold notlf; rewrite E10; reflexivity)
        |replace (notlf c) with true by (unfold notlf; rewrite E10; reflexivity)]; cbn [fst snd].
      + exists st. rewrite app_nil_r. split; [reflexivity|exact HA].
      + unfold bind. rewrite (skip_cons d HD _ _ _ HA). cbv beta iota.
        destruct (IH (acc ++ [c]) _ _ (at_skip d HD _ _ _ HA)) as [st' [E HA']]; [cbn [length] in Hf; lia|].
        exists st'. rewrite <- app_assoc in E. split; [exact E|exact HA'].
  Qed.

  Lemma ml_loop_flat : forall fuel acc st r, At st r -> (length r < fuel)%nat ->
    exists res st', ml_loop d fuel acc st = (Ok res, st') /\
      match drop_block r with
      | Some r' => At st' r' /\ exists body, res = Some (acc ++ body) /\ r = body ++ 42 :: 47 :: r'
      | None => res = None
      end.
  Proof.
    induction fuel as [|f IH]; intros acc st r HA Hf; [lia|]. cbn [ml_loop]. unfold bind at 1.
    destruct r as [|c r].
    - rewrite (pop_char_nil d HD _ HA). cbv beta iota. exists None, st. split; [reflexivity|reflexivity].
    - rewrite (pop_char_cons d HD _ _ _ HA). cbv beta iota. pose proof (at_skip d HD _ _ _ HA) as HA1. cbn [length] in Hf.
      assert (Hgo : forall y r2, r = y :: r2 -> (c =? 42) && (y =? 47) = false ->
                exists res st', ml_loop d f (acc ++ [c]) (skip_char st c) = (Ok res, st') /\
                  match drop_block (c :: r) with
                  | Some r' => At st' r' /\ exists body, res = Some (acc ++ body) /\ c :: r = body ++ 42 :: 47 :: r'
                  | None => res = None
                  end).
      { intros y r2 -> E. destruct (IH (acc ++ [c]) _ _ HA1) as [res [st' [El Hm]]]; [lia|].
        exists res, st'. split; [exact El|]. rewrite drop_block_cons, E.
        destruct (drop_block (y :: r2)) as [r'|]; [|exact Hm].
        destruct Hm as [HA' [body [-> Er]]]. split; [exact HA'|]. exists (c :: body).
        rewrite <- app_assoc. split; [reflexivity|]. cbn [app]. rewrite Er. reflexivity. }
      destruct r as [|y r2].
      + (* last character *)
        assert (E0 : exists st', ml_loop d f (acc ++ [c]) (skip_char st c) = (Ok None, st')).
        { destruct (IH (acc ++ [c]) _ _ HA1) as [res [st' [El Hm]]]; [cbn [length]; lia|]. cbn [drop_block] in Hm. subst res.
          exists st'. exact El. }
        destruct E0 as [st' E0]. exists None, st'. rewrite drop_block_cons. split; [|reflexivity].
        destruct (c =? 42); [|exact E0]. unfold bind. rewrite (peek_char_nil d HD _ HA1). cbv beta iota. cbn [opt_is]. exact E0.
      + destruct (c =? 42) eqn:E42.
        * unfold bind at 1. rewrite (peek_char_cons d HD _ _ _ HA1). cbv beta iota. cbn [opt_is].
          destruct (y =? 47) eqn:E47.
          -- unfold bind, ret. rewrite (skip_cons d HD _ _ _ HA1). cbv beta iota. exists (Some acc), (skip_char (skip_char st c) y).
             split; [reflexivity|]. rewrite drop_block_cons, E42, E47. cbn [andb].
             split; [apply (at_skip d HD _ _ _ HA1)|]. exists []. rewrite app_nil_r. split; [reflexivity|].
             apply N.eqb_eq in E42. apply N.eqb_eq in E47. subst c y. reflexivity.
          -- eapply Hgo; [reflexivity|]. rewrite E47. apply andb_false_r.
        * eapply Hgo; [reflexivity|]. reflexivity.
  Qed.

  Lemma ident_loop_flat : forall fuel acc st r, At st r -> (length r < fuel)%nat ->
    exists st', ident_loop d fuel acc st = (Ok (acc ++ fst (span ident_char r)), st') /\
                At st' (snd (span ident_char r)).
  Proof.
    induction fuel as [|f IH]; intros acc st r HA Hf; [lia|]. cbn [ident_loop]. unfold bind at 1.
    destruct r as [|c r].
    - rewrite (peek_nil d HD _ HA). cbv beta iota. exists st. cbn [span fst snd]. rewrite app_nil_r. split; [reflexivity|exact HA].
    - rewrite (peek_cons d HD _ _ _ HA). cbv beta iota. rewrite span_cons. change (is_alnum c || (c =? 95)) with (ident_char c).
      destruct (ident_char c); cbn [fst snd].
      + unfold bind. rewrite (skip_cons d HD _ _ _ HA). cbv beta iota.
        destruct (IH (acc ++ [c]) _ _ (at_skip d HD _ _ _ HA)) as [st' [E HA']]; [cbn [length] in Hf; lia|].
        exists st'. rewrite E, <- app_assoc. split; [reflexivity|exact HA'].
      + exists st. rewrite app_nil_r. split; [reflexivity|exact HA].
  Qed.

  Lemma quoted_loop_flat : forall fuel q buf multi st r, At st r -> (length r < fuel)%nat ->
    exists buf' multi' found st', quoted_loop d fuel q buf multi st = (Ok (buf', multi', found), st') /\
      match quoted_rest q r with
      | Some (body, r') => found = true /\ At st' r'
      | None => found = false
      end.
  Proof.
    induction fuel as [|f IH]; intros q buf multi st r HA Hf; [lia|]. cbn [quoted_loop]. unfold bind at 1.
    destruct r as [|c r].
    - rewrite (pop_nil d HD _ HA). cbv beta iota. exists buf, multi, false, st. split; [reflexivity|reflexivity].
    - rewrite (pop_cons d HD _ _ _ HA). cbv beta iota. pose proof (at_skip d HD _ _ _ HA) as HA1. cbn [length] in Hf.
      cbv zeta. rewrite quoted_rest_cons. destruct (c =? q) eqn:Ecq.
      + unfold bind at 1. destruct r as [|y r2].
        * rewrite (peek_nil d HD _ HA1). cbv beta iota. cbn [opt_is]. exists buf, (multi || (c =? 10)), true, (skip_char st c).
          split; [reflexivity|]. split; [reflexivity|exact HA1].
        * rewrite (peek_cons d HD _ _ _ HA1). cbv beta iota. cbn [opt_is]. destruct (y =? q) eqn:Eyq.
          -- unfold bind. rewrite (skip_cons d HD _ _ _ HA1). cbv beta iota.
             destruct (IH q (buf ++ [c]) (multi || (c =? 10)) _ _ (at_skip d HD _ _ _ HA1)) as [b' [m' [fd [st' [E Hm]]]]];
               [cbn [length] in Hf; lia|].
             exists b', m', fd, st'. split; [exact E|]. destruct (quoted_rest q r2) as [[a b]|]; exact Hm.
          -- exists buf, (multi || (c =? 10)), true, (skip_char st c). split; [reflexivity|]. split; [reflexivity|exact HA1].
      + destruct (IH q (buf ++ [c]) (multi || (c =? 10)) _ _ HA1) as [b' [m' [fd [st' [E Hm]]]]]; [lia|].
        exists b', m', fd, st'. split; [exact E|]. destruct (quoted_rest q r) as [[a b]|]; exact Hm.
  Qed.

  Lemma hex_letter_val : forall b, is_hex b = true -> is_digit b = false -> 10 <= hex_val b.
  Proof.
    intros b H1 H2. unfold hex_val. rewrite H2. unfold is_hex in H1. rewrite H2 in H1. cbn [orb] in H1.
    destruct (in_range 97 102 b) eqn:E; unfold in_range in *; lia.
  Qed.
  Lemma ident_char_split : forall b, ident_char b = is_hex b || (b =? 95) || is_alpha b.
  Proof.
    intro b. unfold ident_char, letter, lower_letter, upper_letter, digit, in_rng, is_hex, is_alpha, is_lower, is_upper,
      is_digit, in_range. lia.
  Qed.

  Lemma parse_integer_loop_flat : forall fuel base stp acc txt big inv st r, At st r -> (length r < fuel)%nat ->
    exists acc' big' inv' st',
      parse_integer_loop d fuel base stp acc txt big inv st
        = (Ok (acc', txt ++ fst (span (Qint stp) r), big', inv'), st') /\
      At st' (snd (span (Qint stp) r)) /\
      (big' = None -> inv' = None ->
       big = None /\ inv = None /\ (base = 10 -> forallb int_char (fst (span (Qint stp) r)) = true)).
  Proof.
    induction fuel as [|f IH]; intros base stp acc txt big inv st r HA Hf; [lia|]. cbn [parse_integer_loop]. unfold bind at 1.
    destruct r as [|c r].
    - rewrite (peek_nil d HD _ HA). cbv beta iota. exists acc, big, inv, st. cbn [span fst snd]. rewrite app_nil_r.
      split; [reflexivity|]. split; [exact HA|]. intros -> ->. auto.
    - rewrite (peek_cons d HD _ _ _ HA). cbv beta iota. rewrite span_cons. pose proof (at_skip d HD _ _ _ HA) as HA1. cbn [length] in Hf.
      assert (Hstop : Qint stp c = false ->
                exists acc' big' inv' st',
                  ret (acc, txt, big, inv) st = (Ok (acc', txt ++ fst (if Qint stp c then (c :: fst (span (Qint stp) r), snd (span (Qint stp) r)) else ([], c :: r)), big', inv'), st') /\
                  At st' (snd (if Qint stp c then (c :: fst (span (Qint stp) r), snd (span (Qint stp) r)) else ([], c :: r))) /\
                  (big' = None -> inv' = None -> big = None /\ inv = None /\
                   (base = 10 -> forallb int_char (fst (if Qint stp c then (c :: fst (span (Qint stp) r), snd (span (Qint stp) r)) else ([], c :: r))) = true))).
      { intro E. rewrite E. cbn [fst snd]. rewrite app_nil_r. exists acc, big, inv, st.
        split; [reflexivity|]. split; [exact HA|]. intros -> ->. auto. }
      assert (Hgo : forall a2 b2 i2, Qint stp c = true ->
                (b2 = None -> i2 = None -> big = None /\ inv = None /\ (base = 10 -> int_char c = true)) ->
                exists acc' big' inv' st',
                  (skip d ;;; parse_integer_loop d f base stp a2 (txt ++ [c]) b2 i2)%m st = (Ok (acc', txt ++ fst (if Qint stp c then (c :: fst (span (Qint stp) r), snd (span (Qint stp) r)) else ([], c :: r)), big', inv'), st') /\
                  At st' (snd (if Qint stp c then (c :: fst (span (Qint stp) r), snd (span (Qint stp) r)) else ([], c :: r))) /\
                  (big' = None -> inv' = None -> big = None /\ inv = None /\
                   (base = 10 -> forallb int_char (fst (if Qint stp c then (c :: fst (span (Qint stp) r), snd (span (Qint stp) r)) else ([], c :: r))) = true))).
      { intros a2 b2 i2 E Hc. rewrite E. cbn [fst snd]. unfold bind. rewrite (skip_cons d HD _ _ _ HA). cbv beta iota.
        destruct (IH base stp a2 (txt ++ [c]) b2 i2 _ _ HA1) as [acc' [big' [inv' [st' [El [HA' Hn]]]]]]; [lia|].
        exists acc', big', inv', st'. rewrite El, <- app_assoc. split; [reflexivity|]. split; [exact HA'|].
        intros Hb Hi. destruct (Hn Hb Hi) as [Hb2 [Hi2 Hall]]. destruct (Hc Hb2 Hi2) as [Hb0 [Hi0 Hc0]].
        split; [exact Hb0|]. split; [exact Hi0|]. intro E10. cbn [forallb]. rewrite (Hc0 E10), (Hall E10). reflexivity. }
      unfold Qint at 1 in Hstop. unfold Qint at 1 in Hgo. rewrite ident_char_split in Hstop, Hgo.
      destruct (stp && stop_suffix c); [apply Hstop; reflexivity|]. cbn [negb andb] in Hstop, Hgo.
      destruct (is_hex c) eqn:Eh.
      + unfold bind at 1, get_pos. cbv zeta. apply Hgo; [reflexivity|].
        intros Hb Hi. destruct (base <=? hex_val c) eqn:Eb; [discriminate|]. subst big.
        split; [reflexivity|]. split; [exact Hi|]. intro E10. subst base.
        destruct (is_digit c) eqn:Ed.
        * unfold int_char. change (digit c) with (is_digit c). rewrite Ed. reflexivity.
        * pose proof (hex_letter_val _ Eh Ed). lia.
      + cbn [orb] in Hstop, Hgo. destruct (c =? 95) eqn:E95.
        * apply Hgo; [reflexivity|]. intros Hb Hi. split; [exact Hb|]. split; [exact Hi|]. intros _.
          unfold int_char. rewrite E95. apply orb_true_r.
        * cbn [orb] in Hstop, Hgo. destruct (is_alpha c) eqn:Ea.
          -- unfold bind at 1, get_pos. apply Hgo; [reflexivity|]. intros _ Hi. discriminate.
          -- apply Hstop. reflexivity.
  Qed.

  Lemma real_loop_flat : forall fuel txt dg st r, At st r -> (length r < fuel)%nat ->
    exists st', real_loop d fuel txt dg st
                = (Ok (txt ++ map lowercase (fst (span Preal r)),
                       dg ++ filter (fun x => negb (x =? 95)) (map lowercase (fst (span Preal r)))), st') /\
                At st' (snd (span Preal r)).
  Proof.
    induction fuel as [|f IH]; intros txt dg st r HA Hf; [lia|]. cbn [real_loop]. unfold bind at 1.
    rewrite (peek_lowercase_flat d HD _ _ HA). cbv beta iota. destruct r as [|c r]; cbn [hd_error option_map].
    - exists st. cbn [span fst snd map filter]. rewrite !app_nil_r. split; [reflexivity|exact HA].
    - rewrite span_cons. pose proof (at_skip d HD _ _ _ HA) as HA1. cbn [length] in Hf.
      assert (EP : Preal c = negb (lowercase c =? 101) && (is_digit (lowercase c) || in_range 97 100 (lowercase c)
                 || (lowercase c =? 102) || (lowercase c =? 46) || (lowercase c =? 95))) by reflexivity.
      rewrite EP. clear EP.
      destruct (lowercase c =? 101) eqn:E101; cbn [negb andb].
      + exists st. cbn [fst snd map filter]. rewrite !app_nil_r. split; [reflexivity|exact HA].
      + destruct (is_digit (lowercase c) || in_range 97 100 (lowercase c) || (lowercase c =? 102) || (lowercase c =? 46)) eqn:E1;
          cbn [orb].
        * unfold bind. rewrite (skip_cons d HD _ _ _ HA). cbv beta iota.
          destruct (IH (txt ++ [lowercase c]) (dg ++ [lowercase c]) _ _ HA1) as [st' [E HA']]; [lia|].
          exists st'. rewrite E. cbn [fst snd map filter].
          replace (lowercase c =? 95) with false by (unfold is_digit, in_range in E1; lia). cbn [negb].
          rewrite <- !app_assoc. split; [reflexivity|exact HA'].
        * destruct (lowercase c =? 95) eqn:E95.
          -- unfold bind. rewrite (skip_cons d HD _ _ _ HA). cbv beta iota.
             destruct (IH (txt ++ [lowercase c]) dg _ _ HA1) as [st' [E HA']]; [lia|].
             exists st'. rewrite E. cbn [fst snd map filter]. rewrite E95. cbn [negb].
             rewrite <- !app_assoc. split; [reflexivity|exact HA'].
          -- exists st. cbn [fst snd map filter]. rewrite !app_nil_r. split; [reflexivity|exact HA].
  Qed.
End Loops.


(* ------------------------------------------------------------------------------------------ *)
(* 5. comments: get_leading_comments / get_trailing_comment skip what skip_gap skips            *)
(* ------------------------------------------------------------------------------------------ *)
Lemma is_prefix_app : forall p a b, is_prefix p a = true -> is_prefix p (a ++ b) = true.
Proof.
  induction p as [|x p IH]; intros a b H; [reflexivity|]. destruct a as [|y a]; [discriminate|].
  cbn [is_prefix app] in *. apply andb_true_iff in H. destruct H as [H1 H2]. rewrite H1, (IH _ _ H2). reflexivity.
Qed.
Lemma contains_prefix : forall p s, is_prefix p s = true -> contains p s = true.
Proof. intros p s H. destruct s; cbn [contains]; rewrite H; reflexivity. Qed.
Lemma contains_app_l : forall p a b, contains p a = true -> contains p (a ++ b) = true.
Proof.
  intros p a b. induction a as [|x a IH]; intro H.
  - cbn [contains] in H. rewrite orb_false_r in H. apply contains_prefix. apply (is_prefix_app p [] b H).
  - cbn [contains] in H. apply orb_true_iff in H. destruct H as [H|H].
    + apply contains_prefix. apply (is_prefix_app _ _ b H).
    + cbn [app contains]. rewrite (IH H). apply orb_true_r.
Qed.
Lemma contains_app_r : forall p a b, contains p b = true -> contains p (a ++ b) = true.
Proof. intros p a b H. induction a as [|x a IH]; [exact H|]. cbn [app contains]. rewrite IH. apply orb_true_r. Qed.
Lemma good_no_pragma_l : forall a b, good (a ++ b) = true -> contains VHDL_LS a = false.
Proof.
  intros a b H. destruct (contains VHDL_LS a) eqn:E; [|reflexivity]. apply (contains_app_l _ _ b) in E.
  unfold good in H. rewrite E in H. rewrite andb_false_r in H. discriminate.
Qed.

Lemma forall_snoc : forall (A : Type) (P : A -> Prop) l x, Forall P l -> P x -> Forall P (l ++ [x]).
Proof. intros A P l x H1 H2. apply Forall_app. split; [exact H1|constructor; [exact H2|constructor]]. Qed.

Definition nopragma (c : comment) : Prop := contains VHDL_LS (c_val c) = false.
(* where the tokenizer's comment reader stops *)
Definition lstop (r : list N) : Prop :=
  match r with
  | [] => True
  | c :: _ => wsP true c = false /\ starts2 r 45 45 = false /\ starts2 r 47 42 = false
  end.

Lemma gap_span_ws : forall nl r, gap r = gap (snd (span (wsP nl) r)).
Proof.
  intros nl r. induction r as [|c r IH]; [reflexivity|]. rewrite span_cons. destruct (wsP nl c) eqn:E; cbn [snd]; [|reflexivity].
  rewrite gap_sep; [exact IH|]. unfold wsP in E. unfold separator, in_rng. lia.
Qed.
Lemma lstop_gap : forall c r, lstop (c :: r) -> separator c = false -> gap (c :: r) = Some (c :: r).
Proof. intros c r [_ [H1 H2]] Hs. apply gap_stop; assumption. Qed.

Section Comments.
  Variable d : list (list char).
  Hypothesis HD : cdoc d.
  Variable F : nat.
  Hypothesis HF : (length (concat d) < F)%nat.
  Local Notation At := (At d).

  Lemma at_lt_F : forall st r, At st r -> (length r < F)%nat.
  Proof. intros st r H. pose proof (at_len d _ _ H). lia. Qed.

  Lemma parse_comment_flat : forall st r, At st r ->
    exists c st', parse_comment d F st = (Ok c, st') /\ At st' (drop_line r) /\ nopragma c.
  Proof.
    intros st r HA. unfold parse_comment. unfold bind at 1, get_pos. unfold bind at 1.
    destruct (take_to_nl_flat d HD F [] _ _ HA (at_lt_F _ _ HA)) as [st' [E HA']]. rewrite E. cbv beta iota.
    unfold bind, get_pos, ret. eexists _, st'. split; [reflexivity|].
    pose proof (at_good d _ _ HA) as HG.
    split.
    - rewrite (drop_line_span r (good_nocr _ HG)). exact HA'.
    - unfold nopragma. cbn [c_val app]. apply (good_no_pragma_l _ (snd (span notlf r))). rewrite <- span_app. exact HG.
  Qed.

  Lemma parse_ml_comment_flat : forall st r, At st r ->
    exists res st', parse_ml_comment d F st = (res, st') /\
      match drop_block r with
      | Some r' => exists c, res = Ok c /\ At st' r' /\ nopragma c
      | None => exists e, res = Er e
      end.
  Proof.
    intros st r HA. unfold parse_ml_comment. unfold bind at 1, get_pos. unfold bind at 1.
    destruct (ml_loop_flat d HD F [] _ _ HA (at_lt_F _ _ HA)) as [res [st' [E Hm]]]. rewrite E. cbv beta iota.
    unfold bind at 1, get_pos. destruct (drop_block r) as [r'|].
    - destruct Hm as [HA' [body [-> Er]]]. eexists _, st'. split; [reflexivity|]. eexists. split; [reflexivity|].
      split; [exact HA'|]. unfold nopragma. cbn [c_val app]. apply (good_no_pragma_l _ (42 :: 47 :: r')).
      pose proof (at_good d _ _ HA) as HG. rewrite Er in HG. exact HG.
    - subst res. eexists _, st'. split; [reflexivity|]. eexists. reflexivity.
  Qed.

  Lemma leading_comments_flat : forall fuel acc st r l st', At st r -> (length r < fuel)%nat -> Forall nopragma acc ->
    leading_comments d F fuel acc st = (Ok l, st') ->
    exists r', At st' r' /\ gap r = gap r' /\ lstop r' /\ Forall nopragma l.
  Proof.
    induction fuel as [|f IH]; intros acc st r l st' HA Hf Hacc H; [lia|]. cbn [leading_comments] in H.
    unfold bind at 1 in H.
    destruct (skip_ws_flat d HD F true _ _ HA (at_lt_F _ _ HA)) as [st1 [E HA1]]. rewrite E in H. cbv beta iota in H.
    unfold bind at 1, get_state in H. unfold bind at 1 in H.
    pose proof (gap_span_ws true r) as Hg. pose proof (span_length (wsP true) r) as Hl.
    remember (snd (span (wsP true) r)) as r1 eqn:Er1.
    assert (Hstop : forall x, (set_state st1 ;;; ret acc)%m x = (Ok l, st') -> r1 <> [] ->
              starts2 r1 45 45 = false -> starts2 r1 47 42 = false ->
              exists r', At st' r' /\ gap r = gap r' /\ lstop r' /\ Forall nopragma l).
    { intros x E2 Hne H1 H2. unfold bind, set_state, ret in E2. injection E2 as <- <-. exists r1.
      split; [exact HA1|]. split; [exact Hg|]. split; [|exact Hacc].
      destruct r1 as [|b r2]; [congruence|]. split; [|split; assumption]. eapply span_hd. symmetry. exact Er1. }
    destruct r1 as [|b r2].
    - rewrite (pop_nil d HD _ HA1) in H. unfold ret in H. injection H as <- <-. exists [].
      split; [exact HA1|]. split; [exact Hg|]. split; [exact I|exact Hacc].
    - rewrite (pop_cons d HD _ _ _ HA1) in H. cbv beta iota in H. pose proof (at_skip d HD _ _ _ HA1) as HA2.
      cbn [length] in Hl.
      destruct (b =? 47) eqn:E47.
      + apply N.eqb_eq in E47. subst b. unfold bind at 1 in H. destruct r2 as [|y r3].
        * rewrite (pop_nil d HD _ HA2) in H. cbv beta iota in H. cbn [opt_is] in H.
          eapply Hstop; [exact H|discriminate|reflexivity|reflexivity].
        * rewrite (pop_cons d HD _ _ _ HA2) in H. cbv beta iota in H. cbn [opt_is] in H.
          pose proof (at_skip d HD _ _ _ HA2) as HA3.
          destruct (y =? 42) eqn:E42.
          -- apply N.eqb_eq in E42. subst y. unfold bind at 1 in H.
             destruct (parse_ml_comment_flat _ _ HA3) as [res [st4 [E4 Hm]]]. rewrite E4 in H.
             rewrite gap_block in Hg. destruct (drop_block r3) as [r4|] eqn:Edb.
             ++ destruct Hm as [c [-> [HA4 Hc]]]. cbv beta iota in H. apply drop_block_length in Edb. cbn [length] in Hl.
                destruct (IH _ _ _ _ _ HA4 ltac:(lia) (forall_snoc _ _ _ _ Hacc Hc) H) as [r' [HA' [Hg' Hrest]]].
                exists r'. split; [exact HA'|]. split; [congruence|exact Hrest].
             ++ destruct Hm as [e ->]. discriminate.
          -- eapply Hstop; [exact H|discriminate|reflexivity|]. unfold starts2. rewrite E42. apply andb_false_r.
      + destruct (b =? 45) eqn:E45.
        * apply N.eqb_eq in E45. subst b. unfold bind at 1 in H. destruct r2 as [|y r3].
          -- rewrite (pop_nil d HD _ HA2) in H. cbv beta iota in H. cbn [opt_is] in H.
             eapply Hstop; [exact H|discriminate|reflexivity|reflexivity].
          -- rewrite (pop_cons d HD _ _ _ HA2) in H. cbv beta iota in H. cbn [opt_is] in H.
             pose proof (at_skip d HD _ _ _ HA2) as HA3.
             destruct (y =? 45) eqn:E45.
             ++ apply N.eqb_eq in E45. subst y. unfold bind at 1 in H.
                destruct (parse_comment_flat _ _ HA3) as [c [st4 [E4 [HA4 Hc]]]]. rewrite E4 in H. cbv beta iota in H.
                rewrite gap_line in Hg. pose proof (drop_line_length r3). cbn [length] in Hl.
                destruct (IH _ _ _ _ _ HA4 ltac:(lia) (forall_snoc _ _ _ _ Hacc Hc) H) as [r' [HA' [Hg' Hrest]]].
                exists r'. split; [exact HA'|]. split; [congruence|exact Hrest].
             ++ eapply Hstop; [exact H|discriminate| |reflexivity]. unfold starts2. rewrite E45. apply andb_false_r.
        * eapply Hstop; [exact H|discriminate| |]; unfold starts2; destruct r2; try reflexivity.
          -- rewrite E45. reflexivity.
          -- rewrite E47. reflexivity.
  Qed.

  Lemma trailing_comment_flat : forall st r tr st', At st r -> trailing_comment d F st = (Ok tr, st') ->
    exists r', At st' r' /\ gap r = gap r'.
  Proof.
    intros st r tr st' HA H. unfold trailing_comment in H. unfold bind at 1 in H.
    destruct (skip_ws_flat d HD F false _ _ HA (at_lt_F _ _ HA)) as [st1 [E HA1]]. rewrite E in H. cbv beta iota in H.
    unfold bind at 1, get_state in H. unfold bind at 1 in H.
    pose proof (gap_span_ws false r) as Hg. remember (snd (span (wsP false) r)) as r1 eqn:Er1.
    assert (Hstop : forall x, (set_state st1 ;;; ret (@None comment))%m x = (Ok tr, st') ->
              exists r', At st' r' /\ gap r = gap r').
    { intros x E2. unfold bind, set_state, ret in E2. injection E2 as <- <-. exists r1. split; [exact HA1|exact Hg]. }
    destruct r1 as [|b r2].
    - rewrite (pop_nil d HD _ HA1) in H. cbv beta iota in H. cbn [opt_is] in H. eapply Hstop; exact H.
    - rewrite (pop_cons d HD _ _ _ HA1) in H. cbv beta iota in H. cbn [opt_is] in H.
      pose proof (at_skip d HD _ _ _ HA1) as HA2.
      destruct (b =? 45) eqn:E45; [|eapply Hstop; exact H]. apply N.eqb_eq in E45. subst b.
      unfold bind at 1 in H. destruct r2 as [|y r3].
      + rewrite (pop_nil d HD _ HA2) in H. cbv beta iota in H. cbn [opt_is] in H. eapply Hstop; exact H.
      + rewrite (pop_cons d HD _ _ _ HA2) in H. cbv beta iota in H. cbn [opt_is] in H.
        pose proof (at_skip d HD _ _ _ HA2) as HA3.
        destruct (y =? 45) eqn:E45; [|eapply Hstop; exact H]. apply N.eqb_eq in E45. subst y.
        unfold bind at 1 in H. destruct (parse_comment_flat _ _ HA3) as [c [st4 [E4 [HA4 Hc]]]]. rewrite E4 in H.
        cbv beta iota in H. unfold ret in H. injection H as _ <-. exists (drop_line r3). split; [exact HA4|].
        rewrite Hg. apply gap_line.
  Qed.
End Comments.


(* ------------------------------------------------------------------------------------------ *)
(* 6. the pieces of a token                                                                     *)
(* ------------------------------------------------------------------------------------------ *)
Lemma lc_eq : forall c t, 97 <= t <= 122 -> (lowercase c =? t) = (to_lower c =? t).
Proof.
  intros c t. unfold lowercase, to_lower, upper_letter, in_range, in_rng.
  destruct (c =? 215) eqn:E1;
    destruct ((65 <=? c) && (c <=? 90) || (192 <=? c) && (c <=? 214) || (216 <=? c) && (c <=? 222)) eqn:E2;
    destruct ((65 <=? c) && (c <=? 90)) eqn:E3; lia.
Qed.
Lemma bs1_lc : forall a, bs1 a = (lowercase a =? 98) || (lowercase a =? 111) || (lowercase a =? 120) || (lowercase a =? 100).
Proof. intro a. unfold bs1. cbv zeta. rewrite !lc_eq by lia. reflexivity. Qed.
Lemma bs2a_lc : forall a, bs2a a = (lowercase a =? 117) || (lowercase a =? 115).
Proof. intro a. unfold bs2a. cbv zeta. rewrite !lc_eq by lia. reflexivity. Qed.
Lemma bs2b_lc : forall a, bs2b a = (lowercase a =? 98) || (lowercase a =? 111) || (lowercase a =? 120).
Proof. intro a. unfold bs2b. cbv zeta. rewrite !lc_eq by lia. reflexivity. Qed.
Lemma lowercase_small : forall c, c < 65 \/ 91 <= c < 192 -> lowercase c = c.
Proof.
  intros c H. unfold lowercase, in_range.
  destruct (c =? 215); [reflexivity|].
  destruct ((65 <=? c) && (c <=? 90) || (192 <=? c) && (c <=? 214) || (216 <=? c) && (c <=? 222)) eqn:E; [lia|reflexivity].
Qed.
Lemma int_char_lowercase : forall c, int_char c = true -> lowercase c = c.
Proof. intros c H. apply lowercase_small. unfold int_char, digit, in_rng in H. lia. Qed.
Lemma int_char_Preal : forall c, int_char c = true -> Preal c = true.
Proof.
  intros c H. unfold Preal. cbv zeta. rewrite (int_char_lowercase c H).
  unfold int_char, digit, in_rng in H. unfold is_digit, in_range. lia.
Qed.
Lemma int_char_ident : forall c, int_char c = true -> ident_char c = true.
Proof. intros c H. unfold int_char in H. unfold ident_char. lia. Qed.

(* the part of an exponent after its letter *)
Definition exp_tail (r : list N) : list N * list N :=
  let '(sg, r1) := match r with
                   | x :: r' => if is_sign x then ([x], r') else ([], r)
                   | [] => ([], r)
                   end in
  let '(dd, r2) := span int_char r1 in (sg ++ dd, r2).
Lemma exponent_e : forall e r, LexGrammar.is_e e = true ->
  exponent (e :: r) = (e :: fst (exp_tail r), snd (exp_tail r)).
Proof.
  intros e r H. unfold exponent, exp_tail. rewrite H.
  destruct r as [|x r']; [cbn [span]; reflexivity|].
  destruct (is_sign x); destruct (span int_char _); reflexivity.
Qed.
Lemma exponent_not_e : forall s, match s with e :: _ => LexGrammar.is_e e = false | [] => True end -> exponent s = ([], s).
Proof. intros [|e r] H; [reflexivity|]. unfold exponent. rewrite H. reflexivity. Qed.

Definition ndots (l : list N) : nat := length (filter (fun c => c =? 46) l).

Lemma real_span : forall s,
  forallb (fun c => int_char c || (c =? 46)) (fst (span Preal s)) = true ->
  (ndots (fst (span Preal s)) <= 1)%nat ->
  match snd (span int_char s) with
  | x :: r1 => if x =? 46
               then span Preal s = (fst (span int_char s) ++ 46 :: fst (span int_char r1), snd (span int_char r1))
               else span Preal s = span int_char s
  | [] => span Preal s = span int_char s
  end.
Proof.
  induction s as [|c s IH]; intros Hall Hd; [reflexivity|].
  rewrite (span_cons int_char). rewrite (span_cons Preal) in Hall, Hd. rewrite (span_cons Preal).
  destruct (int_char c) eqn:Ei.
  - rewrite (int_char_Preal c Ei) in *. cbn [fst snd forallb] in *. apply andb_true_iff in Hall. destruct Hall as [_ Hall].
    assert (Hd' : (ndots (fst (span Preal s)) <= 1)%nat).
    { unfold ndots in *. cbn [filter] in Hd. destruct (c =? 46); cbn [length] in Hd; lia. }
    specialize (IH Hall Hd'). destruct (snd (span int_char s)) as [|x r1] eqn:Es.
    + rewrite IH. cbn [fst snd]. rewrite Es. reflexivity.
    + destruct (x =? 46); rewrite IH; cbn [fst snd]; rewrite ?Es; reflexivity.
  - cbn [fst snd]. destruct (c =? 46) eqn:E46.
    + apply N.eqb_eq in E46. subst c. change (Preal 46) with true in *. cbn [fst snd forallb app] in *.
      assert (Hnd : ndots (fst (span Preal s)) = 0%nat).
      { unfold ndots in *. cbn [filter] in Hd. change (46 =? 46) with true in Hd. cbn [length] in Hd. lia. }
      apply andb_true_iff in Hall. destruct Hall as [_ Hall].
      assert (Hint : forallb int_char (fst (span Preal s)) = true).
      { revert Hall Hnd. generalize (fst (span Preal s)). induction l as [|y l IHl]; intros Ha Hn; [reflexivity|].
        cbn [forallb] in *. unfold ndots in *. cbn [filter] in Hn. apply andb_true_iff in Ha. destruct Ha as [Ha1 Ha2].
        destruct (y =? 46) eqn:Ey; [discriminate|]. rewrite orb_false_r in Ha1. rewrite Ha1, (IHl Ha2 Hn). reflexivity. }
      rewrite (span_refine Preal int_char s Hint int_char_Preal). reflexivity.
    + destruct (Preal c) eqn:EP; [|reflexivity]. cbn [fst forallb] in Hall. rewrite Ei, E46 in Hall. discriminate.
Qed.

Lemma filter_dots : forall l, filter (fun c => c =? 46) (filter (fun x => negb (x =? 95)) l) = filter (fun c => c =? 46) l.
Proof.
  induction l as [|x l IH]; [reflexivity|]. cbn [filter]. destruct (x =? 95) eqn:E; cbn [negb filter].
  - replace (x =? 46) with false by lia. exact IH.
  - destruct (x =? 46); rewrite IH; reflexivity.
Qed.



  Lemma span_int_of_Q : forall stp r, forallb int_char (fst (span (Qint stp) r)) = true ->
    (forall x, int_char x = true -> Qint stp x = true) -> span int_char r = span (Qint stp) r.
  Proof. intros stp r H1 H2. apply span_refine; assumption. Qed.
  Lemma int_char_Qfalse : forall x, int_char x = true -> Qint false x = true.
  Proof. intros x H. unfold Qint. cbn [andb negb]. apply int_char_ident. exact H. Qed.
  Lemma int_char_Qtrue : forall x, int_char x = true -> Qint true x = true.
  Proof.
    intros x H. unfold Qint. rewrite (int_char_ident x H). unfold int_char, digit, in_rng in H. unfold stop_suffix.
    cbn [andb]. lia.
  Qed.


Section Pieces.
  Variable d : list (list char).
  Hypothesis HD : cdoc d.
  Variable F : nat.
  Hypothesis HF : (length (concat d) < F)%nat.
  Local Notation At := (At d).

  Lemma parse_quoted_inv : forall q incl st r v st', At st r -> parse_quoted d F q incl st = (Ok v, st') ->
    exists body r', quoted_rest q r = Some (body, r') /\ At st' r'.
  Proof.
    intros q incl st r v st' HA H. unfold parse_quoted in H. unfold bind at 1, get_pos in H. unfold bind at 1, try in H.
    destruct (quoted_loop_flat d HD F q (if incl then [q] else []) false _ _ HA (at_lt_F d F HF _ _ HA))
      as [b' [m' [fd [st1 [E Hm]]]]].
    rewrite E in H. cbv beta iota in H. unfold bind at 1, get_pos in H.
    destruct (quoted_rest q r) as [[body r']|].
    - destruct Hm as [-> HA1]. cbn [negb] in H. exists body, r'. split; [reflexivity|].
      destruct m'; [discriminate|]. unfold ret in H. injection H as _ <-. exact HA1.
    - subst fd. discriminate.
  Qed.

  Lemma parse_base_specifier_flat : forall st r, At st r ->
    exists res st', parse_base_specifier d st = (Ok res, st') /\
      match base_spec_len r with
      | Some n => res <> None /\ At st' (skipn (S n) r)
      | None => res = None
      end.
  Proof.
    intros st r HA. unfold parse_base_specifier. unfold bind at 1. destruct r as [|a r1].
    - rewrite (pop_lowercase_nil d HD _ HA). exists None, st. split; reflexivity.
    - rewrite (pop_lowercase_cons d HD _ _ _ HA). cbv beta iota. pose proof (at_skip d HD _ _ _ HA) as HA1.
      (* the closing part: the quotation mark *)
      assert (Hq : forall (code : N) st2 r2, At st2 r2 ->
                exists res st3, (oq <- pop d ;; ret (if opt_is oq 34 then Some code else None))%m st2 = (Ok res, st3) /\
                  if hd_eq r2 34 then res = Some code /\ At st3 (tl r2) else res = None).
      { intros code st2 r2 HA2. unfold bind, ret. destruct r2 as [|y r3].
        - rewrite (pop_nil d HD _ HA2). cbn [opt_is hd_eq]. eexists _, _. split; reflexivity.
        - rewrite (pop_cons d HD _ _ _ HA2). cbn [opt_is hd_eq tl]. eexists _, _. split; [reflexivity|].
          destruct (y =? 34); [|reflexivity]. split; [reflexivity|apply (at_skip d HD _ _ _ HA2)]. }
      destruct r1 as [|b r2].
      + (* a single character *)
        replace (base_spec_len [a]) with (@None nat) by reflexivity.
        assert (Hs : forall off, bs_second d off (skip_char st a) = (Ok None, skip_char st a)).
        { intro off. unfold bs_second, bind, ret. rewrite (pop_lowercase_nil d HD _ HA1). reflexivity. }
        destruct (lowercase a =? 117); [unfold bind; rewrite Hs; eexists _, _; split; reflexivity|].
        destruct (lowercase a =? 115); [unfold bind; rewrite Hs; eexists _, _; split; reflexivity|].
        unfold bind at 1, ret at 1.
        destruct (if lowercase a =? 98 then Some 0 else if lowercase a =? 111 then Some 1
                  else if lowercase a =? 120 then Some 2 else if lowercase a =? 100 then Some 9 else None) as [code|].
        * destruct (Hq code _ _ HA1) as [res [st3 [E Hm]]]. rewrite E. cbn [hd_eq] in Hm. subst res.
          eexists _, _. split; reflexivity.
        * eexists _, _. split; reflexivity.
      + pose proof (at_skip d HD _ _ _ HA1) as HA2.
        unfold base_spec_len. rewrite bs1_lc, bs2a_lc, bs2b_lc.
        assert (Hs : forall off, exists res, bs_second d off (skip_char st a) = (Ok res, skip_char (skip_char st a) b) /\
                  (res <> None <-> (lowercase b =? 98) || (lowercase b =? 111) || (lowercase b =? 120) = true)).
        { intro off. unfold bs_second, bind, ret. rewrite (pop_lowercase_cons d HD _ _ _ HA1). eexists. split; [reflexivity|].
          destruct (lowercase b =? 98); [split; [reflexivity|discriminate]|].
          destruct (lowercase b =? 111); [split; [reflexivity|discriminate]|].
          destruct (lowercase b =? 120); [split; [reflexivity|discriminate]|].
          split; [congruence|discriminate]. }
        assert (Htwo : forall off, (lowercase a =? 117) || (lowercase a =? 115) = true ->
                  exists res st',
                    (ocode <- bs_second d off ;;
                     match ocode with
                     | None => ret None
                     | Some code => oq <- pop d ;; ret (if opt_is oq 34 then Some code else None)
                     end)%m (skip_char st a) = (Ok res, st') /\
                    match
                      (if ((lowercase a =? 98) || (lowercase a =? 111) || (lowercase a =? 120) || (lowercase a =? 100)) && (b =? 34)
                       then Some 1%nat
                       else if ((lowercase a =? 117) || (lowercase a =? 115)) &&
                               ((lowercase b =? 98) || (lowercase b =? 111) || (lowercase b =? 120)) &&
                               match r2 with c :: _ => c =? 34 | [] => false end
                            then Some 2%nat else None)
                    with
                    | Some n => res <> None /\ At st' (skipn (S n) (a :: b :: r2))
                    | None => res = None
                    end).
        { intros off Ha. replace ((lowercase a =? 98) || (lowercase a =? 111) || (lowercase a =? 120) || (lowercase a =? 100))
            with false by lia. rewrite Ha. cbn [andb].
          destruct (Hs off) as [res2 [E2 Hr2]]. unfold bind at 1. rewrite E2.
          destruct res2 as [code|].
          - replace ((lowercase b =? 98) || (lowercase b =? 111) || (lowercase b =? 120)) with true
              by (symmetry; apply Hr2; discriminate).
            destruct (Hq code _ _ HA2) as [res [st3 [E Hm]]]. rewrite E. exists res, st3. split; [reflexivity|].
            cbn [andb]. destruct r2 as [|y r3]; cbn [hd_eq tl] in Hm; [exact Hm|]. destruct (y =? 34); [|exact Hm].
            destruct Hm as [-> Hm]. split; [discriminate|exact Hm].
          - replace ((lowercase b =? 98) || (lowercase b =? 111) || (lowercase b =? 120)) with false.
            + eexists _, _. split; reflexivity.
            + symmetry. apply not_true_is_false. intro Hb. apply Hr2 in Hb. congruence. }
        destruct (lowercase a =? 117) eqn:E117; [apply Htwo; reflexivity|].
        destruct (lowercase a =? 115) eqn:E115; [apply Htwo; reflexivity|].
        cbn [orb andb]. unfold bind at 1, ret at 1.
        destruct (lowercase a =? 98) eqn:E98; [|destruct (lowercase a =? 111) eqn:E111;
          [|destruct (lowercase a =? 120) eqn:E120; [|destruct (lowercase a =? 100) eqn:E100]]]; cbn [orb andb].
        1-4: match goal with |- context [(oq <- pop d ;; ret (if opt_is oq 34 then Some ?code else None))%m] =>
               destruct (Hq code _ _ HA1) as [res [st3 [E Hm]]] end; rewrite E; exists res, st3; (split; [reflexivity|]);
             cbn [hd_eq tl] in Hm; destruct (b =? 34); [destruct Hm as [-> Hm]; split; [discriminate|exact Hm]|exact Hm].
        eexists _, _. split; reflexivity.
  Qed.

  Lemma parse_integer_flat : forall base stp st r, At st r ->
    exists res st', parse_integer d F base stp st = (res, st') /\ At st' (snd (span (Qint stp) r)) /\
      (forall a, res <> Ab a) /\
      (forall v t, res = Ok (v, t) -> t = fst (span (Qint stp) r) /\ (base = 10 -> forallb int_char t = true)).
  Proof.
    intros base stp st r HA. unfold parse_integer. unfold bind at 1, get_pos. unfold bind at 1.
    destruct (parse_integer_loop_flat d HD F base stp (Some 0) [] None None _ _ HA (at_lt_F d F HF _ _ HA))
      as [acc' [big' [inv' [st' [E [HA' Hn]]]]]].
    rewrite E. cbv beta iota. cbn [app]. destruct inv' as [p|].
    - eexists _, st'. split; [reflexivity|]. split; [exact HA'|]. split; [discriminate|]. intros v t Hv. discriminate.
    - destruct big' as [p|].
      + eexists _, st'. split; [reflexivity|]. split; [exact HA'|]. split; [discriminate|]. intros v t Hv. discriminate.
      + destruct (Hn eq_refl eq_refl) as [_ [_ Hall]]. destruct acc' as [v0|].
        * eexists _, st'. split; [reflexivity|]. split; [exact HA'|]. split; [discriminate|].
          intros v t Hv. injection Hv as <- <-. split; [reflexivity|exact Hall].
        * unfold bind, get_pos, throw. eexists _, st'. split; [reflexivity|]. split; [exact HA'|]. split; [discriminate|].
          intros v t Hv. discriminate.
  Qed.

  Lemma peek_flat : forall st r, At st r -> peek d st = (Ok (hd_error r), st).
  Proof. intros st [|c r] H; [apply (peek_nil d HD _ H)|apply (peek_cons d HD _ _ _ H)]. Qed.

  Definition sign_split (r : list N) : list N * list N :=
    match r with
    | x :: r' => if is_sign x then ([x], r') else ([], r)
    | [] => ([], r)
    end.
  Lemma exp_tail_eq : forall r,
    exp_tail r = (fst (sign_split r) ++ fst (span int_char (snd (sign_split r))), snd (span int_char (snd (sign_split r)))).
  Proof. intro r. unfold exp_tail. fold (sign_split r). destruct (sign_split r) as [sg r1]. cbn [fst snd]. destruct (span int_char r1); reflexivity. Qed.

  Lemma parse_exponent_inv : forall st r neg v t st', At st r -> parse_exponent d F st = (Ok (neg, v, t), st') ->
    t = fst (exp_tail r) /\ At st' (snd (exp_tail r)).
  Proof.
    intros st r neg v t st' HA H. unfold parse_exponent in H. unfold bind at 1, get_pos in H. unfold bind at 1 in H.
    rewrite (peek_flat _ _ HA) in H. cbv beta iota in H. unfold bind at 1 in H.
    assert (Hs : exists ng st1,
              (if opt_is (hd_error r) 45 then skip d ;;; ret (true, [45])
               else s <- skip_if d 43 ;; ret (false, if s then [43] else []))%m st = (Ok (ng, fst (sign_split r)), st1) /\
              At st1 (snd (sign_split r))).
    { destruct r as [|x r']; cbn [hd_error opt_is sign_split].
      - destruct (skip_if_flat d HD 43 _ _ HA) as [st1 [E HA1]]. unfold bind, ret. rewrite E. cbn [hd_eq] in *.
        eexists _, st1. split; [reflexivity|exact HA1].
      - unfold is_sign. destruct (x =? 45) eqn:E45.
        + unfold bind, ret. rewrite (skip_cons d HD _ _ _ HA). rewrite orb_true_r. cbn [fst snd].
          apply N.eqb_eq in E45. subst x. eexists _, _. split; [reflexivity|apply (at_skip d HD _ _ _ HA)].
        + destruct (skip_if_flat d HD 43 _ _ HA) as [st1 [E HA1]]. unfold bind, ret. rewrite E. cbn [hd_eq tl] in *.
          rewrite orb_false_r. destruct (x =? 43) eqn:E43; cbn [fst snd].
          * apply N.eqb_eq in E43. subst x. eexists _, st1. split; [reflexivity|exact HA1].
          * eexists _, st1. split; [reflexivity|exact HA1]. }
    destruct Hs as [ng [st1 [E HA1]]]. rewrite E in H. cbv beta iota in H. unfold bind at 1 in H.
    destruct (parse_integer_flat 10 false _ _ HA1) as [res [st2 [E2 [HA2 [_ Hok]]]]]. rewrite E2 in H.
    destruct res as [[v0 t0]|e|a]; try discriminate. cbv beta iota in H.
    destruct (Hok v0 t0 eq_refl) as [Et Hall]. specialize (Hall eq_refl).
    assert (Esp : span int_char (snd (sign_split r)) = span (Qint false) (snd (sign_split r))).
    { apply span_int_of_Q; [rewrite <- Et; exact Hall|exact int_char_Qfalse]. }
    rewrite exp_tail_eq, Esp. cbn [fst snd]. unfold bind at 1, get_pos in H.
    assert (Hfin : t = fst (sign_split r) ++ t0 /\ st' = st2).
    { destruct ng.
      - destruct (v0 <=? I32MAX + 1); [|discriminate]. unfold ret in H. injection H as _ _ <- <-. auto.
      - destruct (v0 <=? I32MAX); [|discriminate]. unfold ret in H. injection H as _ _ <- <-. auto. }
    destruct Hfin as [-> ->]. rewrite Et. split; [reflexivity|exact HA2].
  Qed.

  Lemma parse_real_literal_inv : forall st r txt st', At st r -> parse_real_literal d F st = (Ok txt, st') ->
    txt = fst (span Preal r) /\ At st' (snd (span Preal r)) /\
    forallb (fun c => int_char c || (c =? 46)) txt = true /\ (ndots txt <= 1)%nat.
  Proof.
    intros st r txt st' HA H. unfold parse_real_literal in H. unfold bind at 1, get_pos in H. unfold bind at 1 in H.
    destruct (real_loop_flat d HD F [] [] _ _ HA (at_lt_F d F HF _ _ HA)) as [st1 [E HA1]]. rewrite E in H.
    cbv beta iota in H. cbn [app] in H. unfold bind at 1, get_pos in H.
    destruct (f64_ok _) eqn:Ef; [|discriminate]. unfold ret in H. injection H as <- <-.
    unfold f64_ok in Ef. apply andb_true_iff in Ef. destruct Ef as [Ef _]. apply andb_true_iff in Ef. destruct Ef as [Ef1 Ef2].
    pose proof (f64_ok_identity _ Ef1) as Eid. rewrite Eid in *.
    split; [reflexivity|]. split; [exact HA1|]. split.
    - revert Ef1. generalize (fst (span Preal r)). induction l as [|x l IHl]; intro Hx; [reflexivity|].
      cbn [filter forallb] in *. destruct (x =? 95) eqn:E95; cbn [negb] in Hx.
      + rewrite (IHl Hx). unfold int_char. rewrite E95. rewrite orb_true_r. reflexivity.
      + cbn [forallb] in Hx. apply andb_true_iff in Hx. destruct Hx as [Hx1 Hx2]. rewrite (IHl Hx2).
        unfold int_char. change (digit x) with (is_digit x). rewrite andb_true_r. lia.
    - unfold ndots. rewrite filter_dots in Ef2. apply Nat.leb_le in Ef2. exact Ef2.
  Qed.

  (* a state strictly between two others *)
  Lemma at_between : forall a b c l1 l2 z, At a (l1 ++ l2 ++ z) -> At b (l2 ++ z) -> At c z ->
    adv d a b -> adv d a c -> l2 <> [] -> sadv d b c.
  Proof.
    intros a b c l1 l2 z HAa HAb HAc Aab Aac Hne.
    destruct (at_run d HD _ _ _ _ HAa HAb Aab) as [la [Ra Ea]].
    destruct (at_run d HD _ _ _ _ HAa HAc Aac) as [lc [Rc Ec]].
    assert (la = l1) by (apply (app_inv_tail (l2 ++ z)); symmetry; exact Ea). subst la.
    assert (lc = l1 ++ l2) by (rewrite app_assoc in Ec; apply app_inv_tail in Ec; congruence). subst lc.
    clear Ea Ec Aab Aac. revert a HAa Ra Rc. induction l1 as [|x l1 IH]; intros a HAa Ra Rc.
    - inversion Ra; subst. cbn [app] in Rc. destruct l2 as [|y l2]; [congruence|].
      pose proof (run_steps d _ _ _ Rc) as S. cbn [length] in S. exists (length l2). exact S.
    - cbn [app] in *. inversion Ra as [|x' l' s1 s2 G R']; subst. inversion Rc as [|x'' l'' s1' s2' G' R'']; subst.
      eapply IH; [apply (at_skip d HD _ _ _ HAa)|exact R'|exact R''].
  Qed.
End Pieces.


(* ------------------------------------------------------------------------------------------ *)
(* 7. abstract literals                                                                          *)
(* ------------------------------------------------------------------------------------------ *)
Lemma lc_eqb_small : forall c t, t < 65 \/ 91 <= t <= 96 -> (lowercase c =? t) = (c =? t).
Proof.
  intros c t H. unfold lowercase, in_range. destruct (c =? 215) eqn:E1; [reflexivity|].
  destruct ((65 <=? c) && (c <=? 90) || (192 <=? c) && (c <=? 214) || (216 <=? c) && (c <=? 222)) eqn:E2; lia.
Qed.
Lemma is_e_lc : forall c, LexGrammar.is_e c = (lowercase c =? 101).
Proof.
  intro c. rewrite lc_eq by lia. unfold LexGrammar.is_e, to_lower, upper_letter, in_rng.
  destruct ((65 <=? c) && (c <=? 90)) eqn:E; lia.
Qed.
Lemma bs_letter_lc : forall c, is_bs_letter (lowercase c) = bs1 c || bs2a c.
Proof. intro c. rewrite bs1_lc, bs2a_lc. unfold is_bs_letter. lia. Qed.
Lemma base_spec_len_none : forall c r, bs1 c = false -> bs2a c = false -> base_spec_len (c :: r) = None.
Proof. intros c r H1 H2. unfold base_spec_len. destruct r as [|b r]; [reflexivity|]. rewrite H1, H2. reflexivity. Qed.

Lemma span_sub : forall p p' s, (forall x, p x = true -> p' x = true) ->
  span p' s = (fst (span p s) ++ fst (span p' (snd (span p s))), snd (span p' (snd (span p s)))).
Proof.
  intros p p' s H. induction s as [|x s IH]; [reflexivity|]. rewrite (span_cons p). destruct (p x) eqn:E.
  - cbn [fst snd app]. rewrite (span_cons p'), (H x E), IH. reflexivity.
  - cbn [fst snd app]. apply span_pair.
Qed.
Lemma forallb_app_N : forall (f : N -> bool) a b, forallb f (a ++ b) = forallb f a && forallb f b.
Proof. intros f a b. induction a as [|x a IH]; [reflexivity|]. cbn [app forallb]. rewrite IH. apply andb_assoc. Qed.
Lemma forallb_mid_false : forall (f : N -> bool) a x b, f x = false -> forallb f (a ++ x :: b) = false.
Proof. intros f a x b H. rewrite forallb_app_N. cbn [forallb]. rewrite H. apply andb_false_r. Qed.

Lemma abstract_literal_unf : forall s i r, span int_char s = (i, r) ->
  abstract_literal s =
  match r with
  | [] => Some (i, r)
  | ch :: r1 =>
    if ch =? 46 then
      let '(f, r2) := span int_char r1 in
      let '(e, r3) := exponent r2 in Some (i ++ [46] ++ f ++ e, r3)
    else if (ch =? 35) || ((ch =? 58) && (match r1 with x :: _ => letter_or_digit x | [] => false end)) then
      match based_rest ch r1 with Some (t, r2) => Some (i ++ [ch] ++ t, r2) | None => None end
    else if LexGrammar.is_e ch then
      let '(e, r2) := exponent r in Some (i ++ e, r2)
    else Some (i, r)
  end.
Proof. intros s i r H. unfold abstract_literal. rewrite H. reflexivity. Qed.
Lemma number_unf : forall s t r, abstract_literal s = Some (t, r) ->
  number s = if forallb int_char t then
               match base_spec_len r with
               | Some n =>
                 match quoted_rest 34 (skipn (S n) r) with
                 | Some (body, r2) => Some (t ++ firstn (S n) r ++ body, r2)
                 | None => None
                 end
               | None => Some (t, r)
               end
             else Some (t, r).
Proof. intros s t r H. unfold number. rewrite H. reflexivity. Qed.

Lemma fix24_ok : forall (c : bool) (ini : (N * list N) + terr) st2 x st3,
  (if c then of_result ini ;;; ret tt else ret tt)%m st2 = (Ok x, st3) -> st3 = st2 /\ (c = true -> exists y, ini = inl y).
Proof.
  intros c ini st2 x st3 E. destruct c.
  - destruct ini as [y|e]; unfold bind, of_result, ret, throw in E; [|discriminate]. injection E as _ <-.
    split; [reflexivity|]. intros _. exists y. reflexivity.
  - unfold ret in E. injection E as _ <-. split; [reflexivity|discriminate].
Qed.

Section Literals.
  Variable d : list (list char).
  Hypothesis HD : cdoc d.
  Variable F : nat.
  Hypothesis HF : (length (concat d) < F)%nat.
  Local Notation At := (At d).

  (* the optional exponent after a real or based literal *)
  Lemma exp_after_e : forall st c r neg v t st', At st (c :: r) -> LexGrammar.is_e c = true ->
    parse_exponent d F (skip_char st c) = (Ok (neg, v, t), st') ->
    At st' (snd (exponent (c :: r))).
  Proof.
    intros st c r neg v t st' HA He H. rewrite (exponent_e c r He). cbn [snd].
    eapply parse_exponent_inv; [exact HD|exact HF|apply (at_skip d HD _ _ _ HA)|exact H].
  Qed.

  Lemma abs_real_spec : forall st0 s ini st1 k v st' b s',
    s = b :: s' -> digit b = true ->
    At st0 s -> At st1 (snd (span (Qint true) s)) -> adv d st0 st1 ->
    (forall iv it, ini = inl (iv, it) -> it = fst (span (Qint true) s) /\ forallb int_char it = true) ->
    (exists r1, snd (span (Qint true) s) = 46 :: r1) ->
    abs_real d F st0 (r_pos st1) ini st1 = (Ok (k, v), st') ->
    exists t r', abstract_literal s = Some (t, r') /\ forallb int_char t = false /\ At st' r' /\ k = KAbstractLiteral.
  Proof.
    intros st0 s ini st1 k v st' b s' Es Hb HA0 HA1 A01 Hini [q1 Hq] H.
    unfold abs_real, abs_real_gen in H. unfold bind at 1, set_state in H. unfold bind at 1 in H.
    destruct (parse_real_literal d F st0) as [[txt|e|a] st2] eqn:PR; try discriminate.
    assert (A02 : adv d st0 st2).
    { eapply (advO_advs d); [intro o; apply advO_parse_real_literal|exact PR]. }
    destruct (parse_real_literal_inv d HD F HF _ _ _ _ HA0 PR) as [Et [HA2 [Hall Hnd]]].
    unfold bind at 1, get_pos in H. unfold bind at 1 in H.
    pose proof (real_span s) as RS. rewrite <- Et in RS. specialize (RS Hall Hnd).
    pose proof (span_pair int_char s) as Ei.
    remember (fst (span int_char s)) as i eqn:Eqi. remember (snd (span int_char s)) as r eqn:Eqr.
    assert (Hreal : forall r1, r = 46 :: r1 ->
              exists t r', abstract_literal s = Some (t, r') /\ forallb int_char t = false /\ At st' r' /\ k = KAbstractLiteral).
    { intros r1 Er. rewrite Er in RS. change (46 =? 46) with true in RS. cbv iota in RS.
      rewrite RS in HA2. cbn [snd] in HA2.
      destruct ((if true && plt (r_pos st2) (r_pos st1) then of_result ini ;;; ret tt else ret tt)%m st2) as [[x|e|a] st3] eqn:EC;
        try discriminate.
      destruct (fix24_ok _ _ _ _ _ EC) as [E3 _]. subst st3. unfold bind at 1 in H. rewrite (peek_flat d HD _ _ HA2) in H. cbv beta iota in H.
      rewrite (abstract_literal_unf s i r Ei), Er. change (46 =? 46) with true. cbv iota.
      rewrite (span_pair int_char r1). remember (snd (span int_char r1)) as r2 eqn:Er2.
      remember (fst (span int_char r1)) as f eqn:Ef.
      assert (Hstop : ret (lit_real txt) st2 = (Ok (k, v), st') -> exponent r2 = ([], r2) ->
                exists t r', (let '(e, r3) := exponent r2 in Some (i ++ [46] ++ f ++ e, r3)) = Some (t, r') /\
                             forallb int_char t = false /\ At st' r' /\ k = KAbstractLiteral).
      { intros E Ee. unfold ret, lit_real in E. injection E as <- _ <-. rewrite Ee. eexists _, _. split; [reflexivity|].
        split; [apply forallb_mid_false; reflexivity|]. split; [exact HA2|reflexivity]. }
      destruct r2 as [|c r3]; cbn [hd_error] in H; [apply Hstop; [exact H|reflexivity]|].
      destruct (LangLexer.is_e c) eqn:Ee; [|apply Hstop; [exact H|apply exponent_not_e; exact Ee]].
      unfold bind at 1 in H. rewrite (skip_cons d HD _ _ _ HA2) in H. cbv beta iota in H. unfold bind at 1 in H.
      destruct (parse_exponent d F (skip_char st2 c)) as [[[[ng ev] et]|e|a] st4] eqn:PE; try discriminate.
      unfold ret, lit_real in H. injection H as <- _ <-.
      pose proof (exp_after_e _ _ _ _ _ _ _ HA2 Ee PE) as HA4.
      destruct (exponent (c :: r3)) as [e r4]. cbn [snd] in HA4. eexists _, _. split; [reflexivity|].
      split; [apply forallb_mid_false; reflexivity|]. split; [exact HA4|reflexivity]. }
    destruct r as [|x r1].
    - (* the integer scan consumed more than the integer: contradiction *)
      exfalso. rewrite (span_sub int_char (Qint true) s int_char_Qtrue) in Hq. rewrite <- Eqr in Hq. cbn [span snd] in Hq. discriminate.
    - destruct (x =? 46) eqn:E46; [apply N.eqb_eq in E46; subst x; apply (Hreal r1 eq_refl)|].
      exfalso. rewrite RS in HA2. rewrite <- Eqr in HA2. cbn [snd] in HA2.
      pose proof (span_sub int_char (Qint true) s int_char_Qtrue) as ES. rewrite <- Eqi, <- Eqr in ES.
      remember (fst (span (Qint true) (x :: r1))) as q2 eqn:Eq2. remember (snd (span (Qint true) (x :: r1))) as qr eqn:Eqr2.
      pose proof (span_app (Qint true) (x :: r1)) as Eapp. rewrite <- Eq2, <- Eqr2 in Eapp.
      rewrite ES in HA1, Hq, Hini. cbn [fst snd] in HA1, Hq, Hini.
      destruct q2 as [|y q2'].
      + cbn [app] in Eapp. rewrite <- Eapp in Hq. injection Hq as Hx _. rewrite Hx in E46. discriminate.
      + cbn [app] in Eapp. injection Eapp as <- Er1.
        assert (Hnx : int_char x = false) by (eapply span_hd; symmetry; exact Eqr).
        assert (Einr : exists e, ini = inr e).
        { destruct ini as [[iv it]|e]; [|exists e; reflexivity]. exfalso. destruct (Hini iv it eq_refl) as [-> Hall2].
          rewrite forallb_app_N in Hall2. cbn [forallb] in Hall2. rewrite Hnx in Hall2. cbn [andb] in Hall2.
          rewrite andb_false_r in Hall2. discriminate. }
        destruct Einr as [e ->].
        assert (S21 : sadv d st2 st1).
        { pose proof (span_app int_char s) as Es2. rewrite <- Eqi, <- Eqr in Es2. rewrite Er1 in Es2, HA2.
          apply (at_between d HD st0 st2 st1 i (x :: q2') qr); [|exact HA2|exact HA1|exact A02|exact A01|discriminate].
          rewrite Es2 in HA0. exact HA0. }
        rewrite (sadv_plt d _ _ S21) in H. cbn [andb] in H. unfold bind at 1, of_result, throw in H. discriminate.
  Qed.

  Lemma span_Qfalse : forall r, span (Qint false) r = span ident_char r.
  Proof. intro r. apply span_ext. intro x. reflexivity. Qed.

  Lemma try_parse_integer_at : forall base stp st r x st', At st r ->
    try (parse_integer d F base stp) st = (Ok x, st') -> At st' (snd (span (Qint stp) r)).
  Proof.
    intros base stp st r x st' HA T. unfold try in T.
    destruct (parse_integer_flat d HD F HF base stp _ _ HA) as [res [st2 [E [HA2 _]]]]. rewrite E in T.
    destruct res; try discriminate; injection T as _ <-; exact HA2.
  Qed.

  Definition frac_split (rb : list N) : list N * list N :=
    match rb with
    | d0 :: rb' => if d0 =? 46 then let '(b2, r') := span ident_char rb' in (46 :: b2, r') else ([], rb)
    | [] => ([], rb)
    end.
  Lemma based_rest_unf : forall ch s,
    based_rest ch s =
    let '(b, r1) := span ident_char s in
    let '(fr, r2) := frac_split r1 in
    match r2 with
    | x :: r3 => if x =? ch then let '(e, r4) := exponent r3 in Some (b ++ fr ++ [ch] ++ e, r4) else None
    | [] => None
    end.
  Proof. reflexivity. Qed.

  Lemma based_frac : forall base st3 rb (fres : option ((N * list N) + terr)) st4, At st3 rb ->
    (if opt_is (hd_error rb) 46 then skip d ;;; r <- try (parse_integer d F base false) ;; ret (Some r)
     else ret None)%m st3 = (Ok fres, st4) ->
    At st4 (snd (frac_split rb)).
  Proof.
    intros base st3 rb fres st4 HA FR. destruct rb as [|d0 rb']; cbn [hd_error opt_is frac_split] in *.
    - unfold ret in FR. injection FR as _ <-. exact HA.
    - destruct (d0 =? 46).
      + bok FR u st5 S. rewrite (skip_cons d HD _ _ _ HA) in S. injection S as _ <-.
        bok FR r st6 T2. unfold ret in FR. injection FR as _ <-.
        rewrite (span_pair ident_char rb'). cbn [snd]. rewrite <- span_Qfalse.
        eapply try_parse_integer_at; [apply (at_skip d HD _ _ _ HA)|exact T2].
      + unfold ret in FR. injection FR as _ <-. exact HA.
  Qed.

  Lemma colon_starts_flat : forall st r1, At st (58 :: r1) ->
    colon_starts_based_literal d st = (Ok (match r1 with x :: _ => letter_or_digit x | [] => false end), st).
  Proof.
    intros st r1 HA. unfold colon_starts_based_literal, colon_lookahead, bind, try.
    rewrite (skip_cons d HD _ _ _ HA). rewrite (peek_flat d HD _ _ (at_skip d HD _ _ _ HA)).
    destruct r1 as [|x r2]; reflexivity.
  Qed.

  Lemma abs_based_spec : forall dl p0 pai ini st1 r1 k v st', At st1 (dl :: r1) ->
    abs_based d F dl p0 pai ini st1 = (Ok (k, v), st') ->
    exists t r', based_rest dl r1 = Some (t, r') /\ At st' r' /\ k = KAbstractLiteral.
  Proof.
    intros dl p0 pai ini st1 r1 k v st' HA1 H. unfold abs_based in H.
    bok H x st2 OR. destruct x as [base bt]. destruct (of_result_ok _ _ _ _ _ OR) as [-> ->].
    bok H u st2 S. rewrite (skip_cons d HD _ _ _ HA1) in S. injection S as _ <-.
    pose proof (at_skip d HD _ _ _ HA1) as HA2.
    bok H bres st3 T1. pose proof (try_parse_integer_at _ _ _ _ _ _ HA2 T1) as HA3. rewrite span_Qfalse in HA3.
    bok H op st4 P1. rewrite (peek_flat d HD _ _ HA3) in P1. injection P1 as <- <-.
    bok H fres st4 FR. pose proof (based_frac _ _ _ _ _ HA3 FR) as HA4.
    bok H op2 st5 P2. rewrite (peek_flat d HD _ _ HA4) in P2. injection P2 as <- <-.
    rewrite based_rest_unf. rewrite (span_pair ident_char r1). rewrite (surjective_pairing (frac_split _)).
    destruct (snd (frac_split (snd (span ident_char r1)))) as [|x2 r3]; cbn [hd_error opt_is] in H;
      [bok H e st6 GP; discriminate|].
    destruct (x2 =? dl) eqn:E35; [|bok H e st6 GP; discriminate]. apply N.eqb_eq in E35. subst x2.
    bok H u2 st5 S2. rewrite (skip_cons d HD _ _ _ HA4) in S2. injection S2 as _ <-.
    pose proof (at_skip d HD _ _ _ HA4) as HA5.
    bok H y st6 OR2. destruct y as [iv it]. destruct (of_result_ok _ _ _ _ _ OR2) as [-> ->].
    bok H ftxt st6 FT.
    assert (st6 = skip_char st4 dl).
    { destruct fres as [r|].
      - bok FT z st7 OR3. destruct z as [fv ft]. destruct (of_result_ok _ _ _ _ _ OR3) as [_ ->].
        unfold ret in FT. injection FT as _ <-. reflexivity.
      - unfold ret in FT. injection FT as _ <-. reflexivity. }
    subst st6. cbv zeta in H. destruct (negb (in_range 2 16 base)); [discriminate|].
    bok H op3 st7 P3. rewrite (peek_flat d HD _ _ HA5) in P3. injection P3 as <- <-.
    bok H oexp st7 OE.
    assert (HA7 : At st7 (snd (exponent r3))).
    { destruct r3 as [|c r4]; cbn [hd_error] in OE.
      - unfold ret in OE. injection OE as _ <-. exact HA5.
      - destruct (LangLexer.is_e c) eqn:Ee.
        + bok OE u4 st8 S4. rewrite (skip_cons d HD _ _ _ HA5) in S4. injection S4 as _ <-.
          bok OE x st8 PE. destruct x as [[neg ev] et]. unfold ret in OE. injection OE as _ <-.
          eapply exp_after_e; [exact HA5|exact Ee|exact PE].
        + unfold ret in OE. injection OE as _ <-. rewrite (exponent_not_e (c :: r4) Ee). exact HA5. }
    assert (Hfin : st' = st7 /\ k = KAbstractLiteral).
    { destruct ftxt as [ft|].
      - unfold ret, lit_real in H. injection H as <- _ <-. auto.
      - destruct oexp as [[c [[neg ev] et]]|].
        + bok H e st8 GP. unfold get_pos in GP. injection GP as _ <-.
          destruct (exp_is_neg neg ev); [discriminate|]. destruct (ev <=? 64); [|discriminate].
          destruct ((base ^ ev <? TWO64) && (base ^ ev * iv <? TWO64)); [|discriminate].
          unfold ret, lit_int in H. injection H as <- _ <-. auto.
        + unfold ret, lit_int in H. injection H as <- _ <-. auto. }
    destruct Hfin as [-> ->]. cbv iota.
    destruct (exponent r3) as [e r4]. cbn [snd] in HA7. eexists _, _. split; [reflexivity|]. split; [exact HA7|reflexivity].
  Qed.

  Lemma parse_bit_string_inv : forall base len col st r k v st', At st r ->
    parse_bit_string d F base len col st = (Ok (k, v), st') ->
    exists body r', quoted_rest 34 r = Some (body, r') /\ At st' r' /\ k = KBitString.
  Proof.
    intros base len col st r k v st' HA H. unfold parse_bit_string in H.
    bok H q st1 PQ. bok H p st2 GP. unfold get_pos in GP. injection GP as _ <-.
    destruct (parse_quoted_inv d HD F HF _ _ _ _ _ _ HA PQ) as [body [r' [E HA']]].
    destruct (value_at d _ _ _); [|discriminate]. unfold ret in H. injection H as <- _ <-.
    exists body, r'. auto.
  Qed.

  Lemma parse_abstract_literal_spec : forall st s b s' k v st', At st s -> s = b :: s' -> digit b = true ->
    parse_abstract_literal d F st = (Ok (k, v), st') ->
    exists t r', number s = Some (t, r') /\ At st' r' /\ (k = KAbstractLiteral \/ k = KBitString).
  Proof.
    intros st s b s' k v st' HA Es Hb H. unfold parse_abstract_literal in H.
    bok H st0 st1 GS. unfold get_state in GS. injection GS as <- <-.
    bok H ini st1 T.
    assert (A01 : adv d st st1).
    { eapply (advO_advs d); [intro o; apply advO_try, advO_parse_integer|exact T]. }
    pose proof (try_parse_integer_at _ _ _ _ _ _ HA T) as HA1.
    assert (Hini : forall iv it, ini = inl (iv, it) -> it = fst (span (Qint true) s) /\ forallb int_char it = true).
    { intros iv it ->. apply try_ok_inl in T.
      destruct (parse_integer_flat d HD F HF 10 true _ _ HA) as [res [st2 [E [_ [_ Hok]]]]]. rewrite E in T. injection T as -> _.
      destruct (Hok iv it eq_refl) as [E1 E2]. split; [exact E1|apply E2; reflexivity]. }
    (* when the integer scan succeeded it read exactly the integer *)
    assert (Hsp : forall iv it, ini = inl (iv, it) -> span int_char s = span (Qint true) s /\ it = fst (span int_char s)).
    { intros iv it E. destruct (Hini iv it E) as [E1 E2]. subst it.
      pose proof (span_int_of_Q true s E2 int_char_Qtrue) as E3. rewrite E3. auto. }
    assert (Hi : forallb int_char (fst (span int_char s)) = true) by apply span_all.
    assert (Hne : fst (span int_char s) <> []).
    { rewrite Es, span_cons. unfold int_char. rewrite Hb. cbn [orb fst]. discriminate. }
    bok H pai st2 GP. unfold get_pos in GP. injection GP as <- <-.
    bok H onx st2 PL. rewrite (peek_lowercase_flat d HD _ _ HA1) in PL. injection PL as <- <-.
    (* plain integer *)
    assert (Hplain : forall r, snd (span (Qint true) s) = r ->
              match r with
              | c0 :: r1 => (c0 =? 46) = false /\ (c0 =? 35) = false /\ LexGrammar.is_e c0 = false /\
                            bs1 c0 = false /\ bs2a c0 = false /\
                            (c0 =? 58) && (match r1 with x :: _ => letter_or_digit x | [] => false end) = false
              | [] => True
              end ->
              abs_plain ini st1 = (Ok (k, v), st') ->
              exists t r', number s = Some (t, r') /\ At st' r' /\ (k = KAbstractLiteral \/ k = KBitString)).
    { intros r Er Hc E. unfold abs_plain in E. bok E x st3 OR. destruct x as [iv it].
      destruct (of_result_ok _ _ _ _ _ OR) as [-> ->]. unfold ret, lit_int in E. injection E as <- _ <-.
      destruct (Hsp iv it eq_refl) as [E1 E2]. rewrite <- E1 in Er, HA1.
      assert (Eal : abstract_literal s = Some (fst (span int_char s), r)).
      { rewrite (abstract_literal_unf s _ _ (span_pair int_char s)), Er. destruct r as [|c0 r1]; [reflexivity|].
        destruct Hc as [H1 [H2 [H3 [H4 [H5 H6]]]]]. rewrite H1, H2, H3, H6. reflexivity. }
      rewrite (number_unf s _ _ Eal), Hi.
      assert (Ebs : base_spec_len r = None).
      { destruct r as [|c0 r1]; [reflexivity|]. apply base_spec_len_none; tauto. }
      rewrite Ebs. eexists _, _. split; [reflexivity|]. rewrite Er in HA1. split; [exact HA1|left; reflexivity]. }
    remember (snd (span (Qint true) s)) as qr eqn:Eqr. destruct qr as [|c0 r1]; cbn [hd_error option_map] in H.
    { eapply Hplain; [reflexivity|exact I|exact H]. }
    destruct (lowercase c0 =? 46) eqn:L46.
    { (* real literal *)
      rewrite lc_eqb_small in L46 by lia. apply N.eqb_eq in L46. subst c0. rewrite Eqr in HA1.
      destruct (abs_real_spec _ _ _ _ _ _ _ _ _ Es Hb HA HA1 A01 Hini (ex_intro _ r1 (eq_sym Eqr)) H) as [t [r' [E1 [E2 [E3 E4]]]]].
      exists t, r'. rewrite (number_unf s _ _ E1), E2. split; [reflexivity|]. split; [exact E3|left; exact E4]. }
    destruct (lowercase c0 =? 101) eqn:L101.
    { (* integer with exponent *)
      unfold abs_int_exp in H. bok H x st3 OR. destruct x as [iv it]. destruct (of_result_ok _ _ _ _ _ OR) as [-> ->].
      destruct (Hsp iv it eq_refl) as [E1 E2]. rewrite <- E1 in Eqr.
      bok H r st3 TP. unfold try in TP. rewrite (peek_flat d HD _ _ HA1) in TP. injection TP as <- <-. cbn [hd_error] in H.
      bok H u st3 S. rewrite (skip_cons d HD _ _ _ HA1) in S. injection S as _ <-.
      bok H x st4 PE. destruct x as [[neg ev] et]. bok H e st5 GP. unfold get_pos in GP. injection GP as _ <-.
      assert (He : LexGrammar.is_e c0 = true) by (rewrite is_e_lc; exact L101).
      pose proof (exp_after_e _ _ _ _ _ _ _ HA1 He PE) as HA4.
      assert (Hfin : st' = st4 /\ k = KAbstractLiteral).
      { destruct (exp_is_neg neg ev); [discriminate|]. destruct (ev <=? 19); [|discriminate].
        destruct ((10 ^ ev <? TWO64) && (10 ^ ev * iv <? TWO64)); [|discriminate].
        unfold ret, lit_int in H. injection H as <- _ <-. auto. }
      destruct Hfin as [-> ->].
      assert (Eal : abstract_literal s = Some (fst (span int_char s) ++ fst (exponent (c0 :: r1)), snd (exponent (c0 :: r1)))).
      { rewrite (abstract_literal_unf s _ _ (span_pair int_char s)), <- Eqr.
        rewrite <- (lc_eqb_small c0 46) by lia. rewrite L46.
        replace (c0 =? 35) with false by (unfold LexGrammar.is_e in He; lia).
        replace (c0 =? 58) with false by (unfold LexGrammar.is_e in He; lia). cbn [orb andb]. rewrite He.
        destruct (exponent (c0 :: r1)); reflexivity. }
      rewrite (number_unf s _ _ Eal).
      assert (Enot : forallb int_char (fst (span int_char s) ++ fst (exponent (c0 :: r1))) = false).
      { rewrite (exponent_e c0 r1 He). cbn [fst]. apply forallb_mid_false. unfold LexGrammar.is_e in He.
        unfold int_char, digit, in_rng. lia. }
      rewrite Enot. eexists _, _. split; [reflexivity|]. split; [exact HA4|left; reflexivity]. }
    assert (Hbased : forall dl, c0 = dl -> dl = 35 \/ dl = 58 ->
              (dl =? 35) || (dl =? 58) && (match r1 with x :: _ => letter_or_digit x | [] => false end) = true ->
              abs_based d F dl (r_pos st) (r_pos st1) ini st1 = (Ok (k, v), st') ->
              exists t r', number s = Some (t, r') /\ At st' r' /\ (k = KAbstractLiteral \/ k = KBitString)).
    { intros dl -> Hdl Hcond HB.
      assert (Ei : exists iv it, ini = inl (iv, it)).
      { destruct ini as [[iv it]|e]; [eauto|]. unfold abs_based in HB. bok HB x st3 OR. discriminate. }
      destruct Ei as [iv [it ->]]. destruct (Hsp iv it eq_refl) as [E1 E2]. rewrite <- E1 in Eqr.
      destruct (abs_based_spec _ _ _ _ _ _ _ _ _ HA1 HB) as [t [r' [Eb [HA' ->]]]].
      assert (Eal : abstract_literal s = Some (fst (span int_char s) ++ dl :: t, r')).
      { rewrite (abstract_literal_unf s _ _ (span_pair int_char s)), <- Eqr.
        replace (dl =? 46) with false by (destruct Hdl; subst dl; reflexivity). rewrite Hcond, Eb. reflexivity. }
      rewrite (number_unf s _ _ Eal).
      rewrite (forallb_mid_false int_char (fst (span int_char s)) dl t) by (destruct Hdl; subst dl; reflexivity).
      eexists _, _. split; [reflexivity|]. split; [exact HA'|left; reflexivity]. }
    destruct (lowercase c0 =? 35) eqn:L35.
    { (* based literal *)
      rewrite lc_eqb_small in L35 by lia. apply N.eqb_eq in L35.
      eapply (Hbased 35 L35); [left; reflexivity|reflexivity|exact H]. }
    assert (Hc46 : (c0 =? 46) = false) by (rewrite <- (lc_eqb_small c0 46) by lia; exact L46).
    assert (Hc35 : (c0 =? 35) = false) by (rewrite <- (lc_eqb_small c0 35) by lia; exact L35).
    assert (Hce : LexGrammar.is_e c0 = false) by (rewrite is_e_lc; exact L101).
    destruct (lowercase c0 =? 58) eqn:L58.
    { (* ':' : a based literal when a letter or digit follows *)
      rewrite lc_eqb_small in L58 by lia. apply N.eqb_eq in L58.
      bok H bb st3 CS. rewrite L58 in HA1. rewrite (colon_starts_flat _ _ HA1) in CS. injection CS as <- <-.
      destruct (match r1 with x :: _ => letter_or_digit x | [] => false end) eqn:Elod.
      - eapply (Hbased 58 L58); [right; reflexivity|reflexivity|exact H].
      - eapply Hplain; [reflexivity| |exact H]. subst c0. rewrite Elod. repeat split; reflexivity. }
    assert (Hc58 : (c0 =? 58) = false) by (rewrite <- (lc_eqb_small c0 58) by lia; exact L58).
    destruct (is_bs_letter (lowercase c0)) eqn:Lbs.
    { (* bit string with length *)
      unfold abs_bit_string in H. bok H x st3 OR. destruct x as [iv it]. destruct (of_result_ok _ _ _ _ _ OR) as [-> ->].
      destruct (Hsp iv it eq_refl) as [E1 E2]. rewrite <- E1 in Eqr.
      bok H obs st3 PB. destruct obs as [bs|]; [|bok H e st4 GP; discriminate].
      destruct (parse_base_specifier_flat d HD F HF _ _ HA1) as [res [st3' [E Hm]]]. rewrite E in PB. injection PB as -> <-.
      assert (Eal : abstract_literal s = Some (fst (span int_char s), c0 :: r1)).
      { rewrite (abstract_literal_unf s _ _ (span_pair int_char s)), <- Eqr. rewrite Hc46, Hc35, Hce. cbn [orb].
        rewrite Hc58. reflexivity. }
      rewrite (number_unf s _ _ Eal), Hi.
      destruct (base_spec_len (c0 :: r1)) as [n|]; [|discriminate]. destruct Hm as [_ HA3].
      destruct (parse_bit_string_inv _ _ _ _ _ _ _ _ HA3 H) as [body [r' [Eq [HA' ->]]]]. rewrite Eq.
      eexists _, _. split; [reflexivity|]. split; [exact HA'|right; reflexivity]. }
    eapply Hplain; [reflexivity| |exact H]. rewrite bs_letter_lc in Lbs. apply orb_false_iff in Lbs. cbv beta iota. rewrite Hc58. tauto.
  Qed.
End Literals.


(* ------------------------------------------------------------------------------------------ *)
(* 8. parse_token against lexeme_step                                                           *)
(* ------------------------------------------------------------------------------------------ *)
Lemma ls_58 : forall kws prev r,
  lexeme_step kws prev (58 :: r) = if hd_eq r 61 then delim 2 (58 :: r) else delim 1 (58 :: r).
Proof. reflexivity. Qed.
Lemma ls_61 : forall kws prev r,
  lexeme_step kws prev (61 :: r) = if hd_eq r 62 then delim 2 (61 :: r) else delim 1 (61 :: r).
Proof. reflexivity. Qed.
Lemma ls_60 : forall kws prev r,
  lexeme_step kws prev (60 :: r) = if hd_eq r 61 || hd_eq r 62 || hd_eq r 60 then delim 2 (60 :: r) else delim 1 (60 :: r).
Proof. reflexivity. Qed.
Lemma ls_62 : forall kws prev r,
  lexeme_step kws prev (62 :: r) = if hd_eq r 61 || hd_eq r 62 then delim 2 (62 :: r) else delim 1 (62 :: r).
Proof. reflexivity. Qed.
Lemma ls_47 : forall kws prev r,
  lexeme_step kws prev (47 :: r) = if hd_eq r 61 then delim 2 (47 :: r) else delim 1 (47 :: r).
Proof. reflexivity. Qed.
Lemma ls_42 : forall kws prev r,
  lexeme_step kws prev (42 :: r) = if hd_eq r 42 then delim 2 (42 :: r) else delim 1 (42 :: r).
Proof. reflexivity. Qed.
Lemma ls_63 : forall kws prev r,
  lexeme_step kws prev (63 :: r) =
  if hd_eq r 63 || hd_eq r 61 then delim 2 (63 :: r)
  else if hd_eq r 47 then (if snd_eq r 61 then delim 3 (63 :: r) else delim 1 (63 :: r))
  else if hd_eq r 60 || hd_eq r 62 then (if snd_eq r 61 then delim 3 (63 :: r) else delim 2 (63 :: r))
  else delim 1 (63 :: r).
Proof. reflexivity. Qed.
Lemma ls_39 : forall kws prev r,
  lexeme_step kws prev (39 :: r) = if can_char prev && snd_eq r 39 then delim 3 (39 :: r) else delim 1 (39 :: r).
Proof. reflexivity. Qed.
Lemma ls_34 : forall kws prev r,
  lexeme_step kws prev (34 :: r) =
  match quoted_rest 34 r with Some (b, r') => Some (34 :: b, r', AfterOther) | None => None end.
Proof. reflexivity. Qed.
Lemma ls_92 : forall kws prev r,
  lexeme_step kws prev (92 :: r) =
  match quoted_rest 92 r with Some (b, r') => Some (92 :: b, r', AfterName) | None => None end.
Proof. reflexivity. Qed.

Lemma opt_is_hd : forall r c, opt_is (hd_error r) c = hd_eq r c.
Proof. intros [|x r] c; reflexivity. Qed.
Lemma hd_eq_tl : forall r c, hd_eq (tl r) c = snd_eq r c.
Proof. intros [|x [|y r]] c; reflexivity. Qed.

Lemma skipn2_tl : forall (r : list N), skipn 2 r = tl (tl r).
Proof. intros [|x [|y r]]; reflexivity. Qed.
Local Ltac fin H := first [exact H | rewrite ?skipn_cons, ?skipn2_tl; exact H].

Lemma list_eqb_refl : forall a, list_eqb a a = true.
Proof. induction a as [|x a IH]; [reflexivity|]. cbn [list_eqb]. rewrite N.eqb_refl, IH. reflexivity. Qed.
Lemma list_eqb_true : forall a b, list_eqb a b = true -> a = b.
Proof.
  induction a as [|x a IH]; intros [|y b] H; cbn [list_eqb] in H; try discriminate; [reflexivity|].
  apply andb_true_iff in H. destruct H as [H1 H2]. apply N.eqb_eq in H1. subst y. f_equal. apply IH. exact H2.
Qed.
Lemma leqb_list_eqb : forall a b, leqb a b = list_eqb a b.
Proof.
  intros a b. unfold leqb. destruct (list_eq_dec N.eq_dec a b) as [->|Hn].
  - symmetry. apply list_eqb_refl.
  - destruct (list_eqb a b) eqn:E; [|reflexivity]. exfalso. apply Hn. apply list_eqb_true. exact E.
Qed.
Lemma existsb_leqb : forall l kws, existsb (leqb l) kws = existsb (list_eqb l) kws.
Proof. intros l kws. induction kws as [|k kws IH]; [reflexivity|]. cbn [existsb]. rewrite leqb_list_eqb, IH. reflexivity. Qed.
Lemma map_lower_ident : forall t, forallb ident_char t = true -> map lowercase t = map to_lower t.
Proof.
  induction t as [|c t IH]; intro H; [reflexivity|]. cbn [forallb] in H. apply andb_true_iff in H. destruct H as [H1 H2].
  cbn [map]. rewrite (IH H2). f_equal.
  unfold ident_char, letter, lower_letter, upper_letter, digit, in_rng in H1.
  unfold lowercase, to_lower, upper_letter, in_range, in_rng.
  destruct (c =? 215) eqn:E1; [lia|].
  destruct ((65 <=? c) && (c <=? 90) || (192 <=? c) && (c <=? 214) || (216 <=? c) && (c <=? 222)) eqn:E2;
    destruct ((65 <=? c) && (c <=? 90)) eqn:E3; lia.
Qed.
Lemma ident_after_ok : forall kws t, forallb ident_char t = true ->
  can_be_char (Some (fst (insert_or_keyword kws t))) = can_char (ident_after kws t).
Proof.
  intros kws t H. unfold insert_or_keyword, ident_after. cbv zeta. rewrite (map_lower_ident t H), existsb_leqb.
  destruct (existsb (list_eqb (map to_lower t)) kws); cbn [fst can_be_char].
  - rewrite leqb_list_eqb. change LangLexer.KW_ALL with LexGrammar.KW_ALL.
    destruct (list_eqb (map to_lower t) LexGrammar.KW_ALL); reflexivity.
  - destruct (list_eqb (map to_lower t) KW_ALL); reflexivity.
Qed.
Lemma insert_not_grave : forall kws t, is_grave (fst (insert_or_keyword kws t)) = false.
Proof. intros kws t. unfold insert_or_keyword. destruct (existsb _ kws); reflexivity. Qed.

Section Token.
  Variable d : list (list char).
  Hypothesis HD : cdoc d.
  Variable kws : list (list N).
  Variable F : nat.
  Hypothesis HF : (length (concat d) < F)%nat.
  Local Notation At := (At d).

  Lemma simple_inv : forall K st k v w st', simple K st = (Ok (Some (k, v, w)), st') -> k = K /\ st' = st.
  Proof. intros K st k v w st' H. unfold simple, ret in H. injection H as <- _ _ <-. auto. Qed.

  Lemma two_inv : forall c k2 k1 st r k v w st', At st r -> two d c k2 k1 st = (Ok (Some (k, v, w)), st') ->
    (hd_eq r c = true /\ k = k2 /\ At st' (tl r)) \/ (hd_eq r c = false /\ k = k1 /\ At st' r).
  Proof.
    intros c k2 k1 st r k v w st' HA H. unfold two in H. bok H s st1 SI.
    destruct (skip_if_flat d HD c _ _ HA) as [st2 [E HA2]]. rewrite E in SI. injection SI as <- <-.
    destruct (hd_eq r c); destruct (simple_inv _ _ _ _ _ _ H) as [-> ->]; [left|right]; auto.
  Qed.
  Lemma skip_simple_inv : forall K c st r k v w st', At st r -> hd_eq r c = true ->
    (skip d ;;; simple K)%m st = (Ok (Some (k, v, w)), st') -> k = K /\ At st' (tl r).
  Proof.
    intros K c st r k v w st' HA Hh H. destruct r as [|y r']; [discriminate|].
    bok H u st1 S. rewrite (skip_cons d HD _ _ _ HA) in S. injection S as _ <-.
    destruct (simple_inv _ _ _ _ _ _ H) as [-> ->]. split; [reflexivity|apply (at_skip d HD _ _ _ HA)].
  Qed.
  Lemma skip_two_inv : forall c0 c k2 k1 st r k v w st', At st r -> hd_eq r c0 = true ->
    (skip d ;;; two d c k2 k1)%m st = (Ok (Some (k, v, w)), st') ->
    (snd_eq r c = true /\ k = k2 /\ At st' (tl (tl r))) \/ (snd_eq r c = false /\ k = k1 /\ At st' (tl r)).
  Proof.
    intros c0 c k2 k1 st r k v w st' HA Hh H. destruct r as [|y r']; [discriminate|].
    bok H u st1 S. rewrite (skip_cons d HD _ _ _ HA) in S. injection S as _ <-.
    rewrite <- hd_eq_tl. cbn [tl]. eapply two_inv; [apply (at_skip d HD _ _ _ HA)|exact H].
  Qed.

  Lemma parse_character_literal_flat : forall st r, At st r ->
    exists res st', parse_character_literal d st = (Ok res, st') /\
      if snd_eq r 39 then (exists c, res = Some (KCharacter, VChar c)) /\ At st' (tl (tl r))
      else res = None /\ st' = st.
  Proof.
    intros st r HA. unfold parse_character_literal, char_lookahead. unfold bind at 1. destruct r as [|c r'].
    - rewrite (pop_nil d HD _ HA). cbv beta iota. unfold ret. eexists _, _. split; [reflexivity|]. cbn [snd_eq]. auto.
    - rewrite (pop_cons d HD _ _ _ HA). cbv beta iota. pose proof (at_skip d HD _ _ _ HA) as HA1.
      destruct (skip_if_flat d HD 39 _ _ HA1) as [st2 [E HA2]]. unfold bind, ret. rewrite E.
      rewrite <- hd_eq_tl. cbn [tl]. destruct (hd_eq r' 39).
      + eexists _, _. split; [reflexivity|]. split; [eexists; reflexivity|exact HA2].
      + eexists _, _. split; [reflexivity|]. auto.
  Qed.

  Lemma validate_us : forall t, validate_basic_identifier (95 :: t) <> None.
  Proof. intro t. unfold validate_basic_identifier. change (is_alpha 95) with false. discriminate. Qed.

  Theorem parse_token_spec : forall start last prev st s1 k v st',
    At st s1 -> can_be_char last = can_char prev ->
    parse_token d kws F true start last st = (Ok (Some (k, v, None)), st') ->
    exists lexm rest a, lexeme_step kws prev s1 = Some (lexm, rest, a) /\ At st' rest /\
                        can_be_char (Some k) = can_char a /\ is_grave k = false.
  Proof.
    intros start last prev st s1 k v st' HA Hcc H. unfold parse_token in H.
    bok H ob st1 P. rewrite (peek_flat d HD _ _ HA) in P. injection P as <- <-.
    destruct s1 as [|b r]; cbn [hd_error] in H; [unfold ret in H; discriminate|].
    pose proof (at_skip d HD _ _ _ HA) as HA1.
    destruct (is_alpha b || (b =? 95)) eqn:Ea.
    - (* identifier, keyword or bit string *)
      bok H s0 st1 GS. unfold get_state in GS. injection GS as <- <-.
      bok H obs st2 MB. unfold maybe_base_specifier in MB.
      destruct (parse_base_specifier_flat d HD F HF _ _ HA) as [res [st3 [E Hm]]]. rewrite E in MB.
      destruct (base_spec_len (b :: r)) as [n|] eqn:Ebs.
      + destruct Hm as [Hres HA3]. destruct res as [bs|]; [|congruence]. injection MB as <- <-.
        unfold lift_kv in H. bok H kv st4 PBS. destruct kv as [k0 v0]. unfold ret in H. cbn [fst snd] in H.
        injection H as <- <- <-.
        destruct (parse_bit_string_inv d HD F HF _ _ _ _ _ _ _ _ HA3 PBS) as [body [r' [Eq [HA' ->]]]].
        assert (Hl : letter b = true).
        { change (letter b) with (is_alpha b). destruct (is_alpha b); [reflexivity|]. cbn [orb] in Ea.
          apply N.eqb_eq in Ea. subst b. rewrite base_spec_len_none in Ebs by reflexivity. discriminate. }
        unfold lexeme_step. rewrite Hl, Ebs, Eq. eexists _, _, _. split; [reflexivity|]. split; [exact HA'|].
        split; reflexivity.
      + subst res. injection MB as <- <-.
        bok H x st6 PI. destruct x as [kv w0]. unfold ret in H. injection H as <- <- Hw <-.
        unfold parse_basic_identifier_or_keyword in PI. bok PI t st4 IL. unfold ret in PI. injection PI as <- <- <-.
        destruct (ident_loop_flat d HD F [] _ _ HA (at_lt_F d F HF _ _ HA)) as [st5 [E5 HA5]]. rewrite app_nil_l in E5. rewrite E5 in IL.
        injection IL as <- <-.
        assert (Hl : letter b = true).
        { change (letter b) with (is_alpha b). destruct (is_alpha b); [reflexivity|]. cbn [orb] in Ea.
          apply N.eqb_eq in Ea. subst b. exfalso.
          change (validate_basic_identifier (fst (span ident_char (95 :: r))) = None) in Hw.
          rewrite span_cons in Hw. change (ident_char 95) with true in Hw.
          cbn [fst] in Hw. exact (validate_us _ Hw). }
        unfold lexeme_step. rewrite Hl, Ebs. rewrite (span_pair ident_char (b :: r)).
        eexists _, _, _. split; [reflexivity|]. split; [exact HA5|]. split.
        * apply ident_after_ok. apply span_all.
        * apply insert_not_grave.
    - apply orb_false_iff in Ea. destruct Ea as [Ea E95].
      destruct (is_digit b) eqn:Ed.
      + unfold lift_kv in H. bok H kv st1 PA. destruct kv as [k0 v0]. unfold ret in H. cbn [fst snd] in H.
        injection H as <- <- <-.
        destruct (parse_abstract_literal_spec d HD F HF _ _ _ _ _ _ _ HA eq_refl Ed PA) as [t [r' [En [HA' Hk]]]].
        unfold lexeme_step. change (letter b) with (is_alpha b). change (digit b) with (is_digit b). rewrite Ea, Ed, En.
        eexists _, _, _. split; [reflexivity|]. split; [exact HA'|]. destruct Hk as [->| ->]; split; reflexivity.
      + bok H u st1 S. rewrite (skip_cons d HD _ _ _ HA) in S. injection S as _ <-.
        destruct (b =? 58) eqn:E; [apply N.eqb_eq in E; subst b|clear E].
        { rewrite ls_58. destruct (two_inv _ _ _ _ _ _ _ _ _ HA1 H) as [[Eh [-> HA']]|[Eh [-> HA']]]; rewrite Eh;
            (eexists _, _, _; split; [reflexivity|]; split; [fin HA'|split; reflexivity]). }
        destruct (b =? 39) eqn:E; [apply N.eqb_eq in E; subst b|clear E].
        { rewrite ls_39, <- Hcc. destruct (can_be_char last); cbn [andb].
          - bok H oc st2 PC. destruct (parse_character_literal_flat _ _ HA1) as [res [st3 [E3 Hm]]]. rewrite E3 in PC.
            injection PC as <- <-. destruct (snd_eq r 39).
            + destruct Hm as [[c ->] HA3]. unfold ret in H. cbn [fst snd] in H. injection H as <- _ <-.
              eexists _, _, _. split; [reflexivity|]. split; [fin HA3|split; reflexivity].
            + destruct Hm as [-> ->]. destruct (simple_inv _ _ _ _ _ _ H) as [-> ->].
              eexists _, _, _. split; [reflexivity|]. split; [exact HA1|split; reflexivity].
          - destruct (simple_inv _ _ _ _ _ _ H) as [-> ->].
            eexists _, _, _. split; [reflexivity|]. split; [exact HA1|split; reflexivity]. }
        destruct (b =? 45) eqn:E; [apply N.eqb_eq in E; subst b|clear E].
        { destruct (simple_inv _ _ _ _ _ _ H) as [-> ->].
          eexists _, _, _. split; [reflexivity|]. split; [exact HA1|split; reflexivity]. }
        destruct (b =? 34) eqn:E; [apply N.eqb_eq in E; subst b|clear E].
        { bok H q st2 PQ. unfold ret in H. injection H as <- _ <-.
          destruct (parse_quoted_inv d HD F HF _ _ _ _ _ _ HA1 PQ) as [body [r' [Eq HA']]].
          rewrite ls_34, Eq. eexists _, _, _. split; [reflexivity|]. split; [fin HA'|split; reflexivity]. }
        destruct (b =? 59) eqn:E; [apply N.eqb_eq in E; subst b|clear E].
        { destruct (simple_inv _ _ _ _ _ _ H) as [-> ->].
          eexists _, _, _. split; [reflexivity|]. split; [exact HA1|split; reflexivity]. }
        destruct (b =? 40) eqn:E; [apply N.eqb_eq in E; subst b|clear E].
        { destruct (simple_inv _ _ _ _ _ _ H) as [-> ->].
          eexists _, _, _. split; [reflexivity|]. split; [exact HA1|split; reflexivity]. }
        destruct (b =? 41) eqn:E; [apply N.eqb_eq in E; subst b|clear E].
        { destruct (simple_inv _ _ _ _ _ _ H) as [-> ->].
          eexists _, _, _. split; [reflexivity|]. split; [exact HA1|split; reflexivity]. }
        destruct (b =? 43) eqn:E; [apply N.eqb_eq in E; subst b|clear E].
        { destruct (simple_inv _ _ _ _ _ _ H) as [-> ->].
          eexists _, _, _. split; [reflexivity|]. split; [exact HA1|split; reflexivity]. }
        destruct (b =? 46) eqn:E; [apply N.eqb_eq in E; subst b|clear E].
        { destruct (simple_inv _ _ _ _ _ _ H) as [-> ->].
          eexists _, _, _. split; [reflexivity|]. split; [exact HA1|split; reflexivity]. }
        destruct (b =? 38) eqn:E; [apply N.eqb_eq in E; subst b|clear E].
        { destruct (simple_inv _ _ _ _ _ _ H) as [-> ->].
          eexists _, _, _. split; [reflexivity|]. split; [exact HA1|split; reflexivity]. }
        destruct (b =? 44) eqn:E; [apply N.eqb_eq in E; subst b|clear E].
        { destruct (simple_inv _ _ _ _ _ _ H) as [-> ->].
          eexists _, _, _. split; [reflexivity|]. split; [exact HA1|split; reflexivity]. }
        destruct (b =? 61) eqn:E; [apply N.eqb_eq in E; subst b|clear E].
        { rewrite ls_61. destruct (two_inv _ _ _ _ _ _ _ _ _ HA1 H) as [[Eh [-> HA']]|[Eh [-> HA']]]; rewrite Eh;
            (eexists _, _, _; split; [reflexivity|]; split; [fin HA'|split; reflexivity]). }
        destruct (b =? 60) eqn:E; [apply N.eqb_eq in E; subst b|clear E].
        { rewrite ls_60. bok H o2 st2 P2. rewrite (peek_flat d HD _ _ HA1) in P2. injection P2 as <- <-.
          rewrite !opt_is_hd in H.
          destruct (hd_eq r 61) eqn:E1; cbn [orb].
          { destruct (skip_simple_inv _ _ _ _ _ _ _ _ HA1 E1 H) as [-> HA'].
            eexists _, _, _. split; [reflexivity|]. split; [fin HA'|split; reflexivity]. }
          destruct (hd_eq r 62) eqn:E2; cbn [orb].
          { destruct (skip_simple_inv _ _ _ _ _ _ _ _ HA1 E2 H) as [-> HA'].
            eexists _, _, _. split; [reflexivity|]. split; [fin HA'|split; reflexivity]. }
          destruct (hd_eq r 60) eqn:E3; cbn [orb].
          { destruct (skip_simple_inv _ _ _ _ _ _ _ _ HA1 E3 H) as [-> HA'].
            eexists _, _, _. split; [reflexivity|]. split; [fin HA'|split; reflexivity]. }
          destruct (simple_inv _ _ _ _ _ _ H) as [-> ->].
          eexists _, _, _. split; [reflexivity|]. split; [exact HA1|split; reflexivity]. }
        destruct (b =? 62) eqn:E; [apply N.eqb_eq in E; subst b|clear E].
        { rewrite ls_62. bok H o2 st2 P2. rewrite (peek_flat d HD _ _ HA1) in P2. injection P2 as <- <-.
          rewrite !opt_is_hd in H.
          destruct (hd_eq r 61) eqn:E1; cbn [orb].
          { destruct (skip_simple_inv _ _ _ _ _ _ _ _ HA1 E1 H) as [-> HA'].
            eexists _, _, _. split; [reflexivity|]. split; [fin HA'|split; reflexivity]. }
          destruct (hd_eq r 62) eqn:E2; cbn [orb].
          { destruct (skip_simple_inv _ _ _ _ _ _ _ _ HA1 E2 H) as [-> HA'].
            eexists _, _, _. split; [reflexivity|]. split; [fin HA'|split; reflexivity]. }
          destruct (simple_inv _ _ _ _ _ _ H) as [-> ->].
          eexists _, _, _. split; [reflexivity|]. split; [exact HA1|split; reflexivity]. }
        destruct (b =? 47) eqn:E; [apply N.eqb_eq in E; subst b|clear E].
        { rewrite ls_47. destruct (two_inv _ _ _ _ _ _ _ _ _ HA1 H) as [[Eh [-> HA']]|[Eh [-> HA']]]; rewrite Eh;
            (eexists _, _, _; split; [reflexivity|]; split; [fin HA'|split; reflexivity]). }
        destruct (b =? 42) eqn:E; [apply N.eqb_eq in E; subst b|clear E].
        { rewrite ls_42. destruct (two_inv _ _ _ _ _ _ _ _ _ HA1 H) as [[Eh [-> HA']]|[Eh [-> HA']]]; rewrite Eh;
            (eexists _, _, _; split; [reflexivity|]; split; [fin HA'|split; reflexivity]). }
        destruct (b =? 63) eqn:E; [apply N.eqb_eq in E; subst b|clear E].
        { rewrite ls_63. bok H o2 st2 P2. rewrite (peek_flat d HD _ _ HA1) in P2. injection P2 as <- <-.
          rewrite !opt_is_hd in H.
          destruct (hd_eq r 63) eqn:E1; cbn [orb].
          { destruct (skip_simple_inv _ _ _ _ _ _ _ _ HA1 E1 H) as [-> HA'].
            eexists _, _, _. split; [reflexivity|]. split; [fin HA'|split; reflexivity]. }
          destruct (hd_eq r 61) eqn:E2; cbn [orb].
          { destruct (skip_simple_inv _ _ _ _ _ _ _ _ HA1 E2 H) as [-> HA'].
            eexists _, _, _. split; [reflexivity|]. split; [fin HA'|split; reflexivity]. }
          destruct (hd_eq r 47) eqn:E3.
          { destruct r as [|y r']; [discriminate|].
            bok H u2 st2 S2. rewrite (skip_cons d HD _ _ _ HA1) in S2. injection S2 as _ <-.
            pose proof (at_skip d HD _ _ _ HA1) as HA2.
            bok H s st3 SI. destruct (skip_if_flat d HD 61 _ _ HA2) as [st4 [E4 HA4]]. rewrite E4 in SI. injection SI as <- <-.
            change (snd_eq (y :: r') 61) with (hd_eq r' 61). destruct (hd_eq r' 61).
            - destruct (simple_inv _ _ _ _ _ _ H) as [-> ->].
              eexists _, _, _. split; [reflexivity|]. split; [fin HA4|split; reflexivity].
            - unfold illegal in H. bok H e st5 GP. discriminate. }
          destruct (hd_eq r 60) eqn:E4; cbn [orb].
          { destruct (skip_two_inv _ _ _ _ _ _ _ _ _ _ HA1 E4 H) as [[Eh [-> HA']]|[Eh [-> HA']]]; rewrite Eh;
              (eexists _, _, _; split; [reflexivity|]; split; [fin HA'|split; reflexivity]). }
          destruct (hd_eq r 62) eqn:E5; cbn [orb].
          { destruct (skip_two_inv _ _ _ _ _ _ _ _ _ _ HA1 E5 H) as [[Eh [-> HA']]|[Eh [-> HA']]]; rewrite Eh;
              (eexists _, _, _; split; [reflexivity|]; split; [fin HA'|split; reflexivity]). }
          destruct (simple_inv _ _ _ _ _ _ H) as [-> ->].
          eexists _, _, _. split; [reflexivity|]. split; [exact HA1|split; reflexivity]. }
        destruct (b =? 94) eqn:E; [apply N.eqb_eq in E; subst b|clear E].
        { destruct (simple_inv _ _ _ _ _ _ H) as [-> ->].
          eexists _, _, _. split; [reflexivity|]. split; [exact HA1|split; reflexivity]. }
        destruct (b =? 64) eqn:E; [apply N.eqb_eq in E; subst b|clear E].
        { destruct (simple_inv _ _ _ _ _ _ H) as [-> ->].
          eexists _, _, _. split; [reflexivity|]. split; [exact HA1|split; reflexivity]. }
        destruct (b =? 124) eqn:E; [apply N.eqb_eq in E; subst b|clear E].
        { destruct (simple_inv _ _ _ _ _ _ H) as [-> ->].
          eexists _, _, _. split; [reflexivity|]. split; [exact HA1|split; reflexivity]. }
        destruct (b =? 91) eqn:E; [apply N.eqb_eq in E; subst b|clear E].
        { destruct (simple_inv _ _ _ _ _ _ H) as [-> ->].
          eexists _, _, _. split; [reflexivity|]. split; [exact HA1|split; reflexivity]. }
        destruct (b =? 93) eqn:E; [apply N.eqb_eq in E; subst b|clear E].
        { destruct (simple_inv _ _ _ _ _ _ H) as [-> ->].
          eexists _, _, _. split; [reflexivity|]. split; [exact HA1|split; reflexivity]. }
        destruct (b =? 92) eqn:E; [apply N.eqb_eq in E; subst b|clear E].
        { bok H q st2 PQ. unfold ret in H. injection H as <- _ <-.
          destruct (parse_quoted_inv d HD F HF _ _ _ _ _ _ HA1 PQ) as [body [r' [Eq HA']]].
          rewrite ls_92, Eq. eexists _, _, _. split; [reflexivity|]. split; [fin HA'|split; reflexivity]. }
        destruct (b =? 96) eqn:E.
        { exfalso. pose proof (at_good d _ _ HA) as HG. apply good_cons in HG. destruct HG as [HG _]. unfold chok in HG. lia. }
        unfold illegal in H. bok H e st4 GP. discriminate.
  Qed.
End Token.


(* ------------------------------------------------------------------------------------------ *)
(* 9. a lexeme of the reference splitter is a prefix of its input                               *)
(* ------------------------------------------------------------------------------------------ *)
Local Ltac nrm := repeat (rewrite <- app_assoc || rewrite <- app_comm_cons); cbn [app].

Lemma quoted_rest_app : forall q s a b, quoted_rest q s = Some (a, b) -> s = a ++ b.
Proof.
  intros q s. remember (length s) as n eqn:En. revert s En.
  induction n as [n IH] using lt_wf_ind. intros s En a b H. destruct s as [|x r]; [discriminate|].
  rewrite quoted_rest_cons in H. destruct (x =? q).
  - destruct r as [|y r2]; [injection H as <- <-; reflexivity|]. destruct (y =? q).
    + destruct (quoted_rest q r2) as [[a' b']|] eqn:E; [|discriminate]. injection H as <- <-.
      cbn [app]. f_equal. f_equal. eapply (IH (length r2)); [subst n; cbn [length]; lia|reflexivity|exact E].
    + injection H as <- <-. reflexivity.
  - destruct (quoted_rest q r) as [[a' b']|] eqn:E; [|discriminate]. injection H as <- <-.
    cbn [app]. f_equal. eapply (IH (length r)); [subst n; cbn [length]; lia|reflexivity|exact E].
Qed.
Lemma exponent_app : forall s, s = fst (exponent s) ++ snd (exponent s).
Proof.
  intros [|e r]; [reflexivity|]. destruct (LexGrammar.is_e e) eqn:E.
  - rewrite (exponent_e e r E). cbn [fst snd app]. f_equal. unfold exp_tail.
    destruct r as [|x r'].
    + cbn [span]. reflexivity.
    + destruct (is_sign x).
      * rewrite (span_pair int_char r'). cbn [fst snd app]. f_equal. apply span_app.
      * rewrite (span_pair int_char (x :: r')). cbn [fst snd app]. apply span_app.
  - rewrite (exponent_not_e (e :: r) E). reflexivity.
Qed.
Lemma based_rest_app : forall ch s t r, based_rest ch s = Some (t, r) -> s = t ++ r.
Proof.
  intros ch s t r H. unfold based_rest in H. rewrite (span_pair ident_char s) in H.
  rewrite (span_app ident_char s) at 1. remember (snd (span ident_char s)) as r1 eqn:E1.
  assert (Hf : forall fr r2, r1 = fr ++ r2 ->
            match r2 with
            | x :: r3 => if x =? ch then let '(e, r4) := exponent r3 in Some (fst (span ident_char s) ++ fr ++ [ch] ++ e, r4) else None
            | [] => None
            end = Some (t, r) -> fst (span ident_char s) ++ r1 = t ++ r).
  { intros fr r2 -> Hm. destruct r2 as [|x r3]; [discriminate|]. destruct (x =? ch) eqn:Ex; [|discriminate].
    apply N.eqb_eq in Ex. subst x. rewrite (surjective_pairing (exponent r3)) in Hm. injection Hm as <- <-.
    nrm. f_equal. f_equal. f_equal. apply exponent_app. }
  destruct r1 as [|d0 r1'].
  - apply (Hf [] []); [reflexivity|exact H].
  - destruct (d0 =? 46) eqn:E46.
    + apply N.eqb_eq in E46. subst d0. rewrite (span_pair ident_char r1') in H.
      apply (Hf (46 :: fst (span ident_char r1')) (snd (span ident_char r1'))); [|exact H].
      cbn [app]. f_equal. apply span_app.
    + apply (Hf [] (d0 :: r1')); [reflexivity|exact H].
Qed.
Lemma abstract_literal_app : forall s t r, abstract_literal s = Some (t, r) -> s = t ++ r.
Proof.
  intros s t r H. rewrite (abstract_literal_unf s _ _ (span_pair int_char s)) in H.
  rewrite (span_app int_char s) at 1. destruct (snd (span int_char s)) as [|ch r1].
  - injection H as <- <-. reflexivity.
  - destruct (ch =? 46) eqn:E46.
    + apply N.eqb_eq in E46. subst ch. rewrite (span_pair int_char r1) in H.
      rewrite (surjective_pairing (exponent _)) in H. injection H as <- <-.
      nrm. f_equal. f_equal.
      rewrite (span_app int_char r1) at 1. f_equal. apply exponent_app.
    + destruct ((ch =? 35) || (ch =? 58) && match r1 with x :: _ => letter_or_digit x | [] => false end).
      * destruct (based_rest ch r1) as [[t' r2]|] eqn:Eb; [|discriminate]. injection H as <- <-.
        nrm. f_equal. f_equal. eapply based_rest_app. exact Eb.
      * destruct (LexGrammar.is_e ch).
        -- rewrite (surjective_pairing (exponent _)) in H. injection H as <- <-. rewrite <- app_assoc. f_equal. apply exponent_app.
        -- injection H as <- <-. reflexivity.
Qed.
Lemma number_app : forall s t r, number s = Some (t, r) -> s = t ++ r.
Proof.
  intros s t r H. unfold number in H. destruct (abstract_literal s) as [[t0 r0]|] eqn:Ea; [|discriminate].
  apply abstract_literal_app in Ea. destruct (forallb int_char t0); [|injection H as <- <-; exact Ea].
  destruct (base_spec_len r0) as [n|]; [|injection H as <- <-; exact Ea].
  destruct (quoted_rest 34 (skipn (S n) r0)) as [[body r2]|] eqn:Eq; [|discriminate]. injection H as <- <-.
  apply quoted_rest_app in Eq. rewrite Ea. rewrite <- !app_assoc. f_equal. rewrite <- Eq.
  exact (eq_sym (firstn_skipn (S n) r0)).
Qed.
Lemma delim_app : forall n s t r a, delim n s = Some (t, r, a) -> s = t ++ r.
Proof. intros n s t r a H. unfold delim in H. injection H as <- <- _. symmetry. apply firstn_skipn. Qed.

Lemma lexeme_step_app : forall kws prev s t r a, lexeme_step kws prev s = Some (t, r, a) -> s = t ++ r.
Proof.
  intros kws prev s t r a H. unfold lexeme_step in H. destruct s as [|c r0]; [discriminate|].
  destruct (letter c).
  { destruct (base_spec_len (c :: r0)) as [n|].
    - destruct (quoted_rest 34 (skipn (S n) (c :: r0))) as [[body r2]|] eqn:Eq; [|discriminate]. injection H as <- <- _.
      apply quoted_rest_app in Eq.
      transitivity (firstn (S n) (c :: r0) ++ skipn (S n) (c :: r0)); [symmetry; apply firstn_skipn|].
      rewrite Eq, app_assoc. reflexivity.
    - rewrite (span_pair ident_char (c :: r0)) in H. injection H as <- <- _. exact (span_app ident_char (c :: r0)). }
  destruct (digit c).
  { destruct (number (c :: r0)) as [[t' r']|] eqn:En; [|discriminate]. injection H as <- <- _. apply number_app. exact En. }
  destruct (c =? 39). { destruct (can_char prev && snd_eq r0 39); eapply delim_app; exact H. }
  destruct (c =? 34).
  { destruct (quoted_rest 34 r0) as [[b r']|] eqn:Eq; [|discriminate]. injection H as <- <- _.
    cbn [app]. f_equal. apply quoted_rest_app in Eq. exact Eq. }
  destruct (c =? 92).
  { destruct (quoted_rest 92 r0) as [[b r']|] eqn:Eq; [|discriminate]. injection H as <- <- _.
    cbn [app]. f_equal. apply quoted_rest_app in Eq. exact Eq. }
  destruct (c =? 41). { injection H as <- <- _. reflexivity. }
  destruct (c =? 93). { injection H as <- <- _. reflexivity. }
  repeat match type of H with
         | (if ?b then _ else _) = _ => destruct b
         end; try discriminate; eapply delim_app; exact H.
Qed.

Lemma lexeme_step_not_sep : forall kws prev c r x, lexeme_step kws prev (c :: r) = Some x -> separator c = false.
Proof.
  intros kws prev c r x H. destruct (separator c) eqn:Es; [|reflexivity]. exfalso.
  assert (Hc : c = 32 \/ c = 160 \/ c = 9 \/ c = 10 \/ c = 11 \/ c = 12 \/ c = 13) by (unfold separator, in_rng in Es; lia).
  repeat (destruct Hc as [->|Hc]); try subst c; vm_compute in H; discriminate.
Qed.

(* ------------------------------------------------------------------------------------------ *)
(* 10. no `vhdl_ls off` comment                                                                  *)
(* ------------------------------------------------------------------------------------------ *)
Lemma trim_start_suffix : forall l, exists a, l = a ++ trim_start l.
Proof.
  induction l as [|c l [a IH]]; [exists []; reflexivity|]. cbn [trim_start]. destruct (is_ws c).
  - exists (c :: a). cbn [app]. f_equal. exact IH.
  - exists []. reflexivity.
Qed.
Lemma trim_sub : forall l, exists a b, l = a ++ trim l ++ b.
Proof.
  intro l. destruct (trim_start_suffix l) as [a Ea]. destruct (trim_start_suffix (rev (trim_start l))) as [a2 Ea2].
  exists a, (rev a2). unfold trim. rewrite Ea at 1. f_equal.
  rewrite <- rev_app_distr, <- Ea2, rev_involutive. reflexivity.
Qed.
Lemma leqb_true : forall a b, leqb a b = true -> a = b.
Proof. intros a b H. unfold leqb in H. destruct (list_eq_dec N.eq_dec a b); [assumption|discriminate]. Qed.
Lemma nopragma_not_off : forall c, nopragma c -> is_off c = false.
Proof.
  intros c H. destruct (is_off c) eqn:E; [|reflexivity]. exfalso. unfold is_off in E. apply leqb_true in E.
  destruct (trim_sub (c_val c)) as [a [b Eab]]. rewrite E in Eab. unfold nopragma in H. rewrite Eab in H.
  rewrite contains_app_r in H; [discriminate|]. apply contains_app_l. vm_compute. reflexivity.
Qed.
Lemma lead_start_nopragma : forall l, Forall nopragma l -> lead_start l = false.
Proof.
  induction 1 as [|c l Hc Hl IH]; [reflexivity|]. cbn [lead_start]. rewrite (nopragma_not_off c Hc). exact IH.
Qed.

(* parse_token returns Ok None only at the end of the text *)
Section NotNone.
  Variable d : list (list char).
  Definition nn (m : M (option tokv)) : Prop := forall st st', m st <> (Ok None, st').
  Lemma nn_bind : forall A (m : M A) k, (forall a, nn (k a)) -> nn (bind m k).
  Proof.
    intros A m k Hk st st' H. unfold bind in H. destruct (m st) as [[a|e|a] st1]; try discriminate. eapply Hk; exact H.
  Qed.
  Lemma nn_simple : forall K, nn (simple K).
  Proof. intros K st st' H. unfold simple, ret in H. discriminate. Qed.
  Lemma nn_two : forall c k2 k1, nn (two d c k2 k1).
  Proof. intros c k2 k1. unfold two. apply nn_bind. intros []; apply nn_simple. Qed.
  Lemma nn_illegal : forall p, nn (illegal p).
  Proof. intro p. unfold illegal. apply nn_bind. intros a st st' H. discriminate. Qed.
  Lemma nn_lift_kv : forall m, nn (lift_kv m).
  Proof. intro m. unfold lift_kv. apply nn_bind. intros a st st' H. discriminate. Qed.
  Lemma nn_ret_some : forall x, nn (ret (Some x)).
  Proof. intros x st st' H. discriminate. Qed.
End NotNone.

Local Ltac nn_step :=
  match goal with
  | |- nn (bind _ _) => apply nn_bind; intro
  | |- nn (match ?x with _ => _ end) => destruct x
  | |- nn _ => solve [apply nn_simple | apply nn_two | apply nn_illegal | apply nn_lift_kv | apply nn_ret_some]
  end.

Lemma parse_token_not_none : forall d (HD : cdoc d) kws F start last st b r st', At d st (b :: r) ->
  parse_token d kws F true start last st <> (Ok None, st').
Proof.
  intros d HD kws F start last st b r st' HA H. unfold parse_token in H. unfold bind at 1 in H.
  rewrite (peek_cons d HD _ _ _ HA) in H. cbv beta iota in H. revert H.
  match goal with |- ?m st = _ -> False => change (m st <> (Ok None, st')); generalize st st'; change (nn m) end.
  repeat nn_step.
Qed.


(* ------------------------------------------------------------------------------------------ *)
(* 11. the token stream                                                                          *)
(* ------------------------------------------------------------------------------------------ *)
Section Warn.
  Variable d : list (list char).
  Variable kws : list (list N).
  Variable F : nat.
  Variable fx : bool.

  Definition wle (t t' : tkst) : Prop := exists w, k_warn t' = k_warn t ++ w.
  Lemma wle_refl : forall t, wle t t.
  Proof. intro t. exists []. symmetry. apply app_nil_r. Qed.
  Lemma wle_trans : forall a b c, wle a b -> wle b c -> wle a c.
  Proof. intros a b c [w1 E1] [w2 E2]. exists (w1 ++ w2). rewrite E2, E1, app_assoc. reflexivity. Qed.
  Lemma wle_nil : forall t t', wle t t' -> k_warn t' = [] -> k_warn t = [].
  Proof. intros t t' [w E] H. rewrite E in H. apply app_eq_nil in H. tauto. Qed.
  Lemma wle_with_rd : forall t r, wle t (with_rd t r).
  Proof. intros t r. exists []. cbn [with_rd k_warn]. symmetry. apply app_nil_r. Qed.

  Lemma pop_raw_warn : forall t r t', pop_raw d kws F fx t = (r, t') -> wle t t'.
  Proof.
    intros t r t' H. unfold pop_raw in H.
    destruct (leading_comments d F F [] (k_rd t)) as [[lead|e|a] r1]; try (injection H as _ <-; apply wle_with_rd).
    destruct (parse_token d kws F fx (r_pos r1) (k_last t) r1) as [[[[[k v] w]|]|e|a] r2];
      try (injection H as _ <-; apply wle_with_rd).
    destruct (trailing_comment d F r2) as [[tr|e|a] r3]; injection H as _ <-; eexists; cbn [k_warn]; reflexivity.
  Qed.
  Lemma ignored_loop_warn : forall fuel t,
    match ignored_loop d kws F fx fuel t with
    | IgnBreak t2 => wle t t2
    | IgnRet _ t2 => wle t t2
    | IgnAb _ t2 => wle t t2
    end.
  Proof.
    induction fuel as [|f IH]; intro t; cbn [ignored_loop]; [apply wle_refl|].
    destruct (pop_raw d kws F fx t) as [r t1] eqn:PR. pose proof (pop_raw_warn _ _ _ PR) as W.
    assert (Hrec : match ignored_loop d kws F fx f t1 with
                   | IgnBreak t2 => wle t t2 | IgnRet _ t2 => wle t t2 | IgnAb _ t2 => wle t t2 end).
    { specialize (IH t1). destruct (ignored_loop d kws F fx f t1); eapply wle_trans; eassumption. }
    destruct r as [[tok|]|e|a]; try exact W; try exact Hrec.
    destruct (trailing_is_end tok); [exact W|]. destruct (leading_is_end tok); [exact W|exact Hrec].
  Qed.
  Lemma tk_pop_warn : forall fuel t r t', tk_pop d kws F fx fuel t = (r, t') -> wle t t'.
  Proof.
    induction fuel as [|f IH]; intros t r t' H; cbn [tk_pop] in H; [injection H as _ <-; apply wle_refl|].
    destruct (pop_raw d kws F fx t) as [r1 t1] eqn:PR. pose proof (pop_raw_warn _ _ _ PR) as W.
    destruct r1 as [[tok|]|e|a]; try (injection H as _ <-; exact W).
    destruct (leading_is_start tok); [|injection H as _ <-; exact W].
    destruct (negb (trailing_is_end tok)).
    - pose proof (ignored_loop_warn F t1) as IL. destruct (ignored_loop d kws F fx F t1) as [t2|r2 t2|a t2].
      + eapply wle_trans; [exact W|]. eapply wle_trans; [exact IL|]. eapply IH; exact H.
      + injection H as _ <-. eapply wle_trans; eassumption.
      + injection H as _ <-. eapply wle_trans; eassumption.
    - eapply wle_trans; [exact W|]. eapply IH; exact H.
  Qed.
  Lemma text_until_newline_warn : forall t r t', text_until_newline d F t = (r, t') -> wle t t'.
  Proof.
    intros t r t' H. unfold text_until_newline in H.
    destruct (until_nl d F [] (k_rd t)) as [[x|e|a] r1]; injection H as _ <-; apply wle_with_rd.
  Qed.
  Lemma finish_directive_warn : forall ds t r t', finish_directive d F ds t = (r, t') -> wle t t'.
  Proof.
    intros ds t r t' H. unfold finish_directive in H. destruct (text_until_newline d F t) as [x t2] eqn:T.
    pose proof (text_until_newline_warn _ _ _ T) as W. destruct x; injection H as _ <-; exact W.
  Qed.
  Lemma handle_tool_directive_warn : forall g t r t', handle_tool_directive d kws F fx g t = (r, t') -> wle t t'.
  Proof.
    intros g t r t' H. unfold handle_tool_directive in H. destruct (tk_pop d kws F fx F t) as [r1 t1] eqn:TP.
    pose proof (tk_pop_warn _ _ _ _ TP) as W. destruct r1 as [[tok|]|e|a].
    - destruct (is_identifier (t_kind tok)).
      + eapply wle_trans; [exact W|eapply finish_directive_warn; exact H].
      + destruct (text_until_newline d F t1) as [x t2] eqn:T. pose proof (text_until_newline_warn _ _ _ T) as W2.
        destruct x; injection H as _ <-; eapply wle_trans; eassumption.
    - injection H as _ <-. exact W.
    - eapply wle_trans; [exact W|eapply finish_directive_warn; exact H].
    - injection H as _ <-. exact W.
  Qed.

  Lemma add_diags_done : forall es o ts, add_diags es o = Done ts [] -> es = [] /\ o = Done ts [].
  Proof.
    intros es [ts' ds|a] ts H; cbn [add_diags] in H; [|discriminate]. injection H as <- H.
    apply app_eq_nil in H. destruct H as [-> ->]. auto.
  Qed.
  Lemma add_tok_done : forall tok o ts, add_tok tok o = Done ts [] -> exists ts', ts = tok :: ts' /\ o = Done ts' [].
  Proof. intros tok [ts' ds|a] ts H; cbn [add_tok] in H; [|discriminate]. injection H as <- ->. eauto. Qed.

  Lemma lex_warn_nil : forall fuel t ts, lex d kws F fx fuel t = Done ts [] -> k_warn t = [].
  Proof.
    induction fuel as [|f IH]; intros t ts H; [discriminate|]. cbn [lex] in H.
    destruct (tk_pop d kws F fx F t) as [r t1] eqn:TP. pose proof (tk_pop_warn _ _ _ _ TP) as W.
    destruct r as [[tok|]|e|a]; try discriminate.
    - destruct (is_grave (t_kind tok)).
      + destruct (handle_tool_directive d kws F fx tok t1) as [[ds|e|a] t2] eqn:HT; try discriminate.
        apply add_diags_done in H. destruct H as [_ H]. apply IH in H.
        eapply wle_nil; [exact W|]. eapply wle_nil; [eapply handle_tool_directive_warn; exact HT|exact H].
      + apply add_tok_done in H. destruct H as [ts' [_ H]]. apply IH in H. eapply wle_nil; eassumption.
    - injection H as _ H. eapply wle_nil; eassumption.
    - apply add_diags_done in H. destruct H as [H _]. discriminate.
  Qed.
  (* after the first pop of a clean run no warning has been recorded *)
  Lemma lex_S_warn : forall f t ts r t1, lex d kws F fx (S f) t = Done ts [] -> tk_pop d kws F fx F t = (r, t1) ->
    k_warn t1 = [].
  Proof.
    intros f t ts r t1 H TP. cbn [lex] in H. rewrite TP in H. destruct r as [[tok|]|e|a]; try discriminate.
    - destruct (is_grave (t_kind tok)).
      + destruct (handle_tool_directive d kws F fx tok t1) as [[ds|e|a] t2] eqn:HT; try discriminate.
        apply add_diags_done in H. destruct H as [_ H]. apply lex_warn_nil in H.
        eapply wle_nil; [eapply handle_tool_directive_warn; exact HT|exact H].
      + apply add_tok_done in H. destruct H as [ts' [_ H]]. apply lex_warn_nil in H. exact H.
    - injection H as _ H. exact H.
    - apply add_diags_done in H. destruct H as [H _]. discriminate.
  Qed.
End Warn.

Section Stream.
  Variable d : list (list char).
  Hypothesis HD : cdoc d.
  Variable kws : list (list N).
  Variable F : nat.
  Hypothesis HF : (length (concat d) < F)%nat.
  Local Notation At := (At d).

  Definition lexeme_of (tok : token) : list N := slice16 d (t_s tok) (t_e tok).

  (* one call of pop_raw = skip_gap + lexeme_step; the trailing comment is a part of the next gap *)
  Lemma pop_raw_spec : forall t prev r res t1,
    At (k_rd t) r -> can_be_char (k_last t) = can_char prev -> k_warn t = [] ->
    pop_raw d kws F true t = (res, t1) -> k_warn t1 = [] ->
    match res with
    | Ok None => gap r = Some []
    | Ok (Some tok) =>
      exists b s1 rest a r1,
        gap r = Some (b :: s1) /\ lexeme_step kws prev (b :: s1) = Some (lexeme_of tok, rest, a) /\
        At (k_rd t1) r1 /\ gap rest = gap r1 /\ can_be_char (k_last t1) = can_char a /\
        is_grave (t_kind tok) = false /\ lead_start (t_lead tok) = false
    | _ => True
    end.
  Proof.
    intros t prev r res t1 HA Hcc Hw H Hw1. unfold pop_raw in H.
    destruct (leading_comments d F F [] (k_rd t)) as [[lead|e|a] rs] eqn:LC; try (injection H as <- _; exact I).
    destruct (leading_comments_flat d HD F HF F [] _ _ _ _ HA (at_lt_F d F HF _ _ HA) (Forall_nil _) LC)
      as [r' [HA' [Hg [Hstop Hlead]]]].
    destruct (parse_token d kws F true (r_pos rs) (k_last t) rs) as [[[[[k v] w]|]|e|a] r2] eqn:PT;
      try (injection H as <- _; exact I).
    - destruct (trailing_comment d F r2) as [[tr|e|a] r3] eqn:TC; try (injection H as <- _; exact I).
      injection H as <- <-. cbn [k_warn] in Hw1. rewrite Hw in Hw1. cbn [app] in Hw1.
      destruct w as [code|]; [discriminate|].
      destruct (parse_token_spec d HD kws F HF _ _ _ _ _ _ _ _ HA' Hcc PT) as [lexm [rest [a [Hls [HA2 [Hc2 Hgr]]]]]].
      destruct r' as [|b s1]; [discriminate|].
      destruct (trailing_comment_flat d HD F HF _ _ _ _ HA2 TC) as [r1 [HA3 Hg3]].
      exists b, s1, rest, a, r1. cbn [k_rd k_last t_kind t_lead].
      assert (El : lexeme_of {| t_kind := k; t_val := v; t_s := r_pos rs; t_e := r_pos r2; t_lead := lead; t_trail := tr |} = lexm).
      { unfold lexeme_of. cbn [t_s t_e].
        assert (A12 : adv d rs r2) by (eapply (advO_advs d); [intro o; apply advO_parse_token|exact PT]).
        destruct (at_run d HD _ _ _ _ HA' HA2 A12) as [l [R El]].
        rewrite <- (consumed_is_slice d (HDl d HD) l rs r2 (at_rinv d _ _ HA') R).
        apply lexeme_step_app in Hls. rewrite Hls in El. apply app_inv_tail in El. symmetry. exact El. }
      rewrite El. split.
      { rewrite Hg. apply lstop_gap; [exact Hstop|]. eapply lexeme_step_not_sep. exact Hls. }
      split; [exact Hls|]. split; [exact HA3|]. split; [exact Hg3|]. split; [exact Hc2|]. split; [exact Hgr|].
      apply lead_start_nopragma. exact Hlead.
    - injection H as <- _. destruct r' as [|b s1]; [rewrite Hg; reflexivity|].
      exfalso. eapply parse_token_not_none; [exact HD|exact HA'|exact PT].
  Qed.

  (* no ignored region: Tokenizer::pop is pop_raw *)
  Lemma tk_pop_pop_raw : forall fuel t prev r x t1, (0 < fuel)%nat ->
    At (k_rd t) r -> can_be_char (k_last t) = can_char prev -> k_warn t = [] ->
    tk_pop d kws F true fuel t = (Ok x, t1) -> k_warn t1 = [] -> pop_raw d kws F true t = (Ok x, t1).
  Proof.
    intros fuel t prev r x t1 Hf HA Hcc Hw H Hw1. destruct fuel as [|f]; [lia|]. cbn [tk_pop] in H.
    destruct (pop_raw d kws F true t) as [[[tok|]|e|a] t0] eqn:PR; try discriminate; [|exact H].
    destruct (leading_is_start tok) eqn:LS; [exfalso|exact H].
    assert (W0 : k_warn t0 = []).
    { destruct (negb (trailing_is_end tok)).
      - pose proof (ignored_loop_warn d kws F true F t0) as IL.
        destruct (ignored_loop d kws F true F t0) as [t2|r2 t2|a t2]; try discriminate.
        + eapply wle_nil; [exact IL|]. eapply wle_nil; [eapply tk_pop_warn; exact H|exact Hw1].
        + injection H as _ <-. eapply wle_nil; eassumption.
      - eapply wle_nil; [eapply tk_pop_warn; exact H|exact Hw1]. }
    pose proof (pop_raw_spec _ _ _ _ _ HA Hcc Hw PR W0) as HS. cbv beta iota in HS.
    destruct HS as [b [s1 [rest [a [r1 [_ [_ [_ [_ [_ [_ HL]]]]]]]]]]].
    unfold leading_is_start in LS. congruence.
  Qed.

  Theorem lex_spec : forall fuel t prev r ts,
    At (k_rd t) r -> can_be_char (k_last t) = can_char prev ->
    lex d kws F true fuel t = Done ts [] ->
    forall f2, (length r < f2)%nat -> split_from kws f2 prev r = Some (map lexeme_of ts).
  Proof.
    induction fuel as [|f IH]; intros t prev r ts HA Hcc H f2 Hf2; [discriminate|].
    destruct (tk_pop d kws F true F t) as [res t1] eqn:TP.
    pose proof (lex_S_warn d kws F true _ _ _ _ _ H TP) as Hw1.
    pose proof (wle_nil _ _ (tk_pop_warn d kws F true _ _ _ _ TP) Hw1) as Hw.
    cbn [lex] in H. rewrite TP in H. destruct f2 as [|f2]; [lia|]. rewrite split_from_S.
    destruct res as [[tok|]|e|a]; try discriminate.
    - assert (PR : pop_raw d kws F true t = (Ok (Some tok), t1)).
      { eapply tk_pop_pop_raw; [|exact HA|exact Hcc|exact Hw|exact TP|exact Hw1]. lia. }
      pose proof (pop_raw_spec _ _ _ _ _ HA Hcc Hw PR Hw1) as HS. cbv beta iota in HS.
      destruct HS as [b [s1 [rest [a [r1 [Hg [Hls [HA1 [Hg1 [Hc1 [Hgr _]]]]]]]]]]].
      rewrite Hgr in H. apply add_tok_done in H. destruct H as [ts' [-> H]].
      rewrite Hg, Hls. rewrite (split_from_gap kws f2 a rest r1 Hg1).
      assert (Hlen : (length r1 < length r)%nat).
      { destruct (pop_raw_props d kws F HF _ _ _ PR) as [_ [Sp _]].
        assert (S1 : sadv d (k_rd t) (k_rd t1)) by (apply Sp; discriminate).
        pose proof (sadv_mu d _ _ S1) as M. unfold mu in M.
        destruct HA as [_ [E1 _]]. destruct HA1 as [_ [E2 _]]. rewrite E1, E2 in M. exact M. }
      rewrite (IH t1 a r1 ts' HA1 Hc1 H f2 ltac:(lia)). reflexivity.
    - injection H as <- _.
      assert (PR : pop_raw d kws F true t = (Ok None, t1)).
      { eapply tk_pop_pop_raw; [|exact HA|exact Hcc|exact Hw|exact TP|exact Hw1]. lia. }
      pose proof (pop_raw_spec _ _ _ _ _ HA Hcc Hw PR Hw1) as HS. cbv beta iota in HS. rewrite HS. reflexivity.
    - apply add_diags_done in H. destruct H as [H _]. discriminate.
  Qed.
End Stream.

(* ------------------------------------------------------------------------------------------ *)
(* 12. whole inputs                                                                              *)
(* ------------------------------------------------------------------------------------------ *)
Lemma split_aux_nocr : forall s cur, no_cr s = true -> concat (split_aux false cur s) = rev cur ++ s.
Proof.
  induction s as [|c s IH]; intros cur H.
  - cbn [split_aux]. destruct cur as [|x cur]; [reflexivity|]. cbn [concat]. rewrite !app_nil_r. reflexivity.
  - unfold no_cr in H. cbn [forallb] in H. apply andb_true_iff in H. destruct H as [Hc Hs]. cbn [split_aux].
    change LF with 10. change CR with 13. destruct (c =? 10) eqn:E10.
    + apply N.eqb_eq in E10. subst c. cbn [concat]. pose proof (IH [] Hs) as E. cbn [rev app] in E.
      etransitivity; [apply f_equal; exact E|]. cbn [rev app]. rewrite <- app_assoc. reflexivity.
    + replace (c =? 13) with false by lia. pose proof (IH (c :: cur) Hs) as E. cbn [rev] in E.
      rewrite <- app_assoc in E. exact E.
Qed.
Lemma split_nocr : forall s, no_cr s = true -> concat (split_lines s) = s.
Proof. intros s H. unfold split_lines. rewrite (split_aux_nocr s [] H). reflexivity. Qed.
Lemma remaining_start : forall d, remaining d rstart = concat d.
Proof.
  intro d. unfold remaining, rstart, get_line. cbn [r_pos r_idx fst N.to_nat]. destruct d as [|l d']; cbn [nth_error]; [reflexivity|].
  rewrite after_idx_0. reflexivity.
Qed.
Lemma good_of_quantifier : forall s, latin1 s = true -> no_directive s = true -> no_pragma s = true -> no_cr s = true ->
  good s = true.
Proof.
  intros s H1 H2 H3 H4. unfold good. unfold no_pragma in H3. rewrite H3. rewrite !andb_true_r.
  unfold latin1, no_directive, no_cr in *. clear H3. induction s as [|c s IH]; [reflexivity|].
  cbn [forallb] in *. apply andb_true_iff in H1, H2, H4. destruct H1 as [A1 B1]. destruct H2 as [A2 B2]. destruct H4 as [A4 B4].
  rewrite (IH B1 B2 B4). unfold chok. rewrite A1, A2, A4. reflexivity.
Qed.

Theorem lang_is_spec : forall s : list N,
  latin1 s = true -> clean_lang s = true -> no_directive s = true -> no_pragma s = true ->
  no_cr s = true ->
  lexemes_lang s = split_spec LangLexer.keywords_2008 s.
Proof.
  intros s H1 Hc H2 H3 H4.
  pose proof (split_cdoc s) as HD.
  assert (HF : (length (concat (split_lines s)) < lex_fuel s)%nat).
  { pose proof (split_lines_length s). unfold lex_fuel. lia. }
  assert (HA : At (split_lines s) (k_rd (tk_start)) s).
  { cbn [tk_start k_rd]. split; [apply rinv_start|]. split.
    - rewrite remaining_start. apply split_nocr. exact H4.
    - apply good_of_quantifier; assumption. }
  unfold clean_lang, lexemes_lang, lang_result in *.
  destruct (lex_all s) as [ts ds|a] eqn:L; [|discriminate]. destruct ds as [|e ds]; [|discriminate].
  cbn [option_map snd]. unfold lex_all, lex_gen in L. unfold split_spec. symmetry.
  exact (lex_spec (split_lines s) HD keywords_2008 (lex_fuel s) HF (lex_fuel s) tk_start AfterOther s ts HA eq_refl L
           (S (length s)) ltac:(lia)).
Qed.

(* the hypotheses are satisfiable by a non-trivial text:
   x <= 16#F.8#e1 & b"01" & 12o"7" & '1' ; -- c LF /* y */ z'a(1.5e-3)\e\"s""t" ?/= all'x 16:FF: 0 to 1:= 1
   (it holds the based literal 16:FF: with ':' for '#', and `1:= 1` where the ':' after a digit is a delimiter) *)
Definition lang_is_spec_sample : list N := [120; 32; 60; 61; 32; 49; 54; 35; 70; 46; 56; 35; 101; 49; 32; 38; 32; 98; 34; 48; 49; 34; 32; 38; 32; 49; 50; 111; 34; 55; 34; 32; 38; 32; 39; 49; 39; 32; 59; 32; 45; 45; 32; 99; 10; 47; 42; 32; 121; 32; 42; 47; 32; 122; 39; 97; 40; 49; 46; 53; 101; 45; 51; 41; 92; 101; 92; 34; 115; 34; 34; 116; 34; 32; 63; 47; 61; 32; 97; 108; 108; 39; 120; 32; 49; 54; 58; 70; 70; 58; 32; 48; 32; 116; 111; 32; 49; 58; 61; 32; 49].
Example lang_is_spec_hyps_sat :
  latin1 lang_is_spec_sample && clean_lang lang_is_spec_sample && no_directive lang_is_spec_sample &&
  no_pragma lang_is_spec_sample && no_cr lang_is_spec_sample && has_colon_literal lang_is_spec_sample = true
  /\ option_map (@length lexeme) (lexemes_lang lang_is_spec_sample) = Some 28%nat.
Proof. vm_compute. split; reflexivity. Qed.

Check lang_is_spec : forall s : list N,
  latin1 s = true -> clean_lang s = true -> no_directive s = true -> no_pragma s = true ->
  no_cr s = true ->
  lexemes_lang s = split_spec LangLexer.keywords_2008 s.
Print Assumptions lang_is_spec.
