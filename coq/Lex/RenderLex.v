(* Lex/RenderLex.v — the tokenizer on a piece list (the structured text of a rendering):
   pop_raw reads the gap in front of the next token text as that token's leading comments, the token text as
   its kind and value, and a directly following `--` comment as its trailing comment (pop_raw_step);
   TokenStream::new (`lex`) therefore returns exactly the tokens of the piece list, without diagnostics, with
   the comments `attached_keys` (lex_pieces_aux). *)
From Coq Require Import List NArith Arith Bool Lia ZifyBool ZifyN.
Import ListNotations.
From RH Require Import Text.Contents Text.ContentsProofs Text.Reader Text.ReaderProofs Text.ReaderInv
  Lex.LangLexer Lex.LangLexerProofs Lex.LexSpec Lex.Render Lex.RenderStream Lex.RenderArms Lex.RenderGaps Lex.RenderToks.
Open Scope N_scope.
#[local] Arguments N.add : simpl never.
#[local] Arguments N.sub : simpl never.
#[local] Arguments N.mul : simpl never.
#[local] Arguments N.eqb : simpl never.
#[local] Arguments N.ltb : simpl never.
#[local] Arguments N.leb : simpl never.

(* ---------- follow_ok looks at two characters only ---------- *)
Lemma firstn_firstn_text : forall n ps, take_text n ps = firstn n (pieces_text ps).
Proof.
  intros n ps. revert n. induction ps as [|p r IH]; intro n.
  - cbn [take_text pieces_text flat_map]. rewrite firstn_nil. reflexivity.
  - cbn [take_text]. unfold pieces_text. cbn [flat_map]. fold (pieces_text r). destruct n as [|n].
    + reflexivity.
    + cbv zeta. rewrite firstn_app. rewrite IH. f_equal. f_equal. rewrite firstn_length. lia.
Qed.
Lemma follow_kv_firstn : forall last k v r, follow_kv last k v (firstn 2 r) = follow_kv last k v r.
Proof. intros last k v r. destruct r as [|a [|b r]]; reflexivity. Qed.
Lemma follow_ok_take : forall last t r, follow_ok last t (take_text 2 r) = follow_ok last t (pieces_text r).
Proof. intros. unfold follow_ok. rewrite firstn_firstn_text. apply follow_kv_firstn. Qed.

(* ---------- splitting a piece list at its first token text ---------- *)
Definition lex_free (g : list piece) : bool := forallb (fun p => negb (is_lex p)) g.
Definition lex_toks (ps : list piece) : list token := flat_map (fun p => match p with PLex t => [t] | _ => [] end) ps.
Lemma split_lex_some : forall ps g t ps2, split_lex ps = (g, Some (t, ps2)) -> ps = g ++ PLex t :: ps2 /\ lex_free g = true.
Proof.
  induction ps as [|p ps IH]; intros g t ps2 H; [discriminate|].
  destruct p; cbn [split_lex] in H;
    try (destruct (split_lex ps) as [g' o] eqn:E; injection H as <- ->;
         destruct (IH _ _ _ eq_refl) as [-> L]; split; [reflexivity|exact L]).
  injection H as <- <- <-. split; reflexivity.
Qed.
Lemma split_lex_none : forall ps g, split_lex ps = (g, None) -> ps = g /\ lex_free g = true.
Proof.
  induction ps as [|p ps IH]; intros g H; [injection H as <-; split; reflexivity|].
  destruct p; cbn [split_lex] in H;
    try (destruct (split_lex ps) as [g' o] eqn:E; injection H as <- ->;
         destruct (IH _ eq_refl) as [-> L]; split; [reflexivity|exact L]).
  discriminate.
Qed.

Definition key_ok (k : bool * list char) : bool := negb (leqb (trim (snd k)) VHDL_LS_OFF).

(* what pieces_ok says about the gap in front of the first token text *)
Lemma pieces_ok_gap : forall g last t ps2, lex_free g = true -> pieces_ok last (g ++ PLex t :: ps2) = true ->
  gap_wf false g = true /\ forallb key_ok (gap_keys g) = true /\
  follow_ok last t (pieces_text ps2) = true /\ tok_text t <> [] /\ pieces_ok (Some (t_kind t)) ps2 = true.
Proof.
  induction g as [|p g IH]; intros last t ps2 HL H.
  - cbn [app pieces_ok] in H. apply andb_true_iff in H. destruct H as [H H3]. apply andb_true_iff in H. destruct H as [H1 H2].
    rewrite follow_ok_take in H1. split; [reflexivity|]. split; [reflexivity|]. split; [exact H1|]. split; [|exact H3].
    destruct (tok_text t); [discriminate|discriminate].
  - cbn [lex_free forallb] in HL. apply andb_true_iff in HL. destruct HL as [Hp HL]. cbn [app pieces_ok] in H.
    destruct p as [c|v|v|t'].
    + apply andb_true_iff in H. destruct H as [Hc H]. destruct (IH _ _ _ HL H) as [A [B C]].
      cbn [gap_wf gap_keys]. rewrite Hc, A. split; [reflexivity|]. split; [exact B|exact C].
    + apply andb_true_iff in H. destruct H as [H H3]. apply andb_true_iff in H. destruct H as [H1 H2].
      destruct (IH _ _ _ HL H3) as [A [B C]]. unfold line_ok in H1. apply andb_true_iff in H1. destruct H1 as [Hv Hoff].
      cbn [gap_wf gap_keys forallb]. rewrite A, B. unfold key_ok at 1. cbn [snd]. rewrite Hoff.
      assert (Hv' : forallb notlf v = true).
      { rewrite forallb_forall in Hv. apply forallb_forall. intros x Hx. specialize (Hv x Hx). unfold nonl in Hv. unfold notlf. lia. }
      rewrite Hv'. split; [|split; [reflexivity|exact C]]. cbn [andb]. rewrite andb_true_r.
      destruct g as [|q g]; cbn [app] in H2; [discriminate|]. destruct q; try discriminate. exact H2.
    + apply andb_true_iff in H. destruct H as [H1 H3]. destruct (IH _ _ _ HL H3) as [A [B C]].
      unfold block_ok in H1. apply andb_true_iff in H1. destruct H1 as [H1 Hoff]. apply andb_true_iff in H1. destruct H1 as [_ Hss].
      cbn [gap_wf gap_keys forallb]. rewrite A, B, Hss. unfold key_ok at 1. cbn [snd]. rewrite Hoff.
      split; [reflexivity|split; [reflexivity|exact C]].
    + discriminate Hp.
Qed.
Lemma pieces_ok_final : forall g last, lex_free g = true -> pieces_ok last g = true -> gap_wf true g = true.
Proof.
  induction g as [|p g IH]; intros last HL H; [reflexivity|].
  cbn [lex_free forallb] in HL. apply andb_true_iff in HL. destruct HL as [Hp HL]. cbn [pieces_ok] in H.
  destruct p as [c|v|v|t'].
  - apply andb_true_iff in H. destruct H as [Hc H]. cbn [gap_wf]. rewrite Hc. apply (IH _ HL H).
  - apply andb_true_iff in H. destruct H as [H H3]. apply andb_true_iff in H. destruct H as [H1 H2].
    unfold line_ok in H1. apply andb_true_iff in H1. destruct H1 as [Hv _]. cbn [gap_wf]. rewrite (IH _ HL H3).
    assert (Hv' : forallb notlf v = true).
    { rewrite forallb_forall in Hv. apply forallb_forall. intros x Hx. specialize (Hv x Hx). unfold nonl in Hv. unfold notlf. lia. }
    rewrite Hv'. rewrite andb_true_r. cbn [andb]. destruct g as [|q g]; [reflexivity|]. destruct q; try discriminate. exact H2.
  - apply andb_true_iff in H. destruct H as [H1 H3]. unfold block_ok in H1. apply andb_true_iff in H1. destruct H1 as [H1 _].
    apply andb_true_iff in H1. destruct H1 as [_ Hss]. cbn [gap_wf]. rewrite Hss. apply (IH _ HL H3).
  - discriminate Hp.
Qed.

(* ---------- behind a token text ---------- *)
Definition trail_ok (ps2 : list piece) : bool :=
  match drop_blank32 ps2 with
  | PLine v :: g2 => forallb notlf v && match g2 with [] => true | PBlank c :: _ => c =? 10 | _ => false end
  | r => trail_none_ok (pieces_text r)
  end.
Lemma drop_blank32_text : forall ps, exists bl, forallb (wsP false) bl = true /\ pieces_text ps = bl ++ pieces_text (drop_blank32 ps).
Proof.
  induction ps as [|p ps IH]; [exists []; split; reflexivity|]. destruct p; try (exists []; split; reflexivity).
  cbn [drop_blank32]. destruct (c =? 32) eqn:E; [|exists []; split; reflexivity].
  destruct IH as [bl [Hb Ht]]. exists (c :: bl). cbn [forallb]. rewrite Hb. unfold wsP. rewrite E. split; [reflexivity|].
  unfold pieces_text in *. cbn [flat_map piece_text app]. rewrite Ht. reflexivity.
Qed.
Lemma drop_blank32_ok : forall ps last, pieces_ok last ps = true -> pieces_ok last (drop_blank32 ps) = true.
Proof.
  induction ps as [|p ps IH]; intros last H; [exact H|]. destruct p; try exact H. cbn [drop_blank32]. destruct (c =? 32); [|exact H].
  cbn [pieces_ok] in H. apply andb_true_iff in H. apply IH. apply H.
Qed.
Lemma drop_blank32_supported : forall ps, pieces_good ps -> pieces_good (drop_blank32 ps).
Proof.
  induction ps as [|p ps IH]; intro H; [exact H|]. destruct p; try exact H. cbn [drop_blank32]. destruct (c =? 32); [|exact H].
  apply IH. inversion H; assumption.
Qed.
Lemma start_ok_trail : forall txt, start_ok txt = true -> trail_none_ok txt = true.
Proof.
  intros [|c r] H; [reflexivity|]. cbn [start_ok trail_none_ok] in *.
  apply andb_true_iff in H. destruct H as [H H45]. apply andb_true_iff in H. destruct H as [H _]. apply andb_true_iff in H. destruct H as [Hc Hw].
  rewrite Hc, H45. replace (wsP false c) with false; [reflexivity|]. apply negb_true_iff in Hw. unfold wsP in *. lia.
Qed.
Lemma trail_ok_of_pieces : forall ps last, pieces_ok last ps = true -> pieces_good ps -> trail_ok ps = true.
Proof.
  intros ps last H HS. apply drop_blank32_ok in H. apply drop_blank32_supported in HS. unfold trail_ok.
  assert (HB : match drop_blank32 ps with PBlank c :: _ => (c =? 32) = false | _ => True end).
  { clear. induction ps as [|p ps IH]; [exact I|]. destruct p; try exact I. cbn [drop_blank32]. destruct (c =? 32) eqn:E; [exact IH|exact E]. }
  destruct (drop_blank32 ps) as [|p r]; [reflexivity|]. destruct p as [c|v|v|t].
  - cbn [pieces_ok] in H. apply andb_true_iff in H. destruct H as [Hc _]. rewrite HB in Hc. cbn [orb] in Hc. apply N.eqb_eq in Hc. subst c. reflexivity.
  - cbn [pieces_ok] in H. apply andb_true_iff in H. destruct H as [H _]. apply andb_true_iff in H. destruct H as [H1 H2].
    unfold line_ok in H1. apply andb_true_iff in H1. destruct H1 as [Hv _].
    assert (Hv' : forallb notlf v = true).
    { rewrite forallb_forall in Hv. apply forallb_forall. intros x Hx. specialize (Hv x Hx). unfold nonl in Hv. unfold notlf. lia. }
    rewrite Hv'. cbn [andb]. destruct r as [|q r]; [reflexivity|]. destruct q; try discriminate. exact H2.
  - reflexivity.
  - cbn [pieces_ok] in H. apply andb_true_iff in H. destruct H as [H _]. apply andb_true_iff in H. destruct H as [H1 _].
    rewrite follow_ok_take in H1. inversion HS as [|? ? HSt _]; subst. destruct HSt as [_ [_ [HSt _]]].
    unfold pieces_text. cbn [flat_map piece_text]. apply start_ok_trail. apply (HSt last _ H1).
Qed.

Lemma lead_start_false : forall cs, forallb key_ok (map ckey cs) = true -> lead_start cs = false.
Proof.
  induction cs as [|c cs IH]; intro H; [reflexivity|]. cbn [map forallb] in H. apply andb_true_iff in H. destruct H as [Hc H].
  cbn [lead_start]. unfold is_off. unfold key_ok, ckey in Hc. cbn [snd] in Hc. apply negb_true_iff in Hc. rewrite Hc. apply IH. exact H.
Qed.
Lemma gap_keys_app_lex : forall g t ps2, gap_keys (g ++ PLex t :: ps2) = gap_keys g ++ gap_keys ps2.
Proof. induction g as [|p g IH]; intros t ps2; [reflexivity|]. destruct p; cbn [app gap_keys]; rewrite ?IH; reflexivity. Qed.

Section Lexing.
  Variable d : list (list char).
  Hypothesis HD : cdoc d.
  Variable F : nat.
  Hypothesis HF : (length (concat d) < F)%nat.
  Local Notation At := (At d).
  Local Notation kws := keywords_2008.

  Definition trail_keys (o : option comment) : list (bool * list char) := match o with Some c => [ckey c] | None => [] end.

  Lemma pop_raw_step : forall g t ps2 tk,
    gap_wf false g = true -> (length g < F)%nat -> tok_good t ->
    follow_ok (k_last tk) t (pieces_text ps2) = true -> trail_ok ps2 = true ->
    At (k_rd tk) (pieces_text (g ++ PLex t :: ps2)) ->
    exists tok tk', pop_raw d kws F true tk = (Ok (Some tok), tk') /\
      t_kind tok = t_kind t /\ t_val tok = t_val t /\ map ckey (t_lead tok) = gap_keys g /\
      trail_keys (t_trail tok) = trail_key (fst (after_trail ps2)) /\
      At (k_rd tk') (pieces_text (snd (after_trail ps2))) /\ k_last tk' = Some (t_kind t) /\ k_warn tk' = k_warn tk.
  Proof.
    intros g t ps2 tk Hg Hlen Hs Hfo Htr HA.
    destruct Hs as [_ [_ [Hs1 Hs2]]]. destruct (Hs1 _ _ Hfo) as [Hst Hne].
    unfold pieces_text in HA. rewrite flat_map_app in HA. cbn [flat_map piece_text] in HA. fold (pieces_text g) in HA. fold (pieces_text ps2) in HA.
    unfold pop_raw.
    destruct (lead_gap d HD F HF (length g) g (tok_text t ++ pieces_text ps2) F [] (k_rd tk)) as [cs [r1 [E1 [HA1 EK]]]];
      [lia| |exact Hst|exact HA|exact Hlen|].
    { destruct (tok_text t ++ pieces_text ps2) eqn:E; [|exact Hg]. destruct (tok_text t); [congruence|discriminate]. }
    rewrite E1. cbn [app] in *.
    destruct (Hs2 d HD F HF (r_pos r1) (k_last tk) r1 _ Hfo HA1) as [r2 [E2 HA2]]. rewrite E2.
    destruct (drop_blank32_text ps2) as [bl [Hbl Etx]]. rewrite Etx in HA2.
    unfold trail_ok in Htr. unfold after_trail.
    destruct (drop_blank32 ps2) as [|p g2] eqn:ED.
    - destruct (trailing_none d HD F HF r2 bl _ Hbl Htr HA2) as [r3 [E3 HA3]]. rewrite E3.
      eexists _, _. split; [reflexivity|]. cbn [t_kind t_val t_lead t_trail k_rd k_last k_warn fst snd trail_keys trail_key].
      rewrite app_nil_r. split; [reflexivity|]. split; [reflexivity|]. split; [exact EK|]. split; [reflexivity|]. split; [exact HA3|]. split; reflexivity.
    - destruct p as [c|v|v|t'].
      + destruct (trailing_none d HD F HF r2 bl _ Hbl Htr HA2) as [r3 [E3 HA3]]. rewrite E3.
        eexists _, _. split; [reflexivity|]. cbn [t_kind t_val t_lead t_trail k_rd k_last k_warn fst snd trail_keys trail_key].
        rewrite app_nil_r. split; [reflexivity|]. split; [reflexivity|]. split; [exact EK|]. split; [reflexivity|]. split; [exact HA3|]. split; reflexivity.
      + apply andb_true_iff in Htr. destruct Htr as [Hv Hnx].
        unfold pieces_text in HA2. cbn [flat_map piece_text] in HA2. fold (pieces_text g2) in HA2. cbn [app] in HA2.
        assert (Hrest : match pieces_text g2 with [] => True | x :: _ => x = 10 end).
        { destruct g2 as [|q g3]; [exact I|]. destruct q; try discriminate. cbn [pieces_text flat_map piece_text app]. apply N.eqb_eq. exact Hnx. }
        destruct (trailing_some d HD F HF r2 bl v _ Hbl Hv Hrest HA2) as [c [r3 [E3 [HA3 [Ev Em]]]]]. rewrite E3.
        eexists _, _. split; [reflexivity|]. cbn [t_kind t_val t_lead t_trail k_rd k_last k_warn fst snd trail_keys trail_key].
        rewrite app_nil_r. split; [reflexivity|]. split; [reflexivity|]. split; [exact EK|]. split; [unfold ckey; rewrite Ev, Em; reflexivity|]. split; [exact HA3|]. split; reflexivity.
      + destruct (trailing_none d HD F HF r2 bl _ Hbl Htr HA2) as [r3 [E3 HA3]]. rewrite E3.
        eexists _, _. split; [reflexivity|]. cbn [t_kind t_val t_lead t_trail k_rd k_last k_warn fst snd trail_keys trail_key].
        rewrite app_nil_r. split; [reflexivity|]. split; [reflexivity|]. split; [exact EK|]. split; [reflexivity|]. split; [exact HA3|]. split; reflexivity.
      + destruct (trailing_none d HD F HF r2 bl _ Hbl Htr HA2) as [r3 [E3 HA3]]. rewrite E3.
        eexists _, _. split; [reflexivity|]. cbn [t_kind t_val t_lead t_trail k_rd k_last k_warn fst snd trail_keys trail_key].
        rewrite app_nil_r. split; [reflexivity|]. split; [reflexivity|]. split; [exact EK|]. split; [reflexivity|]. split; [exact HA3|]. split; reflexivity.
  Qed.

  Lemma pop_raw_end : forall g tk, gap_wf true g = true -> (length g < F)%nat -> At (k_rd tk) (pieces_text g) ->
    exists tk', pop_raw d kws F true tk = (Ok None, tk') /\ k_warn tk' = k_warn tk.
  Proof.
    intros g tk Hg Hlen HA. unfold pop_raw. rewrite <- (app_nil_r (pieces_text g)) in HA.
    destruct (lead_gap d HD F HF (length g) g [] F [] (k_rd tk)) as [cs [r1 [E1 [HA1 EK]]]]; [lia|exact Hg|reflexivity|exact HA|exact Hlen|].
    rewrite E1. unfold parse_token, bind. rewrite (peek_nil d HD _ HA1). unfold ret. eexists. split; reflexivity.
  Qed.

  Lemma tk_pop_tok : forall tk tok tk' fu, (0 < fu)%nat -> pop_raw d kws F true tk = (Ok (Some tok), tk') ->
    lead_start (t_lead tok) = false -> tk_pop d kws F true fu tk = (Ok (Some tok), tk').
  Proof. intros tk tok tk' [|f] Hf E H; [inversion Hf|]. cbn [tk_pop]. rewrite E. unfold leading_is_start. rewrite H. reflexivity. Qed.
  Lemma tk_pop_end : forall tk tk' fu, (0 < fu)%nat -> pop_raw d kws F true tk = (Ok None, tk') ->
    tk_pop d kws F true fu tk = (Ok None, tk').
  Proof. intros tk tk' [|f] Hf E; [inversion Hf|]. cbn [tk_pop]. rewrite E. reflexivity. Qed.
End Lexing.

Lemma lex_toks_free : forall g, lex_free g = true -> lex_toks g = [].
Proof.
  induction g as [|p g IH]; intro H; [reflexivity|]. cbn [lex_free forallb] in H. apply andb_true_iff in H. destruct H as [Hp H].
  destruct p; try discriminate Hp; cbn [lex_toks flat_map app]; apply IH; exact H.
Qed.
Lemma lex_toks_app : forall a b, lex_toks (a ++ b) = lex_toks a ++ lex_toks b.
Proof. intros. unfold lex_toks. apply flat_map_app. Qed.
Lemma drop_blank32_suffix : forall ps, exists pre, ps = pre ++ drop_blank32 ps /\ lex_free pre = true /\ gap_keys pre = [].
Proof.
  induction ps as [|p ps IH]; [exists []; repeat split|]. destruct p; try (exists []; repeat split; reflexivity).
  cbn [drop_blank32]. destruct (c =? 32); [|exists []; repeat split; reflexivity]. destruct IH as [pre [E [L K]]].
  exists (PBlank c :: pre). cbn [app lex_free forallb is_lex negb andb gap_keys]. rewrite <- E. repeat split; assumption.
Qed.
(* the pieces behind the trailing comment: a suffix; tokens and the other comments are kept *)
Lemma after_trail_suffix : forall ps2, exists pre, ps2 = pre ++ snd (after_trail ps2) /\ lex_free pre = true /\
  gap_keys pre = trail_key (fst (after_trail ps2)).
Proof.
  intro ps2. destruct (drop_blank32_suffix ps2) as [pre [E [L K]]]. unfold after_trail.
  destruct (drop_blank32 ps2) as [|p r] eqn:ED; [exists pre; repeat split; assumption|].
  destruct p; try (exists pre; repeat split; assumption).
  exists (pre ++ [PLine v]). rewrite <- app_assoc. cbn [app fst snd trail_key]. split; [exact E|]. split.
  - unfold lex_free in *. rewrite forallb_app, L. reflexivity.
  - clear -K. induction pre as [|q pre IH]; [reflexivity|]. destruct q; cbn [app gap_keys] in *; try discriminate; apply IH; exact K.
Qed.
Lemma pieces_ok_suffix : forall pre last ps, lex_free pre = true -> pieces_ok last (pre ++ ps) = true -> pieces_ok last ps = true.
Proof.
  induction pre as [|p pre IH]; intros last ps L H; [exact H|]. cbn [lex_free forallb] in L. apply andb_true_iff in L. destruct L as [Lp L].
  cbn [app pieces_ok] in H. destruct p; try discriminate Lp; apply andb_true_iff in H; apply (IH _ _ L); apply H.
Qed.
Lemma supported_suffix : forall pre ps, pieces_good (pre ++ ps) -> pieces_good ps.
Proof. intros pre ps H. unfold pieces_good in *. apply Forall_app in H. apply H. Qed.

Section Lexing2.
  Variable d : list (list char).
  Hypothesis HD : cdoc d.
  Variable F : nat.
  Hypothesis HF : (length (concat d) < F)%nat.
  Local Notation At := (At d).
  Local Notation kws := keywords_2008.

  Definition tok_keys (t : token) : list (bool * list char) := map ckey (t_lead t) ++ trail_keys (t_trail t).

  Lemma lex_pieces_aux : forall n ps fuel tk,
    (length ps <= n)%nat -> (n < fuel)%nat -> (n < F)%nat ->
    At (k_rd tk) (pieces_text ps) -> pieces_ok (k_last tk) ps = true -> pieces_good ps -> k_warn tk = [] ->
    exists ts', lex d kws F true fuel tk = Done ts' [] /\
      map tok_kv ts' = map tok_kv (lex_toks ps) /\ flat_map tok_keys ts' = attached_keys (S n) ps.
  Proof.
    induction n as [|n IH]; intros ps fuel tk Hn Hfu HnF HA Hok Hsup Hw;
      (destruct fuel as [|f]; [clear -Hfu; lia|]);
      assert (HF0 : (0 < F)%nat) by (clear -HnF; lia).
    - destruct ps as [|p ps]; [|cbn [length] in Hn; lia]. cbn [lex].
      destruct (pop_raw_end d HD F HF [] tk eq_refl HF0 HA) as [tk' [E Ew]].
      rewrite (tk_pop_end d F tk tk' F HF0 E).
      rewrite Ew, Hw. exists []. repeat split.
    - cbn [lex]. destruct (split_lex ps) as [g [[t ps2]|]] eqn:ES.
      + destruct (split_lex_some _ _ _ _ ES) as [-> Lg].
        destruct (pieces_ok_gap g _ t ps2 Lg Hok) as [Hg [Hk [Hfo [Hne Hok2]]]].
        assert (Hs : tok_good t).
        { unfold pieces_good in Hsup. apply Forall_app in Hsup. destruct Hsup as [_ Hsup]. inversion Hsup as [|? ? Ht _]; subst. exact Ht. }
        assert (Hs2 : pieces_good ps2).
        { change (g ++ PLex t :: ps2) with (g ++ [PLex t] ++ ps2) in Hsup. rewrite app_assoc in Hsup. apply (supported_suffix _ _ Hsup). }
        rewrite app_length in Hn. cbn [length] in Hn.
        assert (HgF : (length g < F)%nat) by (clear -Hn HnF; lia).
        assert (Hnf : (n < f)%nat) by (clear -Hfu; lia). assert (HnF' : (n < F)%nat) by (clear -HnF; lia).
        destruct (pop_raw_step d HD F HF g t ps2 tk Hg HgF Hs Hfo (trail_ok_of_pieces _ _ Hok2 Hs2) HA)
          as [tok [tk' [E [Ek [Ev [El [Et [HA' [Hl' Hw']]]]]]]]].
        assert (Hls : lead_start (t_lead tok) = false) by (apply lead_start_false; rewrite El; exact Hk).
        rewrite (tk_pop_tok d F tk tok tk' F HF0 E Hls).
        rewrite Ek. rewrite (proj1 Hs).
        destruct (after_trail_suffix ps2) as [pre [Epre [Lpre Kpre]]].
        assert (Hok3 : pieces_ok (k_last tk') (snd (after_trail ps2)) = true).
        { rewrite Hl'. apply (pieces_ok_suffix pre); [exact Lpre|]. rewrite <- Epre. exact Hok2. }
        assert (Hs3 : pieces_good (snd (after_trail ps2))).
        { apply (supported_suffix pre). rewrite <- Epre. exact Hs2. }
        assert (Hlen3 : (length (snd (after_trail ps2)) <= n)%nat).
        { assert (Hl2 : length ps2 = (length pre + length (snd (after_trail ps2)))%nat) by (rewrite Epre at 1; apply app_length).
          clear -Hl2 Hn. lia. }
        assert (Hw3 : k_warn tk' = []) by (rewrite Hw'; exact Hw).
        destruct (IH (snd (after_trail ps2)) f tk' Hlen3 Hnf HnF' HA' Hok3 Hs3 Hw3)
          as [ts' [EL [EKV EKS]]].
        rewrite EL. cbn [add_tok]. exists (tok :: ts'). split; [reflexivity|]. split.
        * cbn [map]. rewrite lex_toks_app, (lex_toks_free g Lg). cbn [app lex_toks flat_map map].
          fold (lex_toks ps2). rewrite EKV. unfold tok_kv at 1 3. rewrite Ek, Ev. f_equal.
          rewrite Epre at 2. rewrite lex_toks_app, (lex_toks_free pre Lpre). reflexivity.
        * cbn [flat_map]. rewrite EKS. cbn [attached_keys]. rewrite ES. unfold tok_keys at 1. rewrite El, Et. rewrite <- app_assoc. reflexivity.
      + destruct (split_lex_none _ _ ES) as [-> Lg].
        assert (HgF : (length g < F)%nat) by (clear -Hn HnF; lia).
        destruct (pop_raw_end d HD F HF g tk (pieces_ok_final _ _ Lg Hok) HgF HA) as [tk' [E Ew]].
        rewrite (tk_pop_end d F tk tk' F HF0 E). rewrite Ew, Hw.
        exists []. split; [reflexivity|]. split; [rewrite (lex_toks_free g Lg); reflexivity|]. cbn [attached_keys]. rewrite ES. reflexivity.
  Qed.
End Lexing2.
