(* Lex/LexGrammar.v — the lexeme grammar both front ends are meant to realise (C18's LexSpec;
   the file name Lex/LexSpec.v is taken by the specification side of C11).

   Definitions only.  The grammar is LRM 15 (VHDL-2008) written as boolean character classes and a
   reference longest-match splitter `split_spec` over a flat byte string (a byte = a Latin-1
   character = a Unicode scalar < 256):

     separators   SPACE, NBSP, HT, VT, FF, LF, CR; comments `-- ...` up to the end of the line and `/* ... */`
     identifier   letter { letter | digit | '_' }            (basic; well-formedness of underlines is
                                                              not a matter of splitting)
                  \ ... \ with the backslash doubled          (extended)
     abstract     integer [ . integer ] [ exponent ]          (decimal)
                  integer # based [ . based ] # [ exponent ]  (based; ':' may replace both '#', 15.10,
                                                              when an extended digit follows the first)
     bit string   [ integer ] base_specifier " ... "          (the quotation mark doubled inside)
     character    ' c '  unless the previous lexeme is an identifier, `all`, ')' or ']'  (IR1045)
     string       " ... "                                     (the quotation mark doubled inside)
     delimiters   longest match among the simple and compound delimiters of 15.3 and the
                  VHDL-2008 matching operators
   `split_spec` returns `None` exactly on: an unterminated string, extended identifier, based literal
   or block comment; a character that starts no lexeme (control characters, '_', '$', '%', '!', '~',
   '{', '}', DEL, every byte >= 128 outside comments/strings/extended identifiers/character
   literals); a grave accent (tool directives are outside C18's quantifier).
   Independent of both lexer models (nothing is imported from them). *)
From Coq Require Import List NArith Arith Bool.
Import ListNotations.
Open Scope N_scope.

Definition lexeme := list N.

(* ---------- character classes ---------- *)
Definition in_rng (a b c : N) : bool := (a <=? c) && (c <=? b).
Definition digit (c : N) : bool := in_rng 48 57 c.
Definition lower_letter (c : N) : bool := in_rng 97 122 c.
Definition upper_letter (c : N) : bool := in_rng 65 90 c.
Definition letter (c : N) : bool := lower_letter c || upper_letter c.
Definition letter_or_digit (c : N) : bool := letter c || digit c.
Definition ident_char (c : N) : bool := letter c || digit c || (c =? 95).     (* letter | digit | '_' *)
Definition int_char (c : N) : bool := digit c || (c =? 95).                    (* digit | '_' *)
Definition to_lower (c : N) : N := if upper_letter c then c + 32 else c.
(* LRM 15.3: SPACE, NBSP, the format effectors HT VT CR LF FF *)
Definition separator (c : N) : bool := (c =? 32) || (c =? 160) || in_rng 9 13 c.
Definition eol (c : N) : bool := (c =? 10) || (c =? 13).
Definition is_e (c : N) : bool := (c =? 101) || (c =? 69).
Definition is_sign (c : N) : bool := (c =? 43) || (c =? 45).

Fixpoint span (p : N -> bool) (s : list N) : list N * list N :=
  match s with
  | x :: r => if p x then let '(a, b) := span p r in (x :: a, b) else ([], s)
  | [] => ([], [])
  end.

Fixpoint list_eqb (a b : list N) : bool :=
  match a, b with
  | [], [] => true
  | x :: a', y :: b' => (x =? y) && list_eqb a' b'
  | _, _ => false
  end.

(* ---------- separators and comments ---------- *)
Fixpoint drop_line (s : list N) : list N :=
  match s with
  | x :: r => if eol x then s else drop_line r
  | [] => []
  end.
(* after `/*`: the text after the closing `*/`; None = unterminated *)
Fixpoint drop_block (s : list N) : option (list N) :=
  match s with
  | [] => None
  | x :: r =>
    match r with
    | y :: r2 => if (x =? 42) && (y =? 47) then Some r2 else drop_block r
    | [] => None
    end
  end.
Definition starts2 (s : list N) (a b : N) : bool :=
  match s with x :: y :: _ => (x =? a) && (y =? b) | _ => false end.
(* skip separators and comments in front of the next lexeme; None = unterminated block comment *)
Fixpoint skip_gap (fuel : nat) (s : list N) : option (list N) :=
  match fuel with
  | O => None
  | S f =>
    match s with
    | [] => Some []
    | c :: r =>
      if separator c then skip_gap f r
      else if starts2 s 45 45 then skip_gap f (drop_line (tl r))
      else if starts2 s 47 42 then
        match drop_block (tl r) with Some r' => skip_gap f r' | None => None end
      else Some s
    end
  end.

(* ---------- quoted lexemes: string, extended identifier ---------- *)
(* after the opening quote q: (body including the closing quote, rest); None = unterminated *)
Fixpoint quoted_rest (q : N) (s : list N) : option (list N * list N) :=
  match s with
  | [] => None
  | x :: r =>
    if x =? q then
      match r with
      | y :: r2 => if y =? q then
                     match quoted_rest q r2 with Some (a, b) => Some (x :: y :: a, b) | None => None end
                   else Some ([x], r)
      | [] => Some ([x], [])
      end
    else match quoted_rest q r with Some (a, b) => Some (x :: a, b) | None => None end
  end.

(* ---------- base specifier of a bit string literal ---------- *)
Definition bs1 (c : N) : bool :=
  let l := to_lower c in (l =? 98) || (l =? 111) || (l =? 120) || (l =? 100).        (* b o x d *)
Definition bs2a (c : N) : bool := let l := to_lower c in (l =? 117) || (l =? 115).     (* u s *)
Definition bs2b (c : N) : bool := let l := to_lower c in (l =? 98) || (l =? 111) || (l =? 120).
(* length of a base specifier that is directly followed by a quotation mark *)
Definition base_spec_len (s : list N) : option nat :=
  match s with
  | a :: b :: r =>
    if bs1 a && (b =? 34) then Some 1%nat
    else if bs2a a && bs2b b && (match r with c :: _ => c =? 34 | [] => false end) then Some 2%nat
    else None
  | _ => None
  end.

(* ---------- abstract literals ---------- *)
Definition exponent (s : list N) : list N * list N :=
  match s with
  | e :: r =>
    if is_e e then
      let '(sg, r1) := match r with
                       | x :: r' => if is_sign x then ([x], r') else ([], r)
                       | [] => ([], r)
                       end in
      let '(d, r2) := span int_char r1 in (e :: sg ++ d, r2)
    else ([], s)
  | [] => ([], s)
  end.
(* after `integer ch` (ch = '#' or ':'): based [ . based ] ch [ exponent ]; None = unterminated *)
Definition based_rest (ch : N) (s : list N) : option (list N * list N) :=
  let '(b, r1) := span ident_char s in
  let '(fr, r2) := match r1 with
                   | d :: r1' => if d =? 46 then let '(b2, r') := span ident_char r1' in (46 :: b2, r')
                                 else ([], r1)
                   | [] => ([], r1)
                   end in
  match r2 with
  | x :: r3 => if x =? ch then let '(e, r4) := exponent r3 in Some (b ++ fr ++ [ch] ++ e, r4) else None
  | [] => None
  end.

(* what the next lexeme's tick may start: a character literal or only an attribute tick *)
Inductive after := AfterName | AfterOther.
Definition can_char (a : after) : bool := match a with AfterName => false | AfterOther => true end.

Definition KW_ALL : list N := [97; 108; 108].
(* class of a basic identifier: a reserved word other than `all` does not block a character literal *)
Definition ident_after (kws : list (list N)) (t : list N) : after :=
  let l := map to_lower t in
  if list_eqb l KW_ALL then AfterName
  else if existsb (list_eqb l) kws then AfterOther else AfterName.

(* abstract_literal ::= decimal_literal | based_literal, starting with the digit at the head of s;
   None = a based literal without its closing '#' (':') *)
Definition abstract_literal (s : list N) : option (lexeme * list N) :=
  let '(i, r) := span int_char s in
  match r with
  | [] => Some (i, r)
  | ch :: r1 =>
    if ch =? 46 then
      let '(f, r2) := span int_char r1 in
      let '(e, r3) := exponent r2 in Some (i ++ [46] ++ f ++ e, r3)
    else if (ch =? 35) || ((ch =? 58) && (match r1 with x :: _ => letter_or_digit x | [] => false end)) then
      match based_rest ch r1 with Some (t, r2) => Some (i ++ [ch] ++ t, r2) | None => None end
    else if is_e ch then
      let '(e, r2) := exponent r in Some (i ++ e, r2)
    else Some (i, r)
  end.
(* the lexeme that starts with a digit: an abstract literal, or
   bit_string_literal ::= integer base_specifier " ... "   when the abstract literal is an integer *)
Definition number (s : list N) : option (lexeme * list N) :=
  match abstract_literal s with
  | None => None
  | Some (t, r) =>
    if forallb int_char t then
      match base_spec_len r with
      | Some n =>
        match quoted_rest 34 (skipn (S n) r) with
        | Some (body, r2) => Some (t ++ firstn (S n) r ++ body, r2)
        | None => None
        end
      | None => Some (t, r)
      end
    else Some (t, r)
  end.

Definition delim (n : nat) (s : list N) : option (lexeme * list N * after) :=
  Some (firstn n s, skipn n s, AfterOther).
Definition hd_eq (s : list N) (c : N) : bool := match s with x :: _ => x =? c | [] => false end.
Definition snd_eq (s : list N) (c : N) : bool := match s with _ :: y :: _ => y =? c | _ => false end.

(* one lexeme from a non-empty s whose head is neither a separator nor a comment opener *)
Definition lexeme_step (kws : list (list N)) (prev : after) (s : list N)
  : option (lexeme * list N * after) :=
  match s with
  | [] => None
  | c :: r =>
    if letter c then
      match base_spec_len s with
      | Some n =>
        match quoted_rest 34 (skipn (S n) s) with
        | Some (body, r2) => Some (firstn (S n) s ++ body, r2, AfterOther)
        | None => None
        end
      | None => let '(t, r') := span ident_char s in Some (t, r', ident_after kws t)
      end
    else if digit c then
      match number s with Some (t, r') => Some (t, r', AfterOther) | None => None end
    else if c =? 39 then
      (if can_char prev && snd_eq r 39 then delim 3 s else delim 1 s)
    else if c =? 34 then
      match quoted_rest 34 r with Some (b, r') => Some (c :: b, r', AfterOther) | None => None end
    else if c =? 92 then
      match quoted_rest 92 r with Some (b, r') => Some (c :: b, r', AfterName) | None => None end
    else if c =? 41 then Some ([c], r, AfterName)
    else if c =? 93 then Some ([c], r, AfterName)
    else if (c =? 59) || (c =? 40) || (c =? 43) || (c =? 45) || (c =? 46) || (c =? 38) || (c =? 44)
            || (c =? 94) || (c =? 64) || (c =? 124) || (c =? 91) then delim 1 s
    else if c =? 58 then (if hd_eq r 61 then delim 2 s else delim 1 s)
    else if c =? 61 then (if hd_eq r 62 then delim 2 s else delim 1 s)
    else if c =? 60 then (if hd_eq r 61 || hd_eq r 62 || hd_eq r 60 then delim 2 s else delim 1 s)
    else if c =? 62 then (if hd_eq r 61 || hd_eq r 62 then delim 2 s else delim 1 s)
    else if c =? 47 then (if hd_eq r 61 then delim 2 s else delim 1 s)
    else if c =? 42 then (if hd_eq r 42 then delim 2 s else delim 1 s)
    else if c =? 63 then
      (if hd_eq r 63 || hd_eq r 61 then delim 2 s
       else if hd_eq r 47 then (if snd_eq r 61 then delim 3 s else delim 1 s)
       else if hd_eq r 60 || hd_eq r 62 then (if snd_eq r 61 then delim 3 s else delim 2 s)
       else delim 1 s)
    else None
  end.

(* the reference splitter *)
Fixpoint split_from (kws : list (list N)) (fuel : nat) (prev : after) (s : list N) : option (list lexeme) :=
  match fuel with
  | O => None
  | S f =>
    match skip_gap (S (length s)) s with
    | None => None
    | Some [] => Some []
    | Some ((_ :: _) as s1) =>
      match lexeme_step kws prev s1 with
      | None => None
      | Some (t, r, a) =>
        match split_from kws f a r with
        | Some ts => Some (t :: ts)
        | None => None
        end
      end
    end
  end.
Definition split_spec (kws : list (list N)) (s : list N) : option (list lexeme) :=
  split_from kws (S (length s)) AfterOther s.

(* ---------- recognisers of single lexemes (used in Examples and by the check's documentation) ---------- *)
Definition is_lexeme (kws : list (list N)) (t : list N) : bool :=
  match split_spec kws t with Some [t'] => list_eqb t t' | _ => false end.
