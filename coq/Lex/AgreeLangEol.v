(* Lex/AgreeLangEol.v — C18, vhdl_lang side, with CR and CR LF line breaks:

     Theorem lang_is_spec_eol : forall s : list N,
       latin1 s = true -> clean_lang s = true -> no_directive s = true -> no_pragma s = true ->
       has_crlf_char s = false ->
       lexemes_lang s = option_map (map norm_eol) (split_spec LangLexer.keywords_2008 s).

   i.e. Lex/AgreeLang.v's lang_is_spec without the hypothesis `no_cr s`: the lexemes of vhdl_lang's tokenizer are
   the lexemes of the reference splitter with every line break (LF, CR, CR LF) read as LF, provided the text
   tick CR LF tick does not occur (there vhdl_lang reads ONE character literal, the raw splitter two ticks).

   Structure
     1  norm_eol as a two-state scan `ne`; Contents::from_str reads concat (split_lines s) = norm_eol s
     2  the hypotheses of the quantifier carry over to the normalised text
     3  lang_is_spec_norm: AgreeLang.lex_spec applied to the normalised text
     4  span, exponent, based_rest, abstract_literal, quoted_rest, base_spec_len, number commute with `ne`
     5  lexeme_step commutes with `ne` (the character literal arm needs: no tick CR LF tick)
     6  skip_gap commutes with `ne`
     7  split_spec (norm_eol s) = map norm_eol (split_spec s)  (pure LexGrammar lemma), lang_is_spec_eol
   Everything is Qed; `Print Assumptions lang_is_spec_eol` at the end: Closed under the global context. *)
From Coq Require Import List NArith Arith Bool Lia ZifyBool ZifyN.
Import ListNotations.
From RH Require Import Text.Contents Text.ContentsProofs Text.Reader Text.ReaderProofs Text.ReaderInv
  Lex.LangLexer Lex.LexSpec Lex.LangLexerProofs Lex.LexGrammar Lex.Agree Lex.AgreeLang.
Open Scope N_scope.

#[local] Arguments N.add : simpl never.
#[local] Arguments N.sub : simpl never.
#[local] Arguments N.mul : simpl never.
#[local] Arguments N.eqb : simpl never.
#[local] Arguments N.ltb : simpl never.
#[local] Arguments N.leb : simpl never.

(* ------------------------------------------------------------------------------------------ *)
(* 1. norm_eol as a two-state scan; the text the tokenizer reads is norm_eol s                   *)
(* ------------------------------------------------------------------------------------------ *)
(* pc: the previous raw character was a CR (a directly following LF belongs to the same line break) *)
Fixpoint ne (pc : bool) (s : list N) : list N :=
  match s with
  | [] => []
  | c :: r => if c =? 10 then (if pc then ne false r else 10 :: ne false r)
              else if c =? 13 then 10 :: ne true r
              else c :: ne false r
  end.

Lemma ne_cons : forall pc c r, eol c = false -> ne pc (c :: r) = c :: ne false r.
Proof. intros pc c r H. unfold eol in H. cbn [ne]. replace (c =? 10) with false by lia. replace (c =? 13) with false by lia. reflexivity. Qed.
Lemma ne_lf_false : forall r, ne false (10 :: r) = 10 :: ne false r.
Proof. reflexivity. Qed.
Lemma ne_lf_true : forall r, ne true (10 :: r) = ne false r.
Proof. reflexivity. Qed.
Lemma ne_cr : forall pc r, ne pc (13 :: r) = 10 :: ne true r.
Proof. reflexivity. Qed.
Lemma ne_true_hd : forall r, hd_eq r 10 = false -> ne true r = ne false r.
Proof. intros [|d r] H; [reflexivity|]. cbn [hd_eq] in H. cbn [ne]. rewrite H. reflexivity. Qed.
Lemma ne_eol_false : forall c r, eol c = true -> exists X, ne false (c :: r) = 10 :: X.
Proof.
  intros c r H. unfold eol in H. destruct (c =? 10) eqn:E.
  - apply N.eqb_eq in E. subst c. eexists. reflexivity.
  - assert (c = 13) by lia. subst c. eexists. reflexivity.
Qed.

Lemma norm_eol_ne : forall s, norm_eol s = ne false s.
Proof.
  intro s. remember (length s) as n eqn:En. revert s En. induction n as [n IH] using lt_wf_ind. intros s En.
  destruct s as [|c r]; [reflexivity|]. cbn [norm_eol ne]. cbn [length] in En.
  destruct (c =? 13) eqn:E13.
  - replace (c =? 10) with false by lia. f_equal. destruct r as [|d0 r']; [reflexivity|]. destruct (d0 =? 10) eqn:E10.
    + apply N.eqb_eq in E10. subst d0. rewrite ne_lf_true. apply (IH (length r')); [cbn [length] in En; lia|reflexivity].
    + rewrite (ne_true_hd (d0 :: r') E10). apply (IH (length (d0 :: r'))); [lia|reflexivity].
  - rewrite (IH (length r) ltac:(lia) r eq_refl). destruct (c =? 10) eqn:E10; [apply N.eqb_eq in E10; subst c|]; reflexivity.
Qed.

Lemma concat_split_aux : forall s pc cur, concat (split_aux pc cur s) = rev cur ++ ne pc s.
Proof.
  induction s as [|c s IH]; intros pc cur.
  - cbn [split_aux ne]. rewrite app_nil_r. destruct cur as [|x cur]; [reflexivity|]. cbn [concat]. apply app_nil_r.
  - cbn [split_aux ne]. change LF with 10. change CR with 13. destruct (c =? 10) eqn:E10.
    + destruct pc; [apply IH|]. cbn [concat]. pose proof (IH false []) as E. cbn [rev app] in E.
      etransitivity; [apply f_equal; exact E|]. cbn [rev]. rewrite <- app_assoc. reflexivity.
    + destruct (c =? 13) eqn:E13.
      * cbn [concat]. pose proof (IH true []) as E. cbn [rev app] in E.
        etransitivity; [apply f_equal; exact E|]. cbn [rev]. rewrite <- app_assoc. reflexivity.
      * pose proof (IH false (c :: cur)) as E. cbn [rev] in E. rewrite <- app_assoc in E. exact E.
Qed.
Lemma concat_split_lines : forall s, concat (split_lines s) = ne false s.
Proof. intro s. unfold split_lines. rewrite concat_split_aux. reflexivity. Qed.

(* ------------------------------------------------------------------------------------------ *)
(* 2. the hypotheses of the quantifier carry over to the normalised text                        *)
(* ------------------------------------------------------------------------------------------ *)
Lemma ne_forallb : forall (p : N -> bool) s pc, p 10 = true -> forallb p s = true -> forallb p (ne pc s) = true.
Proof.
  intros p s. induction s as [|c s IH]; intros pc H10 H; [reflexivity|]. cbn [forallb] in H. apply andb_true_iff in H.
  destruct H as [Hc Hs]. cbn [ne]. destruct (c =? 10).
  - destruct pc; [apply IH; assumption|]. cbn [forallb]. rewrite H10. apply IH; assumption.
  - destruct (c =? 13); cbn [forallb]; [rewrite H10|rewrite Hc]; apply IH; assumption.
Qed.
Lemma ne_nocr : forall s pc, forallb (fun c => negb (c =? 13)) (ne pc s) = true.
Proof.
  induction s as [|c s IH]; intro pc; [reflexivity|]. cbn [ne]. destruct (c =? 10) eqn:E10.
  - destruct pc; [apply IH|]. cbn [forallb]. rewrite IH. reflexivity.
  - destruct (c =? 13) eqn:E13; cbn [forallb]; rewrite IH; [reflexivity|]. rewrite E13. reflexivity.
Qed.

(* occurrences of a window *)
Fixpoint occ (w : list N -> bool) (s : list N) : bool :=
  w s || match s with _ :: r => occ w r | [] => false end.
Lemma contains_occ : forall p s, contains p s = occ (is_prefix p) s.
Proof. intros p s. induction s as [|x s IH]; [reflexivity|]. cbn [contains occ]. rewrite IH. reflexivity. Qed.
(* a window that holds no line break and is found in the normalised text is in the raw text *)
Lemma occ_ne : forall (w : list N -> bool),
  (forall s, w (ne false s) = true -> w s = true) -> (forall X, w (10 :: X) = false) -> w [] = false ->
  forall s pc, occ w (ne pc s) = true -> occ w s = true.
Proof.
  intros w Hw H10 Hnil. induction s as [|c s IH]; intros pc H; [exact H|].
  cbn [occ]. cbn [ne] in H. destruct (c =? 10) eqn:E10.
  - destruct pc.
    + rewrite (IH _ H). apply orb_true_r.
    + cbn [occ] in H. rewrite H10 in H. cbn [orb] in H. rewrite (IH _ H). apply orb_true_r.
  - destruct (c =? 13) eqn:E13.
    + cbn [occ] in H. rewrite H10 in H. cbn [orb] in H. rewrite (IH _ H). apply orb_true_r.
    + cbn [occ] in H. apply orb_true_iff in H. destruct H as [H|H].
      * rewrite Hw; [reflexivity|]. cbn [ne]. rewrite E10, E13. exact H.
      * rewrite (IH _ H). apply orb_true_r.
Qed.
Lemma is_prefix_ne : forall p s, forallb (fun c => negb (eol c)) p = true ->
  is_prefix p (ne false s) = true -> is_prefix p s = true.
Proof.
  induction p as [|x p IH]; intros s Hp H; [reflexivity|]. cbn [forallb] in Hp. apply andb_true_iff in Hp. destruct Hp as [Hx Hp].
  destruct s as [|c s]; [discriminate|]. destruct (eol c) eqn:Ec.
  - destruct (ne_eol_false c s Ec) as [X EX]. rewrite EX in H. cbn [is_prefix] in H. unfold eol in Hx. lia.
  - rewrite (ne_cons false c s Ec) in H. cbn [is_prefix] in *. apply andb_true_iff in H. destruct H as [H1 H2].
    rewrite H1, (IH _ Hp H2). reflexivity.
Qed.
Lemma contains_ne : forall p s, p <> [] -> forallb (fun c => negb (eol c)) p = true ->
  contains p (ne false s) = true -> contains p s = true.
Proof.
  intros p s Hne Hp H. rewrite contains_occ in *. revert H. apply occ_ne.
  - intros s0. apply is_prefix_ne. exact Hp.
  - intro X. destruct p as [|x p]; [congruence|]. cbn [forallb] in Hp. cbn [is_prefix]. unfold eol in Hp. lia.
  - destruct p; [congruence|reflexivity].
Qed.
Lemma good_ne : forall s, latin1 s = true -> no_directive s = true -> no_pragma s = true ->
  good (ne false s) = true.
Proof.
  intros s H1 H2 H3. unfold good.
  assert (Hp : contains VHDL_LS (ne false s) = false).
  { destruct (contains VHDL_LS (ne false s)) eqn:E; [|reflexivity]. apply contains_ne in E; [|discriminate|reflexivity].
    unfold no_pragma in H3. rewrite E in H3. discriminate. }
  rewrite Hp, !andb_true_r.
  assert (Hall : forallb (fun c => (c <? 256) && negb (c =? 96)) (ne false s) = true).
  { apply ne_forallb; [reflexivity|]. unfold latin1, no_directive in *. clear -H1 H2.
    induction s as [|c s IH]; [reflexivity|]. cbn [forallb] in *. apply andb_true_iff in H1, H2.
    destruct H1 as [A1 B1]. destruct H2 as [A2 B2]. rewrite A1, A2, (IH B1 B2). reflexivity. }
  pose proof (ne_nocr s false) as Hcr. revert Hall Hcr. generalize (ne false s). clear.
  induction l as [|c l IH]; intros A B; [reflexivity|]. cbn [forallb] in *. apply andb_true_iff in A, B.
  destruct A as [A1 A2]. destruct B as [B1 B2]. rewrite (IH A2 B2). unfold chok. lia.
Qed.

(* ------------------------------------------------------------------------------------------ *)
(* 3. vhdl_lang's lexemes are the reference lexemes of the normalised text                      *)
(* ------------------------------------------------------------------------------------------ *)
Theorem lang_is_spec_norm : forall s : list N,
  latin1 s = true -> clean_lang s = true -> no_directive s = true -> no_pragma s = true ->
  lexemes_lang s = split_spec LangLexer.keywords_2008 (ne false s).
Proof.
  intros s H1 Hc H2 H3.
  pose proof (split_cdoc s) as HD.
  assert (HF : (length (concat (split_lines s)) < lex_fuel s)%nat).
  { pose proof (split_lines_length s). unfold lex_fuel. lia. }
  assert (HA : At (split_lines s) (k_rd tk_start) (ne false s)).
  { cbn [tk_start k_rd]. split; [apply rinv_start|]. split.
    - rewrite remaining_start. apply concat_split_lines.
    - apply good_ne; assumption. }
  unfold clean_lang, lexemes_lang, lang_result in *.
  destruct (lex_all s) as [ts ds|a] eqn:L; [|discriminate]. destruct ds as [|e ds]; [|discriminate].
  cbn [option_map snd]. unfold lex_all, lex_gen in L. unfold split_spec. symmetry.
  exact (lex_spec (split_lines s) HD keywords_2008 (lex_fuel s) HF (lex_fuel s) tk_start AfterOther _ ts HA eq_refl L
           (S (length (ne false s))) ltac:(lia)).
Qed.


(* ------------------------------------------------------------------------------------------ *)
(* 4. the scanners of the reference splitter commute with the normalisation of line breaks      *)
(* ------------------------------------------------------------------------------------------ *)
Definition noeol (l : list N) : bool := forallb (fun c => negb (eol c)) l.
(* a predicate that rejects both line-break characters *)
Definition rej (p : N -> bool) : Prop := p 10 = false /\ p 13 = false.
Lemma rej_eol : forall p c, rej p -> eol c = true -> p c = false.
Proof. intros p c [H1 H2] H. unfold eol in H. destruct (c =? 10) eqn:E; [apply N.eqb_eq in E; subst; exact H1|]. assert (c = 13) by lia. subst. exact H2. Qed.

Lemma ne_hd_cases : forall r,
  (r = [] /\ ne false r = []) \/
  (exists c r', r = c :: r' /\ eol c = false /\ ne false r = c :: ne false r') \/
  (exists c r' X, r = c :: r' /\ eol c = true /\ ne false r = 10 :: X).
Proof.
  intros [|c r']; [left; auto|]. destruct (eol c) eqn:E.
  - right; right. destruct (ne_eol_false c r' E) as [X EX]. exists c, r', X. auto.
  - right; left. exists c, r'. rewrite (ne_cons false c r' E). auto.
Qed.
Lemma ne_app_noeol : forall a b, noeol a = true -> ne false (a ++ b) = a ++ ne false b.
Proof.
  induction a as [|x a IH]; intros b H; [reflexivity|]. unfold noeol in H. cbn [forallb] in H. apply andb_true_iff in H.
  destruct H as [Hx Ha]. cbn [app]. rewrite ne_cons by (destruct (eol x); [discriminate|reflexivity]). rewrite (IH b Ha). reflexivity.
Qed.
Lemma ne_noeol : forall a, noeol a = true -> ne false a = a.
Proof. intros a H. rewrite <- (app_nil_r a) at 1. rewrite (ne_app_noeol a [] H). apply app_nil_r. Qed.
Lemma noeol_app : forall a b, noeol (a ++ b) = noeol a && noeol b.
Proof. intros a b. unfold noeol. induction a as [|x a IH]; [reflexivity|]. cbn [app forallb]. rewrite IH. apply andb_assoc. Qed.
Lemma noeol_forallb : forall p l, rej p -> forallb p l = true -> noeol l = true.
Proof.
  intros p l Hp. induction l as [|x l IH]; intro H; [reflexivity|]. cbn [forallb] in H. apply andb_true_iff in H. destruct H as [H1 H2].
  unfold noeol. cbn [forallb]. fold (noeol l). rewrite (IH H2). destruct (eol x) eqn:E; [|reflexivity].
  rewrite (rej_eol p x Hp E) in H1. discriminate.
Qed.
Definition hdp (q : N -> bool) (r : list N) : bool := match r with x :: _ => q x | [] => false end.
Lemma hdp_ne : forall q r, rej q -> hdp q (ne false r) = hdp q r.
Proof.
  intros q r Hq. destruct (ne_hd_cases r) as [[-> ->]|[[c [r' [-> [Ec ->]]]]|[c [r' [X [-> [Ec ->]]]]]]]; try reflexivity.
  cbn [hdp]. rewrite (rej_eol q c Hq Ec). apply Hq.
Qed.
Lemma hd_eq_ne : forall r k, eol k = false -> hd_eq (ne false r) k = hd_eq r k.
Proof. intros r k Hk. apply (hdp_ne (fun x => x =? k)). unfold eol in Hk. split; lia. Qed.

Lemma span_ne : forall p s, rej p -> span p (ne false s) = (fst (span p s), ne false (snd (span p s))).
Proof.
  intros p s Hp. induction s as [|c r IH]; [reflexivity|]. destruct (eol c) eqn:Ec.
  - destruct (ne_eol_false c r Ec) as [X EX]. rewrite (span_cons p c r), (rej_eol p c Hp Ec). cbn [fst snd]. rewrite EX.
    rewrite span_cons. replace (p 10) with false by (symmetry; apply Hp). reflexivity.
  - rewrite (ne_cons false c r Ec). rewrite !span_cons, IH. destruct (p c); cbn [fst snd]; [reflexivity|].
    rewrite (ne_cons false c r Ec). reflexivity.
Qed.
Lemma span_noeol : forall p s, rej p -> noeol (fst (span p s)) = true.
Proof. intros p s Hp. apply (noeol_forallb p); [exact Hp|apply span_all]. Qed.
Lemma rej_int_char : rej int_char. Proof. split; reflexivity. Qed.
Lemma rej_ident_char : rej ident_char. Proof. split; reflexivity. Qed.

Lemma sign_split_ne : forall r,
  noeol (fst (sign_split r)) = true /\ sign_split (ne false r) = (fst (sign_split r), ne false (snd (sign_split r))).
Proof.
  intro r. destruct (ne_hd_cases r) as [[-> ->]|[[c [r' [-> [Ec ->]]]]|[c [r' [X [-> [Ec E]]]]]]].
  - split; reflexivity.
  - cbn [sign_split]. destruct (is_sign c); cbn [fst snd].
    + split; [unfold noeol; cbn [forallb]; rewrite Ec; reflexivity|reflexivity].
    + rewrite (ne_cons false c r' Ec). split; reflexivity.
  - cbn [sign_split]. replace (is_sign c) with false by (unfold eol in Ec; unfold is_sign; lia). cbn [fst snd].
    rewrite E. split; reflexivity.
Qed.
Lemma exp_tail_ne : forall r,
  noeol (fst (exp_tail r)) = true /\ exp_tail (ne false r) = (fst (exp_tail r), ne false (snd (exp_tail r))).
Proof.
  intro r. rewrite !exp_tail_eq. destruct (sign_split_ne r) as [N1 E1]. rewrite E1. cbn [fst snd].
  rewrite (span_ne int_char _ rej_int_char). cbn [fst snd].
  split; [rewrite noeol_app, N1; apply (span_noeol int_char _ rej_int_char)|reflexivity].
Qed.
Lemma exponent_ne : forall s,
  noeol (fst (exponent s)) = true /\ exponent (ne false s) = (fst (exponent s), ne false (snd (exponent s))).
Proof.
  intro s. destruct (ne_hd_cases s) as [[-> ->]|[[c [r' [-> [Ec E]]]]|[c [r' [X [-> [Ec E]]]]]]].
  - split; reflexivity.
  - rewrite E. destruct (LexGrammar.is_e c) eqn:Ee.
    + rewrite !(exponent_e c _ Ee). cbn [fst snd]. destruct (exp_tail_ne r') as [N1 E1]. rewrite E1. cbn [fst snd].
      split; [|reflexivity]. unfold noeol in *. cbn [forallb]. rewrite Ec, N1. reflexivity.
    + rewrite (exponent_not_e (c :: ne false r') Ee), (exponent_not_e (c :: r') Ee). cbn [fst snd]. rewrite E. split; reflexivity.
  - assert (Ee : LexGrammar.is_e c = false) by (unfold eol in Ec; unfold LexGrammar.is_e; lia).
    rewrite E, (exponent_not_e (c :: r') Ee), (exponent_not_e (10 :: X) eq_refl). cbn [fst snd]. rewrite E. split; reflexivity.
Qed.
Lemma frac_split_ne : forall r,
  noeol (fst (frac_split r)) = true /\ frac_split (ne false r) = (fst (frac_split r), ne false (snd (frac_split r))).
Proof.
  intro r. destruct (ne_hd_cases r) as [[-> ->]|[[c [r' [-> [Ec E]]]]|[c [r' [X [-> [Ec E]]]]]]].
  - split; reflexivity.
  - rewrite E. cbn [frac_split]. destruct (c =? 46) eqn:E46.
    + rewrite (span_ne ident_char _ rej_ident_char). rewrite (span_pair ident_char r'). cbn [fst snd].
      split; [|reflexivity]. unfold noeol. cbn [forallb]. apply (span_noeol ident_char _ rej_ident_char).
    + cbn [fst snd]. rewrite E. split; reflexivity.
  - rewrite E. cbn [frac_split]. replace (c =? 46) with false by (unfold eol in Ec; lia). change (10 =? 46) with false.
    cbn [fst snd]. rewrite E. split; reflexivity.
Qed.
Lemma based_rest_ne : forall ch s, eol ch = false ->
  match based_rest ch s with
  | Some (t, r) => noeol t = true /\ based_rest ch (ne false s) = Some (t, ne false r)
  | None => based_rest ch (ne false s) = None
  end.
Proof.
  intros ch s Hch. rewrite !based_rest_unf.
  pose proof (span_ne ident_char s rej_ident_char) as Es. pose proof (span_noeol ident_char s rej_ident_char) as Nb.
  revert Es Nb. destruct (span ident_char s) as [b r1]. cbn [fst snd]. intros Es Nb. rewrite Es. cbv beta iota.
  destruct (frac_split_ne r1) as [N1 E1]. revert N1 E1. destruct (frac_split r1) as [fr r2]. cbn [fst snd]. intros N1 E1.
  rewrite E1. cbv beta iota.
  destruct (ne_hd_cases r2) as [[-> ->]|[[c [r' [-> [Ec E]]]]|[c [r' [X [-> [Ec E]]]]]]].
  - reflexivity.
  - rewrite E. destruct (c =? ch) eqn:Ex; [|reflexivity]. destruct (exponent_ne r') as [N2 E2]. revert N2 E2.
    destruct (exponent r') as [e r4]. cbn [fst snd]. intros N2 E2. rewrite E2. split; [|reflexivity].
    rewrite !noeol_app, Nb, N1, N2. unfold noeol. cbn [forallb]. rewrite Hch. reflexivity.
  - rewrite E. replace (c =? ch) with false by (unfold eol in *; lia). replace (10 =? ch) with false by (unfold eol in *; lia). reflexivity.
Qed.
Lemma abstract_literal_ne : forall s,
  match abstract_literal s with
  | Some (t, r) => noeol t = true /\ abstract_literal (ne false s) = Some (t, ne false r)
  | None => abstract_literal (ne false s) = None
  end.
Proof.
  intro s. pose proof (span_ne int_char s rej_int_char) as Es. pose proof (span_noeol int_char s rej_int_char) as Ni.
  rewrite (abstract_literal_unf s _ _ (span_pair int_char s)). rewrite (abstract_literal_unf (ne false s) _ _ Es).
  remember (fst (span int_char s)) as i eqn:Ei. remember (snd (span int_char s)) as r eqn:Er. clear Es Ei Er.
  destruct (ne_hd_cases r) as [[-> ->]|[[c [r1 [-> [Ec E]]]]|[c [r1 [X [-> [Ec E]]]]]]].
  - split; [exact Ni|reflexivity].
  - rewrite E. destruct (c =? 46) eqn:E46.
    + pose proof (span_ne int_char r1 rej_int_char) as Es1. pose proof (span_noeol int_char r1 rej_int_char) as Nf.
      revert Es1 Nf. destruct (span int_char r1) as [f r2]. cbn [fst snd]. intros Es1 Nf. rewrite Es1. cbv beta iota.
      destruct (exponent_ne r2) as [N2 E2]. revert N2 E2. destruct (exponent r2) as [e r3]. cbn [fst snd]. intros N2 E2.
      rewrite E2. split; [|reflexivity]. rewrite !noeol_app, Ni, N2, Nf. reflexivity.
    + change (match ne false r1 with x :: _ => letter_or_digit x | [] => false end) with (hdp letter_or_digit (ne false r1)).
      rewrite (hdp_ne letter_or_digit r1) by (split; reflexivity).
      change (hdp letter_or_digit r1) with (match r1 with x :: _ => letter_or_digit x | [] => false end).
      destruct ((c =? 35) || (c =? 58) && match r1 with x :: _ => letter_or_digit x | [] => false end).
      * pose proof (based_rest_ne c r1 Ec) as HB. destruct (based_rest c r1) as [[t r2]|].
        -- destruct HB as [N2 ->]. split; [|reflexivity]. rewrite !noeol_app, Ni, N2. unfold noeol. cbn [forallb]. rewrite Ec. reflexivity.
        -- rewrite HB. reflexivity.
      * destruct (LexGrammar.is_e c).
        -- rewrite <- E. destruct (exponent_ne (c :: r1)) as [N2 E2]. revert N2 E2. destruct (exponent (c :: r1)) as [e r2].
           cbn [fst snd]. intros N2 E2. rewrite E2. split; [|reflexivity]. rewrite noeol_app, Ni, N2. reflexivity.
        -- rewrite E. split; [exact Ni|reflexivity].
  - rewrite E. replace (c =? 46) with false by (unfold eol in Ec; lia). replace (c =? 35) with false by (unfold eol in Ec; lia).
    replace (c =? 58) with false by (unfold eol in Ec; lia). replace (LexGrammar.is_e c) with false by (unfold eol in Ec; unfold LexGrammar.is_e; lia).
    change (10 =? 46) with false. change (10 =? 35) with false. change (10 =? 58) with false. change (LexGrammar.is_e 10) with false.
    cbn [orb andb]. rewrite E. split; [exact Ni|reflexivity].
Qed.

Lemma quoted_rest_ne : forall q, eol q = false -> forall x pc,
  quoted_rest q (ne pc x) = match quoted_rest q x with Some (a, b) => Some (ne pc a, ne false b) | None => None end.
Proof.
  intros q Hq x. remember (length x) as n eqn:En. revert x En. induction n as [n IH] using lt_wf_ind. intros x En pc.
  destruct x as [|c r]; [reflexivity|]. cbn [length] in En.
  assert (IHr : forall pc', quoted_rest q (ne pc' r) = match quoted_rest q r with Some (a, b) => Some (ne pc' a, ne false b) | None => None end).
  { intro pc'. apply (IH (length r)); [lia|reflexivity]. }
  destruct (c =? q) eqn:Ecq.
  - apply N.eqb_eq in Ecq. subst c. rewrite (ne_cons pc q r Hq). rewrite !quoted_rest_cons, N.eqb_refl.
    destruct (ne_hd_cases r) as [[-> ->]|[[y [r2 [-> [Ey E]]]]|[y [r2 [X [-> [Ey E]]]]]]].
    + rewrite (ne_cons pc q [] Hq). reflexivity.
    + rewrite E. destruct (y =? q) eqn:Eyq.
      * apply N.eqb_eq in Eyq. subst y. rewrite (IH (length r2) ltac:(cbn [length] in En; lia) r2 eq_refl false).
        destruct (quoted_rest q r2) as [[a b]|]; [|reflexivity]. rewrite (ne_cons pc q _ Hq), (ne_cons false q _ Hq). reflexivity.
      * rewrite (ne_cons pc q [] Hq), E. reflexivity.
    + rewrite E. replace (y =? q) with false by (unfold eol in *; lia). replace (10 =? q) with false by (unfold eol in *; lia).
      rewrite (ne_cons pc q [] Hq), E. reflexivity.
  - rewrite (quoted_rest_cons q c r), Ecq. cbn [ne]. destruct (c =? 10) eqn:E10.
    + apply N.eqb_eq in E10. subst c. destruct pc.
      * rewrite IHr. destruct (quoted_rest q r) as [[a b]|]; reflexivity.
      * rewrite quoted_rest_cons, Ecq, IHr. destruct (quoted_rest q r) as [[a b]|]; reflexivity.
    + destruct (c =? 13) eqn:E13.
      * apply N.eqb_eq in E13. subst c. rewrite quoted_rest_cons. replace (10 =? q) with false by (unfold eol in Hq; lia).
        rewrite IHr. destruct (quoted_rest q r) as [[a b]|]; reflexivity.
      * rewrite quoted_rest_cons, Ecq, IHr. destruct (quoted_rest q r) as [[a b]|]; [|reflexivity]. cbn [ne]. rewrite E10, E13. reflexivity.
Qed.

Lemma ne_split : forall a b, noeol a = true ->
  firstn (length a) (ne false (a ++ b)) = a /\ skipn (length a) (ne false (a ++ b)) = ne false b.
Proof.
  intros a b H. rewrite (ne_app_noeol a b H). split; [eapply firstn_len_eq; reflexivity|eapply skipn_len_eq; reflexivity].
Qed.
Lemma base_spec_len_ne : forall s, base_spec_len (ne false s) = base_spec_len s.
Proof.
  intro s. destruct (ne_hd_cases s) as [[-> ->]|[[a [r1 [-> [Ea E]]]]|[a [r1 [X [-> [Ea E]]]]]]].
  - reflexivity.
  - rewrite E. destruct (ne_hd_cases r1) as [[-> ->]|[[b [r2 [-> [Eb E2]]]]|[b [r2 [X [-> [Eb E2]]]]]]].
    + reflexivity.
    + rewrite E2. unfold base_spec_len. change (match ne false r2 with c :: _ => c =? 34 | [] => false end) with (hd_eq (ne false r2) 34).
      rewrite hd_eq_ne by reflexivity. reflexivity.
    + rewrite E2. unfold base_spec_len. replace (b =? 34) with false by (unfold eol in Eb; lia). change (10 =? 34) with false.
      replace (bs2b b) with false. 2:{ unfold eol in Eb. destruct (b =? 10) eqn:E10; [apply N.eqb_eq in E10; subst b; reflexivity|].
                                      assert (b = 13) by lia. subst b. reflexivity. }
      change (bs2b 10) with false. rewrite !andb_false_r. reflexivity.
  - rewrite E. rewrite (base_spec_len_none 10 X eq_refl eq_refl). symmetry. apply base_spec_len_none.
    + unfold eol in Ea. destruct (a =? 10) eqn:E10; [apply N.eqb_eq in E10; subst a; reflexivity|]. assert (a = 13) by lia. subst a. reflexivity.
    + unfold eol in Ea. destruct (a =? 10) eqn:E10; [apply N.eqb_eq in E10; subst a; reflexivity|]. assert (a = 13) by lia. subst a. reflexivity.
Qed.
Lemma bs_letter_noeol : forall a, bs1 a || bs2a a = true -> eol a = false.
Proof.
  intros a H. destruct (eol a) eqn:E; [|reflexivity]. unfold eol in E.
  destruct (a =? 10) eqn:E10; [apply N.eqb_eq in E10; subst a; discriminate|]. assert (a = 13) by lia. subst a. discriminate.
Qed.
Lemma base_spec_len_prefix : forall s n, base_spec_len s = Some n ->
  exists a b, s = a ++ b /\ length a = S n /\ noeol a = true.
Proof.
  intros s n H. unfold base_spec_len in H. destruct s as [|a [|b r]]; try discriminate.
  destruct (bs1 a && (b =? 34)) eqn:E1.
  - injection H as <-. apply andb_true_iff in E1. destruct E1 as [Ea Eb]. exists [a; b], r. split; [reflexivity|]. split; [reflexivity|].
    unfold noeol. cbn [forallb]. rewrite (bs_letter_noeol a) by (rewrite Ea; reflexivity). replace (eol b) with false by (unfold eol; lia). reflexivity.
  - destruct (bs2a a && bs2b b && match r with c :: _ => c =? 34 | [] => false end) eqn:E2; [|discriminate]. injection H as <-.
    apply andb_true_iff in E2. destruct E2 as [E2 Ec]. apply andb_true_iff in E2. destruct E2 as [Ea Eb].
    destruct r as [|c r]; [discriminate|]. exists [a; b; c], r. split; [reflexivity|]. split; [reflexivity|].
    unfold noeol. cbn [forallb]. rewrite (bs_letter_noeol a) by (rewrite Ea; apply orb_true_r).
    replace (eol c) with false by (unfold eol; lia).
    replace (eol b) with false; [reflexivity|]. symmetry. destruct (eol b) eqn:E; [|reflexivity]. unfold eol in E.
    destruct (b =? 10) eqn:E10; [apply N.eqb_eq in E10; subst b; discriminate|]. assert (b = 13) by lia. subst b. discriminate.
Qed.
(* a bit string literal: base specifier and quoted part *)
Lemma bit_string_ne : forall s n,
  base_spec_len s = Some n ->
  match quoted_rest 34 (skipn (S n) (ne false s)) with
  | Some (body', r') =>
    exists body r, quoted_rest 34 (skipn (S n) s) = Some (body, r) /\ r' = ne false r /\
                   firstn (S n) (ne false s) ++ body' = ne false (firstn (S n) s ++ body)
  | None => quoted_rest 34 (skipn (S n) s) = None
  end.
Proof.
  intros s n H. destruct (base_spec_len_prefix s n H) as [a [b [-> [La Na]]]]. rewrite <- La.
  destruct (ne_split a b Na) as [E1 E2]. rewrite E1, E2.
  rewrite (firstn_len_eq _ a b (a ++ b) eq_refl), (skipn_len_eq _ a b (a ++ b) eq_refl).
  rewrite (quoted_rest_ne 34 eq_refl b false). destruct (quoted_rest 34 b) as [[body r]|]; [|reflexivity].
  exists body, r. split; [reflexivity|]. split; [reflexivity|]. rewrite (ne_app_noeol a body Na). reflexivity.
Qed.
Lemma number_ne : forall s,
  number (ne false s) = match number s with Some (t, r) => Some (ne false t, ne false r) | None => None end.
Proof.
  intro s. unfold number. pose proof (abstract_literal_ne s) as HA. destruct (abstract_literal s) as [[t r]|]; [|rewrite HA; reflexivity].
  destruct HA as [Nt ->]. rewrite base_spec_len_ne. destruct (forallb int_char t); [|rewrite (ne_noeol t Nt); reflexivity].
  destruct (base_spec_len r) as [n|] eqn:Eb; [|rewrite (ne_noeol t Nt); reflexivity].
  pose proof (bit_string_ne r n Eb) as HB. destruct (quoted_rest 34 (skipn (S n) (ne false r))) as [[body' r']|].
  - destruct HB as [body [r2 [-> [-> E]]]]. f_equal. f_equal. rewrite E. symmetry. apply (ne_app_noeol t _ Nt).
  - rewrite HB. reflexivity.
Qed.


(* ------------------------------------------------------------------------------------------ *)
(* 5. one lexeme                                                                                 *)
(* ------------------------------------------------------------------------------------------ *)
Definition tr3 (x : lexeme * list N * after) : lexeme * list N * after :=
  let '(t, r, a) := x in (ne false t, ne false r, a).
Definition CRLF_CHAR : list N := [39; 13; 10; 39].

Lemma delim_ne : forall n s, noeol (firstn n s) = true -> delim n (ne false s) = option_map tr3 (delim n s).
Proof.
  intros n s H. unfold delim. cbn [option_map tr3].
  assert (E : ne false s = firstn n s ++ ne false (skipn n s)).
  { rewrite <- (firstn_skipn n s) at 1. apply ne_app_noeol. exact H. }
  rewrite E, (ne_noeol _ H).
  assert (L : length (firstn n s) = n \/ ((length (firstn n s) <= n)%nat /\ skipn n s = [])).
  { destruct (le_lt_dec n (length s)) as [Hl|Hl]; [left; rewrite firstn_length; lia|right].
    split; [rewrite firstn_length; lia|apply skipn_all2; lia]. }
  remember (firstn n s) as a eqn:Ea. remember (skipn n s) as b eqn:Eb. clear E Ea Eb H. destruct L as [L|[L ->]].
  - rewrite <- L. rewrite (firstn_len_eq _ a (ne false b) _ eq_refl), (skipn_len_eq _ a (ne false b) _ eq_refl). reflexivity.
  - cbn [ne]. rewrite app_nil_r. rewrite (firstn_all2 a L), (skipn_all2 a L). reflexivity.
Qed.
Lemma snd_eq_ne : forall r k, hdp (fun x => negb (eol x)) r = true -> eol k = false -> snd_eq (ne false r) k = snd_eq r k.
Proof.
  intros [|y r1] k H Hk; [reflexivity|]. cbn [hdp] in H. rewrite (ne_cons false y r1) by (destruct (eol y); [discriminate|reflexivity]).
  change (snd_eq (y :: ne false r1) k) with (hd_eq (ne false r1) k). change (snd_eq (y :: r1) k) with (hd_eq r1 k).
  apply hd_eq_ne. exact Hk.
Qed.
Lemma tick_snd : forall r0, is_prefix [13; 10; 39] r0 = false -> snd_eq (ne false r0) 39 = snd_eq r0 39.
Proof.
  intros r0 H. destruct r0 as [|x r1]; [reflexivity|]. destruct (x =? 13) eqn:E13.
  - apply N.eqb_eq in E13. subst x. rewrite ne_cr. change (snd_eq (10 :: ne true r1) 39) with (hd_eq (ne true r1) 39).
    change (snd_eq (13 :: r1) 39) with (hd_eq r1 39). destruct r1 as [|y r2]; [reflexivity|]. destruct (y =? 10) eqn:E10.
    + apply N.eqb_eq in E10. subst y. rewrite ne_lf_true. rewrite hd_eq_ne by reflexivity.
      cbn [is_prefix] in H. change (13 =? 13) with true in H. change (10 =? 10) with true in H. cbn [andb] in H.
      destruct r2 as [|z r3]; [reflexivity|]. cbn [is_prefix] in H. rewrite andb_true_r in H. cbn [hd_eq]. rewrite N.eqb_sym, H. reflexivity.
    + rewrite (ne_true_hd (y :: r2) E10). apply hd_eq_ne. reflexivity.
  - destruct (x =? 10) eqn:E10.
    + apply N.eqb_eq in E10. subst x. rewrite ne_lf_false. change (snd_eq (10 :: ne false r1) 39) with (hd_eq (ne false r1) 39).
      change (snd_eq (10 :: r1) 39) with (hd_eq r1 39). apply hd_eq_ne. reflexivity.
    + apply snd_eq_ne; [|reflexivity]. cbn [hdp]. unfold eol. rewrite E10, E13. reflexivity.
Qed.
Lemma tick3 : forall r0, snd_eq r0 39 = true -> delim 3 (39 :: ne false r0) = option_map tr3 (delim 3 (39 :: r0)).
Proof.
  intros r0 H. destruct r0 as [|x [|y r2]]; try discriminate. cbn [snd_eq] in H. apply N.eqb_eq in H. subst y.
  destruct (x =? 13) eqn:E13; [apply N.eqb_eq in E13; subst x; reflexivity|].
  destruct (x =? 10) eqn:E10; [apply N.eqb_eq in E10; subst x; reflexivity|].
  assert (Ex : eol x = false) by (unfold eol; rewrite E10, E13; reflexivity).
  rewrite (ne_cons false x _ Ex), (ne_cons false 39 r2 eq_refl). unfold delim. cbn [firstn skipn option_map tr3].
  rewrite (ne_cons false 39 _ eq_refl), (ne_cons false x _ Ex). reflexivity.
Qed.

Local Ltac d1 Ec := apply delim_ne; cbn [firstn]; unfold noeol; cbn [forallb]; rewrite Ec; reflexivity.
Local Ltac d2 Ec Eh r0 :=
  apply delim_ne; destruct r0 as [|? ?]; [discriminate Eh|]; cbn [hd_eq] in Eh; cbn [firstn]; unfold noeol; cbn [forallb];
  rewrite Ec; match goal with |- context [eol ?y] => replace (eol y) with false by (unfold eol; lia) end; reflexivity.
Local Ltac d3 Ec Eh Es r0 :=
  apply delim_ne; destruct r0 as [|? [|? ?]]; try discriminate; cbn [hd_eq snd_eq] in Eh, Es; cbn [firstn]; unfold noeol;
  cbn [forallb]; rewrite Ec;
  repeat match goal with |- context [eol ?y] => replace (eol y) with false by (unfold eol; lia) end; reflexivity.

Lemma lexeme_step_ne : forall kws prev c r0, eol c = false -> is_prefix CRLF_CHAR (c :: r0) = false ->
  lexeme_step kws prev (ne false (c :: r0)) = option_map tr3 (lexeme_step kws prev (c :: r0)).
Proof.
  intros kws prev c r0 Ec Hp. pose proof (ne_cons false c r0 Ec) as En. rewrite En. unfold lexeme_step.
  destruct (letter c) eqn:El.
  { rewrite <- En. rewrite base_spec_len_ne. destruct (base_spec_len (c :: r0)) as [n|] eqn:Eb.
    - pose proof (bit_string_ne (c :: r0) n Eb) as HB.
      destruct (quoted_rest 34 (skipn (S n) (ne false (c :: r0)))) as [[body' r']|].
      + destruct HB as [body [r [-> [-> E]]]]. cbn [option_map tr3]. rewrite E. reflexivity.
      + rewrite HB. reflexivity.
    - pose proof (span_ne ident_char (c :: r0) rej_ident_char) as Es. pose proof (span_noeol ident_char (c :: r0) rej_ident_char) as Nt.
      revert Es Nt. destruct (span ident_char (c :: r0)) as [t r']. cbn [fst snd]. intros Es Nt. rewrite Es. cbn [option_map tr3].
      rewrite (ne_noeol t Nt). reflexivity. }
  destruct (digit c) eqn:Ed.
  { rewrite <- En. rewrite number_ne. destruct (number (c :: r0)) as [[t r']|]; reflexivity. }
  destruct (c =? 39) eqn:E39.
  { apply N.eqb_eq in E39. subst c. assert (Hp' : is_prefix [13; 10; 39] r0 = false) by exact Hp.
    rewrite (tick_snd r0 Hp'). destruct (can_char prev && snd_eq r0 39) eqn:Ecs.
    - apply tick3. apply andb_true_iff in Ecs. tauto.
    - rewrite <- En. d1 Ec. }
  destruct (c =? 34) eqn:E34.
  { rewrite (quoted_rest_ne 34 eq_refl r0 false). destruct (quoted_rest 34 r0) as [[b r']|]; [|reflexivity].
    cbn [option_map tr3]. rewrite (ne_cons false c b Ec). reflexivity. }
  destruct (c =? 92) eqn:E92.
  { rewrite (quoted_rest_ne 92 eq_refl r0 false). destruct (quoted_rest 92 r0) as [[b r']|]; [|reflexivity].
    cbn [option_map tr3]. rewrite (ne_cons false c b Ec). reflexivity. }
  destruct (c =? 41). { cbn [option_map tr3]. rewrite (ne_cons false c [] Ec). reflexivity. }
  destruct (c =? 93). { cbn [option_map tr3]. rewrite (ne_cons false c [] Ec). reflexivity. }
  rewrite !hd_eq_ne by reflexivity. rewrite <- En.
  destruct ((c =? 59) || (c =? 40) || (c =? 43) || (c =? 45) || (c =? 46) || (c =? 38) || (c =? 44) || (c =? 94) || (c =? 64) || (c =? 124) || (c =? 91)).
  { d1 Ec. }
  destruct (c =? 58). { destruct (hd_eq r0 61) eqn:Eh; [d2 Ec Eh r0|d1 Ec]. }
  destruct (c =? 61). { destruct (hd_eq r0 62) eqn:Eh; [d2 Ec Eh r0|d1 Ec]. }
  destruct (c =? 60). { destruct (hd_eq r0 61 || hd_eq r0 62 || hd_eq r0 60) eqn:Eh; [d2 Ec Eh r0|d1 Ec]. }
  destruct (c =? 62). { destruct (hd_eq r0 61 || hd_eq r0 62) eqn:Eh; [d2 Ec Eh r0|d1 Ec]. }
  destruct (c =? 47). { destruct (hd_eq r0 61) eqn:Eh; [d2 Ec Eh r0|d1 Ec]. }
  destruct (c =? 42). { destruct (hd_eq r0 42) eqn:Eh; [d2 Ec Eh r0|d1 Ec]. }
  destruct (c =? 63); [|reflexivity].
  destruct (hd_eq r0 63 || hd_eq r0 61) eqn:Eh; [d2 Ec Eh r0|].
  destruct (hd_eq r0 47) eqn:E47.
  { rewrite En. rewrite snd_eq_ne; [|destruct r0; [discriminate|cbn [hd_eq] in E47; cbn [hdp]; unfold eol; lia]|reflexivity].
    rewrite <- En. destruct (snd_eq r0 61) eqn:Es; [d3 Ec E47 Es r0|d1 Ec]. }
  destruct (hd_eq r0 60 || hd_eq r0 62) eqn:E60; [|d1 Ec].
  rewrite En. rewrite snd_eq_ne; [|destruct r0; [discriminate|cbn [hd_eq] in E60; cbn [hdp]; unfold eol; lia]|reflexivity].
  rewrite <- En. destruct (snd_eq r0 61) eqn:Es; [d3 Ec E60 Es r0|d2 Ec E60 r0].
Qed.



(* ------------------------------------------------------------------------------------------ *)
(* 6. separators and comments                                                                    *)
(* ------------------------------------------------------------------------------------------ *)
Lemma drop_line_ne : forall y, drop_line (ne false y) = ne false (drop_line y).
Proof.
  induction y as [|c y IH]; [reflexivity|]. destruct (eol c) eqn:Ec.
  - destruct (ne_eol_false c y Ec) as [X EX]. cbn [drop_line]. rewrite Ec, EX. reflexivity.
  - rewrite (ne_cons false c y Ec). cbn [drop_line]. rewrite Ec. exact IH.
Qed.
Lemma drop_block_skip : forall x Z, (x =? 42) = false -> drop_block (x :: Z) = drop_block Z.
Proof. intros x Z H. rewrite drop_block_cons. destruct Z as [|y Z']; [reflexivity|]. rewrite H. reflexivity. Qed.
Lemma drop_block_ne : forall y pc, drop_block (ne pc y) = option_map (ne false) (drop_block y).
Proof.
  induction y as [|x y IH]; intro pc; [reflexivity|]. cbn [ne]. destruct (x =? 10) eqn:E10.
  - rewrite (drop_block_skip x y) by lia. destruct pc; [apply IH|]. rewrite drop_block_skip by reflexivity. apply IH.
  - destruct (x =? 13) eqn:E13.
    + rewrite (drop_block_skip x y) by lia. rewrite drop_block_skip by reflexivity. apply IH.
    + destruct (x =? 42) eqn:E42.
      * apply N.eqb_eq in E42. subst x. rewrite !drop_block_cons.
        destruct (ne_hd_cases y) as [[-> ->]|[[c [r' [-> [Ec E]]]]|[c [r' [X [-> [Ec E]]]]]]].
        -- reflexivity.
        -- rewrite E. change (42 =? 42) with true. cbn [andb]. destruct (c =? 47); [reflexivity|].
           rewrite <- E. apply IH.
        -- rewrite E. change (42 =? 42) with true. cbn [andb]. replace (c =? 47) with false by (unfold eol in Ec; lia).
           change (10 =? 47) with false. rewrite <- E. apply IH.
      * rewrite (drop_block_skip x y E42), (drop_block_skip x _ E42). apply IH.
Qed.

Lemma starts2_hd : forall c X a b, starts2 (c :: X) a b = (c =? a) && hd_eq X b.
Proof. intros c [|y X] a b; [rewrite andb_false_r|]; reflexivity. Qed.
Lemma sep_eol : forall c, separator c = false -> eol c = false.
Proof. intros c H. unfold separator, in_rng in H. unfold eol. lia. Qed.

(* the four cases of skip_gap at a non-empty text *)
Lemma gap_cases : forall c r,
  (separator c = true /\ gap (c :: r) = gap r) \/
  (separator c = false /\ exists y, c = 45 /\ r = 45 :: y /\ gap (c :: r) = gap (drop_line y)) \/
  (separator c = false /\ exists y, c = 47 /\ r = 42 :: y /\
     gap (c :: r) = match drop_block y with Some r' => gap r' | None => None end) \/
  (separator c = false /\ starts2 (c :: r) 45 45 = false /\ starts2 (c :: r) 47 42 = false /\ gap (c :: r) = Some (c :: r)).
Proof.
  intros c r. destruct (separator c) eqn:Es; [left; split; [reflexivity|apply gap_sep; exact Es]|right].
  destruct (starts2 (c :: r) 45 45) eqn:E1.
  - left. split; [reflexivity|]. rewrite starts2_hd in E1. apply andb_true_iff in E1. destruct E1 as [Ec Eh].
    destruct r as [|y0 y]; [discriminate|]. cbn [hd_eq] in Eh. apply N.eqb_eq in Ec, Eh. subst c y0.
    exists y. split; [reflexivity|]. split; [reflexivity|apply gap_line].
  - right. destruct (starts2 (c :: r) 47 42) eqn:E2.
    + left. split; [reflexivity|]. rewrite starts2_hd in E2. apply andb_true_iff in E2. destruct E2 as [Ec Eh].
      destruct r as [|y0 y]; [discriminate|]. cbn [hd_eq] in Eh. apply N.eqb_eq in Ec, Eh. subst c y0.
      exists y. split; [reflexivity|]. split; [reflexivity|apply gap_block].
    + right. split; [reflexivity|]. split; [reflexivity|]. split; [reflexivity|apply gap_stop; assumption].
Qed.

Lemma gap_ne : forall r pc, gap (ne pc r) = option_map (ne false) (gap r).
Proof.
  intro r. remember (length r) as n eqn:En. revert r En. induction n as [n IH] using lt_wf_ind. intros r En pc.
  destruct r as [|c r]; [reflexivity|]. cbn [length] in En.
  destruct (gap_cases c r) as [[Es Eg]|[[Es [y [-> [-> Eg]]]]|[[Es [y [-> [-> Eg]]]]|[Es [E1 [E2 Eg]]]]]]; rewrite Eg.
  - (* a separator *)
    cbn [ne]. destruct (c =? 10) eqn:E10.
    + destruct pc; [apply (IH (length r)); [lia|reflexivity]|]. rewrite gap_sep by reflexivity. apply (IH (length r)); [lia|reflexivity].
    + destruct (c =? 13) eqn:E13.
      * rewrite gap_sep by reflexivity. apply (IH (length r)); [lia|reflexivity].
      * rewrite gap_sep by exact Es. apply (IH (length r)); [lia|reflexivity].
  - rewrite (ne_cons pc 45 _ eq_refl), (ne_cons false 45 _ eq_refl). rewrite gap_line, drop_line_ne.
    apply (IH (length (drop_line y))); [pose proof (drop_line_length y); cbn [length] in En; lia|reflexivity].
  - rewrite (ne_cons pc 47 _ eq_refl), (ne_cons false 42 _ eq_refl). rewrite gap_block, drop_block_ne.
    destruct (drop_block y) as [r'|] eqn:Ed; [|reflexivity]. cbn [option_map].
    apply (IH (length r')); [apply drop_block_length in Ed; cbn [length] in En; lia|reflexivity].
  - pose proof (sep_eol c Es) as Ec. rewrite (ne_cons pc c r Ec). cbn [option_map]. rewrite (ne_cons false c r Ec).
    apply gap_stop; [exact Es| |]; rewrite starts2_hd in *; rewrite hd_eq_ne by reflexivity; assumption.
Qed.

Definition suffix (a b : list N) : Prop := exists pre, b = pre ++ a.
Lemma suffix_refl : forall a, suffix a a. Proof. intro a. exists []. reflexivity. Qed.
Lemma suffix_trans : forall a b c, suffix a b -> suffix b c -> suffix a c.
Proof. intros a b c [p1 ->] [p2 ->]. exists (p2 ++ p1). apply app_assoc. Qed.
Lemma suffix_cons : forall x a, suffix a (x :: a). Proof. intros x a. exists [x]. reflexivity. Qed.
Lemma suffix_length : forall a b, suffix a b -> (length a <= length b)%nat.
Proof. intros a b [p ->]. rewrite app_length. lia. Qed.
Lemma suffix_contains : forall p a b, suffix a b -> contains p b = false -> contains p a = false.
Proof.
  intros p a b [pre ->] H. destruct (contains p a) eqn:E; [|reflexivity]. rewrite (contains_app_r p pre a E) in H. discriminate.
Qed.
Lemma drop_line_suffix : forall y, suffix (drop_line y) y.
Proof.
  induction y as [|x y IH]; [apply suffix_refl|]. cbn [drop_line]. destruct (eol x); [apply suffix_refl|].
  eapply suffix_trans; [exact IH|apply suffix_cons].
Qed.
Lemma drop_block_suffix : forall y r, drop_block y = Some r -> suffix r y.
Proof.
  induction y as [|x y IH]; intros r H; [discriminate|]. rewrite drop_block_cons in H. destruct y as [|z y']; [discriminate|].
  destruct ((x =? 42) && (z =? 47)).
  - injection H as <-. exists [x; z]. reflexivity.
  - eapply suffix_trans; [apply IH; exact H|apply suffix_cons].
Qed.
Lemma gap_props : forall r r1, gap r = Some r1 ->
  suffix r1 r /\ match r1 with c :: _ => separator c = false | [] => True end.
Proof.
  intro r. remember (length r) as n eqn:En. revert r En. induction n as [n IH] using lt_wf_ind. intros r En r1 H.
  destruct r as [|c r]; [injection H as <-; split; [apply suffix_refl|exact I]|]. cbn [length] in En.
  destruct (gap_cases c r) as [[Es Eg]|[[Es [y [-> [-> Eg]]]]|[[Es [y [-> [-> Eg]]]]|[Es [E1 [E2 Eg]]]]]]; rewrite Eg in H.
  - destruct (IH (length r) ltac:(lia) r eq_refl r1 H) as [S1 S2]. split; [eapply suffix_trans; [exact S1|apply suffix_cons]|exact S2].
  - pose proof (drop_line_suffix y) as SD. pose proof (suffix_length _ _ SD) as LD.
    destruct (IH (length (drop_line y)) ltac:(cbn [length] in En; lia) _ eq_refl r1 H) as [S1 S2]. split; [|exact S2].
    eapply suffix_trans; [exact S1|]. eapply suffix_trans; [exact SD|]. exists [45; 45]. reflexivity.
  - destruct (drop_block y) as [r'|] eqn:Ed; [|discriminate]. pose proof (drop_block_suffix y r' Ed) as SD.
    apply drop_block_length in Ed.
    destruct (IH (length r') ltac:(cbn [length] in En; lia) _ eq_refl r1 H) as [S1 S2]. split; [|exact S2].
    eapply suffix_trans; [exact S1|]. eapply suffix_trans; [exact SD|]. exists [47; 42]. reflexivity.
  - injection H as <-. split; [apply suffix_refl|exact Es].
Qed.

(* ------------------------------------------------------------------------------------------ *)
(* 7. the splitter commutes with the normalisation when no tick CR LF tick occurs              *)
(* ------------------------------------------------------------------------------------------ *)
Lemma abstract_literal_nonempty : forall c r0 t0 r1, digit c = true -> abstract_literal (c :: r0) = Some (t0, r1) -> t0 <> [].
Proof.
  intros c r0 t0 r1 Ed Ea.
  assert (Ei : exists i', fst (span int_char (c :: r0)) = c :: i').
  { rewrite span_cons. unfold int_char at 1. rewrite Ed. cbn [orb fst]. eexists. reflexivity. }
  destruct Ei as [i' Ei].
  rewrite (abstract_literal_unf (c :: r0) _ _ (span_pair int_char (c :: r0))) in Ea. rewrite Ei in Ea.
  destruct (snd (span int_char (c :: r0))) as [|ch r2]; [injection Ea as <- _; discriminate|].
  destruct (ch =? 46).
  - destruct (span int_char r2) as [f r3]. destruct (exponent r3) as [e r4]. injection Ea as <- _. discriminate.
  - destruct ((ch =? 35) || (ch =? 58) && match r2 with x :: _ => letter_or_digit x | [] => false end).
    + destruct (based_rest ch r2) as [[t' r3]|]; [|discriminate]. injection Ea as <- _. discriminate.
    + destruct (LexGrammar.is_e ch).
      * destruct (exponent (ch :: r2)) as [e r3]. injection Ea as <- _. discriminate.
      * injection Ea as <- _. discriminate.
Qed.
Lemma lexeme_nonempty : forall kws prev s t r a, lexeme_step kws prev s = Some (t, r, a) -> t <> [].
Proof.
  intros kws prev s t r a H. unfold lexeme_step in H. destruct s as [|c r0]; [discriminate|].
  destruct (letter c) eqn:El.
  { destruct (base_spec_len (c :: r0)) as [n|].
    - destruct (quoted_rest 34 (skipn (S n) (c :: r0))) as [[body r2]|]; [|discriminate]. injection H as <- _ _.
      cbn [firstn app]. discriminate.
    - assert (Ei : exists i', fst (span ident_char (c :: r0)) = c :: i').
      { rewrite span_cons. unfold ident_char at 1. rewrite El. cbn [orb fst]. eexists. reflexivity. }
      destruct Ei as [i' Ei]. rewrite (span_pair ident_char (c :: r0)) in H. rewrite Ei in H. injection H as <- _ _. discriminate. }
  destruct (digit c) eqn:Ed.
  { destruct (number (c :: r0)) as [[t' r']|] eqn:En; [|discriminate]. injection H as <- _ _.
    unfold number in En. destruct (abstract_literal (c :: r0)) as [[t0 r1]|] eqn:Ea; [|discriminate].
    pose proof (abstract_literal_nonempty c r0 t0 r1 Ed Ea) as Ht0.
    destruct (forallb int_char t0).
    - destruct (base_spec_len r1) as [n|].
      + destruct (quoted_rest 34 (skipn (S n) r1)) as [[body r2]|]; [|discriminate]. injection En as <- _.
        destruct t0; [congruence|discriminate].
      + injection En as <- _. exact Ht0.
    - injection En as <- _. exact Ht0. }
  destruct (c =? 39). { destruct (can_char prev && snd_eq r0 39); unfold delim in H; injection H as <- _ _; discriminate. }
  destruct (c =? 34). { destruct (quoted_rest 34 r0) as [[b r']|]; [|discriminate]. injection H as <- _ _. discriminate. }
  destruct (c =? 92). { destruct (quoted_rest 92 r0) as [[b r']|]; [|discriminate]. injection H as <- _ _. discriminate. }
  destruct (c =? 41). { injection H as <- _ _. discriminate. }
  destruct (c =? 93). { injection H as <- _ _. discriminate. }
  repeat match type of H with
         | (if ?b then _ else _) = _ => destruct b
         end; try discriminate; unfold delim in H; injection H as <- _ _; discriminate.
Qed.
Lemma lexeme_step_progress : forall kws prev s t r a, lexeme_step kws prev s = Some (t, r, a) ->
  suffix r s /\ (length r < length s)%nat.
Proof.
  intros kws prev s t r a H. pose proof (lexeme_step_app _ _ _ _ _ _ H) as E. split; [exists t; exact E|].
  rewrite E, app_length. pose proof (lexeme_nonempty _ _ _ _ _ _ H). destruct t; [congruence|cbn [length]; lia].
Qed.

Lemma split_from_ne : forall kws f' f prev pc r,
  (length r < f')%nat -> (length (ne pc r) < f)%nat -> contains CRLF_CHAR r = false ->
  split_from kws f prev (ne pc r) = option_map (map (ne false)) (split_from kws f' prev r).
Proof.
  intros kws. induction f' as [|f' IH]; intros f prev pc r Hf' Hf Hc; [lia|]. destruct f as [|f]; [lia|].
  rewrite !split_from_S. rewrite gap_ne. destruct (gap r) as [r1|] eqn:Eg; [|reflexivity]. cbn [option_map].
  destruct (gap_props r r1 Eg) as [S1 Hs]. destruct r1 as [|c r0]; [reflexivity|].
  pose proof (sep_eol c Hs) as Ec. pose proof (suffix_contains _ _ _ S1 Hc) as Hc1.
  assert (Hp : is_prefix CRLF_CHAR (c :: r0) = false).
  { cbn [contains] in Hc1. apply orb_false_iff in Hc1. tauto. }
  pose proof (lexeme_step_ne kws prev c r0 Ec Hp) as HL. rewrite (ne_cons false c r0 Ec) in HL.
  rewrite (ne_cons false c r0 Ec). rewrite HL.
  destruct (lexeme_step kws prev (c :: r0)) as [[[t rest] a]|] eqn:Els; [|reflexivity]. cbn [option_map tr3].
  destruct (lexeme_step_progress _ _ _ _ _ _ Els) as [S2 L2].
  pose proof (suffix_length _ _ S1) as L1.
  assert (Hc2 : contains CRLF_CHAR rest = false) by (eapply suffix_contains; [exact S2|exact Hc1]).
  assert (Ln : (length (ne false rest) < f)%nat).
  { assert (Egn : gap (ne pc r) = Some (c :: ne false r0)).
    { rewrite gap_ne, Eg. cbn [option_map]. rewrite (ne_cons false c r0 Ec). reflexivity. }
    destruct (gap_props _ _ Egn) as [S3 _]. pose proof (suffix_length _ _ S3) as L3.
    assert (Els' : lexeme_step kws prev (c :: ne false r0) = Some (ne false t, ne false rest, a)) by (rewrite HL; reflexivity).
    destruct (lexeme_step_progress _ _ _ _ _ _ Els') as [_ L4]. lia. }
  rewrite (IH f a false rest ltac:(lia) Ln Hc2).
  destruct (split_from kws f' a rest) as [ts|]; reflexivity.
Qed.

Theorem split_spec_ne : forall kws s, has_crlf_char s = false ->
  split_spec kws (norm_eol s) = option_map (map norm_eol) (split_spec kws s).
Proof.
  intros kws s H. rewrite norm_eol_ne. unfold split_spec.
  rewrite (split_from_ne kws (S (length s)) (S (length (ne false s))) AfterOther false s ltac:(lia) ltac:(lia) H).
  destruct (split_from kws (S (length s)) AfterOther s) as [ts|]; [|reflexivity]. cbn [option_map]. f_equal.
  apply map_ext. intro t. symmetry. apply norm_eol_ne.
Qed.

Theorem lang_is_spec_eol : forall s : list N,
  latin1 s = true -> clean_lang s = true -> no_directive s = true -> no_pragma s = true ->
  has_crlf_char s = false ->
  lexemes_lang s = option_map (map norm_eol) (split_spec LangLexer.keywords_2008 s).
Proof.
  intros s H1 Hc H2 H3 H6. rewrite (lang_is_spec_norm s H1 Hc H2 H3). rewrite <- norm_eol_ne.
  apply split_spec_ne. exact H6.
Qed.

(* the hypotheses are satisfiable by a text with CR, CR LF and LF line breaks, inside and between lexemes:
   a <= 'CR' & "xy" ;CRLF-- cCR/* uCRLFv */ b'('LF') -- dCRLF16#F#CRx"01"CR'CRCR' 16:FF:CR0 to 1:= 1CRLF2:CR3 *)
Definition lang_is_spec_eol_sample : list N := [97; 32; 60; 61; 32; 39; 13; 39; 32; 38; 32; 34; 120; 121; 34; 32; 59; 13; 10; 45; 45; 32; 99; 13; 47; 42; 32; 117; 13; 10; 118; 32; 42; 47; 32; 98; 39; 40; 39; 10; 39; 41; 32; 45; 45; 32; 100; 13; 10; 49; 54; 35; 70; 35; 13; 120; 34; 48; 49; 34; 13; 39; 13; 13; 39; 32; 49; 54; 58; 70; 70; 58; 13; 48; 32; 116; 111; 32; 49; 58; 61; 32; 49; 13; 10; 50; 58; 13; 51].
Example lang_is_spec_eol_hyps_sat :
  latin1 lang_is_spec_eol_sample && clean_lang lang_is_spec_eol_sample && no_directive lang_is_spec_eol_sample &&
  no_pragma lang_is_spec_eol_sample && has_colon_literal lang_is_spec_eol_sample &&
  negb (has_crlf_char lang_is_spec_eol_sample) && negb (no_cr lang_is_spec_eol_sample) = true
  /\ option_map (@length lexeme) (lexemes_lang lang_is_spec_eol_sample) = Some 24%nat.
Proof. vm_compute. split; reflexivity. Qed.

Check lang_is_spec_eol : forall s : list N,
  latin1 s = true -> clean_lang s = true -> no_directive s = true -> no_pragma s = true ->
  has_crlf_char s = false ->
  lexemes_lang s = option_map (map norm_eol) (split_spec LangLexer.keywords_2008 s).
Print Assumptions lang_is_spec_eol.
