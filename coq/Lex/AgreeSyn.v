(* Lex/AgreeSyn.v — the vhdl_syntax half of C18's step-wise characterisation: on every input that is
   clean for the model of vhdl_syntax's tokenizer (Lex/SynLexer.v), free of CR and grave accent, without
   the PSL reserved words and on which no non-integer abstract literal is merged into a bit string, the
   merged token stream spells exactly the lexemes of the reference splitter LexGrammar.split_spec. *)
From Coq Require Import List NArith Arith Bool Lia.
Import ListNotations.
From RH Require Import Lex.SynLexer Lex.SynLexerProofs.
From RH Require Lex.LangLexer.
From RH Require Import Lex.LexGrammar Lex.Agree Lex.AgreeSweep.
Open Scope N_scope.
#[local] Arguments N.add : simpl never.
#[local] Arguments N.sub : simpl never.
#[local] Arguments N.mul : simpl never.
#[local] Arguments N.eqb : simpl never.
#[local] Arguments N.leb : simpl never.
#[local] Arguments N.ltb : simpl never.

(* ------------------------------------------------------------------------------------------ *)
(* character classes and scanning: the two developments define the same functions              *)
(* ------------------------------------------------------------------------------------------ *)
Lemma identc_eq c : is_identc c = ident_char c. Proof. reflexivity. Qed.
Lemma intc_eq c : is_intc c = int_char c. Proof. reflexivity. Qed.
Lemma alpha_eq c : is_alpha c = letter c. Proof. reflexivity. Qed.
Lemma digit_eq c : is_digit c = digit c. Proof. reflexivity. Qed.
Lemma alnum_eq c : is_alnum c = letter_or_digit c. Proof. reflexivity. Qed.
Lemma lower_eq c : lower c = to_lower c. Proof. reflexivity. Qed.

Lemma tw_span p s : take_while p s = span p s.
Proof. induction s as [|x r IH]; [reflexivity|]. cbn [take_while span]. rewrite IH. reflexivity. Qed.
Lemma span_ext p q s : (forall c, p c = q c) -> span p s = span q s.
Proof. intros E. induction s as [|x r IH]; [reflexivity|]. cbn [span]. rewrite E, IH. reflexivity. Qed.
Lemma span_app p s a b : span p s = (a, b) -> a ++ b = s.
Proof.
  revert a b. induction s as [|x r IH]; intros a b H; cbn [span] in H.
  - inversion H. reflexivity.
  - destruct (p x); [|inversion H; reflexivity].
    destruct (span p r) as [a0 b0]. inversion H; subst. cbn [app]. f_equal. apply IH. reflexivity.
Qed.
Lemma span_all p s a b : span p s = (a, b) -> forallb p a = true.
Proof.
  revert a b. induction s as [|x r IH]; intros a b H; cbn [span] in H.
  - inversion H. reflexivity.
  - destruct (p x) eqn:E; [|inversion H; reflexivity].
    destruct (span p r) as [a0 b0]. inversion H; subst. cbn [forallb]. rewrite E. eapply IH. reflexivity.
Qed.
Lemma span_stop p s a b : span p s = (a, b) -> match b with x :: _ => p x = false | [] => True end.
Proof.
  revert a b. induction s as [|x r IH]; intros a b H; cbn [span] in H.
  - inversion H. exact I.
  - destruct (p x) eqn:E; [|inversion H; subst; exact E].
    destruct (span p r) as [a0 b0] eqn:S. inversion H; subst. eapply IH. reflexivity.
Qed.
Lemma span_app_stop p a b : forallb p a = true -> match b with x :: _ => p x = false | [] => True end ->
  span p (a ++ b) = (a, b).
Proof.
  intros Ha Hb. induction a as [|x a IH]; cbn [app].
  - destruct b as [|y b]; [reflexivity|]. cbn [span]. rewrite Hb. reflexivity.
  - cbn [forallb] in Ha. apply andb_true_iff in Ha as [H1 H2]. cbn [span]. rewrite H1, (IH H2). reflexivity.
Qed.

(* ------------------------------------------------------------------------------------------ *)
(* trivia = gap                                                                                *)
(* ------------------------------------------------------------------------------------------ *)
Lemma skip_gap_rep c : separator c = true -> forall n f r,
  skip_gap (n + f) (rep n [c] ++ r) = skip_gap f r.
Proof.
  intros Hc. induction n as [|n IH]; intros f r; [reflexivity|].
  cbn [rep app plus skip_gap]. rewrite Hc. apply IH.
Qed.
Lemma skip_gap_rep2 a b : separator a = true -> separator b = true -> forall n f r,
  skip_gap (n + n + f) (rep n [a; b] ++ r) = skip_gap f r.
Proof.
  intros Ha Hb. induction n as [|n IH]; intros f r; [reflexivity|].
  replace (S n + S n + f)%nat with (S (S (n + n + f))) by lia.
  cbn [rep app skip_gap]. rewrite Ha, Hb. apply IH.
Qed.
Lemma drop_line_take_line s a b : take_line s = (a, b) -> drop_line s = b.
Proof.
  revert a b. induction s as [|x r IH]; intros a b H; cbn [take_line drop_line] in *.
  - inversion H. reflexivity.
  - unfold eol. destruct ((x =? 13) || (x =? 10)) eqn:E.
    + inversion H; subst. rewrite orb_comm in E. rewrite E. reflexivity.
    + rewrite orb_comm in E. rewrite E. destruct (take_line r) as [a0 b0]. inversion H; subst.
      eapply IH. reflexivity.
Qed.
Lemma drop_block_take_block : forall n s, (length s <= n)%nat -> forall a b t, take_block s = (a, b, t) ->
  drop_block s = if t then Some b else None.
Proof.
  induction n as [|n IH]; intros s L a b t H.
  - destruct s; [|cbn [length] in L; lia]. cbn [take_block] in H. inversion H. reflexivity.
  - destruct s as [|x r]; [cbn [take_block] in H; inversion H; reflexivity|].
    cbn [take_block drop_block] in *. destruct r as [|y r2].
    + rewrite andb_false_r in H. cbn [take_block] in H. inversion H. reflexivity.
    + destruct ((x =? 42) && (y =? 47)) eqn:E.
      * cbn [tl] in H. inversion H; subst. reflexivity.
      * destruct (take_block (y :: r2)) as [[a0 b0] t0] eqn:T. inversion H; subst.
        eapply IH; [|exact T]. cbn [length] in *. lia.
Qed.

(* no byte of the list is a CR *)
Lemma no_cr_cons c r : no_cr (c :: r) = true -> (c =? 13) = false /\ no_cr r = true.
Proof. unfold no_cr. cbn [forallb]. intros H. apply andb_true_iff in H as [H1 H2]. split; [|exact H2].
  destruct (c =? 13); [discriminate|reflexivity]. Qed.

Lemma rep_length n (bs : list byte) : length (SynLexer.rep n bs) = (n * length bs)%nat.
Proof. induction n as [|n IH]; [reflexivity|]. cbn [rep]. rewrite app_length, IH. lia. Qed.

(* one trivia piece is skipped by skip_gap *)
Lemma gap_piece s p r : trivia_piece s = Some (p, r, false) ->
  forall f, (length s < f)%nat -> exists f', (length r < f')%nat /\ skip_gap f s = skip_gap f' r.
Proof.
  intros TP f Lf. pose proof (trivia_piece_ok _ _ _ _ TP) as (Hb & Hl & _).
  destruct s as [|c s']; [discriminate|]. unfold trivia_piece in TP.
  assert (CNT : forall k, separator k = true -> forall n r0, count k (c :: s') = (n, r0) ->
            exists f', (length r0 < f')%nat /\ skip_gap f (c :: s') = skip_gap f' r0).
  { intros k Hk n r0 C. apply count_ok in C. rewrite <- C.
    exists (f - N.to_nat n)%nat. rewrite <- C in Lf. rewrite app_length, rep_length in Lf. cbn [length] in Lf.
    split; [lia|]. replace f with (N.to_nat n + (f - N.to_nat n))%nat at 1 by lia. apply skip_gap_rep. exact Hk. }
  destruct (c =? 9) eqn:E9.
  { destruct (count 9 (c :: s')) as [n0 r0] eqn:C. inversion TP; subst. eapply CNT; [|exact C]. reflexivity. }
  destruct (c =? 11) eqn:E11.
  { destruct (count 11 (c :: s')) as [n0 r0] eqn:C. inversion TP; subst. eapply CNT; [|exact C]. reflexivity. }
  destruct (c =? 13) eqn:E13.
  { destruct (is2 (c :: s') 10) eqn:E2.
    - destruct (count_crlf (c :: s')) as [n0 r0] eqn:C. inversion TP; subst. apply count_crlf_ok in C.
      rewrite <- C. rewrite <- C in Lf. rewrite app_length, rep_length in Lf. cbn [length] in Lf.
      exists (f - (N.to_nat n0 + N.to_nat n0))%nat. split; [lia|].
      replace f with (N.to_nat n0 + N.to_nat n0 + (f - (N.to_nat n0 + N.to_nat n0)))%nat at 1 by lia.
      apply skip_gap_rep2; reflexivity.
    - destruct (count 13 (c :: s')) as [n0 r0] eqn:C. inversion TP; subst. eapply CNT; [|exact C]. reflexivity. }
  destruct (c =? 12) eqn:E12.
  { destruct (count 12 (c :: s')) as [n0 r0] eqn:C. inversion TP; subst. eapply CNT; [|exact C]. reflexivity. }
  destruct (c =? 10) eqn:E10.
  { destruct (count 10 (c :: s')) as [n0 r0] eqn:C. inversion TP; subst. eapply CNT; [|exact C]. reflexivity. }
  destruct (c =? 32) eqn:E32.
  { destruct (count 32 (c :: s')) as [n0 r0] eqn:C. inversion TP; subst. eapply CNT; [|exact C]. reflexivity. }
  assert (SEP : c <> 160 -> separator c = false).
  { intros N160. unfold separator, in_rng.
    apply N.eqb_neq in E9, E11, E13, E12, E10, E32.
    destruct (c =? 32) eqn:A; [apply N.eqb_eq in A; contradiction|].
    destruct (c =? 160) eqn:B; [apply N.eqb_eq in B; contradiction|].
    cbn [orb]. destruct (9 <=? c) eqn:L1; [|reflexivity]. destruct (c <=? 13) eqn:L2; [|reflexivity].
    apply N.leb_le in L1, L2. lia. }
  destruct ((c =? 45) && is2 (c :: s') 45) eqn:E45.
  { apply andb_true_iff in E45 as [E1 E2]. apply N.eqb_eq in E1; subst c.
    apply is2_true in E2 as (a & r' & E2). inversion E2; subst. cbn [tl] in TP.
    destruct (take_line r') as [a0 b0] eqn:T. inversion TP; subst.
    destruct f as [|f]; [lia|]. exists f. split; [cbn [length] in *; lia|].
    cbn [skip_gap]. rewrite SEP by lia. cbn [starts2]. rewrite !N.eqb_refl. cbn [andb tl].
    rewrite (drop_line_take_line _ _ _ T). reflexivity. }
  destruct ((c =? 47) && is2 (c :: s') 42) eqn:E47.
  { apply andb_true_iff in E47 as [E1 E2]. apply N.eqb_eq in E1; subst c.
    apply is2_true in E2 as (a & r' & E2). inversion E2; subst. cbn [tl] in TP.
    destruct (take_block r') as [[a0 b0] t0] eqn:T. destruct t0; [|discriminate]. inversion TP; subst.
    destruct f as [|f]; [lia|]. exists f. split; [cbn [length] in *; lia|].
    cbn [skip_gap]. rewrite SEP by lia. cbn [starts2].
    replace (47 =? 45) with false by reflexivity. cbn [andb]. rewrite !N.eqb_refl. cbn [andb tl].
    rewrite (drop_block_take_block _ _ (le_n _) _ _ _ T). reflexivity. }
  destruct (c =? 160) eqn:E160; [|discriminate].
  destruct (count 160 (c :: s')) as [n0 r0] eqn:C. inversion TP; subst. eapply CNT; [|exact C]. reflexivity.
Qed.

(* where no trivia piece starts, skip_gap stops *)
Lemma gap_stop c r : trivia_piece (c :: r) = None -> forall f, skip_gap (S f) (c :: r) = Some (c :: r).
Proof.
  intros TP f. unfold trivia_piece in TP.
  destruct (c =? 9) eqn:E9; [destruct (count 9 (c :: r)); discriminate|].
  destruct (c =? 11) eqn:E11; [destruct (count 11 (c :: r)); discriminate|].
  destruct (c =? 13) eqn:E13.
  { destruct (is2 (c :: r) 10); [destruct (count_crlf (c :: r))|destruct (count 13 (c :: r))]; discriminate. }
  destruct (c =? 12) eqn:E12; [destruct (count 12 (c :: r)); discriminate|].
  destruct (c =? 10) eqn:E10; [destruct (count 10 (c :: r)); discriminate|].
  destruct (c =? 32) eqn:E32; [destruct (count 32 (c :: r)); discriminate|].
  destruct ((c =? 45) && is2 (c :: r) 45) eqn:E45; [destruct (take_line (tl r)); discriminate|].
  destruct ((c =? 47) && is2 (c :: r) 42) eqn:E47.
  { destruct (take_block (tl r)) as [[a0 b0] t0]. destruct t0; discriminate. }
  destruct (c =? 160) eqn:E160; [destruct (count 160 (c :: r)); discriminate|].
  assert (SEP : separator c = false).
  { unfold separator, in_rng. rewrite E32, E160. cbn [orb].
    apply N.eqb_neq in E9, E11, E13, E12, E10.
    destruct (9 <=? c) eqn:L1; [|reflexivity]. destruct (c <=? 13) eqn:L2; [|reflexivity].
    apply N.leb_le in L1, L2. lia. }
  cbn [skip_gap]. rewrite SEP.
  assert (S1 : starts2 (c :: r) 45 45 = false).
  { unfold starts2, is2 in *. destruct r as [|y r']; [reflexivity|]. exact E45. }
  assert (S2 : starts2 (c :: r) 47 42 = false).
  { unfold starts2, is2 in *. destruct r as [|y r']; [reflexivity|]. exact E47. }
  rewrite S1, S2. reflexivity.
Qed.

Lemma gap_trivia : forall fuel s tr r, trivia fuel s = Some (tr, r, false) ->
  forall f, (length s < f)%nat -> skip_gap f s = Some r.
Proof.
  induction fuel as [|fu IH]; intros s tr r H f Lf; cbn [trivia] in H; [discriminate|].
  destruct (trivia_piece s) as [[[p r0] un]|] eqn:TP.
  - destruct un; [discriminate|].
    destruct (trivia fu r0) as [[[ps r'] u']|] eqn:T; [|discriminate]. inversion H; subst.
    destruct (gap_piece _ _ _ TP f Lf) as (f' & Lf' & E). rewrite E. eapply IH; [exact T|exact Lf'].
  - inversion H; subst. destruct r as [|c r].
    + destruct f; [lia|]. reflexivity.
    + destruct f; [lia|]. apply gap_stop. exact TP.
Qed.

(* ------------------------------------------------------------------------------------------ *)
(* quoted lexemes, exponents, abstract literals                                                *)
(* ------------------------------------------------------------------------------------------ *)
Lemma quoted_body_rest q : forall n s, (length s <= n)%nat -> forall a b t, quoted_body q s = (a, b, t) ->
  quoted_rest q s = if t then Some (a, b) else None.
Proof.
  induction n as [|n IH]; intros s L a b t H.
  - destruct s; [|cbn [length] in L; lia]. cbn [quoted_body] in H. inversion H. reflexivity.
  - destruct s as [|x r]; [cbn [quoted_body] in H; inversion H; reflexivity|].
    cbn [quoted_body quoted_rest] in *. destruct (x =? q) eqn:E.
    + destruct r as [|y r2]; [inversion H; reflexivity|]. destruct (y =? q) eqn:E2.
      * destruct (quoted_body q r2) as [[a0 b0] t0] eqn:Q. inversion H; subst.
        rewrite (IH r2 ltac:(cbn [length] in L; lia) _ _ _ Q). destruct t; reflexivity.
      * inversion H; subst. reflexivity.
    + destruct (quoted_body q r) as [[a0 b0] t0] eqn:Q. inversion H; subst.
      rewrite (IH r ltac:(cbn [length] in L; lia) _ _ _ Q). destruct t; reflexivity.
Qed.
Lemma quoted_rest_of q r t r' : quoted (q :: r) = (t, r', true) ->
  exists body, t = q :: body /\ quoted_rest q r = Some (body, r').
Proof.
  unfold quoted. destruct (quoted_body q r) as [[a b] tm] eqn:Q. intros H. inversion H; subst.
  exists a. split; [reflexivity|]. apply (quoted_body_rest q _ r (le_n _) _ _ _ Q).
Qed.

Lemma opt_exponent_eq s : opt_exponent s = exponent s.
Proof.
  destruct s as [|e r]; [reflexivity|]. unfold opt_exponent, exponent, is_e, is_sign.
  destruct ((e =? 101) || (e =? 69)); [|reflexivity].
  destruct r as [|x r']; [reflexivity|].
  destruct ((x =? 43) || (x =? 45)); rewrite tw_span; reflexivity.
Qed.

Lemma based_tail_rest i ch r1 t r' : based_tail i ch r1 = (t, r', false) ->
  exists t', t = i ++ [ch] ++ t' /\ based_rest ch r1 = Some (t', r').
Proof.
  unfold based_tail, based_rest. rewrite tw_span.
  rewrite (span_ext is_identc ident_char _ identc_eq).
  destruct (span ident_char r1) as [b r2].
  assert (TAIL : forall fr r3,
    (let '(cl, r4, err) := match r3 with
                           | x :: r3' => if x =? ch then ([ch], r3', false) else ([], r3, true)
                           | [] => ([], r3, true)
                           end in
     let '(e, r5) := opt_exponent r4 in (i ++ [ch] ++ b ++ fr ++ cl ++ e, r5, err)) = (t, r', false) ->
    exists t', t = i ++ [ch] ++ t' /\
      match r3 with
      | x :: r3' => if x =? ch then let '(e, r4) := exponent r3' in Some (b ++ fr ++ [ch] ++ e, r4) else None
      | [] => None
      end = Some (t', r')).
  { intros fr r3. destruct r3 as [|x r3'].
    - destruct (opt_exponent []) as [e r5]. intros H. inversion H.
    - destruct (x =? ch).
      + rewrite opt_exponent_eq. destruct (exponent r3') as [e r5]. intros H. inversion H; subst.
        eexists. split; [|reflexivity]. reflexivity.
      + destruct (opt_exponent (x :: r3')) as [e r5]. intros H. inversion H. }
  destruct r2 as [|d r2']; [apply (TAIL [] [])|].
  destruct (d =? 46); [|apply (TAIL [] (d :: r2'))].
  rewrite tw_span. rewrite (span_ext is_identc ident_char _ identc_eq).
  destruct (span ident_char r2') as [b2 r2'']. apply (TAIL (46 :: b2) r2'').
Qed.

Lemma abstract_literal_eq s t r' : SynLexer.abstract_literal s = (t, r', false) ->
  LexGrammar.abstract_literal s = Some (t, r').
Proof.
  unfold SynLexer.abstract_literal, LexGrammar.abstract_literal. rewrite tw_span.
  rewrite (span_ext is_intc int_char _ intc_eq). destruct (span int_char s) as [i r].
  destruct r as [|ch r1]; [intros H; inversion H; reflexivity|].
  destruct (ch =? 46).
  { rewrite tw_span. rewrite (span_ext is_intc int_char _ intc_eq). destruct (span int_char r1) as [f r2].
    rewrite opt_exponent_eq. destruct (exponent r2) as [e r3]. intros H. inversion H. reflexivity. }
  assert (BASED : forall g : bool, (if (ch =? 35) || (ch =? 58) && g then based_tail i ch r1
                  else if (ch =? 101) || (ch =? 69) then let '(e, r2) := opt_exponent (ch :: r1) in (i ++ e, r2, false)
                  else (i, ch :: r1, false)) = (t, r', false) ->
            (if (ch =? 35) || (ch =? 58) && g
             then match based_rest ch r1 with Some (t0, r2) => Some (i ++ [ch] ++ t0, r2) | None => None end
             else if is_e ch then let '(e, r2) := exponent (ch :: r1) in Some (i ++ e, r2)
             else Some (i, ch :: r1)) = Some (t, r')).
  { intros g. destruct ((ch =? 35) || (ch =? 58) && g).
    - intros H. apply based_tail_rest in H as (t' & E & B). rewrite B. subst t. reflexivity.
    - unfold is_e. destruct ((ch =? 101) || (ch =? 69)).
      + rewrite opt_exponent_eq. destruct (exponent (ch :: r1)) as [e r2]. intros H. inversion H. reflexivity.
      + intros H. inversion H. reflexivity. }
  destruct r1 as [|x r1']; [apply (BASED false)|apply (BASED (letter_or_digit x))].
Qed.

Lemma abstract_literal_shape s t r' : LexGrammar.abstract_literal s = Some (t, r') ->
  let i := fst (span int_char s) in
  (t = i /\ r' = snd (span int_char s)) \/
  (exists x more, t = i ++ x :: more /\ int_char x = false /\ bs1 x = false /\ bs2a x = false).
Proof.
  unfold LexGrammar.abstract_literal. destruct (span int_char s) as [i r] eqn:S. cbn [fst snd].
  destruct r as [|ch r1]; [intros H; inversion H; left; split; reflexivity|].
  destruct (ch =? 46) eqn:E46.
  { apply N.eqb_eq in E46; subst ch. destruct (span int_char r1) as [f r2]. destruct (exponent r2) as [e r3].
    intros H. inversion H; subst. right. exists 46, (f ++ e). split; [reflexivity|]. repeat split; reflexivity. }
  destruct ((ch =? 35) || (ch =? 58) && match r1 with x :: _ => letter_or_digit x | [] => false end) eqn:EB.
  { destruct (based_rest ch r1) as [[tb r2]|]; [|discriminate]. intros H. inversion H; subst.
    right. exists ch, tb. split; [reflexivity|].
    apply orb_true_iff in EB as [EB|EB].
    - apply N.eqb_eq in EB; subst ch. repeat split; reflexivity.
    - apply andb_true_iff in EB as [EB _]. apply N.eqb_eq in EB; subst ch. repeat split; reflexivity. }
  destruct (is_e ch) eqn:EE.
  { unfold exponent. rewrite EE.
    destruct (match r1 with
              | x :: r'0 => if is_sign x then ([x], r'0) else ([], r1)
              | [] => ([], r1) end) as [sg r2].
    destruct (span int_char r2) as [d r3]. intros H. inversion H; subst.
    right. exists ch, (sg ++ d). split; [reflexivity|].
    unfold is_e in EE. apply orb_true_iff in EE as [EE|EE]; apply N.eqb_eq in EE; subst ch; repeat split; reflexivity. }
  intros H. inversion H; subst. left. split; reflexivity.
Qed.
