(* Lex/AgreeSyn.v — the vhdl_syntax half of C18's step-wise characterisation: on every input that is
   clean for the model of vhdl_syntax's tokenizer (Lex/SynLexer.v), free of CR and grave accent, without
   the PSL reserved words and on which no non-integer abstract literal is merged into a bit string, the
   merged token stream spells exactly the lexemes of the reference splitter LexGrammar.split_spec. *)
From Coq Require Import List NArith Arith Bool Lia.
Import ListNotations.
From RH Require Import Lex.SynLexer Lex.SynLexerProofs.
From RH Require Lex.LangLexer.
From RH Require Import Lex.LexGrammar Lex.Agree Lex.AgreeSweep.
Open Scope N_scope.
#[local] Arguments N.add : simpl never.
#[local] Arguments N.sub : simpl never.
#[local] Arguments N.mul : simpl never.
#[local] Arguments N.eqb : simpl never.
#[local] Arguments N.leb : simpl never.
#[local] Arguments N.ltb : simpl never.

(* ------------------------------------------------------------------------------------------ *)
(* character classes and scanning: the two developments define the same functions              *)
(* ------------------------------------------------------------------------------------------ *)
Lemma identc_eq c : is_identc c = ident_char c. Proof. reflexivity. Qed.
Lemma intc_eq c : is_intc c = int_char c. Proof. reflexivity. Qed.
Lemma alpha_eq c : is_alpha c = letter c. Proof. reflexivity. Qed.
Lemma digit_eq c : is_digit c = digit c. Proof. reflexivity. Qed.
Lemma alnum_eq c : is_alnum c = letter_or_digit c. Proof. reflexivity. Qed.
Lemma lower_eq c : lower c = to_lower c. Proof. reflexivity. Qed.

Lemma tw_span p s : take_while p s = span p s.
Proof. induction s as [|x r IH]; [reflexivity|]. cbn [take_while span]. rewrite IH. reflexivity. Qed.
Lemma span_ext p q s : (forall c, p c = q c) -> span p s = span q s.
Proof. intros E. induction s as [|x r IH]; [reflexivity|]. cbn [span]. rewrite E, IH. reflexivity. Qed.
Lemma span_app p s a b : span p s = (a, b) -> a ++ b = s.
Proof.
  revert a b. induction s as [|x r IH]; intros a b H; cbn [span] in H.
  - inversion H. reflexivity.
  - destruct (p x); [|inversion H; reflexivity].
    destruct (span p r) as [a0 b0]. inversion H; subst. cbn [app]. f_equal. apply IH. reflexivity.
Qed.
Lemma span_all p s a b : span p s = (a, b) -> forallb p a = true.
Proof.
  revert a b. induction s as [|x r IH]; intros a b H; cbn [span] in H.
  - inversion H. reflexivity.
  - destruct (p x) eqn:E; [|inversion H; reflexivity].
    destruct (span p r) as [a0 b0]. inversion H; subst. cbn [forallb]. rewrite E. eapply IH. reflexivity.
Qed.
Lemma span_stop p s a b : span p s = (a, b) -> match b with x :: _ => p x = false | [] => True end.
Proof.
  revert a b. induction s as [|x r IH]; intros a b H; cbn [span] in H.
  - inversion H. exact I.
  - destruct (p x) eqn:E; [|inversion H; subst; exact E].
    destruct (span p r) as [a0 b0] eqn:S. inversion H; subst. eapply IH. reflexivity.
Qed.
Lemma span_app_stop p a b : forallb p a = true -> match b with x :: _ => p x = false | [] => True end ->
  span p (a ++ b) = (a, b).
Proof.
  intros Ha Hb. induction a as [|x a IH]; cbn [app].
  - destruct b as [|y b]; [reflexivity|]. cbn [span]. rewrite Hb. reflexivity.
  - cbn [forallb] in Ha. apply andb_true_iff in Ha as [H1 H2]. cbn [span]. rewrite H1, (IH H2). reflexivity.
Qed.

(* ------------------------------------------------------------------------------------------ *)
(* trivia = gap                                                                                *)
(* ------------------------------------------------------------------------------------------ *)
Lemma skip_gap_rep c : separator c = true -> forall n f r,
  skip_gap (n + f) (rep n [c] ++ r) = skip_gap f r.
Proof.
  intros Hc. induction n as [|n IH]; intros f r; [reflexivity|].
  cbn [rep app plus skip_gap]. rewrite Hc. apply IH.
Qed.
Lemma skip_gap_rep2 a b : separator a = true -> separator b = true -> forall n f r,
  skip_gap (n + n + f) (rep n [a; b] ++ r) = skip_gap f r.
Proof.
  intros Ha Hb. induction n as [|n IH]; intros f r; [reflexivity|].
  replace (S n + S n + f)%nat with (S (S (n + n + f))) by lia.
  cbn [rep app skip_gap]. rewrite Ha, Hb. apply IH.
Qed.
Lemma drop_line_take_line s a b : take_line s = (a, b) -> drop_line s = b.
Proof.
  revert a b. induction s as [|x r IH]; intros a b H; cbn [take_line drop_line] in *.
  - inversion H. reflexivity.
  - unfold eol. destruct ((x =? 13) || (x =? 10)) eqn:E.
    + inversion H; subst. rewrite orb_comm in E. rewrite E. reflexivity.
    + rewrite orb_comm in E. rewrite E. destruct (take_line r) as [a0 b0]. inversion H; subst.
      eapply IH. reflexivity.
Qed.
Lemma drop_block_take_block : forall n s, (length s <= n)%nat -> forall a b t, take_block s = (a, b, t) ->
  drop_block s = if t then Some b else None.
Proof.
  induction n as [|n IH]; intros s L a b t H.
  - destruct s; [|cbn [length] in L; lia]. cbn [take_block] in H. inversion H. reflexivity.
  - destruct s as [|x r]; [cbn [take_block] in H; inversion H; reflexivity|].
    cbn [take_block drop_block] in *. destruct r as [|y r2].
    + rewrite andb_false_r in H. cbn [take_block] in H. inversion H. reflexivity.
    + destruct ((x =? 42) && (y =? 47)) eqn:E.
      * cbn [tl] in H. inversion H; subst. reflexivity.
      * destruct (take_block (y :: r2)) as [[a0 b0] t0] eqn:T. inversion H; subst.
        eapply IH; [|exact T]. cbn [length] in *. lia.
Qed.

(* no byte of the list is a CR *)
Lemma no_cr_cons c r : no_cr (c :: r) = true -> (c =? 13) = false /\ no_cr r = true.
Proof. unfold no_cr. cbn [forallb]. intros H. apply andb_true_iff in H as [H1 H2]. split; [|exact H2].
  destruct (c =? 13); [discriminate|reflexivity]. Qed.

Lemma rep_length n (bs : list byte) : length (SynLexer.rep n bs) = (n * length bs)%nat.
Proof. induction n as [|n IH]; [reflexivity|]. cbn [rep]. rewrite app_length, IH. lia. Qed.

(* one trivia piece is skipped by skip_gap *)
Lemma gap_piece s p r : trivia_piece s = Some (p, r, false) ->
  forall f, (length s < f)%nat -> exists f', (length r < f')%nat /\ skip_gap f s = skip_gap f' r.
Proof.
  intros TP f Lf. pose proof (trivia_piece_ok _ _ _ _ TP) as (Hb & Hl & _).
  destruct s as [|c s']; [discriminate|]. unfold trivia_piece in TP.
  assert (CNT : forall k, separator k = true -> forall n r0, count k (c :: s') = (n, r0) ->
            exists f', (length r0 < f')%nat /\ skip_gap f (c :: s') = skip_gap f' r0).
  { intros k Hk n r0 C. apply count_ok in C. rewrite <- C.
    exists (f - N.to_nat n)%nat. rewrite <- C in Lf. rewrite app_length, rep_length in Lf. cbn [length] in Lf.
    split; [lia|]. replace f with (N.to_nat n + (f - N.to_nat n))%nat at 1 by lia. apply skip_gap_rep. exact Hk. }
  destruct (c =? 9) eqn:E9.
  { destruct (count 9 (c :: s')) as [n0 r0] eqn:C. inversion TP; subst. eapply CNT; [|exact C]. reflexivity. }
  destruct (c =? 11) eqn:E11.
  { destruct (count 11 (c :: s')) as [n0 r0] eqn:C. inversion TP; subst. eapply CNT; [|exact C]. reflexivity. }
  destruct (c =? 13) eqn:E13.
  { destruct (is2 (c :: s') 10) eqn:E2.
    - destruct (count_crlf (c :: s')) as [n0 r0] eqn:C. inversion TP; subst. apply count_crlf_ok in C.
      rewrite <- C. rewrite <- C in Lf. rewrite app_length, rep_length in Lf. cbn [length] in Lf.
      exists (f - (N.to_nat n0 + N.to_nat n0))%nat. split; [lia|].
      replace f with (N.to_nat n0 + N.to_nat n0 + (f - (N.to_nat n0 + N.to_nat n0)))%nat at 1 by lia.
      apply skip_gap_rep2; reflexivity.
    - destruct (count 13 (c :: s')) as [n0 r0] eqn:C. inversion TP; subst. eapply CNT; [|exact C]. reflexivity. }
  destruct (c =? 12) eqn:E12.
  { destruct (count 12 (c :: s')) as [n0 r0] eqn:C. inversion TP; subst. eapply CNT; [|exact C]. reflexivity. }
  destruct (c =? 10) eqn:E10.
  { destruct (count 10 (c :: s')) as [n0 r0] eqn:C. inversion TP; subst. eapply CNT; [|exact C]. reflexivity. }
  destruct (c =? 32) eqn:E32.
  { destruct (count 32 (c :: s')) as [n0 r0] eqn:C. inversion TP; subst. eapply CNT; [|exact C]. reflexivity. }
  assert (SEP : c <> 160 -> separator c = false).
  { intros N160. unfold separator, in_rng.
    apply N.eqb_neq in E9, E11, E13, E12, E10, E32.
    destruct (c =? 32) eqn:A; [apply N.eqb_eq in A; contradiction|].
    destruct (c =? 160) eqn:B; [apply N.eqb_eq in B; contradiction|].
    cbn [orb]. destruct (9 <=? c) eqn:L1; [|reflexivity]. destruct (c <=? 13) eqn:L2; [|reflexivity].
    apply N.leb_le in L1, L2. lia. }
  destruct ((c =? 45) && is2 (c :: s') 45) eqn:E45.
  { apply andb_true_iff in E45 as [E1 E2]. apply N.eqb_eq in E1; subst c.
    apply is2_true in E2 as (a & r' & E2). inversion E2; subst. cbn [tl] in TP.
    destruct (take_line r') as [a0 b0] eqn:T. inversion TP; subst.
    destruct f as [|f]; [lia|]. exists f. split; [cbn [length] in *; lia|].
    cbn [skip_gap]. rewrite SEP by lia. cbn [starts2]. rewrite !N.eqb_refl. cbn [andb tl].
    rewrite (drop_line_take_line _ _ _ T). reflexivity. }
  destruct ((c =? 47) && is2 (c :: s') 42) eqn:E47.
  { apply andb_true_iff in E47 as [E1 E2]. apply N.eqb_eq in E1; subst c.
    apply is2_true in E2 as (a & r' & E2). inversion E2; subst. cbn [tl] in TP.
    destruct (take_block r') as [[a0 b0] t0] eqn:T. destruct t0; [|discriminate]. inversion TP; subst.
    destruct f as [|f]; [lia|]. exists f. split; [cbn [length] in *; lia|].
    cbn [skip_gap]. rewrite SEP by lia. cbn [starts2].
    replace (47 =? 45) with false by reflexivity. cbn [andb]. rewrite !N.eqb_refl. cbn [andb tl].
    rewrite (drop_block_take_block _ _ (le_n _) _ _ _ T). reflexivity. }
  destruct (c =? 160) eqn:E160; [|discriminate].
  destruct (count 160 (c :: s')) as [n0 r0] eqn:C. inversion TP; subst. eapply CNT; [|exact C]. reflexivity.
Qed.

(* where no trivia piece starts, skip_gap stops *)
Lemma gap_stop c r : trivia_piece (c :: r) = None -> forall f, skip_gap (S f) (c :: r) = Some (c :: r).
Proof.
  intros TP f. unfold trivia_piece in TP.
  destruct (c =? 9) eqn:E9; [destruct (count 9 (c :: r)); discriminate|].
  destruct (c =? 11) eqn:E11; [destruct (count 11 (c :: r)); discriminate|].
  destruct (c =? 13) eqn:E13.
  { destruct (is2 (c :: r) 10); [destruct (count_crlf (c :: r))|destruct (count 13 (c :: r))]; discriminate. }
  destruct (c =? 12) eqn:E12; [destruct (count 12 (c :: r)); discriminate|].
  destruct (c =? 10) eqn:E10; [destruct (count 10 (c :: r)); discriminate|].
  destruct (c =? 32) eqn:E32; [destruct (count 32 (c :: r)); discriminate|].
  destruct ((c =? 45) && is2 (c :: r) 45) eqn:E45; [destruct (take_line (tl r)); discriminate|].
  destruct ((c =? 47) && is2 (c :: r) 42) eqn:E47.
  { destruct (take_block (tl r)) as [[a0 b0] t0]. destruct t0; discriminate. }
  destruct (c =? 160) eqn:E160; [destruct (count 160 (c :: r)); discriminate|].
  assert (SEP : separator c = false).
  { unfold separator, in_rng. rewrite E32, E160. cbn [orb].
    apply N.eqb_neq in E9, E11, E13, E12, E10.
    destruct (9 <=? c) eqn:L1; [|reflexivity]. destruct (c <=? 13) eqn:L2; [|reflexivity].
    apply N.leb_le in L1, L2. lia. }
  cbn [skip_gap]. rewrite SEP.
  assert (S1 : starts2 (c :: r) 45 45 = false).
  { unfold starts2, is2 in *. destruct r as [|y r']; [reflexivity|]. exact E45. }
  assert (S2 : starts2 (c :: r) 47 42 = false).
  { unfold starts2, is2 in *. destruct r as [|y r']; [reflexivity|]. exact E47. }
  rewrite S1, S2. reflexivity.
Qed.

Lemma gap_trivia : forall fuel s tr r, trivia fuel s = Some (tr, r, false) ->
  forall f, (length s < f)%nat -> skip_gap f s = Some r.
Proof.
  induction fuel as [|fu IH]; intros s tr r H f Lf; cbn [trivia] in H; [discriminate|].
  destruct (trivia_piece s) as [[[p r0] un]|] eqn:TP.
  - destruct un; [discriminate|].
    destruct (trivia fu r0) as [[[ps r'] u']|] eqn:T; [|discriminate]. inversion H; subst.
    destruct (gap_piece _ _ _ TP f Lf) as (f' & Lf' & E). rewrite E. eapply IH; [exact T|exact Lf'].
  - inversion H; subst. destruct r as [|c r].
    + destruct f; [lia|]. reflexivity.
    + destruct f; [lia|]. apply gap_stop. exact TP.
Qed.

(* ------------------------------------------------------------------------------------------ *)
(* quoted lexemes, exponents, abstract literals                                                *)
(* ------------------------------------------------------------------------------------------ *)
Lemma quoted_body_rest q : forall n s, (length s <= n)%nat -> forall a b t, quoted_body q s = (a, b, t) ->
  quoted_rest q s = if t then Some (a, b) else None.
Proof.
  induction n as [|n IH]; intros s L a b t H.
  - destruct s; [|cbn [length] in L; lia]. cbn [quoted_body] in H. inversion H. reflexivity.
  - destruct s as [|x r]; [cbn [quoted_body] in H; inversion H; reflexivity|].
    cbn [quoted_body quoted_rest] in *. destruct (x =? q) eqn:E.
    + destruct r as [|y r2]; [inversion H; reflexivity|]. destruct (y =? q) eqn:E2.
      * destruct (quoted_body q r2) as [[a0 b0] t0] eqn:Q. inversion H; subst.
        rewrite (IH r2 ltac:(cbn [length] in L; lia) _ _ _ Q). destruct t; reflexivity.
      * inversion H; subst. reflexivity.
    + destruct (quoted_body q r) as [[a0 b0] t0] eqn:Q. inversion H; subst.
      rewrite (IH r ltac:(cbn [length] in L; lia) _ _ _ Q). destruct t; reflexivity.
Qed.
Lemma quoted_rest_of q r t r' : quoted (q :: r) = (t, r', true) ->
  exists body, t = q :: body /\ quoted_rest q r = Some (body, r').
Proof.
  unfold quoted. destruct (quoted_body q r) as [[a b] tm] eqn:Q. intros H. inversion H; subst.
  exists a. split; [reflexivity|]. apply (quoted_body_rest q _ r (le_n _) _ _ _ Q).
Qed.

Lemma opt_exponent_eq s : opt_exponent s = exponent s.
Proof.
  destruct s as [|e r]; [reflexivity|]. unfold opt_exponent, exponent, is_e, is_sign.
  destruct ((e =? 101) || (e =? 69)); [|reflexivity].
  destruct r as [|x r']; [reflexivity|].
  destruct ((x =? 43) || (x =? 45)); rewrite tw_span; reflexivity.
Qed.

Lemma based_tail_rest i ch r1 t r' : based_tail i ch r1 = (t, r', false) ->
  exists t', t = i ++ [ch] ++ t' /\ based_rest ch r1 = Some (t', r').
Proof.
  unfold based_tail, based_rest. rewrite tw_span.
  rewrite (span_ext is_identc ident_char _ identc_eq).
  destruct (span ident_char r1) as [b r2].
  assert (TAIL : forall fr r3,
    (let '(cl, r4, err) := match r3 with
                           | x :: r3' => if x =? ch then ([ch], r3', false) else ([], r3, true)
                           | [] => ([], r3, true)
                           end in
     let '(e, r5) := opt_exponent r4 in (i ++ [ch] ++ b ++ fr ++ cl ++ e, r5, err)) = (t, r', false) ->
    exists t', t = i ++ [ch] ++ t' /\
      match r3 with
      | x :: r3' => if x =? ch then let '(e, r4) := exponent r3' in Some (b ++ fr ++ [ch] ++ e, r4) else None
      | [] => None
      end = Some (t', r')).
  { intros fr r3. destruct r3 as [|x r3'].
    - destruct (opt_exponent []) as [e r5]. intros H. inversion H.
    - destruct (x =? ch).
      + rewrite opt_exponent_eq. destruct (exponent r3') as [e r5]. intros H. inversion H; subst.
        eexists. split; [|reflexivity]. reflexivity.
      + destruct (opt_exponent (x :: r3')) as [e r5]. intros H. inversion H. }
  destruct r2 as [|d r2']; [apply (TAIL [] [])|].
  destruct (d =? 46); [|apply (TAIL [] (d :: r2'))].
  rewrite tw_span. rewrite (span_ext is_identc ident_char _ identc_eq).
  destruct (span ident_char r2') as [b2 r2'']. apply (TAIL (46 :: b2) r2'').
Qed.

Lemma abstract_literal_eq s t r' : SynLexer.abstract_literal s = (t, r', false) ->
  LexGrammar.abstract_literal s = Some (t, r').
Proof.
  unfold SynLexer.abstract_literal, LexGrammar.abstract_literal. rewrite tw_span.
  rewrite (span_ext is_intc int_char _ intc_eq). destruct (span int_char s) as [i r].
  destruct r as [|ch r1]; [intros H; inversion H; reflexivity|].
  destruct (ch =? 46).
  { rewrite tw_span. rewrite (span_ext is_intc int_char _ intc_eq). destruct (span int_char r1) as [f r2].
    rewrite opt_exponent_eq. destruct (exponent r2) as [e r3]. intros H. inversion H. reflexivity. }
  assert (BASED : forall g : bool, (if (ch =? 35) || (ch =? 58) && g then based_tail i ch r1
                  else if (ch =? 101) || (ch =? 69) then let '(e, r2) := opt_exponent (ch :: r1) in (i ++ e, r2, false)
                  else (i, ch :: r1, false)) = (t, r', false) ->
            (if (ch =? 35) || (ch =? 58) && g
             then match based_rest ch r1 with Some (t0, r2) => Some (i ++ [ch] ++ t0, r2) | None => None end
             else if is_e ch then let '(e, r2) := exponent (ch :: r1) in Some (i ++ e, r2)
             else Some (i, ch :: r1)) = Some (t, r')).
  { intros g. destruct ((ch =? 35) || (ch =? 58) && g).
    - intros H. apply based_tail_rest in H as (t' & E & B). rewrite B. subst t. reflexivity.
    - unfold is_e. destruct ((ch =? 101) || (ch =? 69)).
      + rewrite opt_exponent_eq. destruct (exponent (ch :: r1)) as [e r2]. intros H. inversion H. reflexivity.
      + intros H. inversion H. reflexivity. }
  destruct r1 as [|x r1']; [apply (BASED false)|apply (BASED (letter_or_digit x))].
Qed.

Lemma abstract_literal_shape s t r' : LexGrammar.abstract_literal s = Some (t, r') ->
  let i := fst (span int_char s) in
  (t = i /\ r' = snd (span int_char s)) \/
  (exists x more, t = i ++ x :: more /\ int_char x = false /\ bs1 x = false /\ bs2a x = false).
Proof.
  unfold LexGrammar.abstract_literal. destruct (span int_char s) as [i r] eqn:S. cbn [fst snd].
  destruct r as [|ch r1]; [intros H; inversion H; left; split; reflexivity|].
  destruct (ch =? 46) eqn:E46.
  { apply N.eqb_eq in E46; subst ch. destruct (span int_char r1) as [f r2]. destruct (exponent r2) as [e r3].
    intros H. inversion H; subst. right. exists 46, (f ++ e). split; [reflexivity|]. repeat split; reflexivity. }
  destruct ((ch =? 35) || (ch =? 58) && match r1 with x :: _ => letter_or_digit x | [] => false end) eqn:EB.
  { destruct (based_rest ch r1) as [[tb r2]|]; [|discriminate]. intros H. inversion H; subst.
    right. exists ch, tb. split; [reflexivity|].
    apply orb_true_iff in EB as [EB|EB].
    - apply N.eqb_eq in EB; subst ch. repeat split; reflexivity.
    - apply andb_true_iff in EB as [EB _]. apply N.eqb_eq in EB; subst ch. repeat split; reflexivity. }
  destruct (is_e ch) eqn:EE.
  { unfold exponent. rewrite EE.
    destruct (match r1 with
              | x :: r'0 => if is_sign x then ([x], r'0) else ([], r1)
              | [] => ([], r1) end) as [sg r2].
    destruct (span int_char r2) as [d r3]. intros H. inversion H; subst.
    right. exists ch, (sg ++ d). split; [reflexivity|].
    unfold is_e in EE. apply orb_true_iff in EE as [EE|EE]; apply N.eqb_eq in EE; subst ch; repeat split; reflexivity. }
  intros H. inversion H; subst. left. split; reflexivity.
Qed.

(* ------------------------------------------------------------------------------------------ *)
(* base specifiers                                                                             *)
(* ------------------------------------------------------------------------------------------ *)
Lemma bs_words : base_specifiers =
  [[98]; [111]; [120]; [100]; [115; 98]; [117; 98]; [115; 111]; [117; 111]; [115; 120]; [117; 120]].
Proof. reflexivity. Qed.

Lemma is_bs_nil : is_base_specifier [] = false.
Proof. reflexivity. Qed.
Lemma is_bs_1 a : is_base_specifier [a] = bs1 a.
Proof.
  unfold is_base_specifier. rewrite bs_words. cbn [map existsb beq_bytes]. change lower with to_lower. unfold bs1.
  rewrite !andb_false_r, !andb_true_r, !orb_false_r. rewrite <- !orb_assoc. reflexivity.
Qed.
Lemma is_bs_2 a b : is_base_specifier [a; b] = bs2a a && bs2b b.
Proof.
  unfold is_base_specifier. rewrite bs_words. cbn [map existsb beq_bytes]. change lower with to_lower. unfold bs2a, bs2b.
  rewrite !andb_false_r, !andb_true_r, !orb_false_r. cbn [orb].
  destruct (to_lower a =? 115), (to_lower a =? 117), (to_lower b =? 98), (to_lower b =? 111), (to_lower b =? 120);
    reflexivity.
Qed.
Lemma is_bs_3 a b c r : is_base_specifier (a :: b :: c :: r) = false.
Proof.
  unfold is_base_specifier. rewrite bs_words. cbn [map existsb beq_bytes].
  rewrite !andb_false_r. reflexivity.
Qed.

Lemma tl_letter c : lower_letter (to_lower c) = true -> letter c = true.
Proof.
  unfold to_lower, letter. destruct (upper_letter c) eqn:U; [rewrite orb_true_r; reflexivity|].
  intros H. rewrite H. reflexivity.
Qed.
Lemma bs1_letter a : bs1 a = true -> letter a = true.
Proof.
  unfold bs1. intros H. apply tl_letter.
  repeat (apply orb_true_iff in H as [H|H]); apply N.eqb_eq in H; rewrite H; reflexivity.
Qed.
Lemma bs2a_letter a : bs2a a = true -> letter a = true.
Proof.
  unfold bs2a. intros H. apply tl_letter.
  repeat (apply orb_true_iff in H as [H|H]); apply N.eqb_eq in H; rewrite H; reflexivity.
Qed.
Lemma bs2b_letter a : bs2b a = true -> letter a = true.
Proof.
  unfold bs2b. intros H. apply tl_letter.
  repeat (apply orb_true_iff in H as [H|H]); apply N.eqb_eq in H; rewrite H; reflexivity.
Qed.
Lemma letter_ident c : letter c = true -> ident_char c = true.
Proof. unfold ident_char. intros H. rewrite H. reflexivity. Qed.

Lemma is_bs_head x t : is_base_specifier (x :: t) = true -> letter x = true.
Proof.
  destruct t as [|b [|c r]].
  - rewrite is_bs_1. apply bs1_letter.
  - rewrite is_bs_2. intros H. apply andb_true_iff in H as [H _]. apply bs2a_letter. exact H.
  - rewrite is_bs_3. discriminate.
Qed.

(* a base specifier directly followed by a quotation mark, seen from the identifier scan *)
Lemma bs_len_of_ident t r' : is_base_specifier t = true -> base_spec_len (t ++ 34 :: r') = Some (length t).
Proof.
  destruct t as [|a [|b [|c r]]].
  - discriminate.
  - rewrite is_bs_1. intros H. cbn [app base_spec_len length]. rewrite H. reflexivity.
  - rewrite is_bs_2. intros H. apply andb_true_iff in H as [H1 H2]. cbn [app base_spec_len length].
    rewrite H1, H2.
    assert (N34 : (b =? 34) = false).
    { apply bs2b_letter in H2. destruct (b =? 34) eqn:E; [|reflexivity]. apply N.eqb_eq in E. subst b. discriminate. }
    rewrite N34, andb_false_r. cbn [andb]. rewrite N.eqb_refl. reflexivity.
  - rewrite is_bs_3. discriminate.
Qed.
Lemma ident_of_bs_len s n : base_spec_len s = Some n ->
  exists t r', s = t ++ 34 :: r' /\ length t = n /\ is_base_specifier t = true /\ span ident_char s = (t, 34 :: r').
Proof.
  destruct s as [|a [|b r]]; try discriminate. cbn [base_spec_len].
  destruct (bs1 a && (b =? 34)) eqn:E1.
  - intros H. inversion H; subst. apply andb_true_iff in E1 as [E1 E2]. apply N.eqb_eq in E2; subst b.
    exists [a], r. split; [reflexivity|]. split; [reflexivity|]. split; [rewrite is_bs_1; exact E1|].
    cbn [span]. rewrite (letter_ident _ (bs1_letter _ E1)). replace (ident_char 34) with false by reflexivity. reflexivity.
  - destruct (bs2a a && bs2b b && match r with c :: _ => c =? 34 | [] => false end) eqn:E2; [|discriminate].
    intros H. inversion H; subst. apply andb_true_iff in E2 as [E2 E3]. apply andb_true_iff in E2 as [E2a E2b].
    destruct r as [|c r]; [discriminate|]. apply N.eqb_eq in E3; subst c.
    exists [a; b], r. split; [reflexivity|]. split; [reflexivity|].
    split; [rewrite is_bs_2, E2a, E2b; reflexivity|].
    cbn [span]. rewrite (letter_ident _ (bs2a_letter _ E2a)), (letter_ident _ (bs2b_letter _ E2b)).
    replace (ident_char 34) with false by reflexivity. reflexivity.
Qed.

(* ------------------------------------------------------------------------------------------ *)
(* reserved words                                                                              *)
(* ------------------------------------------------------------------------------------------ *)
Lemma beq_list_eqb a b : beq_bytes a b = list_eqb a b.
Proof. revert b. induction a as [|x a IH]; intros [|y b]; try reflexivity. Qed.
Lemma list_eqb_refl a : list_eqb a a = true.
Proof. induction a as [|x a IH]; [reflexivity|]. cbn [list_eqb]. rewrite N.eqb_refl, IH. reflexivity. Qed.
Lemma existsb_eqb_in l L : existsb (list_eqb l) L = true <-> In l L.
Proof.
  rewrite existsb_exists. split.
  - intros (x & Hx & E). apply list_eqb_eq in E. subst x. exact Hx.
  - intros H. exists l. split; [exact H|apply list_eqb_refl].
Qed.
Definition incl_b (A B : list (list N)) : bool := forallb (fun w => existsb (list_eqb w) B) A.
Lemma incl_b_sound A B : incl_b A B = true -> forall l, In l A -> In l B.
Proof.
  unfold incl_b. intros H l Hl. rewrite forallb_forall in H. apply existsb_eqb_in. apply H. exact Hl.
Qed.
Lemma existsb_ext' {A} (f g : A -> bool) l : (forall x, f x = g x) -> existsb f l = existsb g l.
Proof. intros E. induction l as [|x l IH]; [reflexivity|]. cbn [existsb]. rewrite E, IH. reflexivity. Qed.
Lemma kw_incl_1 : incl_b kw2008 LangLexer.keywords_2008 = true.
Proof. vm_compute. reflexivity. Qed.
Lemma kw_incl_2 : incl_b LangLexer.keywords_2008 kw2008 = true.
Proof. vm_compute. reflexivity. Qed.
(* the two keyword tables hold the same words (since commit 9360ea7) *)
Lemma kw_agree l :
  existsb (beq_bytes l) kw2008 = existsb (list_eqb l) LangLexer.keywords_2008.
Proof.
  rewrite (existsb_ext' _ (list_eqb l)) by (intros; apply beq_list_eqb).
  destruct (existsb (list_eqb l) kw2008) eqn:E1; destruct (existsb (list_eqb l) LangLexer.keywords_2008) eqn:E2;
    try reflexivity; exfalso.
  - apply existsb_eqb_in in E1. apply (incl_b_sound _ _ kw_incl_1) in E1. apply existsb_eqb_in in E1. congruence.
  - apply existsb_eqb_in in E2. apply (incl_b_sound _ _ kw_incl_2) in E2. apply existsb_eqb_in in E2. congruence.
Qed.
Lemma all_is_kw : existsb (beq_bytes kw_all) kw2008 = true.
Proof. vm_compute. reflexivity. Qed.
Lemma bs_not_kw : forallb (fun w => negb (existsb (beq_bytes w) kw2008)) base_specifiers = true.
Proof. vm_compute. reflexivity. Qed.
Lemma bs_ident_kind t : is_base_specifier t = true -> ident_kind kw2008 t = KIdentifier.
Proof.
  unfold is_base_specifier, ident_kind. intros H. apply existsb_exists in H as (w & Hw & E).
  rewrite beq_list_eqb in E. apply list_eqb_eq in E. rewrite E.
  pose proof bs_not_kw as B. rewrite forallb_forall in B. specialize (B w Hw).
  destruct (existsb (beq_bytes w) kw2008); [discriminate|reflexivity].
Qed.

Lemma is_prefix_app p x : is_prefix p (p ++ x) = true.
Proof. induction p as [|a p IH]; [reflexivity|]. cbn [app is_prefix]. rewrite N.eqb_refl, IH. reflexivity. Qed.
Lemma contains_prefix p x : contains p (p ++ x) = true.
Proof. destruct (p ++ x) eqn:E; cbn [contains]; rewrite <- E, is_prefix_app; reflexivity. Qed.
Lemma contains_suffix p a b : contains p (a ++ b) = false -> contains p b = false.
Proof.
  induction a as [|x a IH]; [trivial|]. cbn [app contains]. intros H. apply orb_false_iff in H as [_ H]. apply IH. exact H.
Qed.
Lemma psl_suffix a b : has_psl_word (a ++ b) = false -> has_psl_word b = false.
Proof.
  unfold has_psl_word. rewrite map_app. intros H. apply orb_false_iff in H as [H1 H2].
  rewrite (contains_suffix _ _ _ H1), (contains_suffix _ _ _ H2). reflexivity.
Qed.
Lemma psl_head t r : has_psl_word (t ++ r) = false ->
  map to_lower t <> ASSUME_G /\ map to_lower t <> RESTRICT_G.
Proof.
  unfold has_psl_word. rewrite map_app. intros H. apply orb_false_iff in H as [H1 H2].
  split; intros E; rewrite E in *; rewrite contains_prefix in *; discriminate.
Qed.

(* the tick rule: the keyword classes of the two tables coincide away from the two PSL words *)
Lemma ident_after_agree t :
  can_be_char (Some (ident_kind kw2008 t)) = can_char (ident_after LangLexer.keywords_2008 t).
Proof.
  unfold ident_kind, ident_after. cbv zeta.
  change (map lower t) with (map to_lower t). set (l := map to_lower t) in *.
  rewrite (kw_agree l). change KW_ALL with kw_all.
  destruct (list_eqb l kw_all) eqn:EA.
  - apply list_eqb_eq in EA. rewrite EA. rewrite <- (kw_agree kw_all). rewrite all_is_kw.
    cbn [can_be_char can_char]. rewrite beq_list_eqb, list_eqb_refl. reflexivity.
  - destruct (existsb (list_eqb l) LangLexer.keywords_2008).
    + cbn [can_be_char can_char]. rewrite beq_list_eqb, EA. reflexivity.
    + reflexivity.
Qed.

(* ------------------------------------------------------------------------------------------ *)
(* one token that starts with neither a letter nor a digit                                     *)
(* ------------------------------------------------------------------------------------------ *)
(* the reference step on a known leading character (closed tests evaluate by conversion) *)
Lemma step_59 kws prev r : lexeme_step kws prev (59 :: r) = delim 1 (59 :: r). Proof. reflexivity. Qed.
Lemma step_40 kws prev r : lexeme_step kws prev (40 :: r) = delim 1 (40 :: r). Proof. reflexivity. Qed.
Lemma step_43 kws prev r : lexeme_step kws prev (43 :: r) = delim 1 (43 :: r). Proof. reflexivity. Qed.
Lemma step_45 kws prev r : lexeme_step kws prev (45 :: r) = delim 1 (45 :: r). Proof. reflexivity. Qed.
Lemma step_46 kws prev r : lexeme_step kws prev (46 :: r) = delim 1 (46 :: r). Proof. reflexivity. Qed.
Lemma step_38 kws prev r : lexeme_step kws prev (38 :: r) = delim 1 (38 :: r). Proof. reflexivity. Qed.
Lemma step_44 kws prev r : lexeme_step kws prev (44 :: r) = delim 1 (44 :: r). Proof. reflexivity. Qed.
Lemma step_94 kws prev r : lexeme_step kws prev (94 :: r) = delim 1 (94 :: r). Proof. reflexivity. Qed.
Lemma step_64 kws prev r : lexeme_step kws prev (64 :: r) = delim 1 (64 :: r). Proof. reflexivity. Qed.
Lemma step_124 kws prev r : lexeme_step kws prev (124 :: r) = delim 1 (124 :: r). Proof. reflexivity. Qed.
Lemma step_91 kws prev r : lexeme_step kws prev (91 :: r) = delim 1 (91 :: r). Proof. reflexivity. Qed.
Lemma step_41 kws prev r : lexeme_step kws prev (41 :: r) = Some ([41], r, AfterName). Proof. reflexivity. Qed.
Lemma step_93 kws prev r : lexeme_step kws prev (93 :: r) = Some ([93], r, AfterName). Proof. reflexivity. Qed.
Lemma step_58 kws prev r : lexeme_step kws prev (58 :: r) = if hd_eq r 61 then delim 2 (58 :: r) else delim 1 (58 :: r). Proof. reflexivity. Qed.
Lemma step_61 kws prev r : lexeme_step kws prev (61 :: r) = if hd_eq r 62 then delim 2 (61 :: r) else delim 1 (61 :: r). Proof. reflexivity. Qed.
Lemma step_60 kws prev r : lexeme_step kws prev (60 :: r) = if hd_eq r 61 || hd_eq r 62 || hd_eq r 60 then delim 2 (60 :: r) else delim 1 (60 :: r). Proof. reflexivity. Qed.
Lemma step_62 kws prev r : lexeme_step kws prev (62 :: r) = if hd_eq r 61 || hd_eq r 62 then delim 2 (62 :: r) else delim 1 (62 :: r). Proof. reflexivity. Qed.
Lemma step_47 kws prev r : lexeme_step kws prev (47 :: r) = if hd_eq r 61 then delim 2 (47 :: r) else delim 1 (47 :: r). Proof. reflexivity. Qed.
Lemma step_42 kws prev r : lexeme_step kws prev (42 :: r) = if hd_eq r 42 then delim 2 (42 :: r) else delim 1 (42 :: r). Proof. reflexivity. Qed.
Lemma step_63 kws prev r : lexeme_step kws prev (63 :: r) =
  if hd_eq r 63 || hd_eq r 61 then delim 2 (63 :: r)
  else if hd_eq r 47 then (if snd_eq r 61 then delim 3 (63 :: r) else delim 1 (63 :: r))
  else if hd_eq r 60 || hd_eq r 62 then (if snd_eq r 61 then delim 3 (63 :: r) else delim 2 (63 :: r))
  else delim 1 (63 :: r).
Proof. reflexivity. Qed.
Lemma step_39 kws prev r : lexeme_step kws prev (39 :: r) =
  if can_char prev && snd_eq r 39 then delim 3 (39 :: r) else delim 1 (39 :: r).
Proof. reflexivity. Qed.
Lemma step_34 kws prev r : lexeme_step kws prev (34 :: r) =
  match quoted_rest 34 r with Some (b, r') => Some (34 :: b, r', AfterOther) | None => None end.
Proof. reflexivity. Qed.
Lemma step_92 kws prev r : lexeme_step kws prev (92 :: r) =
  match quoted_rest 92 r with Some (b, r') => Some (92 :: b, r', AfterName) | None => None end.
Proof. reflexivity. Qed.

Definition inert (k : kind) (t : list byte) : Prop :=
  is_abs k = false /\ (is_ident k = true -> is_base_specifier t = false).

Ltac fin_one H :=
  unfold one in H; inversion H; subst; clear H;
  eexists; split; [unfold delim; reflexivity|];
  split; [reflexivity|]; split; [reflexivity|intros X; discriminate X].

Lemma token_other last prev c r k t r' :
  letter c = false -> digit c = false -> (c =? 96) = false ->
  token kw2008 last (c :: r) = (k, t, r', None) ->
  can_be_char last = can_char prev ->
  exists a, lexeme_step LangLexer.keywords_2008 prev (c :: r) = Some (t, r', a)
            /\ can_be_char (Some k) = can_char a /\ inert k t.
Proof.
  intros L D G H INV. unfold token in H. rewrite alpha_eq, L, digit_eq, D, INV in H.
  change hd_is with hd_eq in H. change is2 with snd_eq in H.
  destruct (c =? 58) eqn:E58.
  { apply N.eqb_eq in E58; subst c. rewrite step_58. destruct (hd_eq r 61); fin_one H. }
  destruct (c =? 39) eqn:E39.
  { apply N.eqb_eq in E39; subst c. rewrite step_39. destruct (can_char prev && snd_eq r 39); fin_one H. }
  destruct (c =? 45) eqn:E45.
  { apply N.eqb_eq in E45; subst c. rewrite step_45. fin_one H. }
  destruct (c =? 34) eqn:E34.
  { apply N.eqb_eq in E34; subst c. rewrite step_34.
    destruct (quoted (34 :: r)) as [[t0 r0] tm] eqn:Q. destruct tm; inversion H; subst; clear H.
    apply quoted_rest_of in Q as (body & E & Q). subst t. rewrite Q.
    eexists; split; [reflexivity|]. split; [reflexivity|]. split; [reflexivity|intros X; discriminate X]. }
  destruct (c =? 59) eqn:E59.
  { apply N.eqb_eq in E59; subst c. rewrite step_59. fin_one H. }
  destruct (c =? 40) eqn:E40.
  { apply N.eqb_eq in E40; subst c. rewrite step_40. fin_one H. }
  destruct (c =? 41) eqn:E41.
  { apply N.eqb_eq in E41; subst c. rewrite step_41. unfold one in H; inversion H; subst; clear H.
    eexists; split; [reflexivity|]. split; [reflexivity|]. split; [reflexivity|intros X; discriminate X]. }
  destruct (c =? 43) eqn:E43.
  { apply N.eqb_eq in E43; subst c. rewrite step_43. fin_one H. }
  destruct (c =? 46) eqn:E46.
  { apply N.eqb_eq in E46; subst c. rewrite step_46. fin_one H. }
  destruct (c =? 38) eqn:E38.
  { apply N.eqb_eq in E38; subst c. rewrite step_38. fin_one H. }
  destruct (c =? 44) eqn:E44.
  { apply N.eqb_eq in E44; subst c. rewrite step_44. fin_one H. }
  destruct (c =? 61) eqn:E61.
  { apply N.eqb_eq in E61; subst c. rewrite step_61. destruct (hd_eq r 62); fin_one H. }
  destruct (c =? 60) eqn:E60.
  { apply N.eqb_eq in E60; subst c. rewrite step_60.
    destruct (hd_eq r 61); [cbn [orb]; fin_one H|]. destruct (hd_eq r 62); [cbn [orb]; fin_one H|].
    destruct (hd_eq r 60); cbn [orb]; fin_one H. }
  destruct (c =? 62) eqn:E62.
  { apply N.eqb_eq in E62; subst c. rewrite step_62.
    destruct (hd_eq r 61); [cbn [orb]; fin_one H|]. destruct (hd_eq r 62); cbn [orb]; fin_one H. }
  destruct (c =? 47) eqn:E47.
  { apply N.eqb_eq in E47; subst c. rewrite step_47. destruct (hd_eq r 61); fin_one H. }
  destruct (c =? 42) eqn:E42.
  { apply N.eqb_eq in E42; subst c. rewrite step_42. destruct (hd_eq r 42); fin_one H. }
  destruct (c =? 63) eqn:E63.
  { apply N.eqb_eq in E63; subst c. rewrite step_63.
    destruct (hd_eq r 63); [cbn [orb]; fin_one H|]. destruct (hd_eq r 61); [cbn [orb]; fin_one H|]. cbn [orb].
    destruct (hd_eq r 47); [destruct (snd_eq r 61); fin_one H|].
    destruct (hd_eq r 60); [cbn [orb]; destruct (snd_eq r 61); fin_one H|].
    destruct (hd_eq r 62); cbn [orb]; [destruct (snd_eq r 61); fin_one H|fin_one H]. }
  destruct (c =? 94) eqn:E94.
  { apply N.eqb_eq in E94; subst c. rewrite step_94. fin_one H. }
  destruct (c =? 64) eqn:E64.
  { apply N.eqb_eq in E64; subst c. rewrite step_64. fin_one H. }
  destruct (c =? 124) eqn:E124.
  { apply N.eqb_eq in E124; subst c. rewrite step_124. fin_one H. }
  destruct (c =? 91) eqn:E91.
  { apply N.eqb_eq in E91; subst c. rewrite step_91. fin_one H. }
  destruct (c =? 93) eqn:E93.
  { apply N.eqb_eq in E93; subst c. rewrite step_93. unfold one in H; inversion H; subst; clear H.
    eexists; split; [reflexivity|]. split; [reflexivity|]. split; [reflexivity|intros X; discriminate X]. }
  destruct (c =? 92) eqn:E92.
  { apply N.eqb_eq in E92; subst c. rewrite step_92.
    destruct (quoted (92 :: r)) as [[t0 r0] tm] eqn:Q. destruct tm; inversion H; subst; clear H.
    apply quoted_rest_of in Q as (body & E & Q). subst t. rewrite Q.
    eexists; split; [reflexivity|]. split; [reflexivity|]. split; [reflexivity|].
    intros _. destruct (is_base_specifier (92 :: body)) eqn:B; [|reflexivity].
    apply is_bs_head in B. discriminate B. }
  rewrite G in H. inversion H.
Qed.

(* ------------------------------------------------------------------------------------------ *)
(* the head of a token list produced by the loop                                               *)
(* ------------------------------------------------------------------------------------------ *)
Lemma trivia_bytes_nil_inv r s : trivia_bytes [] ++ r = s -> r = s.
Proof. cbn. trivial. Qed.

Lemma lex_first kws f last s tok d rest :
  lex kws f last s = LexOk ((tok, d) :: rest) -> t_trivia tok = [] ->
  (s = [] /\ t_kind tok = KEof) \/
  (exists c r k t r' e f0, s = c :: r /\ f = S f0 /\ token kws last (c :: r) = (k, t, r', e)
     /\ tok = mkTok k t [] /\ lex kws f0 (Some k) r' = LexOk rest).
Proof.
  destruct f as [|f0]; [discriminate|]. rewrite lex_S.
  destruct (trivia (S (length s)) s) as [[[tr r] un]|] eqn:T; [|discriminate].
  apply trivia_ok in T as (Tb & _ & _).
  destruct r as [|c r0].
  - intros H NT. injection H as Htok _ _. rewrite <- Htok in NT. cbn [t_trivia] in NT. rewrite NT in Tb.
    left. split; [|rewrite <- Htok; reflexivity]. cbn in Tb. symmetry. exact Tb.
  - destruct (token kws last (c :: r0)) as [[[k t] r'] e] eqn:Tk.
    destruct (combine_diag tr un e) as [d0|]; [|discriminate].
    destruct (lex kws f0 (Some k) r') as [ts| |] eqn:Lx; try discriminate.
    intros H NT. injection H as Htok _ Hrest. rewrite <- Htok in NT. cbn [t_trivia] in NT. rewrite NT in Tb.
    cbn in Tb. right. exists c, r0, k, t, r', e, f0.
    split; [symmetry; exact Tb|]. split; [reflexivity|]. split; [exact Tk|].
    split; [rewrite <- Htok, NT; reflexivity|]. rewrite <- Hrest. exact Lx.
Qed.

Lemma trivia_piece_nonsep c r : separator c = false -> (c =? 45) = false -> (c =? 47) = false ->
  trivia_piece (c :: r) = None.
Proof.
  intros S N45 N47. unfold trivia_piece. unfold separator, in_rng in S.
  apply orb_false_iff in S as [S S3]. apply orb_false_iff in S as [S1 S2].
  assert (R : forall k, 9 <= k -> k <= 13 -> (c =? k) = false).
  { intros k K1 K2. destruct (c =? k) eqn:E; [|reflexivity]. apply N.eqb_eq in E. subst k.
    apply N.leb_le in K1, K2. rewrite K1, K2 in S3. discriminate. }
  rewrite (R 9), (R 11), (R 13), (R 12), (R 10) by lia. rewrite S1, N45, N47, S2. reflexivity.
Qed.
Lemma trivia_none c r n : trivia_piece (c :: r) = None -> trivia (S n) (c :: r) = Some ([], c :: r, false).
Proof. intros H. cbn [trivia]. rewrite H. reflexivity. Qed.
Lemma letter_nonsep c : letter c = true -> separator c = false /\ (c =? 45) = false /\ (c =? 47) = false.
Proof.
  unfold letter, lower_letter, upper_letter, separator. unfold in_rng. intros H.
  assert (65 <= c) as L.
  { apply orb_true_iff in H as [H|H]; apply andb_true_iff in H as [H1 H2]; apply N.leb_le in H1, H2; lia. }
  assert (c <= 122) as U.
  { apply orb_true_iff in H as [H|H]; apply andb_true_iff in H as [H1 H2]; apply N.leb_le in H1, H2; lia. }
  repeat split.
  - destruct (c =? 32) eqn:A; [apply N.eqb_eq in A; lia|]. destruct (c =? 160) eqn:B; [apply N.eqb_eq in B; lia|].
    cbn [orb]. destruct (c <=? 13) eqn:C; [apply N.leb_le in C; lia|]. rewrite andb_false_r. reflexivity.
  - destruct (c =? 45) eqn:A; [apply N.eqb_eq in A; lia|reflexivity].
  - destruct (c =? 47) eqn:A; [apply N.eqb_eq in A; lia|reflexivity].
Qed.

Lemma token_letter kws last c r : letter c = true ->
  token kws last (c :: r) =
  (ident_kind kws (fst (span ident_char (c :: r))), fst (span ident_char (c :: r)), snd (span ident_char (c :: r)), None).
Proof.
  intros L. unfold token. rewrite alpha_eq, L. rewrite tw_span.
  rewrite (span_ext is_identc ident_char _ identc_eq). destruct (span ident_char (c :: r)); reflexivity.
Qed.
Lemma token_quote kws last r :
  token kws last (34 :: r) =
  (let '(t, r', term) := quoted (34 :: r) in (KStringLiteral, t, r', if term then None else Some EUntermString)).
Proof. reflexivity. Qed.

(* a string token starts with a quotation mark *)
Lemma token_kind_string kws last c r k t r' e :
  token kws last (c :: r) = (k, t, r', e) -> is_str k = true -> c = 34.
Proof.
  unfold token, one.
  repeat match goal with
         | |- context [if ?b then _ else _] => destruct b eqn:?
         | |- context [let '(_, _) := ?x in _] => destruct x
         end;
  intros H S; inversion H; subst; try discriminate S;
  try (unfold ident_kind in S; match type of S with context [if ?b then _ else _] => destruct b end; discriminate S).
  all: match goal with E : (?x =? 34) = true |- ?x = 34 => apply N.eqb_eq in E; exact E end.
Qed.

(* ------------------------------------------------------------------------------------------ *)
(* cleanliness and merging                                                                     *)
(* ------------------------------------------------------------------------------------------ *)
Lemma or_err_none a b : or_err a b = None -> a = None /\ b = None.
Proof. destruct a; [discriminate|]. intros H. split; [reflexivity|exact H]. Qed.

Lemma merge_clean : forall n ts, (length ts <= n)%nat -> syn_clean_of (merge ts) = true -> syn_clean_of ts = true.
Proof.
  induction n as [|n IH]; intros ts L H.
  - destruct ts; [reflexivity|cbn [length] in L; lia].
  - destruct ts as [|[t d] rest]; [reflexivity|]. rewrite merge_cons in H. cbn [length] in L.
    assert (KEEP : syn_clean_of ((t, d) :: merge rest) = true -> syn_clean_of ((t, d) :: rest) = true).
    { unfold syn_clean_of. cbn [forallb snd]. intros K. apply andb_true_iff in K as [K1 K2].
      rewrite K1. apply (IH rest); [lia|exact K2]. }
    destruct (is_ident (t_kind t) && is_base_specifier (t_text t)).
    + destruct rest as [|[s ds] rest']; [exact (KEEP H)|].
      destruct (is_str (t_kind s) && no_trivia s); [|exact (KEEP H)].
      unfold syn_clean_of in *. cbn [forallb snd] in *. apply andb_true_iff in H as [H1 H2].
      destruct (or_err d ds) eqn:O; [discriminate|]. apply or_err_none in O as [-> ->].
      cbn [andb]. apply (IH rest'); [cbn [length] in L; lia|exact H2].
    + destruct (is_abs (t_kind t)); [|exact (KEEP H)].
      destruct rest as [|[i di] [|[s ds] rest']]; try exact (KEEP H).
      destruct (forallb is_intc (t_text t) && is_ident (t_kind i) && no_trivia i && is_base_specifier (t_text i) && is_str (t_kind s) && no_trivia s);
        [|exact (KEEP H)].
      unfold syn_clean_of in *. cbn [forallb snd] in *. apply andb_true_iff in H as [H1 H2].
      destruct (or_err (or_err d di) ds) eqn:O; [discriminate|]. apply or_err_none in O as [O ->].
      apply or_err_none in O as [-> ->]. cbn [andb]. apply (IH rest'); [cbn [length] in L; lia|exact H2].
Qed.

Lemma norm_eol_id t : no_cr t = true -> norm_eol t = t.
Proof.
  induction t as [|c r IH]; [reflexivity|]. intros H. apply no_cr_cons in H as [H1 H2].
  cbn [norm_eol]. rewrite H1, (IH H2). reflexivity.
Qed.
Lemma no_cr_app a b : no_cr (a ++ b) = true -> no_cr a = true /\ no_cr b = true.
Proof. unfold no_cr. rewrite forallb_app. apply andb_true_iff. Qed.
Lemma no_dir_app a b : no_directive (a ++ b) = true -> no_directive a = true /\ no_directive b = true.
Proof. unfold no_directive. rewrite forallb_app. apply andb_true_iff. Qed.
Lemma no_dir_head c r : no_directive (c :: r) = true -> (c =? 96) = false.
Proof. unfold no_directive. cbn [forallb]. intros H. apply andb_true_iff in H as [H _]. destruct (c =? 96); [discriminate|reflexivity]. Qed.

Definition bad_bs (x : ltok) : bool :=
  match t_kind (fst x) with KBitStringLiteral => nonint_prefix (t_text (fst x)) | _ => false end.

Lemma lexemes_cons k t tr d rest : is_eof k = false ->
  syn_lexemes_of ((mkTok k t tr, d) :: rest) = norm_eol t :: syn_lexemes_of rest.
Proof. intros E. unfold syn_lexemes_of. cbn [filter fst t_kind]. rewrite E. reflexivity. Qed.

(* ------------------------------------------------------------------------------------------ *)
(* the token loop + merge realise split_from                                                   *)
(* ------------------------------------------------------------------------------------------ *)
Lemma firstn_S_app {A} (t : list A) x r : firstn (S (length t)) (t ++ x :: r) = t ++ [x].
Proof. induction t as [|a t IH]; [reflexivity|]. cbn [length app firstn]. cbn [length app firstn] in IH. rewrite IH. reflexivity. Qed.
Lemma skipn_S_app {A} (t : list A) x r : skipn (S (length t)) (t ++ x :: r) = r.
Proof. induction t as [|a t IH]; [reflexivity|]. cbn [length app skipn]. cbn [length app skipn] in IH. exact IH. Qed.

Lemma sep34 : separator 34 = false /\ (34 =? 45) = false /\ (34 =? 47) = false.
Proof. repeat split. Qed.
Lemma trivia_34 r n : trivia (S n) (34 :: r) = Some ([], 34 :: r, false).
Proof. apply trivia_none. apply trivia_piece_nonsep; reflexivity. Qed.
Lemma trivia_letter c r n : letter c = true -> trivia (S n) (c :: r) = Some ([], c :: r, false).
Proof. intros L. apply trivia_none. destruct (letter_nonsep c L) as (A & B & C). apply trivia_piece_nonsep; assumption. Qed.

(* the string token that follows a base specifier *)
Lemma lex_string f last r ts : lex kw2008 f last (34 :: r) = LexOk ts -> syn_clean_of ts = true ->
  exists f1 body r2 ts2, f = S f1 /\ quoted_rest 34 r = Some (body, r2) /\
    ts = (mkTok KStringLiteral (34 :: body) [], None) :: ts2 /\
    lex kw2008 f1 (Some KStringLiteral) r2 = LexOk ts2 /\ (length r2 <= length r)%nat.
Proof.
  destruct f as [|f1]; [discriminate|]. rewrite lex_S, trivia_34, token_quote.
  destruct (quoted (34 :: r)) as [[tq rq] tm] eqn:Q. destruct tm.
  - cbn [combine_diag]. destruct (lex kw2008 f1 (Some KStringLiteral) rq) as [ts2| |] eqn:L2; try discriminate.
    intros H _. inversion H; subst. pose proof (quoted_ok _ _ _ _ _ Q) as [QB _].
    apply quoted_rest_of in Q as (body & E & QR). subst tq.
    exists f1, body, rq, ts2. repeat split; try reflexivity; try assumption.
    cbn [app] in QB. injection QB as QB'. apply (f_equal (@length _)) in QB'. rewrite app_length in QB'. unfold byte in *. lia.
  - cbn [combine_diag]. destruct (lex kw2008 f1 (Some KStringLiteral) rq) as [ts2| |]; try discriminate.
    intros H C. inversion H; subst. discriminate C.
Qed.

Lemma quoted_rest_app q : forall n s, (length s <= n)%nat -> forall a b, quoted_rest q s = Some (a, b) -> a ++ b = s.
Proof.
  induction n as [|n IH]; intros s L a b H.
  - destruct s; [discriminate H|cbn [length] in L; lia].
  - destruct s as [|x r]; [discriminate H|]. cbn [quoted_rest] in H. cbn [length] in L. destruct (x =? q).
    + destruct r as [|y r2]; [inversion H; reflexivity|]. destruct (y =? q).
      * destruct (quoted_rest q r2) as [[a0 b0]|] eqn:Q; [|discriminate H]. inversion H; subst.
        cbn [app]. do 2 f_equal. apply (IH r2); [cbn [length] in L; lia|exact Q].
      * inversion H; subst. reflexivity.
    + destruct (quoted_rest q r) as [[a0 b0]|] eqn:Q; [|discriminate H]. inversion H; subst.
      cbn [app]. f_equal. apply (IH r); [lia|exact Q].
Qed.

Lemma keep_tail x l : existsb bad_bs (x :: l) = false -> existsb bad_bs l = false.
Proof. cbn [existsb]. intros H. apply orb_false_iff in H as [_ H]. exact H. Qed.

Lemma base_spec_len_none_head x r : bs1 x = false -> bs2a x = false -> base_spec_len (x :: r) = None.
Proof. intros A B. destruct r as [|y r]; [reflexivity|]. cbn [base_spec_len]. rewrite A, B. reflexivity. Qed.

Lemma clean_cons tok d ts : syn_clean_of ((tok, d) :: ts) = true -> d = None /\ syn_clean_of ts = true.
Proof.
  unfold syn_clean_of. cbn [forallb snd]. intros H. apply andb_true_iff in H as [H1 H2].
  split; [destruct d; [discriminate|reflexivity]|exact H2].
Qed.

Lemma main_step : forall n f last prev s ts, (f <= n)%nat ->
  lex kw2008 f last s = LexOk ts ->
  syn_clean_of ts = true ->
  no_directive s = true -> no_cr s = true ->
  can_be_char last = can_char prev ->
  forall f', (length s < f')%nat ->
  split_from LangLexer.keywords_2008 f' prev s = Some (syn_lexemes_of (merge ts)).
Proof.
  induction n as [|n IH]; intros f last prev s ts Lf LX CL ND NC INV f' Lf'.
  { destruct f; [discriminate LX|lia]. }
  destruct f as [|f0]; [discriminate LX|].
  rewrite lex_S in LX.
  destruct (trivia (S (length s)) s) as [[[tr r] un]|] eqn:T; [|discriminate LX].
  pose proof (trivia_ok _ _ _ _ _ T) as (Tb & Tl & Tu).
  destruct f' as [|f'']; [lia|]. cbn [split_from].
  destruct un.
  { destruct (Tu eq_refl) as [-> _]. inversion LX; subst. discriminate CL. }
  pose proof (gap_trivia _ _ _ _ T (S (length s)) (Nat.lt_succ_diag_r _)) as GT. unfold byte in *. rewrite GT. clear GT.
  rewrite <- Tb in ND, NC. apply no_dir_app in ND as [_ ND]. apply no_cr_app in NC as [_ NC].
  destruct r as [|c r0].
  { inversion LX; subst. reflexivity. }
  destruct (token kw2008 last (c :: r0)) as [[[k t] r'] e] eqn:TK.
  pose proof (token_ok _ _ _ _ _ _ _ _ TK) as (Gb & Gne & Gl & Gk). unfold byte in *.
  destruct (combine_diag tr false e) as [d|] eqn:CD; [|discriminate LX].
  destruct (lex kw2008 f0 (Some k) r') as [ts'| |] eqn:LX'; try discriminate LX.
  inversion LX; subst ts; clear LX.
  apply clean_cons in CL as [-> CL'].
  assert (e = None) by (destruct e; [discriminate CD|reflexivity]). subst e. clear CD.
  pose proof NC as NCt. rewrite <- Gb in NCt. apply no_cr_app in NCt as [NCt NC'].
  pose proof ND as ND'. rewrite <- Gb in ND'. apply no_dir_app in ND' as [_ ND'].
  assert (Lr' : (length r' < f'')%nat) by (unfold byte in *; lia).
  assert (EOFK : is_eof k = false) by (destruct k; try reflexivity; contradiction Gk; reflexivity).
  (* the common continuation: the head token is kept as it is *)
  assert (KEEP : forall a, can_be_char (Some k) = can_char a ->
            merge ((mkTok k t tr, None) :: ts') = (mkTok k t tr, None) :: merge ts' ->
            match split_from LangLexer.keywords_2008 f'' a r' with Some ts0 => Some (t :: ts0) | None => None end
            = Some (syn_lexemes_of (merge ((mkTok k t tr, None) :: ts')))).
  { intros a INV' MG. rewrite MG.
    rewrite (lexemes_cons _ _ _ _ _ EOFK), (norm_eol_id _ NCt).
    rewrite (IH f0 (Some k) a r' ts' ltac:(lia) LX' CL' ND' NC' INV' f'' Lr'). reflexivity. }
  destruct (letter c) eqn:LC.
  - (* identifier, reserved word, or bit string literal without length *)
    rewrite (token_letter _ _ _ _ LC) in TK. destruct (span ident_char (c :: r0)) as [ti ri] eqn:SP.
    cbn [fst snd] in TK. inversion TK; subst k t r'; clear TK.
    unfold lexeme_step. rewrite LC.
    destruct (base_spec_len (c :: r0)) as [nb|] eqn:BS.
    + apply ident_of_bs_len in BS as (t2 & r2 & E & Ln & IB & SP2). rewrite SP in SP2. inversion SP2; subst ti ri; clear SP2.
      rewrite (bs_ident_kind _ IB) in *.
      destruct (lex_string _ _ _ _ LX' CL') as (f1 & body & rq & ts2 & -> & QR & -> & LX2 & Lq).
      apply clean_cons in CL' as [_ CL2].
      rewrite E. rewrite <- Ln. rewrite skipn_S_app, firstn_S_app, QR.
      pose proof (quoted_rest_app 34 _ r2 (le_n _) _ _ QR) as QA.
      assert (MG : merge ((mkTok KIdentifier t2 tr, None) :: (mkTok KStringLiteral (34 :: body) [], None) :: ts2)
                   = (mkTok KBitStringLiteral (t2 ++ 34 :: body) tr, None) :: merge ts2).
      { rewrite merge_cons. cbn [t_kind t_text t_trivia is_ident is_str no_trivia andb]. rewrite IB. reflexivity. }
      rewrite MG.
      rewrite lexemes_cons by reflexivity.
      rewrite <- QA in NC', ND'. change (34 :: body ++ rq) with ((34 :: body) ++ rq) in NC', ND'.
      apply no_cr_app in NC' as [NCb NCq]. apply no_dir_app in ND' as [_ NDq].
      assert (NCm : no_cr (t2 ++ 34 :: body) = true).
      { unfold no_cr in *. rewrite forallb_app, NCt, NCb. reflexivity. }
      rewrite (norm_eol_id _ NCm).
      assert (Lrq : (length rq < f'')%nat).
      { apply (f_equal (@length _)) in E. rewrite app_length in E. cbn [length] in *. unfold byte in *. lia. }
      rewrite (IH f1 (Some KStringLiteral) AfterOther rq ts2 ltac:(lia) LX2 CL2 NDq NCq eq_refl f'' Lrq).
      rewrite <- app_assoc. reflexivity.
    + rewrite SP. apply KEEP; [apply ident_after_agree|].
      rewrite merge_cons. cbn [t_kind t_text t_trivia].
      destruct (is_ident (ident_kind kw2008 ti) && is_base_specifier ti) eqn:C1; [|destruct (is_abs (ident_kind kw2008 ti)) eqn:C2; [|reflexivity]].
      * apply andb_true_iff in C1 as [_ IB].
        destruct ts' as [|[s_ ds] rest']; [reflexivity|].
        destruct (is_str (t_kind s_) && no_trivia s_) eqn:C2; [exfalso|reflexivity].
        apply andb_true_iff in C2 as [C2a C2b]. apply no_trivia_nil in C2b.
        destruct (lex_first _ _ _ _ _ _ _ LX' C2b) as [[_ KE]|(c3 & r3 & k3 & t3 & r3' & e3 & f3 & -> & _ & TK3 & -> & _)].
        { rewrite KE in C2a. discriminate C2a. }
        cbn [t_kind] in C2a. pose proof (token_kind_string _ _ _ _ _ _ _ _ TK3 C2a) as ->.
        apply span_app in SP. rewrite <- SP in BS. rewrite (bs_len_of_ident _ _ IB) in BS. discriminate BS.
      * exfalso. unfold ident_kind in C2. destruct (existsb _ _) in C2; discriminate C2.
  - destruct (digit c) eqn:DC.
    + (* abstract literal, or bit string literal with a length *)
      unfold token in TK. rewrite alpha_eq, LC, digit_eq, DC in TK.
      destruct (SynLexer.abstract_literal (c :: r0)) as [[ta ra] ea] eqn:AL.
      destruct ea; [inversion TK|]. inversion TK; subst k ta ra; clear TK.
      pose proof (abstract_literal_eq _ _ _ AL) as AL'.
      unfold lexeme_step. rewrite LC, DC. unfold number. rewrite AL'.
      assert (HD : exists t0, t = c :: t0).
      { destruct t as [|x t0]; [contradiction Gne; reflexivity|]. cbn [app] in Gb. inversion Gb. eauto. }
      destruct HD as [t0 HD].
      (* when vhdl_syntax merges: the shape of the following two tokens *)
      assert (FIRE : forall i_ di s_ ds rest', ts' = (i_, di) :: (s_, ds) :: rest' ->
                forallb is_intc t && is_ident (t_kind i_) && no_trivia i_ && is_base_specifier (t_text i_) && is_str (t_kind s_) && no_trivia s_ = true ->
                exists r3, r' = t_text i_ ++ 34 :: r3 /\ is_base_specifier (t_text i_) = true).
      { intros i_ di s_ ds rest' -> C.
        apply andb_true_iff in C as [C C5]. apply andb_true_iff in C as [C C4]. apply andb_true_iff in C as [C C3].
        apply andb_true_iff in C as [C1 C2]. apply andb_true_iff in C1 as [_ C1]. apply no_trivia_nil in C2, C5.
        destruct (lex_first _ _ _ _ _ _ _ LX' C2) as [[_ KE]|(c2 & r2 & k2 & t2 & r2' & e2 & f2 & -> & -> & TK2 & -> & LX2)].
        { rewrite KE in C1. discriminate C1. }
        cbn [t_kind t_text] in *.
        pose proof (token_ok _ _ _ _ _ _ _ _ TK2) as (Gb2 & Gne2 & _ & _).
        destruct t2 as [|x2 t2']; [contradiction Gne2; reflexivity|]. cbn [app] in Gb2. injection Gb2 as -> Gb2.
        pose proof (is_bs_head _ _ C3) as L2. rewrite (token_letter _ _ _ _ L2) in TK2.
        destruct (lex_first _ _ _ _ _ _ _ LX2 C5) as [[_ KE]|(c3 & r3 & k3 & t3 & r3' & e3 & f3 & -> & _ & TK3 & -> & _)].
        { rewrite KE in C4. discriminate C4. }
        cbn [t_kind] in C4. pose proof (token_kind_string _ _ _ _ _ _ _ _ TK3 C4) as ->.
        exists r3. split; [|exact C3]. rewrite <- Gb2. reflexivity. }
      destruct (forallb int_char t) eqn:FI.
      * destruct (base_spec_len r') as [nb|] eqn:BS.
        -- apply ident_of_bs_len in BS as (t2 & r2 & E & Ln & IB & SP2).
           destruct t2 as [|x2 t2']; [vm_compute in IB; discriminate IB|].
           pose proof (is_bs_head _ _ IB) as L2. cbn [app] in E. subst r'.
           destruct f0 as [|f1]; [discriminate LX'|]. rewrite lex_S in LX'.
           rewrite (trivia_letter _ _ _ L2), (token_letter _ _ _ _ L2) in LX'. cbn [app] in SP2. rewrite SP2 in LX'. cbn [fst snd] in LX'.
           cbn [combine_diag] in LX'.
           destruct (lex kw2008 f1 (Some (ident_kind kw2008 (x2 :: t2'))) (34 :: r2)) as [ts1| |] eqn:LX1; try discriminate LX'.
           inversion LX'; subst ts'; clear LX'. apply clean_cons in CL' as [_ CL1].
           rewrite (bs_ident_kind _ IB) in *.
           destruct (lex_string _ _ _ _ LX1 CL1) as (f2 & body & rq & ts2 & -> & QR & -> & LX2 & Lq).
           apply clean_cons in CL1 as [_ CL2].
           change (x2 :: t2' ++ 34 :: r2) with ((x2 :: t2') ++ 34 :: r2). rewrite <- Ln.
           rewrite skipn_S_app, firstn_S_app, QR.
           pose proof (quoted_rest_app 34 _ r2 (le_n _) _ _ QR) as QA.
           assert (MG : merge ((mkTok KAbstractLiteral t tr, None) :: (mkTok KIdentifier (x2 :: t2') [], None)
                               :: (mkTok KStringLiteral (34 :: body) [], None) :: ts2)
                        = (mkTok KBitStringLiteral (t ++ (x2 :: t2') ++ 34 :: body) tr, None) :: merge ts2).
           { rewrite merge_cons. cbn [t_kind t_text t_trivia is_ident is_abs is_str no_trivia andb].
             change (forallb is_intc t) with (forallb int_char t). rewrite FI, IB. reflexivity. }
           rewrite MG.
           rewrite lexemes_cons by reflexivity.
           change (x2 :: t2' ++ 34 :: r2) with ((x2 :: t2') ++ 34 :: r2) in NC', ND'.
           apply no_cr_app in NC' as [NCi NC']. apply no_dir_app in ND' as [_ ND'].
           rewrite <- QA in NC', ND'. change (34 :: body ++ rq) with ((34 :: body) ++ rq) in NC', ND'.
           apply no_cr_app in NC' as [NCb NCq]. apply no_dir_app in ND' as [_ NDq].
           assert (NCm : no_cr (t ++ (x2 :: t2') ++ 34 :: body) = true).
           { unfold no_cr in *. rewrite !forallb_app, NCt, NCi, NCb. reflexivity. }
           rewrite (norm_eol_id _ NCm).
           assert (Lrq : (length rq < f'')%nat).
           { cbn [length] in *. rewrite app_length in Lr'. cbn [length] in Lr'. unfold byte in *. lia. }
           rewrite (IH f2 (Some KStringLiteral) AfterOther rq ts2 ltac:(lia) LX2 CL2 NDq NCq eq_refl f'' Lrq).
           rewrite <- !app_assoc. reflexivity.
        -- apply KEEP; [reflexivity|]. rewrite merge_cons. cbn [t_kind t_text t_trivia is_ident is_abs andb].
           destruct ts' as [|[i_ di] [|[s_ ds] rest']]; try reflexivity.
           destruct (forallb is_intc t && is_ident (t_kind i_) && no_trivia i_ && is_base_specifier (t_text i_) && is_str (t_kind s_) && no_trivia s_) eqn:C;
             [exfalso|reflexivity].
           destruct (FIRE _ _ _ _ _ eq_refl C) as (r3 & E & IB). rewrite E, (bs_len_of_ident _ _ IB) in BS. discriminate BS.
      * apply KEEP; [reflexivity|]. rewrite merge_cons. cbn [t_kind t_text t_trivia is_ident is_abs andb].
        destruct ts' as [|[i_ di] [|[s_ ds] rest']]; try reflexivity.
        change (forallb is_intc t) with (forallb int_char t). rewrite FI. reflexivity.
    + (* delimiters, character and string literals, extended identifiers *)
      destruct (token_other _ prev _ _ _ _ _ LC DC (no_dir_head _ _ ND) TK INV) as (a & STEP & INV' & IA & II).
      rewrite STEP. apply KEEP; [exact INV'|].
      rewrite merge_cons. cbn [t_kind t_text t_trivia]. rewrite IA.
      destruct (is_ident k) eqn:IK; [rewrite (II eq_refl)|]; reflexivity.
Qed.

(* ------------------------------------------------------------------------------------------ *)
(* the theorem                                                                                 *)
(* ------------------------------------------------------------------------------------------ *)
Theorem syn_is_spec : forall s,
  clean_syn s = true -> no_directive s = true -> no_cr s = true ->
  split_spec LangLexer.keywords_2008 s = lexemes_syn s.
Proof.
  intros s CL ND NC.
  unfold lexemes_syn, clean_syn, syn_result, token_stream, synlex in *. unfold byte in *.
  destruct (lex kw2008 (S (length s)) None s) as [ts| |] eqn:LX; try discriminate CL.
  cbn [option_map snd]. unfold split_spec.
  apply (main_step (S (length s)) (S (length s)) None AfterOther s ts (le_n _) LX); try assumption.
  - eapply merge_clean; [apply le_n|exact CL].
  - reflexivity.
  - apply Nat.lt_succ_diag_r.
Qed.

(* the hypotheses are satisfiable by an input that exercises every arm *)
Definition ex_syn : list N :=
  [120; 34; 65; 34; 32; 49; 50; 115; 98; 34; 48; 34; 39; 97; 39; 40; 39; 98; 39; 41; 39; 99; 32; 45; 45; 120; 10;
   49; 54; 35; 70; 35; 101; 49; 63; 47; 61; 92; 97; 92; 34; 113; 34; 34; 34; 58; 61; 49; 46; 53].
Lemma ex_syn_ok : clean_syn ex_syn = true /\ no_directive ex_syn = true /\ no_cr ex_syn = true

  /\ length (match lexemes_syn ex_syn with Some l => l | None => [] end) = 14%nat.
Proof. vm_compute. repeat split. Qed.

