(* Lex/LangLexerRelex4.v — (e) relex, part 4: parse_token stops at the end of its lexeme, and the
   token stream of the one-lexeme document.
   parse_token_sim : a literal/identifier/keyword token produced by parse_token on d from st consumed
     b :: l, and on every buffer d' in which b :: l is followed by the end of the input parse_token
     returns the same (kind, value, warning).
   relex_lit : for every token t of `lex_all s` whose kind is an identifier, keyword, string literal,
     bit string literal or abstract literal, `lex_all (slice_of_text s (t_s t) (t_e t))` is exactly
     one token with the same kind and value. *)
From Coq Require Import List NArith Arith Bool Lia.
Import ListNotations.
From RH Require Import Text.Contents Text.ContentsProofs Text.Reader Text.ReaderProofs Text.ReaderInv
  Lex.LangLexer Lex.LexSpec Lex.LangLexerProofs Lex.LangLexerNoCrash Lex.LangLexerText Lex.LangLexerComments
  Lex.LangLexerRelex Lex.LangLexerRelex2 Lex.LangLexerRelex3.
Open Scope N_scope.

#[local] Arguments N.add : simpl never.
#[local] Arguments N.sub : simpl never.
#[local] Arguments N.mul : simpl never.
#[local] Arguments N.eqb : simpl never.
#[local] Arguments N.ltb : simpl never.
#[local] Arguments N.leb : simpl never.
#[local] Arguments N.pow : simpl never.
#[local] Arguments N.modulo : simpl never.

Definition lit_kind (k : kind) : bool :=
  match k with
  | KIdentifier | KAbstractLiteral | KStringLiteral | KBitString | KKw _ => true
  | _ => false
  end.

(* the first character of the lexeme is neither white space nor the start of a comment *)
Definition first_ok (b : N) : Prop := ((b =? 32) || (b =? 9) || (b =? 10) || (b =? 47) || (b =? 45)) = false.

Definition stops_at_eof (d : list (list char)) (kws : list (list N)) (st st2 : rstate)
           (k : kind) (v : value) (w : option N) : Prop :=
  exists b l, run d (b :: l) st st2 /\ Forall okch (b :: l) /\ first_ok b /\
    (w = None \/ (w = validate_basic_identifier (b :: l) /\ (k = KIdentifier \/ exists n, k = KKw n))) /\
    forall d' F' start' last' st' e', Forall lf_last d' -> RInv d' st' ->
      run d' (b :: l) st' e' -> get_char d' e' = GEof -> (length (b :: l) < F')%nat ->
      parse_token d' kws F' true start' last' st' = (Ok (Some (k, v, w)), e').

Ltac ev_eqb n :=
  repeat match goal with
         | |- context [N.eqb n ?m] =>
             let r := eval vm_compute in (N.eqb n m) in progress change (N.eqb n m) with r
         end.

Lemma parse_token_34 : forall D kws F fixed start last st, get_char D st = GChar 34 ->
  parse_token D kws F fixed start last st =
  (v <- parse_quoted D F 34 false ;; ret (Some (KStringLiteral, VString v, None))) (skip_char st 34).
Proof.
  intros D kws F fixed start last st G. unfold parse_token. unfold bind at 1.
  rewrite (peek_at D st 34 G eq_refl).
  change (is_alpha 34 || (34 =? 95)) with false. change (is_digit 34) with false. cbv iota.
  unfold bind at 1. rewrite (skip_at _ _ _ G). ev_eqb 34. cbv iota. reflexivity.
Qed.
Lemma parse_token_92 : forall D kws F fixed start last st, get_char D st = GChar 92 ->
  parse_token D kws F fixed start last st =
  (v <- parse_quoted D F 92 true ;; ret (Some (KIdentifier, VIdent v, None))) (skip_char st 92).
Proof.
  intros D kws F fixed start last st G. unfold parse_token. unfold bind at 1.
  rewrite (peek_at D st 92 G eq_refl).
  change (is_alpha 92 || (92 =? 95)) with false. change (is_digit 92) with false. cbv iota.
  unfold bind at 1. rewrite (skip_at _ _ _ G). ev_eqb 92. cbv iota. reflexivity.
Qed.

Lemma eof_nxt : forall d d' st2 e', get_char d' e' = GEof -> nxt d d' st2 e'.
Proof. intros d d' st2 e' H. left. exact H. Qed.

(* ---------- string literals and extended identifiers ---------- *)
Lemma string_arm_sim : forall d kws F start last st k v w st2, get_char d st = GChar 34 ->
  parse_token d kws F true start last st = (Ok (Some (k, v, w)), st2) -> stops_at_eof d kws st st2 k v w.
Proof.
  intros d kws F start last st k v w st2 G H. rewrite (parse_token_34 _ _ _ _ _ _ _ G) in H.
  bok H q st1 PQ. unfold ret in H. injection H as <- <- <- <-.
  assert (Hq : 34 <> LF) by discriminate.
  destruct (parse_quoted_sim d _ _ _ _ _ _ Hq PQ) as [l [R [Fo Hsim]]].
  exists 34, l. split; [econstructor; eassumption|].
  split; [constructor; [split; [lia|discriminate]|exact Fo]|]. split; [reflexivity|]. split; [left; reflexivity|].
  intros d' F' start' last' st' e' HD' HI' R' E Lf. apply run_cons_inv in R'. destruct R' as [G' R'].
  rewrite (parse_token_34 _ _ _ _ _ _ _ G'). unfold bind. cbn [length] in Lf.
  rewrite (Hsim d' F' _ _ R' (eof_nxt _ _ _ _ E)) by lia. reflexivity.
Qed.
Lemma ext_arm_sim : forall d kws F start last st k v w st2, get_char d st = GChar 92 ->
  parse_token d kws F true start last st = (Ok (Some (k, v, w)), st2) -> stops_at_eof d kws st st2 k v w.
Proof.
  intros d kws F start last st k v w st2 G H. rewrite (parse_token_92 _ _ _ _ _ _ _ G) in H.
  bok H q st1 PQ. unfold ret in H. injection H as <- <- <- <-.
  assert (Hq : 92 <> LF) by discriminate.
  destruct (parse_quoted_sim d _ _ _ _ _ _ Hq PQ) as [l [R [Fo Hsim]]].
  exists 92, l. split; [econstructor; eassumption|].
  split; [constructor; [split; [lia|discriminate]|exact Fo]|]. split; [reflexivity|]. split; [left; reflexivity|].
  intros d' F' start' last' st' e' HD' HI' R' E Lf. apply run_cons_inv in R'. destruct R' as [G' R'].
  rewrite (parse_token_92 _ _ _ _ _ _ _ G'). unfold bind. cbn [length] in Lf.
  rewrite (Hsim d' F' _ _ R' (eof_nxt _ _ _ _ E)) by lia. reflexivity.
Qed.

(* ---------- first character a letter or underscore: bit string without length, identifier, keyword ---------- *)
Lemma alpha_first_ok : forall b, (is_alpha b || (b =? 95)) = true -> first_ok b.
Proof.
  intros b H. unfold first_ok.
  destruct (b =? 32) eqn:E1; [apply N.eqb_eq in E1; subst b; discriminate|].
  destruct (b =? 9) eqn:E2; [apply N.eqb_eq in E2; subst b; discriminate|].
  destruct (b =? 10) eqn:E3; [apply N.eqb_eq in E3; subst b; discriminate|].
  destruct (b =? 47) eqn:E4; [apply N.eqb_eq in E4; subst b; discriminate|].
  destruct (b =? 45) eqn:E5; [apply N.eqb_eq in E5; subst b; discriminate|]. reflexivity.
Qed.

Lemma alpha_arm_sim : forall d kws F start last st b k v w st2, Forall lf_last d -> RInv d st ->
  get_char d st = GChar b -> b < 256 -> (is_alpha b || (b =? 95)) = true ->
  parse_token d kws F true start last st = (Ok (Some (k, v, w)), st2) -> stops_at_eof d kws st st2 k v w.
Proof.
  intros d kws F start last st b k v w st2 HD HI G L Ea H. unfold parse_token in H.
  unfold bind at 1 in H. rewrite (peek_at' _ _ _ G L) in H. rewrite Ea in H.
  bok H s0 st1 GS. unfold get_state in GS. injection GS as <- <-.
  bok H obs st3 MB. unfold maybe_base_specifier in MB.
  assert (Hident : obs = None -> st3 = st -> stops_at_eof d kws st st2 k v w).
  { intros -> ->. bok H x st4 PI. destruct x as [kv w0]. unfold ret in H. injection H as <- <- <- <-.
    unfold parse_basic_identifier_or_keyword in PI. bok PI t st5 IL. unfold ret in PI. injection PI as <- <- <-.
    destruct F as [|f]; cbn [ident_loop] in IL; [discriminate|].
    unfold bind at 1 in IL. rewrite (peek_at' _ _ _ G L) in IL. rewrite (alpha_facts b Ea) in IL.
    unfold bind at 1 in IL. rewrite (skip_at _ _ _ G) in IL.
    destruct (ident_loop_sim d _ _ _ _ _ IL) as [l [R [-> [Fi [Fo Hsim]]]]]. cbn [app].
    exists b, l. split; [econstructor; eassumption|].
    split; [constructor; [apply identch_okch; [apply alpha_facts; exact Ea|exact L]|exact Fo]|].
    split; [apply alpha_first_ok; exact Ea|].
    split.
    { right. split; [reflexivity|]. unfold insert_or_keyword. cbv zeta.
      match goal with |- context [existsb ?f ?k] => destruct (existsb f k) end; cbn [fst]; [right; eexists; reflexivity|left; reflexivity]. }
    intros d' F' start' last' st' e' HD' HI' R' E Lf.
    pose proof R' as Rall. apply run_cons_inv in R'. destruct R' as [G' R'].
    unfold parse_token. unfold bind at 1. rewrite (peek_at' _ _ _ G' L). rewrite Ea.
    unfold bind at 1. unfold get_state at 1. unfold bind at 1.
    assert (MB' : maybe_base_specifier d' true st' = (Ok None, st')).
    { unfold maybe_base_specifier. destruct (parse_base_specifier d' st') as [[[bs'|]|er|a] st3'] eqn:PB'; try reflexivity.
      - exfalso. destruct (parse_base_specifier_sim d' _ _ _ PB') as [l1 [R1 [_ [I34 _]]]].
        destruct (run_prefix _ _ _ _ R1 _ _ Rall E) as [r Er].
        assert (I : In 34 (b :: l)) by (rewrite Er; apply in_or_app; left; exact I34).
        assert (Fall : Forall (fun c => (is_alnum c || (c =? 95)) = true) (b :: l)).
        { constructor; [apply alpha_facts; exact Ea|exact Fi]. }
        rewrite Forall_forall in Fall. specialize (Fall _ I). discriminate.
      - exfalso. destruct a.
        + exact (nofuel_parse_base_specifier d' _ _ PB').
        + destruct (nocr_parse_base_specifier d' _ _ _ HI' PB') as [N _]. apply N. reflexivity. }
    rewrite MB'. unfold parse_basic_identifier_or_keyword. unfold bind at 1. unfold bind at 1.
    destruct F' as [|f']; [cbn [length] in Lf; lia|]. cbn [ident_loop]. cbn [length] in Lf.
    unfold bind at 1. rewrite (peek_at' _ _ _ G' L). rewrite (alpha_facts b Ea).
    unfold bind at 1. rewrite (skip_at _ _ _ G').
    rewrite (Hsim d' f' _ _ R' (eof_nxt _ _ _ _ E)) by lia. reflexivity. }
  destruct (parse_base_specifier d st) as [[[bs|]|er|a] st4] eqn:PB; try discriminate.
  - injection MB as <- <-.
    destruct (parse_base_specifier_sim d _ _ _ PB) as [l1 [R1 [Fo1 [_ [Hne Hsim1]]]]].
    unfold lift_kv in H. bok H kv st5 PBS. destruct kv as [k0 v0]. unfold ret in H. cbn [fst snd] in H.
    injection H as <- <- <- <-.
    destruct (parse_bit_string_sim d HD _ _ _ _ _ _ _ _ _ HI R1 Fo1 Hne PBS) as [l2 [R2 [Fo2 Hsim2]]].
    destruct l1 as [|b1 l1]; [congruence|].
    assert (b1 = b) by (apply run_cons_inv in R1; destruct R1 as [G1 _]; congruence). subst b1.
    exists b, (l1 ++ l2). split; [change (b :: l1 ++ l2) with ((b :: l1) ++ l2); eapply run_app; eassumption|].
    split; [change (b :: l1 ++ l2) with ((b :: l1) ++ l2); apply Forall_app; auto|].
    split; [apply alpha_first_ok; exact Ea|]. split; [left; reflexivity|].
    intros d' F' start' last' st' e' HD' HI' R' E Lf.
    change (b :: l1 ++ l2) with ((b :: l1) ++ l2) in R'. apply run_app_inv in R'. destruct R' as [m' [Ra Rb]].
    pose proof Ra as Ra0. apply run_cons_inv in Ra0. destruct Ra0 as [G' _].
    unfold parse_token. unfold bind at 1. rewrite (peek_at' _ _ _ G' L). rewrite Ea.
    unfold bind at 1. unfold get_state at 1. unfold bind at 1.
    unfold maybe_base_specifier. rewrite (Hsim1 d' _ _ Ra). unfold lift_kv. unfold bind at 1.
    cbn [length] in Lf. rewrite app_length in Lf.
    rewrite (Hsim2 d' F' st' m' e' HD' HI' Ra Rb (eof_nxt _ _ _ _ E)) by lia. reflexivity.
  - injection MB as <- <-. apply Hident; reflexivity.
  - injection MB as <- <-. apply Hident; reflexivity.
Qed.

(* ---------- first character a digit: abstract literal, or bit string with a length ---------- *)
Lemma digit_first_ok : forall b, is_digit b = true -> first_ok b /\ (is_alpha b || (b =? 95)) = false.
Proof.
  intros b H. destruct (digit_facts b H) as [_ [_ [_ [_ [_ Ha]]]]]. unfold is_digit, in_range in H.
  apply andb_true_iff in H. destruct H as [H1 H2]. apply N.leb_le in H1. apply N.leb_le in H2.
  assert (E : forall k, k <> b -> (b =? k) = false) by (intros k Hk; apply N.eqb_neq; lia).
  split; [unfold first_ok; rewrite !E by lia; reflexivity|]. rewrite Ha, E by lia. reflexivity.
Qed.

Lemma digit_arm_sim : forall d kws F start last st b k v w st2, Forall lf_last d -> RInv d st ->
  get_char d st = GChar b -> is_digit b = true ->
  parse_token d kws F true start last st = (Ok (Some (k, v, w)), st2) -> stops_at_eof d kws st st2 k v w.
Proof.
  intros d kws F start last st b k v w st2 HD HI G Ed H.
  destruct (digit_facts b Ed) as [_ [_ [_ [_ [Lb _]]]]]. destruct (digit_first_ok b Ed) as [Hf Ea].
  assert (L : b < 256) by (apply N.ltb_lt; exact Lb).
  assert (A : sadv d st st2).
  { eapply parse_token_progress; [apply peek_at; eassumption|exact H|intros a E; discriminate]. }
  unfold parse_token in H. unfold bind at 1 in H. rewrite (peek_at' _ _ _ G L) in H. rewrite Ea, Ed in H.
  unfold lift_kv in H. bok H kv st1 PA. destruct kv as [k0 v0]. unfold ret in H. cbn [fst snd] in H.
  injection H as <- <- <- <-.
  destruct (parse_abstract_literal_sim d _ _ _ _ _ HD HI PA) as [l [R [Fo Hsim]]].
  destruct l as [|b0 l].
  { exfalso. apply run_nil_inv in R. subst st1. eapply sadv_irrefl. exact A. }
  assert (b0 = b) by (pose proof R as R0; apply run_cons_inv in R0; destruct R0 as [G0 _]; congruence). subst b0.
  exists b, l. split; [exact R|]. split; [exact Fo|]. split; [exact Hf|]. split; [left; reflexivity|].
  intros d' F' start' last' st' e' HD' HI' R' E Lf.
  pose proof R' as R0. apply run_cons_inv in R0. destruct R0 as [G' _].
  unfold parse_token. unfold bind at 1. rewrite (peek_at' _ _ _ G' L). rewrite Ea, Ed.
  unfold lift_kv. unfold bind at 1.
  rewrite (Hsim d' F' st' e' HD' HI' R' E Lf). reflexivity.
Qed.

(* ---------- every other first character yields a delimiter or a character literal ---------- *)
Definition other_class (d : list (list char)) (st : rstate) (k : kind) (v : value) : Prop :=
  (v = VNone /\ (In k delim_kinds \/ k = KGraveAccent)) \/
  (k = KCharacter /\ exists c, v = VChar c /\ c < 256 /\ get_char d (skip_char st 39) = GChar c).

Lemma simple_kind : forall K cur k v w st', simple K cur = (Ok (Some (k, v, w)), st') -> k = K /\ v = VNone.
Proof. intros K cur k v w st' H. unfold simple, ret in H. injection H as <- <- _ _. auto. Qed.
Lemma two_kind : forall d c k2 k1 cur k v w st', two d c k2 k1 cur = (Ok (Some (k, v, w)), st') ->
  (k = k2 \/ k = k1) /\ v = VNone.
Proof.
  intros d c k2 k1 cur k v w st' H. unfold two in H. bok H s st1 SI.
  destruct s; apply simple_kind in H; destruct H as [-> ->]; auto.
Qed.
Ltac in_delims := unfold delim_kinds; cbn [In]; repeat (first [left; reflexivity | right]).
Ltac leafk H :=
  first [ apply simple_kind in H; destruct H as [-> ->]; left; split; [reflexivity|first [right; reflexivity|left; in_delims]]
        | apply two_kind in H; destruct H as [[-> | ->] ->]; left; (split; [reflexivity|left; in_delims])
        | let u := fresh "u" in let s := fresh "s" in let S := fresh "S" in
          (apply bind_ok_inv in H; destruct H as [u [s [S H]]]); leafk H ].

Lemma parse_character_literal_latin1 : forall d st k v st', parse_character_literal d st = (Ok (Some (k, v)), st') ->
  k = KCharacter /\ exists c, v = VChar c /\ c < 256 /\ get_char d st = GChar c.
Proof.
  intros d st k v st' H. unfold parse_character_literal in H.
  destruct (char_lookahead d st) as [[[c|]|e|a] st1] eqn:CL; try discriminate.
  injection H as <- <- <-. split; [reflexivity|]. exists c. split; [reflexivity|].
  unfold char_lookahead in CL. bok CL oc st2 P. destruct oc as [x|]; [|discriminate].
  destruct (pop_ok_some _ _ _ _ P) as [G [L ->]].
  bok CL s st3 SI. unfold ret in CL. injection CL as E <-.
  destruct s; [|discriminate]. injection E as ->. auto.
Qed.

Lemma other_arm_class : forall d kws F start last st b k v w st2, get_char d st = GChar b -> b < 256 ->
  (is_alpha b || (b =? 95)) = false -> is_digit b = false -> (b =? 34) = false -> (b =? 92) = false ->
  parse_token d kws F true start last st = (Ok (Some (k, v, w)), st2) -> other_class d st k v.
Proof.
  intros d kws F start last st b k v w st2 G L Ea Ed E34 E92 H. unfold parse_token in H.
  unfold bind at 1 in H. rewrite (peek_at' _ _ _ G L) in H. rewrite Ea, Ed in H.
  unfold bind at 1 in H. rewrite (skip_at _ _ _ G) in H. rewrite E34, E92 in H. unfold other_class.
  destruct (b =? 58); [leafk H|].
  destruct (b =? 39) eqn:E39.
  { apply N.eqb_eq in E39. subst b. destruct (can_be_char last); [|leafk H].
    bok H oc st3 PC. destruct oc as [[k0 v0]|]; [|leafk H].
    unfold ret in H. cbn [fst snd] in H. injection H as <- <- _ <-.
    right. apply (parse_character_literal_latin1 _ _ _ _ _ PC). }
  destruct (b =? 45); [leafk H|].
  destruct (b =? 59); [leafk H|]. destruct (b =? 40); [leafk H|]. destruct (b =? 41); [leafk H|].
  destruct (b =? 43); [leafk H|]. destruct (b =? 46); [leafk H|]. destruct (b =? 38); [leafk H|].
  destruct (b =? 44); [leafk H|]. destruct (b =? 61); [leafk H|].
  destruct (b =? 60).
  { bok H o2 st3 P2. destruct (opt_is o2 61); [leafk H|]. destruct (opt_is o2 62); [leafk H|].
    destruct (opt_is o2 60); [leafk H|]. leafk H. }
  destruct (b =? 62).
  { bok H o2 st3 P2. destruct (opt_is o2 61); [leafk H|]. destruct (opt_is o2 62); [leafk H|]. leafk H. }
  destruct (b =? 47); [leafk H|]. destruct (b =? 42); [leafk H|].
  destruct (b =? 63).
  { bok H o2 st3 P2. destruct (opt_is o2 63); [leafk H|]. destruct (opt_is o2 61); [leafk H|].
    destruct (opt_is o2 47).
    { bok H u2 st4 S2. bok H s st5 SI. destruct s; [leafk H|]. unfold illegal in H. bok H e st6 GP. discriminate. }
    destruct (opt_is o2 60); [leafk H|]. destruct (opt_is o2 62); [leafk H|]. leafk H. }
  destruct (b =? 94); [leafk H|]. destruct (b =? 64); [leafk H|]. destruct (b =? 124); [leafk H|].
  destruct (b =? 91); [leafk H|]. destruct (b =? 93); [leafk H|]. destruct (b =? 96); [leafk H|].
  unfold illegal in H. bok H e st6 GP. discriminate.
Qed.

Lemma other_class_not_lit : forall d st k v, other_class d st k v -> lit_kind k = false.
Proof.
  intros d st k v [[_ [H|H]]|[H _]]; [|subst k; reflexivity|subst k; reflexivity].
  unfold delim_kinds in H. cbn [In] in H. repeat (destruct H as [H|H]; [subst k; reflexivity|]). destruct H.
Qed.

(* ---------- the one-line document [l] ---------- *)
Definition st_at (pre : list char) : rstate := {| r_pos := (0, len16s pre); r_idx := len8s pre |}.

Lemma get_char_single : forall pre suf,
  get_char [pre ++ suf] (st_at pre) = match suf with [] => GEof | c :: _ => GChar c end.
Proof. intros pre suf. unfold get_char, get_line, st_at. cbn [r_pos fst r_idx N.to_nat nth_error]. apply char_at_app. Qed.
Lemma skip_char_single : forall pre c, c <> LF -> skip_char (st_at pre) c = st_at (pre ++ [c]).
Proof.
  intros pre c Hc. unfold skip_char, move_after_char, st_at. cbn [r_pos fst snd r_idx].
  replace (c =? LF) with false by (symmetry; apply N.eqb_neq; exact Hc). cbn [fst snd].
  rewrite len16s_app, len8s_app. cbn [len16s len8s]. pose proof (len16_pos' c) as Hp.
  replace (len16s pre + len16 c =? 0) with false by (symmetry; apply N.eqb_neq; lia).
  f_equal; [f_equal; lia|lia].
Qed.
Lemma run_single : forall suf pre, ~ In LF suf -> run [pre ++ suf] suf (st_at pre) (st_at (pre ++ suf)).
Proof.
  induction suf as [|c suf IH]; intros pre Hn.
  - rewrite app_nil_r. constructor.
  - econstructor; [rewrite get_char_single; reflexivity|].
    rewrite skip_char_single by (intro E; apply Hn; left; exact E).
    replace (pre ++ c :: suf) with ((pre ++ [c]) ++ suf) by (rewrite <- app_assoc; reflexivity).
    apply IH. intro HI. apply Hn. right. exact HI.
Qed.
Lemma single_line_doc : forall l, ~ In LF l ->
  run [l] l rstart (st_at l) /\ get_char [l] (st_at l) = GEof.
Proof.
  intros l Hn. split.
  - exact (run_single l [] Hn).
  - pose proof (get_char_single l []) as H. rewrite app_nil_r in H. exact H.
Qed.

(* characters read from a canonical line buffer are never CR *)
Lemma char_at_in : forall l i c, char_at l i = GChar c -> In c l.
Proof.
  induction l as [|x l IH]; intros i c H; cbn [char_at] in H; [discriminate|].
  destruct (i =? 0); [injection H as <-; left; reflexivity|].
  destruct (i <? len8 x); [discriminate|]. right. eapply IH. exact H.
Qed.
Lemma cdoc_no_cr : forall d, cdoc d -> Forall (Forall (fun c => c <> CR)) d.
Proof.
  induction 1 as [|b Hb Hne|b d Hb Hd IH].
  - constructor.
  - constructor; [|constructor]. eapply Forall_impl; [|exact Hb]. intros c [_ Hc]. exact Hc.
  - constructor; [|exact IH]. apply Forall_app. split.
    + eapply Forall_impl; [|exact Hb]. intros c [_ Hc]. exact Hc.
    + constructor; [discriminate|constructor].
Qed.
Lemma get_char_no_cr : forall d st c, cdoc d -> get_char d st = GChar c -> c <> CR.
Proof.
  intros d st c HC G. pose proof (cdoc_no_cr d HC) as HN.
  unfold get_char, get_line in G. destruct (nth_error d (N.to_nat (fst (r_pos st)))) as [ln|] eqn:E; [|discriminate].
  apply nth_error_In in E. rewrite Forall_forall in HN. specialize (HN _ E). rewrite Forall_forall in HN.
  apply HN. eapply char_at_in. exact G.
Qed.
Lemma run_no_cr : forall d l st st', cdoc d -> run d l st st' -> Forall (fun c => c <> CR) l.
Proof.
  intros d l st st' HC R. induction R as [st|c l st st' G R IH]; constructor; [|exact IH].
  eapply get_char_no_cr; eassumption.
Qed.

(* ---------- the tokenizer on a buffer holding exactly one lexeme ---------- *)
Lemma first_ok_facts : forall b, first_ok b ->
  ((b =? 32) || (b =? 9) || true && (b =? 10)) = false /\ (b =? 47) = false /\ (b =? 45) = false.
Proof.
  intros b H. unfold first_ok in H. repeat (apply orb_false_iff in H; destruct H as [H ?]).
  repeat split; try assumption. rewrite H, H3, H2. reflexivity.
Qed.
Lemma leading_comments_none : forall D F1 f2 st b, get_char D st = GChar b -> b < 256 -> first_ok b ->
  leading_comments D (S F1) (S f2) [] st = (Ok [], st).
Proof.
  intros D F1 f2 st b G L Hf. destruct (first_ok_facts b Hf) as [E1 [E2 E3]].
  cbn [leading_comments skip_ws]. unfold bind at 1. unfold bind at 1. unfold try.
  rewrite (peek_at' _ _ _ G L). rewrite E1. unfold ret at 1.
  unfold bind at 1. unfold get_state at 1. unfold bind at 1. rewrite (pop_at _ _ _ G L).
  rewrite E2, E3. reflexivity.
Qed.
Lemma leading_comments_eof : forall D F1 f2 st, get_char D st = GEof ->
  leading_comments D (S F1) (S f2) [] st = (Ok [], st).
Proof.
  intros D F1 f2 st G. cbn [leading_comments skip_ws]. unfold bind at 1. unfold bind at 1. unfold try.
  rewrite (peek_eof _ _ G). unfold ret at 1.
  unfold bind at 1. unfold get_state at 1. unfold bind at 1. rewrite (pop_eof _ _ G). reflexivity.
Qed.
Lemma trailing_comment_eof : forall D F1 st, get_char D st = GEof -> trailing_comment D (S F1) st = (Ok None, st).
Proof.
  intros D F1 st G. unfold trailing_comment. cbn [skip_ws]. unfold bind at 1. unfold bind at 1. unfold try.
  rewrite (peek_eof _ _ G). unfold ret at 1.
  unfold bind at 1. unfold get_state at 1. unfold bind at 1. rewrite (pop_eof _ _ G). reflexivity.
Qed.

(* the diagnostics of the one-token document: the identifier warning, if any *)
Definition warn_diag (w : option N) (t' : token) : list terr :=
  match w with Some code => [TErr (0, 0) (t_e t') code] | None => [] end.

Lemma lex_one_token : forall D kws F1 n b l k v w e',
  run D (b :: l) rstart e' -> get_char D e' = GEof -> b < 256 -> first_ok b -> is_grave k = false ->
  parse_token D kws (S F1) true (0, 0) None rstart = (Ok (Some (k, v, w)), e') ->
  exists t', lex D kws (S F1) true (S (S n)) tk_start = Done [t'] (warn_diag w t') /\ t_kind t' = k /\ t_val t' = v.
Proof.
  intros D kws F1 n b l k v w e' R E L Hf Hg PT.
  apply run_cons_inv in R. destruct R as [G _].
  cbn [lex tk_pop]. unfold pop_raw at 1. cbn [tk_start k_rd k_last k_warn].
  rewrite (leading_comments_none _ _ _ _ _ G L Hf). cbn [rstart r_pos]. rewrite PT.
  rewrite (trailing_comment_eof _ _ _ E).
  unfold leading_is_start. cbn [t_lead lead_start t_kind]. rewrite Hg.
  cbn [tk_pop]. unfold pop_raw at 1. cbn [k_rd k_last k_warn].
  rewrite (leading_comments_eof _ _ _ _ E).
  rewrite (parse_token_none D kws (S F1) _ _ _ (peek_eof _ _ E)).
  cbn [add_tok app with_rd k_warn].
  exists {| t_kind := k; t_val := v; t_s := (0, 0); t_e := r_pos e'; t_lead := []; t_trail := None |}.
  split; [reflexivity|]. split; reflexivity.
Qed.

(* ---------- every token of the stream comes from one pop_raw call on an invariant state ---------- *)
Lemma lex_forall : forall d kws F (P : token -> Prop), Forall lf_last d ->
  (forall t tok t', RInv d (k_rd t) -> pop_raw d kws F true t = (Ok (Some tok), t') ->
     is_grave (t_kind tok) = false -> P tok) ->
  forall fuel t toks diags, RInv d (k_rd t) -> lex d kws F true fuel t = Done toks diags -> Forall P toks.
Proof.
  intros d kws F P HD HP.
  induction fuel as [|f IH]; intros t toks diags HI H; [discriminate|]. cbn [lex] in H.
  destruct (tk_pop d kws F true F t) as [r t1] eqn:TP.
  destruct (tk_pop_from _ _ _ _ _ _ _ _ TP) as [A T].
  destruct (tk_pop_nocr d kws F true HD _ _ _ _ HI TP) as [_ I1].
  destruct r as [[tok|]|e|a].
  - destruct (is_grave (t_kind tok)) eqn:Eg.
    + destruct (handle_tool_directive d kws F true tok t1) as [[ds|e|a] t2] eqn:HT; try discriminate.
      destruct (handle_tool_directive_nocr d kws F true HD _ _ _ _ I1 HT) as [_ [I2 _]].
      destruct (lex d kws F true f t2) as [ts ds'|a] eqn:L; cbn [add_diags] in H; [|discriminate].
      injection H as <- _. eapply IH; [exact I2|exact L].
    + destruct (lex d kws F true f t1) as [ts ds'|a] eqn:L; cbn [add_tok] in H; [|discriminate].
      injection H as <- _. constructor; [|eapply IH; [exact I1|exact L]].
      destruct (T tok eq_refl) as [t0 [t1' [B1 [B2 B3]]]].
      eapply HP; [|exact B2|exact Eg]. eapply rinv_adv; [exact B1|exact HI].
  - injection H as <- _. constructor.
  - destruct (lex d kws F true f t1) as [ts ds'|a] eqn:L; cbn [add_diags] in H; [|discriminate].
    injection H as <- _. eapply IH; [exact I1|exact L].
  - discriminate.
Qed.

Definition relex_gen (kws : list (list N)) (t : token) (sl : list char) : Prop :=
  exists t' w, lex_gen kws true (lex_fuel sl) sl = Done [t'] (warn_diag w t') /\ t_kind t' = t_kind t /\ t_val t' = t_val t /\
    (w = None \/ (w = validate_basic_identifier sl /\ (t_kind t = KIdentifier \/ exists n, t_kind t = KKw n))).

Lemma lit_not_grave : forall k, lit_kind k = true -> is_grave k = false.
Proof. intros k H. destruct k; try reflexivity; discriminate. Qed.

Lemma parse_token_sim : forall d kws F start last st k v w st2, Forall lf_last d -> RInv d st ->
  parse_token d kws F true start last st = (Ok (Some (k, v, w)), st2) -> lit_kind k = true ->
  stops_at_eof d kws st st2 k v w.
Proof.
  intros d kws F start last st k v w st2 HD HI H Hk. pose proof H as H0. unfold parse_token in H0.
  bok H0 ob st1 P. destruct ob as [b|]; [|unfold ret in H0; discriminate].
  destruct (peek_ok_get _ _ _ _ P) as [_ [G L]]. clear H0 P.
  destruct (is_alpha b || (b =? 95)) eqn:Ea; [eapply alpha_arm_sim; eassumption|].
  destruct (is_digit b) eqn:Ed; [eapply digit_arm_sim; eassumption|].
  destruct (b =? 34) eqn:E34; [apply N.eqb_eq in E34; subst b; eapply string_arm_sim; eassumption|].
  destruct (b =? 92) eqn:E92; [apply N.eqb_eq in E92; subst b; eapply ext_arm_sim; eassumption|].
  rewrite (other_class_not_lit _ _ _ _ (other_arm_class _ _ _ _ _ _ _ _ _ _ _ G L Ea Ed E34 E92 H)) in Hk. discriminate.
Qed.

Lemma pop_raw_relex : forall s kws F t tok t', RInv (split_lines s) (k_rd t) ->
  pop_raw (split_lines s) kws F true t = (Ok (Some tok), t') -> lit_kind (t_kind tok) = true ->
  relex_gen kws tok (slice_of_text s (t_s tok) (t_e tok)).
Proof.
  intros s kws F t tok t' HI H Hk. set (d := split_lines s) in *.
  assert (HC : cdoc d) by apply split_cdoc. pose proof (cdoc_lf_last d HC) as HD.
  unfold pop_raw in H.
  destruct (leading_comments d F F [] (k_rd t)) as [[lead|e|a] r1] eqn:LC; try discriminate.
  destruct (nocr_leading_comments d F _ _ _ _ _ HI LC) as [_ I1].
  destruct (parse_token d kws F true (r_pos r1) (k_last t) r1) as [[[[[k v] w]|]|e|a] r2] eqn:PT; try discriminate.
  destruct (trailing_comment d F r2) as [[tr|e|a] r3] eqn:TC; try discriminate.
  injection H as <- <-. cbn [t_kind t_val t_s t_e] in *.
  assert (Hsl : forall b l, run d (b :: l) r1 r2 -> slice_of_text s (r_pos r1) (r_pos r2) = b :: l).
  { intros b l R. symmetry. apply consumed_is_slice_text; assumption. }
  assert (ST : stops_at_eof d kws r1 r2 k v w) by (eapply parse_token_sim; eassumption).
  destruct ST as [b [l [R [Fo [Hf [Hw Hsim]]]]]]. rewrite (Hsl b l R).
  assert (Hcl : clean (b :: l)).
  { pose proof (run_no_cr d _ _ _ HC R) as Hcr. rewrite Forall_forall in *. intros c Hc.
    split; [destruct (Fo c Hc) as [_ E]; exact E|apply Hcr; exact Hc]. }
  assert (Hsp : split_lines (b :: l) = [b :: l]).
  { unfold split_lines. rewrite split_aux_clean_end by exact Hcl. reflexivity. }
  destruct (single_line_doc (b :: l) (clean_no_lf _ Hcl)) as [R' E'].
  unfold relex_gen, lex_gen. rewrite Hsp.
  assert (HD' : Forall lf_last [b :: l]) by (rewrite <- Hsp; apply cdoc_lf_last, split_cdoc).
  assert (Lf : (length (b :: l) < lex_fuel (b :: l))%nat) by (unfold lex_fuel; lia).
  pose proof (Hsim [b :: l] (lex_fuel (b :: l)) (0, 0) None rstart _ HD' (rinv_start _) R' E' Lf) as PT'.
  assert (HF : exists n, lex_fuel (b :: l) = S (S (S n))).
  { unfold lex_fuel. cbn [length]. exists (2 * length l + 1)%nat. lia. }
  destruct HF as [n HF]. rewrite HF in *.
  assert (Lb : b < 256) by (inversion Fo as [|x y [Lb _] Hy]; exact Lb).
  destruct (lex_one_token [b :: l] kws _ (S n) b l k v w _ R' E' Lb Hf (lit_not_grave _ Hk) PT') as [t'' [E1 [E2 E3]]].
  exists t'', w. split; [exact E1|]. split; [exact E2|]. split; [exact E3|exact Hw].
Qed.

(* ---------- the kinds produced by the literal arms ---------- *)
Definition kindP (m : M (kind * value)) : Prop :=
  forall st k v st2, m st = (Ok (k, v), st2) -> lit_kind k = true.
Lemma kindP_bind : forall A (m : M A) (f : A -> M (kind * value)), (forall a, kindP (f a)) -> kindP (bind m f).
Proof. intros A m f Hf st k v st2 H. bok H a st1 E. eapply Hf. exact H. Qed.
Lemma kindP_ret : forall kv, lit_kind (fst kv) = true -> kindP (ret kv).
Proof. intros kv Hk st k v st2 H. unfold ret in H. injection H as E _. rewrite E in Hk. exact Hk. Qed.
Lemma kindP_throw : forall e, kindP (throw e).
Proof. intros e st k v st2 H. discriminate. Qed.
Lemma kindP_stop : forall a, kindP (stop a).
Proof. intros a st k v st2 H. discriminate. Qed.
Ltac kp_step :=
  first [ apply kindP_throw | apply kindP_stop | apply kindP_ret; reflexivity
        | apply kindP_bind; intros
        | match goal with
          | |- kindP (if ?c then _ else _) => destruct c
          | |- kindP (match ?x with _ => _ end) => destruct x
          end ].
Ltac kp := repeat kp_step.

Lemma kindP_parse_bit_string : forall d F base len sc, kindP (parse_bit_string d F base len sc).
Proof. intros. unfold parse_bit_string. kp. Qed.
Lemma kindP_parse_abstract_literal : forall d F, kindP (parse_abstract_literal d F).
Proof.
  intros d F. unfold parse_abstract_literal. apply kindP_bind; intro st0. apply kindP_bind; intro initial.
  apply kindP_bind; intro pai. apply kindP_bind; intro onx.
  assert (Hplain : kindP (abs_plain initial)) by (unfold abs_plain; kp).
  destruct onx as [c|]; [|exact Hplain].
  destruct (c =? 46); [unfold abs_real, abs_real_gen; kp|].
  destruct (c =? 101); [unfold abs_int_exp; kp|].
  destruct (c =? 35); [unfold abs_based; kp|].
  destruct (c =? 58); [apply kindP_bind; intros [|]; [unfold abs_based; kp|exact Hplain]|].
  destruct (is_bs_letter c); [|exact Hplain].
  unfold abs_bit_string. apply kindP_bind; intros [iv it]. apply kindP_bind; intros [bs|]; [apply kindP_parse_bit_string|kp].
Qed.

Lemma lit_arm_kind : forall d kws F start last st b k v w st2, get_char d st = GChar b -> b < 256 ->
  ((is_alpha b || (b =? 95)) || is_digit b || (b =? 34) || (b =? 92)) = true ->
  parse_token d kws F true start last st = (Ok (Some (k, v, w)), st2) -> lit_kind k = true.
Proof.
  intros d kws F start last st b k v w st2 G L Hb H.
  destruct (is_alpha b || (b =? 95)) eqn:Ea.
  - unfold parse_token in H. unfold bind at 1 in H. rewrite (peek_at' _ _ _ G L) in H. rewrite Ea in H.
    bok H s0 st1 GS. bok H obs st3 MB. destruct obs as [bs|].
    + unfold lift_kv in H. bok H kv st5 PBS. destruct kv as [k0 v0]. unfold ret in H. cbn [fst snd] in H.
      injection H as <- _ _ _. eapply kindP_parse_bit_string. exact PBS.
    + bok H x st4 PI. destruct x as [kv w0]. unfold ret in H. injection H as <- _ _ _.
      unfold parse_basic_identifier_or_keyword in PI. bok PI t st5 IL. unfold ret in PI. injection PI as <- _ _.
      unfold insert_or_keyword. destruct (existsb (leqb (map lowercase t)) kws); reflexivity.
  - destruct (is_digit b) eqn:Ed.
    + unfold parse_token in H. unfold bind at 1 in H. rewrite (peek_at' _ _ _ G L) in H. rewrite Ea, Ed in H.
      unfold lift_kv in H. bok H kv st1 PA. destruct kv as [k0 v0]. unfold ret in H. cbn [fst snd] in H.
      injection H as <- _ _ _. eapply kindP_parse_abstract_literal. exact PA.
    + cbn [orb] in Hb. destruct (b =? 34) eqn:E34.
      * apply N.eqb_eq in E34. subst b. rewrite (parse_token_34 _ _ _ _ _ _ _ G) in H.
        bok H q st1 PQ. unfold ret in H. injection H as <- _ _ _. reflexivity.
      * cbn [orb] in Hb. apply N.eqb_eq in Hb. subst b. rewrite (parse_token_92 _ _ _ _ _ _ _ G) in H.
        bok H q st1 PQ. unfold ret in H. injection H as <- _ _ _. reflexivity.
Qed.

(* ---------- classification of the tokens of the stream ---------- *)
Definition tok_class (t : token) : Prop :=
  lit_kind (t_kind t) = true \/
  (t_val t = VNone /\ In (t_kind t) delim_kinds) \/
  (t_kind t = KCharacter /\ exists c, t_val t = VChar c /\ c < 256 /\ c <> 13).

Lemma pop_raw_class : forall s kws F t tok t', RInv (split_lines s) (k_rd t) ->
  pop_raw (split_lines s) kws F true t = (Ok (Some tok), t') -> is_grave (t_kind tok) = false -> tok_class tok.
Proof.
  intros s kws F t tok t' HI H Hg. set (d := split_lines s) in *.
  assert (HC : cdoc d) by apply split_cdoc.
  unfold pop_raw in H.
  destruct (leading_comments d F F [] (k_rd t)) as [[lead|e|a] r1] eqn:LC; try discriminate.
  destruct (parse_token d kws F true (r_pos r1) (k_last t) r1) as [[[[[k v] w]|]|e|a] r2] eqn:PT; try discriminate.
  destruct (trailing_comment d F r2) as [[tr|e|a] r3] eqn:TC; try discriminate.
  injection H as <- <-. unfold tok_class. cbn [t_kind t_val] in *.
  pose proof PT as PT0. unfold parse_token in PT0. bok PT0 ob stx P.
  destruct ob as [b|]; [|unfold ret in PT0; discriminate]. destruct (peek_ok_get _ _ _ _ P) as [_ [G L]]. clear PT0 P.
  destruct ((is_alpha b || (b =? 95)) || is_digit b || (b =? 34) || (b =? 92)) eqn:Hb.
  - left. eapply lit_arm_kind; eassumption.
  - apply orb_false_iff in Hb. destruct Hb as [Hb E92]. apply orb_false_iff in Hb. destruct Hb as [Hb E34].
    apply orb_false_iff in Hb. destruct Hb as [Ea Ed].
    destruct (other_arm_class _ _ _ _ _ _ _ _ _ _ _ G L Ea Ed E34 E92 PT) as [[Hv [Hk|Hk]]|[Hk [c [Hv [Lc Gc]]]]].
    + right. left. auto.
    + subst k. discriminate.
    + right. right. split; [exact Hk|]. exists c. split; [exact Hv|]. split; [exact Lc|].
      eapply get_char_no_cr; eassumption.
Qed.

(* ---------- (e) relex ---------- *)
Theorem relex_lit_gen : forall kws fuel s toks diags, lex_gen kws true fuel s = Done toks diags ->
  Forall (fun t => lit_kind (t_kind t) = true -> relex_gen kws t (slice_of_text s (t_s t) (t_e t))) toks.
Proof.
  intros kws fuel s toks diags H. unfold lex_gen in H.
  refine (lex_forall _ _ _ _ (cdoc_lf_last _ (split_cdoc s)) _ _ tk_start _ _ (rinv_start _) H).
  intros t tok t' HI PR _ Hk. eapply pop_raw_relex; eassumption.
Qed.
Theorem relex_lit : forall s toks diags, lex_all s = Done toks diags ->
  Forall (fun t => lit_kind (t_kind t) = true -> relex_prop t (slice_of_text s (t_s t) (t_e t))) toks.
Proof.
  intros s toks diags H. eapply Forall_impl; [|exact (relex_lit_gen _ _ _ _ _ H)].
  intros t Ht Hk. destruct (Ht Hk) as [t' [w [E1 [E2 [E3 _]]]]]. exists t', (warn_diag w t'). auto.
Qed.

Theorem tokens_classified : forall s toks diags, lex_all s = Done toks diags -> Forall tok_class toks.
Proof.
  intros s toks diags H. unfold lex_all, lex_gen in H.
  refine (lex_forall _ _ _ _ (cdoc_lf_last _ (split_cdoc s)) _ _ tk_start _ _ (rinv_start _) H).
  intros t tok t' HI PR Hg. eapply pop_raw_class; eassumption.
Qed.

(* the full statement: every token of the stream re-lexes from its own slice *)
Theorem relex : forall s toks diags, lex_all s = Done toks diags ->
  Forall (fun t => relex_prop t (slice_of_text s (t_s t) (t_e t))) toks.
Proof.
  intros s toks diags H.
  pose proof (relex_lit s toks diags H) as HL. pose proof (relex_partial s toks diags H) as HP.
  pose proof (tokens_classified s toks diags H) as HC.
  rewrite Forall_forall in *. intros t Ht.
  destruct (HC t Ht) as [Hk|Hd]; [apply HL; assumption|apply HP; [exact Ht|exact Hd]].
Qed.

(* per kind *)
Theorem relex_identifier : forall s toks diags, lex_all s = Done toks diags ->
  Forall (fun t => (t_kind t = KIdentifier \/ exists n, t_kind t = KKw n) ->
                   relex_prop t (slice_of_text s (t_s t) (t_e t))) toks.
Proof.
  intros s toks diags H. eapply Forall_impl; [|exact (relex_lit s toks diags H)].
  intros t Ht [Hk|[n Hk]]; apply Ht; rewrite Hk; reflexivity.
Qed.
Theorem relex_string : forall s toks diags, lex_all s = Done toks diags ->
  Forall (fun t => t_kind t = KStringLiteral -> relex_prop t (slice_of_text s (t_s t) (t_e t))) toks.
Proof.
  intros s toks diags H. eapply Forall_impl; [|exact (relex_lit s toks diags H)].
  intros t Ht Hk. apply Ht. rewrite Hk. reflexivity.
Qed.
Theorem relex_bit_string : forall s toks diags, lex_all s = Done toks diags ->
  Forall (fun t => t_kind t = KBitString -> relex_prop t (slice_of_text s (t_s t) (t_e t))) toks.
Proof.
  intros s toks diags H. eapply Forall_impl; [|exact (relex_lit s toks diags H)].
  intros t Ht Hk. apply Ht. rewrite Hk. reflexivity.
Qed.
Theorem relex_abstract_literal : forall s toks diags, lex_all s = Done toks diags ->
  Forall (fun t => t_kind t = KAbstractLiteral -> relex_prop t (slice_of_text s (t_s t) (t_e t))) toks.
Proof.
  intros s toks diags H. eapply Forall_impl; [|exact (relex_lit s toks diags H)].
  intros t Ht Hk. apply Ht. rewrite Hk. reflexivity.
Qed.

(* ---------- the diagnostics of the re-lexing ---------- *)
(* none, except the warning attached to a basic identifier that violates the identifier rules
   (the same warning the token had in the original text) *)
Definition relex_clean (t : token) (sl : list char) : Prop :=
  exists t', lex_all sl = Done [t'] [] /\ t_kind t' = t_kind t /\ t_val t' = t_val t.

Theorem relex_lit_diag : forall s toks diags, lex_all s = Done toks diags ->
  Forall (fun t => lit_kind (t_kind t) = true -> relex_gen keywords_2008 t (slice_of_text s (t_s t) (t_e t))) toks.
Proof. intros s toks diags H. exact (relex_lit_gen _ _ _ _ _ H). Qed.

Theorem relex_clean_literals : forall s toks diags, lex_all s = Done toks diags ->
  Forall (fun t => (t_kind t = KStringLiteral \/ t_kind t = KBitString \/ t_kind t = KAbstractLiteral) ->
                   relex_clean t (slice_of_text s (t_s t) (t_e t))) toks.
Proof.
  intros s toks diags H. eapply Forall_impl; [|exact (relex_lit_diag s toks diags H)].
  intros t Ht Hk.
  assert (Hl : lit_kind (t_kind t) = true) by (destruct Hk as [E|[E|E]]; rewrite E; reflexivity).
  destruct (Ht Hl) as [t' [w [E1 [E2 [E3 Hw]]]]]. exists t'. split; [|auto].
  assert (w = None).
  { destruct Hw as [Hw|[_ [Hi|[n Hi]]]]; [exact Hw| |]; rewrite Hi in Hk; destruct Hk as [E|[E|E]]; discriminate. }
  subst w. exact E1.
Qed.
Theorem relex_clean_identifier : forall s toks diags, lex_all s = Done toks diags ->
  Forall (fun t => (t_kind t = KIdentifier \/ exists n, t_kind t = KKw n) ->
                   validate_basic_identifier (slice_of_text s (t_s t) (t_e t)) = None ->
                   relex_clean t (slice_of_text s (t_s t) (t_e t))) toks.
Proof.
  intros s toks diags H. eapply Forall_impl; [|exact (relex_lit_diag s toks diags H)].
  intros t Ht Hk Hv.
  assert (Hl : lit_kind (t_kind t) = true) by (destruct Hk as [E|[n E]]; rewrite E; reflexivity).
  destruct (Ht Hl) as [t' [w [E1 [E2 [E3 Hw]]]]]. exists t'. split; [|auto].
  assert (w = None) by (destruct Hw as [Hw|[Hw _]]; [exact Hw|rewrite Hw; exact Hv]).
  subst w. exact E1.
Qed.
(* the side condition is necessary: `a__b` (consecutive underscores) re-lexes to the same identifier
   with the same warning *)
Lemma relex_identifier_warning :
  let s := [97; 95; 95; 98] in
  exists t, lex_all s = Done [t] [TErr (0, 0) (0, 4) 18] /\ t_kind t = KIdentifier /\
            slice_of_text s (t_s t) (t_e t) = s /\ validate_basic_identifier s = Some 18.
Proof. cbv zeta. eexists. split; [vm_compute; reflexivity|]. split; [reflexivity|]. split; vm_compute; reflexivity. Qed.

(* non-vacuity: abc entity x"AB" \a\\b\ "s""t" 12 1e5 1.5e-3 16#F.F#e+1 12sb"01" 99999999999999999999.0
   an identifier, a keyword, a bit string, an extended identifier, a string, integers, reals, a based
   literal, a bit string with a length, a real whose integer part overflows u64: 11 tokens, no diagnostic *)
Definition relex_example_text : list char := [97; 98; 99; 32; 101; 110; 116; 105; 116; 121; 32; 120; 34; 65; 66; 34; 32; 92; 97; 92; 92; 98; 92; 32; 34; 115; 34; 34; 116; 34; 32; 49; 50; 32; 49; 101; 53; 32; 49; 46; 53; 101; 45; 51; 32; 49; 54; 35; 70; 46; 70; 35; 101; 43; 49; 32; 49; 50; 115; 98; 34; 48; 49; 34; 32; 57; 57; 57; 57; 57; 57; 57; 57; 57; 57; 57; 57; 57; 57; 57; 57; 57; 57; 57; 57; 46; 48].
Lemma relex_example :
  exists toks, lex_all relex_example_text = Done toks [] /\
    map t_kind toks = [KIdentifier; KKw [101; 110; 116; 105; 116; 121]; KBitString; KIdentifier; KStringLiteral;
                       KAbstractLiteral; KAbstractLiteral; KAbstractLiteral; KAbstractLiteral; KBitString; KAbstractLiteral] /\
    Forall (fun t => lit_kind (t_kind t) = true) toks /\
    Forall (fun t => relex_prop t (slice_of_text relex_example_text (t_s t) (t_e t))) toks.
Proof.
  destruct (lex_all relex_example_text) as [toks ds|a] eqn:E; [|vm_compute in E; discriminate].
  pose proof (relex _ _ _ E) as R. vm_compute in E. injection E as <- <-.
  eexists. split; [reflexivity|]. split; [reflexivity|]. split; [repeat constructor|exact R].
Qed.
