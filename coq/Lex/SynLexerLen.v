(* Lex/SynLexerLen.v — `byte_len` is the printed length: for every trivia piece, trivia and token
   (not only for those the tokenizer produces).  Used by Lex/SynLexerProofs.v and Cst/CstProofs.v. *)
From Coq Require Import List NArith Arith Bool Lia.
Import ListNotations.
From RH Require Import Lex.SynLexer.
Open Scope N_scope.
#[local] Arguments N.add : simpl never.
#[local] Arguments N.mul : simpl never.

Lemma rep_length n bs : length (rep n bs) = (n * length bs)%nat.
Proof. induction n as [|n IH]; cbn [rep]; [reflexivity|]. rewrite app_length, IH. lia. Qed.

Lemma piece_len_bytes p : piece_len p = N.of_nat (length (piece_bytes p)).
Proof.
  destruct p; cbn [piece_len piece_bytes]; rewrite ?rep_length, ?app_length; cbn [length];
    unfold byte in *; lia.
Qed.

Lemma fold_add_shift (ps : list tpiece) (a : N) :
  fold_left (fun acc p => acc + piece_len p) ps a = a + fold_left (fun acc p => acc + piece_len p) ps 0.
Proof.
  revert a; induction ps as [|p ps IH]; intros a; cbn [fold_left]; [lia|].
  rewrite IH, (IH (0 + piece_len p)). lia.
Qed.

Lemma trivia_len_cons p ps : trivia_len (p :: ps) = piece_len p + trivia_len ps.
Proof. unfold trivia_len; cbn [fold_left]. rewrite fold_add_shift. lia. Qed.

Lemma trivia_len_nil : trivia_len [] = 0.
Proof. reflexivity. Qed.

Lemma trivia_len_app a b : trivia_len (a ++ b) = trivia_len a + trivia_len b.
Proof.
  induction a as [|p a IH]; [rewrite trivia_len_nil; cbn [app]; lia|].
  cbn [app]. rewrite !trivia_len_cons, IH. lia.
Qed.

Lemma trivia_bytes_cons p ps : trivia_bytes (p :: ps) = piece_bytes p ++ trivia_bytes ps.
Proof. reflexivity. Qed.

Lemma trivia_bytes_app a b : trivia_bytes (a ++ b) = trivia_bytes a ++ trivia_bytes b.
Proof. unfold trivia_bytes. rewrite map_app, concat_app. reflexivity. Qed.

Lemma trivia_len_bytes ps : trivia_len ps = N.of_nat (length (trivia_bytes ps)).
Proof.
  induction ps as [|p ps IH]; [reflexivity|].
  rewrite trivia_len_cons, trivia_bytes_cons, app_length, IH, piece_len_bytes. lia.
Qed.

Lemma tok_len_bytes t : tok_len t = N.of_nat (length (token_bytes t)).
Proof.
  unfold tok_len, token_bytes, text_len. rewrite app_length, trivia_len_bytes. lia.
Qed.
