(* Lex/LangLexerRelex3.v — (e) relex, part 3: abstract literals stop at the end of their lexeme
   (framework of Lex/LangLexerRelex2.v): parse_integer (also when it fails: its error is kept in a
   local by parse_abstract_literal and is not always used), parse_exponent, parse_real_literal and
   the five arms of parse_abstract_literal (plain integer, integer with exponent, real with the
   re-scan from the start, based literal, bit string with a length). *)
From Coq Require Import List NArith Arith Bool Lia.
Import ListNotations.
From RH Require Import Text.Contents Text.ContentsProofs Text.Reader Text.ReaderProofs Text.ReaderInv
  Lex.LangLexer Lex.LexSpec Lex.LangLexerProofs Lex.LangLexerNoCrash Lex.LangLexerText Lex.LangLexerRelex2.
Open Scope N_scope.

#[local] Arguments N.add : simpl never.
#[local] Arguments N.sub : simpl never.
#[local] Arguments N.mul : simpl never.
#[local] Arguments N.eqb : simpl never.
#[local] Arguments N.ltb : simpl never.
#[local] Arguments N.leb : simpl never.
#[local] Arguments N.pow : simpl never.
#[local] Arguments N.modulo : simpl never.

Ltac llia := unfold char in *; lia.

(* the positions kept by parse_integer_loop are only tested for presence *)
Definition osame (a b : option position) : Prop := a = None <-> b = None.
Lemma osame_some : forall p q, osame (Some p) (Some q).
Proof. intros p q. split; discriminate. Qed.
Lemma osame_if : forall (c : bool) p q a b, osame a b -> osame (if c then Some p else a) (if c then Some q else b).
Proof. intros [|] p q a b H; [apply osame_some|exact H]. Qed.
Lemma osame_none : osame None None.
Proof. split; reflexivity. Qed.

(* results up to the positions inside an error *)
Definition rsame {A} (r r' : res A) : Prop :=
  match r, r' with
  | Ok x, Ok y => x = y
  | Er _, Er _ => True
  | _, _ => False
  end.

Definition intch (base b : N) : bool := (is_hex b && negb (base <=? hex_val b)) || (b =? 95).

Lemma skip_if_at : forall D v st, get_char D st = GChar v -> v < 256 -> skip_if D v st = (Ok true, skip_char st v).
Proof.
  intros D v st G L. unfold skip_if. unfold bind at 1. rewrite (peek_at' _ _ _ G L). rewrite N.eqb_refl.
  unfold bind. rewrite (skip_at _ _ _ G). reflexivity.
Qed.
Lemma peek_lowercase_at : forall D st c, get_char D st = GChar c -> c < 256 ->
  peek_lowercase D st = (Ok (Some (lowercase c)), st).
Proof. intros D st c G L. unfold peek_lowercase, bind. rewrite (peek_at' _ _ _ G L). reflexivity. Qed.
Lemma ple_not_plt : forall p q, ple p q = true -> plt q p = false.
Proof.
  intros [a b] [c e] H. unfold ple, plt in *. cbn [fst snd] in *.
  apply orb_true_iff in H. apply orb_false_iff. destruct H as [H|H].
  - apply N.ltb_lt in H. split; [apply N.ltb_ge; lia|]. apply andb_false_iff. left. apply N.eqb_neq. lia.
  - apply andb_true_iff in H. destruct H as [H1 H2]. apply N.eqb_eq in H1. apply N.leb_le in H2.
    split; [apply N.ltb_ge; lia|]. apply andb_false_iff. right. apply N.ltb_ge. lia.
Qed.

Section SimAbs.
  Variable d : list (list char).
  Local Notation nxt := (nxt d).

  Lemma skip_if_nxt_false : forall v st st1 d' e', skip_if d v st = (Ok false, st1) -> nxt d' st e' ->
    skip_if d' v e' = (Ok false, e').
  Proof.
    intros v st st1 d' e' H N. unfold skip_if in H. bok H ob st2 P.
    unfold skip_if. unfold bind at 1. destruct (peek_nxt d _ _ _ _ _ P N) as [E|E]; rewrite E; [reflexivity|].
    destruct ob as [x|]; [|reflexivity]. destruct (x =? v); [|reflexivity].
    bok H u st3 S. unfold ret in H. discriminate.
  Qed.

  (* ---------- parse_integer ---------- *)
  Lemma parse_integer_loop_er : forall fuel base stp acc txt big inv st e st2,
    parse_integer_loop d fuel base stp acc txt big inv st = (Er e, st2) -> peek d st2 = (Er e, st2).
  Proof.
    induction fuel as [|f IH]; intros base stp acc txt big inv st e st2 H; cbn [parse_integer_loop] in H; [discriminate|].
    unfold bind at 1 in H. destruct (peek d st) as [[ob|e0|a] st1] eqn:P; try discriminate.
    - pose proof (peek_ok_nomove _ _ _ _ P). subst st1.
      destruct ob as [b|]; [|discriminate]. destruct (peek_ok_get _ _ _ _ P) as [_ [G L]].
      assert (Hgo : forall a2 b2 i2, (skip d ;;; parse_integer_loop d f base stp a2 (txt ++ [b]) b2 i2)%m st = (Er e, st2) ->
                peek d st2 = (Er e, st2)).
      { intros a2 b2 i2 E. unfold bind in E. rewrite (skip_at _ _ _ G) in E. eapply IH. exact E. }
      destruct (stp && stop_suffix b); [discriminate|].
      destruct (is_hex b); [unfold bind at 1, get_pos at 1 in H; cbv zeta in H; eapply Hgo; exact H|].
      destruct (b =? 95); [eapply Hgo; exact H|].
      destruct (is_alpha b); [unfold bind at 1, get_pos at 1 in H; eapply Hgo; exact H|discriminate].
    - injection H as <- <-. pose proof P as P0. apply peek_inv in P0. destruct P0 as [-> _]. exact P.
  Qed.

  Lemma parse_integer_loop_sim : forall fuel base stp acc txt big inv st acc' txt' big' inv' st2,
    parse_integer_loop d fuel base stp acc txt big inv st = (Ok (acc', txt', big', inv'), st2) ->
    (big <> None -> big' <> None) /\ (inv <> None -> inv' <> None) /\
    exists l, run d l st st2 /\ txt' = txt ++ l /\ Forall okch l /\
      (big' = None -> inv' = None -> Forall (fun b => intch base b = true) l) /\
      forall d' fuel' bigx invx st' e', run d' l st' e' -> nxt d' st2 e' -> (length l < fuel')%nat ->
        osame big bigx -> osame inv invx ->
        exists big'' inv'',
          parse_integer_loop d' fuel' base stp acc txt bigx invx st' = (Ok (acc', txt', big'', inv''), e')
          /\ osame big' big'' /\ osame inv' inv''.
  Proof.
    induction fuel as [|f IH]; intros base stp acc txt big inv st acc' txt' big' inv' st2 H;
      cbn [parse_integer_loop] in H; [discriminate|].
    bok H ob st1 P. pose proof (peek_ok_nomove _ _ _ _ P). subst st1.
    assert (Hstop : match ob with
                    | Some b => (stp && stop_suffix b) = true \/
                                ((stp && stop_suffix b) = false /\ is_hex b = false /\ (b =? 95) = false /\ is_alpha b = false)
                    | None => True
                    end ->
              ret (acc, txt, big, inv) st = (Ok (acc', txt', big', inv'), st2) ->
      (big <> None -> big' <> None) /\ (inv <> None -> inv' <> None) /\
      exists l, run d l st st2 /\ txt' = txt ++ l /\ Forall okch l /\
        (big' = None -> inv' = None -> Forall (fun b => intch base b = true) l) /\
        forall d' fuel' bigx invx st' e', run d' l st' e' -> nxt d' st2 e' -> (length l < fuel')%nat ->
          osame big bigx -> osame inv invx ->
          exists big'' inv'',
            parse_integer_loop d' fuel' base stp acc txt bigx invx st' = (Ok (acc', txt', big'', inv''), e')
            /\ osame big' big'' /\ osame inv' inv'').
    { intros Hs E. unfold ret in E. injection E as <- <- <- <- <-. split; [auto|]. split; [auto|].
      exists []. rewrite app_nil_r. split; [constructor|]. split; [reflexivity|]. split; [constructor|].
      split; [intros _ _; constructor|].
      intros d' fuel' bigx invx st' e' R N Lf Ob Oi. apply run_nil_inv in R. subst e'.
      destruct fuel' as [|f']; [cbn [length] in Lf; lia|]. cbn [parse_integer_loop]. unfold bind at 1.
      exists bigx, invx.
      destruct (peek_nxt d _ _ _ _ _ P N) as [E|E]; rewrite E; [split; [reflexivity|auto]|].
      destruct ob as [b|]; [|split; [reflexivity|auto]].
      destruct Hs as [Hs|[Hs [Hh [H95 Ha]]]]; rewrite Hs; [split; [reflexivity|auto]|].
      rewrite Hh, H95, Ha. split; [reflexivity|auto]. }
    destruct ob as [b|]; [|apply Hstop; [exact I|exact H]].
    destruct (peek_ok_get _ _ _ _ P) as [_ [G L]].
    destruct (stp && stop_suffix b) eqn:Es; [apply Hstop; [left; reflexivity|exact H]|].
    assert (Hgo : forall a2 b2 i2, b <> LF ->
              (skip d ;;; parse_integer_loop d f base stp a2 (txt ++ [b]) b2 i2)%m st = (Ok (acc', txt', big', inv'), st2) ->
              (b2 <> None -> big' <> None) /\ (i2 <> None -> inv' <> None) /\
              exists l, run d (b :: l) st st2 /\ txt' = txt ++ b :: l /\ Forall okch (b :: l) /\
                (big' = None -> inv' = None -> Forall (fun b => intch base b = true) l) /\
                forall d' f' b2x i2x st' e', run d' l (skip_char st' b) e' -> nxt d' st2 e' -> (length l < f')%nat ->
                  osame b2 b2x -> osame i2 i2x ->
                  exists big'' inv'',
                    parse_integer_loop d' f' base stp a2 (txt ++ [b]) b2x i2x (skip_char st' b) = (Ok (acc', txt', big'', inv''), e')
                    /\ osame big' big'' /\ osame inv' inv'').
    { intros a2 b2 i2 Hb E. bok E u st3 S. pose proof (skip_ok_at _ _ _ _ _ G S). subst st3.
      destruct (IH _ _ _ _ _ _ _ _ _ _ _ _ E) as [M1 [M2 [l [R [-> [Fo [Fi Hsim]]]]]]].
      split; [exact M1|]. split; [exact M2|]. exists l.
      split; [econstructor; eassumption|]. split; [rewrite <- app_assoc; reflexivity|].
      split; [constructor; [split; assumption|exact Fo]|]. split; [exact Fi|].
      intros d' f' b2x i2x st' e' R' N Lf Ob Oi. apply Hsim; assumption. }
    destruct (is_hex b) eqn:Eh.
    - bok H p st3 GP. pose proof (get_pos_ok _ _ _ GP). subst st3. unfold get_pos in GP. injection GP as <-.
      cbv zeta in H.
      destruct (Hgo _ _ _ (hex_not_lf _ Eh) H)
        as [M1 [M2 [l [R [-> [Fo [Fi Hsim]]]]]]].
      split; [intro Hb; apply M1; destruct (base <=? hex_val b); [discriminate|exact Hb]|]. split; [exact M2|].
      exists (b :: l). split; [exact R|]. split; [reflexivity|]. split; [exact Fo|].
      split.
      { intros B1 B2. constructor; [|apply Fi; assumption]. unfold intch. rewrite Eh.
        destruct (base <=? hex_val b) eqn:Eb; [|reflexivity]. exfalso. apply M1; [discriminate|exact B1]. }
      intros d' fuel' bigx invx st' e' R' N Lf Ob Oi. apply run_cons_inv in R'. destruct R' as [G' R'].
      destruct fuel' as [|f']; [cbn [length] in Lf; lia|]. cbn [parse_integer_loop]. cbn [length] in Lf.
      unfold bind at 1. rewrite (peek_at' _ _ _ G' L). rewrite Es, Eh.
      unfold bind at 1. unfold get_pos at 1. cbv zeta. unfold bind at 1. rewrite (skip_at _ _ _ G').
      apply Hsim; [exact R'|exact N|llia|apply osame_if; exact Ob|exact Oi].
    - destruct (b =? 95) eqn:E95.
      + assert (Hb : b <> LF) by (apply N.eqb_eq in E95; subst b; discriminate).
        destruct (Hgo _ _ _ Hb H)
          as [M1 [M2 [l [R [-> [Fo [Fi Hsim]]]]]]].
        split; [exact M1|]. split; [exact M2|].
        exists (b :: l). split; [exact R|]. split; [reflexivity|]. split; [exact Fo|].
        split.
        { intros B1 B2. constructor; [|apply Fi; assumption]. unfold intch. rewrite E95. apply orb_true_r. }
        intros d' fuel' bigx invx st' e' R' N Lf Ob Oi. apply run_cons_inv in R'. destruct R' as [G' R'].
        destruct fuel' as [|f']; [cbn [length] in Lf; lia|]. cbn [parse_integer_loop]. cbn [length] in Lf.
        unfold bind at 1. rewrite (peek_at' _ _ _ G' L). rewrite Es, Eh, E95.
        unfold bind at 1. rewrite (skip_at _ _ _ G').
        apply Hsim; [exact R'|exact N|llia|exact Ob|exact Oi].
      + destruct (is_alpha b) eqn:Ea; [|apply Hstop; [right; auto|exact H]].
        bok H p st3 GP. pose proof (get_pos_ok _ _ _ GP). subst st3. unfold get_pos in GP. injection GP as <-.
        destruct (Hgo _ _ _ (alpha_not_lf _ Ea) H)
          as [M1 [M2 [l [R [-> [Fo [Fi Hsim]]]]]]].
        split; [exact M1|]. split; [intros _; apply M2; discriminate|].
        exists (b :: l). split; [exact R|]. split; [reflexivity|]. split; [exact Fo|].
        split; [intros B1 B2; exfalso; apply M2; [discriminate|exact B2]|].
        intros d' fuel' bigx invx st' e' R' N Lf Ob Oi. apply run_cons_inv in R'. destruct R' as [G' R'].
        destruct fuel' as [|f']; [cbn [length] in Lf; lia|]. cbn [parse_integer_loop]. cbn [length] in Lf.
        unfold bind at 1. rewrite (peek_at' _ _ _ G' L). rewrite Es, Eh, E95, Ea.
        unfold bind at 1. unfold get_pos at 1. unfold bind at 1. rewrite (skip_at _ _ _ G').
        apply Hsim; [exact R'|exact N|llia|exact Ob|apply osame_some].
  Qed.

  (* parse_integer, whatever its result: either the next character is not Latin-1 (every following
     peek fails too), or it behaves identically on d' up to the positions inside its error *)
  Lemma parse_integer_sim : forall F base stp st r st2, parse_integer d F base stp st = (r, st2) ->
    (forall a, r <> Ab a) ->
    (exists e0, peek d st2 = (Er e0, st2)) \/
    exists l, run d l st st2 /\ Forall okch l /\
      (forall v t, r = Ok (v, t) -> t = l /\ Forall (fun b => intch base b = true) l) /\
      forall d' F' st' e', run d' l st' e' -> nxt d' st2 e' -> (length l < F')%nat ->
        exists r', parse_integer d' F' base stp st' = (r', e') /\ rsame r r'.
  Proof.
    intros F base stp st r st2 H Hab. unfold parse_integer in H. unfold bind at 1, get_pos at 1 in H.
    unfold bind at 1 in H.
    destruct (parse_integer_loop d F base stp (Some 0) [] None None st) as [[x|e|a] st3] eqn:PL.
    - destruct x as [[[acc txt] big] inv].
      destruct (parse_integer_loop_sim _ _ _ _ _ _ _ _ _ _ _ _ _ PL) as [_ [_ [l [R [E [Fo [Fi Hsim]]]]]]].
      cbn [app] in E. subst txt.
      assert (Hst : st2 = st3).
      { destruct inv as [q|]; [injection H as _ <-; reflexivity|]. destruct big as [q|]; [injection H as _ <-; reflexivity|].
        destruct acc as [v0|]; [injection H as _ <-; reflexivity|]. unfold bind, get_pos, throw in H. injection H as _ <-. reflexivity. }
      subst st3. right. exists l. split; [exact R|]. split; [exact Fo|]. split.
      { intros v t E. subst r. destruct inv as [q|]; [discriminate|]. destruct big as [q|]; [discriminate|].
        destruct acc as [v0|]; [|unfold bind, get_pos, throw in H; discriminate].
        unfold ret in H. injection H as <- <-. split; [reflexivity|apply Fi; reflexivity]. }
      intros d' F' st' e' R' N Lf.
      destruct (Hsim d' F' None None st' e' R' N Lf osame_none osame_none) as [big'' [inv'' [E' [Ob Oi]]]].
      unfold parse_integer. unfold bind at 1, get_pos at 1. unfold bind at 1. rewrite E'.
      destruct inv as [q|].
      + destruct inv'' as [q'|]; [|exfalso; destruct Oi as [_ Oi]; specialize (Oi eq_refl); discriminate].
        injection H as <-. eexists. split; [reflexivity|exact I].
      + destruct inv'' as [q'|]; [exfalso; destruct Oi as [Oi _]; specialize (Oi eq_refl); discriminate|].
        destruct big as [q|].
        * destruct big'' as [q'|]; [|exfalso; destruct Ob as [_ Ob]; specialize (Ob eq_refl); discriminate].
          injection H as <-. eexists. split; [reflexivity|exact I].
        * destruct big'' as [q'|]; [exfalso; destruct Ob as [Ob _]; specialize (Ob eq_refl); discriminate|].
          destruct acc as [v0|].
          -- unfold ret in H. injection H as <-. eexists. split; [reflexivity|reflexivity].
          -- unfold bind, get_pos, throw in H. injection H as <-.
             unfold bind, get_pos, throw. eexists. split; [reflexivity|exact I].
    - injection H as <- <-. left. exists e. eapply parse_integer_loop_er. exact PL.
    - injection H as <- _. exfalso. eapply Hab. reflexivity.
  Qed.

  Lemma parse_integer_sim_ok : forall F base stp st v t st2, parse_integer d F base stp st = (Ok (v, t), st2) ->
    run d t st st2 /\ Forall okch t /\ Forall (fun b => intch base b = true) t /\
      forall d' F' st' e', run d' t st' e' -> nxt d' st2 e' -> (length t < F')%nat ->
        parse_integer d' F' base stp st' = (Ok (v, t), e').
  Proof.
    intros F base stp st v t st2 H.
    destruct (parse_integer_sim _ _ _ _ _ _ H) as [[e0 P]|[l [R [Fo [Ht Hsim]]]]].
    - intros a E. discriminate.
    - exfalso. pose proof (parse_integer_text _ _ _ _ _ _ _ _ H) as Rt.
      (* the loop ended on Ok: the result is Ok only when the loop ended normally *)
      unfold parse_integer in H. unfold bind at 1, get_pos at 1 in H. unfold bind at 1 in H.
      destruct (parse_integer_loop d F base stp (Some 0) [] None None st) as [[x|e|a] st3] eqn:PL; try discriminate.
      destruct x as [[[acc txt] big] inv].
      assert (st3 = st2).
      { destruct inv as [q|]; [discriminate|]. destruct big as [q|]; [discriminate|].
        destruct acc as [v0|]; [injection H as _ _ <-; reflexivity|unfold bind, get_pos, throw in H; discriminate]. }
      subst st3. clear H.
      (* the loop returns Ok only after a successful peek at its final state *)
      assert (Hp : forall fuel base stp acc txt big inv st y st2,
                 parse_integer_loop d fuel base stp acc txt big inv st = (Ok y, st2) -> exists ob, peek d st2 = (Ok ob, st2)).
      { clear. induction fuel as [|f IH]; intros base stp acc txt big inv st y st2 H; cbn [parse_integer_loop] in H; [discriminate|].
        bok H ob st1 P. pose proof (peek_ok_nomove _ _ _ _ P). subst st1.
        assert (Hs : ret (acc, txt, big, inv) st = (Ok y, st2) -> exists ob, peek d st2 = (Ok ob, st2)).
        { intro E. unfold ret in E. injection E as _ <-. exists ob. exact P. }
        destruct ob as [b|]; [|apply Hs; exact H].
        destruct (stp && stop_suffix b); [apply Hs; exact H|].
        destruct (is_hex b).
        { bok H p st3 GP. cbv zeta in H. bok H u st4 S. eapply IH. exact H. }
        destruct (b =? 95); [bok H u st4 S; eapply IH; exact H|].
        destruct (is_alpha b); [|apply Hs; exact H].
        bok H p st3 GP. bok H u st4 S. eapply IH. exact H. }
      destruct (Hp _ _ _ _ _ _ _ _ _ _ PL) as [ob P']. rewrite P' in P. discriminate.
    - destruct (Ht v t eq_refl) as [-> Fi]. split; [exact R|]. split; [exact Fo|]. split; [exact Fi|].
      intros d' F' st' e' R' N Lf. destruct (Hsim d' F' st' e' R' N Lf) as [r' [E S]].
      destruct r' as [y|e|a]; cbn [rsame] in S; try contradiction. subst y. exact E.
  Qed.

  (* ---------- parse_exponent ---------- *)
  Lemma parse_exponent_sim : forall F st neg v t st2, parse_exponent d F st = (Ok (neg, v, t), st2) ->
    run d t st st2 /\ Forall okch t /\
      forall d' F' st' e', run d' t st' e' -> nxt d' st2 e' -> (length t < F')%nat ->
        parse_exponent d' F' st' = (Ok (neg, v, t), e').
  Proof.
    intros F st neg v t st2 H. unfold parse_exponent in H.
    bok H p st1 GP. pose proof (get_pos_ok _ _ _ GP). subst st1.
    bok H ob st1 P. pose proof (peek_ok_nomove _ _ _ _ P). subst st1.
    bok H nb st3 S. destruct nb as [neg0 buf].
    bok H vt st4 PI. destruct vt as [v0 t0].
    destruct (parse_integer_sim_ok _ _ _ _ _ _ _ PI) as [Rt [Fot [_ Hsim]]].
    bok H e st5 GP2. pose proof (get_pos_ok _ _ _ GP2). subst st5.
    assert (Hres : t = buf ++ t0 /\ st2 = st4 /\ neg = neg0 /\ v = v0 /\
              forall (start e : position) (st : rstate),
                (if neg0 then (if v0 <=? I32MAX + 1 then ret (true, v0, buf ++ t0) else throw (TErr start e 5))
                 else (if v0 <=? I32MAX then ret (false, v0, buf ++ t0) else throw (TErr start e 5))) st
                = (Ok (neg, v, t), st)).
    { destruct neg0.
      - destruct (v0 <=? I32MAX + 1); [|discriminate]. unfold ret in H. injection H as <- <- <- <-. auto.
      - destruct (v0 <=? I32MAX); [|discriminate]. unfold ret in H. injection H as <- <- <- <-. auto. }
    destruct Hres as [-> [-> [-> [-> Hres]]]]. clear H.
    destruct (opt_is ob 45) eqn:E45.
    - destruct ob as [x|]; [|discriminate]. cbn [opt_is] in E45. apply N.eqb_eq in E45. subst x.
      destruct (peek_ok_get _ _ _ _ P) as [_ [G L]].
      bok S u st5 SK. pose proof (skip_ok_at _ _ _ _ _ G SK). subst st5.
      unfold ret in S. injection S as <- <- <-.
      split; [econstructor; eassumption|]. split; [constructor; [split; [exact L|discriminate]|exact Fot]|].
      intros d' F' st' e' R' N Lf. cbn [app] in R'. apply run_cons_inv in R'. destruct R' as [G' R'].
      unfold parse_exponent. unfold bind at 1, get_pos at 1. unfold bind at 1. rewrite (peek_at' _ _ _ G' L).
      cbn [opt_is]. rewrite N.eqb_refl. unfold bind at 1. unfold bind at 1. rewrite (skip_at _ _ _ G').
      unfold ret at 1. unfold bind at 1. cbn [app length] in Lf. rewrite (Hsim d' F' _ _ R' N) by llia.
      unfold bind at 1, get_pos at 1. apply Hres.
    - bok S s st5 SI. unfold ret in S. injection S as <- <- <-.
      destruct (skip_if_ok _ _ _ _ _ SI) as [[-> [G ->]]|[-> ->]].
      + assert (L : 43 < 256) by lia.
        split; [econstructor; eassumption|]. split; [constructor; [split; [exact L|discriminate]|exact Fot]|].
        intros d' F' st' e' R' N Lf. cbn [app] in R'. apply run_cons_inv in R'. destruct R' as [G' R'].
        unfold parse_exponent. unfold bind at 1, get_pos at 1. unfold bind at 1. rewrite (peek_at' _ _ _ G' L).
        cbn [opt_is]. change (43 =? 45) with false. cbv iota.
        unfold bind at 1. unfold bind at 1. rewrite (skip_if_at _ _ _ G' L).
        unfold ret at 1. unfold bind at 1. cbn [app length] in Lf. rewrite (Hsim d' F' _ _ R' N) by llia.
        unfold bind at 1, get_pos at 1. apply Hres.
      + cbn [app]. split; [exact Rt|]. split; [exact Fot|].
        intros d' F' st' e' R' N Lf.
        pose proof (nxt_back d _ _ _ _ _ _ Rt R' N) as N0.
        unfold parse_exponent. unfold bind at 1, get_pos at 1. unfold bind at 1.
        assert (E' : exists ob', peek d' st' = (Ok ob', st') /\ opt_is ob' 45 = false).
        { destruct (peek_nxt d _ _ _ _ _ P N0) as [E|E]; rewrite E; eexists; split; try reflexivity. exact E45. }
        destruct E' as [ob' [E' E45']]. rewrite E', E45'.
        unfold bind at 1. unfold bind at 1. rewrite (skip_if_nxt_false _ _ _ _ _ SI N0).
        unfold ret at 1. unfold bind at 1. cbn [app] in Lf. rewrite (Hsim d' F' _ _ R' N) by llia.
        unfold bind at 1, get_pos at 1. apply Hres.
  Qed.

  (* ---------- parse_real_literal ---------- *)
  Definition real_acc (x : N) : bool :=
    negb (x =? 101) && (is_digit x || in_range 97 100 x || (x =? 102) || (x =? 46) || (x =? 95)).
  (* the real scan stopped: the next character, if any, is not one it accepts *)
  Definition real_stop (st : rstate) : Prop :=
    forall c, get_char d st = GChar c -> c < 256 -> real_acc (lowercase c) = false.

  Lemma real_loop_sim : forall fuel txt dg st txt' dg' st2,
    real_loop d fuel txt dg st = (Ok (txt', dg'), st2) ->
    real_stop st2 /\ exists l, run d l st st2 /\ Forall okch l /\
      forall d' fuel' st' e', run d' l st' e' -> nxt d' st2 e' -> (length l < fuel')%nat ->
        real_loop d' fuel' txt dg st' = (Ok (txt', dg'), e').
  Proof.
    induction fuel as [|f IH]; intros txt dg st txt' dg' st2 H; cbn [real_loop] in H; [discriminate|].
    bok H ob st1 PL. pose proof PL as PL0. unfold peek_lowercase in PL0. bok PL0 ob0 st3 P.
    pose proof (peek_ok_nomove _ _ _ _ P). subst st3. unfold ret in PL0. injection PL0 as <- <-.
    assert (Hstop : match ob0 with
                    | Some c => (lowercase c =? 101) = true \/
                                ((lowercase c =? 101) = false /\
                                 (is_digit (lowercase c) || in_range 97 100 (lowercase c) || (lowercase c =? 102) || (lowercase c =? 46)) = false /\
                                 (lowercase c =? 95) = false)
                    | None => True
                    end ->
              ret (txt, dg) st = (Ok (txt', dg'), st2) ->
              real_stop st2 /\ exists l, run d l st st2 /\ Forall okch l /\
                forall d' fuel' st' e', run d' l st' e' -> nxt d' st2 e' -> (length l < fuel')%nat ->
                  real_loop d' fuel' txt dg st' = (Ok (txt', dg'), e')).
    { intros Hs E. unfold ret in E. injection E as <- <- <-. split.
      { intros c G L. destruct (peek_ok_get _ _ _ _ P) as [_ G0]. destruct ob0 as [c0|]; [|congruence].
        destruct G0 as [G0 _]. assert (c0 = c) by congruence. subst c0. unfold real_acc.
        destruct Hs as [Hs|[Hs [H1 H95]]]; rewrite Hs; [reflexivity|]. cbn [negb andb].
        rewrite H95, orb_false_r. exact H1. }
      exists []. split; [constructor|]. split; [constructor|].
      intros d' fuel' st' e' R N Lf. apply run_nil_inv in R. subst e'.
      destruct fuel' as [|f']; [cbn [length] in Lf; lia|]. cbn [real_loop]. unfold bind at 1.
      destruct (peek_lowercase_nxt d _ _ _ _ _ PL N) as [E|E]; rewrite E; [reflexivity|].
      destruct ob0 as [c|]; cbn [option_map]; [|reflexivity].
      destruct Hs as [Hs|[Hs [H1 H95]]]; rewrite Hs; [reflexivity|]. rewrite H1, H95. reflexivity. }
    destruct ob0 as [c|]; cbn [option_map] in H; [|apply Hstop; [exact I|exact H]].
    destruct (peek_ok_get _ _ _ _ P) as [_ [G L]].
    destruct (lowercase c =? 101) eqn:E101; [apply Hstop; [left; reflexivity|exact H]|].
    assert (Hgo : forall dg2, lowercase c <> 10 ->
              (skip d ;;; real_loop d f (txt ++ [lowercase c]) dg2)%m st = (Ok (txt', dg'), st2) ->
              real_stop st2 /\ exists l, run d (c :: l) st st2 /\ Forall okch (c :: l) /\
                forall d' f' st' e', run d' l (skip_char st' c) e' -> nxt d' st2 e' -> (length l < f')%nat ->
                  real_loop d' f' (txt ++ [lowercase c]) dg2 (skip_char st' c) = (Ok (txt', dg'), e')).
    { intros dg2 Hc E. bok E u st3 S. pose proof (skip_ok_at _ _ _ _ _ G S). subst st3.
      destruct (IH _ _ _ _ _ _ E) as [RS [l [R [Fo Hsim]]]]. split; [exact RS|]. exists l.
      split; [econstructor; eassumption|].
      split; [constructor; [split; [exact L|apply lowercase_lf; exact Hc]|exact Fo]|].
      intros d' f' st' e' R' N' Lf'. apply Hsim; assumption. }
    destruct (is_digit (lowercase c) || in_range 97 100 (lowercase c) || (lowercase c =? 102) || (lowercase c =? 46)) eqn:E1.
    - assert (Hc : lowercase c <> 10) by (intro E; rewrite E in E1; discriminate).
      destruct (Hgo _ Hc H) as [RS [l [R [Fo Hsim]]]]. split; [exact RS|]. exists (c :: l).
      split; [exact R|]. split; [exact Fo|].
      intros d' fuel' st' e' R' N Lf. apply run_cons_inv in R'. destruct R' as [G' R'].
      destruct fuel' as [|f']; [cbn [length] in Lf; lia|]. cbn [real_loop]. cbn [length] in Lf.
      unfold bind at 1. rewrite (peek_lowercase_at _ _ _ G' L). rewrite E101, E1.
      unfold bind at 1. rewrite (skip_at _ _ _ G'). apply Hsim; [exact R'|exact N|llia].
    - destruct (lowercase c =? 95) eqn:E95; [|apply Hstop; [right; auto|exact H]].
      assert (Hc : lowercase c <> 10) by (intro E; rewrite E in E95; discriminate).
      destruct (Hgo _ Hc H) as [RS [l [R [Fo Hsim]]]]. split; [exact RS|]. exists (c :: l).
      split; [exact R|]. split; [exact Fo|].
      intros d' fuel' st' e' R' N Lf. apply run_cons_inv in R'. destruct R' as [G' R'].
      destruct fuel' as [|f']; [cbn [length] in Lf; lia|]. cbn [real_loop]. cbn [length] in Lf.
      unfold bind at 1. rewrite (peek_lowercase_at _ _ _ G' L). rewrite E101, E1, E95.
      unfold bind at 1. rewrite (skip_at _ _ _ G'). apply Hsim; [exact R'|exact N|llia].
  Qed.

  Lemma parse_real_literal_sim : forall F st txt st2, parse_real_literal d F st = (Ok txt, st2) ->
    real_stop st2 /\ exists l, run d l st st2 /\ Forall okch l /\
      forall d' F' st' e', run d' l st' e' -> nxt d' st2 e' -> (length l < F')%nat ->
        parse_real_literal d' F' st' = (Ok txt, e').
  Proof.
    intros F st txt st2 H. unfold parse_real_literal in H.
    bok H p st1 GP. pose proof (get_pos_ok _ _ _ GP). subst st1.
    bok H x st3 RL. destruct x as [t dg].
    bok H e st4 GP2. pose proof (get_pos_ok _ _ _ GP2). subst st4.
    destruct (f64_ok dg) eqn:Ef; [|discriminate]. unfold ret in H. injection H as <- <-.
    destruct (real_loop_sim _ _ _ _ _ _ _ RL) as [RS [l [R [Fo Hsim]]]]. split; [exact RS|].
    exists l. split; [exact R|]. split; [exact Fo|].
    intros d' F' st' e' R' N Lf. unfold parse_real_literal. unfold bind at 1, get_pos at 1.
    unfold bind at 1. rewrite (Hsim d' F' st' e' R' N Lf). unfold bind at 1, get_pos at 1. rewrite Ef. reflexivity.
  Qed.

  (* ---------- the arms of parse_abstract_literal ---------- *)
  Lemma abs_int_exp_sim : forall F p0 iv it st k v st2, (forall c, get_char d st = GChar c -> c <> LF) ->
    abs_int_exp d F p0 (inl (iv, it)) st = (Ok (k, v), st2) ->
    exists c l, run d (c :: l) st st2 /\ Forall okch (c :: l) /\
      forall d' F' p0' st' e', run d' (c :: l) st' e' -> nxt d' st2 e' -> (length (c :: l) < F')%nat ->
        abs_int_exp d' F' p0' (inl (iv, it)) st' = (Ok (k, v), e').
  Proof.
    intros F p0 iv it st k v st2 Hlf H. unfold abs_int_exp in H.
    unfold of_result in H. bok H x st1 R0. unfold ret in R0. injection R0 as <- <-.
    bok H r st1 T. destruct r as [[c|]|e]; try discriminate.
    apply try_ok_inl in T. destruct (peek_ok_get _ _ _ _ T) as [-> [G L]].
    bok H u st3 S. pose proof (skip_ok_at _ _ _ _ _ G S). subst st3.
    bok H x st4 PE. destruct x as [[neg ev] et].
    destruct (parse_exponent_sim _ _ _ _ _ _ PE) as [Re [Foe Hsim]].
    bok H e st5 GP. pose proof (get_pos_ok _ _ _ GP). subst st5.
    destruct (exp_is_neg neg ev) eqn:E1; [discriminate|]. destruct (ev <=? 19) eqn:E2; [|discriminate].
    destruct ((10 ^ ev <? TWO64) && (10 ^ ev * iv <? TWO64)) eqn:E3; [|discriminate].
    unfold ret in H. injection H as <- <- <-.
    pose proof (Hlf c G) as Hc.
    exists c, et. split; [econstructor; eassumption|].
    split; [constructor; [split; assumption|exact Foe]|].
    intros d' F' p0' st' e' R' N Lf. apply run_cons_inv in R'. destruct R' as [G' R'].
    unfold abs_int_exp, of_result. unfold bind at 1. unfold ret at 1. unfold bind at 1. unfold try.
    rewrite (peek_at' _ _ _ G' L). unfold bind at 1. rewrite (skip_at _ _ _ G').
    cbn [length] in Lf. unfold bind at 1. rewrite (Hsim d' F' _ _ R' N) by llia.
    unfold bind at 1, get_pos at 1. rewrite E1, E2, E3. reflexivity.
  Qed.

  Lemma abs_bit_string_sim : forall F s0 it iv it' st k v st2, Forall lf_last d -> RInv d s0 ->
    run d it s0 st -> Forall okch it ->
    abs_bit_string d F (r_pos s0) (inl (iv, it')) st = (Ok (k, v), st2) ->
    exists l, run d l st st2 /\ l <> [] /\ Forall okch l /\
      forall d' F' s0' st' e', Forall lf_last d' -> RInv d' s0' -> run d' it s0' st' -> run d' l st' e' ->
        nxt d' st2 e' -> (length l < F')%nat ->
        abs_bit_string d' F' (r_pos s0') (inl (iv, it')) st' = (Ok (k, v), e').
  Proof.
    intros F s0 it iv it' st k v st2 HD HI0 R0 F0 H. unfold abs_bit_string in H.
    unfold of_result in H. bok H x st1 OR. unfold ret in OR. injection OR as <- <-.
    bok H obs st3 PB. destruct obs as [bs|]; [|bok H e st4 GP; discriminate].
    destruct (parse_base_specifier_sim d _ _ _ PB) as [l1 [R1 [Fo1 [_ [Hne Hsim1]]]]].
    assert (R01 : run d (it ++ l1) s0 st3) by (eapply run_app; eassumption).
    assert (F01 : Forall okch (it ++ l1)) by (apply Forall_app; auto).
    assert (Hne01 : it ++ l1 <> []) by (destruct it; [exact Hne|discriminate]).
    destruct (parse_bit_string_sim d HD _ _ _ _ _ _ _ _ _ HI0 R01 F01 Hne01 H) as [l2 [R2 [Fo2 Hsim2]]].
    exists (l1 ++ l2). split; [eapply run_app; eassumption|].
    split; [destruct l1; [congruence|discriminate]|]. split; [apply Forall_app; auto|].
    intros d' F' s0' st' e' HD' HI0' R0' R' N Lf. apply run_app_inv in R'. destruct R' as [m' [Ra Rb]].
    unfold abs_bit_string, of_result. unfold bind at 1. unfold ret at 1. unfold bind at 1.
    rewrite (Hsim1 d' _ _ Ra). rewrite app_length in Lf.
    apply (Hsim2 d' F' s0' m' e' HD' HI0'); [eapply run_app; eassumption|exact Rb|exact N|llia].
  Qed.

  Lemma intch10_real : forall x, intch 10 x = true -> real_acc (lowercase x) = true.
  Proof.
    intros x H. unfold intch in H. apply orb_true_iff in H. destruct H as [H|H].
    - apply andb_true_iff in H. destruct H as [Hh Hv].
      assert (Hd : is_digit x = true).
      { destruct (is_digit x) eqn:Ed; [reflexivity|]. exfalso. unfold hex_val in Hv. rewrite Ed in Hv.
        unfold is_hex in Hh. rewrite Ed in Hh. cbn [orb] in Hh.
        destruct (in_range 97 102 x) eqn:E1.
        - unfold in_range in E1. apply andb_true_iff in E1. destruct E1 as [E1 _]. apply N.leb_le in E1.
          replace (10 <=? 10 + x - 97) with true in Hv by (symmetry; apply N.leb_le; lia). discriminate.
        - cbn [orb] in Hh. unfold in_range in Hh. apply andb_true_iff in Hh. destruct Hh as [E2 _]. apply N.leb_le in E2.
          replace (10 <=? 10 + x - 65) with true in Hv by (symmetry; apply N.leb_le; lia). discriminate. }
      destruct (digit_facts x Hd) as [_ [_ [El [E101 _]]]]. rewrite El. unfold real_acc. rewrite E101, Hd. reflexivity.
    - apply N.eqb_eq in H. subst x. reflexivity.
  Qed.

  Lemma plt_irrefl : forall p, plt p p = false.
  Proof. intro p. apply ple_not_plt. apply ple_refl. Qed.

  (* the real arm re-scans from the start st0 of the literal; li is what parse_integer consumed before the '.' *)
  Lemma abs_real_sim : forall F st0 st1 li initial cur k v st2,
    run d li st0 st1 -> Forall okch li -> get_char d st1 = GChar 46 ->
    (forall iv it, initial = inl (iv, it) -> Forall (fun b => intch 10 b = true) li) ->
    abs_real d F st0 (r_pos st1) initial cur = (Ok (k, v), st2) ->
    exists r, run d (46 :: r) st1 st2 /\ Forall okch r /\
      forall d' F' st0' m1' initial' cur' e', run d' li st0' m1' -> run d' (46 :: r) m1' e' -> nxt d' st2 e' ->
        (length (li ++ 46%N :: r) < F')%nat ->
        abs_real d' F' st0' (r_pos m1') initial' cur' = (Ok (k, v), e').
  Proof.
    intros F st0 st1 li initial cur k v st2 Rli Fli G46 Hdig H. unfold abs_real, abs_real_gen in H.
    bok H u st3 SS. unfold set_state in SS. injection SS as _ <-.
    bok H txt sr PR. destruct (parse_real_literal_sim _ _ _ _ PR) as [RS [lr [Rr [For Hsimr]]]].
    bok H p st3 GP. pose proof (get_pos_ok _ _ _ GP). subst st3. unfold get_pos in GP. injection GP as <-.
    bok H u2 st3 C.
    (* the real scan went beyond the '.' *)
    assert (Hlr : exists r1, lr = li ++ 46 :: r1 /\ run d (46 :: r1) st1 sr).
    { destruct (run_compare _ _ _ _ Rli _ _ Rr) as [[r0 [-> R0]]|[r0 [E0 R0]]].
      - destruct r0 as [|x r1].
        + exfalso. apply run_nil_inv in R0. subst sr.
          assert (E : real_acc (lowercase 46) = false) by (apply RS; [exact G46|lia]). discriminate.
        + pose proof R0 as R0'. apply run_cons_inv in R0'. destruct R0' as [Gx _].
          assert (x = 46) by congruence. subst x. exists r1. auto.
      - exfalso. destruct r0 as [|x r1].
        + apply run_nil_inv in R0. subst sr.
          assert (E : real_acc (lowercase 46) = false) by (apply RS; [exact G46|lia]). discriminate.
        + pose proof R0 as R0'. apply run_cons_inv in R0'. destruct R0' as [Gx R1].
          assert (Pl : plt (r_pos sr) (r_pos st1) = true).
          { eapply plt_ple_trans; [apply skip_plt|eapply run_ple; exact R1]. }
          rewrite Pl in C. cbn [andb] in C. bok C u3 st4 OR.
          destruct initial as [[iv it]|e]; [|discriminate].
          pose proof (Hdig iv it eq_refl) as Fi. rewrite Forall_forall in Fi, Fli.
          assert (Ix : In x li) by (rewrite E0; apply in_or_app; right; left; reflexivity).
          assert (E : real_acc (lowercase x) = false) by (apply RS; [exact Gx|apply (Fli x Ix)]).
          rewrite (intch10_real x (Fi x Ix)) in E. discriminate. }
    destruct Hlr as [r1 [-> R1]].
    assert (st3 = sr).
    { destruct (true && plt (r_pos sr) (r_pos st1)).
      - bok C u3 st4 OR. unfold ret in C. injection C as _ <-.
        destruct initial as [x|e]; [|discriminate]. unfold of_result, ret in OR. injection OR as _ <-. reflexivity.
      - unfold ret in C. injection C as _ <-. reflexivity. }
    subst st3. clear C.
    assert (For1 : Forall okch r1).
    { apply Forall_app in For. destruct For as [_ For]. inversion For; assumption. }
    bok H op st3 P. pose proof (peek_ok_nomove _ _ _ _ P). subst st3.
    (* d' side up to the peek for the exponent *)
    assert (Hpre : forall d' F' st0' m1' initial' cur' m2',
              run d' li st0' m1' -> run d' (46 :: r1) m1' m2' -> nxt d' sr m2' ->
              (length (li ++ 46%N :: r1) < F')%nat ->
              abs_real d' F' st0' (r_pos m1') initial' cur' =
              (op <- peek d' ;; match op with
                                | Some c => if is_e c then skip d' ;;; '(_, _, et) <- parse_exponent d' F' ;; ret (lit_real (txt ++ [c] ++ et))
                                            else ret (lit_real txt)
                                | None => ret (lit_real txt)
                                end) m2').
    { intros d' F' st0' m1' initial' cur' m2' Ra Rb N Lf.
      unfold abs_real, abs_real_gen. unfold bind at 1. unfold set_state at 1.
      unfold bind at 1. rewrite (Hsimr d' F' st0' m2' (run_app _ _ _ _ Ra _ _ Rb) N Lf).
      unfold bind at 1, get_pos at 1.
      rewrite (ple_not_plt _ _ (run_ple _ _ _ _ Rb)). cbn [andb]. unfold bind at 1. unfold ret at 1. reflexivity. }
    assert (Hstop : match op with Some c => is_e c = false | None => True end ->
              ret (lit_real txt) sr = (Ok (k, v), st2) ->
              exists r, run d (46 :: r) st1 st2 /\ Forall okch r /\
                forall d' F' st0' m1' initial' cur' e', run d' li st0' m1' -> run d' (46 :: r) m1' e' -> nxt d' st2 e' ->
                  (length (li ++ 46%N :: r) < F')%nat ->
                  abs_real d' F' st0' (r_pos m1') initial' cur' = (Ok (k, v), e')).
    { intros Hop E. unfold ret in E. injection E as <- <- <-. exists r1. split; [exact R1|]. split; [exact For1|].
      intros d' F' st0' m1' initial' cur' e' Ra Rb N Lf.
      rewrite (Hpre d' F' st0' m1' initial' cur' e' Ra Rb N Lf).
      unfold bind at 1. destruct (peek_nxt d _ _ _ _ _ P N) as [E|E]; rewrite E; [reflexivity|].
      destruct op as [c|]; [|reflexivity]. rewrite Hop. reflexivity. }
    destruct op as [c|]; [|apply Hstop; [exact I|exact H]].
    destruct (is_e c) eqn:Ee; [|apply Hstop; [reflexivity|exact H]].
    destruct (peek_ok_get _ _ _ _ P) as [_ [G L]].
    bok H u3 st3 S. pose proof (skip_ok_at _ _ _ _ _ G S). subst st3.
    bok H x st4 PE. destruct x as [[neg ev] et].
    destruct (parse_exponent_sim _ _ _ _ _ _ PE) as [Re [Foe Hsime]].
    unfold ret in H. injection H as <- <- <-.
    assert (Hc : c <> LF).
    { intro E. subst c. discriminate. }
    exists (r1 ++ c :: et). split.
    { change (46 :: r1 ++ c :: et) with ((46 :: r1) ++ c :: et). eapply run_app; [exact R1|]. econstructor; eassumption. }
    split; [apply Forall_app; split; [exact For1|constructor; [split; assumption|exact Foe]]|].
    intros d' F' st0' m1' initial' cur' e' Ra Rb N Lf.
    change (46 :: r1 ++ c :: et) with ((46 :: r1) ++ c :: et) in Rb. apply run_app_inv in Rb. destruct Rb as [m2' [Rb Rc]].
    pose proof Rc as Rc0. apply run_cons_inv in Rc0. destruct Rc0 as [G' Rc0].
    assert (N2 : nxt d' sr m2') by (right; congruence).
    assert (Lf2 : (length (li ++ 46%N :: r1) < F')%nat).
    { rewrite !app_length in *. cbn [length] in *. rewrite app_length in Lf. cbn [length] in Lf. llia. }
    rewrite (Hpre d' F' st0' m1' initial' cur' m2' Ra Rb N2 Lf2).
    unfold bind at 1. rewrite (peek_at' _ _ _ G' L). rewrite Ee.
    unfold bind at 1. rewrite (skip_at _ _ _ G'). unfold bind at 1.
    assert (Lf3 : (length et < F')%nat).
    { rewrite !app_length in Lf. cbn [length] in Lf. rewrite app_length in Lf. cbn [length] in Lf. llia. }
    rewrite (Hsime d' F' _ _ Rc0 N Lf3). reflexivity.
  Qed.

  Lemma abs_based_sim_35 : forall F p0 pai base bt st k v st2, get_char d st = GChar 35 ->
    abs_based d F 35 p0 pai (inl (base, bt)) st = (Ok (k, v), st2) ->
    exists l, run d (35 :: l) st st2 /\ Forall okch l /\ l <> [] /\
      forall d' F' p0' pai' st' e', run d' (35 :: l) st' e' -> nxt d' st2 e' -> (length (35%N :: l) < F')%nat ->
        abs_based d' F' 35 p0' pai' (inl (base, bt)) st' = (Ok (k, v), e').
  Proof.
    intros F p0 pai base bt st k v st2 G H. unfold abs_based in H.
    unfold of_result at 1 in H. bok H x st1 OR. unfold ret in OR. injection OR as <- <-.
    bok H u sa S. pose proof (skip_ok_at _ _ _ _ _ G S). subst sa.
    bok H bres st3 T1.
    bok H op st4 P1. pose proof (peek_ok_nomove _ _ _ _ P1). subst st4.
    bok H fres st4 FR.
    bok H op2 st5 P2. pose proof (peek_ok_nomove _ _ _ _ P2). subst st5.
    destruct (opt_is op2 35) eqn:E2; [|bok H e st6 GP; discriminate].
    destruct op2 as [c2|]; [|discriminate]. cbn [opt_is] in E2. apply N.eqb_eq in E2. subst c2.
    destruct (peek_ok_get _ _ _ _ P2) as [_ [G2 L2]].
    bok H u2 st5 S2. pose proof (skip_ok_at _ _ _ _ _ G2 S2). subst st5.
    bok H y st6 OR2. destruct y as [iv it]. destruct (of_result_ok _ _ _ _ _ OR2) as [-> ->].
    apply try_ok_inl in T1. destruct (parse_integer_sim_ok _ _ _ _ _ _ _ T1) as [Rit [Foit [_ Hsimi]]].
    bok H ftxt st6 FT.
    (* the fraction *)
    assert (Hfr : exists lf, run d lf st3 st4 /\ Forall okch lf /\ st6 = skip_char st4 35 /\
              (forall stx, (match fres with
                            | Some r => '(_, ft) <- of_result r ;; ret (Some ft)
                            | None => ret None
                            end) stx = (Ok ftxt, stx)) /\
              forall d' F' m3 m4, run d' lf m3 m4 -> get_char d' m4 = GChar 35 -> (length lf < F')%nat ->
                exists op', peek d' m3 = (Ok op', m3) /\
                  (if opt_is op' 46 then skip d' ;;; r <- try (parse_integer d' F' base false) ;; ret (Some r)
                   else ret None) m3 = (Ok fres, m4)).
    { destruct (opt_is op 46) eqn:E1.
      - destruct op as [c1|]; [|discriminate]. cbn [opt_is] in E1. apply N.eqb_eq in E1. subst c1.
        destruct (peek_ok_get _ _ _ _ P1) as [_ [G1 L1]].
        bok FR u3 st7 S3. pose proof (skip_ok_at _ _ _ _ _ G1 S3). subst st7.
        bok FR r st7 T2. unfold ret in FR. injection FR as <- <-.
        bok FT z st8 OR3. destruct z as [fv ft]. destruct (of_result_ok _ _ _ _ _ OR3) as [-> ->].
        unfold ret in FT. injection FT as <- <-.
        apply try_ok_inl in T2. destruct (parse_integer_sim_ok _ _ _ _ _ _ _ T2) as [Rft [Foft [_ Hsimf]]].
        exists (46 :: ft). split; [econstructor; eassumption|].
        split; [constructor; [split; [lia|discriminate]|exact Foft]|]. split; [reflexivity|].
        split; [intro stx; reflexivity|].
        intros d' F' m3 m4 R' G35 Lf. apply run_cons_inv in R'. destruct R' as [G1' R'].
        exists (Some 46). split; [apply peek_at'; [exact G1'|lia]|].
        cbn [opt_is]. rewrite N.eqb_refl. unfold bind at 1. rewrite (skip_at _ _ _ G1').
        unfold bind at 1. unfold try. cbn [length] in Lf.
        rewrite (Hsimf d' F' _ _ R') by (try llia; right; congruence). reflexivity.
      - unfold ret in FR. injection FR as <- <-. unfold ret in FT. injection FT as <- <-.
        exists []. split; [constructor|]. split; [constructor|]. split; [reflexivity|].
        split; [intro stx; reflexivity|].
        intros d' F' m3 m4 R' G35 Lf. apply run_nil_inv in R'. subst m4.
        exists (Some 35). split; [apply peek_at'; [exact G35|lia]|]. reflexivity. }
    destruct Hfr as [lf [Rlf [Folf [-> [Hft Hsimfr]]]]].
    cbv zeta in H.
    destruct (negb (in_range 2 16 base)) eqn:Erange; [discriminate|].
    bok H op3 st7 P3. pose proof (peek_ok_nomove _ _ _ _ P3). subst st7.
    bok H oexp st7 OE.
    (* the exponent *)
    assert (Hex : exists le, run d le (skip_char st4 35) st7 /\ Forall okch le /\
              forall d' F' m6 e', run d' le m6 e' -> nxt d' st7 e' -> (length le < F')%nat ->
                exists op3', peek d' m6 = (Ok op3', m6) /\
                  (match op3' with
                   | Some c => if is_e c then skip d' ;;; x <- parse_exponent d' F' ;; ret (Some (c, x)) else ret None
                   | None => ret None
                   end) m6 = (Ok oexp, e')).
    { assert (Hnone : match op3 with Some c => is_e c = false | None => True end ->
                ret None (skip_char st4 35) = (Ok oexp, st7) ->
                exists le, run d le (skip_char st4 35) st7 /\ Forall okch le /\
                  forall d' F' m6 e', run d' le m6 e' -> nxt d' st7 e' -> (length le < F')%nat ->
                    exists op3', peek d' m6 = (Ok op3', m6) /\
                      (match op3' with
                       | Some c => if is_e c then skip d' ;;; x <- parse_exponent d' F' ;; ret (Some (c, x)) else ret None
                       | None => ret None
                       end) m6 = (Ok oexp, e')).
      { intros Hop E. unfold ret in E. injection E as <- <-. exists []. split; [constructor|]. split; [constructor|].
        intros d' F' m6 e' R' N Lf. apply run_nil_inv in R'. subst e'.
        destruct (peek_nxt d _ _ _ _ _ P3 N) as [E|E]; eexists; (split; [exact E|]); [reflexivity|].
        destruct op3 as [c|]; [rewrite Hop|]; reflexivity. }
      destruct op3 as [c3|]; [|apply Hnone; [exact I|exact OE]].
      destruct (is_e c3) eqn:Ee; [|apply Hnone; [reflexivity|exact OE]].
      destruct (peek_ok_get _ _ _ _ P3) as [_ [G3 L3]].
      bok OE u4 st8 S4. pose proof (skip_ok_at _ _ _ _ _ G3 S4). subst st8.
      bok OE x st8 PE. destruct x as [[neg ev] et]. unfold ret in OE. injection OE as <- <-.
      destruct (parse_exponent_sim _ _ _ _ _ _ PE) as [Re [Foe Hsime]].
      exists (c3 :: et). split; [econstructor; eassumption|].
      split; [constructor; [split; [exact L3|intro E; subst c3; discriminate]|exact Foe]|].
      intros d' F' m6 e' R' N Lf. apply run_cons_inv in R'. destruct R' as [G3' R'].
      exists (Some c3). split; [apply peek_at'; assumption|]. rewrite Ee.
      unfold bind at 1. rewrite (skip_at _ _ _ G3'). unfold bind at 1. cbn [length] in Lf.
      rewrite (Hsime d' F' _ _ R' N) by llia. reflexivity. }
    destruct Hex as [le [Rle [Fole Hsimex]]].
    set (txt0 := bt ++ [35] ++ it ++ match ftxt with Some ft => [46] ++ ft | None => [] end ++ [35]) in *.
    set (txt1 := match oexp with Some (c, (_, _, et)) => txt0 ++ [c] ++ et | None => txt0 end) in *.
    (* the pure end of the arm *)
    assert (Hfin : st2 = st7 /\ forall (p0' : position) (stx : rstate),
              (match ftxt with
               | Some _ => ret (lit_real txt1)
               | None =>
                 match oexp with
                 | Some (_, (neg, ev, _)) =>
                   e <- get_pos ;;
                   if exp_is_neg neg ev then throw (TErr p0' e 10)
                   else if ev <=? 64 then
                     (if (base ^ ev <? TWO64) && (base ^ ev * iv <? TWO64)
                      then ret (lit_int txt1 (base ^ ev * iv))
                      else throw (TErr p0' e 4))
                   else throw (TErr p0' e 4)
                 | None => ret (lit_int txt1 iv)
                 end
               end) stx = (Ok (k, v), stx)).
    { destruct ftxt as [ft|].
      - unfold ret in H. injection H as <- <- <-. split; [reflexivity|]. intros p0' stx. reflexivity.
      - destruct oexp as [[c [[neg ev] et]]|].
        + bok H e st8 GP. pose proof (get_pos_ok _ _ _ GP). subst st8.
          destruct (exp_is_neg neg ev); [discriminate|]. destruct (ev <=? 64); [|discriminate].
          destruct ((base ^ ev <? TWO64) && (base ^ ev * iv <? TWO64)); [|discriminate].
          unfold ret in H. injection H as <- <- <-. split; [reflexivity|]. intros p0' stx. reflexivity.
        + unfold ret in H. injection H as <- <- <-. split; [reflexivity|]. intros p0' stx. reflexivity. }
    destruct Hfin as [-> Hfin].
    exists (it ++ lf ++ [35] ++ le). split.
    { econstructor; [exact G|]. eapply run_app; [exact Rit|]. eapply run_app; [exact Rlf|].
      econstructor; [exact G2|exact Rle]. }
    split.
    { apply Forall_app; split; [exact Foit|]. apply Forall_app; split; [exact Folf|].
      constructor; [split; [lia|discriminate]|exact Fole]. }
    split.
    { intro E. apply app_eq_nil in E. destruct E as [_ E]. apply app_eq_nil in E. destruct E as [_ E]. discriminate. }
    intros d' F' p0' pai' st' e' R' N Lf. apply run_cons_inv in R'. destruct R' as [G' R'].
    apply run_app_inv in R'. destruct R' as [m3 [Ra R']]. apply run_app_inv in R'. destruct R' as [m4 [Rb R']].
    cbn [app] in R'. apply run_cons_inv in R'. destruct R' as [G2' Rc].
    cbn [length] in Lf. rewrite !app_length in Lf. cbn [length] in Lf.
    assert (N3 : nxt d' st3 m3).
    { eapply nxt_back; [exact Rlf|exact Rb|]. right. congruence. }
    destruct (Hsimfr d' F' m3 m4 Rb G2') as [op' [P1' FR']]; [llia|].
    destruct (Hsimex d' F' _ e' Rc N) as [op3' [P3' OE']]; [llia|].
    unfold abs_based. unfold of_result at 1. unfold bind at 1. unfold ret at 1.
    unfold bind at 1. rewrite (skip_at _ _ _ G'). unfold bind at 1. unfold try at 1.
    rewrite (Hsimi d' F' _ _ Ra N3) by llia.
    unfold bind at 1. rewrite P1'. unfold bind at 1. rewrite FR'.
    unfold bind at 1. rewrite (peek_at' _ _ _ G2' L2). cbn [opt_is]. rewrite N.eqb_refl.
    unfold bind at 1. rewrite (skip_at _ _ _ G2'). unfold bind at 1. unfold of_result at 1. unfold ret at 1.
    unfold bind at 1. rewrite Hft. cbv zeta. rewrite Erange.
    unfold bind at 1. rewrite P3'. unfold bind at 1. rewrite OE'.
    apply Hfin.
  Qed.

  Lemma abs_based_sim_58 : forall F p0 pai base bt st k v st2, get_char d st = GChar 58 ->
    abs_based d F 58 p0 pai (inl (base, bt)) st = (Ok (k, v), st2) ->
    exists l, run d (58 :: l) st st2 /\ Forall okch l /\ l <> [] /\
      forall d' F' p0' pai' st' e', run d' (58 :: l) st' e' -> nxt d' st2 e' -> (length (58%N :: l) < F')%nat ->
        abs_based d' F' 58 p0' pai' (inl (base, bt)) st' = (Ok (k, v), e').
  Proof.
    intros F p0 pai base bt st k v st2 G H. unfold abs_based in H.
    unfold of_result at 1 in H. bok H x st1 OR. unfold ret in OR. injection OR as <- <-.
    bok H u sa S. pose proof (skip_ok_at _ _ _ _ _ G S). subst sa.
    bok H bres st3 T1.
    bok H op st4 P1. pose proof (peek_ok_nomove _ _ _ _ P1). subst st4.
    bok H fres st4 FR.
    bok H op2 st5 P2. pose proof (peek_ok_nomove _ _ _ _ P2). subst st5.
    destruct (opt_is op2 58) eqn:E2; [|bok H e st6 GP; discriminate].
    destruct op2 as [c2|]; [|discriminate]. cbn [opt_is] in E2. apply N.eqb_eq in E2. subst c2.
    destruct (peek_ok_get _ _ _ _ P2) as [_ [G2 L2]].
    bok H u2 st5 S2. pose proof (skip_ok_at _ _ _ _ _ G2 S2). subst st5.
    bok H y st6 OR2. destruct y as [iv it]. destruct (of_result_ok _ _ _ _ _ OR2) as [-> ->].
    apply try_ok_inl in T1. destruct (parse_integer_sim_ok _ _ _ _ _ _ _ T1) as [Rit [Foit [_ Hsimi]]].
    bok H ftxt st6 FT.
    (* the fraction *)
    assert (Hfr : exists lf, run d lf st3 st4 /\ Forall okch lf /\ st6 = skip_char st4 58 /\
              (forall stx, (match fres with
                            | Some r => '(_, ft) <- of_result r ;; ret (Some ft)
                            | None => ret None
                            end) stx = (Ok ftxt, stx)) /\
              forall d' F' m3 m4, run d' lf m3 m4 -> get_char d' m4 = GChar 58 -> (length lf < F')%nat ->
                exists op', peek d' m3 = (Ok op', m3) /\
                  (if opt_is op' 46 then skip d' ;;; r <- try (parse_integer d' F' base false) ;; ret (Some r)
                   else ret None) m3 = (Ok fres, m4)).
    { destruct (opt_is op 46) eqn:E1.
      - destruct op as [c1|]; [|discriminate]. cbn [opt_is] in E1. apply N.eqb_eq in E1. subst c1.
        destruct (peek_ok_get _ _ _ _ P1) as [_ [G1 L1]].
        bok FR u3 st7 S3. pose proof (skip_ok_at _ _ _ _ _ G1 S3). subst st7.
        bok FR r st7 T2. unfold ret in FR. injection FR as <- <-.
        bok FT z st8 OR3. destruct z as [fv ft]. destruct (of_result_ok _ _ _ _ _ OR3) as [-> ->].
        unfold ret in FT. injection FT as <- <-.
        apply try_ok_inl in T2. destruct (parse_integer_sim_ok _ _ _ _ _ _ _ T2) as [Rft [Foft [_ Hsimf]]].
        exists (46 :: ft). split; [econstructor; eassumption|].
        split; [constructor; [split; [lia|discriminate]|exact Foft]|]. split; [reflexivity|].
        split; [intro stx; reflexivity|].
        intros d' F' m3 m4 R' G35 Lf. apply run_cons_inv in R'. destruct R' as [G1' R'].
        exists (Some 46). split; [apply peek_at'; [exact G1'|lia]|].
        cbn [opt_is]. rewrite N.eqb_refl. unfold bind at 1. rewrite (skip_at _ _ _ G1').
        unfold bind at 1. unfold try. cbn [length] in Lf.
        rewrite (Hsimf d' F' _ _ R') by (try llia; right; congruence). reflexivity.
      - unfold ret in FR. injection FR as <- <-. unfold ret in FT. injection FT as <- <-.
        exists []. split; [constructor|]. split; [constructor|]. split; [reflexivity|].
        split; [intro stx; reflexivity|].
        intros d' F' m3 m4 R' G35 Lf. apply run_nil_inv in R'. subst m4.
        exists (Some 58). split; [apply peek_at'; [exact G35|lia]|]. reflexivity. }
    destruct Hfr as [lf [Rlf [Folf [-> [Hft Hsimfr]]]]].
    cbv zeta in H.
    destruct (negb (in_range 2 16 base)) eqn:Erange; [discriminate|].
    bok H op3 st7 P3. pose proof (peek_ok_nomove _ _ _ _ P3). subst st7.
    bok H oexp st7 OE.
    (* the exponent *)
    assert (Hex : exists le, run d le (skip_char st4 58) st7 /\ Forall okch le /\
              forall d' F' m6 e', run d' le m6 e' -> nxt d' st7 e' -> (length le < F')%nat ->
                exists op3', peek d' m6 = (Ok op3', m6) /\
                  (match op3' with
                   | Some c => if is_e c then skip d' ;;; x <- parse_exponent d' F' ;; ret (Some (c, x)) else ret None
                   | None => ret None
                   end) m6 = (Ok oexp, e')).
    { assert (Hnone : match op3 with Some c => is_e c = false | None => True end ->
                ret None (skip_char st4 58) = (Ok oexp, st7) ->
                exists le, run d le (skip_char st4 58) st7 /\ Forall okch le /\
                  forall d' F' m6 e', run d' le m6 e' -> nxt d' st7 e' -> (length le < F')%nat ->
                    exists op3', peek d' m6 = (Ok op3', m6) /\
                      (match op3' with
                       | Some c => if is_e c then skip d' ;;; x <- parse_exponent d' F' ;; ret (Some (c, x)) else ret None
                       | None => ret None
                       end) m6 = (Ok oexp, e')).
      { intros Hop E. unfold ret in E. injection E as <- <-. exists []. split; [constructor|]. split; [constructor|].
        intros d' F' m6 e' R' N Lf. apply run_nil_inv in R'. subst e'.
        destruct (peek_nxt d _ _ _ _ _ P3 N) as [E|E]; eexists; (split; [exact E|]); [reflexivity|].
        destruct op3 as [c|]; [rewrite Hop|]; reflexivity. }
      destruct op3 as [c3|]; [|apply Hnone; [exact I|exact OE]].
      destruct (is_e c3) eqn:Ee; [|apply Hnone; [reflexivity|exact OE]].
      destruct (peek_ok_get _ _ _ _ P3) as [_ [G3 L3]].
      bok OE u4 st8 S4. pose proof (skip_ok_at _ _ _ _ _ G3 S4). subst st8.
      bok OE x st8 PE. destruct x as [[neg ev] et]. unfold ret in OE. injection OE as <- <-.
      destruct (parse_exponent_sim _ _ _ _ _ _ PE) as [Re [Foe Hsime]].
      exists (c3 :: et). split; [econstructor; eassumption|].
      split; [constructor; [split; [exact L3|intro E; subst c3; discriminate]|exact Foe]|].
      intros d' F' m6 e' R' N Lf. apply run_cons_inv in R'. destruct R' as [G3' R'].
      exists (Some c3). split; [apply peek_at'; assumption|]. rewrite Ee.
      unfold bind at 1. rewrite (skip_at _ _ _ G3'). unfold bind at 1. cbn [length] in Lf.
      rewrite (Hsime d' F' _ _ R' N) by llia. reflexivity. }
    destruct Hex as [le [Rle [Fole Hsimex]]].
    set (txt0 := bt ++ [58] ++ it ++ match ftxt with Some ft => [46] ++ ft | None => [] end ++ [58]) in *.
    set (txt1 := match oexp with Some (c, (_, _, et)) => txt0 ++ [c] ++ et | None => txt0 end) in *.
    (* the pure end of the arm *)
    assert (Hfin : st2 = st7 /\ forall (p0' : position) (stx : rstate),
              (match ftxt with
               | Some _ => ret (lit_real txt1)
               | None =>
                 match oexp with
                 | Some (_, (neg, ev, _)) =>
                   e <- get_pos ;;
                   if exp_is_neg neg ev then throw (TErr p0' e 10)
                   else if ev <=? 64 then
                     (if (base ^ ev <? TWO64) && (base ^ ev * iv <? TWO64)
                      then ret (lit_int txt1 (base ^ ev * iv))
                      else throw (TErr p0' e 4))
                   else throw (TErr p0' e 4)
                 | None => ret (lit_int txt1 iv)
                 end
               end) stx = (Ok (k, v), stx)).
    { destruct ftxt as [ft|].
      - unfold ret in H. injection H as <- <- <-. split; [reflexivity|]. intros p0' stx. reflexivity.
      - destruct oexp as [[c [[neg ev] et]]|].
        + bok H e st8 GP. pose proof (get_pos_ok _ _ _ GP). subst st8.
          destruct (exp_is_neg neg ev); [discriminate|]. destruct (ev <=? 64); [|discriminate].
          destruct ((base ^ ev <? TWO64) && (base ^ ev * iv <? TWO64)); [|discriminate].
          unfold ret in H. injection H as <- <- <-. split; [reflexivity|]. intros p0' stx. reflexivity.
        + unfold ret in H. injection H as <- <- <-. split; [reflexivity|]. intros p0' stx. reflexivity. }
    destruct Hfin as [-> Hfin].
    exists (it ++ lf ++ [58] ++ le). split.
    { econstructor; [exact G|]. eapply run_app; [exact Rit|]. eapply run_app; [exact Rlf|].
      econstructor; [exact G2|exact Rle]. }
    split.
    { apply Forall_app; split; [exact Foit|]. apply Forall_app; split; [exact Folf|].
      constructor; [split; [lia|discriminate]|exact Fole]. }
    split.
    { intro E. apply app_eq_nil in E. destruct E as [_ E]. apply app_eq_nil in E. destruct E as [_ E]. discriminate. }
    intros d' F' p0' pai' st' e' R' N Lf. apply run_cons_inv in R'. destruct R' as [G' R'].
    apply run_app_inv in R'. destruct R' as [m3 [Ra R']]. apply run_app_inv in R'. destruct R' as [m4 [Rb R']].
    cbn [app] in R'. apply run_cons_inv in R'. destruct R' as [G2' Rc].
    cbn [length] in Lf. rewrite !app_length in Lf. cbn [length] in Lf.
    assert (N3 : nxt d' st3 m3).
    { eapply nxt_back; [exact Rlf|exact Rb|]. right. congruence. }
    destruct (Hsimfr d' F' m3 m4 Rb G2') as [op' [P1' FR']]; [llia|].
    destruct (Hsimex d' F' _ e' Rc N) as [op3' [P3' OE']]; [llia|].
    unfold abs_based. unfold of_result at 1. unfold bind at 1. unfold ret at 1.
    unfold bind at 1. rewrite (skip_at _ _ _ G'). unfold bind at 1. unfold try at 1.
    rewrite (Hsimi d' F' _ _ Ra N3) by llia.
    unfold bind at 1. rewrite P1'. unfold bind at 1. rewrite FR'.
    unfold bind at 1. rewrite (peek_at' _ _ _ G2' L2). cbn [opt_is]. rewrite N.eqb_refl.
    unfold bind at 1. rewrite (skip_at _ _ _ G2'). unfold bind at 1. unfold of_result at 1. unfold ret at 1.
    unfold bind at 1. rewrite Hft. cbv zeta. rewrite Erange.
    unfold bind at 1. rewrite P3'. unfold bind at 1. rewrite OE'.
    apply Hfin.
  Qed.

  Lemma abs_based_sim : forall dl F p0 pai base bt st k v st2, dl = 35 \/ dl = 58 -> get_char d st = GChar dl ->
    abs_based d F dl p0 pai (inl (base, bt)) st = (Ok (k, v), st2) ->
    exists l, run d (dl :: l) st st2 /\ Forall okch l /\ l <> [] /\
      forall d' F' p0' pai' st' e', run d' (dl :: l) st' e' -> nxt d' st2 e' -> (length (dl :: l) < F')%nat ->
        abs_based d' F' dl p0' pai' (inl (base, bt)) st' = (Ok (k, v), e').
  Proof.
    intros dl F p0 pai base bt st k v st2 [->| ->] G H;
      [exact (abs_based_sim_35 _ _ _ _ _ _ _ _ _ G H)|exact (abs_based_sim_58 _ _ _ _ _ _ _ _ _ G H)].
  Qed.

  (* the error of the integer scan is kept but its positions are never looked at *)
  Definition isame (a b : (N * list N) + terr) : Prop :=
    match a, b with
    | inl x, inl y => x = y
    | inr _, inr _ => True
    | _, _ => False
    end.

  Definition pal_cont (D : list (list char)) (F : nat) (st0 : rstate) (pai : position)
             (initial : (N * list N) + terr) : M (kind * value) :=
    onx <- peek_lowercase D ;;
    match onx with
    | None => abs_plain initial
    | Some c =>
      if c =? 46 then abs_real D F st0 pai initial
      else if c =? 101 then abs_int_exp D F (r_pos st0) initial
      else if c =? 35 then abs_based D F 35 (r_pos st0) pai initial
      else if c =? 58 then
        (b <- colon_starts_based_literal D ;;
         if b then abs_based D F 58 (r_pos st0) pai initial else abs_plain initial)
      else if is_bs_letter c then abs_bit_string D F (r_pos st0) initial
      else abs_plain initial
    end.

  Lemma parse_abstract_literal_sim : forall F st k v st2, Forall lf_last d -> RInv d st ->
    parse_abstract_literal d F st = (Ok (k, v), st2) ->
    exists l, run d l st st2 /\ Forall okch l /\
      forall d' F' st' e', Forall lf_last d' -> RInv d' st' -> run d' l st' e' -> get_char d' e' = GEof ->
        (length l < F')%nat -> parse_abstract_literal d' F' st' = (Ok (k, v), e').
  Proof.
    intros F st k v st2 HD HI H. unfold parse_abstract_literal in H.
    bok H st0 sx GS. unfold get_state in GS. injection GS as <- <-.
    bok H initial st1 T.
    assert (HT : exists r, parse_integer d F 10 true st = (r, st1) /\ (forall a, r <> Ab a) /\
                   match initial with inl x => r = Ok x | inr e => r = Er e end).
    { unfold try in T. destruct (parse_integer d F 10 true st) as [[x|e|a] sx] eqn:PI; try discriminate;
        injection T as <- <-; eexists; (split; [reflexivity|]); (split; [intros a E; discriminate|reflexivity]). }
    destruct HT as [r [PI [Hab Hr]]]. clear T.
    bok H pai sx GP. pose proof (get_pos_ok _ _ _ GP). subst sx. unfold get_pos in GP. injection GP as <-.
    fold (pal_cont d F st (r_pos st1) initial) in H.
    destruct (parse_integer_sim _ _ _ _ _ _ PI Hab) as [[e0 Pe]|[li [Rli [Foli [Hok Hsimi]]]]].
    { exfalso. unfold pal_cont, peek_lowercase in H. unfold bind at 1 in H. unfold bind at 1 in H.
      rewrite Pe in H. discriminate. }
    (* d' side up to the dispatch *)
    assert (Hpre : forall d' F' st' m1', run d' li st' m1' -> nxt d' st1 m1' -> (length li < F')%nat ->
              exists initial', isame initial initial' /\
                parse_abstract_literal d' F' st' = pal_cont d' F' st' (r_pos m1') initial' m1').
    { intros d' F' st' m1' Ra N Lf. destruct (Hsimi d' F' st' m1' Ra N Lf) as [r' [PI' RS]].
      unfold parse_abstract_literal. unfold bind at 1, get_state at 1. unfold bind at 1. unfold try. rewrite PI'.
      destruct initial as [x|e]; subst r; destruct r' as [y|e'|a]; cbn [rsame] in RS; try contradiction.
      - subst y. exists (inl x). split; [reflexivity|]. reflexivity.
      - exists (inr e'). split; [exact I|]. reflexivity. }
    assert (Hinl : forall iv it, initial = inl (iv, it) -> it = li /\ Forall (fun b => intch 10 b = true) li).
    { intros iv it E. subst initial. apply (Hok iv it). exact Hr. }
    assert (Hplain : abs_plain initial st1 = (Ok (k, v), st2) ->
              exists l, run d l st st2 /\ Forall okch l /\
                forall d' F' st' e', Forall lf_last d' -> RInv d' st' -> run d' l st' e' -> get_char d' e' = GEof ->
                  (length l < F')%nat -> parse_abstract_literal d' F' st' = (Ok (k, v), e')).
    { intros E. unfold abs_plain in E. destruct initial as [[iv it]|e]; [|discriminate].
      unfold of_result, bind, ret in E. injection E as <- <- <-.
      exists li. split; [exact Rli|]. split; [exact Foli|].
      intros d' F' st' e' HD' HI' R' Ee Lf.
      destruct (Hpre d' F' st' e' R' (or_introl Ee) Lf) as [initial' [IS E']].
      rewrite E'. destruct initial' as [y|e]; cbn [isame] in IS; [|contradiction]. subst y.
      unfold pal_cont, peek_lowercase. unfold bind at 1. unfold bind at 1. rewrite (peek_eof _ _ Ee). reflexivity. }
    unfold pal_cont in H. bok H onx sx PL.
    assert (sx = st1) by (eapply peek_lowercase_nomove; exact PL). subst sx.
    destruct onx as [c|]; [|apply Hplain; exact H].
    pose proof PL as PL0. unfold peek_lowercase in PL0. bok PL0 ob sx P. pose proof (peek_ok_nomove _ _ _ _ P). subst sx. unfold ret in PL0. injection PL0 as E0.
    destruct ob as [c0|]; cbn [option_map] in E0; [|discriminate]. injection E0 as <-.
    destruct (peek_ok_get _ _ _ _ P) as [_ [G0 L0]].
    (* d' side for the arms that consume c0 *)
    assert (Hdisp : forall d' F' st' m1' e' l2, run d' li st' m1' -> run d' (c0 :: l2) m1' e' ->
              (length li < F')%nat ->
              exists initial', isame initial initial' /\
                parse_abstract_literal d' F' st' =
                (if lowercase c0 =? 46 then abs_real d' F' st' (r_pos m1') initial'
                 else if lowercase c0 =? 101 then abs_int_exp d' F' (r_pos st') initial'
                 else if lowercase c0 =? 35 then abs_based d' F' 35 (r_pos st') (r_pos m1') initial'
                 else if lowercase c0 =? 58 then
                   (b <- colon_starts_based_literal d' ;;
                    if b then abs_based d' F' 58 (r_pos st') (r_pos m1') initial' else abs_plain initial')
                 else if is_bs_letter (lowercase c0) then abs_bit_string d' F' (r_pos st') initial'
                 else abs_plain initial') m1').
    { intros d' F' st' m1' e' l2 Ra Rb Lf. pose proof Rb as Rb0. apply run_cons_inv in Rb0. destruct Rb0 as [G0' _].
      assert (N : nxt d' st1 m1') by (right; congruence).
      destruct (Hpre d' F' st' m1' Ra N Lf) as [initial' [IS E']]. exists initial'. split; [exact IS|].
      rewrite E'. unfold pal_cont. unfold bind at 1. rewrite (peek_lowercase_at _ _ _ G0' L0). reflexivity. }
    destruct (lowercase c0 =? 46) eqn:E46.
    - (* real *)
      apply N.eqb_eq in E46. assert (c0 = 46) by (apply (lowercase_fix c0 46 E46); reflexivity). subst c0.
      destruct (abs_real_sim _ _ _ _ _ _ _ _ _ Rli Foli G0 (fun iv it E => proj2 (Hinl iv it E)) H) as [r1 [R1 [For1 Hsim]]].
      exists (li ++ 46 :: r1). split; [eapply run_app; eassumption|].
      split; [apply Forall_app; split; [exact Foli|constructor; [split; [lia|discriminate]|exact For1]]|].
      intros d' F' st' e' HD' HI' R' Ee Lf. pose proof (or_introl Ee : nxt d' st2 e') as N.
      apply run_app_inv in R'. destruct R' as [m1' [Ra Rb]].
      assert (Lf1 : (length li < F')%nat) by (rewrite app_length in Lf; llia).
      destruct (Hdisp d' F' st' m1' e' r1 Ra Rb Lf1) as [initial' [_ E']]. rewrite E'.
      cbv iota. apply Hsim; assumption.
    - destruct (lowercase c0 =? 101) eqn:E101.
      + (* integer with exponent *)
        assert (Hlf : forall c, get_char d st1 = GChar c -> c <> LF).
        { intros c Gc. assert (c = c0) by congruence. subst c. apply lowercase_lf. apply N.eqb_eq in E101. rewrite E101. discriminate. }
        destruct initial as [[iv it]|e]; [|unfold abs_int_exp, of_result, bind, throw in H; discriminate].
        destruct (abs_int_exp_sim _ _ _ _ _ _ _ _ Hlf H) as [c' [l2 [R2 [Fo2 Hsim]]]].
        assert (c' = c0) by (apply run_cons_inv in R2; destruct R2 as [G2 _]; congruence). subst c'.
        exists (li ++ c0 :: l2). split; [eapply run_app; eassumption|]. split; [apply Forall_app; auto|].
        intros d' F' st' e' HD' HI' R' Ee Lf. pose proof (or_introl Ee : nxt d' st2 e') as N.
      apply run_app_inv in R'. destruct R' as [m1' [Ra Rb]].
        rewrite app_length in Lf.
        destruct (Hdisp d' F' st' m1' e' l2 Ra Rb) as [initial' [IS E']]; [llia|]. rewrite E'.
        destruct initial' as [y|e]; cbn [isame] in IS; [|contradiction]. subst y.
        cbv iota. apply Hsim; [exact Rb|exact N|llia].
      + destruct (lowercase c0 =? 35) eqn:E35.
        * (* based literal *)
          apply N.eqb_eq in E35. apply lowercase_35 in E35. subst c0.
          destruct initial as [[iv it]|e]; [|unfold abs_based, of_result, bind, throw in H; discriminate].
          destruct (abs_based_sim 35 _ _ _ _ _ _ _ _ _ (or_introl eq_refl) G0 H) as [l2 [R2 [Fo2 [_ Hsim]]]].
          exists (li ++ 35 :: l2). split; [eapply run_app; eassumption|].
          split; [apply Forall_app; split; [exact Foli|constructor; [split; [lia|discriminate]|exact Fo2]]|].
          intros d' F' st' e' HD' HI' R' Ee Lf. pose proof (or_introl Ee : nxt d' st2 e') as N.
      apply run_app_inv in R'. destruct R' as [m1' [Ra Rb]].
          rewrite app_length in Lf.
          destruct (Hdisp d' F' st' m1' e' l2 Ra Rb) as [initial' [IS E']]; [llia|]. rewrite E'.
          destruct initial' as [y|e]; cbn [isame] in IS; [|contradiction]. subst y.
          cbv iota. apply Hsim; [exact Rb|exact N|llia].
        * destruct (lowercase c0 =? 58) eqn:E58.
          { (* ':' : based literal with replacement characters, or a plain integer followed by a colon *)
            apply N.eqb_eq in E58. apply lowercase_58 in E58. subst c0.
            bok H b sx CS.
            assert (Hcs : sx = st1 /\ (b = true -> exists n, get_char d (skip_char st1 58) = GChar n /\ n < 256 /\ is_alnum n = true)).
            { unfold colon_starts_based_literal in CS. unfold colon_lookahead in CS. unfold bind at 1 in CS.
              rewrite (skip_at _ _ _ G0) in CS. unfold try in CS.
              destruct (peek d (skip_char st1 58)) as [[[n|]|e|a] sy] eqn:Pn; try discriminate; injection CS as <- <-; (split; [reflexivity|]);
                try (intro E; discriminate).
              intro E. destruct (peek_ok_get _ _ _ _ Pn) as [_ [Gn Ln]]. exists n. auto. }
            destruct Hcs as [-> Hn]. destruct b; [|apply Hplain; exact H].
            destruct (Hn eq_refl) as [n [Gn [Ln An]]].
            destruct initial as [[iv it]|e]; [|unfold abs_based, of_result, bind, throw in H; discriminate].
            destruct (abs_based_sim 58 _ _ _ _ _ _ _ _ _ (or_intror eq_refl) G0 H) as [l2 [R2 [Fo2 [Hne2 Hsim]]]].
            destruct l2 as [|n' l2']; [congruence|].
            assert (n' = n).
            { pose proof R2 as R0. apply run_cons_inv in R0. destruct R0 as [_ R0]. apply run_cons_inv in R0.
              destruct R0 as [Gn' _]. congruence. }
            subst n'.
            exists (li ++ 58 :: n :: l2'). split; [eapply run_app; eassumption|].
            split; [apply Forall_app; split; [exact Foli|constructor; [split; [lia|discriminate]|exact Fo2]]|].
            intros d' F' st' e' HD' HI' R' Ee Lf. pose proof (or_introl Ee : nxt d' st2 e') as N.
            apply run_app_inv in R'. destruct R' as [m1' [Ra Rb]].
            rewrite app_length in Lf.
            destruct (Hdisp d' F' st' m1' e' (n :: l2') Ra Rb) as [initial' [IS E']]; [llia|]. rewrite E'.
            destruct initial' as [y|e]; cbn [isame] in IS; [|contradiction]. subst y.
            cbv iota.
            pose proof Rb as Rb0. apply run_cons_inv in Rb0. destruct Rb0 as [G0' Rb0].
            apply run_cons_inv in Rb0. destruct Rb0 as [Gn' _].
            unfold bind at 1. unfold colon_starts_based_literal, colon_lookahead. unfold bind at 1.
            rewrite (skip_at _ _ _ G0'). unfold try. rewrite (peek_at' _ _ _ Gn' Ln). rewrite An.
            apply Hsim; [exact Rb|exact N|llia]. }
          destruct (is_bs_letter (lowercase c0)) eqn:Ebs.
          -- (* bit string with a length *)
             destruct initial as [[iv it]|e]; [|unfold abs_bit_string, of_result, bind, throw in H; discriminate].
             destruct (abs_bit_string_sim _ _ _ _ _ _ _ _ _ HD HI Rli Foli H) as [l2 [R2 [Hne [Fo2 Hsim]]]].
             exists (li ++ l2). split; [eapply run_app; eassumption|]. split; [apply Forall_app; auto|].
             intros d' F' st' e' HD' HI' R' Ee Lf. pose proof (or_introl Ee : nxt d' st2 e') as N.
      apply run_app_inv in R'. destruct R' as [m1' [Ra Rb]].
             rewrite app_length in Lf.
             destruct l2 as [|c' l2']; [congruence|].
             assert (c' = c0) by (apply run_cons_inv in R2; destruct R2 as [G2 _]; congruence). subst c'.
             destruct (Hdisp d' F' st' m1' e' l2' Ra Rb) as [initial' [IS E']]; [llia|]. rewrite E'.
             destruct initial' as [y|e]; cbn [isame] in IS; [|contradiction]. subst y.
             cbv iota. apply (Hsim d' F' st' m1' e' HD' HI' Ra Rb N). llia.
          -- apply Hplain; exact H.
  Qed.
End SimAbs.

(* a strict advance of the reader never returns to the same state *)
Lemma sadv_irrefl : forall d st, sadv d st st -> False.
Proof.
  intros d st A. pose proof (sadv_plt _ _ _ A) as Pl. rewrite plt_irrefl in Pl. discriminate.
Qed.
